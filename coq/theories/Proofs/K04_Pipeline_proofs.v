(* Proofs about the normalise / threshold / iterate loop of Model/K04_EM.v (over Qc). *)
From Coq Require Import List Arith Bool Lia ZArith QArith Qcanon.
From VZ Require Import Model.K02_Windows Model.K03_Cooc Model.K03_Exec Model.K04_EM
     Proofs.K03_BigSum Proofs.K02_Windows_proofs Proofs.K02_Qc_proofs Proofs.K04_EM_proofs.
Import ListNotations.
Local Open Scope Qc_scope.

Definition row_nonneg (r : list (nat * Qc)) : Prop := Forall (fun cv : nat * Qc => 0 <= snd cv) r.
Definition rows_nonneg (M : rows) : Prop := Forall row_nonneg M.

(* the part of row r that lies in column c *)
Definition row_part (c : nat) (r : list (nat * Qc)) : Qc :=
  qsum (map (fun cv : nat * Qc => if Nat.eqb (fst cv) c then snd cv else 0) r).

Lemma col_sum_rows : forall M c, col_sum M c = qsum (map (row_part c) M).
Proof. reflexivity. Qed.

Lemma qsum_le_pointwise : forall A (f g : A -> Qc) l, (forall x, In x l -> f x <= g x) -> qsum (map f l) <= qsum (map g l).
Proof.
  induction l; intros H; [apply Qcle_refl|]. cbn [map]. rewrite !qsum_cons.
  apply Qcplus_le_compat; [apply H; left; reflexivity | apply IHl; intros; apply H; right; assumption].
Qed.

Lemma qsum_ext : forall A (f g : A -> Qc) l, (forall x, In x l -> f x = g x) -> qsum (map f l) = qsum (map g l).
Proof.
  induction l; intros H; [reflexivity|]. cbn [map]. rewrite !qsum_cons, IHl by (intros; apply H; right; assumption).
  rewrite H by (left; reflexivity). reflexivity.
Qed.

Lemma row_part_nonneg : forall c r, row_nonneg r -> 0 <= row_part c r.
Proof.
  intros c r H. unfold row_part. apply qsum_nonneg. rewrite Forall_forall. intros x Hx.
  apply in_map_iff in Hx. destruct Hx as [cv [<- Hin]]. unfold row_nonneg in H. rewrite Forall_forall in H.
  destruct (Nat.eqb (fst cv) c); [apply H; assumption | apply Qcle_refl].
Qed.

Lemma col_sum_nonneg : forall M c, rows_nonneg M -> 0 <= col_sum M c.
Proof.
  intros M c H. rewrite col_sum_rows. apply qsum_nonneg. rewrite Forall_forall. intros x Hx.
  apply in_map_iff in Hx. destruct Hx as [r [<- Hin]]. apply row_part_nonneg.
  unfold rows_nonneg in H. rewrite Forall_forall in H. apply H. assumption.
Qed.

Lemma entry_le_col_sum : forall M r cv, rows_nonneg M -> In r M -> In cv r -> snd cv <= col_sum M (fst cv).
Proof.
  intros M r cv HM Hr Hcv. unfold rows_nonneg in HM. rewrite Forall_forall in HM.
  apply Qcle_trans with (row_part (fst cv) r).
  - unfold row_part.
    apply (qsum_ge_elem (map (fun cv0 : nat * Qc => if Nat.eqb (fst cv0) (fst cv) then snd cv0 else 0) r)).
    + rewrite Forall_forall. intros x Hx. apply in_map_iff in Hx. destruct Hx as [cv0 [<- Hin]].
      specialize (HM r Hr). unfold row_nonneg in HM. rewrite Forall_forall in HM.
      destruct (Nat.eqb (fst cv0) (fst cv)); [apply HM; assumption | apply Qcle_refl].
    + apply in_map_iff. exists cv. rewrite Nat.eqb_refl. split; [reflexivity | assumption].
  - rewrite col_sum_rows. apply (qsum_ge_elem (map (row_part (fst cv)) M)).
    + rewrite Forall_forall. intros x Hx. apply in_map_iff in Hx. destruct Hx as [r0 [<- Hin]].
      apply row_part_nonneg. apply HM. assumption.
    + apply in_map_iff. exists r. split; [reflexivity | assumption].
Qed.

(* ---------- column L1 normalisation ---------- *)

Definition norm_cell (M : rows) (cv : nat * Qc) : nat * Qc :=
  (fst cv, if qgtb0 (col_sum M (fst cv)) then snd cv / col_sum M (fst cv) else snd cv).

Lemma normalize_cols_map : forall M, normalize_cols M = map (map (norm_cell M)) M.
Proof. reflexivity. Qed.

Lemma row_part_normalized : forall M c r, 0 < col_sum M c ->
  row_part c (map (norm_cell M) r) = row_part c r / col_sum M c.
Proof.
  intros M c r HS. unfold row_part. rewrite map_map.
  rewrite <- qsum_map_div by (apply Qclt_neq0; assumption). rewrite map_map.
  apply qsum_ext. intros cv _. unfold norm_cell. simpl fst. simpl snd.
  destruct (Nat.eqb_spec (fst cv) c) as [->|].
  - unfold qgtb0. destruct (@gtb0 QcK (col_sum M c)) eqn:E; [reflexivity|].
    apply gtb0_false in E. exfalso. apply (Qclt_not_le _ _ HS E).
  - unfold Qcdiv. ring.
Qed.

Theorem normalize_cols_colsum_pos : forall M c, 0 < col_sum M c -> col_sum (normalize_cols M) c = 1.
Proof.
  intros M c HS. rewrite col_sum_rows, normalize_cols_map, map_map.
  rewrite (qsum_ext _ _ (fun r => row_part c r / col_sum M c)) by (intros; apply row_part_normalized; assumption).
  rewrite <- (map_map (row_part c) (fun x => x / col_sum M c)).
  rewrite qsum_map_div by (apply Qclt_neq0; assumption). rewrite <- col_sum_rows.
  field. apply Qclt_neq0. assumption.
Qed.

Lemma all_zero_of_colsum : forall M r cv, rows_nonneg M -> In r M -> In cv r -> col_sum M (fst cv) <= 0 -> snd cv = 0.
Proof.
  intros M r cv HM Hr Hcv HS. apply Qcle_antisym.
  - eapply Qcle_trans; [eapply entry_le_col_sum; eassumption | assumption].
  - unfold rows_nonneg in HM. rewrite Forall_forall in HM. specialize (HM r Hr).
    unfold row_nonneg in HM. rewrite Forall_forall in HM. apply HM. assumption.
Qed.

Theorem normalize_cols_colsum_zero : forall M c, rows_nonneg M -> col_sum M c <= 0 -> col_sum (normalize_cols M) c = 0.
Proof.
  intros M c HM HS. rewrite col_sum_rows, normalize_cols_map, map_map.
  apply qsum_all_zero. rewrite Forall_forall. intros x Hx. apply in_map_iff in Hx. destruct Hx as [r [<- Hr]].
  unfold row_part. rewrite map_map. apply qsum_all_zero. rewrite Forall_forall. intros y Hy.
  apply in_map_iff in Hy. destruct Hy as [cv [<- Hcv]]. unfold norm_cell. simpl fst. simpl snd.
  destruct (Nat.eqb_spec (fst cv) c) as [Hc|]; [|reflexivity].
  assert (Hz : snd cv = 0) by (eapply all_zero_of_colsum; try eassumption; rewrite Hc; assumption).
  rewrite Hz. destruct (qgtb0 (col_sum M (fst cv))); [unfold Qcdiv; ring | reflexivity].
Qed.

Theorem normalize_cols_range : forall M r' cv', rows_nonneg M -> In r' (normalize_cols M) -> In cv' r' ->
  0 <= snd cv' <= 1.
Proof.
  intros M r' cv' HM Hr Hcv. rewrite normalize_cols_map in Hr. apply in_map_iff in Hr. destruct Hr as [r [<- Hr]].
  apply in_map_iff in Hcv. destruct Hcv as [cv [<- Hcv]]. unfold norm_cell. simpl snd.
  assert (Hnn : 0 <= snd cv).
  { unfold rows_nonneg in HM. rewrite Forall_forall in HM. specialize (HM r Hr). unfold row_nonneg in HM.
    rewrite Forall_forall in HM. apply HM. assumption. }
  unfold qgtb0. destruct (@gtb0 QcK (col_sum M (fst cv))) eqn:E.
  - apply gtb0_true in E. split; [apply Qcdiv_nonneg; assumption|].
    apply Qcdiv_le_1; [eapply entry_le_col_sum; eassumption | assumption].
  - apply gtb0_false in E. assert (Hz : snd cv = 0) by (eapply all_zero_of_colsum; eassumption).
    rewrite Hz. split; [apply Qcle_refl | discriminate].
Qed.

Lemma normalize_cols_nonneg : forall M, rows_nonneg M -> rows_nonneg (normalize_cols M).
Proof.
  intros M HM. unfold rows_nonneg. rewrite Forall_forall. intros r' Hr. unfold row_nonneg. rewrite Forall_forall.
  intros cv' Hcv. apply (normalize_cols_range M r' cv' HM Hr Hcv).
Qed.

(* ---------- threshold and eliminate_zeros ---------- *)

Definition thr_cell (eps : Qc) (cv : nat * Qc) : nat * Qc := (fst cv, if qltb (snd cv) eps then 0 else snd cv).

Lemma thr_cell_le : forall eps cv, 0 <= snd cv -> 0 <= snd (thr_cell eps cv) <= snd cv.
Proof.
  intros eps cv H. unfold thr_cell. simpl. destruct (qltb (snd cv) eps); split; try assumption; apply Qcle_refl.
Qed.

Lemma threshold_nonneg : forall eps M, rows_nonneg M -> rows_nonneg (threshold eps M).
Proof.
  intros eps M HM. unfold rows_nonneg, threshold. rewrite Forall_forall. intros r' Hr.
  apply in_map_iff in Hr. destruct Hr as [r [<- Hr]]. unfold row_nonneg. rewrite Forall_forall. intros cv' Hcv.
  apply in_map_iff in Hcv. destruct Hcv as [cv [<- Hcv]].
  unfold rows_nonneg in HM. rewrite Forall_forall in HM. specialize (HM r Hr). unfold row_nonneg in HM.
  rewrite Forall_forall in HM. apply (thr_cell_le eps cv (HM cv Hcv)).
Qed.

Lemma threshold_colsum_le : forall eps M c, rows_nonneg M -> col_sum (threshold eps M) c <= col_sum M c.
Proof.
  intros eps M c HM. rewrite !col_sum_rows. unfold threshold. rewrite map_map.
  apply qsum_le_pointwise. intros r Hr. unfold row_part. rewrite map_map. apply qsum_le_pointwise. intros cv Hcv.
  unfold rows_nonneg in HM. rewrite Forall_forall in HM. specialize (HM r Hr). unfold row_nonneg in HM.
  rewrite Forall_forall in HM. specialize (HM cv Hcv). simpl fst.
  destruct (Nat.eqb (fst cv) c); [apply (thr_cell_le eps cv HM) | apply Qcle_refl].
Qed.

Lemma qltb_false_of_nonneg : forall v eps, eps <= 0 -> 0 <= v -> qltb v eps = false.
Proof.
  intros v eps He Hv. unfold qltb. apply negb_false_iff. apply Qle_bool_iff.
  change (eps <= v). eapply Qcle_trans; eassumption.
Qed.

Lemma threshold_zero : forall eps M, eps <= 0 -> rows_nonneg M -> threshold eps M = M.
Proof.
  intros eps M He HM. unfold threshold. rewrite <- (map_id M) at 2. apply map_ext_in. intros r Hr.
  rewrite <- (map_id r) at 2. apply map_ext_in. intros cv Hcv.
  unfold rows_nonneg in HM. rewrite Forall_forall in HM. specialize (HM r Hr). unfold row_nonneg in HM.
  rewrite Forall_forall in HM. rewrite qltb_false_of_nonneg by (try assumption; apply HM; assumption).
  destruct cv; reflexivity.
Qed.

Lemma qeqb0_true : forall x : Qc, qeqb0 x = true -> x = 0.
Proof.
  intros x H. unfold qeqb0 in H. apply Qeq_bool_iff in H. apply Qc_is_canon. exact H.
Qed.

Lemma eliminate_zeros_colsum : forall M c, col_sum (eliminate_zeros M) c = col_sum M c.
Proof.
  intros M c. rewrite !col_sum_rows. unfold eliminate_zeros. rewrite map_map. apply qsum_ext. intros r _.
  unfold row_part. induction r as [|cv r IH]; [reflexivity|]. cbn [filter map].
  destruct (qeqb0 (snd cv)) eqn:E; cbn [negb].
  - rewrite qsum_cons, IH. apply qeqb0_true in E. rewrite E. destruct (Nat.eqb (fst cv) c); ring.
  - cbn [map]. rewrite !qsum_cons, IH. reflexivity.
Qed.

Lemma eliminate_zeros_incl : forall M r', In r' (eliminate_zeros M) -> exists r, In r M /\ incl r' r.
Proof.
  intros M r' H. unfold eliminate_zeros in H. apply in_map_iff in H. destruct H as [r [<- Hr]].
  exists r. split; [assumption|]. intros x Hx. apply filter_In in Hx. tauto.
Qed.

(* ---------- post_process: range and column sums ---------- *)

Theorem post_process_range : forall eps M r cv, rows_nonneg M -> In r (post_process eps M) -> In cv r -> 0 <= snd cv <= 1.
Proof.
  intros eps M r cv HM Hr Hcv. unfold post_process in Hr. apply eliminate_zeros_incl in Hr.
  destruct Hr as [r1 [Hr1 Hincl]]. apply Hincl in Hcv. unfold threshold in Hr1. apply in_map_iff in Hr1.
  destruct Hr1 as [r2 [<- Hr2]]. apply in_map_iff in Hcv. destruct Hcv as [cv2 [<- Hcv2]].
  pose proof (normalize_cols_range M r2 cv2 HM Hr2 Hcv2) as [H0 H1].
  pose proof (thr_cell_le eps cv2 H0) as [H2 H3]. split; [assumption | eapply Qcle_trans; eassumption].
Qed.

Theorem post_process_colsum_le : forall eps M c, rows_nonneg M -> col_sum (post_process eps M) c <= 1.
Proof.
  intros eps M c HM. unfold post_process. rewrite eliminate_zeros_colsum.
  eapply Qcle_trans; [apply threshold_colsum_le, normalize_cols_nonneg; assumption|].
  destruct (Qclt_le_dec 0 (col_sum M c)) as [Hp|Hz].
  - rewrite normalize_cols_colsum_pos by assumption. apply Qcle_refl.
  - rewrite normalize_cols_colsum_zero by assumption. discriminate.
Qed.

(* epsilon = 0: every column sums to 1, or is empty (sums to 0) *)
Theorem post_process_colsum_eps0 : forall eps M c, eps <= 0 -> rows_nonneg M ->
  col_sum (post_process eps M) c = 1 \/ col_sum (post_process eps M) c = 0.
Proof.
  intros eps M c He HM. unfold post_process. rewrite eliminate_zeros_colsum.
  rewrite threshold_zero by (try assumption; apply normalize_cols_nonneg; assumption).
  destruct (Qclt_le_dec 0 (col_sum M c)) as [Hp|Hz].
  - left. apply normalize_cols_colsum_pos. assumption.
  - right. apply normalize_cols_colsum_zero; assumption.
Qed.

Lemma post_process_nonneg : forall eps M, rows_nonneg M -> rows_nonneg (post_process eps M).
Proof.
  intros eps M HM. unfold rows_nonneg. rewrite Forall_forall. intros r Hr. unfold row_nonneg. rewrite Forall_forall.
  intros cv Hcv. apply (post_process_range eps M r cv HM Hr Hcv).
Qed.

(* ---------- the EM step keeps values non-negative whatever the prior ---------- *)

Local Close Scope Qc_scope.
Local Open Scope nat_scope.

Lemma add_at_nonneg : forall (l : list Qc) i (v : Qc), Forall (fun x => (0 <= x)%Qc) l -> (0 <= v)%Qc ->
  Forall (fun x => (0 <= x)%Qc) (@add_at QcK l i v).
Proof.
  induction l; intros i v Hl Hv; [destruct i; constructor|]. inversion Hl; subst. destruct i; simpl.
  - constructor; [|assumption]. replace (Q2Qc 0) with (0 + 0)%Qc by ring. apply Qcplus_le_compat; assumption.
  - constructor; [assumption | apply IHl; assumption].
Qed.

Lemma em_write_nonneg : forall lo (slots : list (nat * Qc)) (post : list Qc),
  Forall (fun x => (0 <= x)%Qc) post -> Forall (fun x => (0 <= x)%Qc) (@em_write QcK lo post slots).
Proof.
  intros lo slots. unfold em_write. induction slots as [|s slots IH]; intros post H; cbn [fold_left]; [assumption|].
  apply IH. match goal with |- context [if ?c then _ else _] => destruct c eqn:E end; [|assumption].
  apply add_at_nonneg; [assumption|]. apply Qclt_le_weak. apply gtb0_true. exact E.
Qed.

Lemma em_iteration_nonneg : forall indices indptr (prior : list Qc) n (occs : list (occurrence QcK)),
  Forall (fun x => (0 <= x)%Qc) (@em_iteration QcK indices indptr prior n occs).
Proof.
  intros. unfold em_iteration.
  match goal with |- Forall _ (fold_left _ _ ?l) =>
    assert (H0 : Forall (fun x : Qc => (0 <= x)%Qc) l)
      by (rewrite Forall_forall; intros x Hx; apply repeat_spec in Hx; subst; apply Qcle_refl);
    generalize dependent l end.
  induction occs as [|o occs IH]; intros post H; cbn [fold_left]; [assumption|].
  apply IH. unfold em_update, em_update_gen. apply em_write_nonneg. assumption.
Qed.

Lemma reshape_nonneg : forall M (d : list Qc), Forall (fun x => (0 <= x)%Qc) d -> rows_nonneg (reshape M d).
Proof.
  induction M as [|r M IH]; intros d Hd; cbn [reshape]; [constructor|]. constructor.
  - unfold row_nonneg. rewrite Forall_forall. intros [c v] Hcv. apply in_combine_r in Hcv. simpl snd.
    rewrite Forall_forall in Hd. apply Hd. rewrite <- (firstn_skipn (length r) d). apply in_or_app. left. assumption.
  - apply IH. rewrite Forall_forall in *. intros x Hx. apply Hd.
    rewrite <- (firstn_skipn (length r) d). apply in_or_app. right. assumption.
Qed.

Lemma em_step_nonneg : forall n occs M, rows_nonneg (em_step n occs M).
Proof. intros. unfold em_step. apply reshape_nonneg. apply em_iteration_nonneg. Qed.

(* ---------- the pipeline: order of the operations, and its consequences ---------- *)

Definition em_round (eps : Qc) (n : nat) (occs : list (occurrence QcK)) (M : rows) : rows :=
  post_process eps (em_step n occs M).

Lemma iter_succ_r : forall A (f : A -> A) k x, Nat.iter (S k) f x = Nat.iter k f (f x).
Proof.
  induction k; intros; [reflexivity|].
  change (Nat.iter (S (S k)) f x) with (f (Nat.iter (S k) f x)). rewrite IHk. reflexivity.
Qed.

Lemma iterate_em_iter : forall k eps n occs M, iterate_em k eps n occs M = Nat.iter k (em_round eps n occs) M.
Proof.
  induction k; intros; [reflexivity|]. cbn [iterate_em]. rewrite IHk.
  rewrite iter_succ_r. reflexivity.
Qed.

Theorem pipeline_order : forall n_iter eps n occs M0,
  pipeline n_iter eps n occs M0 =
  Nat.iter n_iter (em_round eps n occs) (if (0 <? n_iter) || qgtb0 eps then post_process eps M0 else M0).
Proof. intros. unfold pipeline. apply iterate_em_iter. Qed.

Lemma pipeline_is_post_process : forall n_iter eps n occs M0, rows_nonneg M0 -> (0 < n_iter \/ (0 < eps)%Qc) ->
  exists X, rows_nonneg X /\ pipeline n_iter eps n occs M0 = post_process eps X.
Proof.
  intros n_iter eps n occs M0 HM H. rewrite pipeline_order. destruct n_iter as [|k].
  - destruct H as [H|H]; [lia|]. exists M0. split; [assumption|]. simpl.
    apply gtb0_true in H. unfold qgtb0. rewrite H. reflexivity.
  - cbn [Nat.iter]. unfold em_round at 1. eexists. split; [apply em_step_nonneg | reflexivity].
Qed.

Theorem pipeline_range : forall n_iter eps n occs M0 r cv, rows_nonneg M0 -> (0 < n_iter \/ (0 < eps)%Qc) ->
  In r (pipeline n_iter eps n occs M0) -> In cv r -> (0 <= snd cv <= 1)%Qc.
Proof.
  intros n_iter eps n occs M0 r cv HM H Hr Hcv.
  destruct (pipeline_is_post_process n_iter eps n occs M0 HM H) as [X [HX E]]. rewrite E in Hr.
  apply (post_process_range eps X r cv HX Hr Hcv).
Qed.

Theorem pipeline_colsum : forall n_iter eps n occs M0 c, rows_nonneg M0 -> (0 < n_iter \/ (0 < eps)%Qc) ->
  (col_sum (pipeline n_iter eps n occs M0) c <= 1)%Qc /\
  ((eps <= 0)%Qc -> col_sum (pipeline n_iter eps n occs M0) c = 1%Qc \/ col_sum (pipeline n_iter eps n occs M0) c = 0%Qc).
Proof.
  intros n_iter eps n occs M0 c HM H.
  destruct (pipeline_is_post_process n_iter eps n occs M0 HM H) as [X [HX E]]. rewrite E. split.
  - apply post_process_colsum_le. assumption.
  - intros He. apply post_process_colsum_eps0; assumption.
Qed.

(* ---------- support never grows ---------- *)

(* row-wise: the columns present in M' are among those of M *)
Definition sub_support (M' M : rows) : Prop := Forall2 (fun r' r : list (nat * Qc) => incl (map fst r') (map fst r)) M' M.

Lemma sub_support_refl : forall M, sub_support M M.
Proof. induction M; constructor; [apply incl_refl | assumption]. Qed.

Lemma sub_support_trans : forall A B C', sub_support A B -> sub_support B C' -> sub_support A C'.
Proof.
  intros A B C' H. revert C'. induction H; intros C' H2; inversion H2; subst; constructor.
  - eapply incl_tran; eassumption.
  - apply IHForall2. assumption.
Qed.

Lemma sub_support_map : forall (f : list (nat * Qc) -> list (nat * Qc)) M,
  (forall r, incl (map fst (f r)) (map fst r)) -> sub_support (map f M) M.
Proof. intros f M H. induction M; constructor; [apply H | assumption]. Qed.

Lemma post_process_support : forall eps M, sub_support (post_process eps M) M.
Proof.
  intros eps M. unfold post_process.
  apply sub_support_trans with (threshold eps (normalize_cols M)).
  - apply sub_support_map. intros r x Hx. apply in_map_iff in Hx. destruct Hx as [cv [<- Hcv]].
    apply filter_In in Hcv. apply in_map. tauto.
  - apply sub_support_trans with (normalize_cols M).
    + apply sub_support_map. intros r. rewrite map_map. simpl. apply incl_refl.
    + rewrite normalize_cols_map. apply sub_support_map. intros r. rewrite map_map. simpl. apply incl_refl.
Qed.

Lemma reshape_support : forall M d, sub_support (reshape M d) M.
Proof.
  induction M as [|r M IH]; intros d; cbn [reshape]; constructor; [|apply IH].
  intros x Hx. apply in_map_iff in Hx. destruct Hx as [[c v] [<- Hcv]]. apply in_combine_l in Hcv. exact Hcv.
Qed.

Theorem pipeline_support : forall n_iter eps n occs M0, sub_support (pipeline n_iter eps n occs M0) M0.
Proof.
  intros. rewrite pipeline_order.
  set (M1 := if (0 <? n_iter) || qgtb0 eps then post_process eps M0 else M0).
  assert (H1 : sub_support M1 M0) by (unfold M1; destruct ((0 <? n_iter) || qgtb0 eps); [apply post_process_support | apply sub_support_refl]).
  clearbody M1. induction n_iter as [|k IH]; [exact H1|]. cbn [Nat.iter].
  eapply sub_support_trans; [|exact IH]. unfold em_round.
  eapply sub_support_trans; [apply post_process_support|]. unfold em_step. apply reshape_support.
Qed.
