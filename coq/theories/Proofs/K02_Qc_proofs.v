(* The rational carrier QcK: commutative-monoid laws, the positivity test, sums of non-negative lists,
   L1 normalisation (normalised kernels sum to 1 or are all 0). *)
From Coq Require Import List Arith Bool Lia QArith Qcanon.
From VZ Require Import Model.K02_Windows Model.K03_Cooc Model.K03_Exec Proofs.K03_BigSum.
Import ListNotations.
Local Open Scope Qc_scope.

Lemma QcK_laws : carrier_laws QcK.
Proof.
  constructor; simpl; intros.
  - apply Qcplus_comm.
  - apply Qcplus_assoc.
  - apply Qcplus_0_l.
Qed.

Lemma gtb0_true : forall x : Qc, @gtb0 QcK x = true <-> 0 < x.
Proof.
  intros x. simpl. rewrite negb_true_iff. split; intros H.
  - apply Qcnot_le_lt. intros Hle. unfold Qcle in Hle. apply Qle_bool_iff in Hle. simpl in Hle. congruence.
  - destruct (Qle_bool (this x) 0) eqn:E; [|reflexivity].
    apply Qle_bool_iff in E. exfalso. apply (Qclt_not_le _ _ H). exact E.
Qed.

Lemma gtb0_false : forall x : Qc, @gtb0 QcK x = false <-> x <= 0.
Proof.
  intros x. split; intros H.
  - apply Qcnot_lt_le. intros Hlt. apply gtb0_true in Hlt. congruence.
  - destruct (@gtb0 QcK x) eqn:E; [|reflexivity]. apply gtb0_true in E. exfalso. apply (Qclt_not_le _ _ E H).
Qed.

Definition qsum (l : list Qc) : Qc := @tsum QcK l.

Lemma qsum_cons : forall a l, qsum (a :: l) = a + qsum l.
Proof. reflexivity. Qed.

Lemma qsum_nonneg : forall l, Forall (fun x => 0 <= x) l -> 0 <= qsum l.
Proof.
  induction 1; [apply Qcle_refl|]. rewrite qsum_cons.
  replace 0 with (0 + 0) by ring. apply Qcplus_le_compat; assumption.
Qed.

Lemma qsum_ge_elem : forall l x, Forall (fun x => 0 <= x) l -> In x l -> x <= qsum l.
Proof.
  induction l; intros x Hl Hin; [contradiction|]. inversion Hl; subst. rewrite qsum_cons.
  destruct Hin as [->|Hin].
  - replace x with (x + 0) at 1 by ring. apply Qcplus_le_compat; [apply Qcle_refl | apply qsum_nonneg; assumption].
  - replace x with (0 + x) by ring. apply Qcplus_le_compat; [assumption | apply IHl; assumption].
Qed.

Lemma qsum_zero_all : forall l, Forall (fun x => 0 <= x) l -> qsum l <= 0 -> Forall (fun x => x = 0) l.
Proof.
  intros l Hl Hs. rewrite Forall_forall. intros x Hx. apply Qcle_antisym.
  - eapply Qcle_trans; [apply qsum_ge_elem; eassumption | assumption].
  - rewrite Forall_forall in Hl. apply Hl. assumption.
Qed.

Lemma qsum_map_div : forall l s, s <> 0 -> qsum (map (fun x => x / s) l) = qsum l / s.
Proof.
  induction l; intros s Hs; cbn [map].
  - unfold qsum. simpl. field. assumption.
  - rewrite !qsum_cons, IHl by assumption. field. assumption.
Qed.

Lemma qsum_map_mul : forall l m, qsum (map (fun x => m * x) l) = m * qsum l.
Proof.
  induction l; intros m; cbn [map].
  - unfold qsum. simpl. ring.
  - rewrite !qsum_cons, IHl. ring.
Qed.

Lemma Qclt_neq0 : forall s : Qc, 0 < s -> s <> 0.
Proof. intros s H E. subst. apply (Qclt_not_le _ _ H). apply Qcle_refl. Qed.

(* a normalised list of non-negative weights sums to 1, or the list was (and stays) all zero *)
Theorem l1_normalize_sum : forall l : list Qc, Forall (fun x => 0 <= x) l ->
  (0 < qsum l /\ qsum (@l1_normalize QcK l) = 1) \/
  (Forall (fun x => x = 0) l /\ @l1_normalize QcK l = l).
Proof.
  intros l Hl. unfold l1_normalize. fold (qsum l). destruct (@gtb0 QcK (qsum l)) eqn:E.
  - left. apply gtb0_true in E. split; [assumption|].
    change (qsum (map (fun x => x / qsum l) l) = 1). rewrite qsum_map_div by (apply Qclt_neq0; assumption).
    field. apply Qclt_neq0. assumption.
  - right. apply gtb0_false in E. split; [apply qsum_zero_all; assumption | reflexivity].
Qed.

Lemma Qcinv_pos : forall s : Qc, 0 < s -> 0 < / s.
Proof.
  intros s H. unfold Qclt in *. simpl in *. rewrite Qred_correct. apply Qinv_lt_0_compat. exact H.
Qed.

Lemma Qcdiv_nonneg : forall x s, 0 <= x -> 0 < s -> 0 <= x / s.
Proof.
  intros x s Hx Hs. unfold Qcdiv. replace 0 with (0 * / s) by ring.
  apply Qcmult_le_compat_r; [assumption|]. apply Qclt_le_weak. apply Qcinv_pos; assumption.
Qed.

Lemma Qcdiv_le_1 : forall x s, x <= s -> 0 < s -> x / s <= 1.
Proof.
  intros x s Hx Hs. replace 1 with (s / s) by (field; apply Qclt_neq0; assumption).
  unfold Qcdiv. apply Qcmult_le_compat_r; [assumption|]. apply Qclt_le_weak. apply Qcinv_pos; assumption.
Qed.

Lemma Qcmult_nonneg : forall x y, 0 <= x -> 0 <= y -> 0 <= x * y.
Proof. intros x y Hx Hy. replace 0 with (0 * y) by ring. apply Qcmult_le_compat_r; assumption. Qed.

Lemma Qcmult_pos : forall x y, 0 < x -> 0 < y -> 0 < x * y.
Proof.
  intros x y Hx Hy. destruct (Qcle_lt_or_eq _ _ (Qcmult_nonneg x y (Qclt_le_weak _ _ Hx) (Qclt_le_weak _ _ Hy))) as [H|H]; [assumption|].
  symmetry in H. apply Qcmult_integral in H. destruct H as [H|H]; subst; exfalso.
  - apply (Qclt_not_le _ _ Hx). apply Qcle_refl.
  - apply (Qclt_not_le _ _ Hy). apply Qcle_refl.
Qed.

(* on non-negative values the drivers' positivity filter is the identity *)
Lemma posv_nonneg : forall x : Qc, 0 <= x -> @posv QcK x = x.
Proof.
  intros x Hx. unfold posv. destruct (@gtb0 QcK x) eqn:E; [reflexivity|].
  apply gtb0_false in E. simpl. apply Qcle_antisym; assumption.
Qed.
