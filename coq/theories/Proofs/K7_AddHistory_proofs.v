(* Proofs about histories of '+' over a pool of fitted unigram models (Model/K7_AddHistory.v). *)
From Coq Require Import ZArith List Lia Bool Permutation Arith.
From VZ Require Import Model.K10_Assembly Model.K7_Ngrams Model.K7_AddHistory
                       Proofs.K10_Assembly_proofs Proofs.K7_Ngrams_proofs.
Import ListNotations.
Open Scope Z_scope.

(* m stands for the corpus X with columns ls: counts_ok, and no column without a token of X *)
Definition fits (m : uni_model) (ls : list Z) (X : list (list Z)) : Prop :=
  counts_ok m ls X /\ (forall l, In l ls -> In l (concat X)).

Lemma fits_fit X : fits (uni_fit X) (sort_uniq (concat X)) X.
Proof. split; [apply uni_fit_counts_ok|]. intros l H. apply sort_uniq_In. exact H. Qed.

Lemma fits_add ord a la Xa b lb Xb :
  fits a la Xa -> fits b lb Xb -> Permutation ord (disjoint_vocab a b) ->
  exists c, ng_add ord a b = Ok c /\ fits c (la ++ ord) (Xa ++ Xb).
Proof.
  intros [Ca Ha] [Cb Hb] P.
  destruct (ng_add_counts_ok ord a la Xa b lb Xb Ca Cb P) as [c [Hc Cc]].
  exists c. split; [exact Hc|]. split; [exact Cc|].
  intros l Hl. rewrite concat_app, in_app_iff. apply in_app_or in Hl. destruct Hl as [Hl|Hl].
  - left. apply Ha, Hl.
  - right. apply Hb. apply (Permutation_in _ P) in Hl.
    rewrite (disjoint_vocab_wf a la b lb) in Hl; [|apply Ca|apply Cb].
    apply filter_In in Hl. apply Hl.
Qed.

(* two models standing for the same corpus: same set of columns, same shape, same cells label by label *)
Lemma fits_unique m1 l1 m2 l2 X :
  fits m1 l1 X -> fits m2 l2 X ->
  (forall l, In l l1 <-> In l l2) /\
  nrows (u_train m1) = nrows (u_train m2) /\ ncols (u_train m1) = ncols (u_train m2) /\
  (forall i l j1 j2, (i < length X)%nat -> index_of l l1 = Some j1 -> index_of l l2 = Some j2 ->
     cell (entries (u_train m1)) (Z.of_nat i) j1 = cell (entries (u_train m2)) (Z.of_nat i) j2).
Proof.
  intros [[[N1 _] [Hn1 [Hc1 [_ [Ht1 Hcell1]]]]] Hs1] [[[N2 _] [Hn2 [Hc2 [_ [Ht2 Hcell2]]]]] Hs2].
  assert (Hsame : forall l, In l l1 <-> In l l2).
  { intros l. split; intros H.
    - apply Hs1 in H. apply in_concat in H. destruct H as [d [Hd Hl]]. eapply Ht2; eassumption.
    - apply Hs2 in H. apply in_concat in H. destruct H as [d [Hd Hl]]. eapply Ht1; eassumption. }
  split; [exact Hsame|]. split; [rewrite Hn1, Hn2; reflexivity|]. split.
  - rewrite Hc1, Hc2. f_equal. apply NoDup_same_length; assumption.
  - intros i l j1 j2 Hi H1 H2. rewrite (Hcell1 i l j1 Hi H1), (Hcell2 i l j2 Hi H2). reflexivity.
Qed.

(* ... in particular the model fitted on that corpus *)
Lemma fits_vs_fit m ls X :
  fits m ls X ->
  let f := uni_fit X in let lf := sort_uniq (concat X) in
  (forall l, In l ls <-> In l lf) /\
  nrows (u_train m) = nrows (u_train f) /\ ncols (u_train m) = ncols (u_train f) /\
  (forall i l j jf, (i < length X)%nat -> index_of l ls = Some j -> index_of l lf = Some jf ->
     cell (entries (u_train m)) (Z.of_nat i) j = cell (entries (u_train f)) (Z.of_nat i) jf).
Proof. intros F f lf. exact (fits_unique m ls f lf X F (fits_fit X)). Qed.

(* ---------------- the store ---------------- *)
Definition stands_for (m : uni_model) (X : list (list Z)) : Prop := exists ls, fits m ls X.

(* every step names two entries of the current store, and the python set of that call is iterated in some order *)
Fixpoint history_ok (st : list uni_model) (ops : list mop) : Prop :=
  match ops with
  | [] => True
  | Merge i j ord :: r =>
      exists a b, nth_error st i = Some a /\ nth_error st j = Some b /\
                  Permutation ord (disjoint_vocab a b) /\
                  forall c, ng_add ord a b = Ok c -> history_ok (st ++ [c]) r
  end.

Lemma Forall2_nth_error_l {A B} (R : A -> B -> Prop) l l' i a :
  Forall2 R l l' -> nth_error l i = Some a -> exists b, nth_error l' i = Some b /\ R a b.
Proof.
  intros F. revert i. induction F as [|x y l l' Hxy F IH]; intros [|i] H; cbn in H; try discriminate.
  - injection H as <-. exists y. split; [reflexivity|exact Hxy].
  - apply IH, H.
Qed.

Lemma Forall2_nth_error_r {A B} (R : A -> B -> Prop) l l' i b :
  Forall2 R l l' -> nth_error l' i = Some b -> exists a, nth_error l i = Some a /\ R a b.
Proof.
  intros F. revert i. induction F as [|x y l l' Hxy F IH]; intros [|i] H; cbn in H; try discriminate.
  - injection H as <-. exists x. split; [reflexivity|exact Hxy].
  - apply IH, H.
Qed.

Lemma Forall2_len {A B} (R : A -> B -> Prop) l l' : Forall2 R l l' -> length l = length l'.
Proof. induction 1; cbn; [reflexivity|f_equal; assumption]. Qed.

Lemma nth_error_nth_default {A} (l : list A) i d x : nth_error l i = Some x -> nth i l d = x.
Proof. revert i. induction l as [|y l IH]; intros [|i] H; cbn in *; try discriminate; [congruence|apply IH, H]. Qed.

Lemma hist_corpora_length ops : forall cs, length (hist_corpora cs ops) = (length cs + length ops)%nat.
Proof.
  induction ops as [|[i j ord] r IH]; intros cs; cbn [hist_corpora fold_left length]; [lia|].
  change (fold_left corpus_op r (corpus_op cs (Merge i j ord))) with (hist_corpora (corpus_op cs (Merge i j ord)) r).
  rewrite IH. cbn [corpus_op]. rewrite app_length. cbn [length]. lia.
Qed.

Lemma hist_corpora_prefix ops : forall cs, exists ext, hist_corpora cs ops = cs ++ ext.
Proof.
  induction ops as [|[i j ord] r IH]; intros cs; cbn [hist_corpora fold_left].
  - exists []. rewrite app_nil_r. reflexivity.
  - destruct (IH (corpus_op cs (Merge i j ord))) as [ext H]. unfold hist_corpora in H. rewrite H.
    cbn [corpus_op]. rewrite <- app_assoc. eexists. reflexivity.
Qed.

(* the history theorem: from any store whose entries stand for corpora, every valid sequence of merges succeeds,
   keeps every earlier entry, and every entry of the final store stands for the concatenation its history names *)
Theorem add_history_inv ops : forall st cs,
  Forall2 stands_for st cs -> history_ok st ops ->
  exists st', run_history st ops = Ok st' /\ (exists ext, st' = st ++ ext) /\
              Forall2 stands_for st' (hist_corpora cs ops).
Proof.
  induction ops as [|[i j ord] r IH]; intros st cs F H.
  - exists st. split; [reflexivity|]. split; [exists []; rewrite app_nil_r; reflexivity|exact F].
  - cbn [history_ok] in H. destruct H as [a [b [Ha [Hb [P Hrest]]]]].
    destruct (Forall2_nth_error_l _ _ _ _ _ F Ha) as [Xa [HXa [la Fa]]].
    destruct (Forall2_nth_error_l _ _ _ _ _ F Hb) as [Xb [HXb [lb Fb]]].
    destruct (fits_add ord a la Xa b lb Xb Fa Fb P) as [c [Hc Fc]].
    assert (F' : Forall2 stands_for (st ++ [c]) (corpus_op cs (Merge i j ord))).
    { cbn [corpus_op]. apply Forall2_app; [exact F|]. constructor; [|constructor].
      rewrite (nth_error_nth_default _ _ _ _ HXa), (nth_error_nth_default _ _ _ _ HXb). exists (la ++ ord). exact Fc. }
    destruct (IH (st ++ [c]) _ F' (Hrest c Hc)) as [st' [Hrun [[ext Hext] Fin]]].
    exists st'. split; [|split].
    + cbn [run_history run_op]. rewrite Ha, Hb, Hc. cbn [bind]. exact Hrun.
    + exists ([c] ++ ext). rewrite Hext, <- app_assoc. reflexivity.
    + exact Fin.
Qed.

Lemma pool_stands_for pool : Forall2 stands_for (map uni_fit pool) pool.
Proof.
  induction pool as [|X pool IH]; cbn [map]; constructor; [|exact IH].
  exists (sort_uniq (concat X)). apply fits_fit.
Qed.

Lemma nth_error_app_l {A} (l l' : list A) k x : nth_error l k = Some x -> nth_error (l ++ l') k = Some x.
Proof.
  intros H. rewrite nth_error_app1; [exact H|]. apply nth_error_Some. rewrite H. discriminate.
Qed.

(* over a pool of models fitted without pruning *)
Theorem add_history pool ops :
  history_ok (map uni_fit pool) ops ->
  exists st', run_history (map uni_fit pool) ops = Ok st' /\
    length st' = (length pool + length ops)%nat /\
    (* the operands are still the models they were *)
    (forall k X, nth_error pool k = Some X -> nth_error st' k = Some (uni_fit X)) /\
    (* every entry behaves like the model fitted on the concatenation its history names *)
    (forall k m, nth_error st' k = Some m ->
       let X := nth k (hist_corpora pool ops) [] in
       let f := uni_fit X in let lf := sort_uniq (concat X) in
       exists ls, counts_ok m ls X /\
         (forall l, In l ls <-> In l lf) /\
         nrows (u_train m) = nrows (u_train f) /\ ncols (u_train m) = ncols (u_train f) /\
         (forall i l j jf, (i < length X)%nat -> index_of l ls = Some j -> index_of l lf = Some jf ->
            cell (entries (u_train m)) (Z.of_nat i) j = cell (entries (u_train f)) (Z.of_nat i) jf) /\
         (forall b X' i l j, (i < length X')%nat -> index_of l ls = Some j ->
            cell (entries (ng_transform (uni_as_ng m b) X')) (Z.of_nat i) j
            = Z.of_nat (count_occ Z.eq_dec (nth i X' []) l))).
Proof.
  intros H.
  destruct (add_history_inv ops _ pool (pool_stands_for pool) H) as [st' [Hrun [[ext Hext] Fin]]].
  exists st'. split; [exact Hrun|]. split; [|split].
  - rewrite (Forall2_len _ _ _ Fin). rewrite hist_corpora_length. reflexivity.
  - intros k X Hk. rewrite Hext. apply nth_error_app_l. rewrite nth_error_map, Hk. reflexivity.
  - intros k m Hk X f lf.
    destruct (Forall2_nth_error_l _ _ _ _ _ Fin Hk) as [X0 [HX0 [ls Fm]]].
    assert (E : X = X0) by (unfold X; apply nth_error_nth_default; exact HX0). rewrite <- E in Fm.
    exists ls. split; [apply Fm|].
    destruct (fits_vs_fit m ls X Fm) as [H1 [H2 [H3 H4]]].
    split; [exact H1|]. split; [exact H2|]. split; [exact H3|]. split; [exact H4|].
    intros b X' i l j Hi Hj. apply (uni_transform_cell m ls); [apply Fm|exact Hi|exact Hj].
Qed.

(* one merge returns a new model; a merge with operands taken from a store leaves the store's entries in place *)
Lemma run_op_extends st o st' : run_op st o = Ok st' -> exists c, st' = st ++ [c].
Proof.
  destruct o as [i j ord]. cbn [run_op]. destruct (nth_error st i); [|discriminate].
  destruct (nth_error st j); [|discriminate]. destruct (ng_add ord u u0); cbn [bind]; [|discriminate].
  intros [= <-]. eexists. reflexivity.
Qed.

Theorem run_history_extends ops : forall st st',
  run_history st ops = Ok st' -> forall k m, nth_error st k = Some m -> nth_error st' k = Some m.
Proof.
  induction ops as [|o r IH]; intros st st' H k m Hk; cbn [run_history] in H.
  - injection H as <-. exact Hk.
  - destruct (run_op st o) as [st1|] eqn:E; cbn [bind] in H; [|discriminate].
    destruct (run_op_extends _ _ _ E) as [c ->]. apply (IH _ _ H). apply nth_error_app_l. exact Hk.
Qed.

(* ---------------- corollaries: associativity and commutativity up to the order of columns / row blocks -------- *)
Theorem add_assoc a la Xa b lb Xb c lc Xc o1 o2 o3 o4 ab abc bc abc' :
  fits a la Xa -> fits b lb Xb -> fits c lc Xc ->
  Permutation o1 (disjoint_vocab a b) -> ng_add o1 a b = Ok ab ->
  Permutation o2 (disjoint_vocab ab c) -> ng_add o2 ab c = Ok abc ->
  Permutation o3 (disjoint_vocab b c) -> ng_add o3 b c = Ok bc ->
  Permutation o4 (disjoint_vocab a bc) -> ng_add o4 a bc = Ok abc' ->
  let l1 := (la ++ o1) ++ o2 in let l2 := la ++ o4 in
  (forall l, In l l1 <-> In l l2) /\
  nrows (u_train abc) = nrows (u_train abc') /\ ncols (u_train abc) = ncols (u_train abc') /\
  (forall i l j1 j2, (i < length (Xa ++ Xb ++ Xc))%nat -> index_of l l1 = Some j1 -> index_of l l2 = Some j2 ->
     cell (entries (u_train abc)) (Z.of_nat i) j1 = cell (entries (u_train abc')) (Z.of_nat i) j2).
Proof.
  intros Fa Fb Fc P1 H1 P2 H2 P3 H3 P4 H4 l1 l2.
  destruct (fits_add o1 a la Xa b lb Xb Fa Fb P1) as [x [Hx Fab]]. rewrite H1 in Hx. injection Hx as <-.
  destruct (fits_add o2 ab _ _ c lc Xc Fab Fc P2) as [x [Hx Fabc]]. rewrite H2 in Hx. injection Hx as <-.
  destruct (fits_add o3 b lb Xb c lc Xc Fb Fc P3) as [x [Hx Fbc]]. rewrite H3 in Hx. injection Hx as <-.
  destruct (fits_add o4 a la Xa bc _ _ Fa Fbc P4) as [x [Hx Fabc']]. rewrite H4 in Hx. injection Hx as <-.
  rewrite <- (app_assoc Xa Xb Xc) in Fabc. exact (fits_unique _ _ _ _ _ Fabc Fabc').
Qed.

(* a + b and b + a: the same columns, and the same cells label by label once the two row blocks are swapped *)
Theorem add_comm a la Xa b lb Xb o1 o2 ab ba :
  fits a la Xa -> fits b lb Xb ->
  Permutation o1 (disjoint_vocab a b) -> ng_add o1 a b = Ok ab ->
  Permutation o2 (disjoint_vocab b a) -> ng_add o2 b a = Ok ba ->
  let l1 := la ++ o1 in let l2 := lb ++ o2 in
  (forall l, In l l1 <-> In l l2) /\
  nrows (u_train ab) = nrows (u_train ba) /\ ncols (u_train ab) = ncols (u_train ba) /\
  (forall i l j1 j2, index_of l l1 = Some j1 -> index_of l l2 = Some j2 ->
     ((i < length Xa)%nat ->
        cell (entries (u_train ab)) (Z.of_nat i) j1 = cell (entries (u_train ba)) (Z.of_nat (length Xb + i)) j2) /\
     ((i < length Xb)%nat ->
        cell (entries (u_train ab)) (Z.of_nat (length Xa + i)) j1 = cell (entries (u_train ba)) (Z.of_nat i) j2)).
Proof.
  intros Fa Fb P1 H1 P2 H2 l1 l2.
  destruct (fits_add o1 a la Xa b lb Xb Fa Fb P1) as [x [Hx [Cab Sab]]]. rewrite H1 in Hx. injection Hx as <-.
  destruct (fits_add o2 b lb Xb a la Xa Fb Fa P2) as [x [Hx [Cba Sba]]]. rewrite H2 in Hx. injection Hx as <-.
  fold l1 in Cab, Sab. fold l2 in Cba, Sba.
  destruct Cab as [[N1 _] [Hn1 [Hc1 [_ [Ht1 Hcell1]]]]]. destruct Cba as [[N2 _] [Hn2 [Hc2 [_ [Ht2 Hcell2]]]]].
  assert (Hsame : forall l, In l l1 <-> In l l2).
  { intros l. split; intros H.
    - apply Sab in H. apply in_concat in H. destruct H as [d [Hd Hl]]. apply (Ht2 d); [|exact Hl].
      apply in_app_or in Hd. apply in_or_app. tauto.
    - apply Sba in H. apply in_concat in H. destruct H as [d [Hd Hl]]. apply (Ht1 d); [|exact Hl].
      apply in_app_or in Hd. apply in_or_app. tauto. }
  split; [exact Hsame|]. split; [rewrite Hn1, Hn2, !app_length; lia|]. split.
  - rewrite Hc1, Hc2. f_equal. apply NoDup_same_length; assumption.
  - intros i l j1 j2 Hj1 Hj2. split; intros Hi.
    + rewrite (Hcell1 i l j1) by ((rewrite app_length; lia) || exact Hj1).
      rewrite (Hcell2 (length Xb + i)%nat l j2) by ((rewrite app_length; lia) || exact Hj2).
      rewrite app_nth1 by exact Hi. rewrite app_nth2 by lia.
      replace (length Xb + i - length Xb)%nat with i by lia. reflexivity.
    + rewrite (Hcell1 (length Xa + i)%nat l j1) by ((rewrite app_length; lia) || exact Hj1).
      rewrite (Hcell2 i l j2) by ((rewrite app_length; lia) || exact Hj2).
      rewrite app_nth2 by lia. rewrite app_nth1 by exact Hi.
      replace (length Xa + i - length Xa)%nat with i by lia. reflexivity.
Qed.
