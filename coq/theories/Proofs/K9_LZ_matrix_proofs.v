From Coq Require Import ZArith List Bool Lia Arith Permutation.
From VZ Require Import Model.K9_LZ Proofs.K9_LZ_proofs.
Import ListNotations.
Open Scope Z_scope.

(* ---------- sort_indices only permutes a row ---------- *)
Lemma insert_entry_perm e row : Permutation (insert_entry e row) (e :: row).
Proof.
  induction row as [|e' t IH]; simpl; [reflexivity|].
  destruct (fst e <=? fst e'); [reflexivity|].
  rewrite IH. apply perm_swap.
Qed.

Lemma sort_row_perm row : Permutation (sort_row row) row.
Proof.
  unfold sort_row. induction row as [|e t IH]; simpl; [reflexivity|].
  rewrite insert_entry_perm. constructor. exact IH.
Qed.

Lemma rcell_perm r1 r2 j : Permutation r1 r2 -> rcell r1 j = rcell r2 j.
Proof.
  induction 1 as [|[a n] l l' _ IH|[a n] [b m] l|l1 l2 l3 _ IH1 _ IH2]; simpl; try lia.
Qed.

Lemma rcell_app r1 r2 j : rcell (r1 ++ r2) j = rcell r1 j + rcell r2 j.
Proof. induction r1 as [|[a n] t IH]; simpl; [reflexivity | rewrite IH; lia]. Qed.

Section Assembly.
  Variable K : Type.
  Variable keqb : K -> K -> bool.
  Hypothesis keqb_spec : forall a b, keqb a b = true <-> a = b.
  Variable h : list Z -> K.
  Notation dict := (list (K * Z)).

  (* the (column, count) entries of a parse dictionary under a column dictionary; keys without a column are dropped *)
  Definition entries (cols d : dict) : list (Z * Z) :=
    flat_map (fun kv => match dget keqb cols (fst kv) with Some j => [(j, snd kv)] | None => [] end) d.

  Definition extends (cols cols' : dict) : Prop := exists ext, cols' = cols ++ ext.

  Lemma extends_refl cols : extends cols cols.
  Proof. exists []. rewrite app_nil_r. reflexivity. Qed.

  Lemma extends_trans a b c : extends a b -> extends b c -> extends a c.
  Proof. intros [e1 ->] [e2 ->]. exists (e1 ++ e2). rewrite app_assoc. reflexivity. Qed.

  Lemma dget_extends cols cols' k j : extends cols cols' -> dget keqb cols k = Some j -> dget keqb cols' k = Some j.
  Proof. intros [ext ->] H. apply dget_app_l. exact H. Qed.

  (* columns are positions: the j-th entry of the column dictionary carries column j *)
  Definition cols_ok (cols : dict) : Prop :=
    forall i k j, nth_error cols i = Some (k, j) -> j = Z.of_nat i.

  Lemma dget_nth (cols : dict) k j :
    dget keqb cols k = Some j -> exists i, nth_error cols i = Some (k, j).
  Proof.
    induction cols as [|[k' j'] t IH]; simpl; [discriminate|].
    destruct (keqb k k') eqn:E.
    - intros H; inversion H; subst. apply keqb_spec in E. subst. exists 0%nat. reflexivity.
    - intros H. destruct (IH H) as [i Hi]. exists (S i). exact Hi.
  Qed.

  Lemma cols_inj cols k1 k2 j :
    cols_ok cols -> dget keqb cols k1 = Some j -> dget keqb cols k2 = Some j -> k1 = k2.
  Proof.
    intros Hok H1 H2. apply dget_nth in H1 as [i1 H1]. apply dget_nth in H2 as [i2 H2].
    pose proof (Hok _ _ _ H1). pose proof (Hok _ _ _ H2). assert (i1 = i2) by lia. subst. congruence.
  Qed.

  Lemma cols_range cols k j : cols_ok cols -> dget keqb cols k = Some j -> 0 <= j < Z.of_nat (length cols).
  Proof.
    intros Hok H. apply dget_nth in H as [i Hi]. pose proof (Hok _ _ _ Hi).
    assert (i < length cols)%nat by (apply nth_error_Some; congruence). lia.
  Qed.

  (* ---------- counts_to_csr_data ---------- *)
  Lemma assign_cols_spec : forall d cols cols' es,
    assign_cols keqb cols d = (cols', es) ->
    extends cols cols' /\ es = entries cols' d /\
    (cols_ok cols -> cols_ok cols') /\
    (NoDup (keys cols) -> NoDup (keys cols')) /\
    (forall P : K -> Prop, Forall P (keys cols) -> Forall P (keys d) -> Forall P (keys cols')) /\
    Forall (fun k => dget keqb cols' k <> None) (keys d).
  Proof.
    induction d as [|[k v] t IH]; intros cols cols' es H; simpl in H.
    - inversion H; subst. repeat split; auto using extends_refl. constructor.
    - destruct (dget keqb cols k) as [j|] eqn:Ek.
      + destruct (assign_cols keqb cols t) as [c1 e1] eqn:Ea. inversion H; subst.
        destruct (IH _ _ _ Ea) as (Hext & Hes & Hok & Hnd & HP & Hall).
        split; [exact Hext|]. split.
        * unfold entries. simpl. rewrite (dget_extends _ _ _ _ Hext Ek). simpl. f_equal. exact Hes.
        * split; [exact Hok|]. split; [exact Hnd|]. split.
          -- intros P Hc Hd. inversion Hd; subst. apply HP; assumption.
          -- constructor; [simpl; rewrite (dget_extends _ _ _ _ Hext Ek); discriminate | exact Hall].
      + destruct (assign_cols keqb (cols ++ [(k, Z.of_nat (length cols))]) t) as [c1 e1] eqn:Ea. inversion H; subst.
        destruct (IH _ _ _ Ea) as (Hext & Hes & Hok & Hnd & HP & Hall).
        assert (Hk : dget keqb cols' k = Some (Z.of_nat (length cols))).
        { eapply dget_extends; [exact Hext|]. apply dget_app_new; assumption. }
        split; [eapply extends_trans; [|exact Hext]; eexists; reflexivity|]. split.
        * unfold entries. simpl. rewrite Hk. simpl. f_equal. exact Hes.
        * split; [|split; [|split]].
          -- intros Hc. apply Hok. intros i k' j' Hi.
             destruct (Nat.lt_ge_cases i (length cols)) as [Hlt|Hge].
             ++ rewrite nth_error_app1 in Hi by lia. eapply Hc; eauto.
             ++ rewrite nth_error_app2 in Hi by lia.
                destruct (i - length cols)%nat as [|m] eqn:Em; simpl in Hi; [|destruct m; discriminate].
                inversion Hi; subst. f_equal. lia.
          -- intros Hn. apply Hnd. unfold keys. rewrite map_app. simpl.
             apply NoDup_app_snoc; [exact Hn | apply (dget_None_notin K keqb keqb_spec); exact Ek].
          -- intros P Hc Hd. inversion Hd; subst. apply HP; [|assumption].
             unfold keys. rewrite map_app. apply Forall_app. split; [exact Hc | repeat constructor; assumption].
          -- constructor; [simpl; rewrite Hk; discriminate | exact Hall].
  Qed.

  Lemma entries_extends cols cols' d :
    extends cols cols' -> Forall (fun k => dget keqb cols k <> None) (keys d) -> entries cols' d = entries cols d.
  Proof.
    intros Hext. unfold entries, keys. induction d as [|[k v] t IH]; simpl; intros H; [reflexivity|].
    inversion H as [|? ? Hk Ht]; subst. simpl in Hk.
    destruct (dget keqb cols k) as [j|] eqn:E; [|congruence].
    rewrite (dget_extends _ _ _ _ Hext E). simpl. f_equal. apply IH. exact Ht.
  Qed.

  (* ---------- fit_transform: every row is transform's row under the FINAL column dictionary ---------- *)
  Theorem fit_rows_spec base cap : forall X cols colsF rows,
    fit_rows keqb h X base cap cols = (colsF, rows) ->
    extends cols colsF /\
    rows = map (lz_transform_row keqb h colsF base cap) X /\
    (cols_ok cols -> cols_ok colsF) /\
    (NoDup (keys cols) -> NoDup (keys colsF)) /\
    (forall P : K -> Prop, (forall q, P (h q)) -> Forall P (keys (input_dict keqb base)) ->
                           Forall P (keys cols) -> Forall P (keys colsF)).
  Proof.
    induction X as [|s X IH]; intros cols colsF rows H; simpl in H.
    - inversion H; subst. repeat split; auto using extends_refl.
    - destruct (assign_cols keqb cols (lz_encode keqb h s (input_dict keqb base) cap)) as [c1 es] eqn:Ea.
      destruct (fit_rows keqb h X base cap c1) as [c2 rs] eqn:Ef. inversion H; subst.
      destruct (assign_cols_spec _ _ _ _ Ea) as (Hext1 & Hes & Hok1 & Hnd1 & HP1 & Hall1).
      destruct (IH _ _ _ Ef) as (Hext2 & Hrows & Hok2 & Hnd2 & HP2).
      split; [eapply extends_trans; eauto|]. split.
      + simpl. f_equal; [|exact Hrows]. unfold lz_transform_row. fold (entries colsF (lz_encode keqb h s (input_dict keqb base) cap)).
        rewrite (entries_extends c1 colsF _ Hext2 Hall1). rewrite Hes. reflexivity.
      + split; [auto|]. split; [auto|]. intros P Hq Hb Hc. apply HP2; try assumption. apply HP1; [assumption|].
        rewrite (lz_encode_spec K keqb h). apply lz_spec_keys; assumption.
  Qed.

  (* ---------- pointwise reading of a row ---------- *)
  Lemma rcell_entries cols d g j :
    cols_ok cols -> NoDup (keys d) -> dget keqb cols g = Some j ->
    rcell (entries cols d) j = match dget keqb d g with Some v => v | None => 0 end.
  Proof.
    intros Hok. unfold entries, keys. induction d as [|[k v] t IH]; simpl; intros Hnd Hg; [reflexivity|].
    inversion Hnd as [|? ? Hnotin Hnd']; subst.
    rewrite rcell_app. rewrite (IH Hnd' Hg).
    destruct (keqb g k) eqn:E.
    - apply keqb_spec in E. subst k. rewrite Hg. simpl. rewrite Z.eqb_refl.
      assert (dget keqb t g = None) by (apply (dget_None_notin K keqb keqb_spec); exact Hnotin).
      rewrite H. lia.
    - destruct (dget keqb cols k) as [j'|] eqn:Ek; simpl; [|lia].
      destruct (j' =? j) eqn:Ej; [|lia].
      apply Z.eqb_eq in Ej. subst j'. assert (g = k) by (eapply cols_inj; eauto). subst.
      rewrite keqb_refl in E by assumption. discriminate.
  Qed.

  Lemma rcell_entries_none cols d j :
    (forall g, dget keqb cols g <> Some j) -> rcell (entries cols d) j = 0.
  Proof.
    intros Hno. unfold entries. induction d as [|[k v] t IH]; simpl; [reflexivity|].
    rewrite rcell_app, IH. destruct (dget keqb cols k) as [j'|] eqn:Ek; simpl; [|lia].
    destruct (j' =? j) eqn:Ej; [|lia]. apply Z.eqb_eq in Ej. subst. exfalso. eapply Hno; eauto.
  Qed.

  Lemma input_dict_nodup base : NoDup (keys (input_dict keqb base)).
  Proof.
    unfold input_dict.
    assert (Hgen : forall d, NoDup (keys d) -> NoDup (keys (fold_left (fun d kv => dset keqb d (fst kv) (snd kv)) base d))).
    { induction base as [|[k v] t IH]; intros d Hd; simpl; [exact Hd|]. apply IH.
      clear IH. unfold keys in *. induction d as [|[k' v'] d IHd]; simpl; [repeat constructor; auto|].
      inversion Hd as [|? ? Hnotin Hd']; subst. destruct (keqb k k') eqn:E; simpl.
      - constructor; assumption.
      - constructor; [|apply IHd; exact Hd'].
        intros Hin. apply Hnotin.
        assert (Hsub : forall x, In x (map fst (dset keqb d k v)) -> x = k \/ In x (map fst d)).
        { clear. induction d as [|[a b] d IH]; simpl; intros x Hx.
          - destruct Hx as [Hx|[]]. left. symmetry. exact Hx.
          - destruct (keqb k a); simpl in Hx.
            + destruct Hx as [Hx|Hx]; [right; left; exact Hx | right; right; exact Hx].
            + destruct Hx as [Hx|Hx]; [right; left; exact Hx|]. destruct (IH _ Hx) as [H|H]; [left; exact H | right; right; exact H]. }
        destruct (Hsub _ Hin) as [->|H]; [rewrite keqb_refl in E by assumption; discriminate | exact H]. }
    apply Hgen. constructor.
  Qed.

  (* the value of the row of s at the column of phrase label g is the count of g in the parse of s *)
  Theorem transform_row_cell cols base cap s g j :
    cols_ok cols -> dget keqb cols g = Some j ->
    rcell (lz_transform_row keqb h cols base cap s) j
    = match dget keqb (lz_encode keqb h s (input_dict keqb base) cap) g with Some v => v | None => 0 end.
  Proof.
    intros Hok Hg. unfold lz_transform_row.
    rewrite (rcell_perm _ _ j (sort_row_perm _)).
    apply (rcell_entries cols _ g j Hok); [|exact Hg].
    rewrite (lz_encode_spec K keqb h). apply (lz_spec_nodup K keqb keqb_spec). apply input_dict_nodup.
  Qed.

  Theorem transform_row_other cols base cap s j :
    (forall g, dget keqb cols g <> Some j) -> rcell (lz_transform_row keqb h cols base cap s) j = 0.
  Proof.
    intros Hno. unfold lz_transform_row. rewrite (rcell_perm _ _ j (sort_row_perm _)). apply rcell_entries_none. exact Hno.
  Qed.

  (* row total of a fit_transform row: every phrase has a column, so the total is the total of the parse *)
  Lemma rcell_total_entries cols d :
    Forall (fun k => dget keqb cols k <> None) (keys d) ->
    fold_right (fun e acc => snd e + acc) 0 (entries cols d) = total d.
  Proof.
    unfold entries, keys, total. induction d as [|[k v] t IH]; simpl; intros H; [reflexivity|].
    inversion H as [|? ? Hk Ht]; subst. simpl in Hk. destruct (dget keqb cols k); [|congruence]. simpl. rewrite IH by assumption. reflexivity.
  Qed.
End Assembly.

(* ---------- at most m columns when every label lies in [0, m) ---------- *)
Lemma nodup_range_length (l : list Z) m :
  0 <= m -> NoDup l -> Forall (fun x => 0 <= x < m) l -> Z.of_nat (length l) <= m.
Proof.
  intros Hm Hnd Hr.
  destruct (Z.eq_dec 0 0) as [_|]; [|lia].
  - assert (Hincl : incl (map Z.to_nat l) (seq 0 (Z.to_nat m))).
    { intros n Hn. apply in_map_iff in Hn as (x & <- & Hx). eapply Forall_forall in Hr; eauto. apply in_seq. lia. }
    assert (Hnd' : NoDup (map Z.to_nat l)).
    { clear Hincl. induction Hnd as [|x t Hx Ht IH]; simpl; [constructor|]. inversion Hr; subst. constructor; [|auto].
      intros Hin. apply in_map_iff in Hin as (y & Hy & Hyin). eapply Forall_forall in H2; eauto. simpl in H2.
      assert (x = y) by lia. subst. contradiction. }
    pose proof (NoDup_incl_length Hnd' Hincl) as Hlen. rewrite map_length, seq_length in Hlen. lia.
Qed.

Section RowRange.
  Variable K : Type.
  Variable keqb : K -> K -> bool.
  Hypothesis keqb_spec : forall a b, keqb a b = true <-> a = b.
  Variable h : list Z -> K.

  Lemma entries_in_range (cols d : list (K * Z)) :
    cols_ok K cols -> Forall (fun e => 0 <= fst e < Z.of_nat (length cols)) (entries K keqb cols d).
  Proof.
    intros Hok. unfold entries. induction d as [|[k v] t IH]; simpl; [constructor|].
    apply Forall_app. split; [|exact IH].
    destruct (dget keqb cols k) as [j|] eqn:E; [|constructor].
    repeat constructor; simpl; eapply (cols_range K keqb keqb_spec); eauto.
  Qed.

  Theorem transform_row_in_range cols base cap s :
    cols_ok K cols ->
    Forall (fun e => 0 <= fst e < Z.of_nat (length cols)) (lz_transform_row keqb h cols base cap s).
  Proof.
    intros Hok. unfold lz_transform_row.
    eapply Permutation_Forall; [symmetry; apply sort_row_perm|].
    apply entries_in_range. exact Hok.
  Qed.

  (* at most m columns, all labels in [0, m), when the hash and the base keys are *)
  Theorem fit_rows_max_columns (hz : list Z -> Z) m base cap X colsF rows :
    0 <= m -> (forall q, 0 <= hz q < m) ->
    Forall (fun k => 0 <= k < m) (keys base) ->
    fit_rows Z.eqb hz X base cap [] = (colsF, rows) ->
    Z.of_nat (length colsF) <= m /\ Forall (fun k => 0 <= k < m) (keys colsF) /\ cols_ok Z colsF.
  Proof.
    intros Hm Hh Hb Hfit.
    destruct (fit_rows_spec Z Z.eqb Z.eqb_eq hz base cap X [] colsF rows Hfit) as (_ & _ & Hok & Hnd & HP).
    assert (Hkeys : Forall (fun k => 0 <= k < m) (keys colsF)).
    { apply (HP (fun k => 0 <= k < m)); [exact Hh | | constructor].
      (* keys of the per-string input dictionary are keys of the base dictionary *)
      unfold input_dict.
      assert (Hgen : forall d, Forall (fun k => 0 <= k < m) (keys d) ->
                Forall (fun k => 0 <= k < m) (keys (fold_left (fun d kv => dset Z.eqb d (fst kv) (snd kv)) base d))).
      { clear - Hb. induction base as [|[k v] t IH]; intros d Hd; simpl; [exact Hd|].
        inversion Hb; subst. apply IH; [assumption|].
        clear - Hd H1. unfold keys in *. induction d as [|[k' v'] d IHd]; simpl.
        - constructor; [exact H1 | constructor].
        - inversion Hd; subst. destruct (k =? k'); simpl; constructor; auto. }
      apply Hgen. constructor. }
    split; [|split; [exact Hkeys | apply Hok; intros i k j Hi; destruct i; discriminate]].
    unfold keys in *. rewrite <- (map_length fst). apply nodup_range_length; [exact Hm | apply Hnd; constructor | exact Hkeys].
  Qed.
End RowRange.

Lemma lz_hash_range m seed p : 0 < m -> 0 <= lz_hash m seed p < m.
Proof. intros Hm. unfold lz_hash. apply Z.mod_pos_bound. exact Hm. Qed.
