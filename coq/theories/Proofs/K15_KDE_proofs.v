(* KDE rows over R: mean of kernels over the sample multiset (Model/K15_HistKDE.v, Section KDE instantiated at R). *)
From Coq Require Import Reals List Permutation Lra.
From VZ Require Import Model.K15_HistKDE.
Import ListNotations.
Open Scope R_scope.

Definition Rksum (kern : R -> R -> R -> R) := ksum R Rplus 0 kern.
Definition Rkde_at (kern : R -> R -> R -> R) := kde_at R Rplus Rdiv 0 INR kern.
Definition Rkde_row (kern : R -> R -> R -> R) := kde_row R Rplus Rdiv 0 INR kern.
Definition Rkde_transform (kern : R -> R -> R -> R) := kde_transform R Rplus Rdiv 0 INR kern.

(* the Gaussian kernel of sklearn's KernelDensity(kernel='gaussian'):  N(g; x, h^2) *)
Definition gauss (h g x : R) : R := exp (- (((g - x) / h) * ((g - x) / h)) / 2) / (h * sqrt (2 * PI)).

Section KDE_R.
  Variable kern : R -> R -> R -> R.

  Lemma Rksum_perm : forall h g xs ys, Permutation xs ys -> Rksum kern h g xs = Rksum kern h g ys.
  Proof.
    intros h g xs ys P. unfold Rksum, ksum. induction P; cbn.
    - reflexivity.
    - now rewrite IHP.
    - lra.
    - congruence.
  Qed.

  Lemma Rkde_at_perm : forall h g xs ys, Permutation xs ys -> Rkde_at kern h xs g = Rkde_at kern h ys g.
  Proof.
    intros h g xs ys P. unfold Rkde_at, kde_at.
    change (ksum R Rplus 0 kern h g xs) with (Rksum kern h g xs).
    change (ksum R Rplus 0 kern h g ys) with (Rksum kern h g ys).
    now rewrite (Rksum_perm h g xs ys P), (Permutation_length P).
  Qed.

  Lemma Rkde_row_perm : forall h grid xs ys,
    Permutation xs ys -> Rkde_row kern h grid xs = Rkde_row kern h grid ys.
  Proof.
    intros h grid xs ys P. unfold Rkde_row, kde_row. apply map_ext. intro g. now apply Rkde_at_perm.
  Qed.

  (* pointwise reading of the row: entry i is the average of the kernel values at grid point i *)
  Lemma Rkde_row_nth : forall h grid xs i, (i < length grid)%nat ->
    nth i (Rkde_row kern h grid xs) 0 = Rksum kern h (nth i grid 0) xs / INR (length xs).
  Proof.
    intros h grid xs i Hi. unfold Rkde_row, kde_row.
    rewrite (nth_indep _ 0 (kde_at R Rplus Rdiv 0 INR kern h xs 0)) by now rewrite map_length.
    now rewrite map_nth.
  Qed.

  Lemma Rkde_row_length : forall h grid xs, length (Rkde_row kern h grid xs) = length grid.
  Proof. intros. unfold Rkde_row, kde_row. apply map_length. Qed.

  Lemma Rksum_nonneg : forall h g xs, (forall x, In x xs -> 0 <= kern h g x) -> 0 <= Rksum kern h g xs.
  Proof.
    intros h g xs. unfold Rksum, ksum. induction xs as [|x xs IH]; intro H; cbn; [lra|].
    assert (0 <= kern h g x) by (apply H; now left).
    assert (0 <= fold_right (fun x s => kern h g x + s) 0 xs) by (apply IH; intros; apply H; now right).
    lra.
  Qed.

  Lemma Rkde_at_nonneg : forall h g xs,
    xs <> [] -> (forall x, In x xs -> 0 <= kern h g x) -> 0 <= Rkde_at kern h xs g.
  Proof.
    intros h g xs Hne H. unfold Rkde_at, kde_at.
    change (ksum R Rplus 0 kern h g xs) with (Rksum kern h g xs).
    assert (0 < INR (length xs)).
    { apply lt_0_INR. destruct xs; [congruence|cbn; apply Nat.lt_0_succ]. }
    apply Rmult_le_pos; [now apply Rksum_nonneg|]. left. now apply Rinv_0_lt_compat.
  Qed.

  Lemma Rkde_row_nonneg : forall h grid xs,
    xs <> [] -> (forall g x, In g grid -> In x xs -> 0 <= kern h g x) ->
    Forall (fun v => 0 <= v) (Rkde_row kern h grid xs).
  Proof.
    intros h grid xs Hne H. unfold Rkde_row, kde_row. apply Forall_forall. intros v Hv.
    apply in_map_iff in Hv. destruct Hv as (g & <- & Hg).
    apply Rkde_at_nonneg; auto.
  Qed.
End KDE_R.

Lemma gauss_pos : forall h g x, 0 < h -> 0 < gauss h g x.
Proof.
  intros h g x Hh. unfold gauss. apply Rdiv_lt_0_compat; [apply exp_pos|].
  apply Rmult_lt_0_compat; [exact Hh|]. apply sqrt_lt_R0.
  apply Rmult_lt_0_compat; [lra|apply PI_RGT_0].
Qed.

Lemma gauss_kde_row_nonneg : forall h grid xs,
  0 < h -> xs <> [] -> Forall (fun v => 0 <= v) (Rkde_row gauss h grid xs).
Proof.
  intros h grid xs Hh Hne. apply Rkde_row_nonneg; auto. intros. left. now apply gauss_pos.
Qed.
