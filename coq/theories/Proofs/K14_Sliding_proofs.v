From Coq Require Import ZArith List Lia Arith Sorted.
From VZ Require Import Model.K14_Sliding.
Import ListNotations.
Open Scope Z_scope.
Ltac Zify.zify_post_hook ::= Z.to_euclidean_division_equations.

(* ---------- ceil division ---------- *)
Lemma cdiv_spec a b : 0 < b -> (cdiv a b - 1) * b < a <= cdiv a b * b.
Proof. unfold cdiv; intros Hb; split; nia. Qed.

Lemma cdiv_unique a b n : 0 < b -> (n - 1) * b < a <= n * b -> n = cdiv a b.
Proof. intros Hb H. pose proof (cdiv_spec a b Hb). nia. Qed.

Lemma cdiv_nonneg a b : 0 < b -> 0 < a -> 0 < cdiv a b.
Proof. intros Hb Ha. pose proof (cdiv_spec a b Hb). nia. Qed.

(* ---------- number of windows ---------- *)
Lemma n_rows_spec len width stride :
  (0 < stride)%nat -> (width <= len)%nat ->
  let n := Z.of_nat (n_rows len width stride) in
  (n - 1) * Z.of_nat stride < Z.of_nat len - Z.of_nat width + 1 <= n * Z.of_nat stride.
Proof.
  intros Hs Hw n. subst n. unfold n_rows.
  assert (Hb : 0 < Z.of_nat stride) by lia.
  assert (Ha : 0 < Z.of_nat len - Z.of_nat width + 1) by lia.
  pose proof (cdiv_nonneg _ _ Hb Ha).
  rewrite Z2Nat.id by lia. apply cdiv_spec; lia.
Qed.

Lemma n_rows_in_range len width stride i :
  (0 < stride)%nat -> (width <= len)%nat -> (i < n_rows len width stride)%nat ->
  (i * stride + width <= len)%nat.
Proof.
  intros Hs Hw Hi. pose proof (n_rows_spec len width stride Hs Hw) as H. cbv zeta in H. nia.
Qed.

Lemma n_rows_maximal len width stride :
  (0 < stride)%nat -> (width <= len)%nat ->
  (len < n_rows len width stride * stride + width)%nat.
Proof.
  intros Hs Hw. pose proof (n_rows_spec len width stride Hs Hw) as H. cbv zeta in H. nia.
Qed.

Lemma n_rows_pos len width stride :
  (0 < stride)%nat -> (width <= len)%nat -> (0 < n_rows len width stride)%nat.
Proof.
  intros Hs Hw. pose proof (n_rows_spec len width stride Hs Hw) as H. cbv zeta in H. nia.
Qed.

(* ---------- slices ---------- *)
Lemma nth_firstn' {A} (d : A) n (l : list A) j : (j < n)%nat -> nth j (firstn n l) d = nth j l d.
Proof.
  revert l j. induction n as [|n IH]; intros l j H; [lia|].
  destruct l as [|x l]; [reflexivity|]. destruct j as [|j]; [reflexivity|]. cbn. apply IH. lia.
Qed.

Lemma nth_skipn' {A} (d : A) n (l : list A) j : nth j (skipn n l) d = nth (n + j) l d.
Proof.
  revert l. induction n as [|n IH]; intros l; [reflexivity|].
  destruct l as [|x l]; [destruct j; reflexivity|]. cbn. apply IH.
Qed.

Lemma nth_slice {A} (d : A) lo len (s : list A) j :
  (j < len)%nat -> nth j (slice lo len s) d = nth (lo + j) s d.
Proof. intros Hj. unfold slice. rewrite nth_firstn' by lia. apply nth_skipn'. Qed.

Lemma slice_length {A} lo len (s : list A) :
  (lo + len <= length s)%nat -> length (slice lo len s) = len.
Proof. intros H. unfold slice. rewrite firstn_length, skipn_length. lia. Qed.

(* ---------- padding ---------- *)
Lemma pad_length {A} pw (pv : A) s : length (pad pw pv s) = (pw + length s + pw)%nat.
Proof. unfold pad. rewrite !app_length, !repeat_length. lia. Qed.

Lemma nth_repeat' {A} (a d : A) n k : (k < n)%nat -> nth k (repeat a n) d = a.
Proof. revert k; induction n as [|n IH]; intros [|k] H; cbn; try lia; auto. apply IH; lia. Qed.

Lemma pad_nth {A} pw (pv d : A) s k :
  nth k (pad pw pv s) d =
  if (k <? pw)%nat then pv
  else if (k <? pw + length s)%nat then nth (k - pw) s d
  else if (k <? pw + length s + pw)%nat then pv else d.
Proof.
  unfold pad.
  destruct (Nat.ltb_spec k pw) as [H1|H1].
  - rewrite app_nth1 by (rewrite repeat_length; lia). apply nth_repeat'; lia.
  - rewrite app_nth2 by (rewrite repeat_length; lia). rewrite repeat_length.
    destruct (Nat.ltb_spec k (pw + length s)) as [H2|H2].
    + rewrite app_nth1 by lia. reflexivity.
    + rewrite app_nth2 by lia.
      destruct (Nat.ltb_spec k (pw + length s + pw)) as [H3|H3].
      * apply nth_repeat'; lia.
      * apply nth_overflow. rewrite repeat_length. lia.
Qed.

(* ---------- the i-th window ---------- *)
Lemma sliding_windows_length K width stride sample pw pv s :
  length (sliding_windows K width stride sample pw pv s)
  = n_rows (length (pad pw pv s)) width stride.
Proof. unfold sliding_windows. rewrite map_length, seq_length. reflexivity. Qed.

Lemma map_nth_in {A B} (f : A -> B) (l : list A) i dA dB :
  (i < length l)%nat -> nth i (map f l) dB = f (nth i l dA).
Proof.
  intros H. rewrite nth_indep with (d' := f dA) by (rewrite map_length; lia). apply map_nth.
Qed.

Lemma sliding_windows_nth K width stride sample pw pv s i :
  (0 < stride)%nat -> (width <= length (pad pw pv s))%nat ->
  Forall (fun j => (j < width)%nat) sample ->
  (i < n_rows (length (pad pw pv s)) width stride)%nat ->
  nth i (sliding_windows K width stride sample pw pv s) []
  = apply_kernel K (map (fun j => nth (i * stride + j) (pad pw pv s) []) sample).
Proof.
  intros Hs Hw Hsam Hi. unfold sliding_windows.
  rewrite map_nth_in with (dA := 0%nat) by (rewrite seq_length; lia).
  rewrite seq_nth by lia. cbn [Nat.add].
  unfold take_idx. f_equal. apply map_ext_in. intros j Hj.
  rewrite Forall_forall in Hsam. apply nth_slice. apply Hsam, Hj.
Qed.

(* every element a window reads is an element of the (padded) sequence *)
Lemma sliding_windows_reads_in_range width stride sample len i j :
  (0 < stride)%nat -> (width <= len)%nat ->
  Forall (fun j => (j < width)%nat) sample ->
  (i < n_rows len width stride)%nat -> In j sample -> (i * stride + j < len)%nat.
Proof.
  intros Hs Hw Hsam Hi Hj. rewrite Forall_forall in Hsam. specialize (Hsam j Hj).
  pose proof (n_rows_in_range len width stride i Hs Hw Hi). lia.
Qed.

(* ---------- arange ---------- *)
Lemma arange_fuel_spec fuel start stop step :
  (0 < step)%nat -> (stop <= start + fuel)%nat ->
  forall j, In j (arange_fuel fuel start stop step) <->
            (start <= j < stop)%nat /\ exists k, (j = start + k * step)%nat.
Proof.
  intros Hst. revert start. induction fuel as [|f IH]; intros start Hf j.
  - cbn. split; [tauto|]. intros [H _]. lia.
  - cbn [arange_fuel]. destruct (Nat.ltb_spec start stop) as [H|H].
    + cbn [In]. rewrite IH by lia. split.
      * intros [E|[Hr [k Hk]]].
        -- subst j. split; [lia|]. exists 0%nat. lia.
        -- split; [lia|]. exists (S k). lia.
      * intros [Hr [k Hk]]. destruct k as [|k]; [left; lia|].
        right. split; [nia|]. exists k. lia.
    + cbn. split; [tauto|]. intros [Hr _]. lia.
Qed.

Lemma arange_spec start stop step j :
  (0 < step)%nat ->
  In j (arange start stop step) <-> (start <= j < stop)%nat /\ exists k, (j = start + k * step)%nat.
Proof. intros Hs. unfold arange. apply arange_fuel_spec; [exact Hs|lia]. Qed.

Lemma arange_fuel_sorted fuel start stop step :
  (0 < step)%nat ->
  StronglySorted lt (arange_fuel fuel start stop step)
  /\ Forall (fun j => (start <= j)%nat) (arange_fuel fuel start stop step).
Proof.
  intros Hs. revert start. induction fuel as [|f IH]; intros start; cbn [arange_fuel].
  - split; constructor.
  - destruct (Nat.ltb start stop); [|split; constructor].
    destruct (IH (start + step)%nat) as [S1 S2]. split.
    + constructor; [exact S1|]. eapply Forall_impl; [|exact S2]. cbn; intros; lia.
    + constructor; [lia|]. eapply Forall_impl; [|exact S2]. cbn; intros; lia.
Qed.

Lemma arange_sorted start stop step :
  (0 < step)%nat -> StronglySorted lt (arange start stop step).
Proof. intros Hs. apply arange_fuel_sorted, Hs. Qed.

Lemma arange_identity_fuel fuel start :
  arange_fuel fuel start (start + fuel) 1 = seq start fuel.
Proof.
  revert start. induction fuel as [|f IH]; intros start; cbn [arange_fuel seq]; [reflexivity|].
  destruct (Nat.ltb_spec start (start + S f)) as [H|H]; [|lia].
  f_equal. replace (start + S f)%nat with ((start + 1) + f)%nat by lia.
  rewrite IH. f_equal. lia.
Qed.

Lemma arange_identity w : arange 0 w 1 = seq 0 w.
Proof. unfold arange. apply (arange_identity_fuel w 0%nat). Qed.

Lemma arange_lt start stop step : (0 < step)%nat -> Forall (fun j => (j < stop)%nat) (arange start stop step).
Proof. intros H. apply Forall_forall. intros j Hj. apply arange_spec in Hj; [lia|exact H]. Qed.

Lemma sample_in_window width f :
  match f with SNone => True | SStride n => (0 < n)%nat | SStartStride _ n => (0 < n)%nat
             | SIndex l => Forall (fun j => (j < width)%nat) l end ->
  Forall (fun j => (j < width)%nat) (sample_of_form width f).
Proof.
  destruct f as [|n|a n|l]; cbn [sample_of_form]; intros H.
  - apply arange_lt. lia.
  - apply arange_lt, H.
  - apply arange_lt, H.
  - exact H.
Qed.

(* ---------- dot products against the difference row ---------- *)
Lemma dot_zero n w : dot (repeat 0 n) w = 0.
Proof. revert w; induction n as [|n IH]; intros [|b w]; cbn; rewrite ?IH; lia. Qed.

Lemma dot_upd r w i v :
  (i < length r)%nat -> (i < length w)%nat ->
  dot (upd r i v) w = dot r w + (v - nth i r 0) * nth i w 0.
Proof.
  revert w i. induction r as [|a r IH]; intros [|b w] [|i] Hr Hw; cbn in *; try lia.
  rewrite IH by lia. lia.
Qed.

Lemma upd_length r i v : length (upd r i v) = length r.
Proof. revert i; induction r as [|a r IH]; intros [|i]; cbn; auto. Qed.

Lemma nth_upd_other r i k v : i <> k -> nth k (upd r i v) 0 = nth k r 0.
Proof. revert i k; induction r as [|a r IH]; intros [|i] [|k] H; cbn; auto; try lia. Qed.

Lemma nth_repeat0 n k : nth k (repeat 0 n) 0 = 0.
Proof. revert k; induction n as [|n IH]; intros [|k]; cbn; auto. Qed.

Lemma dot_difference_row n_cols a b w :
  (a < n_cols)%nat -> (b < n_cols)%nat -> a <> b -> (n_cols <= length w)%nat ->
  dot (upd (upd (repeat 0 n_cols) a (-1)) b 1) w = nth b w 0 - nth a w 0.
Proof.
  intros Ha Hb Hab Hw.
  rewrite dot_upd by (rewrite ?upd_length, ?repeat_length; lia).
  rewrite dot_upd by (rewrite ?repeat_length; lia).
  rewrite dot_zero, nth_upd_other by lia. rewrite !nth_repeat0. lia.
Qed.

(* ---------- sequential differences ---------- *)
Definition vsub (d : nat) (x y : vec) : vec := map (fun c => nth c x 0 - nth c y 0) (seq 0 d).

Lemma difference_kernel_seqdiff t :
  (0 < t)%nat -> difference_kernel (t + 1) 0 t t = [difference_row (t + 1) 0 t t 0].
Proof.
  intros Ht. unfold difference_kernel.
  replace (Z.to_nat (cdiv (Z.of_nat (t + 1) - Z.of_nat 0 - Z.of_nat t) (Z.of_nat t))) with 1%nat.
  - reflexivity.
  - assert (E : cdiv (Z.of_nat (t + 1) - Z.of_nat 0 - Z.of_nat t) (Z.of_nat t) = 1).
    { symmetry. apply cdiv_unique; lia. }
    rewrite E. reflexivity.
Qed.

Lemma n_rows_stride1 len width : (width <= len)%nat -> n_rows len width 1 = (len - width + 1)%nat.
Proof.
  intros H. unfold n_rows.
  replace (cdiv (Z.of_nat len - Z.of_nat width + 1) (Z.of_nat 1)) with (Z.of_nat (len - width + 1)).
  - apply Nat2Z.id.
  - apply cdiv_unique; lia.
Qed.

Theorem sequential_difference_spec t d (s : list vec) :
  (0 < t)%nat -> (t < length s)%nat -> Forall (fun v => length v = d) s ->
  sequential_difference t s
  = map (fun i => vsub d (nth (i + t) s []) (nth i s [])) (seq 0 (length s - t)).
Proof.
  intros Ht Hl Hd. unfold sequential_difference, sliding_windows.
  assert (Hp : pad 0 [] s = s) by (unfold pad; cbn; apply app_nil_r).
  rewrite Hp, n_rows_stride1 by lia.
  replace (length s - (t + 1) + 1)%nat with (length s - t)%nat by lia.
  apply map_ext_in. intros i Hi. apply in_seq in Hi.
  rewrite difference_kernel_seqdiff by lia. cbn [apply_kernel map concat]. rewrite app_nil_r.
  rewrite arange_identity. unfold take_idx.
  set (win := map (fun j => nth j (slice (i * 1) (t + 1) s) []) (seq 0 (t + 1))).
  assert (Hwl : length win = (t + 1)%nat) by (unfold win; rewrite map_length, seq_length; lia).
  assert (Hwn : forall j, (j < t + 1)%nat -> nth j win [] = nth (i + j) s []).
  { intros j Hj. unfold win.
    rewrite map_nth_in with (dA := 0%nat) by (rewrite seq_length; lia).
    rewrite seq_nth by lia. cbn [Nat.add]. rewrite nth_slice by lia. f_equal. lia. }
  assert (Hin : forall k, (k < length s)%nat -> length (nth k s []) = d).
  { intros k Hk. rewrite Forall_forall in Hd. apply Hd, nth_In, Hk. }
  unfold lincomb.
  assert (Hdim : dim win = d).
  { unfold dim. destruct win as [|v ws] eqn:E; [cbn in Hwl; lia|].
    specialize (Hwn 0%nat ltac:(lia)). cbn in Hwn. rewrite Hwn. apply Hin. lia. }
  rewrite Hdim. unfold vsub. apply map_ext_in. intros c Hc.
  unfold difference_row. rewrite Nat.mul_0_l, !Nat.add_0_l.
  rewrite dot_difference_row by (rewrite ?map_length; lia).
  assert (Hm : forall j, (j < t + 1)%nat ->
                         nth j (map (fun v : vec => nth c v 0) win) 0 = nth c (nth (i + j) s []) 0).
  { intros j Hj. rewrite map_nth_in with (dA := @nil Z) by lia.
    rewrite Hwn by lia. reflexivity. }
  rewrite !Hm by lia. rewrite Nat.add_0_r. reflexivity.
Qed.
