(* K13 — proofs about the information-weight model over R. *)
From Coq Require Import Reals Lra List Psatz ZArith Bool Sorted Permutation Arith.
From VZ Require Import Model.K11_SparseVec Model.K12_Dist Model.K13_InfoWeight
  Proofs.K12_RealFacts Proofs.K11_SparseVec_proofs Proofs.K12_Dist_proofs.
Import ListNotations.

(* ------------------------------------------------------------------ binary search *)
Lemma incr_nth_lt : forall (a : list Z) i j, incr a -> (i < j)%nat -> (j < length a)%nat ->
  (nth i a 0 < nth j a 0)%Z.
Proof.
  induction a as [|x a IH]; intros i j Hs Hij Hj; simpl in Hj; [lia|].
  destruct j as [|j]; [lia|]. destruct i as [|i]; simpl.
  - pose proof (incr_head _ _ Hs) as Hh. rewrite Forall_forall in Hh. apply Hh. apply nth_In. lia.
  - apply IH; [eapply incr_tail; eauto|lia|lia].
Qed.

Lemma bsearch_S : forall f a v lo hi,
  bsearch (S f) a v lo hi =
  if (lo <? hi)%nat then
    match nth_error a (lo + (hi - lo) / 2) with
    | Some x => if (x <? v)%Z then bsearch f a v (S (lo + (hi - lo) / 2)) hi else bsearch f a v lo (lo + (hi - lo) / 2)
    | None => lo
    end
  else lo.
Proof. reflexivity. Qed.

Lemma bsearch_spec : forall fuel a v lo hi, incr a ->
  (lo <= hi)%nat -> (hi <= length a)%nat -> (hi - lo < fuel)%nat ->
  (forall k, (k < lo)%nat -> (nth k a 0 < v)%Z) ->
  (forall k, (hi <= k)%nat -> (k < length a)%nat -> (v <= nth k a 0)%Z) ->
  let r := bsearch fuel a v lo hi in
  (lo <= r <= hi)%nat /\ (forall k, (k < r)%nat -> (nth k a 0 < v)%Z) /\
  (forall k, (r <= k)%nat -> (k < length a)%nat -> (v <= nth k a 0)%Z).
Proof.
  induction fuel as [|f IH]; intros a v lo hi Hs Hlh Hh Hf Hlo Hhi; [lia|].
  rewrite bsearch_S. destruct (lo <? hi)%nat eqn:E.
  - apply Nat.ltb_lt in E.
    assert (Hdiv : ((hi - lo) / 2 < hi - lo)%nat) by (apply Nat.div_lt; lia).
    remember ((hi - lo) / 2)%nat as h eqn:Eh. clear Eh.
    set (mid := (lo + h)%nat).
    assert (Hmid : (lo <= mid < hi)%nat) by (unfold mid; lia).
    destruct (nth_error a mid) as [x|] eqn:En; [|apply nth_error_None in En; lia].
    assert (Hx : nth mid a 0%Z = x) by (apply nth_error_nth; assumption).
    destruct (x <? v)%Z eqn:Ex.
    + apply Z.ltb_lt in Ex.
      destruct (IH a v (S mid) hi Hs ltac:(lia) Hh ltac:(lia)) as (R1 & R2 & R3); auto.
      * intros k Hk. destruct (Nat.eq_dec k mid) as [->|Hne]; [lia|].
        assert (nth k a 0 < nth mid a 0)%Z by (apply incr_nth_lt; auto; lia). lia.
      * repeat split; auto; lia.
    + apply Z.ltb_ge in Ex.
      destruct (IH a v lo mid Hs ltac:(lia) ltac:(lia) ltac:(lia)) as (R1 & R2 & R3); auto.
      * intros k Hk Hk2. destruct (Nat.eq_dec k mid) as [->|Hne]; [lia|].
        destruct (Nat.lt_ge_cases k hi); [|apply Hhi; lia].
        assert (nth mid a 0 < nth k a 0)%Z by (apply incr_nth_lt; auto; lia). lia.
      * repeat split; auto; lia.
  - apply Nat.ltb_ge in E. assert (lo = hi) by lia. subst. repeat split; auto; lia.
Qed.

(* on strictly increasing indices that contain v, searchsorted returns the position of v *)
Lemma searchsorted_found : forall a v, incr a -> In v a -> nth_error a (searchsorted a v) = Some v.
Proof.
  intros a v Hs Hin. unfold searchsorted.
  destruct (bsearch_spec (S (length a)) a v 0 (length a) Hs ltac:(lia) ltac:(lia) ltac:(lia)) as (R1 & R2 & R3).
  - intros; lia.
  - intros; lia.
  - set (r := bsearch (S (length a)) a v 0 (length a)) in *.
    destruct (In_nth a v 0%Z Hin) as (p & Hp & Hpv).
    assert (r <= p)%nat.
    { destruct (Nat.lt_ge_cases p r); [|lia]. specialize (R2 p H). lia. }
    assert (p = r).
    { destruct (Nat.eq_dec p r); auto. assert (nth r a 0 < nth p a 0)%Z by (apply incr_nth_lt; auto; lia).
      specialize (R3 r ltac:(lia) ltac:(lia)). lia. }
    subst p. rewrite <- Hpv. apply nth_error_nth'. lia.
Qed.

Lemma dense_at_position : forall (inds : list Z) (data : list R) p i,
  incr inds -> length inds = length data -> nth_error inds p = Some i ->
  nth_error data p = Some (dense R 0%R inds data i).
Proof.
  induction inds as [|j t IH]; intros data p i Hs Hl Hn; [destruct p; discriminate|].
  destruct data as [|d data]; [discriminate|]. unfold dense. simpl.
  destruct p as [|p]; simpl in *.
  - inversion Hn; subst. rewrite Z.eqb_refl. reflexivity.
  - assert (Hin : In i t) by (eapply nth_error_In; eauto).
    pose proof (incr_head _ _ Hs) as Hh. rewrite Forall_forall in Hh. specialize (Hh _ Hin).
    destruct (j =? i)%Z eqn:E; [apply Z.eqb_eq in E; lia|].
    apply IH; auto. eapply incr_tail; eauto.
Qed.

Lemma existsb_eqb_In : forall (i : Z) l, existsb (Z.eqb i) l = true <-> In i l.
Proof.
  intros. rewrite existsb_exists. split.
  - intros (x & Hx & E). apply Z.eqb_eq in E. subst. assumption.
  - intros H. exists i. split; auto. apply Z.eqb_refl.
Qed.

Open Scope R_scope.

(* ------------------------------------------------------------------ the kernel computes the KL sum *)
Section Kernel.
  Variable eps : R.
  Notation O := (R_ops eps).

  (* posterior probability of row i and its KL term, written from the definition *)
  Definition posterior (c bi s N : R) : R := (c + s * bi) / N.
  Definition kl_term (c bi s N : R) : R := posterior c bi s N * ln (posterior c bi s N / bi).

  Fixpoint kl_sum_from (inds : list Z) (data : list R) (s N : R) (i : Z) (bs : list R) : R :=
    match bs with
    | [] => 0
    | bi :: bs' => kl_term (dense R 0 inds data i) bi s N + kl_sum_from inds data s N (i + 1)%Z bs'
    end.

  Lemma out_term : forall bi s N, 0 < N -> bi * (s / N * ln (s / N)) = kl_term 0 bi s N.
  Proof.
    intros bi s N HN. unfold kl_term, posterior. destruct (Req_dec bi 0) as [->|Hb].
    - rewrite !Rmult_0_r, Rplus_0_l. unfold Rdiv. rewrite !Rmult_0_l. reflexivity.
    - rewrite Rplus_0_l. replace (s * bi / N / bi) with (s / N) by (field; split; lra). field. lra.
  Qed.

  Lemma ckl_loop_R : forall inds data s N, incr inds -> length inds = length data -> 0 < N ->
    forall bs i acc,
      (forall k, (k < length bs)%nat ->
                 0 <= posterior (dense R 0 inds data (i + Z.of_nat k)%Z) (nth k bs 0) s N) ->
      ckl_loop R O inds data s N (s / N * ln (s / N)) i bs acc
      = Some (acc + kl_sum_from inds data s N i bs).
  Proof.
    intros inds data s N Hs Hl HN. induction bs as [|bi bs IH]; intros i acc Hpos; simpl.
    - f_equal. lra.
    - assert (Hpos' : forall k, (k < length bs)%nat ->
                 0 <= posterior (dense R 0 inds data (i + 1 + Z.of_nat k)%Z) (nth k bs 0) s N).
      { intros k Hk. specialize (Hpos (S k) ltac:(simpl; lia)). simpl nth in Hpos.
        replace (i + 1 + Z.of_nat k)%Z with (i + Z.of_nat (S k))%Z by lia. exact Hpos. }
      specialize (Hpos 0%nat ltac:(simpl; lia)). simpl in Hpos. rewrite Z.add_0_r in Hpos.
      destruct (existsb (Z.eqb i) inds) eqn:E.
      + apply existsb_eqb_In in E.
        rewrite (dense_at_position inds data _ i Hs Hl (searchsorted_found inds i Hs E)).
        rewrite IH by assumption. f_equal.
        fold (posterior (dense R 0 inds data i) bi s N).
        unfold R_ltb. destruct (Rlt_dec 0 (posterior (dense R 0 inds data i) bi s N)) as [Hp|Hp].
        * unfold kl_term. lra.
        * assert (Hz : posterior (dense R 0 inds data i) bi s N = 0) by lra.
          unfold kl_term. rewrite Hz. lra.
      + assert (Hni : ~ In i inds) by (intro Hc; apply existsb_eqb_In in Hc; congruence).
        rewrite IH by assumption. f_equal. rewrite (dense_notin inds data i Hni).
        rewrite <- out_term by assumption. lra.
  Qed.
End Kernel.

(* ------------------------------------------------------------------ the column weight is a KL divergence *)
Lemma nth_seq_map : forall (b : list R) d, map (fun k => nth k b d) (seq 0 (length b)) = b.
Proof. induction b; intros; simpl; auto. f_equal. rewrite <- seq_shift, map_map. apply IHb. Qed.

Lemma gibbs_terms : forall (l : list (R * R)),
  (forall q b, In (q, b) l -> 0 <= q /\ 0 <= b /\ (b = 0 -> q = 0)) ->
  sumR (map fst l) - sumR (map snd l) <= sumR (map (fun p => fst p * ln (fst p / snd p)) l).
Proof.
  induction l as [|[q b] l IH]; intros H; simpl; [lra|].
  assert (Hl : forall q b, In (q, b) l -> 0 <= q /\ 0 <= b /\ (b = 0 -> q = 0)) by (intros; apply H; right; assumption).
  specialize (IH Hl). destruct (H q b (or_introl eq_refl)) as (Hq & Hb & Hz).
  assert (q - b <= q * ln (q / b)).
  { destruct (Req_dec q 0) as [->|Hq0]; [rewrite Rmult_0_l; lra|].
    assert (b <> 0) by (intro; apply Hq0; auto). apply xlnx_lower; lra. }
  lra.
Qed.

Section Column.
  Variable eps : R.
  Notation O := (R_ops eps).

  Lemma kl_sum_from_seq : forall inds data s N bs k0,
    kl_sum_from inds data s N (Z.of_nat k0) bs
    = sumR (map (fun k => kl_term (dense R 0 inds data (Z.of_nat k)) (nth (k - k0) bs 0) s N) (seq k0 (length bs))).
  Proof.
    induction bs as [|bi bs IH]; intros k0; simpl; [reflexivity|].
    rewrite Nat.sub_diag. f_equal.
    replace (Z.of_nat k0 + 1)%Z with (Z.of_nat (S k0)) by lia. rewrite IH.
    apply sumR_map_ext_in. intros k Hk. apply in_seq in Hk.
    replace (k - k0)%nat with (S (k - S k0)) by lia. reflexivity.
  Qed.

  (* SPEC: sum over the rows of q_i ln(q_i / b_i), q_i = (c_i + s b_i) / (C + s), c_i = the column's dense entry *)
  Definition kl_column (inds : list Z) (data : list R) (b : list R) (s : R) : R :=
    sumR (map (fun k => kl_term (dense R 0 inds data (Z.of_nat k)) (nth k b 0) s (sumR data + s)) (seq 0 (length b))).

  Theorem column_kl_exact_R : forall inds data b s,
    sparse_ok R inds data -> nonnegv data -> nonnegv b -> 0 < s ->
    column_kl_exact R O inds data b s = Some (kl_column inds data b s).
  Proof.
    intros inds data b s [Hi Hl] Hd Hb Hs.
    assert (HN : 0 < sumR data + s) by (pose proof (sumR_nonneg data Hd); lra).
    unfold column_kl_exact. simpl. rewrite sum_list_R.
    rewrite (ckl_loop_R eps inds data s (sumR data + s) Hi Hl HN b 0%Z 0).
    - f_equal. rewrite Rplus_0_l. rewrite (kl_sum_from_seq inds data s _ b 0). unfold kl_column.
      apply sumR_map_ext_in. intros k _. rewrite Nat.sub_0_r. reflexivity.
    - intros k Hk. unfold posterior.
      assert (0 <= dense R 0 inds data (0 + Z.of_nat k)) by (apply dense_nonneg; assumption).
      assert (0 <= nth k b 0).
      { unfold nonnegv in Hb. rewrite Forall_forall in Hb. apply Hb. apply nth_In. assumption. }
      apply Rmult_le_pos; [nra|]. left. apply Rinv_0_lt_compat. assumption.
  Qed.

  (* every logarithm the kernel takes has a positive argument *)
  Lemma ln_args_positive : forall c bi s C, 0 <= c -> 0 <= C -> 0 < s -> 0 <= bi -> (0 < c -> 0 < bi) ->
    0 < s / (C + s) /\ (0 < posterior c bi s (C + s) -> 0 < posterior c bi s (C + s) / bi).
  Proof.
    intros c bi s C Hc HC Hs Hb Hcb. split.
    - apply Rdiv_lt_0_compat; lra.
    - intros Hp. assert (0 < bi).
      { destruct (Req_dec bi 0) as [->|]; [|lra]. destruct (Req_dec c 0) as [->|]; [|assert (0 < c) by lra; auto].
        unfold posterior in Hp. rewrite Rmult_0_r, Rplus_0_l in Hp. unfold Rdiv in Hp. rewrite Rmult_0_l in Hp. lra. }
      apply Rdiv_lt_0_compat; assumption.
  Qed.

  Theorem kl_column_nonneg : forall inds data b s,
    sparse_ok R inds data -> in_range (length b) inds -> nonnegv data -> nonnegv b -> 0 < s ->
    sumR b = 1 -> (forall k, 0 < dense R 0 inds data (Z.of_nat k) -> 0 < nth k b 0) ->
    0 <= kl_column inds data b s.
  Proof.
    intros inds data b s Hok Hr Hd Hb Hs Hb1 Hpos.
    assert (HN : 0 < sumR data + s) by (pose proof (sumR_nonneg data Hd); lra).
    set (N := sumR data + s) in *.
    set (l := map (fun k => (posterior (dense R 0 inds data (Z.of_nat k)) (nth k b 0) s N, nth k b 0)) (seq 0 (length b))).
    assert (E : kl_column inds data b s = sumR (map (fun p => fst p * ln (fst p / snd p)) l)).
    { unfold kl_column, l. rewrite map_map. reflexivity. }
    assert (Hq : sumR (map fst l) = 1).
    { unfold l. rewrite map_map. simpl. unfold posterior.
      rewrite (sumR_map_ext_in _ _ (fun k => dense R 0 inds data (Z.of_nat k) / N + s / N * nth k b 0))
        by (intros; field; lra).
      rewrite sumR_map_plus.
      assert (E1 : sumR (map (fun k => dense R 0 inds data (Z.of_nat k) / N) (seq 0 (length b))) = sumR data / N).
      { rewrite <- (sumR_to_dense (length b) inds data Hok Hr). unfold to_dense.
        rewrite <- sumR_div. rewrite map_map. reflexivity. }
      assert (E2 : sumR (map (fun k => s / N * nth k b 0) (seq 0 (length b))) = s / N * sumR b).
      { rewrite <- sumR_scal. f_equal. rewrite <- (map_map (fun k => nth k b 0) (fun x => s / N * x)).
        f_equal. apply nth_seq_map. }
      rewrite E1, E2, Hb1. unfold N in *. field. lra. }
    assert (Hbs : sumR (map snd l) = 1).
    { unfold l. rewrite map_map. simpl. rewrite <- Hb1. f_equal. apply nth_seq_map. }
    rewrite E. pose proof (gibbs_terms l) as G. rewrite Hq, Hbs in G.
    assert (0 <= sumR (map (fun p => fst p * ln (fst p / snd p)) l)); [|assumption].
    apply Rle_trans with (1 - 1); [lra|]. apply G.
    intros q bq Hin. unfold l in Hin. apply in_map_iff in Hin. destruct Hin as (k & Hk & Hks).
    inversion Hk; subst q bq. apply in_seq in Hks.
    assert (Hc : 0 <= dense R 0 inds data (Z.of_nat k)) by (apply dense_nonneg; assumption).
    assert (Hbk : 0 <= nth k b 0).
    { unfold nonnegv in Hb. rewrite Forall_forall in Hb. apply Hb. apply nth_In. lia. }
    repeat split; auto.
    - unfold posterior. apply Rmult_le_pos; [nra|]. left. apply Rinv_0_lt_compat. assumption.
    - intros Hz. unfold posterior. rewrite Hz.
      destruct (Req_dec (dense R 0 inds data (Z.of_nat k)) 0) as [->|Hne].
      + rewrite Rmult_0_r, Rplus_0_l. unfold Rdiv. apply Rmult_0_l.
      + assert (0 < nth k b 0) by (apply Hpos; lra). lra.
  Qed.
End Column.

(* ------------------------------------------------------------------ storage layout: sort_indices, explicit zeros, order *)
Notation lookupR := (lookup R 0).
Definition keys (c : list (Z * R)) : list Z := map fst c.

Lemma insert_entry_perm : forall e l, Permutation (e :: l) (insert_entry R e l).
Proof.
  induction l as [|e' t IH]; simpl; auto. destruct (fst e <? fst e')%Z; auto.
  eapply perm_trans; [apply perm_swap|]. constructor. exact IH.
Qed.
Lemma sort_col_perm : forall c, Permutation c (sort_col R c).
Proof. induction c; simpl; auto. eapply perm_trans; [|apply insert_entry_perm]. constructor; auto. Qed.

Lemma insert_entry_sorted : forall e l, wsorted (keys l) -> wsorted (keys (insert_entry R e l)).
Proof.
  induction l as [|e' t IH]; simpl; intros H; [repeat constructor|].
  destruct (fst e <? fst e')%Z eqn:E.
  - apply Z.ltb_lt in E. simpl. constructor; auto. constructor; [lia|].
    inversion H; subst. eapply Forall_impl; [|eassumption]. intros; simpl in *; lia.
  - apply Z.ltb_ge in E. simpl. inversion H; subst. constructor; [apply IH; assumption|].
    assert (Hp : Permutation (fst e :: keys t) (keys (insert_entry R e t))).
    { unfold keys. change (fst e :: map fst t) with (map fst (e :: t)). apply Permutation_map. apply insert_entry_perm. }
    eapply Permutation_Forall; [exact Hp|]. constructor; auto.
Qed.
Lemma sort_col_sorted : forall c, wsorted (keys (sort_col R c)).
Proof. induction c; simpl. constructor. apply insert_entry_sorted; auto. Qed.

Lemma wsorted_NoDup_incr : forall l, wsorted l -> NoDup l -> incr l.
Proof.
  induction l as [|x l IH]; intros Hs Hn; [constructor|].
  inversion Hs; subst. inversion Hn; subst. constructor; [apply IH; assumption|].
  rewrite Forall_forall in *. intros y Hy. specialize (H2 y Hy).
  destruct (Z.eq_dec x y); [subst; contradiction|lia].
Qed.

Lemma sort_col_incr : forall c, NoDup (keys c) -> incr (keys (sort_col R c)).
Proof.
  intros c H. apply wsorted_NoDup_incr; [apply sort_col_sorted|].
  eapply Permutation_NoDup; [|exact H]. unfold keys. apply Permutation_map. apply sort_col_perm.
Qed.

Lemma lookup_in_nodup : forall (l : list (Z * R)) k v, NoDup (keys l) -> In (k, v) l -> lookupR k l = v.
Proof.
  induction l as [|[j w] t IH]; intros k v Hn Hin; [inversion Hin|]. simpl. inversion Hn; subst.
  destruct Hin as [Hin|Hin].
  - inversion Hin; subst. rewrite Z.eqb_refl. reflexivity.
  - destruct (j =? k)%Z eqn:E.
    + apply Z.eqb_eq in E. subst. exfalso. apply H1. apply (in_map fst) in Hin. exact Hin.
    + apply IH; assumption.
Qed.
Lemma lookup_notin_keys : forall (l : list (Z * R)) k, ~ In k (keys l) -> lookupR k l = 0%R.
Proof.
  induction l as [|[j w] t IH]; intros k H; simpl; auto.
  destruct (j =? k)%Z eqn:E; [apply Z.eqb_eq in E; subst; exfalso; apply H; left; reflexivity|].
  apply IH. intro. apply H. right. assumption.
Qed.

(* the dense meaning of a column does not depend on the order of its entries *)
Lemma lookup_perm : forall l l' k, NoDup (keys l) -> Permutation l l' -> lookupR k l = lookupR k l'.
Proof.
  intros l l' k Hn Hp.
  assert (Hn' : NoDup (keys l')) by (eapply Permutation_NoDup; [|exact Hn]; unfold keys; apply Permutation_map; exact Hp).
  destruct (In_dec Z.eq_dec k (keys l)) as [Hin|Hnot].
  - unfold keys in Hin. apply in_map_iff in Hin. destruct Hin as ([k' v] & Hk & Hin). simpl in Hk. subst k'.
    rewrite (lookup_in_nodup l k v Hn Hin).
    rewrite (lookup_in_nodup l' k v Hn' (Permutation_in _ Hp Hin)). reflexivity.
  - rewrite (lookup_notin_keys l k Hnot). symmetry. apply lookup_notin_keys.
    intro Hc. apply Hnot. unfold keys in *. eapply Permutation_in; [apply Permutation_map, Permutation_sym, Hp|exact Hc].
Qed.

Lemma lookup_sort_col : forall c k, NoDup (keys c) -> lookupR k (sort_col R c) = lookupR k c.
Proof. intros. symmetry. apply lookup_perm; auto. apply sort_col_perm. Qed.

(* an explicit zero does not change the dense meaning *)
Lemma lookup_explicit_zero : forall c i k, ~ In i (keys c) -> lookupR k ((i, 0%R) :: c) = lookupR k c.
Proof.
  intros c i k H. simpl. destruct (i =? k)%Z eqn:E; auto. apply Z.eqb_eq in E. subst.
  symmetry. apply lookup_notin_keys. assumption.
Qed.

Open Scope R_scope.

(* ------------------------------------------------------------------ duplicate entries: sum_duplicates *)
(* SPEC: the dense meaning of a stored column that may hold a row index several times (and in any order):
   the sum of the values stored for that row *)
Definition lookup_sum (k : Z) (c : list (Z * R)) : R :=
  sumR (map snd (filter (fun e => (fst e =? k)%Z) c)).

Lemma lookup_sum_cons : forall e c k,
  lookup_sum k (e :: c) = (if (fst e =? k)%Z then snd e else 0) + lookup_sum k c.
Proof. intros. unfold lookup_sum. simpl. destruct (fst e =? k)%Z; simpl; lra. Qed.

Lemma lookup_sum_nil : forall k, lookup_sum k [] = 0.
Proof. reflexivity. Qed.

(* ... does not depend on the storage order (no uniqueness needed) *)
Lemma lookup_sum_perm : forall c c' k, Permutation c c' -> lookup_sum k c = lookup_sum k c'.
Proof. induction 1; rewrite ?lookup_sum_cons; lra. Qed.

Lemma lookup_sum_explicit_zero : forall c i k, lookup_sum k ((i, 0) :: c) = lookup_sum k c.
Proof. intros. rewrite lookup_sum_cons. simpl. destruct (i =? k)%Z; lra. Qed.

Lemma lookup_sum_notin : forall c k, ~ In k (keys c) -> lookup_sum k c = 0.
Proof.
  induction c as [|[j v] t IH]; intros k H; [reflexivity|]. rewrite lookup_sum_cons. simpl.
  destruct (j =? k)%Z eqn:E; [apply Z.eqb_eq in E; subst; exfalso; apply H; left; reflexivity|].
  rewrite IH; [lra|]. intro Hc. apply H. right. exact Hc.
Qed.

(* with at most one entry per row it is the plain lookup of the NoDup theorems *)
Lemma lookup_sum_nodup : forall c k, NoDup (keys c) -> lookup_sum k c = lookupR k c.
Proof.
  induction c as [|[j v] t IH]; intros k Hn; [reflexivity|]. rewrite lookup_sum_cons. simpl. inversion Hn; subst.
  destruct (j =? k)%Z eqn:E.
  - apply Z.eqb_eq in E. subst. rewrite (lookup_sum_notin t k H1). lra.
  - rewrite IH by assumption. lra.
Qed.

Lemma lookup_sum_nonneg : forall c k, nonnegv (map snd c) -> 0 <= lookup_sum k c.
Proof.
  induction c as [|[j v] t IH]; intros k H; [unfold lookup_sum; simpl; lra|]. rewrite lookup_sum_cons. simpl in *.
  inversion H; subst. specialize (IH k H3). destruct (j =? k)%Z; lra.
Qed.

Lemma lookup_sum_sort_col : forall c k, lookup_sum k (sort_col R c) = lookup_sum k c.
Proof. intros. symmetry. apply lookup_sum_perm. apply sort_col_perm. Qed.

Lemma strictly_incr_spec : forall l, strictly_incr l = true -> incr l.
Proof.
  induction l as [|x l IH]; intros H; [constructor|]. destruct l as [|y t]; [repeat constructor|].
  simpl in H. apply andb_prop in H. destruct H as [Hxy Ht]. apply Z.ltb_lt in Hxy.
  specialize (IH Ht). constructor; [exact IH|]. constructor; [exact Hxy|].
  pose proof (incr_head _ _ IH) as Hh. eapply Forall_impl; [|exact Hh]. intros; simpl in *; lia.
Qed.

Lemma sort_col_id : forall c : list (Z * R), incr (keys c) -> sort_col R c = c.
Proof.
  induction c as [|e t IH]; intros H; [reflexivity|]. simpl. simpl in H. rewrite IH by (eapply incr_tail; eauto).
  destruct t as [|e' t']; [reflexivity|]. simpl.
  pose proof (incr_head _ _ H) as Hh. simpl in Hh. inversion Hh; subst.
  destruct (fst e <? fst e')%Z eqn:E; [reflexivity|apply Z.ltb_ge in E; lia].
Qed.

Section Dups.
  Variable eps : R.
  Notation O := (R_ops eps).

  Lemma sum_dups_from_incl : forall l j x, incl (keys (sum_dups_from R O j x l)) (j :: keys l).
  Proof.
    induction l as [|[j' v] t IH]; intros j x; simpl; [apply incl_refl|].
    destruct (j' =? j)%Z eqn:E.
    - intros k Hk. apply IH in Hk. destruct Hk as [Hk|Hk]; [left; exact Hk|right; right; exact Hk].
    - simpl. intros k [Hk|Hk]; [left; exact Hk|]. right. apply IH in Hk. exact Hk.
  Qed.

  (* on a column sorted by row index the output has strictly increasing indices ... *)
  Lemma sum_dups_from_incr : forall l j x, wsorted (j :: keys l) -> incr (keys (sum_dups_from R O j x l)).
  Proof.
    induction l as [|[j' v] t IH]; intros j x Hs; simpl; [repeat constructor|].
    simpl in Hs. inversion Hs as [|? ? Hs' Hall]; subst. inversion Hall as [|? ? Hjj' Hall']; subst.
    destruct (j' =? j)%Z eqn:E.
    - apply Z.eqb_eq in E. subst j'. apply IH. exact Hs'.
    - apply Z.eqb_neq in E. simpl. constructor; [apply IH; exact Hs'|].
      apply Forall_forall. intros k Hk. apply sum_dups_from_incl in Hk.
      inversion Hs' as [|? ? _ Hall'']; subst. rewrite Forall_forall in Hall''.
      destruct Hk as [Hk|Hk]; [subst; lia|specialize (Hall'' _ Hk); lia].
  Qed.

  (* ... and each of them carries the sum of the values stored for it *)
  Lemma sum_dups_from_lookup : forall l j x k, wsorted (j :: keys l) ->
    lookupR k (sum_dups_from R O j x l) = (if (j =? k)%Z then x else 0) + lookup_sum k l.
  Proof.
    induction l as [|[j' v] t IH]; intros j x k Hs; simpl.
    - rewrite lookup_sum_nil. destruct (j =? k)%Z; lra.
    - simpl in Hs. inversion Hs as [|? ? Hs' Hall]; subst. inversion Hall as [|? ? Hjj' Hall']; subst.
      rewrite lookup_sum_cons. simpl fst. simpl snd.
      destruct (j' =? j)%Z eqn:E.
      + apply Z.eqb_eq in E. subst j'. rewrite IH by exact Hs'.
        destruct (j =? k)%Z; lra.
      + apply Z.eqb_neq in E. simpl. destruct (j =? k)%Z eqn:Ek.
        * apply Z.eqb_eq in Ek. subst k.
          destruct (j' =? j)%Z eqn:E2; [apply Z.eqb_eq in E2; lia|].
          rewrite lookup_sum_notin; [lra|].
          inversion Hs' as [|? ? _ Hall'']; subst. rewrite Forall_forall in Hall''.
          intro Hc. specialize (Hall'' _ Hc). lia.
        * rewrite IH by exact Hs'. lra.
  Qed.

  Lemma sum_dups_from_nonneg : forall l j x, 0 <= x -> nonnegv (map snd l) ->
    nonnegv (map snd (sum_dups_from R O j x l)).
  Proof.
    induction l as [|[j' v] t IH]; intros j x Hx Hl; simpl; [constructor; [exact Hx|constructor]|].
    simpl in Hl. inversion Hl; subst. destruct (j' =? j)%Z.
    - apply IH; [simpl; lra|assumption].
    - simpl. constructor; [exact Hx|]. apply IH; assumption.
  Qed.

  Lemma sum_dups_from_id : forall t j x, incr (j :: keys t) -> sum_dups_from R O j x t = (j, x) :: t.
  Proof.
    induction t as [|[j' v] t IH]; intros j x H; simpl; [reflexivity|].
    simpl in H. pose proof (incr_head _ _ H) as Hh. inversion Hh; subst.
    destruct (j' =? j)%Z eqn:E; [apply Z.eqb_eq in E; lia|].
    rewrite IH by (eapply incr_tail; eauto). reflexivity.
  Qed.

  Lemma sum_dups_id : forall c, incr (keys c) -> sum_dups R O c = c.
  Proof. intros [|[j v] t] H; [reflexivity|]. simpl. apply sum_dups_from_id. exact H. Qed.

  (* csr_sum_duplicates after sort_indices, on any stored column *)
  Lemma canon_col_spec : forall c,
    incr (keys (canon_col R O c))
    /\ (forall k, lookupR k (canon_col R O c) = lookup_sum k c)
    /\ incl (keys (canon_col R O c)) (keys c)
    /\ (nonnegv (map snd c) -> nonnegv (map snd (canon_col R O c))).
  Proof.
    intros c. unfold canon_col. pose proof (sort_col_sorted c) as Hs. pose proof (sort_col_perm c) as Hp.
    assert (Hk : forall k, lookup_sum k (sort_col R c) = lookup_sum k c) by (intro; apply lookup_sum_sort_col).
    assert (Hincl : incl (keys (sort_col R c)) (keys c)).
    { intros k Hin. unfold keys in *. eapply Permutation_in; [apply Permutation_map, Permutation_sym, Hp|exact Hin]. }
    assert (Hnn : nonnegv (map snd c) -> nonnegv (map snd (sort_col R c))).
    { intros H. unfold nonnegv in *. eapply Permutation_Forall; [apply Permutation_map; exact Hp|exact H]. }
    destruct (sort_col R c) as [|[j v] t]; simpl.
    - repeat split; [constructor|intro k; rewrite <- Hk; reflexivity|intros k []|intros; constructor].
    - simpl in Hs. repeat split.
      + apply sum_dups_from_incr. exact Hs.
      + intro k. rewrite sum_dups_from_lookup by exact Hs. rewrite <- Hk, lookup_sum_cons. reflexivity.
      + intros k Hin. apply sum_dups_from_incl in Hin. apply Hincl. exact Hin.
      + intros H. specialize (Hnn H). simpl in Hnn. inversion Hnn; subst. apply sum_dups_from_nonneg; assumption.
  Qed.

  (* a matrix already in canonical format is used as it is; otherwise every column is sorted and summed.  Both
     branches are [map canon_col] *)
  Lemma canonicalise_map : forall cols, canonicalise R O cols = map (canon_col R O) cols.
  Proof.
    intros cols. unfold canonicalise. destruct (has_canonical_format R cols) eqn:E; [|reflexivity].
    unfold has_canonical_format in E. rewrite forallb_forall in E.
    transitivity (map (fun c : list (Z * R) => c) cols); [symmetry; apply map_id|].
    apply map_ext_in. intros c Hc. specialize (E c Hc). apply strictly_incr_spec in E.
    unfold canon_col. rewrite sort_col_id by exact E. symmetry. apply sum_dups_id. exact E.
  Qed.
End Dups.

(* ------------------------------------------------------------------ the matrix-level model equals the dense definition *)
Definition rowsum (M : nat -> nat -> R) (m : nat) (i : nat) : R := sumR (map (fun j => M i j) (seq 0 m)).
Definition total (M : nat -> nat -> R) (n m : nat) : R := sumR (map (rowsum M m) (seq 0 n)).
Definition colsum (M : nat -> nat -> R) (n : nat) (j : nat) : R := sumR (map (fun i => M i j) (seq 0 n)).
(* SPEC (from the property text): weight_j = sum_i q_ij ln (q_ij / b_i),
   b_i = rowsum_i / total, q_ij = (M_ij + s b_i) / (colsum_j + s) *)
Definition iw_spec (n m : nat) (s : R) (M : nat -> nat -> R) (j : nat) : R :=
  sumR (map (fun i => kl_term (M i j) (rowsum M m i / total M n m) s (colsum M n j + s)) (seq 0 n)).

Definition Mx (cols : list (list (Z * R))) (i j : nat) : R := lookupR (Z.of_nat i) (nth j cols []).

(* a stored column of a count matrix with n rows: one entry per row index at most, indices in range, values >= 0 *)
Definition col_ok (n : nat) (c : list (Z * R)) : Prop :=
  NoDup (keys c) /\ in_range n (keys c) /\ nonnegv (map snd c).

Lemma map_nth_seq : forall (A B : Type) (f : A -> B) (l : list A) d,
  map (fun j => f (nth j l d)) (seq 0 (length l)) = map f l.
Proof. induction l; intros; simpl; auto. f_equal. rewrite <- seq_shift, map_map. apply IHl. Qed.

(* the dense meaning of a stored matrix whose columns may repeat a row index: sum by coordinate *)
Definition MxS (cols : list (list (Z * R))) (i j : nat) : R := lookup_sum (Z.of_nat i) (nth j cols []).

(* a stored column of a count matrix with n rows, any order, explicit zeros and duplicates allowed:
   indices in range, values >= 0 *)
Definition col_okd (n : nat) (c : list (Z * R)) : Prop := in_range n (keys c) /\ nonnegv (map snd c).

Lemma col_ok_okd : forall n c, col_ok n c -> col_okd n c.
Proof. intros n c (_ & H1 & H2). split; assumption. Qed.

Section Matrix.
  Variable eps : R.
  Notation O := (R_ops eps).

  Lemma row_fold_R : forall (c : list (Z * R)) i acc,
    fold_left (fun a e => if (fst e =? i)%Z then a + snd e else a) c acc = acc + lookup_sum i c.
  Proof.
    induction c as [|[j v] t IH]; intros i acc; simpl; [rewrite lookup_sum_nil; lra|].
    rewrite IH, lookup_sum_cons. simpl. destruct (j =? i)%Z; lra.
  Qed.

  Lemma row_count_R : forall cols i, row_count R O cols i = sumR (map (lookup_sum i) cols).
  Proof.
    intros cols i. unfold row_count. simpl.
    assert (G : forall acc, fold_left (fun acc c => fold_left (fun a e => if (fst e =? i)%Z then a + snd e else a) c acc) cols acc
                            = acc + sumR (map (lookup_sum i) cols)).
    { induction cols as [|c cols IH]; intros acc; simpl; [lra|]. rewrite IH, row_fold_R. lra. }
    rewrite G. lra.
  Qed.

  Lemma row_sums_R : forall n cols, row_sums R O n cols = map (rowsum (MxS cols) (length cols)) (seq 0 n).
  Proof.
    intros n cols. unfold row_sums. apply map_ext. intros i. rewrite row_count_R.
    unfold rowsum, MxS. rewrite (map_nth_seq _ _ (lookup_sum (Z.of_nat i)) cols []). reflexivity.
  Qed.

  Lemma baseline_R : forall n cols,
    baseline R O n cols = map (fun i => rowsum (MxS cols) (length cols) i / total (MxS cols) n (length cols)) (seq 0 n).
  Proof.
    intros n cols. unfold baseline. simpl. rewrite sum_list_R, row_sums_R.
    rewrite map_map. reflexivity.
  Qed.

  Lemma nth_map_seq : forall (f : nat -> R) n k, (k < n)%nat -> nth k (map f (seq 0 n)) 0 = f k.
  Proof.
    intros f n k H. rewrite (nth_indep _ 0 (f 0%nat)) by (rewrite map_length, seq_length; assumption).
    rewrite map_nth. rewrite seq_nth by assumption. reflexivity.
  Qed.

  Lemma canon_col_ok : forall n c, col_okd n c ->
    sparse_ok R (map fst (canon_col R O c)) (map snd (canon_col R O c))
    /\ in_range n (map fst (canon_col R O c)) /\ nonnegv (map snd (canon_col R O c)).
  Proof.
    intros n c (Hr & Hv). destruct (canon_col_spec eps c) as (Hi & _ & Hincl & Hnn). repeat split.
    - exact Hi.
    - rewrite !map_length. reflexivity.
    - unfold in_range in *. rewrite Forall_forall in *. intros k Hk. apply Hr. apply Hincl. exact Hk.
    - apply Hnn. exact Hv.
  Qed.

  Lemma dense_canon_col : forall c k,
    dense R 0 (map fst (canon_col R O c)) (map snd (canon_col R O c)) k = lookup_sum k c.
  Proof. intros. unfold dense. rewrite combine_fst_snd. apply (canon_col_spec eps c). Qed.

  Lemma sum_data_canon_col : forall n c, col_okd n c ->
    sumR (map snd (canon_col R O c)) = sumR (map (fun i => lookup_sum (Z.of_nat i) c) (seq 0 n)).
  Proof.
    intros n c Hc. destruct (canon_col_ok n c Hc) as (Hok & Hr & _).
    rewrite <- (sumR_to_dense n _ _ Hok Hr). unfold to_dense. f_equal. apply map_ext. intros i.
    apply dense_canon_col.
  Qed.

  Lemma MxS_nonneg : forall n cols i k, Forall (col_okd n) cols -> 0 <= MxS cols i k.
  Proof.
    intros n cols i k H. unfold MxS. apply lookup_sum_nonneg.
    destruct (Nat.lt_ge_cases k (length cols)) as [Hk|Hk].
    - rewrite Forall_forall in H. destruct (H (nth k cols []) (nth_In _ _ Hk)) as (_ & Hv). exact Hv.
    - rewrite nth_overflow by assumption. constructor.
  Qed.

  (* the modelled information_weight on ANY stored matrix (duplicates, any order, explicit zeros) is the KL sum of the
     dense matrix it denotes *)
  Theorem information_weight_R_dup : forall n cols s,
    Forall (col_okd n) cols -> 0 < s ->
    information_weight R O false n cols s
    = map (fun j => Some (iw_spec n (length cols) s (MxS cols) j)) (seq 0 (length cols)).
  Proof.
    intros n cols s Hcols Hs.
    unfold information_weight. rewrite canonicalise_map, baseline_R, map_map.
    set (b := map (fun i => rowsum (MxS cols) (length cols) i / total (MxS cols) n (length cols)) (seq 0 n)).
    rewrite <- (map_nth_seq _ _ (fun c => column_kl_exact R O (map fst (canon_col R O c)) (map snd (canon_col R O c)) b s) cols []).
    apply map_ext_in. intros j Hj. apply in_seq in Hj.
    assert (Hc : col_okd n (nth j cols [])) by (rewrite Forall_forall in Hcols; apply Hcols; apply nth_In; lia).
    destruct (canon_col_ok n _ Hc) as (Hok & Hr & Hv).
    assert (Hb : nonnegv b).
    { unfold nonnegv, b. rewrite Forall_map. apply Forall_forall. intros i _.
      assert (Hrs : forall i, 0 <= rowsum (MxS cols) (length cols) i).
      { intros i0. unfold rowsum. apply sumR_nonneg. rewrite Forall_map. apply Forall_forall. intros j0 _.
        apply (MxS_nonneg n). exact Hcols. }
      assert (Ht : 0 <= total (MxS cols) n (length cols)).
      { unfold total. apply sumR_nonneg. rewrite Forall_map. apply Forall_forall. intros; apply Hrs. }
      destruct (Req_dec (total (MxS cols) n (length cols)) 0) as [->|Hne].
      - unfold Rdiv. rewrite Rinv_0. rewrite Rmult_0_r. lra.
      - apply Rmult_le_pos; [apply Hrs|]. left. apply Rinv_0_lt_compat. lra. }
    rewrite (column_kl_exact_R eps _ _ b s Hok Hv Hb Hs). f_equal.
    assert (Hlb : length b = n) by (unfold b; rewrite map_length, seq_length; reflexivity).
    unfold kl_column, iw_spec. rewrite Hlb.
    apply sumR_map_ext_in. intros i Hi. apply in_seq in Hi.
    rewrite dense_canon_col. unfold b. rewrite nth_map_seq by lia.
    rewrite (sum_data_canon_col n _ Hc). reflexivity.
  Qed.
End Matrix.

(* ------------------------------------------------------------------ properties of the definition *)
Lemma sumR_perm : forall l l', Permutation l l' -> sumR l = sumR l'.
Proof. induction 1; simpl; lra. Qed.

Lemma sumR_reindex : forall (f : nat -> R) (p : nat -> nat) n,
  Permutation (map p (seq 0 n)) (seq 0 n) -> sumR (map (fun i => f (p i)) (seq 0 n)) = sumR (map f (seq 0 n)).
Proof.
  intros f p n H. rewrite <- (map_map p f). apply sumR_perm. apply Permutation_map. exact H.
Qed.

Lemma sumR_ge_term : forall (f : nat -> R) m j, (forall k, (k < m)%nat -> 0 <= f k) -> (j < m)%nat ->
  f j <= sumR (map f (seq 0 m)).
Proof.
  induction m; intros j Hf Hj; [lia|]. rewrite seq_S, map_app, sumR_app. simpl.
  assert (0 <= sumR (map f (seq 0 m))).
  { apply sumR_nonneg. rewrite Forall_map. apply Forall_forall. intros k Hk. apply in_seq in Hk. apply Hf. lia. }
  destruct (Nat.eq_dec j m) as [->|Hne]; [lra|].
  assert (f j <= sumR (map f (seq 0 m))) by (apply IHm; [intros; apply Hf; lia|lia]).
  assert (0 <= f m) by (apply Hf; lia). lra.
Qed.

Lemma iw_spec_ext : forall n m s M M' j, (j < m)%nat ->
  (forall i k, (i < n)%nat -> (k < m)%nat -> M i k = M' i k) -> iw_spec n m s M j = iw_spec n m s M' j.
Proof.
  intros n m s M M' j Hj H.
  assert (Hrs : forall i, (i < n)%nat -> rowsum M m i = rowsum M' m i).
  { intros i Hi. unfold rowsum. apply sumR_map_ext_in. intros k Hk. apply in_seq in Hk. apply H; lia. }
  assert (Ht : total M n m = total M' n m).
  { unfold total. apply sumR_map_ext_in. intros i Hi. apply in_seq in Hi. apply Hrs; lia. }
  assert (Hc : colsum M n j = colsum M' n j).
  { unfold colsum. apply sumR_map_ext_in. intros i Hi. apply in_seq in Hi. apply H; lia. }
  unfold iw_spec. apply sumR_map_ext_in. intros i Hi. apply in_seq in Hi.
  rewrite (H i j), Hrs, Ht, Hc by lia. reflexivity.
Qed.

(* weights do not change when the rows are permuted *)
Theorem iw_spec_row_perm : forall n m s M (p : nat -> nat) j,
  Permutation (map p (seq 0 n)) (seq 0 n) ->
  iw_spec n m s (fun i k => M (p i) k) j = iw_spec n m s M j.
Proof.
  intros n m s M p j Hp.
  assert (Ht : total (fun i k => M (p i) k) n m = total M n m).
  { unfold total. apply (sumR_reindex (rowsum M m) p n Hp). }
  assert (Hc : colsum (fun i k => M (p i) k) n j = colsum M n j).
  { unfold colsum. apply (sumR_reindex (fun i => M i j) p n Hp). }
  unfold iw_spec. rewrite Ht, Hc.
  apply (sumR_reindex (fun i => kl_term (M i j) (rowsum M m i / total M n m) s (colsum M n j + s)) p n Hp).
Qed.

(* weights move with the columns *)
Theorem iw_spec_col_perm : forall n m s M (p : nat -> nat) j,
  Permutation (map p (seq 0 m)) (seq 0 m) ->
  iw_spec n m s (fun i k => M i (p k)) j = iw_spec n m s M (p j).
Proof.
  intros n m s M p j Hp.
  assert (Hr : forall i, rowsum (fun i k => M i (p k)) m i = rowsum M m i).
  { intros i. unfold rowsum. apply (sumR_reindex (fun k => M i k) p m Hp). }
  assert (Ht : total (fun i k => M i (p k)) n m = total M n m).
  { unfold total. apply sumR_map_ext_in. intros; apply Hr. }
  unfold iw_spec. rewrite Ht. apply sumR_map_ext_in. intros i _. rewrite Hr. reflexivity.
Qed.

(* Gibbs: the weight is a KL divergence between two probability vectors, hence >= 0 *)
Theorem iw_spec_nonneg : forall n m s M j,
  (forall i k, (i < n)%nat -> (k < m)%nat -> 0 <= M i k) -> 0 < total M n m -> 0 < s -> (j < m)%nat ->
  0 <= iw_spec n m s M j.
Proof.
  intros n m s M j HM Ht Hs Hj.
  assert (Hrs : forall i, (i < n)%nat -> 0 <= rowsum M m i).
  { intros i Hi. unfold rowsum. apply sumR_nonneg. rewrite Forall_map. apply Forall_forall. intros k Hk.
    apply in_seq in Hk. apply HM; lia. }
  assert (HC : 0 <= colsum M n j).
  { unfold colsum. apply sumR_nonneg. rewrite Forall_map. apply Forall_forall. intros i Hi. apply in_seq in Hi. apply HM; lia. }
  set (T := total M n m) in *. set (N := colsum M n j + s).
  assert (HN : 0 < N) by (unfold N; lra).
  set (l := map (fun i => (posterior (M i j) (rowsum M m i / T) s N, rowsum M m i / T)) (seq 0 n)).
  assert (E : iw_spec n m s M j = sumR (map (fun p => fst p * ln (fst p / snd p)) l)).
  { unfold iw_spec, l. rewrite map_map. reflexivity. }
  assert (Hbs : sumR (map snd l) = 1).
  { unfold l. rewrite map_map. simpl.
    rewrite <- (map_map (rowsum M m) (fun x => x / T)). rewrite sumR_div. fold (total M n m). fold T. field. lra. }
  assert (Hq : sumR (map fst l) = 1).
  { unfold l. rewrite map_map. simpl. unfold posterior.
    rewrite (sumR_map_ext_in _ _ (fun i => M i j / N + s / N * (rowsum M m i / T))) by (intros; field; lra).
    rewrite sumR_map_plus.
    rewrite <- (map_map (fun i => M i j) (fun x => x / N)). rewrite sumR_div. fold (colsum M n j).
    rewrite <- (map_map (fun i => rowsum M m i / T) (fun x => s / N * x)). rewrite sumR_scal.
    rewrite <- (map_map (rowsum M m) (fun x => x / T)). rewrite sumR_div. fold (total M n m). fold T.
    unfold N. field. split; lra. }
  rewrite E. pose proof (gibbs_terms l) as G. rewrite Hq, Hbs in G.
  apply Rle_trans with (1 - 1); [lra|]. apply G.
  intros q b Hin. unfold l in Hin. apply in_map_iff in Hin. destruct Hin as (i & Hi & His).
  inversion Hi; subst q b. apply in_seq in His.
  assert (Hb : 0 <= rowsum M m i / T) by (apply Rmult_le_pos; [apply Hrs; lia|left; apply Rinv_0_lt_compat; assumption]).
  assert (Hm : 0 <= M i j) by (apply HM; lia).
  repeat split; auto.
  - unfold posterior. apply Rmult_le_pos; [nra|]. left. apply Rinv_0_lt_compat. assumption.
  - intros Hz. assert (Hr0 : rowsum M m i = 0).
    { apply Rmult_eq_reg_r with (/ T); [|apply Rinv_neq_0_compat; lra]. unfold Rdiv in Hz. lra. }
    assert (M i j <= rowsum M m i) by (unfold rowsum; apply (sumR_ge_term (fun k => M i k)); [intros; apply HM; lia|assumption]).
    unfold posterior. rewrite Hz. replace (M i j) with 0 by lra. unfold Rdiv. rewrite Rmult_0_r, Rplus_0_l. apply Rmult_0_l.
Qed.

(* ------------------------------------------------------------------ the transformer *)
Definition R_pow (x p : R) : R :=
  if Req_EM_T x 0 then (if Req_EM_T p 0 then 1 else 0) else Rpower x p.

Lemma R_pow_nonneg : forall x p, 0 <= R_pow x p.
Proof.
  intros. unfold R_pow. destruct (Req_EM_T x 0); [destruct (Req_EM_T p 0); lra|].
  unfold Rpower. left. apply exp_pos.
Qed.

Section Transformer.
  Variable eps : R.
  Notation O := (R_ops eps).

  Lemma finish_weights_R : forall w p,
    finish_weights R O R_pow w p
    = map (fun x => R_pow (Rmax (x / (sumR w / INR (length w))) 0) p) w.
  Proof.
    intros. unfold finish_weights. simpl. rewrite sum_list_R. apply map_ext. intros x. f_equal.
    unfold R_ltb, Rmax. destruct (Rlt_dec (x / (sumR w / INR (length w))) 0); destruct (Rle_dec (x / (sumR w / INR (length w))) 0); lra.
  Qed.

  Lemma finish_weights_nonneg : forall w p, Forall (fun x => 0 <= x) (finish_weights R O R_pow w p).
  Proof. intros. rewrite finish_weights_R. rewrite Forall_map. apply Forall_forall. intros. apply R_pow_nonneg. Qed.

  Lemma zip_mul_nth : forall r w j, (j < length r)%nat -> (j < length w)%nat ->
    nth j (zip_mul R O r w) 0 = nth j r 0 * nth j w 0.
  Proof.
    induction r as [|x r IH]; intros w j Hr Hw; simpl in Hr; [lia|]. destruct w as [|a w]; simpl in Hw; [lia|].
    destruct j; simpl; [reflexivity|]. apply IH; lia.
  Qed.
  Lemma zip_mul_length : forall r w, length (zip_mul R O r w) = Nat.min (length r) (length w).
  Proof. induction r; destruct w; simpl; auto. Qed.

  (* transform X = X * diag(w): entry (i, j) is X_ij * w_j *)
  Theorem transform_entry : forall rows w i j, (i < length rows)%nat ->
    (j < length (nth i rows []))%nat -> (j < length w)%nat ->
    nth j (nth i (transform R O rows w) []) 0 = nth j (nth i rows []) 0 * nth j w 0.
  Proof.
    intros rows w i j Hi Hj Hw. unfold transform.
    rewrite (nth_indep _ [] (zip_mul R O [] w)) by (rewrite map_length; assumption).
    rewrite (map_nth (fun r => zip_mul R O r w) rows [] i). apply zip_mul_nth; assumption.
  Qed.

  Lemma zip_mul_linear : forall a b r r' w, length r = length r' ->
    zip_mul R O (map2 (fun x y => a * x + b * y) r r') w
    = map2 (fun x y => a * x + b * y) (zip_mul R O r w) (zip_mul R O r' w).
  Proof.
    induction r; destruct r', w; simpl; intros; try discriminate; auto.
    f_equal; [ring|]. apply IHr. lia.
  Qed.

  Theorem transform_linear : forall a b X Y w, length X = length Y ->
    Forall2 (fun r r' => length r = length r') X Y ->
    transform R O (map2 (fun r r' => map2 (fun x y => a * x + b * y) r r') X Y) w
    = map2 (fun r r' => map2 (fun x y => a * x + b * y) r r') (transform R O X w) (transform R O Y w).
  Proof.
    intros a b X Y w Hl H. unfold transform. induction H; simpl; auto.
    f_equal; [apply zip_mul_linear; assumption|]. apply IHForall2. simpl in Hl. lia.
  Qed.
End Transformer.

(* ------------------------------------------------------------------ corollaries at the level of the stored matrix *)
Lemma MxS_Mx : forall n cols i j, Forall (col_ok n) cols -> MxS cols i j = Mx cols i j.
Proof.
  intros n cols i j H. unfold MxS, Mx. apply lookup_sum_nodup.
  destruct (Nat.lt_ge_cases j (length cols)) as [Hj|Hj].
  - rewrite Forall_forall in H. destruct (H (nth j cols []) (nth_In _ _ Hj)) as (Hn & _). exact Hn.
  - rewrite nth_overflow by assumption. constructor.
Qed.

Lemma Forall_col_ok_okd : forall n cols, Forall (col_ok n) cols -> Forall (col_okd n) cols.
Proof. intros n cols H. eapply Forall_impl; [|exact H]. apply col_ok_okd. Qed.

(* at most one entry per (row, column): the dense meaning is the plain lookup *)
Theorem information_weight_R : forall eps n cols s,
  Forall (col_ok n) cols -> 0 < s ->
  information_weight R (R_ops eps) false n cols s
  = map (fun j => Some (iw_spec n (length cols) s (Mx cols) j)) (seq 0 (length cols)).
Proof.
  intros eps n cols s Hcols Hs. rewrite information_weight_R_dup by (try apply Forall_col_ok_okd; assumption).
  apply map_ext_in. intros j Hj. apply in_seq in Hj. f_equal. apply iw_spec_ext; [lia|].
  intros i k _ _. apply (MxS_Mx n). exact Hcols.
Qed.

Lemma Mx_nonneg : forall n cols i k, Forall (col_ok n) cols -> (k < length cols)%nat -> 0 <= Mx cols i k.
Proof.
  intros n cols i k H _. rewrite <- (MxS_Mx n) by exact H. apply (MxS_nonneg n). apply Forall_col_ok_okd. exact H.
Qed.

Theorem information_weight_nonneg_dup : forall eps n cols s,
  Forall (col_okd n) cols -> 0 < s -> 0 < total (MxS cols) n (length cols) ->
  Forall (fun w => exists x, w = Some x /\ 0 <= x) (information_weight R (R_ops eps) false n cols s).
Proof.
  intros eps n cols s H Hs Ht. rewrite information_weight_R_dup by assumption.
  rewrite Forall_map. apply Forall_forall. intros j Hj. apply in_seq in Hj.
  eexists. split; [reflexivity|]. apply iw_spec_nonneg; auto; try lia.
  intros i k _ _. apply (MxS_nonneg n). exact H.
Qed.

Theorem information_weight_nonneg : forall eps n cols s,
  Forall (col_ok n) cols -> 0 < s -> 0 < total (Mx cols) n (length cols) ->
  Forall (fun w => exists x, w = Some x /\ 0 <= x) (information_weight R (R_ops eps) false n cols s).
Proof.
  intros eps n cols s H Hs Ht. rewrite information_weight_R by assumption.
  rewrite Forall_map. apply Forall_forall. intros j Hj. apply in_seq in Hj.
  eexists. split; [reflexivity|]. apply iw_spec_nonneg; auto; try lia.
  intros i k _ Hk. apply (Mx_nonneg n); assumption.
Qed.

(* two stored matrices (duplicates, any order, explicit zeros) with the same dense meaning get the same weights *)
Theorem information_weight_layout_dup : forall eps n cols cols' s,
  Forall (col_okd n) cols -> Forall (col_okd n) cols' -> length cols = length cols' -> 0 < s ->
  (forall i j, (i < n)%nat -> (j < length cols)%nat -> MxS cols i j = MxS cols' i j) ->
  information_weight R (R_ops eps) false n cols s = information_weight R (R_ops eps) false n cols' s.
Proof.
  intros eps n cols cols' s H H' Hl Hs HM. rewrite !information_weight_R_dup by assumption. rewrite <- Hl.
  apply map_ext_in. intros j Hj. apply in_seq in Hj. f_equal. apply iw_spec_ext; [lia|assumption].
Qed.

Theorem information_weight_layout : forall eps n cols cols' s,
  Forall (col_ok n) cols -> Forall (col_ok n) cols' -> length cols = length cols' -> 0 < s ->
  (forall i j, (i < n)%nat -> (j < length cols)%nat -> Mx cols i j = Mx cols' i j) ->
  information_weight R (R_ops eps) false n cols s = information_weight R (R_ops eps) false n cols' s.
Proof.
  intros eps n cols cols' s H H' Hl Hs HM. rewrite !information_weight_R by assumption. rewrite <- Hl.
  apply map_ext_in. intros j Hj. apply in_seq in Hj. f_equal. apply iw_spec_ext; [lia|assumption].
Qed.

(* ------------------------------------------------------------------ a matrix given as (row, column, value) triples *)
Definition t_row (t : Z * Z * R) : Z := fst (fst t).
Definition t_col (t : Z * Z * R) : Z := snd (fst t).
Definition t_val (t : Z * Z * R) : R := snd t.

(* the CSC storage of the triples: column j holds, in the order of the list, the (row, value) of every triple of
   column j (what a stable conversion to CSC produces; CSR / CSC / COO inputs differ in the order of the list only) *)
Definition csc_of_triples (m : nat) (tr : list (Z * Z * R)) : list (list (Z * R)) :=
  map (fun j => map (fun t => (t_row t, t_val t)) (filter (fun t => (t_col t =? Z.of_nat j)%Z) tr)) (seq 0 m).

(* SPEC: the dense matrix the triples denote: entry (i, j) = the sum of the values given for (i, j) *)
Definition dense_of_triples (tr : list (Z * Z * R)) (i j : nat) : R :=
  sumR (map t_val (filter (fun t => (t_row t =? Z.of_nat i)%Z && (t_col t =? Z.of_nat j)%Z) tr)).

Definition triples_ok (n m : nat) (tr : list (Z * Z * R)) : Prop :=
  Forall (fun t => (0 <= t_row t < Z.of_nat n)%Z /\ (0 <= t_col t < Z.of_nat m)%Z /\ 0 <= t_val t) tr.

Lemma csc_of_triples_length : forall m tr, length (csc_of_triples m tr) = m.
Proof. intros. unfold csc_of_triples. rewrite map_length, seq_length. reflexivity. Qed.

Lemma nth_csc_of_triples : forall m tr j, (j < m)%nat ->
  nth j (csc_of_triples m tr) [] = map (fun t => (t_row t, t_val t)) (filter (fun t => (t_col t =? Z.of_nat j)%Z) tr).
Proof.
  intros m tr j Hj. unfold csc_of_triples.
  set (f := fun j0 : nat => map (fun t : Z * Z * R => (t_row t, t_val t)) (filter (fun t => (t_col t =? Z.of_nat j0)%Z) tr)).
  rewrite (nth_indep _ [] (f 0%nat)) by (rewrite map_length, seq_length; exact Hj).
  rewrite map_nth, seq_nth by exact Hj. reflexivity.
Qed.

Lemma MxS_csc_of_triples : forall m tr i j, (j < m)%nat ->
  MxS (csc_of_triples m tr) i j = dense_of_triples tr i j.
Proof.
  intros m tr i j Hj. unfold MxS, dense_of_triples. rewrite nth_csc_of_triples by exact Hj.
  induction tr as [|t tr IH]; [reflexivity|]. simpl.
  destruct (t_col t =? Z.of_nat j)%Z; simpl.
  - rewrite lookup_sum_cons. simpl. rewrite IH. destruct (t_row t =? Z.of_nat i)%Z; simpl; lra.
  - rewrite IH. rewrite Bool.andb_false_r. reflexivity.
Qed.

Lemma csc_of_triples_okd : forall n m tr, triples_ok n m tr -> Forall (col_okd n) (csc_of_triples m tr).
Proof.
  intros n m tr H. unfold csc_of_triples. rewrite Forall_map. apply Forall_forall. intros j _.
  unfold col_okd, keys, in_range, nonnegv. rewrite !map_map. simpl. rewrite !Forall_map.
  split; apply Forall_forall; intros t Ht; apply filter_In in Ht; destruct Ht as [Ht _];
    unfold triples_ok in H; rewrite Forall_forall in H; destruct (H t Ht) as (H1 & H2 & H3); assumption.
Qed.

Lemma dense_of_triples_perm : forall tr tr' i j, Permutation tr tr' -> dense_of_triples tr i j = dense_of_triples tr' i j.
Proof.
  intros tr tr' i j H. unfold dense_of_triples.
  induction H; simpl; try lra.
  - destruct (_ && _); simpl; lra.
  - destruct ((t_row y =? Z.of_nat i)%Z && (t_col y =? Z.of_nat j)%Z);
      destruct ((t_row x =? Z.of_nat i)%Z && (t_col x =? Z.of_nat j)%Z); simpl; lra.
Qed.

(* any list of triples with non-negative values, repeated coordinates allowed, in any order: the weights computed from
   the canonicalised storage are the KL sums of the dense matrix the triples denote *)
Theorem information_weight_triples : forall eps n m tr s,
  triples_ok n m tr -> 0 < s ->
  information_weight R (R_ops eps) false n (csc_of_triples m tr) s
  = map (fun j => Some (iw_spec n m s (dense_of_triples tr) j)) (seq 0 m).
Proof.
  intros eps n m tr s H Hs. rewrite information_weight_R_dup by (try apply csc_of_triples_okd with (m := m); assumption).
  rewrite csc_of_triples_length. apply map_ext_in. intros j Hj. apply in_seq in Hj. f_equal.
  apply iw_spec_ext; [lia|]. intros i k _ Hk. apply MxS_csc_of_triples. exact Hk.
Qed.

Theorem information_weight_triples_perm : forall eps n m tr tr' s,
  triples_ok n m tr -> Permutation tr tr' -> 0 < s ->
  information_weight R (R_ops eps) false n (csc_of_triples m tr) s
  = information_weight R (R_ops eps) false n (csc_of_triples m tr') s.
Proof.
  intros eps n m tr tr' s H Hp Hs.
  assert (H' : triples_ok n m tr') by (unfold triples_ok in *; eapply Permutation_Forall; eauto).
  rewrite !information_weight_triples by assumption.
  apply map_ext_in. intros j Hj. apply in_seq in Hj. f_equal. apply iw_spec_ext; [lia|].
  intros i k _ _. apply dense_of_triples_perm. exact Hp.
Qed.
