(* K13 — proofs about the information-weight model over R. *)
From Coq Require Import Reals Lra List Psatz ZArith Bool Sorted Permutation Arith.
From VZ Require Import Model.K11_SparseVec Model.K12_Dist Model.K13_InfoWeight
  Proofs.K12_RealFacts Proofs.K11_SparseVec_proofs Proofs.K12_Dist_proofs.
Import ListNotations.

(* ------------------------------------------------------------------ binary search *)
Lemma incr_nth_lt : forall (a : list Z) i j, incr a -> (i < j)%nat -> (j < length a)%nat ->
  (nth i a 0 < nth j a 0)%Z.
Proof.
  induction a as [|x a IH]; intros i j Hs Hij Hj; simpl in Hj; [lia|].
  destruct j as [|j]; [lia|]. destruct i as [|i]; simpl.
  - pose proof (incr_head _ _ Hs) as Hh. rewrite Forall_forall in Hh. apply Hh. apply nth_In. lia.
  - apply IH; [eapply incr_tail; eauto|lia|lia].
Qed.

Lemma bsearch_S : forall f a v lo hi,
  bsearch (S f) a v lo hi =
  if (lo <? hi)%nat then
    match nth_error a (lo + (hi - lo) / 2) with
    | Some x => if (x <? v)%Z then bsearch f a v (S (lo + (hi - lo) / 2)) hi else bsearch f a v lo (lo + (hi - lo) / 2)
    | None => lo
    end
  else lo.
Proof. reflexivity. Qed.

Lemma bsearch_spec : forall fuel a v lo hi, incr a ->
  (lo <= hi)%nat -> (hi <= length a)%nat -> (hi - lo < fuel)%nat ->
  (forall k, (k < lo)%nat -> (nth k a 0 < v)%Z) ->
  (forall k, (hi <= k)%nat -> (k < length a)%nat -> (v <= nth k a 0)%Z) ->
  let r := bsearch fuel a v lo hi in
  (lo <= r <= hi)%nat /\ (forall k, (k < r)%nat -> (nth k a 0 < v)%Z) /\
  (forall k, (r <= k)%nat -> (k < length a)%nat -> (v <= nth k a 0)%Z).
Proof.
  induction fuel as [|f IH]; intros a v lo hi Hs Hlh Hh Hf Hlo Hhi; [lia|].
  rewrite bsearch_S. destruct (lo <? hi)%nat eqn:E.
  - apply Nat.ltb_lt in E.
    assert (Hdiv : ((hi - lo) / 2 < hi - lo)%nat) by (apply Nat.div_lt; lia).
    remember ((hi - lo) / 2)%nat as h eqn:Eh. clear Eh.
    set (mid := (lo + h)%nat).
    assert (Hmid : (lo <= mid < hi)%nat) by (unfold mid; lia).
    destruct (nth_error a mid) as [x|] eqn:En; [|apply nth_error_None in En; lia].
    assert (Hx : nth mid a 0%Z = x) by (apply nth_error_nth; assumption).
    destruct (x <? v)%Z eqn:Ex.
    + apply Z.ltb_lt in Ex.
      destruct (IH a v (S mid) hi Hs ltac:(lia) Hh ltac:(lia)) as (R1 & R2 & R3); auto.
      * intros k Hk. destruct (Nat.eq_dec k mid) as [->|Hne]; [lia|].
        assert (nth k a 0 < nth mid a 0)%Z by (apply incr_nth_lt; auto; lia). lia.
      * repeat split; auto; lia.
    + apply Z.ltb_ge in Ex.
      destruct (IH a v lo mid Hs ltac:(lia) ltac:(lia) ltac:(lia)) as (R1 & R2 & R3); auto.
      * intros k Hk Hk2. destruct (Nat.eq_dec k mid) as [->|Hne]; [lia|].
        destruct (Nat.lt_ge_cases k hi); [|apply Hhi; lia].
        assert (nth mid a 0 < nth k a 0)%Z by (apply incr_nth_lt; auto; lia). lia.
      * repeat split; auto; lia.
  - apply Nat.ltb_ge in E. assert (lo = hi) by lia. subst. repeat split; auto; lia.
Qed.

(* on strictly increasing indices that contain v, searchsorted returns the position of v *)
Lemma searchsorted_found : forall a v, incr a -> In v a -> nth_error a (searchsorted a v) = Some v.
Proof.
  intros a v Hs Hin. unfold searchsorted.
  destruct (bsearch_spec (S (length a)) a v 0 (length a) Hs ltac:(lia) ltac:(lia) ltac:(lia)) as (R1 & R2 & R3).
  - intros; lia.
  - intros; lia.
  - set (r := bsearch (S (length a)) a v 0 (length a)) in *.
    destruct (In_nth a v 0%Z Hin) as (p & Hp & Hpv).
    assert (r <= p)%nat.
    { destruct (Nat.lt_ge_cases p r); [|lia]. specialize (R2 p H). lia. }
    assert (p = r).
    { destruct (Nat.eq_dec p r); auto. assert (nth r a 0 < nth p a 0)%Z by (apply incr_nth_lt; auto; lia).
      specialize (R3 r ltac:(lia) ltac:(lia)). lia. }
    subst p. rewrite <- Hpv. apply nth_error_nth'. lia.
Qed.

Lemma dense_at_position : forall (inds : list Z) (data : list R) p i,
  incr inds -> length inds = length data -> nth_error inds p = Some i ->
  nth_error data p = Some (dense R 0%R inds data i).
Proof.
  induction inds as [|j t IH]; intros data p i Hs Hl Hn; [destruct p; discriminate|].
  destruct data as [|d data]; [discriminate|]. unfold dense. simpl.
  destruct p as [|p]; simpl in *.
  - inversion Hn; subst. rewrite Z.eqb_refl. reflexivity.
  - assert (Hin : In i t) by (eapply nth_error_In; eauto).
    pose proof (incr_head _ _ Hs) as Hh. rewrite Forall_forall in Hh. specialize (Hh _ Hin).
    destruct (j =? i)%Z eqn:E; [apply Z.eqb_eq in E; lia|].
    apply IH; auto. eapply incr_tail; eauto.
Qed.

Lemma existsb_eqb_In : forall (i : Z) l, existsb (Z.eqb i) l = true <-> In i l.
Proof.
  intros. rewrite existsb_exists. split.
  - intros (x & Hx & E). apply Z.eqb_eq in E. subst. assumption.
  - intros H. exists i. split; auto. apply Z.eqb_refl.
Qed.

Open Scope R_scope.

(* ------------------------------------------------------------------ the kernel computes the KL sum *)
Section Kernel.
  Variable eps : R.
  Notation O := (R_ops eps).

  (* posterior probability of row i and its KL term, written from the definition *)
  Definition posterior (c bi s N : R) : R := (c + s * bi) / N.
  Definition kl_term (c bi s N : R) : R := posterior c bi s N * ln (posterior c bi s N / bi).

  Fixpoint kl_sum_from (inds : list Z) (data : list R) (s N : R) (i : Z) (bs : list R) : R :=
    match bs with
    | [] => 0
    | bi :: bs' => kl_term (dense R 0 inds data i) bi s N + kl_sum_from inds data s N (i + 1)%Z bs'
    end.

  Lemma out_term : forall bi s N, 0 < N -> bi * (s / N * ln (s / N)) = kl_term 0 bi s N.
  Proof.
    intros bi s N HN. unfold kl_term, posterior. destruct (Req_dec bi 0) as [->|Hb].
    - rewrite !Rmult_0_r, Rplus_0_l. unfold Rdiv. rewrite !Rmult_0_l. reflexivity.
    - rewrite Rplus_0_l. replace (s * bi / N / bi) with (s / N) by (field; split; lra). field. lra.
  Qed.

  Lemma ckl_loop_R : forall inds data s N, incr inds -> length inds = length data -> 0 < N ->
    forall bs i acc,
      (forall k, (k < length bs)%nat ->
                 0 <= posterior (dense R 0 inds data (i + Z.of_nat k)%Z) (nth k bs 0) s N) ->
      ckl_loop R O inds data s N (s / N * ln (s / N)) i bs acc
      = Some (acc + kl_sum_from inds data s N i bs).
  Proof.
    intros inds data s N Hs Hl HN. induction bs as [|bi bs IH]; intros i acc Hpos; simpl.
    - f_equal. lra.
    - assert (Hpos' : forall k, (k < length bs)%nat ->
                 0 <= posterior (dense R 0 inds data (i + 1 + Z.of_nat k)%Z) (nth k bs 0) s N).
      { intros k Hk. specialize (Hpos (S k) ltac:(simpl; lia)). simpl nth in Hpos.
        replace (i + 1 + Z.of_nat k)%Z with (i + Z.of_nat (S k))%Z by lia. exact Hpos. }
      specialize (Hpos 0%nat ltac:(simpl; lia)). simpl in Hpos. rewrite Z.add_0_r in Hpos.
      destruct (existsb (Z.eqb i) inds) eqn:E.
      + apply existsb_eqb_In in E.
        rewrite (dense_at_position inds data _ i Hs Hl (searchsorted_found inds i Hs E)).
        rewrite IH by assumption. f_equal.
        fold (posterior (dense R 0 inds data i) bi s N).
        unfold R_ltb. destruct (Rlt_dec 0 (posterior (dense R 0 inds data i) bi s N)) as [Hp|Hp].
        * unfold kl_term. lra.
        * assert (Hz : posterior (dense R 0 inds data i) bi s N = 0) by lra.
          unfold kl_term. rewrite Hz. lra.
      + assert (Hni : ~ In i inds) by (intro Hc; apply existsb_eqb_In in Hc; congruence).
        rewrite IH by assumption. f_equal. rewrite (dense_notin inds data i Hni).
        rewrite <- out_term by assumption. lra.
  Qed.
End Kernel.
