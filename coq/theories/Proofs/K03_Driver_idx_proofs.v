(* Proofs about Model/K03_Driver_idx.v: with token ids inside the radius table (ids <= n_unique: the vocabulary and
   the mask id) every look-up of the token driver loop is in range, the appended tuples are those of the list-level
   driver Model/K03_Cooc.token_events, and every key decodes back to its (row, col). *)
From Coq Require Import ZArith List Bool Arith Lia.
From VZ Require Import Model.K02_Windows Model.K03_Cooc Model.K02_Windows_idx Model.K03_Driver_idx.
From VZ Require Import Proofs.K02_Windows_proofs Proofs.K02_Windows_idx_proofs.
Import ListNotations.
Open Scope nat_scope.

(* ---------- the loop combinators ---------- *)

Lemma mapM_ok : forall A B (f : A -> dres B) (g : A -> B) l,
  (forall x, In x l -> f x = DOk (g x)) -> mapM f l = DOk (map g l).
Proof.
  induction l; intros H; [reflexivity|]. cbn [mapM map]. rewrite H by (left; reflexivity). cbn [dbind].
  rewrite IHl by (intros; apply H; right; assumption). reflexivity.
Qed.

Lemma flat_mapM_ok : forall A B (f : A -> dres (list B)) (g : A -> list B) l,
  (forall x, In x l -> f x = DOk (g x)) -> flat_mapM f l = DOk (flat_map g l).
Proof.
  induction l; intros H; [reflexivity|]. cbn [flat_mapM flat_map]. rewrite H by (left; reflexivity). cbn [dbind].
  rewrite IHl by (intros; apply H; right; assumption). reflexivity.
Qed.

Lemma dget_nth : forall A s (l : list A) i d, i < length l -> dget s l i = DOk (nth i l d).
Proof. intros. unfold dget. rewrite (nth_error_nth' l d) by assumption. reflexivity. Qed.

Lemma map_seq_nth : forall A B (g : A -> B) (l : list A) d,
  map (fun i => g (nth i l d)) (seq 0 (length l)) = map g l.
Proof.
  intros. rewrite (list_map_nth_seq A d l) at 2. rewrite map_map. reflexivity.
Qed.

Lemma flat_map_map : forall A B C (f : A -> B) (g : B -> list C) l, flat_map g (map f l) = flat_map (fun x => g (f x)) l.
Proof. induction l; simpl; [reflexivity|]. rewrite IHl. reflexivity. Qed.

Lemma map_flat_map : forall A B C (f : B -> C) (g : A -> list B) l, map f (flat_map g l) = flat_map (fun x => map f (g x)) l.
Proof. induction l; simpl; [reflexivity|]. rewrite map_app, IHl. reflexivity. Qed.

Lemma flat_map_ext_in : forall A B (f g : A -> list B) l, (forall x, In x l -> f x = g x) -> flat_map f l = flat_map g l.
Proof.
  induction l; intros H; [reflexivity|]. simpl. rewrite H by (left; reflexivity).
  rewrite IHl by (intros; apply H; right; assumption). reflexivity.
Qed.

Lemma combine_seq_nth_from : forall A (l : list A) d a,
  combine (seq a (length l)) l = map (fun i => (i, nth (i - a) l d)) (seq a (length l)).
Proof.
  induction l; intros d a0; [reflexivity|]. cbn [length seq combine map]. rewrite Nat.sub_diag. f_equal.
  rewrite (IHl d (S a0)). apply map_ext_in. intros i Hi. apply in_seq in Hi.
  replace (i - a0) with (S (i - S a0)) by lia. reflexivity.
Qed.

Lemma combine_seq_nth : forall A (l : list A) d,
  combine (seq 0 (length l)) l = map (fun i => (i, nth i l d)) (seq 0 (length l)).
Proof.
  intros. rewrite (combine_seq_nth_from A l d 0). apply map_ext. intros i. rewrite Nat.sub_0_r. reflexivity.
Qed.

Lemma combine_as_seq : forall A B (l1 : list A) (l2 : list B) d1 d2, length l1 = length l2 ->
  combine l1 l2 = map (fun j => (nth j l1 d1, nth j l2 d2)) (seq 0 (length l1)).
Proof.
  intros A B l1 l2 d1 d2 H. rewrite (list_map_nth_seq _ (d1, d2) (combine l1 l2)).
  rewrite combine_length, <- H, Nat.min_id. apply map_ext. intros j. apply combine_nth. exact H.
Qed.

Lemma lookup2_nth : forall (tbl : list (list nat)) i t, i < length tbl -> t < length (nth i tbl []) ->
  lookup2 tbl (Z.of_nat i) (Z.of_nat t) = Ok (nth t (nth i tbl []) 0).
Proof.
  intros tbl i t Hi Ht. unfold lookup2.
  rewrite (getZ_nth _ _ _ _ []) by (unfold zlen; lia). cbn [bind]. rewrite Nat2Z.id.
  rewrite (getZ_nth _ _ _ _ 0) by (unfold zlen; lia). rewrite Nat2Z.id. reflexivity.
Qed.

(* ---------- one position ---------- *)
Section Position.
Context {K : carrier}.
Variables (blocks : list (block K)) (nw : bool) (n : nat).
Hypothesis Hradii : Forall (fun b : block K => length (b_radii b) = n + 1) blocks.

Let dblk : block K :=
  {| b_rev := false; b_radii := []; b_kf := fun _ => zero; b_mask := None; b_norm := false; b_off := 0; b_mix := zero |}.
Let am := length blocks * n + 1.

Variables (s : list nat) (p : nat).
Hypothesis Hp : p < length s.
Let target := nth p s 0.
Hypothesis Htarget : target <= n.

Definition bwin (b : block K) : list nat := window_at_index s (nth target (b_radii b) 0) p (b_rev b).
Definition bview (b : block K) : view := window_view (zlen s) (Z.of_nat (nth target (b_radii b) 0)) (Z.of_nat p) (b_rev b).
Definition bker (b : block K) : list K :=
  map (mul (b_mix b)) (kernel (b_kf b) (b_mask b) (b_norm b) (b_off b) (bwin b)).

Lemma token_occ_eq : token_occ blocks s p = (target, map (fun b => (bwin b, bker b)) blocks).
Proof. reflexivity. Qed.

Lemma nth_block_radii : forall i, i < length blocks -> length (b_radii (nth i blocks dblk)) = n + 1.
Proof. intros i Hi. rewrite Forall_forall in Hradii. apply Hradii. apply nth_In. exact Hi. Qed.

Lemma views_at_ok : views_at (tables_of blocks) s target p = DOk (map bview blocks).
Proof.
  unfold views_at, n_windows, tables_of. cbn [t_radii t_rev]. rewrite map_length.
  rewrite <- (map_seq_nth _ _ bview blocks dblk). apply mapM_ok. intros i Hi. apply in_seq in Hi.
  rewrite lookup2_nth.
  - cbn [lift dbind]. rewrite (dget_nth _ _ _ _ false) by (rewrite map_length; lia). cbn [dbind].
    rewrite (nth_map_lt _ _ _ _ dblk) by lia. rewrite (nth_map_lt _ _ _ _ dblk) by lia. reflexivity.
  - rewrite map_length. lia.
  - rewrite (nth_map_lt _ _ _ _ dblk) by lia. rewrite nth_block_radii by lia. lia.
Qed.

Lemma bview_ok : forall b, view_ok s (bview b).
Proof. intros. apply window_view_ok. exact Hp. Qed.

Lemma bview_elems : forall b, view_elems 0 s (bview b) = bwin b.
Proof. intros. apply window_view_elems. exact Hp. Qed.

Lemma bview_len : forall b, Z.to_nat (v_len (bview b)) = length (bwin b).
Proof. intros. rewrite <- bview_elems, view_elems_length. reflexivity. Qed.

Lemma bker_length : forall b, length (bker b) = length (bwin b).
Proof. intros. unfold bker. rewrite map_length, kernel_length. reflexivity. Qed.

Lemma kernels_at_ok : kernels_at (tables_of blocks) s (map bview blocks) = DOk (map bker blocks).
Proof.
  unfold kernels_at, n_windows, tables_of. cbn [t_radii t_kf t_args t_mix]. rewrite map_length.
  rewrite <- (map_seq_nth _ _ bker blocks dblk). apply mapM_ok. intros i Hi. apply in_seq in Hi.
  rewrite (dget_nth _ _ _ _ (fun _ : nat => @zero K)) by (rewrite map_length; lia). cbn [dbind].
  rewrite (dget_nth _ _ _ _ (@None nat, false, 0)) by (rewrite map_length; lia). cbn [dbind].
  rewrite (dget_nth _ _ _ _ zero) by (rewrite map_length; lia). cbn [dbind].
  rewrite (dget_nth _ _ _ _ (bview dblk)) by (rewrite map_length; lia). cbn [dbind].
  rewrite !(nth_map_lt _ _ _ _ dblk) by lia. cbn [fst snd].
  rewrite kernel_idx_refines by apply bview_ok. cbn [lift dbind]. rewrite bview_elems. reflexivity.
Qed.

Lemma total_of_ok : total_of nw (map bker blocks) = occ_total nw (map (fun b => (bwin b, bker b)) blocks).
Proof. unfold total_of, occ_total. rewrite !map_map. reflexivity. Qed.

Lemma emit_at_ok : forall tot,
  emit_at n am (length blocks) s target (map bview blocks) (map bker blocks) tot
  = DOk (map (keyed am)
             (flat_map (fun iwk : nat * (list nat * list K) =>
                          slot_events n (fst iwk) target tot (fst (snd iwk)) (snd (snd iwk)))
                       (combine (seq 0 (length blocks)) (map (fun b => (bwin b, bker b)) blocks)))).
Proof.
  intros tot. unfold emit_at. rewrite map_length.
  pose proof (combine_seq_nth _ (map (fun b => (bwin b, bker b)) blocks) (bwin dblk, bker dblk)) as Hc.
  rewrite map_length in Hc. rewrite Hc. clear Hc.
  rewrite flat_map_map, map_flat_map. apply flat_mapM_ok. intros i Hi. apply in_seq in Hi.
  rewrite (dget_nth _ _ _ _ (bview dblk)) by (rewrite map_length; lia). cbn [dbind].
  rewrite (dget_nth _ _ _ _ (bker dblk)) by (rewrite map_length; lia). cbn [dbind].
  rewrite !(nth_map_lt _ _ _ _ dblk) by lia. cbn [fst snd].
  set (b := nth i blocks dblk). rewrite bview_len.
  unfold slot_events.
  rewrite (combine_as_seq _ _ (bwin b) (bker b) 0 zero) by (symmetry; apply bker_length).
  rewrite flat_map_map, map_flat_map. apply flat_mapM_ok. intros j Hj. apply in_seq in Hj. cbn [fst snd].
  rewrite (vget_elems _ _ _ _ 0) by (try apply bview_ok; rewrite bview_len; lia).
  cbn [lift dbind]. rewrite bview_elems.
  rewrite (dget_nth _ _ _ _ zero) by (rewrite bker_length; lia). cbn [dbind].
  destruct (gtb0 (div (nth j (bker b) zero) tot)); [|reflexivity].
  rewrite (dget_nth _ _ _ _ 0) by (rewrite seq_length; lia). reflexivity.
Qed.

Lemma position_events_ok :
  position_events (tables_of blocks) nw n am (length blocks) s p
  = DOk (map (keyed am) (occ_events nw n (token_occ blocks s p))).
Proof.
  unfold position_events. rewrite (dget_nth _ _ _ _ 0) by exact Hp. cbn [dbind]. fold target.
  rewrite views_at_ok. cbn [dbind]. rewrite kernels_at_ok. cbn [dbind].
  rewrite emit_at_ok, total_of_ok. rewrite token_occ_eq. unfold occ_events. cbn [fst snd].
  rewrite map_length. reflexivity.
Qed.

End Position.

(* ---------- the whole driver ---------- *)
Section Driver.
Context {K : carrier}.

Theorem build_skip_grams_idx_refines : forall (blocks : list (block K)) nw n array_lengths docs,
  Forall (fun b : block K => length (b_radii b) = n + 1) blocks ->
  length blocks <= length array_lengths ->
  Forall (Forall (fun t => t <= n)) docs ->
  build_skip_grams_idx (tables_of blocks) nw n array_lengths docs
  = DOk (map (keyed (length blocks * n + 1)) (token_events blocks nw n docs)).
Proof.
  intros blocks nw n array_lengths docs Hradii Hlen Hdocs. unfold build_skip_grams_idx.
  assert (Hn : n_windows (tables_of blocks) = length blocks) by (unfold n_windows, tables_of; cbn; apply map_length).
  rewrite Hn.
  rewrite (mapM_ok _ _ _ (fun i => nth i array_lengths 0)) by
    (intros i Hi; apply in_seq in Hi; apply dget_nth; lia).
  cbn [dbind]. rewrite map_length, seq_length.
  unfold token_events. rewrite map_flat_map. apply flat_mapM_ok. intros s Hs.
  unfold token_doc_events. rewrite map_flat_map. apply flat_mapM_ok. intros p Hp. apply in_seq in Hp.
  rewrite Forall_forall in Hdocs. specialize (Hdocs s Hs). rewrite Forall_forall in Hdocs.
  apply position_events_ok; [exact Hradii | lia | apply Hdocs; apply nth_In; lia].
Qed.

(* ---------- the keys ---------- *)

Lemma In_slice : forall A (x : A) a b (l : list A), In x (slice a b l) -> In x l.
Proof.
  intros A x a b l H. unfold slice in H.
  rewrite <- (firstn_skipn a l). apply in_or_app. right.
  rewrite <- (firstn_skipn (b - a) (skipn a l)). apply in_or_app. left. exact H.
Qed.

Lemma In_window : forall A (x : A) (s : list A) R p reverse, In x (window_at_index s R p reverse) -> In x s.
Proof.
  intros A x s R p reverse H. unfold window_at_index in H. destruct reverse.
  - apply in_rev in H. eapply In_slice; exact H.
  - eapply In_slice; exact H.
Qed.

Definition key_of (am : nat) (e : event K) : nat := e_col e + am * e_row e.

Theorem token_event_keys : forall (blocks : list (block K)) nw n docs,
  Forall (Forall (fun t => t <= n)) docs ->
  let am := length blocks * n + 1 in
  Forall (fun e : event K => e_blk e < length blocks /\ e_row e <= n /\ e_col e < am /\
                             key_of am e / am = e_row e /\ key_of am e mod am = e_col e)
         (token_events blocks nw n docs).
Proof.
  intros blocks nw n docs Hdocs am. rewrite Forall_forall. intros e He.
  unfold token_events in He. apply in_flat_map in He. destruct He as [s [Hs He]].
  unfold token_doc_events in He. apply in_flat_map in He. destruct He as [p [Hp He]]. apply in_seq in Hp.
  rewrite Forall_forall in Hdocs. specialize (Hdocs s Hs). rewrite Forall_forall in Hdocs.
  unfold occ_events in He. apply in_flat_map in He. destruct He as [[i [win ker]] [Hi He]].
  cbn [fst snd] in He. unfold slot_events in He. apply in_flat_map in He. destruct He as [[ctx k] [Hck He]].
  cbn [fst snd] in He.
  destruct (gtb0 (div k (occ_total nw (snd (token_occ blocks s p))))); [|contradiction].
  destruct He as [<-|[]].
  assert (Hil : i < length blocks).
  { apply in_combine_l in Hi. apply in_seq in Hi. unfold token_occ in Hi. cbn [snd] in Hi. rewrite map_length in Hi. lia. }
  assert (Hctx : ctx <= n).
  { apply in_combine_r in Hi. unfold token_occ in Hi. cbn [snd] in Hi. apply in_map_iff in Hi.
    destruct Hi as [b [Hb _]]. inversion Hb; subst. apply in_combine_l in Hck. apply In_window in Hck.
    apply Hdocs. exact Hck. }
  assert (Hrow : fst (token_occ blocks s p) <= n).
  { unfold token_occ. cbn [fst]. apply Hdocs. apply nth_In. lia. }
  unfold key_of, e_blk, e_row, e_col. cbn [fst snd].
  set (row := fst (token_occ blocks s p)) in *.
  assert (Hcol : ctx + i * n < am) by (unfold am; nia).
  repeat split; try assumption.
  - rewrite (Nat.mul_comm am row), Nat.div_add by (unfold am; lia). rewrite Nat.div_small by exact Hcol. lia.
  - rewrite (Nat.mul_comm am row), Nat.mod_add by (unfold am; lia). apply Nat.mod_small. exact Hcol.
Qed.

End Driver.
