(* K1, list level: the algebra behind the accumulator (sum by key, run-length compression, merge of sorted runs) and
   the document chunking.  Specification-level definitions (compress, merge_runs, chunk sums) live here; the
   array-level refinement is in K01_CooAcc_proofs.v. *)
From Coq Require Import ZArith List Bool Lia Sorting.Sorted Permutation.
From VZ Require Import Model.K01_CooAcc.
Import ListNotations.
Open Scope Z_scope.

(* ------------------------------------------------------------------ sum by key *)
Lemma sumby_app a b k : sumby (a ++ b) k = sumby a k + sumby b k.
Proof. induction a as [|e a IH]; simpl; [lia|rewrite IH; lia]. Qed.

Lemma sumby_perm a b k : Permutation a b -> sumby a k = sumby b k.
Proof. induction 1; simpl; lia. Qed.

Lemma sumby_rev a k : sumby (rev a) k = sumby a k.
Proof. apply sumby_perm, Permutation_sym, Permutation_rev. Qed.

Lemma cell_app a b r c : cell (a ++ b) r c = cell a r c + cell b r c.
Proof. induction a as [|e a IH]; simpl; [lia|rewrite IH; lia]. Qed.

Lemma cell_perm a b r c : Permutation a b -> cell a r c = cell b r c.
Proof. induction 1; simpl; lia. Qed.

Lemma sumby_concat (ls : list (list entry)) k :
  sumby (concat ls) k = fold_right Z.add 0 (map (fun l => sumby l k) ls).
Proof. induction ls as [|l ls IH]; simpl; [reflexivity|]. rewrite sumby_app, IH. reflexivity. Qed.

Definition keys (l : list entry) : list Z := map e_key l.
Definition ssorted (l : list entry) : Prop := StronglySorted Z.lt (keys l).
Definition wsorted (l : list entry) : Prop := StronglySorted Z.le (keys l).

Lemma ssorted_wsorted l : ssorted l -> wsorted l.
Proof.
  unfold ssorted, wsorted. induction 1; constructor; auto.
  eapply Forall_impl; [|eassumption]. simpl; intros; lia.
Qed.

(* ------------------------------------------------------------------ the stable sort of the model *)
Lemma insert_perm e l : Permutation (e :: l) (insert_by_key e l).
Proof.
  induction l as [|x t IH]; simpl; [apply Permutation_refl|].
  destruct (e_key e <=? e_key x); [apply Permutation_refl|].
  eapply perm_trans; [apply perm_swap|]. apply perm_skip, IH.
Qed.

Lemma sort_perm l : Permutation l (sort_by_key l).
Proof.
  induction l as [|e l IH]; simpl; [constructor|].
  eapply perm_trans; [apply perm_skip, IH|apply insert_perm].
Qed.

Lemma sort_length l : length (sort_by_key l) = length l.
Proof. symmetry; apply Permutation_length, sort_perm. Qed.

Lemma insert_wsorted e l : wsorted l -> wsorted (insert_by_key e l).
Proof.
  unfold wsorted. induction l as [|x t IH]; simpl; intros H.
  - constructor; constructor.
  - inversion H as [|? ? Ht Hall]; subst.
    destruct (e_key e <=? e_key x) eqn:E.
    + apply Z.leb_le in E. simpl. constructor; [exact H|].
      constructor; [exact E|]. eapply Forall_impl; [|exact Hall]. simpl; intros; lia.
    + apply Z.leb_gt in E. simpl. constructor; [apply IH, Ht|].
      assert (P : Permutation (e_key e :: keys t) (keys (insert_by_key e t))).
      { unfold keys. change (e_key e :: map e_key t) with (map e_key (e :: t)).
        apply Permutation_map, insert_perm. }
      eapply Permutation_Forall; [exact P|]. constructor; [lia|exact Hall].
Qed.

Lemma sort_wsorted l : wsorted (sort_by_key l).
Proof. induction l as [|e l IH]; simpl; [constructor|apply insert_wsorted, IH]. Qed.

(* ------------------------------------------------------------------ run-length compression (specification) *)
(* sums the values of adjacent entries with equal keys; the FIRST entry of a run gives row and col *)
Fixpoint compress (l : list entry) : list entry :=
  match l with
  | [] => []
  | e :: t => match compress t with
              | e' :: t' => if e_key e =? e_key e' then add_val e (e_val e') :: t' else e :: e' :: t'
              | [] => [e]
              end
  end.

Lemma e_key_add_val e v : e_key (add_val e v) = e_key e.
Proof. destruct e as [[[r c] v0] k]; reflexivity. Qed.
Lemma e_val_add_val e v : e_val (add_val e v) = e_val e + v.
Proof. destruct e as [[[r c] v0] k]; reflexivity. Qed.
Lemma e_row_add_val e v : e_row (add_val e v) = e_row e.
Proof. destruct e as [[[r c] v0] k]; reflexivity. Qed.
Lemma e_col_add_val e v : e_col (add_val e v) = e_col e.
Proof. destruct e as [[[r c] v0] k]; reflexivity. Qed.

Lemma compress_sumby l k : sumby (compress l) k = sumby l k.
Proof.
  induction l as [|e t IH]; simpl; [reflexivity|].
  destruct (compress t) as [|e' t'] eqn:E; simpl in *; [lia|].
  destruct (e_key e =? e_key e') eqn:Ek; simpl; rewrite <- IH.
  - apply Z.eqb_eq in Ek. rewrite e_key_add_val, e_val_add_val, <- Ek.
    destruct (e_key e =? k); lia.
  - lia.
Qed.

Lemma compress_keys_incl l : incl (keys (compress l)) (keys l).
Proof.
  induction l as [|e t IH]; simpl; [apply incl_refl|].
  destruct (compress t) as [|e' t'] eqn:E; simpl in *.
  - intros x [<-|[]]; left; reflexivity.
  - destruct (e_key e =? e_key e'); simpl; intros x Hx.
    + rewrite e_key_add_val in Hx.
      destruct Hx as [<-|Hx]; [left; reflexivity|right; apply IH; right; exact Hx].
    + destruct Hx as [<-|Hx]; [left; reflexivity|right; apply IH; exact Hx].
Qed.

Lemma compress_sorted l : wsorted l -> ssorted (compress l).
Proof.
  unfold wsorted, ssorted. induction l as [|e t IH]; simpl; intros H; [constructor|].
  inversion H as [|? ? Ht Hall]; subst. specialize (IH Ht).
  destruct (compress t) as [|e' t'] eqn:E; simpl in *.
  - constructor; constructor.
  - assert (Hle : forall x, In x (e_key e' :: keys t') -> e_key e <= x).
    { intros x Hx. rewrite Forall_forall in Hall. apply Hall.
      apply (compress_keys_incl t). rewrite E. exact Hx. }
    inversion IH as [|? ? IH' Hall']; subst. rewrite Forall_forall in Hall'.
    destruct (e_key e =? e_key e') eqn:Ek; simpl.
    + apply Z.eqb_eq in Ek. rewrite e_key_add_val. constructor; [exact IH'|].
      rewrite Forall_forall. intros x Hx. rewrite Ek. apply Hall', Hx.
    + apply Z.eqb_neq in Ek. constructor; [exact IH|]. rewrite Forall_forall. intros x Hx.
      destruct Hx as [<-|Hx]; [specialize (Hle (e_key e') (or_introl eq_refl)); lia|].
      specialize (Hall' x Hx). specialize (Hle (e_key e') (or_introl eq_refl)). lia.
Qed.

(* what one sort window becomes: compress (sort seg) *)
Lemma compress_sort_sumby seg k : sumby (compress (sort_by_key seg)) k = sumby seg k.
Proof. rewrite compress_sumby. symmetry. apply sumby_perm, sort_perm. Qed.

Lemma compress_sort_sorted seg : ssorted (compress (sort_by_key seg)).
Proof. apply compress_sorted, sort_wsorted. Qed.

(* ------------------------------------------------------------------ merge of two strictly sorted runs (specification) *)
Fixpoint merge_runs (fuel : nat) (a b : list entry) : list entry :=
  match fuel with
  | O => a ++ b
  | S f =>
    match a, b with
    | [], _ => b
    | _, [] => a
    | ea :: ta, eb :: tb =>
      if e_key ea <? e_key eb then ea :: merge_runs f ta b
      else if e_key eb <? e_key ea then eb :: merge_runs f a tb
      else add_val ea (e_val eb) :: merge_runs f ta tb
    end
  end.

Lemma merge_runs_sumby f a b k : sumby (merge_runs f a b) k = sumby a k + sumby b k.
Proof.
  revert a b; induction f as [|f IH]; intros a b; simpl; [apply sumby_app|].
  destruct a as [|ea ta]; [simpl; lia|]. destruct b as [|eb tb]; [simpl; lia|].
  destruct (e_key ea <? e_key eb) eqn:E1; [simpl; rewrite IH; simpl; lia|].
  destruct (e_key eb <? e_key ea) eqn:E2; [simpl; rewrite IH; simpl; lia|].
  assert (e_key ea = e_key eb) by (apply Z.ltb_ge in E1; apply Z.ltb_ge in E2; lia).
  simpl; rewrite IH, e_key_add_val, e_val_add_val, H. destruct (e_key eb =? k); lia.
Qed.

Lemma merge_runs_keys_in f a b x :
  In x (keys (merge_runs f a b)) -> In x (keys a) \/ In x (keys b).
Proof.
  revert a b; induction f as [|f IH]; intros a b; simpl.
  - unfold keys; rewrite map_app, in_app_iff; tauto.
  - destruct a as [|ea ta]; [tauto|]. destruct b as [|eb tb]; [tauto|].
    destruct (e_key ea <? e_key eb).
    { simpl. intros [<-|H]; [left; left; reflexivity|]. apply IH in H. simpl in *; tauto. }
    destruct (e_key eb <? e_key ea).
    { simpl. intros [<-|H]; [right; left; reflexivity|]. apply IH in H. simpl in *; tauto. }
    simpl. rewrite e_key_add_val. intros [<-|H]; [left; left; reflexivity|]. apply IH in H. simpl in *; tauto.
Qed.

Lemma merge_runs_sorted f a b :
  (length a + length b <= f)%nat -> ssorted a -> ssorted b -> ssorted (merge_runs f a b).
Proof.
  unfold ssorted. revert a b; induction f as [|f IH]; intros a b Hf Ha Hb.
  - destruct a; destruct b; simpl in *; try lia. constructor.
  - simpl. destruct a as [|ea ta]; [exact Hb|]. destruct b as [|eb tb]; [exact Ha|].
    inversion Ha as [|? ? Hta Fa]; subst. inversion Hb as [|? ? Htb Fb]; subst.
    rewrite Forall_forall in Fa, Fb. simpl in Hf.
    destruct (e_key ea <? e_key eb) eqn:E1.
    { apply Z.ltb_lt in E1. simpl. constructor; [apply IH; simpl; auto; lia|].
      rewrite Forall_forall. intros x Hx. apply merge_runs_keys_in in Hx. destruct Hx as [Hx|Hx].
      - apply Fa, Hx.
      - simpl in Hx. destruct Hx as [<-|Hx]; [lia|]. specialize (Fb x Hx). lia. }
    destruct (e_key eb <? e_key ea) eqn:E2.
    { apply Z.ltb_lt in E2. simpl. constructor; [apply IH; simpl; auto; lia|].
      rewrite Forall_forall. intros x Hx. apply merge_runs_keys_in in Hx. destruct Hx as [Hx|Hx].
      - simpl in Hx. destruct Hx as [<-|Hx]; [lia|]. specialize (Fa x Hx). lia.
      - apply Fb, Hx. }
    apply Z.ltb_ge in E1. apply Z.ltb_ge in E2.
    simpl. rewrite e_key_add_val. constructor; [apply IH; auto; lia|].
    rewrite Forall_forall. intros x Hx. apply merge_runs_keys_in in Hx. destruct Hx as [Hx|Hx].
    + apply Fa, Hx.
    + specialize (Fb x Hx). lia.
Qed.

(* ------------------------------------------------------------------ chunk boundaries *)
(* contiguous in-order cover of [lo, hi): each chunk starts where the previous one ended *)
Fixpoint chain (lo : Z) (cs : list (Z * Z)) (hi : Z) : Prop :=
  match cs with
  | [] => lo = hi
  | (a, b) :: t => a = lo /\ lo <= b /\ chain b t hi
  end.

Lemma chain_app lo cs mid cs' hi : chain lo cs mid -> chain mid cs' hi -> chain lo (cs ++ cs') hi.
Proof.
  revert lo; induction cs as [|[a b] t IH]; simpl; intros lo H1 H2; [subst; exact H2|].
  destruct H1 as (-> & Hle & Ht). repeat split; auto.
Qed.

Lemma chunk_loop_chain sizes : forall idx cum last_end last_cum cs cs_end le,
  last_end <= idx ->
  chunk_loop sizes idx cum last_end last_cum cs = (cs_end, le) ->
  chain last_end cs_end le /\ last_end <= le <= idx + zlen sizes.
Proof.
  induction sizes as [|s t IH]; simpl; intros idx cum last_end last_cum cs cs_end le Hle H.
  - inversion H; subst. simpl. unfold zlen; simpl. split; [reflexivity|lia].
  - unfold zlen in *; simpl length. rewrite Nat2Z.inj_succ.
    destruct (cum + s - last_cum >=? cs).
    + destruct (chunk_loop t (idx + 1) (cum + s) idx (cum + s) cs) as [cs' le'] eqn:E.
      inversion H; subst. apply IH in E; [|lia]. destruct E as [Hc Hb].
      simpl. repeat split; auto; lia.
    + apply IH in H; [|lia]. destruct H as [Hc Hb]. split; [exact Hc|lia].
Qed.

Lemma chunk_boundaries_chain sizes k : chain 0 (chunk_boundaries sizes k) (zlen sizes).
Proof.
  unfold chunk_boundaries.
  destruct (chunk_loop sizes 0 0 0 0 _) as [cs le] eqn:E.
  apply chunk_loop_chain in E; [|lia]. destruct E as [Hc Hb].
  eapply chain_app; [exact Hc|]. simpl. repeat split; lia.
Qed.

(* a chain over [lo, hi) cuts a list into consecutive slices whose concatenation is the slice [lo, hi) *)
Lemma firstn_add {A} (n m : nat) (l : list A) : firstn (n + m) l = firstn n l ++ firstn m (skipn n l).
Proof.
  revert l; induction n as [|n IH]; intros l; simpl; [reflexivity|].
  destruct l as [|x l]; simpl; [rewrite firstn_nil; reflexivity|]. rewrite IH. reflexivity.
Qed.

Lemma skipn_add {A} (n m : nat) (l : list A) : skipn (n + m) l = skipn m (skipn n l).
Proof.
  revert l; induction n as [|n IH]; intros l; simpl; [reflexivity|].
  destruct l as [|x l]; simpl; [rewrite skipn_nil; reflexivity|]. apply IH.
Qed.

Lemma slice_split {A} (l : list A) lo mid hi :
  0 <= lo <= mid -> mid <= hi -> slice l lo hi = slice l lo mid ++ slice l mid hi.
Proof.
  intros H1 H2. unfold slice.
  replace (Z.to_nat (hi - lo)) with (Z.to_nat (mid - lo) + Z.to_nat (hi - mid))%nat by lia.
  rewrite firstn_add. f_equal. f_equal.
  replace (Z.to_nat mid) with (Z.to_nat lo + Z.to_nat (mid - lo))%nat by lia.
  apply eq_sym, skipn_add.
Qed.

Lemma chain_concat {A} (docs : list A) cs : forall lo hi,
  0 <= lo -> chain lo cs hi ->
  concat (map (chunk_docs docs) cs) = slice docs lo hi /\ lo <= hi.
Proof.
  induction cs as [|[a b] t IH]; simpl; intros lo hi Hlo H.
  - subst. unfold slice. rewrite Z.sub_diag. simpl. split; [reflexivity|lia].
  - destruct H as (-> & Hle & Ht). apply IH in Ht; [|lia]. destruct Ht as [Ht Hbh].
    split; [|lia]. rewrite Ht. unfold chunk_docs; simpl. symmetry. apply slice_split; lia.
Qed.

Lemma slice_all {A} (l : list A) : slice l 0 (zlen l) = l.
Proof.
  unfold slice, zlen. simpl. rewrite Z.sub_0_r, Nat2Z.id. apply firstn_all.
Qed.

(* _generate_chunk_boundaries: for every thread count and every size list the chunks are a contiguous in-order
   partition of the documents *)
Lemma chunks_partition {A} (docs : list A) (sizes : list Z) k :
  length sizes = length docs ->
  concat (map (chunk_docs docs) (chunk_boundaries sizes k)) = docs.
Proof.
  intros Hlen. pose proof (chunk_boundaries_chain sizes k) as Hc.
  apply (chain_concat docs) in Hc; [|lia]. destruct Hc as [Hc _].
  rewrite Hc. unfold zlen. rewrite Hlen. apply slice_all.
Qed.

(* ------------------------------------------------------------------ additivity over documents and chunks *)
Section Chunks.
  Variable doc : Type.
  Variable events_of_doc : doc -> list entry.      (* any per-document event generator (the drivers' loops, C03) *)

  Definition events_of (docs : list doc) : list entry := concat (map events_of_doc docs).

  Lemma events_of_app d1 d2 : events_of (d1 ++ d2) = events_of d1 ++ events_of d2.
  Proof. unfold events_of. rewrite map_app, concat_app. reflexivity. Qed.

  Lemma events_of_concat (dss : list (list doc)) :
    events_of (concat dss) = concat (map events_of dss).
  Proof.
    induction dss as [|ds dss IH]; simpl; [reflexivity|]. rewrite events_of_app, IH. reflexivity.
  Qed.

  (* sum over chunks of the per-chunk matrices *)
  Definition chunked_matrix (docs : list doc) (sizes : list Z) (n_threads : Z) (k : Z) : Z :=
    fold_right Z.add 0
      (map (fun ch => sumby (events_of (chunk_docs docs ch)) k) (chunk_boundaries sizes n_threads)).

  Lemma chunked_matrix_total docs sizes n_threads k :
    length sizes = length docs ->
    chunked_matrix docs sizes n_threads k = sumby (events_of docs) k.
  Proof.
    intros Hlen. unfold chunked_matrix.
    pose proof (chunks_partition docs sizes n_threads Hlen) as P.
    transitivity (sumby (events_of (concat (map (chunk_docs docs) (chunk_boundaries sizes n_threads)))) k).
    - rewrite events_of_concat, sumby_concat, !map_map. reflexivity.
    - rewrite P. reflexivity.
  Qed.
End Chunks.
