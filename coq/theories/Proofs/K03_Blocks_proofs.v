(* C03: column blocks, declared block order, before = transpose(after). *)
From Coq Require Import List Arith Bool Lia Permutation.
From VZ Require Import Model.K02_Windows Model.K03_Cooc Model.K03_CoocSpec
     Proofs.K03_BigSum Proofs.K02_Windows_proofs Proofs.K03_Cooc_proofs Proofs.K03_Drivers_proofs.
Import ListNotations.

(* ---------- every event of accumulator i lies in columns [i*n, (i+1)*n) and in the row of its occurrence ---------- *)

Lemma slot_events_In : forall (K : carrier) n i row (tot : K) win ker e,
  Forall (fun t => t < n) win -> In e (slot_events n i row tot win ker) ->
  e_blk e = i /\ e_row e = row /\ i * n <= e_col e < (i + 1) * n /\ gtb0 (e_val e) = true.
Proof.
  intros K n i row tot win ker e Hwin Hin. unfold slot_events in Hin. apply in_flat_map in Hin.
  destruct Hin as [[ctx k] [Hck He]]. simpl in He.
  destruct (gtb0 (div k tot)) eqn:Hg; [|contradiction]. destruct He as [<-|[]].
  apply in_combine_l in Hck. rewrite Forall_forall in Hwin. specialize (Hwin _ Hck).
  unfold e_blk, e_row, e_col, e_val. simpl. repeat split; try assumption; lia.
Qed.

Lemma occ_events_In : forall (K : carrier) nw n (o : occurrence K) e, occ_ok n o -> In e (occ_events nw n o) ->
  e_blk e < length (snd o) /\ e_row e = fst o /\ e_blk e * n <= e_col e < (e_blk e + 1) * n /\ gtb0 (e_val e) = true.
Proof.
  intros K nw n [row wk] e Hok Hin. unfold occ_events in Hin. simpl fst in *. simpl snd in *.
  apply in_flat_map in Hin. destruct Hin as [[i wk1] [Hiwk He]]. simpl in He.
  pose proof (in_combine_l _ _ _ _ Hiwk) as Hi. apply in_seq in Hi.
  pose proof (in_combine_r _ _ _ _ Hiwk) as Hw. unfold occ_ok in Hok. simpl in Hok. rewrite Forall_forall in Hok.
  apply slot_events_In in He; [|apply Hok; assumption].
  destruct He as [Hb [Hr [Hc Hv]]]. rewrite Hb. repeat split; try assumption; lia.
Qed.

Theorem token_events_block_columns : forall (K : carrier) (blocks : list (block K)) nw n docs e,
  Forall (Forall (fun t => t < n)) docs -> In e (token_events blocks nw n docs) ->
  e_blk e < length blocks /\ e_blk e * n <= e_col e < (e_blk e + 1) * n /\ e_row e < n /\ gtb0 (e_val e) = true.
Proof.
  intros K blocks nw n docs e Hdocs Hin. unfold token_events in Hin. apply in_flat_map in Hin.
  destruct Hin as [d [Hd Hin]]. rewrite Forall_forall in Hdocs. specialize (Hdocs _ Hd).
  unfold token_doc_events in Hin. apply in_flat_map in Hin. destruct Hin as [p [Hp Hin]]. apply in_seq in Hp.
  rewrite token_occ_is_p_occ in Hin by lia.
  apply occ_events_In in Hin.
  - simpl in Hin. unfold token_pblocks in Hin. rewrite !map_length in Hin.
    destruct Hin as [H1 [H2 [H3 H4]]]. repeat split; try assumption; try lia.
    rewrite H2. apply nth_lt_of_Forall; [assumption | lia].
  - apply p_occ_ok; [intros; apply nth_lt_of_Forall; assumption | apply token_pblocks_anchor; lia].
Qed.

(* ---------- declared order of the blocks: orientation expansion vs _set_column_dicts ---------- *)

(* (is_pre, window index) of each block, in block order: directional = [before, after] *)
Fixpoint block_tags_from (os : list orientation) (i : nat) : list (bool * nat) :=
  match os with
  | [] => []
  | Directional :: rest => (true, i) :: (false, i) :: block_tags_from rest (S i)
  | Before :: rest => (true, i) :: block_tags_from rest (S i)
  | After :: rest => (false, i) :: block_tags_from rest (S i)
  end.
Definition block_tags (os : list orientation) := block_tags_from os 0.

Lemma reversals_tags : forall os i, map fst (block_tags_from os i) = reversals os.
Proof.
  induction os as [|o os IH]; intros i; [reflexivity|].
  destruct o; simpl; rewrite IH; reflexivity.
Qed.

Lemma column_dict_from_tags : forall n tokens os i col,
  column_dict_from n tokens os i col =
  flat_map (fun kt => map (fun t => (fst (snd kt), snd (snd kt), t, t + fst kt * n)) tokens)
           (combine (seq col (length (block_tags_from os i))) (block_tags_from os i)).
Proof.
  induction os as [|o os IH]; intros i col; [reflexivity|].
  destruct o; simpl.
  - rewrite IH. replace (col + 1) with (S col) by lia. reflexivity.
  - rewrite IH. replace (col + 1) with (S col) by lia. reflexivity.
  - rewrite IH. replace (col + 1) with (S col) by lia. replace (col + 2) with (S (S col)) by lia.
    reflexivity.
Qed.

Lemma combine_seq_nth_error : forall A (l : list A) a k x, nth_error l k = Some x ->
  In (a + k, x) (combine (seq a (length l)) l).
Proof.
  induction l; intros b k x H; [destruct k; discriminate|].
  destruct k; simpl in H.
  - inversion H; subst. left. rewrite Nat.add_0_r. reflexivity.
  - right. replace (b + S k) with (S b + k) by lia. apply IHl. assumption.
Qed.

Lemma combine_seq_In : forall A (l : list A) a j x, In (j, x) (combine (seq a (length l)) l) ->
  a <= j /\ nth_error l (j - a) = Some x.
Proof.
  induction l; intros b j x H; [contradiction|]. simpl in H. destruct H as [H|H].
  - inversion H; subst. rewrite Nat.sub_diag. split; [lia | reflexivity].
  - apply IHl in H. destruct H as [H1 H2]. split; [lia|]. replace (j - b) with (S (j - S b)) by lia. assumption.
Qed.

(* the k-th block (k-th entry of _window_reversals) owns the labels pre_/post_ w _ t at columns t + k*n *)
Theorem column_dict_blocks : forall n os k pre w,
  nth_error (block_tags os) k = Some (pre, w) ->
  nth_error (reversals os) k = Some pre /\
  forall t, t < n -> In (pre, w, t, t + k * n) (column_dict n os).
Proof.
  intros n os k pre w H. split.
  - unfold block_tags in H. rewrite <- (reversals_tags os 0). rewrite nth_error_map, H. reflexivity.
  - intros t Ht. unfold column_dict. rewrite column_dict_from_tags. apply in_flat_map.
    exists (k, (pre, w)). split.
    + apply (combine_seq_nth_error _ _ 0 k). assumption.
    + apply in_map_iff. exists t. split; [reflexivity | apply in_seq; lia].
Qed.

Theorem column_dict_complete : forall n os pre w t col, In (pre, w, t, col) (column_dict n os) ->
  exists k, nth_error (block_tags os) k = Some (pre, w) /\ t < n /\ col = t + k * n.
Proof.
  intros n os pre w t col H. unfold column_dict in H. rewrite column_dict_from_tags in H.
  apply in_flat_map in H. destruct H as [[k [pre' w']] [Hk Hin]]. simpl in Hin.
  apply in_map_iff in Hin. destruct Hin as [t' [Heq Ht']]. inversion Heq; subst. apply in_seq in Ht'.
  apply combine_seq_In in Hk. destruct Hk as [_ Hk]. rewrite Nat.sub_0_r in Hk.
  exists k. repeat split; try assumption; lia.
Qed.

(* ---------- with fixed radii, no window normalisation and distance-only kernels, before = transpose(after) ---------- *)

Section Transpose.
Context {K : carrier} (HK : carrier_laws K).

Lemma in_win_flip : forall R p q, in_win true R p q = in_win false R q p.
Proof. intros. unfold in_win. apply andb_comm. Qed.

Lemma dist_sym : forall p q, dist p q = dist q p.
Proof.
  intros. unfold dist. destruct (Nat.leb_spec p q); destruct (Nat.leb_spec q p); try reflexivity; lia.
Qed.

Lemma token_pblocks_nth : forall (blocks : list (block K)) r p i b, nth_error blocks i = Some b ->
  nth_error (token_pblocks blocks r p) i =
  Some {| pb_rev := b_rev b; pb_R := nth r (b_radii b) 0; pb_anchor := p; pb_bw := fun q => b_kf b (dist p q);
          pb_mask := b_mask b; pb_norm := b_norm b; pb_off := b_off b; pb_mix := b_mix b |}.
Proof. intros. unfold token_pblocks. rewrite nth_error_map, H. reflexivity. Qed.

Theorem token_before_transpose : forall (blocks : list (block K)) docs n R i j bi bj r c,
  nth_error blocks i = Some bi -> nth_error blocks j = Some bj ->
  b_rev bi = true -> b_rev bj = false ->
  b_kf bi = b_kf bj -> b_off bi = b_off bj -> b_mix bi = b_mix bj ->
  b_mask bi = None -> b_mask bj = None -> b_norm bi = false -> b_norm bj = false ->
  (forall x, x < n -> nth x (b_radii bi) 0 = R) -> (forall x, x < n -> nth x (b_radii bj) 0 = R) ->
  r < n -> c < n ->
  token_spec blocks false docs r c i = token_spec blocks false docs c r j.
Proof.
  intros blocks docs n R i j bi bj r c Hi Hj Hri Hrj Hkf Hoff Hmix Hmi Hmj Hni Hnj HRi HRj Hr Hc.
  unfold token_spec. apply bigsum_ext. intros d Hd.
  set (X := fun p q => posv (div (mul (b_mix bi) (if dist p q <=? b_off bi then zero else b_kf bi (dist p q))) one)).
  transitivity (isum (length d) (fun p => isum (length d) (fun q =>
       if Nat.eqb (nth p d 0) r && (in_win true R p q && Nat.eqb (nth q d 0) c) then X p q else zero))).
  - apply isum_ext. intros p Hp. destruct (Nat.eqb (nth p d 0) r); simpl andb.
    + unfold p_cell. rewrite (token_pblocks_nth _ _ _ _ _ Hi). apply isum_ext. intros q Hq.
      unfold p_in, p_weight, p_norm, p_raw, p_total. cbn [pb_rev pb_R pb_anchor pb_bw pb_mask pb_norm pb_off pb_mix].
      rewrite Hri, Hni, Hmi, (HRi r Hr). cbn [is_mask]. rewrite orb_false_r. reflexivity.
    + symmetry. apply (bigsum_const_zero HK).
  - rewrite (isum_swap HK). apply isum_ext. intros q Hq.
    destruct (Nat.eqb (nth q d 0) c) eqn:Hqc.
    + unfold p_cell. rewrite (token_pblocks_nth _ _ _ _ _ Hj). apply isum_ext. intros p Hp.
      rewrite in_win_flip. unfold X. rewrite (dist_sym p q). rewrite Hkf, Hoff, Hmix.
      unfold p_in, p_weight, p_norm, p_raw, p_total. cbn [pb_rev pb_R pb_anchor pb_bw pb_mask pb_norm pb_off pb_mix].
      rewrite Hrj, Hnj, Hmj, (HRj c Hc). cbn [is_mask]. rewrite orb_false_r.
      destruct (Nat.eqb (nth p d 0) r), (in_win false R q p); reflexivity.
    + apply (bigsum_zero HK). intros p Hp. rewrite andb_false_r, andb_false_r. reflexivity.
Qed.

End Transpose.
