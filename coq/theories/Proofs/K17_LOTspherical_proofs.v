(* Proofs about Model/K17_LOTspherical.v instantiated over the real numbers (Coq's R, sqrt from R_sqrt): the
   spherical post-processing is a function of the barycentric image and the reference only; the per-row pipeline is
   invariant under rescaling the weights (truncation included); the spherical block is invariant under positive
   rescaling of its image row; the bridge from the exact-rational plan-transfer theorems of K17_LOTglue_proofs.v;
   the batched Sinkhorn rows.  The float32 store `round32` is an ARBITRARY function R -> R in every statement. *)
From Coq Require Import Reals Lra QArith Qreals List Bool Arith Lia Permutation.
From VZ Require Import Model.K16_OTcert Model.K17_LOTglue Model.K17_LOTspherical Model.K19_RowWise
                       Proofs.K16_OTcert_proofs Proofs.K17_LOTglue_proofs Proofs.K19_RowWise_proofs.
Import ListNotations.
Open Scope R_scope.

(* ---- the instance over R ---- *)
Definition Rltb (a b : R) : bool := if Rlt_dec a b then true else false.
Definition Reqb (a b : R) : bool := if Req_EM_T a b then true else false.

Definition normalise_R := normalise R 0 Rplus Rdiv Rltb.
Definition truncate_R {A : Type} := @truncate R Rltb A.
Definition images_R := images R 0 1 Rplus Rmult Rdiv.
Definition lot_row_R := lot_row R 0 1 Rplus Rmult Rminus Rdiv.
Definition lot_pipeline_R := lot_pipeline R 0 1 Rplus Rmult Rminus Rdiv Rltb.
Definition gsumsq_R := gsumsq R 0 Rplus Rmult.
Definition l2n_R := l2n R 0 Rplus Rmult Rdiv Rltb sqrt.
Definition cosine_R := cosine R 0 1 Rplus Rmult Rminus Rdiv Reqb sqrt.
Definition project_tangent_R := project_tangent R 0 Rplus Rmult Rminus Rdiv sqrt.
Definition sph_block_R (rnd : R -> R) := sph_block R 0 1 Rplus Rmult Rminus Rdiv Rltb Reqb sqrt rnd.
Definition sph_post_R (rnd : R -> R) := sph_post R 0 1 Rplus Rmult Rminus Rdiv Rltb Reqb sqrt rnd.
Definition ssqrt_R := ssqrt R 0 1 Rmult Rminus Rltb sqrt Rabs.
Definition lot_row_sph_R (rnd : R -> R) := lot_row_sph R 0 1 Rplus Rmult Rminus Rdiv Rltb Reqb sqrt rnd.
Definition lot_pipeline_sph_R (rnd : R -> R) := lot_pipeline_sph R 0 1 Rplus Rmult Rminus Rdiv Rltb Reqb sqrt Rabs rnd.
Definition sink_images_R := sink_images R 0 Rplus Rmult Reqb.
Definition sinkhorn_row_R (rnd : R -> R) := sinkhorn_row R 0 1 Rplus Rmult Rminus Rdiv Rltb Reqb sqrt rnd.

Lemma Rltb_spec : forall a b, Rltb a b = true <-> a < b.
Proof. intros a b. unfold Rltb. destruct (Rlt_dec a b); split; intros; try assumption; try reflexivity; try discriminate; contradiction. Qed.

Lemma Rltb_scale : forall c a b, 0 < c -> Rltb (c * a) (c * b) = Rltb a b.
Proof.
  intros c a b Hc. destruct (Rltb a b) eqn:E.
  - apply Rltb_spec. apply Rltb_spec in E. apply Rmult_lt_compat_l; assumption.
  - destruct (Rltb (c * a) (c * b)) eqn:E2; [|reflexivity].
    apply Rltb_spec in E2. apply Rmult_lt_reg_l in E2; [|assumption]. apply Rltb_spec in E2. congruence.
Qed.

(* ================================================================ scale invariance of the per-row pipeline *)
Section TruncScale.
  Variable A : Type.
  Variable c : R.
  Hypothesis c_pos : 0 < c.
  Definition sc (p : R * A) : R * A := (c * fst p, snd p).

  Lemma insert_desc_sc : forall a l, insert_desc R Rltb (sc a) (map sc l) = map sc (insert_desc R Rltb a l).
  Proof.
    intros a l. induction l as [|b t IH]; [reflexivity|].
    simpl. rewrite !Rltb_scale by assumption.
    destruct (Rltb (fst a) (fst b)); [simpl; rewrite IH; reflexivity|].
    destruct (Rltb (fst b) (fst a)); [reflexivity|]. simpl. rewrite IH. reflexivity.
  Qed.

  Lemma sort_desc_sc : forall l, sort_desc R Rltb (map sc l) = map sc (sort_desc R Rltb l).
  Proof.
    intros l. unfold sort_desc. change (@nil (R * A)) with (map sc []) at 1. generalize (@nil (R * A)) as acc.
    induction l as [|a t IH]; intros acc; [reflexivity|]. simpl. rewrite insert_desc_sc. apply IH.
  Qed.

  Lemma truncate_sc : forall k l, truncate_R k (map sc l) = map sc (truncate_R k l).
  Proof.
    intros k l. unfold truncate_R, truncate. rewrite map_length. destruct (Nat.ltb k (length l)); [|reflexivity].
    rewrite sort_desc_sc. apply firstn_map.
  Qed.
End TruncScale.

Lemma combine_map_l : forall (A : Type) (f : R -> R) (w : list R) (xs : list A),
  combine (map f w) xs = map (fun p => (f (fst p), snd p)) (combine w xs).
Proof. intros A f w. induction w as [|a w IH]; intros [|x xs]; simpl; try reflexivity. rewrite IH. reflexivity. Qed.

Lemma gsum_acc_scale : forall c l acc, gsum_acc R Rplus (c * acc) (map (Rmult c) l) = c * gsum_acc R Rplus acc l.
Proof. intros c l. induction l as [|x t IH]; intros acc; [reflexivity|]. simpl. rewrite <- Rmult_plus_distr_l. apply IH. Qed.

Lemma gsum_scale : forall c l, gsum R 0 Rplus (map (Rmult c) l) = c * gsum R 0 Rplus l.
Proof. intros c l. unfold gsum. rewrite <- gsum_acc_scale. rewrite Rmult_0_r. reflexivity. Qed.

Lemma normalise_R_scale : forall c w, 0 < c -> normalise_R (map (Rmult c) w) = normalise_R w.
Proof.
  intros c w Hc. unfold normalise_R, normalise. rewrite gsum_scale.
  set (s := gsum R 0 Rplus w).
  replace (Rltb 0 (c * s)) with (Rltb 0 s) by (rewrite <- (Rltb_scale c 0 s Hc), Rmult_0_r; reflexivity).
  destruct (Rltb 0 s) eqn:E; [|reflexivity]. apply Rltb_spec in E. f_equal. rewrite map_map. apply map_ext.
  intros x. field. split; lra.
Qed.

Lemma kept_scale : forall (A : Type) c k (w : list R) (xs : list A), 0 < c ->
  map snd (truncate_R k (combine (map (Rmult c) w) xs)) = map snd (truncate_R k (combine w xs)) /\
  normalise_R (map fst (truncate_R k (combine (map (Rmult c) w) xs))) = normalise_R (map fst (truncate_R k (combine w xs))).
Proof.
  intros A c k w xs Hc. rewrite combine_map_l. fold (sc A c). rewrite truncate_sc by assumption. split.
  - rewrite map_map. reflexivity.
  - rewrite map_map. simpl. rewrite <- (map_map fst (Rmult c)). apply normalise_R_scale. assumption.
Qed.

Theorem lot_pipeline_R_scale : forall c maxsize m d w xs q ys plan_of, 0 < c ->
  lot_pipeline_R maxsize m d (map (Rmult c) w) xs q ys plan_of = lot_pipeline_R maxsize m d w xs q ys plan_of.
Proof.
  intros c maxsize m d w xs q ys plan_of Hc. unfold lot_pipeline_R, lot_pipeline.
  destruct (kept_scale (list R) c maxsize w xs Hc) as [H1 H2]. unfold truncate_R, normalise_R in *.
  rewrite H1, H2. reflexivity.
Qed.

Theorem sph_pipeline_scale : forall rnd c maxsize m d w xs q ys plan_of, 0 < c ->
  lot_pipeline_sph_R rnd maxsize m d (map (Rmult c) w) xs q ys plan_of = lot_pipeline_sph_R rnd maxsize m d w xs q ys plan_of.
Proof.
  intros rnd c maxsize m d w xs q ys plan_of Hc. unfold lot_pipeline_sph_R, lot_pipeline_sph.
  destruct (kept_scale (list R) c maxsize w xs Hc) as [H1 H2]. unfold truncate_R, normalise_R in *.
  rewrite H1, H2. reflexivity.
Qed.

(* the row the kernel hands to the solver sums to one *)
Lemma gsum_acc_R : forall l acc, gsum_acc R Rplus acc l = acc + fold_right Rplus 0 l.
Proof. induction l as [|x t IH]; intros acc; simpl; [lra|]. rewrite IH. lra. Qed.

Lemma fold_right_div : forall s l, fold_right Rplus 0 (map (fun x => x / s) l) = fold_right Rplus 0 l / s.
Proof. intros s l. induction l as [|x t IH]; simpl; [unfold Rdiv; lra|]. rewrite IH. unfold Rdiv. lra. Qed.

Theorem normalise_R_sums_to_one : forall w p, normalise_R w = Some p -> gsum R 0 Rplus p = 1.
Proof.
  intros w p. unfold normalise_R, normalise. destruct (Rltb 0 (gsum R 0 Rplus w)) eqn:E; [|discriminate].
  intros H. injection H as <-. apply Rltb_spec in E. unfold gsum in *. rewrite !gsum_acc_R in *.
  rewrite fold_right_div. field. lra.
Qed.

(* ================================================================ the spherical block: a function of its image row *)
Lemma gsumsq_acc_nonneg : forall l acc, 0 <= acc -> 0 <= gsumsq_acc R Rplus Rmult acc l.
Proof.
  induction l as [|x t IH]; intros acc H; simpl; [assumption|]. apply IH. pose proof (Rle_0_sqr x) as S. unfold Rsqr in S. lra.
Qed.

Lemma gsumsq_nonneg : forall l, 0 <= gsumsq_R l.
Proof. intros l. apply gsumsq_acc_nonneg. lra. Qed.

Lemma gsumsq_acc_zero : forall l acc, 0 <= acc -> gsumsq_acc R Rplus Rmult acc l = 0 -> acc = 0 /\ Forall (fun x => x = 0) l.
Proof.
  induction l as [|x t IH]; intros acc H E; simpl in E; [split; [assumption|constructor]|].
  pose proof (Rle_0_sqr x) as S. unfold Rsqr in S.
  destruct (IH (acc + x * x) ltac:(lra) E) as [E1 F].
  assert (acc = 0) by lra. assert (x * x = 0) by lra. split; [assumption|]. constructor; [|assumption].
  destruct (Rmult_integral _ _ H1); assumption.
Qed.

Lemma gsumsq_acc_scale : forall t l acc,
  gsumsq_acc R Rplus Rmult (t * t * acc) (map (Rmult t) l) = t * t * gsumsq_acc R Rplus Rmult acc l.
Proof.
  intros t l. induction l as [|x r IH]; intros acc; [reflexivity|]. simpl.
  replace (t * t * acc + t * x * (t * x)) with (t * t * (acc + x * x)) by ring. apply IH.
Qed.

Lemma gsumsq_scale : forall t l, gsumsq_R (map (Rmult t) l) = t * t * gsumsq_R l.
Proof. intros t l. unfold gsumsq_R, gsumsq. rewrite <- gsumsq_acc_scale. rewrite Rmult_0_r. reflexivity. Qed.

(* l2_normalize forgets a positive factor *)
Lemma l2n_scale : forall t a, 0 < t -> l2n_R (map (Rmult t) a) = l2n_R a.
Proof.
  intros t a Ht. unfold l2n_R, l2n. fold gsumsq_R. rewrite gsumsq_scale.
  pose proof (gsumsq_nonneg a) as N.
  assert (E : sqrt (t * t * gsumsq_R a) = t * sqrt (gsumsq_R a)).
  { rewrite sqrt_mult_alt by nra. rewrite sqrt_square by lra. reflexivity. }
  rewrite E. replace (Rltb 0 (t * sqrt (gsumsq_R a))) with (Rltb 0 (sqrt (gsumsq_R a)))
    by (rewrite <- (Rltb_scale t 0 _ Ht), Rmult_0_r; reflexivity).
  destruct (Rltb 0 (sqrt (gsumsq_R a))) eqn:P.
  - apply Rltb_spec in P. rewrite map_map. apply map_ext. intros x. field. split; lra.
  - assert (Z : sqrt (gsumsq_R a) = 0).
    { pose proof (sqrt_pos (gsumsq_R a)). destruct (Rlt_dec 0 (sqrt (gsumsq_R a))) as [L|L]; [|lra].
      apply Rltb_spec in L. congruence. }
    apply sqrt_eq_0 in Z; [|assumption].
    destruct (gsumsq_acc_zero a 0 ltac:(lra) Z) as [_ F].
    clear -F. induction F as [|x l Hx F IH]; [reflexivity|]. simpl. rewrite IH, Hx. f_equal. ring.
Qed.

Theorem sph_block_pos_homogeneous : forall rnd t a y, 0 < t -> sph_block_R rnd (map (Rmult t) a) y = sph_block_R rnd a y.
Proof.
  intros rnd t a y Ht. unfold sph_block_R, sph_block. pose proof (l2n_scale t a Ht) as E. unfold l2n_R in E.
  rewrite E. reflexivity.
Qed.

(* block j of the output is sph_block of row j of the image and reference point j: nothing else enters *)
Lemma skipn_add : forall (A : Type) a b (l : list A), skipn a (skipn b l) = skipn (b + a) l.
Proof.
  intros A a b. induction b as [|b IH]; intros l; [reflexivity|]. destruct l as [|x l]; simpl; [destruct a; reflexivity|]. apply IH.
Qed.

Lemma chunk_nth : forall m d (l : list R) j, (j < m)%nat -> nth j (chunk R m d l) [] = firstn d (skipn (j * d) l).
Proof.
  induction m as [|m IH]; intros d l j Hj; [lia|]. destruct j as [|j]; simpl; [reflexivity|].
  rewrite IH by lia. rewrite skipn_add. reflexivity.
Qed.

Lemma chunk_length : forall m d (l : list R), length (chunk R m d l) = m.
Proof. induction m as [|m IH]; intros d l; simpl; [reflexivity|]. rewrite IH. reflexivity. Qed.

Lemma map2_nth : forall (A B C : Type) (f : A -> B -> C) a b j da db dc, (j < length a)%nat -> (j < length b)%nat ->
  nth j (map2 f a b) dc = f (nth j a da) (nth j b db).
Proof.
  intros A B C f a. induction a as [|x a IH]; intros b j da db dc Ha Hb; simpl in *; [lia|].
  destruct b as [|y b]; simpl in *; [lia|]. destruct j as [|j]; [reflexivity|]. apply IH; lia.
Qed.

Theorem sph_post_blockwise : forall rnd m d img ys j, (j < m)%nat -> (j < length ys)%nat ->
  nth j (map2 (sph_block_R rnd) (chunk R m d img) ys) [] = sph_block_R rnd (firstn d (skipn (j * d) img)) (nth j ys []).
Proof.
  intros rnd m d img ys j Hm Hy. rewrite (map2_nth _ _ _ _ _ _ j [] [] []); [|rewrite chunk_length; assumption|assumption].
  rewrite chunk_nth by assumption. reflexivity.
Qed.

Lemma sph_post_unfold : forall rnd m d img ys, sph_post_R rnd m d img ys = concat (map2 (sph_block_R rnd) (chunk R m d img) ys).
Proof. reflexivity. Qed.

(* exact-rational images that agree as rationals give the same spherical row *)
Lemma Forall2_Qeq_Q2R : forall a b, Forall2 Qeq a b -> map Q2R a = map Q2R b.
Proof. intros a b H. induction H as [|x y a b Hxy _ IH]; [reflexivity|]. simpl. rewrite IH. f_equal. apply Qeq_eqR. assumption. Qed.

Theorem sph_post_depends_on_image : forall rnd m d (img img' : list Q) ys, Forall2 Qeq img img' ->
  sph_post_R rnd m d (map Q2R img) ys = sph_post_R rnd m d (map Q2R img') ys.
Proof. intros rnd m d img img' ys H. rewrite (Forall2_Qeq_Q2R _ _ H). reflexivity. Qed.

(* ================================================================ Q -> R: the model's image loop commutes with Q2R *)
Lemma Q2R_0' : Q2R 0 = 0.
Proof. unfold Q2R. simpl. lra. Qed.
Lemma Q2R_1' : Q2R 1 = 1.
Proof. unfold Q2R. simpl. lra. Qed.

Lemma map_map2 : forall (A B C D : Type) (g : C -> D) (f : A -> B -> C) a b, map g (map2 f a b) = map2 (fun x y => g (f x y)) a b.
Proof. intros A B C D g f a. induction a as [|x a IH]; intros [|y b]; simpl; try reflexivity. rewrite IH. reflexivity. Qed.

Lemma map2_map : forall (A A' B B' C : Type) (f : A' -> B' -> C) (ga : A -> A') (gb : B -> B') a b,
  map2 f (map ga a) (map gb b) = map2 (fun x y => f (ga x) (gb y)) a b.
Proof. intros A A' B B' C f ga gb a. induction a as [|x a IH]; intros [|y b]; simpl; try reflexivity. rewrite IH. reflexivity. Qed.

Lemma gvadd_Q2R : forall a b, map Q2R (gvadd Q Qplus a b) = gvadd R Rplus (map Q2R a) (map Q2R b).
Proof. induction a as [|x a IH]; intros [|y b]; simpl; try reflexivity. rewrite IH, Q2R_plus. reflexivity. Qed.

Lemma gvsub_Q2R : forall a b, map Q2R (gvsub Q Qminus a b) = gvsub R Rminus (map Q2R a) (map Q2R b).
Proof. induction a as [|x a IH]; intros [|y b]; simpl; try reflexivity. rewrite IH, Q2R_minus. reflexivity. Qed.

Lemma contrib_Q2R : forall iq x r,
  map Q2R (contrib Q Qmult iq x r) = contrib R Rmult (map Q2R iq) (map Q2R x) (map Q2R r).
Proof.
  intros iq x r. unfold contrib. revert iq. induction r as [|rj r IH]; intros [|i iq]; simpl; try reflexivity.
  rewrite map_app, IH. f_equal. rewrite !map_map. apply map_ext. intros xk. rewrite !Q2R_mult. reflexivity.
Qed.

Lemma images_acc_Q2R : forall iq atoms acc,
  map Q2R (images_acc Q Qplus Qmult acc iq atoms)
  = images_acc R Rplus Rmult (map Q2R acc) (map Q2R iq) (map (fun a => (map Q2R (fst a), map Q2R (snd a))) atoms).
Proof.
  intros iq atoms. induction atoms as [|[x r] t IH]; intros acc; [reflexivity|]. simpl.
  rewrite IH, gvadd_Q2R, contrib_Q2R. reflexivity.
Qed.

Lemma map_repeat : forall (A B : Type) (f : A -> B) x n, map f (repeat x n) = repeat (f x) n.
Proof. intros A B f x n. induction n; simpl; [reflexivity|]. rewrite IHn. reflexivity. Qed.

Theorem images_Q2R : forall m d q atoms, Forall (fun qj => ~ (qj == 0)%Q) q ->
  map Q2R (images_Q m d q atoms)
  = images_R m d (map Q2R q) (map (fun a => (map Q2R (fst a), map Q2R (snd a))) atoms).
Proof.
  intros m d q atoms Hq. unfold images_Q, images_R, images. rewrite images_acc_Q2R.
  rewrite map_repeat, Q2R_0'. f_equal. rewrite !map_map.
  induction Hq as [|qj q Hj _ IH]; [reflexivity|]. simpl. rewrite IH. f_equal.
  unfold Qdiv. rewrite Q2R_mult, Q2R_inv by assumption. rewrite Q2R_1'. reflexivity.
Qed.

(* ================================================================ the bridge from the plan-transfer theorems *)
Definition atoms_R (m d : nat) (q : list Q) (pe : list (atom)) : list (list R * list R) :=
  map (fun a => (map Q2R (a_x a), map Q2R (a_r a))) pe.

Theorem sph_row_of_pimage : forall rnd m d q ys, length q = m -> Forall (fun qj => ~ (qj == 0)%Q) q ->
  forall pe, Forall (atom_ok m d) pe ->
  lot_row_sph_R rnd m d (map Q2R q) ys (atoms_R m d q pe) = sph_post_R rnd m d (map Q2R (pimage m d q pe)) ys.
Proof.
  intros rnd m d q ys Hm Hq pe Hok. unfold lot_row_sph_R, lot_row_sph. fold images_R. unfold atoms_R.
  pose proof (images_Q2R m d q (map (fun a => (a_x a, a_r a)) pe) Hq) as E. rewrite map_map in E. simpl in E.
  rewrite <- E. apply sph_post_depends_on_image. apply images_model; assumption.
Qed.

Theorem sph_row_equal_images : forall rnd m d q ys, length q = m -> Forall (fun qj => ~ (qj == 0)%Q) q ->
  forall pe pe', Forall (atom_ok m d) pe -> Forall (atom_ok m d) pe' -> Forall2 Qeq (pimage m d q pe') (pimage m d q pe) ->
  lot_row_sph_R rnd m d (map Q2R q) ys (atoms_R m d q pe') = lot_row_sph_R rnd m d (map Q2R q) ys (atoms_R m d q pe).
Proof.
  intros rnd m d q ys Hm Hq pe pe' Hok Hok' H. rewrite !sph_row_of_pimage by assumption.
  apply sph_post_depends_on_image. assumption.
Qed.

(* whatever optimal plans the solver returns for two encodings of one measure (each reachable from the other by
   plan transfers), if the optimal image of one of them is unique then the spherical LOT rows coincide, signed
   square root included *)
Theorem sph_unique_image_transfer : forall rnd m d q ys dist, length q = m -> Forall (fun qj => ~ (qj == 0)%Q) q ->
  forall E E' pe pe',
  transfers m d q ys dist E' E ->
  (forall p1 p2, poptimal m d q ys dist E p1 -> poptimal m d q ys dist E p2 -> Forall2 Qeq (pimage m d q p1) (pimage m d q p2)) ->
  transfers m d q ys dist E E' -> poptimal m d q ys dist E pe -> poptimal m d q ys dist E' pe' ->
  forall ysR,
  map ssqrt_R (lot_row_sph_R rnd m d (map Q2R q) ysR (atoms_R m d q pe'))
  = map ssqrt_R (lot_row_sph_R rnd m d (map Q2R q) ysR (atoms_R m d q pe)).
Proof.
  intros rnd m d q ys dist Hm Hq E E' pe pe' T' U T O O' ysR. f_equal.
  apply sph_row_equal_images; try assumption.
  - destruct O as (_ & (F & _) & _). exact F.
  - destruct O' as (_ & (F & _) & _). exact F.
  - apply (unique_image_transfer m d q ys dist E E' pe pe'); assumption.
Qed.

(* ================================================================ positive factors on the image *)
(* ---- a positive factor on the whole image (e.g. on the column's u) does not reach the row ---- *)
Lemma gvadd_scale : forall t a b, gvadd R Rplus (map (Rmult t) a) (map (Rmult t) b) = map (Rmult t) (gvadd R Rplus a b).
Proof. intros t. induction a as [|x a IH]; intros [|y b]; simpl; try reflexivity. rewrite IH. f_equal. ring. Qed.

Lemma sink_image_row_scale : forall t ui Ki v vectors acc,
  sink_image_row R 0 Rplus Rmult Reqb (t * ui) Ki v vectors (map (Rmult t) acc)
  = map (Rmult t) (sink_image_row R 0 Rplus Rmult Reqb ui Ki v vectors acc).
Proof.
  intros t ui. induction Ki as [|kij Ki IH]; intros v vectors acc; [reflexivity|].
  destruct v as [|vj v]; [reflexivity|]. destruct vectors as [|x vectors]; [reflexivity|]. simpl.
  destruct (Reqb vj 0); [apply IH|].
  replace (map (fun xl => t * ui * kij * vj * xl) x) with (map (Rmult t) (map (fun xl => ui * kij * vj * xl) x))
    by (rewrite map_map; apply map_ext; intros; ring).
  rewrite gvadd_scale. apply IH.
Qed.

Lemma sink_images_scale : forall t d u K v vectors,
  sink_images_R d (map (Rmult t) u) K v vectors = map (Rmult t) (sink_images_R d u K v vectors).
Proof.
  intros t d u K v vectors. unfold sink_images_R, sink_images. revert K.
  induction u as [|ui u IH]; intros [|Ki K]; simpl; try reflexivity.
  rewrite map_app, <- IH. f_equal.
  replace (repeat 0 d) with (map (Rmult t) (repeat 0 d)) at 1 by (rewrite map_repeat; f_equal; ring).
  apply sink_image_row_scale.
Qed.

Lemma chunk_map : forall (f : R -> R) m d l, chunk R m d (map f l) = map (map f) (chunk R m d l).
Proof.
  intros f. induction m as [|m IH]; intros d l; [reflexivity|]. simpl. rewrite <- IH, firstn_map, skipn_map. reflexivity.
Qed.

Theorem sph_post_pos_homogeneous : forall rnd t m d img ys, 0 < t ->
  sph_post_R rnd m d (map (Rmult t) img) ys = sph_post_R rnd m d img ys.
Proof.
  intros rnd t m d img ys Ht. unfold sph_post_R, sph_post. rewrite chunk_map. f_equal.
  generalize (chunk R m d img) as rows. intros rows. revert ys.
  induction rows as [|a rows IH]; intros [|y ys]; simpl; try reflexivity. rewrite IH. f_equal.
  apply sph_block_pos_homogeneous. assumption.
Qed.

Theorem sinkhorn_row_u_scale : forall rnd t m d u K v vectors ys, 0 < t ->
  sinkhorn_row_R rnd m d (map (Rmult t) u) K v vectors ys = sinkhorn_row_R rnd m d u K v vectors ys.
Proof.
  intros rnd t m d u K v vectors ys Ht. unfold sinkhorn_row_R, sinkhorn_row.
  pose proof (sink_images_scale t d u K v vectors) as E. unfold sink_images_R in E. rewrite E.
  apply sph_post_pos_homogeneous. assumption.
Qed.

(* ================================================================ batched Sinkhorn rows *)
Section SinkhornRows.
  Variables Item St Row : Type.
  Variable init : Item -> St.
  Variable step : Item -> St -> St.
  Variable nonfinite : Item -> St -> bool.
  Variable converged : list (Item * St) -> bool.
  Variable post : St -> Row.          (* sinkhorn_transport_images of the column + the spherical tail *)

  Definition sinkhorn_rows (max_iter : nat) (items : list Item) : list Row :=
    map post (sinkhorn_batch Item St init step nonfinite converged max_iter items).

  Lemma sinkhorn_rows_spec : forall max_iter items,
    sinkhorn_rows max_iter items
    = map (fun x => post (iter (stop_index Item St init step nonfinite converged max_iter items) (step x) (init x))) items.
  Proof. intros. unfold sinkhorn_rows. rewrite sinkhorn_batch_spec, map_map. reflexivity. Qed.

  Lemma sinkhorn_rows_same_stop : forall max_iter X Y i j d,
    (i < length X)%nat -> (j < length Y)%nat -> nth i X d = nth j Y d ->
    stop_index Item St init step nonfinite converged max_iter X = stop_index Item St init step nonfinite converged max_iter Y ->
    nth i (sinkhorn_rows max_iter X) (post (init d)) = nth j (sinkhorn_rows max_iter Y) (post (init d)).
  Proof.
    intros max_iter X Y i j d Hi Hj Hx HT. unfold sinkhorn_rows. rewrite !map_nth. f_equal.
    apply sinkhorn_same_stop_same_row; assumption.
  Qed.
End SinkhornRows.
