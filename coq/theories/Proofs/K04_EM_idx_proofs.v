(* Proofs about Model/K04_EM_idx.v: on every well-formed CSR structure the checked-access model of em_update_matrix
   returns Ok, and its result is the list-level em_update of Model/K04_EM.v (refinement); the unguarded variant leaves
   its view on an explicit witness. *)
From Coq Require Import List Arith Bool Lia ZArith QArith Qcanon.
From VZ Require Import Model.K02_Windows Model.K03_Cooc Model.K03_Exec Model.K04_EM Model.K04_EM_idx.
From VZ Require Import Proofs.K02_Windows_proofs Proofs.K02_Qc_proofs Proofs.K04_EM_proofs.
Import ListNotations.
Open Scope nat_scope.

Ltac Zify.zify_post_hook ::= Z.to_euclidean_division_equations.

(* ---------- checked accesses ---------- *)

Lemma get_Some : forall A s (l : list A) i a, nth_error l i = Some a -> get s l i = Ok a.
Proof. intros A s l i a H. unfold get. rewrite H. reflexivity. Qed.

Lemma get_nth : forall A s (l : list A) i d, i < length l -> get s l i = Ok (nth i l d).
Proof. intros A s l i d H. apply get_Some. apply nth_error_nth'. exact H. Qed.

Lemma nth_error_mid : forall A (p : list A) x r, nth_error (p ++ x :: r) (length p) = Some x.
Proof. intros. rewrite nth_error_app2 by lia. rewrite Nat.sub_diag. reflexivity. Qed.

Lemma upd_mid : forall A (p : list A) x r v, upd (p ++ x :: r) (length p) v = p ++ v :: r.
Proof. induction p; intros; simpl; [reflexivity|]. f_equal. apply IHp. Qed.

Lemma set_mid : forall A s (p : list A) x r i v, i = length p -> set s (p ++ x :: r) i v = Ok (p ++ v :: r).
Proof.
  intros A s p x r i v ->. unfold set.
  assert (H : (length p <? length (p ++ x :: r)) = true) by (apply Nat.ltb_lt; rewrite app_length; simpl; lia).
  rewrite H. rewrite upd_mid. reflexivity.
Qed.

Lemma add_at_upd : forall (K : carrier) (l : list K) i v d, i < length l ->
  add_at l i v = upd l i (add (nth i l d) v).
Proof.
  induction l; intros i v d H; simpl in H; [lia|]. destruct i; simpl; [reflexivity|]. f_equal. apply IHl. lia.
Qed.

(* ---------- the view of a python slice ---------- *)

Lemma nth_error_firstn_lt : forall A m (l : list A) k, k < m -> nth_error (firstn m l) k = nth_error l k.
Proof.
  induction m; intros l k H; [lia|]. destruct l; [reflexivity|]. destruct k; [reflexivity|]. simpl. apply IHm. lia.
Qed.

Lemma nth_error_skipn_add : forall A lo (l : list A) k, nth_error (skipn lo l) k = nth_error l (lo + k).
Proof.
  induction lo; intros l k; [reflexivity|]. destruct l; simpl; [destruct k; reflexivity|]. apply IHlo.
Qed.

Lemma slice_len_view : forall A (l : list A) lo hi, length (slice lo hi l) = v_len (slice_view lo hi (length l)).
Proof. intros. unfold slice, slice_view. simpl. rewrite firstn_length, skipn_length. lia. Qed.

Lemma vget_slice : forall A s (l : list A) lo hi k d, k < length (slice lo hi l) ->
  vget s l (slice_view lo hi (length l)) k = Ok (nth k (slice lo hi l) d).
Proof.
  intros A s l lo hi k d H. unfold vget. rewrite <- slice_len_view.
  apply Nat.ltb_lt in H as H'. rewrite H'.
  assert (Hlo : lo <= length l).
  { unfold slice in H. rewrite firstn_length, skipn_length in H. lia. }
  simpl. rewrite Nat.min_l by exact Hlo. apply get_Some.
  rewrite <- nth_error_skipn_add. rewrite <- (nth_error_firstn_lt A (hi - lo)).
  - apply nth_error_nth'. exact H.
  - unfold slice in H. rewrite firstn_length in H. lia.
Qed.

(* ---------- np.searchsorted through the view ---------- *)

Lemma bsearch_idx_ok : forall (l : list nat) lo hi fuel x a b, b <= length (slice lo hi l) ->
  bsearch_idx fuel l (slice_view lo hi (length l)) x a b = Ok (bsearch fuel (slice lo hi l) x a b).
Proof.
  intros l lo hi. induction fuel; intros x a b Hb; cbn [bsearch_idx bsearch]; [reflexivity|].
  destruct (a <? b) eqn:Eab; [|reflexivity]. apply Nat.ltb_lt in Eab.
  assert (Hd : (b - a) / 2 < b - a) by (apply Nat.div_lt; lia).
  generalize dependent ((b - a) / 2). intros h Hd.
  rewrite (vget_slice _ _ _ _ _ _ 0) by lia. cbn [bind].
  destruct (nth (a + h) (slice lo hi l) 0 <? x); apply IHfuel; lia.
Qed.

Lemma searchsorted_idx_ok : forall (l : list nat) lo hi x,
  searchsorted_idx l (slice_view lo hi (length l)) x = Ok (searchsorted (slice lo hi l) x).
Proof.
  intros. unfold searchsorted_idx, searchsorted. rewrite <- slice_len_view. apply bsearch_idx_ok. lia.
Qed.

(* ---------- win_offset ---------- *)

Lemma removelast_cumsum_nth : forall l a j, j < length l ->
  nth_error (removelast (a :: cumsum_from a l)) j = Some (a + list_sum (firstn j l)).
Proof.
  induction l; intros b j H; simpl in H; [lia|].
  change (removelast (b :: cumsum_from b (a :: l))) with (b :: removelast ((b + a) :: cumsum_from (b + a) l)).
  destruct j; cbn [nth_error firstn].
  - f_equal. simpl. lia.
  - rewrite IHl by lia. f_equal. simpl. lia.
Qed.

Lemma win_offsets_nth : forall windows j, j < length windows ->
  nth_error (win_offsets windows) j = Some (list_sum (map (@length nat) (firstn j windows))).
Proof.
  intros windows j H. unfold win_offsets. rewrite removelast_cumsum_nth by (rewrite map_length; exact H).
  rewrite firstn_map. reflexivity.
Qed.

(* ---------- E-step ---------- *)
Section Estep.
Context {K : carrier}.
Variables (indices : list nat) (prior : list K) (n lo hi : nat).
Hypothesis Hrow : lo <= hi <= length indices.
Hypothesis Hprior : length prior = length indices.
Variables (kernels : list (list K)) (offs : list nat).

Let cv := slice_view lo hi (length indices).
Let slot := @em_slot K true indices prior lo hi n.

Lemma col_len : length (slice lo hi indices) = hi - lo.
Proof. apply slice_length. lia. Qed.

Lemma estep_slot_ok : forall w i ctx off kw k pc rc pw rw,
  nth_error offs w = Some off -> nth_error kernels w = Some kw -> nth_error kw i = Some k ->
  length pc = i + off -> length pw = i + off ->
  estep_slot true indices prior n lo cv kernels offs w i ctx (pc ++ 0 :: rc, pw ++ zero :: rw)
  = Ok (pc ++ fst (slot w ctx k) :: rc, pw ++ snd (slot w ctx k) :: rw).
Proof.
  intros w i ctx off kw k pc rc pw rw Ho Hk Hki Hpc Hpw.
  unfold estep_slot, slot, em_slot.
  rewrite (get_Some _ _ _ _ _ Hk). cbn [bind]. rewrite (get_Some _ _ _ _ _ Hki). cbn [bind].
  destruct (gtb0 k); [|reflexivity].
  rewrite (get_Some _ _ _ _ _ Ho). cbn [bind]. unfold cv. rewrite searchsorted_idx_ok. cbn [bind fst snd].
  rewrite (set_mid _ _ pc) by lia. cbn [bind].
  rewrite <- slice_len_view.
  set (idx := searchsorted (slice lo hi indices) (ctx + w * n)).
  destruct (idx <? length (slice lo hi indices)) eqn:El.
  - apply Nat.ltb_lt in El. rewrite (vget_slice _ _ _ _ _ _ 0) by exact El. cbn [bind andb].
    destruct (Nat.eqb (nth idx (slice lo hi indices) 0) (ctx + w * n)).
    + rewrite col_len in El. rewrite (get_nth _ _ _ _ zero) by lia. cbn [bind].
      rewrite (set_mid _ _ pw) by lia. reflexivity.
    + rewrite (set_mid _ _ pw) by lia. reflexivity.
  - cbn [bind andb]. rewrite (set_mid _ _ pw) by lia. reflexivity.
Qed.

Definition wslots (w : nat) (window : list nat) (ks : list K) : list (nat * K) :=
  map (fun ck => slot w (fst ck) (snd ck)) (combine window ks).

Lemma wslots_length : forall w window ks, length window = length ks -> length (wslots w window ks) = length window.
Proof. intros. unfold wslots. rewrite map_length, combine_length. lia. Qed.

Lemma estep_window_ok : forall w off window i kpre ks pc rc pw rw,
  nth_error offs w = Some off -> nth_error kernels w = Some (kpre ++ ks) ->
  length kpre = i -> length ks = length window ->
  length pc = i + off -> length pw = i + off ->
  estep_window true indices prior n lo cv kernels offs w i window
    (pc ++ repeat 0 (length window) ++ rc, pw ++ repeat zero (length window) ++ rw)
  = Ok (pc ++ map fst (wslots w window ks) ++ rc, pw ++ map snd (wslots w window ks) ++ rw).
Proof.
  intros w off. induction window as [|c t IH]; intros i kpre ks pc rc pw rw Ho Hk Hi Hks Hpc Hpw.
  - destruct ks; [|discriminate]. reflexivity.
  - destruct ks as [|k ks']; [discriminate|]. simpl in Hks.
    cbn [estep_window length repeat app].
    rewrite (estep_slot_ok w i c off (kpre ++ k :: ks') k) by
      (try assumption; rewrite nth_error_app2 by lia; replace (i - length kpre) with 0 by lia; reflexivity).
    cbn [bind].
    replace (pc ++ fst (slot w c k) :: repeat 0 (length t) ++ rc)
      with ((pc ++ [fst (slot w c k)]) ++ repeat 0 (length t) ++ rc) by (rewrite <- app_assoc; reflexivity).
    replace (pw ++ snd (slot w c k) :: repeat zero (length t) ++ rw)
      with ((pw ++ [snd (slot w c k)]) ++ repeat zero (length t) ++ rw) by (rewrite <- app_assoc; reflexivity).
    rewrite (IH (S i) (kpre ++ [k]) ks'); try assumption.
    + unfold wslots. cbn [combine map fst snd]. rewrite <- !app_assoc. reflexivity.
    + rewrite <- app_assoc. exact Hk.
    + rewrite app_length. simpl. lia.
    + lia.
    + rewrite app_length. simpl. lia.
    + rewrite app_length. simpl. lia.
Qed.

(* the slots of windows w, w+1, ... in loop order *)
Fixpoint wslots_from (w : nat) (wins : list (list nat)) (kers : list (list K)) : list (nat * K) :=
  match wins, kers with
  | win :: wt, ker :: kt => wslots w win ker ++ wslots_from (S w) wt kt
  | _, _ => []
  end.

Definition total (wins : list (list nat)) : nat := list_sum (map (@length nat) wins).

Lemma total_cons : forall win wt, total (win :: wt) = length win + total wt.
Proof. reflexivity. Qed.

Lemma wslots_from_length : forall wins kers w, same_shapes wins kers -> length (wslots_from w wins kers) = total wins.
Proof.
  intros wins kers w H. revert w. induction H; intros w; [reflexivity|].
  cbn [wslots_from]. rewrite app_length, wslots_length by assumption. rewrite IHForall2, total_cons. reflexivity.
Qed.

Lemma estep_windows_ok : forall wins kers w kpre pc pw,
  same_shapes wins kers -> kernels = kpre ++ kers -> length kpre = w -> length pc = length pw ->
  (forall j, j < length wins -> nth_error offs (w + j) = Some (length pc + total (firstn j wins))) ->
  estep_windows true indices prior n lo cv kernels offs w wins (pc ++ repeat 0 (total wins), pw ++ repeat zero (total wins))
  = Ok (pc ++ map fst (wslots_from w wins kers), pw ++ map snd (wslots_from w wins kers)).
Proof.
  intros wins kers w kpre pc pw H. revert w kpre pc pw.
  induction H as [|win ker wt kt Hlen Hrest IH]; intros w kpre pc pw Hk Hw Hlp Hoffs.
  - cbn. rewrite !app_nil_r. reflexivity.
  - cbn [estep_windows wslots_from]. rewrite total_cons, !repeat_app.
    assert (Ho : nth_error offs w = Some (length pc)).
    { specialize (Hoffs 0). rewrite Nat.add_0_r in Hoffs. rewrite Hoffs by (simpl; lia). cbn. f_equal. lia. }
    rewrite (estep_window_ok w (length pc) win 0 [] ker); try assumption; try lia; try reflexivity.
    2:{ rewrite Hk. rewrite nth_error_app2 by lia. replace (w - length kpre) with 0 by lia. reflexivity. }
    cbn [bind]. rewrite !app_assoc.
    rewrite (IH (S w) (kpre ++ [ker])).
    + rewrite !map_app, <- !app_assoc. reflexivity.
    + rewrite <- app_assoc. exact Hk.
    + rewrite app_length. simpl. lia.
    + rewrite !app_length, !map_length. lia.
    + intros j Hj. replace (S w + j) with (w + S j) by lia. rewrite Hoffs by (simpl; lia).
      f_equal. rewrite app_length, map_length, wslots_length by exact Hlen.
      cbn [firstn]. rewrite total_cons. lia.
Qed.

Lemma wslots_from_em_slots : forall wins kers w,
  wslots_from w wins kers
  = flat_map (fun iwk : nat * (list nat * list K) =>
                map (fun ck => @em_slot K true indices prior lo hi n (fst iwk) (fst ck) (snd ck))
                    (combine (fst (snd iwk)) (snd (snd iwk))))
             (combine (seq w (length (combine wins kers))) (combine wins kers)).
Proof.
  induction wins; intros kers w; [reflexivity|]. destruct kers as [|ker kt]; [reflexivity|].
  cbn [wslots_from combine length seq flat_map fst snd]. f_equal. apply IHwins.
Qed.

Lemma wslots_from_0 : forall wins kers,
  wslots_from 0 wins kers = @em_slots K true indices prior lo hi n (combine wins kers).
Proof. intros. unfold em_slots. apply wslots_from_em_slots. Qed.

End Estep.

(* ---------- M-step ---------- *)
Section Mstep.
Context {K : carrier}.
Variables (lo : nat) (offs : list nat).

Definition safe_slots (len : nat) (sl : list (nat * K)) : Prop :=
  Forall (fun s => gtb0 (snd s) = true -> lo + fst s < len) sl.

Lemma mstep_slot_ok : forall (sl : list (nat * K)) w i off s (post : list K),
  nth_error offs w = Some off -> nth_error sl (i + off) = Some s ->
  (gtb0 (snd s) = true -> lo + fst s < length post) ->
  mstep_slot lo offs (map fst sl) (map snd sl) w i post
  = Ok (if gtb0 (snd s) then add_at post (lo + fst s) (snd s) else post).
Proof.
  intros sl w i off s post Ho Hs Hsafe. unfold mstep_slot.
  rewrite (get_Some _ _ _ _ _ Ho). cbn [bind].
  rewrite (get_Some _ _ (map snd sl) _ (snd s)) by (rewrite nth_error_map, Hs; reflexivity). cbn [bind].
  destruct (gtb0 (snd s)); [|reflexivity].
  rewrite (get_Some _ _ (map fst sl) _ (fst s)) by (rewrite nth_error_map, Hs; reflexivity). cbn [bind].
  specialize (Hsafe eq_refl).
  rewrite (get_nth _ _ _ _ zero) by exact Hsafe. cbn [bind].
  unfold set. apply Nat.ltb_lt in Hsafe as Hb. rewrite Hb. rewrite (add_at_upd _ _ _ _ zero) by exact Hsafe. reflexivity.
Qed.

Lemma em_write_cons : forall (post : list K) s sl,
  em_write lo post (s :: sl) = em_write lo (if gtb0 (snd s) then add_at post (lo + fst s) (snd s) else post) sl.
Proof. reflexivity. Qed.

Lemma mstep_window_ok : forall w off window i sl spre sw srest (post : list K),
  nth_error offs w = Some off -> sl = spre ++ sw ++ srest ->
  length spre = i + off -> length sw = length window -> safe_slots (length post) sw ->
  mstep_window lo offs (map fst sl) (map snd sl) w i window post = Ok (em_write lo post sw).
Proof.
  intros w off. induction window as [|c t IH]; intros i sl spre sw srest post Ho Hsl Hpre Hsw Hsafe.
  - destruct sw; [|discriminate]. reflexivity.
  - destruct sw as [|s sw']; [discriminate|]. simpl in Hsw. inversion Hsafe as [|? ? Hs Hsafe']; subst.
    cbn [mstep_window].
    rewrite (mstep_slot_ok _ w i off s) by
      (try assumption; rewrite nth_error_app2 by lia; replace (i + off - length spre) with 0 by lia; reflexivity).
    cbn [bind]. rewrite em_write_cons.
    apply (IH (S i) _ (spre ++ [s]) sw' srest); try assumption.
    + rewrite <- app_assoc. reflexivity.
    + rewrite app_length. simpl. lia.
    + lia.
    + destruct (gtb0 (snd s)); [rewrite add_at_length|]; exact Hsafe'.
Qed.

Lemma em_write_app : forall (post : list K) a b, em_write lo post (a ++ b) = em_write lo (em_write lo post a) b.
Proof. intros. unfold em_write. apply fold_left_app. Qed.

Lemma mstep_windows_ok : forall wins w sl spre sw srest (post : list K),
  sl = spre ++ sw ++ srest -> length sw = total wins ->
  (forall j, j < length wins -> nth_error offs (w + j) = Some (length spre + total (firstn j wins))) ->
  safe_slots (length post) sw ->
  mstep_windows lo offs (map fst sl) (map snd sl) w wins post = Ok (em_write lo post sw).
Proof.
  induction wins as [|win wt IH]; intros w sl spre sw srest post Hsl Hsw Hoffs Hsafe.
  - destruct sw; [|discriminate]. reflexivity.
  - rewrite total_cons in Hsw.
    cbn [mstep_windows].
    assert (Ho : nth_error offs w = Some (length spre)).
    { specialize (Hoffs 0). rewrite Nat.add_0_r in Hoffs. rewrite Hoffs by (simpl; lia). cbn. f_equal. lia. }
    assert (Hab : exists a b, sw = a ++ b /\ length a = length win /\ length b = total wt).
    { exists (firstn (length win) sw), (skipn (length win) sw). rewrite firstn_skipn, firstn_length, skipn_length.
      repeat split; lia. }
    destruct Hab as (a & b & -> & Ha & Hb).
    unfold safe_slots in Hsafe. apply Forall_app in Hsafe. destruct Hsafe as [Hs1 Hs2].
    rewrite (mstep_window_ok w (length spre) win 0 sl spre a (b ++ srest)); try assumption.
    + cbn [bind]. rewrite em_write_app.
      apply (IH (S w) sl (spre ++ a) b srest).
      * rewrite Hsl. rewrite <- !app_assoc. reflexivity.
      * exact Hb.
      * intros j Hj. replace (S w + j) with (w + S j) by lia. rewrite Hoffs by (simpl; lia).
        f_equal. rewrite app_length. cbn [firstn]. rewrite total_cons. lia.
      * unfold safe_slots. rewrite em_write_length. exact Hs2.
    + rewrite Hsl. rewrite <- app_assoc. reflexivity.
    + reflexivity.
Qed.

End Mstep.

Lemma norm_fst : forall (K : carrier) (slots : list (nat * K)), map fst slots = map fst (em_normalize slots).
Proof.
  intros. unfold em_normalize. cbv zeta. destruct (gtb0 (tsum (map snd slots))); [|reflexivity].
  rewrite map_map. reflexivity.
Qed.

Lemma norm_snd : forall (K : carrier) (slots : list (nat * K)),
  (if gtb0 (tsum (map snd slots)) then map (fun x : K => div x (tsum (map snd slots))) (map snd slots) else map snd slots)
  = map snd (em_normalize slots).
Proof.
  intros. unfold em_normalize. cbv zeta. destruct (gtb0 (tsum (map snd slots))); [|reflexivity].
  rewrite !map_map. reflexivity.
Qed.

(* ---------- CSR well-formedness ---------- *)

Lemma nondecr_le : forall (l : list nat), (forall r, r + 1 < length l -> nth r l 0 <= nth (r + 1) l 0) ->
  forall k j, j <= k -> k < length l -> nth j l 0 <= nth k l 0.
Proof.
  intros l H. induction k; intros j Hj Hk.
  - replace j with 0 by lia. lia.
  - destruct (Nat.eq_dec j (S k)) as [->|Hne]; [lia|].
    transitivity (nth k l 0); [apply IHk; lia|]. replace (S k) with (k + 1) by lia. apply H. lia.
Qed.

Lemma last_as_nth : forall (l : list nat) d, l <> [] -> last l d = nth (length l - 1) l d.
Proof.
  induction l; intros d H; [contradiction|]. destruct l as [|b l']; [reflexivity|].
  change (last (a :: b :: l') d) with (last (b :: l') d). rewrite IHl by discriminate.
  simpl. rewrite Nat.sub_0_r. reflexivity.
Qed.

Lemma csr_ok_row : forall indices indptr nd tgt, csr_ok indices indptr nd -> tgt + 1 < length indptr ->
  nth tgt indptr 0 <= nth (tgt + 1) indptr 0 <= length indices.
Proof.
  intros indices indptr nd tgt (Hmono & Hlast & _) Ht. split; [apply Hmono; exact Ht|].
  rewrite last_as_nth in Hlast by (destruct indptr; [simpl in Ht; lia | discriminate]).
  etransitivity; [|exact Hlast]. apply nondecr_le; [exact Hmono | lia | lia].
Qed.

(* ---------- the refinement theorem ---------- *)
Local Open Scope Qc_scope.

Lemma em_slots_safe : forall (post prior : list Qc) indices lo hi n wk,
  (lo <= hi <= length indices)%nat -> length post = length indices ->
  safe_slots lo (length post) (@em_normalize QcK (@em_slots QcK true indices prior lo hi n wk)).
Proof.
  intros post prior indices lo hi n wk Hrow Hpost. unfold safe_slots. rewrite Forall_forall. intros s Hs Hg.
  apply em_normalize_In in Hs. destruct Hs as [s0 [Hs0 [Hf [Hz _]]]].
  assert (Hnz : snd s0 <> 0).
  { intros E. apply Hz in E. rewrite E in Hg. simpl in Hg. discriminate. }
  apply em_slots_In in Hs0. destruct Hs0 as [w [ctx [k ->]]].
  apply em_slot_hit in Hnz. destruct Hnz as [Hlt _].
  rewrite slice_length_ok in Hlt by exact Hrow. simpl T in *. lia.
Qed.

Theorem em_update_idx_refines : forall (post prior : list Qc) indices indptr n tgt windows (kernels : list (list Qc)),
  csr_ok indices indptr (length prior) -> length post = length prior -> (tgt + 1 < length indptr)%nat ->
  @same_shapes QcK windows kernels ->
  @em_update_idx QcK post indices indptr prior n tgt windows kernels
  = Ok (@em_update QcK post indices indptr prior n (tgt, combine windows kernels)).
Proof.
  intros post prior indices indptr n tgt windows kernels Hcsr Hpost Htgt Hshape.
  pose proof (csr_ok_row _ _ _ _ Hcsr Htgt) as Hrow.
  destruct Hcsr as (_ & _ & Hdata).
  unfold em_update_idx, em_update_idx_gen, em_update, em_update_gen. cbn [fst snd].
  rewrite (get_nth _ _ _ _ 0%nat) by lia. cbn [bind].
  rewrite (get_nth _ _ _ _ 0%nat) by lia. cbn [bind].
  set (lo := nth tgt indptr 0%nat) in *. set (hi := nth (tgt + 1) indptr 0%nat) in *.
  pose proof (@estep_windows_ok QcK indices prior n lo hi Hrow Hdata kernels (win_offsets windows)
                windows kernels 0%nat [] [] [] Hshape eq_refl eq_refl eq_refl) as HE.
  cbn [app length] in HE. fold (total windows). rewrite HE.
  2:{ intros j Hj. rewrite win_offsets_nth by exact Hj. reflexivity. }
  cbn [bind fst snd]. clear HE.
  rewrite wslots_from_0.
  match goal with |- context [@em_slots ?K ?g ?i ?p ?l ?h ?m ?wk] => set (slots := @em_slots K g i p l h m wk) end.
  pose proof (@norm_fst QcK slots) as Hcind. pose proof (@norm_snd QcK slots) as Hwp.
  rewrite Hwp, Hcind.
  apply (@mstep_windows_ok QcK lo (win_offsets windows) windows 0%nat _ [] (@em_normalize QcK slots) []).
  - rewrite app_nil_r. reflexivity.
  - assert (Hl : length (@em_normalize QcK slots) = length slots).
    { rewrite <- (map_length fst), <- Hcind, map_length. reflexivity. }
    rewrite Hl. unfold slots. rewrite <- wslots_from_0. eapply wslots_from_length; eassumption.
  - intros j Hj. rewrite win_offsets_nth by exact Hj. reflexivity.
  - apply em_slots_safe; [exact Hrow | lia].
Qed.

Corollary em_update_idx_safe : forall (post prior : list Qc) indices indptr n tgt windows (kernels : list (list Qc)),
  csr_ok indices indptr (length prior) -> length post = length prior -> (tgt + 1 < length indptr)%nat ->
  @same_shapes QcK windows kernels ->
  exists r, @em_update_idx QcK post indices indptr prior n tgt windows kernels = Ok r.
Proof. intros. eexists. apply em_update_idx_refines; assumption. Qed.

(* ---------- the pre-repair body leaves its view ---------- *)

Definition ex_indices : list nat := [0; 1]%nat.
Definition ex_indptr : list nat := [0; 1; 2]%nat.
Definition ex_prior : list Qc := [Q2Qc (1 # 2); Q2Qc (1 # 4)].
Definition ex_post : list Qc := [Q2Qc 0; Q2Qc 0].

Lemma ex_csr_ok : csr_ok ex_indices ex_indptr (length ex_prior).
Proof.
  repeat split; simpl; try lia.
  intros r Hr. destruct r as [|[|r]]; simpl; lia.
Qed.

(* row 0 = {column 0}; the occurrence looks column 1 up (larger than every stored column of the row): searchsorted
   returns 1 = len(col_ind), and col_ind[1] is outside the view *)
Theorem em_update_idx_unguarded_oob :
  exists (post prior : list Qc) indices indptr n tgt windows (kernels : list (list Qc)),
    csr_ok indices indptr (length prior) /\ length post = length prior /\ (tgt + 1 < length indptr)%nat /\
    @same_shapes QcK windows kernels /\
    @em_update_idx_unguarded QcK post indices indptr prior n tgt windows kernels = OOB E_col_ind /\
    exists r, @em_update_idx QcK post indices indptr prior n tgt windows kernels = Ok r.
Proof.
  exists ex_post, ex_prior, ex_indices, ex_indptr, 2%nat, 0%nat, [[1%nat]], [[Q2Qc 1]].
  split; [exact ex_csr_ok|]. split; [reflexivity|]. split; [simpl; lia|].
  split; [repeat constructor|]. split; [vm_compute; reflexivity|].
  eexists. vm_compute. reflexivity.
Qed.
