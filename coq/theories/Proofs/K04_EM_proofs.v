(* Proofs about Model/K04_EM.v (over the rationals Qc). *)
From Coq Require Import List Arith Bool Lia ZArith QArith Qcanon.
From VZ Require Import Model.K02_Windows Model.K03_Cooc Model.K03_Exec Model.K04_EM
     Proofs.K03_BigSum Proofs.K02_Windows_proofs Proofs.K02_Qc_proofs.
Import ListNotations.
Open Scope nat_scope.

(* ---------- searchsorted ---------- *)

Lemma bsearch_S : forall f a x lo hi,
  bsearch (S f) a x lo hi =
  if lo <? hi then (if nth (lo + (hi - lo) / 2) a 0 <? x then bsearch f a x (lo + (hi - lo) / 2 + 1) hi
                    else bsearch f a x lo (lo + (hi - lo) / 2))
  else lo.
Proof. reflexivity. Qed.

Lemma bsearch_bounds : forall fuel a x lo hi, lo <= hi -> lo <= bsearch fuel a x lo hi <= hi.
Proof.
  induction fuel; intros a x lo hi H; [simpl; lia|]. rewrite bsearch_S.
  destruct (Nat.ltb_spec lo hi); [|lia].
  assert (Hm : lo <= lo + (hi - lo) / 2 < hi).
  { assert ((hi - lo) / 2 < hi - lo) by (apply Nat.div_lt; lia).
    generalize dependent ((hi - lo) / 2). intros. lia. }
  generalize dependent (lo + (hi - lo) / 2). intros m Hm.
  destruct (nth m a 0 <? x).
  - specialize (IHfuel a x (m + 1) hi). lia.
  - specialize (IHfuel a x lo m). lia.
Qed.

Lemma searchsorted_le : forall a x, searchsorted a x <= length a.
Proof. intros. unfold searchsorted. pose proof (bsearch_bounds (length a) a x 0 (length a)). lia. Qed.

Definition sorted_le (a : list nat) : Prop := forall i j, i <= j -> j < length a -> nth i a 0 <= nth j a 0.

(* on a sorted list: everything before the result is < x, everything from the result on is >= x *)
Lemma bsearch_spec : forall fuel a x lo hi, sorted_le a -> lo <= hi -> hi <= length a -> hi - lo <= fuel ->
  (forall i, i < lo -> nth i a 0 < x) -> (forall i, hi <= i -> i < length a -> x <= nth i a 0) ->
  let r := bsearch fuel a x lo hi in
  (forall i, i < r -> nth i a 0 < x) /\ (forall i, r <= i -> i < length a -> x <= nth i a 0).
Proof.
  induction fuel; intros a x lo hi Hs Hlh Hhi Hf Hlo Hge.
  - simpl. assert (lo = hi) by lia. subst. split; assumption.
  - cbv zeta. rewrite bsearch_S. destruct (Nat.ltb_spec lo hi) as [Hlt|Hnlt].
    + set (m := lo + (hi - lo) / 2).
      assert (Hm : lo <= m < hi).
      { unfold m. assert ((hi - lo) / 2 < hi - lo) by (apply Nat.div_lt; lia).
        generalize dependent ((hi - lo) / 2). intros. lia. }
      clearbody m.
      destruct (Nat.ltb_spec (nth m a 0) x) as [Hmx|Hmx].
      * apply IHfuel; try assumption; try lia.
        intros i Hi. assert (Him : i <= m) by lia.
        pose proof (Hs i m Him ltac:(lia)). lia.
      * apply IHfuel; try assumption; try lia.
        intros i Hi Hil. pose proof (Hs m i Hi Hil). lia.
    + assert (lo = hi) by lia. subst. split; assumption.
Qed.

Lemma searchsorted_spec : forall a x, sorted_le a ->
  (forall i, i < searchsorted a x -> nth i a 0 < x) /\
  (forall i, searchsorted a x <= i -> i < length a -> x <= nth i a 0).
Proof.
  intros a x Hs. unfold searchsorted. apply bsearch_spec; try assumption; try lia.
Qed.

(* strictly increasing columns: the look-up finds exactly the position of the column, if present *)
Definition sorted_lt (a : list nat) : Prop := forall i j, i < j -> j < length a -> nth i a 0 < nth j a 0.

Lemma sorted_lt_le : forall a, sorted_lt a -> sorted_le a.
Proof.
  intros a H i j Hij Hj. destruct (Nat.eq_dec i j) as [->|Hne]; [lia|].
  pose proof (H i j ltac:(lia) Hj). lia.
Qed.

Lemma searchsorted_found : forall a k, sorted_lt a -> k < length a -> searchsorted a (nth k a 0) = k.
Proof.
  intros a k Hs Hk. destruct (searchsorted_spec a (nth k a 0) (sorted_lt_le a Hs)) as [H1 H2].
  destruct (Nat.lt_trichotomy (searchsorted a (nth k a 0)) k) as [Hlt|[Heq|Hgt]]; [|assumption|].
  - pose proof (H2 (searchsorted a (nth k a 0)) (le_n _) ltac:(lia)).
    pose proof (Hs _ _ Hlt Hk). lia.
  - pose proof (H1 k Hgt). lia.
Qed.

(* ---------- add_at / em_write ---------- *)

Lemma add_at_length : forall (K : carrier) (l : list K) i v, length (add_at l i v) = length l.
Proof. induction l; intros; destruct i; simpl; auto. Qed.

Lemma add_at_nth_other : forall (K : carrier) (l : list K) i v j d, j <> i -> nth j (add_at l i v) d = nth j l d.
Proof.
  induction l; intros i v j d H; destruct i; simpl; try reflexivity.
  - destruct j; [lia | reflexivity].
  - destruct j; [reflexivity|]. apply IHl. lia.
Qed.

Lemma add_at_nth_same : forall (K : carrier) (l : list K) i v d, i < length l -> nth i (add_at l i v) d = add (nth i l d) v.
Proof.
  induction l; intros i v d H; simpl in H; [lia|]. destruct i; simpl; [reflexivity|]. apply IHl. lia.
Qed.

Lemma em_write_length : forall (K : carrier) lo (slots : list (nat * K)) post,
  length (em_write lo post slots) = length post.
Proof.
  intros K lo slots. unfold em_write. induction slots as [|s slots IH]; intros post; simpl; [reflexivity|].
  rewrite IH. destruct (gtb0 (snd s)); [apply add_at_length | reflexivity].
Qed.

Lemma em_write_nth_other : forall (K : carrier) lo (slots : list (nat * K)) post j d,
  (forall s, In s slots -> gtb0 (snd s) = true -> lo + fst s <> j) ->
  nth j (em_write lo post slots) d = nth j post d.
Proof.
  intros K lo slots. unfold em_write. induction slots as [|s slots IH]; intros post j d H; simpl; [reflexivity|].
  rewrite IH by (intros; apply H; [right|]; assumption).
  destruct (gtb0 (snd s)) eqn:E; [|reflexivity].
  apply add_at_nth_other. intros Heq. apply (H s (or_introl eq_refl) E). lia.
Qed.

(* ---------- the slots of the guarded E-step ---------- *)

Local Open Scope Qc_scope.

Lemma em_slot_hit : forall indices (prior : list Qc) lo hi n w ctx (k : Qc),
  snd (@em_slot QcK true indices prior lo hi n w ctx k) <> 0 ->
  (fst (@em_slot QcK true indices prior lo hi n w ctx k) < length (slice lo hi indices))%nat /\
  nth (fst (@em_slot QcK true indices prior lo hi n w ctx k)) (slice lo hi indices) 0%nat = (ctx + w * n)%nat /\
  0 < k /\
  snd (@em_slot QcK true indices prior lo hi n w ctx k)
  = k * nth (lo + fst (@em_slot QcK true indices prior lo hi n w ctx k)) prior 0.
Proof.
  intros indices prior lo hi n w ctx k. unfold em_slot.
  destruct (@gtb0 QcK k) eqn:Ek; [|simpl; intros H; exfalso; apply H; reflexivity].
  cbv zeta.
  destruct ((searchsorted (slice lo hi indices) (ctx + w * n) <? length (slice lo hi indices))%nat &&
            Nat.eqb (nth (searchsorted (slice lo hi indices) (ctx + w * n)) (slice lo hi indices) 0%nat) (ctx + w * n)) eqn:Eh;
    simpl; intros H; [|exfalso; apply H; reflexivity].
  apply andb_prop in Eh. destruct Eh as [E1 E2]. apply Nat.ltb_lt in E1. apply Nat.eqb_eq in E2.
  repeat split; try assumption. apply gtb0_true. assumption.
Qed.

Definition csr_row_ok (indices indptr : list nat) (tgt : nat) : Prop :=
  (nth tgt indptr 0 <= nth (tgt + 1) indptr 0 <= length indices)%nat.

Lemma slice_length_ok : forall (indices : list nat) lo hi, (lo <= hi <= length indices)%nat ->
  length (slice lo hi indices) = (hi - lo)%nat.
Proof. intros. apply slice_length. lia. Qed.

Lemma em_slots_In : forall guarded indices (prior : list Qc) lo hi n wk s,
  In s (@em_slots QcK guarded indices prior lo hi n wk) ->
  exists w ctx k, s = @em_slot QcK guarded indices prior lo hi n w ctx k.
Proof.
  intros guarded indices prior lo hi n wk s H. unfold em_slots in H. apply in_flat_map in H.
  destruct H as [[w [win ker]] [_ H]]. simpl in H. apply in_map_iff in H. destruct H as [[ctx k] [<- _]].
  exists w, ctx, k. reflexivity.
Qed.

Lemma em_normalize_In : forall (slots : list (nat * Qc)) s, In s (@em_normalize QcK slots) ->
  exists s0, In s0 slots /\ fst s = fst s0 /\ (snd s0 = 0 -> snd s = 0) /\
             (snd s = snd s0 \/ (0 < @tsum QcK (map snd slots) /\ snd s = snd s0 / @tsum QcK (map snd slots))).
Proof.
  intros slots s H. unfold em_normalize in H. cbv zeta in H.
  match type of H with In _ (if ?c then _ else _) => destruct c eqn:E end.
  - apply in_map_iff in H. destruct H as [s0 [<- Hin]]. exists s0. simpl. repeat split; try assumption.
    + intros ->. unfold Qcdiv. ring.
    + right. split; [apply gtb0_true; assumption | reflexivity].
  - exists s. repeat split; auto.
Qed.

(* ---------- C11_row_local: every write of an occurrence lies inside its own CSR row ---------- *)

Theorem em_update_row_local : forall (post : list Qc) indices indptr (prior : list Qc) n (o : occurrence QcK) j d,
  csr_row_ok indices indptr (fst o) ->
  ~ (nth (fst o) indptr 0 <= j < nth (fst o + 1) indptr 0)%nat ->
  nth j (@em_update QcK post indices indptr prior n o) d = nth j post d.
Proof.
  intros post indices indptr prior n o j d Hok Hj. unfold em_update, em_update_gen.
  apply em_write_nth_other. intros s Hs Hg Heq.
  apply em_normalize_In in Hs. destruct Hs as [s0 [Hs0 [Hf [Hz _]]]].
  assert (Hnz : snd s0 <> 0).
  { intros E. apply Hz in E. rewrite E in Hg. simpl in Hg. discriminate. }
  apply em_slots_In in Hs0. destruct Hs0 as [w [ctx [k ->]]].
  apply em_slot_hit in Hnz. destruct Hnz as [Hlt _].
  rewrite slice_length_ok in Hlt by exact Hok. unfold csr_row_ok in Hok. apply Hj. simpl T in *. lia.
Qed.

(* ---------- support: a cell that changes had a non-zero prior ---------- *)

Theorem em_update_support : forall (post : list Qc) indices indptr (prior : list Qc) n (o : occurrence QcK) j d,
  nth j (@em_update QcK post indices indptr prior n o) d <> nth j post d -> nth j prior 0 <> 0.
Proof.
  intros post indices indptr prior n o j d Hne Hp. apply Hne. unfold em_update, em_update_gen.
  apply em_write_nth_other. intros s Hs Hg Heq.
  apply em_normalize_In in Hs. destruct Hs as [s0 [Hs0 [Hf [Hz _]]]].
  assert (Hnz : snd s0 <> 0).
  { intros E. apply Hz in E. rewrite E in Hg. simpl in Hg. discriminate. }
  apply em_slots_In in Hs0. destruct Hs0 as [w [ctx [k ->]]].
  pose proof (em_slot_hit _ _ _ _ _ _ _ _ Hnz) as [_ [_ [_ Hv]]].
  simpl T in *. rewrite Hf in Heq. rewrite Heq, Hp in Hv. apply Hnz. rewrite Hv. ring.
Qed.

(* ---------- unit mass ---------- *)

Lemma qsum_add_at : forall (l : list Qc) i v, (i < length l)%nat -> qsum (@add_at QcK l i v) = qsum l + v.
Proof.
  induction l; intros i v H; simpl in H; [lia|]. destruct i; cbn [add_at].
  - rewrite !qsum_cons. simpl. ring.
  - rewrite !qsum_cons, IHl by lia. ring.
Qed.

Lemma em_write_sum : forall lo (slots : list (nat * Qc)) (post : list Qc),
  (forall s, In s slots -> 0 <= snd s) ->
  (forall s, In s slots -> 0 < snd s -> (lo + fst s < length post)%nat) ->
  qsum (@em_write QcK lo post slots) = qsum post + qsum (map snd slots).
Proof.
  intros lo slots. unfold em_write. induction slots as [|s slots IH]; intros post Hnn Hin; cbn [map fold_left].
  - replace (qsum []) with 0 by reflexivity. ring.
  - rewrite qsum_cons.
    match goal with |- context [if ?c then _ else _] => destruct c eqn:E end.
    + apply gtb0_true in E. rewrite IH.
      * rewrite qsum_add_at by (apply Hin; [left; reflexivity | assumption]). simpl T. ring.
      * intros; apply Hnn; right; assumption.
      * intros s1 Hs1 Hp1. rewrite (add_at_length QcK). apply Hin; [right|]; assumption.
    + apply gtb0_false in E. assert (snd s = 0) by (apply Qcle_antisym; [assumption | apply Hnn; left; reflexivity]).
      rewrite IH by (intros; try apply Hnn; try apply Hin; try right; assumption). rewrite H. simpl T. ring.
Qed.

Lemma qsum_all_zero : forall l : list Qc, Forall (fun x => x = 0) l -> qsum l = 0.
Proof.
  induction l; intros H; [reflexivity|]. inversion H; subst. rewrite qsum_cons, IHl by assumption. ring.
Qed.

Definition occ_nonneg (o : occurrence QcK) : Prop :=
  Forall (fun wk : list nat * list Qc => Forall (fun k => 0 <= k) (snd wk)) (snd o).

Lemma em_slot_nonneg : forall guarded indices (prior : list Qc) lo hi n w ctx (k : Qc),
  Forall (fun x => 0 <= x) prior -> 0 <= snd (@em_slot QcK guarded indices prior lo hi n w ctx k).
Proof.
  intros. unfold em_slot. destruct (@gtb0 QcK k) eqn:Ek; [|apply Qcle_refl]. cbv zeta.
  match goal with |- context [if ?c then _ else _] => destruct c end; simpl; [|apply Qcle_refl].
  apply Qcmult_nonneg; [apply Qclt_le_weak, gtb0_true; assumption|].
  destruct (Nat.lt_ge_cases (lo + searchsorted (slice lo hi indices) (ctx + w * n)) (length prior)) as [Hl|Hl].
  - rewrite Forall_forall in H. apply H. apply nth_In. assumption.
  - rewrite nth_overflow by assumption. apply Qcle_refl.
Qed.

Theorem em_update_unit_mass : forall (post : list Qc) indices indptr (prior : list Qc) n (o : occurrence QcK),
  csr_row_ok indices indptr (fst o) -> (length indices <= length post)%nat ->
  Forall (fun x => 0 <= x) prior ->
  let slots := @em_slots QcK true indices prior (nth (fst o) indptr 0%nat) (nth (fst o + 1) indptr 0%nat) n (snd o) in
  qsum (@em_update QcK post indices indptr prior n o) = qsum post + (if @gtb0 QcK (qsum (map snd slots)) then 1 else 0).
Proof.
  intros post indices indptr prior n o Hok Hlen Hprior slots. unfold em_update, em_update_gen. fold slots.
  assert (Hnn : forall s, In s slots -> 0 <= snd s).
  { intros s Hs. apply em_slots_In in Hs. destruct Hs as [w [ctx [k ->]]]. apply em_slot_nonneg. assumption. }
  assert (Hidx : forall s, In s slots -> snd s <> 0 -> (nth (fst o) indptr 0 + fst s < length post)%nat).
  { intros s Hs Hnz. apply em_slots_In in Hs. destruct Hs as [w [ctx [k ->]]].
    apply em_slot_hit in Hnz. destruct Hnz as [Hlt _]. rewrite slice_length_ok in Hlt by exact Hok.
    unfold csr_row_ok in Hok. simpl T in *. lia. }
  rewrite em_write_sum.
  - f_equal. unfold em_normalize. fold (qsum (map snd slots)).
    destruct (@gtb0 QcK (qsum (map snd slots))) eqn:E.
    + apply gtb0_true in E. rewrite map_map. simpl.
      change (qsum (map (fun x : nat * Qc => snd x / qsum (map snd slots)) slots) = 1).
      rewrite <- (map_map snd (fun v => v / qsum (map snd slots))).
      rewrite qsum_map_div by (apply Qclt_neq0; assumption). simpl T. field. apply Qclt_neq0. assumption.
    + apply gtb0_false in E.
      assert (Hz : Forall (fun x => x = 0) (map snd slots)).
      { apply qsum_zero_all; [|assumption]. rewrite Forall_forall. intros x Hx. apply in_map_iff in Hx.
        destruct Hx as [s [<- Hs]]. apply Hnn. assumption. }
      apply qsum_all_zero. exact Hz.
  - intros s Hs. apply em_normalize_In in Hs. destruct Hs as [s0 [Hs0 [_ [_ [Heq|[Hp Heq]]]]]]; simpl T in *; rewrite Heq;
      [apply Hnn; assumption|].
    apply Qcdiv_nonneg; [apply Hnn; assumption | assumption].
  - intros s Hs Hp. apply em_normalize_In in Hs. destruct Hs as [s0 [Hs0 [Hf [Hz _]]]]. simpl T in *. rewrite Hf.
    apply Hidx; [assumption|]. intros E. apply Hz in E. rewrite E in Hp. apply (Qclt_not_le _ _ Hp). apply Qcle_refl.
Qed.

(* ---------- the unguarded flat-memory variant credits another row (D9) ---------- *)

Theorem em_update_flat_not_row_local :
  exists (post : list Qc) indices indptr (prior : list Qc) n (o : occurrence QcK) j,
    csr_row_ok indices indptr (fst o) /\
    ~ (nth (fst o) indptr 0 <= j < nth (fst o + 1) indptr 0)%nat /\
    nth j (@em_update_flat QcK post indices indptr prior n o) 0 <> nth j post 0.
Proof.
  exists [0; 0; 0], [0; 1; 2]%nat, [0; 2; 3]%nat, [qc 1 2; qc 1 2; qc 1 1], 3%nat, (0%nat, [([2%nat], [qc 1 1])]), 2%nat.
  split; [unfold csr_row_ok; simpl; lia|]. split; [simpl; lia|]. vm_compute. discriminate.
Qed.

(* ---------- the step, pointwise ---------- *)

(* linear look-up of a column in the row (the specification of what searchsorted + equality test compute) *)
Fixpoint find_index (l : list nat) (x : nat) : option nat :=
  match l with
  | [] => None
  | y :: t => if Nat.eqb y x then Some 0%nat else option_map S (find_index t x)
  end.

Lemma find_index_Some : forall l x k, find_index l x = Some k -> (k < length l)%nat /\ nth k l 0%nat = x.
Proof.
  induction l; intros x k H; simpl in H; [discriminate|].
  destruct (Nat.eqb_spec a x).
  - inversion H; subst. simpl. split; [lia | reflexivity].
  - destruct (find_index l x) eqn:E; simpl in H; [|discriminate]. inversion H; subst.
    destruct (IHl x n0 E). simpl. split; [lia | assumption].
Qed.

Lemma find_index_None : forall l x, find_index l x = None -> forall k, (k < length l)%nat -> nth k l 0%nat <> x.
Proof.
  induction l; intros x H k Hk; simpl in *; [lia|].
  destruct (Nat.eqb_spec a x); [discriminate|].
  destruct (find_index l x) eqn:E; simpl in H; [discriminate|].
  destruct k; [assumption|]. apply IHl; [exact E | lia].
Qed.

(* E-step of one slot: kernel weight x current cell value of (own row, context column) if that cell exists, else 0 *)
Theorem em_slot_spec : forall indices (prior : list Qc) lo hi n w ctx (k : Qc),
  sorted_lt (slice lo hi indices) ->
  snd (@em_slot QcK true indices prior lo hi n w ctx k) =
    (if @gtb0 QcK k
     then match find_index (slice lo hi indices) (ctx + w * n) with
          | Some j => k * nth (lo + j) prior 0
          | None => 0
          end
     else 0) /\
  (forall j, @gtb0 QcK k = true -> find_index (slice lo hi indices) (ctx + w * n) = Some j ->
             fst (@em_slot QcK true indices prior lo hi n w ctx k) = j).
Proof.
  intros indices prior lo hi n w ctx k Hs. unfold em_slot.
  destruct (@gtb0 QcK k) eqn:Ek; [|split; [reflexivity | intros; discriminate]]. cbv zeta.
  set (col_ind := slice lo hi indices) in *. set (target := (ctx + w * n)%nat).
  destruct (find_index col_ind target) as [j|] eqn:Ef.
  - destruct (find_index_Some _ _ _ Ef) as [Hj Hn].
    assert (Hss : searchsorted col_ind target = j) by (rewrite <- Hn; apply searchsorted_found; assumption).
    rewrite Hss. destruct (Nat.ltb_spec j (length col_ind)); [|lia]. rewrite Hn, Nat.eqb_refl. simpl.
    split; [reflexivity | intros j' _ E; inversion E; reflexivity].
  - split; [|intros; discriminate].
    destruct ((searchsorted col_ind target <? length col_ind)%nat) eqn:E1; simpl; [|reflexivity].
    apply Nat.ltb_lt in E1. pose proof (find_index_None _ _ Ef _ E1) as Hne.
    destruct (Nat.eqb_spec (nth (searchsorted col_ind target) col_ind 0%nat) target); [contradiction | reflexivity].
Qed.

(* partial M-step: cell j receives exactly the positive normalised shares of the slots that point at it *)
Theorem em_write_nth : forall lo (slots : list (nat * Qc)) (post : list Qc) j, (j < length post)%nat ->
  nth j (@em_write QcK lo post slots) 0 =
  nth j post 0 + qsum (map (fun s : nat * Qc => if @gtb0 QcK (snd s) && Nat.eqb (lo + fst s) j then snd s else 0) slots).
Proof.
  intros lo slots. unfold em_write. induction slots as [|s slots IH]; intros post j Hj; cbn [map fold_left].
  - replace (qsum []) with 0 by reflexivity. simpl T. ring.
  - rewrite qsum_cons.
    match goal with |- context [fold_left _ _ (if ?c then _ else _)] => destruct c eqn:E end.
    + rewrite IH by (rewrite (add_at_length QcK); assumption).
      replace (@gtb0 QcK (snd s)) with true by (symmetry; exact E). cbn [andb].
      destruct (Nat.eqb_spec (lo + fst s) j) as [Heq|Hne].
      * subst j. rewrite (add_at_nth_same QcK) by assumption. cbn [add QcK]. change (T QcK) with Qc. ring.
      * rewrite (add_at_nth_other QcK) by (intros X; apply Hne; symmetry; exact X). change (T QcK) with Qc. ring.
    + rewrite IH by assumption.
      replace (@gtb0 QcK (snd s)) with false by (symmetry; exact E). cbn [andb]. change (T QcK) with Qc. ring.
Qed.

(* ---------- the posterior is additive over the occurrence list (chunks, and the multiset driver's per-document sum) ---------- *)

Definition em_run (indices indptr : list nat) (prior : list Qc) (n : nat) (post : list Qc) (occs : list (occurrence QcK)) : list Qc :=
  fold_left (fun post o => @em_update QcK post indices indptr prior n o) occs post.

Lemma em_update_length : forall (post : list Qc) indices indptr prior n o,
  length (@em_update QcK post indices indptr prior n o) = length post.
Proof. intros. unfold em_update, em_update_gen. apply (em_write_length QcK). Qed.

Lemma em_run_length : forall indices indptr prior n occs (post : list Qc),
  length (em_run indices indptr prior n post occs) = length post.
Proof.
  intros indices indptr prior n occs. unfold em_run. induction occs as [|o occs IH]; intros post; cbn [fold_left]; [reflexivity|].
  rewrite IH. apply em_update_length.
Qed.

Lemma nth_repeat_zero : forall n j, nth j (repeat (Q2Qc 0) n) 0 = 0.
Proof. induction n; intros j; destruct j; simpl; auto. Qed.

Lemma em_update_additive : forall (post : list Qc) indices indptr prior n o j, (j < length post)%nat ->
  nth j (@em_update QcK post indices indptr prior n o) 0 =
  nth j post 0 + nth j (@em_update QcK (repeat 0 (length post)) indices indptr prior n o) 0.
Proof.
  intros post indices indptr prior n o j Hj. unfold em_update, em_update_gen.
  rewrite !em_write_nth by (rewrite ?repeat_length; assumption). rewrite nth_repeat_zero. change (T QcK) with Qc. ring.
Qed.

Lemma em_run_additive : forall indices indptr prior n occs (post : list Qc) j, (j < length post)%nat ->
  nth j (em_run indices indptr prior n post occs) 0 =
  nth j post 0 + nth j (em_run indices indptr prior n (repeat 0 (length post)) occs) 0.
Proof.
  intros indices indptr prior n occs. induction occs as [|o occs IH]; intros post j Hj.
  - unfold em_run. cbn [fold_left]. rewrite nth_repeat_zero. change (T QcK) with Qc. ring.
  - unfold em_run in *. cbn [fold_left].
    rewrite IH by (rewrite em_update_length; assumption).
    rewrite (IH (@em_update QcK (repeat 0 (length post)) indices indptr prior n o)) by (rewrite em_update_length, repeat_length; assumption).
    rewrite !em_update_length, repeat_length. rewrite (em_update_additive post) by assumption. change (T QcK) with Qc. ring.
Qed.

Theorem em_iteration_app : forall indices indptr (prior : list Qc) n occsA occsB j, (j < length prior)%nat ->
  nth j (@em_iteration QcK indices indptr prior n (occsA ++ occsB)) 0 =
  nth j (@em_iteration QcK indices indptr prior n occsA) 0 + nth j (@em_iteration QcK indices indptr prior n occsB) 0.
Proof.
  intros indices indptr prior n occsA occsB j Hj. unfold em_iteration. rewrite fold_left_app.
  change (nth j (em_run indices indptr prior n (em_run indices indptr prior n (repeat 0 (length prior)) occsA) occsB) 0 =
          nth j (em_run indices indptr prior n (repeat 0 (length prior)) occsA) 0 +
          nth j (em_run indices indptr prior n (repeat 0 (length prior)) occsB) 0).
  rewrite em_run_additive by (rewrite em_run_length, repeat_length; assumption).
  rewrite em_run_length, repeat_length. reflexivity.
Qed.
