(* Proofs about Model/K5_History.v: a history of fits that share their parameter objects is, call by call, the
   function of (original configuration, corpus) of Model/K5_Vocab.v; the excluded collection matters only as a set. *)
From Coq Require Import ZArith List Bool Lia.
From VZ Require Import Model.K5_Vocab Model.K5_History Proofs.K5_Vocab_proofs.
Import ListNotations.
Open Scope Z_scope.

Section HistoryProofs.
Variable T : Type.
Variable eqb ltb : T -> T -> bool.
Variable matches : T -> bool.
Variables f32div f64div : Z -> Z -> Z.
Variable f64to32 : Z -> Z.
Variable one64 : Z.

Notation learn_vocab := (learn_vocab T eqb ltb matches f32div f64div f64to32 one64).
Notation learn_gen := (learn_gen T eqb ltb matches f32div f64div f64to32 one64).
Notation fit_step := (fit_step T eqb ltb matches f32div f64div f64to32 one64).
Notation fit_history := (fit_history T).

Lemma excluded_unchanged : forall c docs, fst (fit_step c docs) = c.
Proof. reflexivity. Qed.

Lemma history_pointwise : forall corpora c i docs,
  nth_error corpora i = Some docs ->
  nth_error (fit_history fit_step c corpora) i = Some (learn_vocab c docs None).
Proof.
  induction corpora as [|d0 rest IH]; intros c i docs H.
  - destruct i; discriminate.
  - destruct i as [|i]; simpl in *.
    + inversion H; subst. reflexivity.
    + apply IH. exact H.
Qed.

Lemma history_length : forall corpora c, length (fit_history fit_step c corpora) = length corpora.
Proof. induction corpora as [|d0 rest IH]; intro c; simpl; [reflexivity | rewrite IH; reflexivity]. Qed.

Hypothesis eqb_eq : forall a b, eqb a b = true <-> a = b.

Lemma mem_ext : forall ig1 ig2, (forall t, In t ig1 <-> In t ig2) -> forall t, mem T eqb t ig1 = mem T eqb t ig2.
Proof.
  intros ig1 ig2 H t.
  destruct (mem T eqb t ig1) eqn:E1; destruct (mem T eqb t ig2) eqn:E2; try reflexivity.
  - apply (mem_In T eqb eqb_eq) in E1. apply H in E1. apply (mem_In T eqb eqb_eq) in E1. congruence.
  - apply (mem_In T eqb eqb_eq) in E2. apply H in E2. apply (mem_In T eqb eqb_eq) in E2. congruence.
Qed.

Lemma prune_excluded_ext : forall c ig1 ig2 d tf df n nd, (forall t, In t ig1 <-> In t ig2) ->
  prune T eqb matches f64div f64to32 one64 (set_ignored c ig1) d tf df n nd
  = prune T eqb matches f64div f64to32 one64 (set_ignored c ig2) d tf df n nd.
Proof.
  intros c ig1 ig2 d tf df n nd H. unfold prune. simpl.
  destruct (resolve_min f64div (min_occ c) (min_freq c) n) as [lo|e]; [|reflexivity]. simpl.
  destruct (resolve_max f64div one64 (max_occ c) (max_freq c) n) as [hi|e]; [|reflexivity]. simpl.
  destruct (resolve_min f64div (min_dococc c) (min_docfreq c) nd) as [dlo|e]; [|reflexivity]. simpl.
  destruct (resolve_max f64div one64 (max_dococc c) (max_docfreq c) nd) as [dhi|e]; [|reflexivity]. simpl.
  rewrite (filter_ext _ (fun e : T * nat => negb (mem T eqb (fst e) ig2
      || out_of_bounds tf (f64to32 lo) (f64to32 hi) (snd e) || out_of_bounds df dlo dhi (snd e)
      || (use_regex c && matches (fst e))))).
  - reflexivity.
  - intro e. rewrite (mem_ext ig1 ig2 H). reflexivity.
Qed.

Lemma learn_excluded_ext : forall c need ig1 ig2 docs d0, (forall t, In t ig1 <-> In t ig2) ->
  learn_gen need (set_ignored c ig1) docs d0 = learn_gen need (set_ignored c ig2) docs d0.
Proof.
  intros c need ig1 ig2 docs d0 H. unfold K5_Vocab.learn_gen.
  destruct (construct T eqb ltb f32div (concat docs) d0) as [[d_ tf] n].
  destruct d0 as [d|]; [reflexivity|].
  apply prune_excluded_ext. exact H.
Qed.

End HistoryProofs.
