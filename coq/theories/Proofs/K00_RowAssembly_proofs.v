From Coq Require Import ZArith List Lia.
Import ListNotations.

From VZ Require Import Model.K00_RowAssembly.

Section AssemblyProofs.
Variables (item model : Type).
Variable row : model -> item -> list (nat * nat).
Variable width : model -> nat.
Notation transform := (transform item model row width).
Notation wf := (wf item model row width).

Lemma transform_shape M X :
  let '(nr, nc, rows) := transform M X in nr = length X /\ nc = width M /\ length rows = length X.
Proof. cbn. rewrite map_length. auto. Qed.

Lemma transform_cols_in_range M X : wf M ->
  let '(_, nc, rows) := transform M X in Forall (Forall (fun e => fst e < nc)) rows.
Proof. intros H. cbn. apply Forall_forall. intros r Hr. apply in_map_iff in Hr. destruct Hr as [x [<- _]]. apply H. Qed.

Lemma transform_row_i M X i d : i < length X ->
  let '(_, _, rows) := transform M X in nth i rows [] = row M (nth i X d).
Proof.
  intros Hi. cbn. rewrite nth_indep with (d' := row M d) by (rewrite map_length; exact Hi). apply map_nth.
Qed.
End AssemblyProofs.
