From Coq Require Import ZArith List Bool Lia Arith.
From VZ Require Import Model.K8_BPE.
Import ListNotations.
Open Scope Z_scope.
Local Arguments firstn : simpl never.

(* ================================================================== monad helpers *)
Lemma bind_ok {A B} (r : res A) (f : A -> res B) b :
  bind r f = Ok b -> exists a, r = Ok a /\ f a = Ok b.
Proof. destruct r; simpl; intros H; [eauto | discriminate]. Qed.

Lemma mapM_ok_map {A B} (f : A -> res B) (g : A -> B) l :
  (forall x, In x l -> f x = Ok (g x)) -> mapM f l = Ok (map g l).
Proof.
  induction l as [|x t IH]; simpl; intros H; [reflexivity|].
  rewrite H by auto. simpl. rewrite IH by auto. reflexivity.
Qed.

Lemma mapM_ok_inv {A B} (f : A -> res B) l ys :
  mapM f l = Ok ys -> Forall2 (fun x y => f x = Ok y) l ys.
Proof.
  revert ys; induction l as [|x t IH]; simpl; intros ys H.
  - inversion H; constructor.
  - apply bind_ok in H as (y & Hy & H). apply bind_ok in H as (ys' & Hys & H).
    inversion H; subst. constructor; auto.
Qed.

(* ================================================================== checked arrays *)
Lemma aset_app_zero (out rest : list Z) v z :
  aset (out ++ z :: rest) (length out) v = Some (out ++ v :: rest).
Proof. induction out as [|x t IH]; simpl; [reflexivity | rewrite IH; reflexivity]. Qed.

Lemma firstn_app_exact {A} (l r : list A) : firstn (length l) (l ++ r) = l.
Proof. rewrite firstn_app, Nat.sub_diag, firstn_all; simpl; apply app_nil_r. Qed.

(* ================================================================== the array loop refines [contract] *)
(* what remains to be produced when the loop stands at the head of [suf] *)
Definition rest_spec (a b c : Z) (skip : bool) (suf : list Z) : list Z :=
  if skip then contract a b c (tl suf) else contract a b c suf.

Definition tail_step (cl : list Z) (st : bool * list Z * nat) : res (list Z) :=
  let '(skip, buf, k) := st in
  let n := length cl in
  if negb skip && (0 <? n)%nat then
    match aget cl (n - 1) with
    | None => Err 5
    | Some x => match aset buf k x with
                | None => Err 6
                | Some buf' => Ok (firstn (S k) buf')
                end
    end
  else Ok (firstn k buf).

Lemma contract_pair_arr_unfold cl a b c :
  contract_pair_arr cl a b c =
  bind (contract_loop cl a b c (length cl - 1) 0 false (repeat 0 (length cl)) 0) (tail_step cl).
Proof.
  unfold contract_pair_arr, tail_step.
  destruct (contract_loop cl a b c (length cl - 1) 0 false (repeat 0 (length cl)) 0) as [[[skip buf] k]|]; reflexivity.
Qed.

Lemma list_ind2 {A} (P : list A -> Prop) :
  P [] -> (forall x, P [x]) -> (forall x y t, P t -> P (y :: t) -> P (x :: y :: t)) -> forall l, P l.
Proof.
  intros H0 H1 H2.
  assert (H : forall l, P l /\ forall x, P (x :: l)).
  { induction l as [|y t [IHa IHb]]; split; auto. }
  intros l; apply H.
Qed.

Lemma contract_cons2 a b c x y t :
  contract a b c (x :: y :: t) =
  if (x =? a) && (y =? b) then c :: contract a b c t else x :: contract a b c (y :: t).
Proof. reflexivity. Qed.

Lemma contract_length a b c l : (length (contract a b c l) <= length l)%nat.
Proof.
  induction l as [|x|x y t IH1 IH2] using list_ind2; try (simpl; lia).
  rewrite contract_cons2. destruct ((x =? a) && (y =? b)); simpl length in *; lia.
Qed.

Lemma nth_error_app_here {A} (pre : list A) x suf : nth_error (pre ++ x :: suf) (length pre) = Some x.
Proof. rewrite nth_error_app2 by lia. rewrite Nat.sub_diag. reflexivity. Qed.

Lemma contract_loop_S cl a b c steps i skip buf k :
  contract_loop cl a b c (S steps) i skip buf k =
  if skip then contract_loop cl a b c steps (S i) false buf k
  else match aget cl i with
       | None => Err 1
       | Some x =>
           let hit := if x =? a
                      then match aget cl (S i) with Some y => Some (y =? b) | None => None end
                      else Some false in
           match hit with
           | None => Err 2
           | Some true => match aset buf k c with
                          | None => Err 3
                          | Some buf' => contract_loop cl a b c steps (S i) true buf' (S k)
                          end
           | Some false => match aset buf k x with
                           | None => Err 4
                           | Some buf' => contract_loop cl a b c steps (S i) false buf' (S k)
                           end
           end
       end.
Proof. reflexivity. Qed.

Lemma snoc_zero (out : list Z) v m : out ++ v :: repeat 0 m = (out ++ [v]) ++ repeat 0 m.
Proof. rewrite <- app_assoc. reflexivity. Qed.

Lemma length_snoc {A} (l : list A) v : length (l ++ [v]) = S (length l).
Proof. rewrite app_length; simpl; lia. Qed.

Lemma loop_refines cl a b c :
  forall steps pre suf skip out m,
    cl = pre ++ suf -> length suf = S steps ->
    (length suf <= m)%nat ->
    bind (contract_loop cl a b c steps (length pre) skip (out ++ repeat 0 m) (length out)) (tail_step cl)
    = Ok (out ++ rest_spec a b c skip suf).
Proof.
  induction steps as [|steps IH]; intros pre suf skip out m Hcl Hlen Hm.
  - (* last element: only the tail copy remains *)
    destruct suf as [|x [|? ?]]; simpl in Hlen; try lia.
    assert (Hn : length cl = S (length pre)) by (subst cl; rewrite app_length; simpl; lia).
    cbn [contract_loop bind]. unfold tail_step, rest_spec. rewrite Hn.
    destruct skip; cbn [negb andb].
    + rewrite firstn_app_exact. cbn [tl]. simpl contract. rewrite app_nil_r. reflexivity.
    + replace (0 <? S (length pre))%nat with true by reflexivity.
      replace (S (length pre) - 1)%nat with (length pre) by lia.
      unfold aget. subst cl. rewrite nth_error_app_here.
      destruct m as [|m]; [simpl in Hm; lia|]. cbn [repeat].
      rewrite aset_app_zero, snoc_zero, <- (length_snoc out x), firstn_app_exact. reflexivity.
  - destruct suf as [|x suf']; [simpl in Hlen; lia|].
    assert (Hlen' : length suf' = S steps) by (simpl in Hlen; lia).
    assert (Hcl' : cl = (pre ++ [x]) ++ suf') by (rewrite <- app_assoc; exact Hcl).
    pose proof (length_snoc pre x) as Hpre'.
    rewrite contract_loop_S. destruct skip.
    + (* the second element of a contracted pair is skipped *)
      rewrite <- Hpre'. rewrite (IH (pre ++ [x]) suf' false out m Hcl' Hlen') by (simpl in Hm; lia).
      reflexivity.
    + assert (Hx : aget cl (length pre) = Some x) by (unfold aget; rewrite Hcl; apply nth_error_app_here).
      rewrite Hx. cbv zeta.
      destruct suf' as [|y t]; [simpl in Hlen'; lia|].
      destruct m as [|m]; [simpl in Hm; lia|]. cbn [repeat].
      assert (Hy : aget cl (S (length pre)) = Some y).
      { unfold aget. rewrite Hcl'. rewrite <- Hpre'. apply nth_error_app_here. }
      assert (Hm' : (length (y :: t) <= m)%nat) by (simpl in Hm |- *; lia).
      unfold rest_spec. rewrite contract_cons2.
      destruct (x =? a) eqn:Hxa; cbn [andb].
      * rewrite Hy. destruct (y =? b) eqn:Hyb.
        -- rewrite aset_app_zero, snoc_zero, <- (length_snoc out c), <- Hpre'.
           rewrite (IH (pre ++ [x]) (y :: t) true (out ++ [c]) m Hcl' Hlen' Hm').
           unfold rest_spec. cbn [tl]. rewrite <- app_assoc. reflexivity.
        -- rewrite aset_app_zero, snoc_zero, <- (length_snoc out x), <- Hpre'.
           rewrite (IH (pre ++ [x]) (y :: t) false (out ++ [x]) m Hcl' Hlen' Hm').
           unfold rest_spec. rewrite <- app_assoc. reflexivity.
      * rewrite aset_app_zero, snoc_zero, <- (length_snoc out x), <- Hpre'.
        rewrite (IH (pre ++ [x]) (y :: t) false (out ++ [x]) m Hcl' Hlen' Hm').
        unfold rest_spec. rewrite <- app_assoc. reflexivity.
Qed.

(* the compiled loop never leaves its arrays and computes the greedy left-to-right contraction *)
Theorem contract_pair_refines cl a b c : contract_pair_arr cl a b c = Ok (contract a b c cl).
Proof.
  rewrite contract_pair_arr_unfold.
  destruct cl as [|x t]; [reflexivity|].
  pose proof (loop_refines (x :: t) a b c (length t) [] (x :: t) false [] (length (x :: t)) eq_refl eq_refl (le_n _)) as H.
  replace (length (x :: t) - 1)%nat with (length t) by (simpl; lia). exact H.
Qed.

Lemma contract_all_ok p c enc : contract_all p c enc = Ok (map (contract (fst p) (snd p) c) enc).
Proof. unfold contract_all. apply mapM_ok_map. intros; apply contract_pair_refines. Qed.

Lemma apply_merges_ok ms : forall code l, apply_merges ms code l = Ok (encode_from ms code l).
Proof.
  induction ms as [|[a b] ms IH]; intros code l; simpl; [reflexivity|].
  rewrite contract_pair_refines. simpl. apply IH.
Qed.

Theorem bpe_encode_ok ms mcc s : bpe_encode ms mcc s = Ok (encode ms mcc s).
Proof. apply apply_merges_ok. Qed.

(* ================================================================== decoding *)
Lemma contract_expand tokens mcc a b c l :
  expand tokens mcc c = expand tokens mcc a ++ expand tokens mcc b ->
  flat_map (expand tokens mcc) (contract a b c l) = flat_map (expand tokens mcc) l.
Proof.
  intros Hc. induction l as [|x|x y t IH1 IH2] using list_ind2; try reflexivity.
  rewrite contract_cons2. destruct ((x =? a) && (y =? b)) eqn:E.
  - apply andb_true_iff in E as [Ex Ey]. apply Z.eqb_eq in Ex, Ey. subst x y.
    simpl. rewrite Hc, <- app_assoc. rewrite IH1. reflexivity.
  - change (flat_map (expand tokens mcc) (x :: contract a b c (y :: t))) with
        (expand tokens mcc x ++ flat_map (expand tokens mcc) (contract a b c (y :: t))).
    rewrite IH2. reflexivity.
Qed.

Lemma wf_code_mono mcc k k' c : (k <= k')%nat -> wf_code mcc k c -> wf_code mcc k' c.
Proof. unfold wf_code; intros Hk [H|H]; [left; exact H | right; lia]. Qed.

Lemma In_contract a b c l z : In z (contract a b c l) -> z = c \/ In z l.
Proof.
  induction l as [|x|x y t IH1 IH2] using list_ind2; [simpl; auto | simpl; auto |].
  rewrite contract_cons2. destruct ((x =? a) && (y =? b)); intros [H|H]; subst; auto.
  - apply IH1 in H. destruct H; [auto | right; right; right; exact H].
  - right; left; reflexivity.
  - apply IH2 in H. destruct H; [auto | right; right; exact H].
Qed.

Lemma contract_wf mcc k a b l :
  Forall (wf_code mcc k) l -> Forall (wf_code mcc (S k)) (contract a b (mcc + 1 + Z.of_nat k) l).
Proof.
  intros H. apply Forall_forall. intros x Hx. apply In_contract in Hx as [Hx|Hx].
  - right. lia.
  - eapply wf_code_mono; [|eapply Forall_forall; eauto]. lia.
Qed.

(* to_unicode succeeds on a well-formed code and agrees with [expand] *)
Lemma to_unicode_wf tokens mcc c :
  wf_code mcc (length tokens) c -> to_unicode tokens mcc c = Ok (expand tokens mcc c).
Proof.
  unfold wf_code, is_char, to_unicode, expand, is_codepoint. intros [[H1 H2]|H].
  - destruct (c <=? mcc) eqn:E; [|apply Z.leb_gt in E; lia].
    replace (0 <=? c) with true by (symmetry; apply Z.leb_le; lia).
    replace (c <=? MAXCP) with true by (symmetry; apply Z.leb_le; lia). reflexivity.
  - destruct (c <=? mcc) eqn:E; [apply Z.leb_le in E; lia|].
    destruct (nth_error tokens (Z.to_nat (c - mcc - 1))) eqn:En.
    + erewrite nth_error_nth; eauto.
    + apply nth_error_None in En. lia.
Qed.

Lemma expand_app_l tokens extra mcc c :
  wf_code mcc (length tokens) c -> expand (tokens ++ extra) mcc c = expand tokens mcc c.
Proof.
  unfold wf_code, is_char, expand. intros H. destruct (c <=? mcc) eqn:E; [reflexivity|].
  apply Z.leb_gt in E. rewrite app_nth1; [reflexivity|]. lia.
Qed.

(* ---------- the token table built from a well-formed merge list ---------- *)
(* invariant of build_tokens_from: entry j of the table is the concatenation of the readings of pair j *)
Definition tokens_ok (mcc : Z) (ms : list (Z * Z)) (tokens : list (list Z)) : Prop :=
  length tokens = length ms /\
  forall i a b, nth_error ms i = Some (a, b) ->
    nth i tokens [] = expand tokens mcc a ++ expand tokens mcc b.

Lemma build_tokens_from_ok mcc : forall ms2 ms1 toks,
  wf_merges mcc (ms1 ++ ms2) -> tokens_ok mcc ms1 toks ->
  exists toks', build_tokens_from mcc toks ms2 = Ok toks' /\ tokens_ok mcc (ms1 ++ ms2) toks'.
Proof.
  induction ms2 as [|[a b] ms2 IH]; intros ms1 toks Hwf Hok.
  - exists toks. rewrite app_nil_r. split; [reflexivity | exact Hok].
  - destruct Hok as [Hlen Hnth]. destruct Hwf as [Hm Hwf].
    assert (Hab : wf_code mcc (length toks) a /\ wf_code mcc (length toks) b).
    { rewrite Hlen. apply Hwf. rewrite nth_error_app2 by lia. rewrite Nat.sub_diag. reflexivity. }
    destruct Hab as [Ha Hb].
    simpl build_tokens_from. unfold pair_to_string. simpl fst; simpl snd.
    rewrite (to_unicode_wf _ _ _ Ha), (to_unicode_wf _ _ _ Hb). simpl bind.
    replace (ms1 ++ (a, b) :: ms2) with ((ms1 ++ [(a, b)]) ++ ms2) in * by (rewrite <- app_assoc; reflexivity).
    apply IH; [split; assumption|].
    split; [rewrite !app_length; simpl; lia|].
    intros i a' b' Hi.
    destruct (Nat.lt_ge_cases i (length ms1)) as [Hlt|Hge].
    + rewrite nth_error_app1 in Hi by lia.
      assert (Hw : wf_code mcc i a' /\ wf_code mcc i b').
      { apply Hwf. rewrite nth_error_app1 by (rewrite app_length; simpl; lia). rewrite nth_error_app1 by lia. exact Hi. }
      destruct Hw as [Hwa Hwb].
      rewrite app_nth1 by lia. rewrite (Hnth _ _ _ Hi).
      rewrite !expand_app_l; [reflexivity | |]; (eapply wf_code_mono; [|eassumption]; lia).
    + rewrite nth_error_app2 in Hi by lia.
      destruct (i - length ms1)%nat as [|j] eqn:Ej; simpl in Hi; [|destruct j; discriminate].
      inversion Hi; subst a' b'.
      assert (i = length toks) by lia. subst i.
      rewrite app_nth2 by lia. rewrite Nat.sub_diag. simpl nth.
      rewrite !expand_app_l by assumption. reflexivity.
Qed.

Lemma build_tokens_ok mcc ms :
  wf_merges mcc ms -> exists toks, build_tokens mcc ms = Ok toks /\ tokens_ok mcc ms toks.
Proof.
  intros Hwf. apply (build_tokens_from_ok mcc ms [] []); [exact Hwf|].
  split; [reflexivity|]. intros i a b Hi. destruct i; discriminate.
Qed.

(* ---------- replaying the merges preserves the reading ---------- *)
Lemma encode_from_expand mcc toks : forall ms2 ms1 l,
  wf_merges mcc (ms1 ++ ms2) -> tokens_ok mcc (ms1 ++ ms2) toks ->
  flat_map (expand toks mcc) (encode_from ms2 (mcc + 1 + Z.of_nat (length ms1)) l) = flat_map (expand toks mcc) l.
Proof.
  induction ms2 as [|[a b] ms2 IH]; intros ms1 l Hwf Hok; [reflexivity|].
  simpl encode_from.
  replace (mcc + 1 + Z.of_nat (length ms1) + 1) with (mcc + 1 + Z.of_nat (length (ms1 ++ [(a, b)])))
    by (rewrite app_length; simpl; lia).
  replace (ms1 ++ (a, b) :: ms2) with ((ms1 ++ [(a, b)]) ++ ms2) in * by (rewrite <- app_assoc; reflexivity).
  rewrite IH by assumption.
  apply contract_expand.
  destruct Hok as [Hlen Hnth].
  assert (Hi : nth_error ((ms1 ++ [(a, b)]) ++ ms2) (length ms1) = Some (a, b)).
  { rewrite nth_error_app1 by (rewrite app_length; simpl; lia). rewrite nth_error_app2 by lia.
    rewrite Nat.sub_diag. reflexivity. }
  rewrite <- (Hnth _ _ _ Hi).
  unfold expand at 1. destruct Hwf as [Hm _].
  destruct (mcc + 1 + Z.of_nat (length ms1) <=? mcc) eqn:E; [apply Z.leb_le in E; lia|].
  f_equal. lia.
Qed.

Lemma encode_from_wf mcc : forall ms2 ms1 l,
  Forall (wf_code mcc (length ms1)) l ->
  Forall (wf_code mcc (length (ms1 ++ ms2))) (encode_from ms2 (mcc + 1 + Z.of_nat (length ms1)) l).
Proof.
  induction ms2 as [|[a b] ms2 IH]; intros ms1 l Hl.
  - rewrite app_nil_r. exact Hl.
  - simpl encode_from.
    replace (mcc + 1 + Z.of_nat (length ms1) + 1) with (mcc + 1 + Z.of_nat (length (ms1 ++ [(a, b)])))
      by (rewrite app_length; simpl; lia).
    replace (ms1 ++ (a, b) :: ms2) with ((ms1 ++ [(a, b)]) ++ ms2) by (rewrite <- app_assoc; reflexivity).
    apply IH. replace (length (ms1 ++ [(a, b)])) with (S (length ms1)) by (rewrite app_length; simpl; lia).
    apply contract_wf. exact Hl.
Qed.

Lemma clamp_is_char mcc c : 0 <= mcc -> 0 <= c <= MAXCP -> is_char mcc (clamp mcc c).
Proof.
  unfold is_char, clamp, MAXCP. intros Hm Hc. destruct (c <=? mcc) eqn:E.
  - apply Z.leb_le in E. lia.
  - lia.
Qed.

Lemma flat_map_expand_chars toks mcc l :
  Forall (is_char mcc) l -> flat_map (expand toks mcc) l = l.
Proof.
  induction 1 as [|x t Hx Ht IH]; [reflexivity|]. simpl. rewrite IH.
  unfold expand. destruct Hx as [Hx _]. destruct (x <=? mcc) eqn:E; [reflexivity | apply Z.leb_gt in E; lia].
Qed.

Lemma tokens_row_ok toks mcc codes :
  Forall (wf_code mcc (length toks)) codes ->
  tokens_row toks mcc codes = Ok (map (expand toks mcc) codes).
Proof.
  intros H. unfold tokens_row. apply mapM_ok_map. intros x Hx. apply to_unicode_wf.
  eapply Forall_forall; eauto.
Qed.

Lemma bpe_decode_ok toks mcc codes :
  Forall (wf_code mcc (length toks)) codes ->
  bpe_decode toks mcc codes = Ok (flat_map (expand toks mcc) codes).
Proof.
  intros H. unfold bpe_decode. rewrite tokens_row_ok by assumption. simpl. rewrite flat_map_concat_map. reflexivity.
Qed.

Lemma encode_wf mcc ms s :
  wf_merges mcc ms -> codepoints s -> Forall (wf_code mcc (length ms)) (encode ms mcc s).
Proof.
  intros [Hm _] Hs. unfold encode.
  pose proof (encode_from_wf mcc ms [] (map (clamp mcc) s)) as H. simpl in H.
  replace (mcc + 1 + 0) with (mcc + 1) in H by lia. apply H.
  apply Forall_forall. intros x Hx. apply in_map_iff in Hx as (c & <- & Hc).
  left. apply clamp_is_char; [assumption|]. eapply Forall_forall in Hs; eauto.
Qed.

Lemma encode_expand mcc ms toks s :
  wf_merges mcc ms -> tokens_ok mcc ms toks -> codepoints s ->
  flat_map (expand toks mcc) (encode ms mcc s) = map (clamp mcc) s.
Proof.
  intros Hwf Hok Hs. unfold encode.
  pose proof (encode_from_expand mcc toks ms [] (map (clamp mcc) s) Hwf Hok) as H. simpl in H.
  replace (mcc + 1 + 0) with (mcc + 1) in H by lia. rewrite H.
  apply flat_map_expand_chars. apply Forall_forall. intros x Hx. apply in_map_iff in Hx as (c & <- & Hc).
  destruct Hwf as [Hm _]. apply clamp_is_char; [assumption|]. eapply Forall_forall in Hs; eauto.
Qed.

(* LOSSLESS: for every well-formed merge list and every string *)
Theorem lossless ms mcc s :
  wf_merges mcc ms -> codepoints s ->
  exists toks e, build_tokens mcc ms = Ok toks /\ bpe_encode ms mcc s = Ok e /\
                 bpe_decode toks mcc e = Ok (map (clamp mcc) s).
Proof.
  intros Hwf Hs. destruct (build_tokens_ok mcc ms Hwf) as (toks & Hb & Hok).
  exists toks, (encode ms mcc s). split; [exact Hb|]. split; [apply bpe_encode_ok|].
  rewrite bpe_decode_ok.
  - f_equal. apply encode_expand; assumption.
  - destruct Hok as [Hlen _]. rewrite Hlen. apply encode_wf; assumption.
Qed.
