From Coq Require Import ZArith List Bool Lia Arith.
From VZ Require Import Model.K9_LZ.
Import ListNotations.
Open Scope Z_scope.

Lemma list_eqb_spec a : forall b, list_eqb a b = true <-> a = b.
Proof.
  induction a as [|x a IH]; intros [|y b]; simpl; split; intros H; try reflexivity; try discriminate.
  - apply andb_true_iff in H as [H1 H2]. apply Z.eqb_eq in H1. apply IH in H2. subst; reflexivity.
  - inversion H; subst. rewrite Z.eqb_refl. simpl. apply IH. reflexivity.
Qed.

Lemma slice_pre {A} (pre rest : list A) start :
  (start <= length pre)%nat -> slice (pre ++ rest) start (length pre) = skipn start pre.
Proof.
  intros H. unfold slice. rewrite skipn_app. replace (start - length pre)%nat with 0%nat by lia. simpl skipn.
  rewrite firstn_app. rewrite skipn_length.
  replace (length pre - start - (length pre - start))%nat with 0%nat by lia. simpl. rewrite app_nil_r.
  apply firstn_all2. rewrite skipn_length. lia.
Qed.

Lemma NoDup_app_snoc {A} (l : list A) x : NoDup l -> ~ In x l -> NoDup (l ++ [x]).
Proof.
  induction 1 as [|y t Hy Ht IH]; simpl; intros Hx; [repeat constructor; auto|].
  constructor.
  - rewrite in_app_iff. simpl. intros [H|[H|[]]]; [auto | subst; apply Hx; auto].
  - apply IH. intros H; apply Hx; auto.
Qed.

Section Generic.
  Variable K : Type.
  Variable keqb : K -> K -> bool.
  Hypothesis keqb_spec : forall a b, keqb a b = true <-> a = b.
  Variable h : list Z -> K.
  Notation dict := (list (K * Z)).

  Lemma keqb_refl k : keqb k k = true.
  Proof. apply keqb_spec. reflexivity. Qed.

  (* ================================================================ the index loop is the character-level parse *)
  Lemma fold_is_spec cap : forall rest pre start d size drops,
    (start <= length pre)%nat ->
    fst (fst (fold_left (lz_step keqb h (pre ++ rest) cap) (seq (length pre) (length rest)) (d, size, start)))
    = fst (lz_spec keqb h rest (skipn start pre) d size cap drops).
  Proof.
    induction rest as [|c rest IH]; intros pre start d size drops Hs; [reflexivity|].
    simpl length. simpl seq. simpl fold_left. simpl lz_spec.
    rewrite (slice_pre pre (c :: rest) start Hs).
    assert (Hassoc : pre ++ c :: rest = (pre ++ [c]) ++ rest) by (rewrite <- app_assoc; reflexivity).
    assert (Hlen : S (length pre) = length (pre ++ [c])) by (rewrite app_length; simpl; lia).
    assert (Hle : (length pre <= length (pre ++ [c]))%nat) by lia.
    assert (Hle' : (start <= length (pre ++ [c]))%nat) by lia.
    rewrite Hassoc, Hlen.
    destruct (dget keqb d (h (skipn start pre))) as [v|].
    - rewrite (IH (pre ++ [c]) start _ size drops Hle').
      rewrite skipn_app. replace (start - length pre)%nat with 0%nat by lia. reflexivity.
    - destruct (cap <=? size).
      + rewrite (IH (pre ++ [c]) (length pre) d size (drops + 1) Hle).
        rewrite skipn_app, skipn_all, Nat.sub_diag. reflexivity.
      + rewrite (IH (pre ++ [c]) (length pre) _ (size + 1) drops Hle).
        rewrite skipn_app, skipn_all, Nat.sub_diag. reflexivity.
  Qed.

  Theorem lz_encode_spec s d cap :
    lz_encode keqb h s d cap = fst (lz_spec keqb h s [] d (Z.of_nat (length d)) cap 0).
  Proof.
    unfold lz_encode. pose proof (fold_is_spec cap s [] 0%nat d (Z.of_nat (length d)) 0 (le_n _)) as H.
    simpl in H. exact H.
  Qed.

  (* ================================================================ dictionary algebra *)
  Lemma total_app (d1 d2 : dict) : total (d1 ++ d2) = total d1 + total d2.
  Proof. unfold total. induction d1 as [|[k v] t IH]; simpl in *; [reflexivity | rewrite IH; lia]. Qed.

  Lemma total_dincr (d : dict) k v : dget keqb d k = Some v -> total (dincr keqb d k) = total d + 1.
  Proof.
    unfold total. revert v. induction d as [|[k' v'] t IH]; simpl; intros v H; [discriminate|].
    destruct (keqb k k'); simpl; [lia|]. rewrite (IH v H). lia.
  Qed.

  Lemma length_dincr (d : dict) k : length (dincr keqb d k) = length d.
  Proof. induction d as [|[k' v'] t IH]; simpl; [reflexivity|]. destruct (keqb k k'); simpl; congruence. Qed.

  Lemma keys_dincr (d : dict) k : keys (dincr keqb d k) = keys d.
  Proof. unfold keys. induction d as [|[k' v'] t IH]; simpl; [reflexivity|]. destruct (keqb k k'); simpl; congruence. Qed.

  Lemma dget_None_notin (d : dict) k : dget keqb d k = None <-> ~ In k (keys d).
  Proof.
    unfold keys. induction d as [|[k' v'] t IH]; simpl; [tauto|].
    destruct (keqb k k') eqn:E.
    - apply keqb_spec in E. subst. split; [discriminate | intros H; exfalso; apply H; auto].
    - rewrite IH. split; [intros H [H1|H1]; [subst; rewrite keqb_refl in E; discriminate | tauto] | tauto].
  Qed.

  Lemma dget_app_l (d ext : dict) k v : dget keqb d k = Some v -> dget keqb (d ++ ext) k = Some v.
  Proof. induction d as [|[k' v'] t IH]; simpl; [discriminate|]. destruct (keqb k k'); auto. Qed.

  Lemma dget_app_new (d : dict) k v : dget keqb d k = None -> dget keqb (d ++ [(k, v)]) k = Some v.
  Proof.
    induction d as [|[k' v'] t IH]; simpl; intros H; [rewrite keqb_refl; reflexivity|].
    destruct (keqb k k'); [discriminate | auto].
  Qed.

  (* ================================================================ row total *)
  Theorem lz_spec_total : forall rest cur d size cap drops,
    let r := lz_spec keqb h rest cur d size cap drops in
    total (fst r) + (snd r - drops) = total d + Z.of_nat (length rest).
  Proof.
    induction rest as [|c rest IH]; intros cur d size cap drops; simpl; [lia|].
    destruct (dget keqb d (h cur)) as [v|] eqn:E.
    - specialize (IH (cur ++ [c]) (dincr keqb d (h cur)) size cap drops). simpl in IH.
      rewrite (total_dincr d _ v E) in IH. lia.
    - destruct (cap <=? size).
      + specialize (IH [c] d size cap (drops + 1)). simpl in IH. lia.
      + specialize (IH [c] (d ++ [(h cur, 1)]) (size + 1) cap drops). simpl in IH.
        rewrite total_app in IH. replace (total [(h cur, 1)]) with 1 in IH by reflexivity. lia.
  Qed.

  (* the cap is reached only if the final dictionary has at least cap entries *)
  Lemma lz_spec_drops : forall rest cur d size cap drops,
    size = Z.of_nat (length d) ->
    let r := lz_spec keqb h rest cur d size cap drops in
    (length d <= length (fst r))%nat /\ drops <= snd r /\ (snd r <> drops -> cap <= Z.of_nat (length (fst r))).
  Proof.
    induction rest as [|c rest IH]; intros cur d size cap drops Hsize; simpl; [repeat split; lia|].
    destruct (dget keqb d (h cur)) as [v|].
    - specialize (IH (cur ++ [c]) (dincr keqb d (h cur)) size cap drops). rewrite length_dincr in IH.
      apply IH. exact Hsize.
    - destruct (cap <=? size) eqn:Ecap.
      + destruct (IH [c] d size cap (drops + 1) Hsize) as (H1 & H2 & H3). simpl in *.
        apply Z.leb_le in Ecap. repeat split; try lia.
      + destruct (IH [c] (d ++ [(h cur, 1)]) (size + 1) cap drops) as (H1 & H2 & H3).
        { rewrite app_length. simpl. lia. }
        simpl in *. rewrite app_length in H1. simpl in H1. repeat split; try lia.
  Qed.

  Theorem lz_encode_total s d cap :
    Z.of_nat (length (lz_encode keqb h s d cap)) < cap ->
    total (lz_encode keqb h s d cap) = Z.of_nat (length s) + total d.
  Proof.
    rewrite lz_encode_spec. intros Hcap.
    pose proof (lz_spec_total s [] d (Z.of_nat (length d)) cap 0) as Ht.
    destruct (lz_spec_drops s [] d (Z.of_nat (length d)) cap 0 eq_refl) as (_ & H2 & H3).
    simpl in *.
    assert (snd (lz_spec keqb h s [] d (Z.of_nat (length d)) cap 0) = 0).
    { destruct (Z.eq_dec (snd (lz_spec keqb h s [] d (Z.of_nat (length d)) cap 0)) 0) as [E|E]; [exact E|].
      specialize (H3 E). lia. }
    lia.
  Qed.

  Theorem lz_encode_total_le s d cap :
    total (lz_encode keqb h s d cap) <= Z.of_nat (length s) + total d.
  Proof.
    rewrite lz_encode_spec.
    pose proof (lz_spec_total s [] d (Z.of_nat (length d)) cap 0) as Ht.
    destruct (lz_spec_drops s [] d (Z.of_nat (length d)) cap 0 eq_refl) as (_ & H2 & _). simpl in *. lia.
  Qed.

  (* ================================================================ keys of the parse dictionary *)
  Lemma lz_spec_keys (P : K -> Prop) : forall rest cur d size cap drops,
    (forall q, P (h q)) -> Forall P (keys d) -> Forall P (keys (fst (lz_spec keqb h rest cur d size cap drops))).
  Proof.
    induction rest as [|c rest IH]; intros cur d size cap drops HP Hd; simpl; [exact Hd|].
    destruct (dget keqb d (h cur)).
    - apply IH; [exact HP | rewrite keys_dincr; exact Hd].
    - destruct (cap <=? size); apply IH; try assumption.
      unfold keys. rewrite map_app. apply Forall_app. split; [exact Hd | repeat constructor; apply HP].
  Qed.

  Lemma lz_spec_nodup : forall rest cur d size cap drops,
    NoDup (keys d) -> NoDup (keys (fst (lz_spec keqb h rest cur d size cap drops))).
  Proof.
    induction rest as [|c rest IH]; intros cur d size cap drops Hd; simpl; [exact Hd|].
    destruct (dget keqb d (h cur)) eqn:E.
    - apply IH. rewrite keys_dincr; exact Hd.
    - destruct (cap <=? size); apply IH; try assumption.
      unfold keys. rewrite map_app. simpl.
      apply NoDup_app_snoc; [exact Hd | apply dget_None_notin; exact E].
  Qed.
End Generic.
