(* K02 — CountFeatureCompressionTransformer: fit_transform returns u * sqrt s, transform returns (x . v) / sqrt s.
   With an exact decomposition the projection coefficient x . v equals u * s (K02_SVD.svd_roundtrip), so the two
   agree entrywise as soon as the singular value is positive. *)
From Coq Require Import Reals Lra.
Open Scope R_scope.

Lemma cfc_scaling (u s : R) : 0 < s -> (u * s) / sqrt s = u * sqrt s.
Proof.
  intros Hs. assert (Hq : 0 < sqrt s) by (apply sqrt_lt_R0; exact Hs).
  assert (E : s = sqrt s * sqrt s) by (symmetry; apply sqrt_sqrt; lra).
  rewrite E at 1. field. lra.
Qed.

(* no-compression branch (n_components >= n_features): both paths return the input unchanged *)
Definition cfc_fit_transform_nocompress {A} (X : A) : A := X.
Definition cfc_transform_nocompress {A} (X : A) : A := X.
Lemma cfc_nocompress {A} (X : A) : cfc_fit_transform_nocompress X = cfc_transform_nocompress X.
Proof. reflexivity. Qed.
