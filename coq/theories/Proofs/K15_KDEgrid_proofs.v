(* K15 (KDE) — the evaluation grid chosen by KDEVectorizer.fit (Model/K15_KDEexec.v: kde_grid_uniform, kde_grid_density)
   over exact rationals. *)
From Coq Require Import QArith List Bool Arith Lia Lqa Sorted Permutation Qfield.
From VZ Require Import Model.K15_HistKDE Model.K15_KDEexec Proofs.K15_HistKDE_proofs.
Import ListNotations.

Local Open Scope Q_scope.

Definition qn (i : nat) : Q := inject_Z (Z.of_nat i).

Lemma qn_le : forall i j, (i <= j)%nat -> qn i <= qn j.
Proof. intros i j H. unfold qn. rewrite <- Zle_Qle. lia. Qed.
Lemma qn_lt : forall i j, (i < j)%nat -> qn i < qn j.
Proof. intros i j H. unfold qn. rewrite <- Zlt_Qlt. lia. Qed.
Lemma qn_pos : forall i, (0 < i)%nat -> 0 < qn i.
Proof. intros i H. change 0 with (qn 0). now apply qn_lt. Qed.
Lemma qn_nonneg : forall i, 0 <= qn i.
Proof. intros i. change 0 with (qn 0). apply qn_le. lia. Qed.

(* t * d / c for 0 <= t <= c, 0 <= d lies in [0, d] *)
Lemma frac_bounds : forall t c d, 0 < c -> 0 <= t -> t <= c -> 0 <= d -> 0 <= t * d / c /\ t * d / c <= d.
Proof.
  intros t c d Hc Ht Htc Hd.
  assert (Hi : 0 < / c) by now apply Qinv_lt_0_compat.
  unfold Qdiv. split.
  - apply Qmult_le_0_compat; [apply Qmult_le_0_compat; assumption|lra].
  - assert (E : d == c * d * / c) by (field; lra).
    rewrite E at 2. apply Qmult_le_compat_r; [|lra]. apply Qmult_le_compat_r; assumption.
Qed.

Lemma frac_mono : forall t1 t2 c d, 0 < c -> t1 <= t2 -> 0 <= d -> t1 * d / c <= t2 * d / c.
Proof.
  intros t1 t2 c d Hc Ht Hd. assert (Hi : 0 < / c) by now apply Qinv_lt_0_compat.
  unfold Qdiv. apply Qmult_le_compat_r; [|lra]. apply Qmult_le_compat_r; assumption.
Qed.

(* ------------------------------------------------------------------ uniform grid *)
Lemma kde_grid_uniform_length : forall lo hi n, length (kde_grid_uniform lo hi n) = n.
Proof.
  intros lo hi [|[|m]]; [reflexivity|reflexivity|].
  unfold kde_grid_uniform. rewrite linspace_eq, map_length, seq_length. reflexivity.
Qed.

Lemma kde_grid_uniform_nth : forall lo hi n i, (2 <= n)%nat -> (i < n)%nat ->
  nth i (kde_grid_uniform lo hi n) 0 = lo + qn i * (hi - lo) / qn (n - 1).
Proof.
  intros lo hi [|[|m]] i Hn Hi; [lia|lia|].
  unfold kde_grid_uniform. rewrite linspace_eq.
  rewrite (nth_indep _ 0 (lin lo hi (S m) 0)) by (rewrite map_length, seq_length; lia).
  rewrite map_nth, seq_nth by lia. cbn [plus]. replace (S (S m) - 1)%nat with (S m) by lia. reflexivity.
Qed.

Lemma kde_grid_uniform_one : forall lo hi, kde_grid_uniform lo hi 1 = [lo].
Proof. reflexivity. Qed.

Lemma kde_grid_uniform_bounds : forall lo hi n g, lo <= hi -> In g (kde_grid_uniform lo hi n) -> lo <= g /\ g <= hi.
Proof.
  intros lo hi n g Hlh Hg.
  destruct (In_nth _ _ 0 Hg) as (i & Hi & <-). rewrite kde_grid_uniform_length in Hi.
  destruct n as [|[|m]]; [lia| |].
  - assert (i = 0)%nat as -> by lia. cbn. lra.
  - rewrite kde_grid_uniform_nth by lia. replace (S (S m) - 1)%nat with (S m) by lia.
    destruct (frac_bounds (qn i) (qn (S m)) (hi - lo)) as [A B];
      [apply qn_pos; lia|apply qn_nonneg|apply qn_le; lia|lra|]. lra.
Qed.

Lemma kde_grid_uniform_ends : forall lo hi n, (2 <= n)%nat ->
  nth 0 (kde_grid_uniform lo hi n) 0 == lo /\ nth (n - 1) (kde_grid_uniform lo hi n) 0 == hi.
Proof.
  intros lo hi n Hn. rewrite !kde_grid_uniform_nth by lia.
  assert (Hc : 0 < qn (n - 1)) by (apply qn_pos; lia).
  split.
  - change (qn 0) with 0. field. lra.
  - field. lra.
Qed.

Lemma kde_grid_uniform_mono : forall lo hi n i j, lo <= hi -> (i <= j)%nat -> (j < n)%nat ->
  nth i (kde_grid_uniform lo hi n) 0 <= nth j (kde_grid_uniform lo hi n) 0.
Proof.
  intros lo hi n i j Hlh Hij Hj.
  destruct n as [|[|m]]; [lia| |].
  - assert (i = 0)%nat as -> by lia. assert (j = 0)%nat as -> by lia. lra.
  - rewrite !kde_grid_uniform_nth by lia.
    assert (qn i * (hi - lo) / qn (S (S m) - 1) <= qn j * (hi - lo) / qn (S (S m) - 1)).
    { apply frac_mono; [apply qn_pos; lia|now apply qn_le|lra]. }
    lra.
Qed.

Lemma kde_grid_uniform_strict : forall lo hi n i j, lo < hi -> (i < j)%nat -> (j < n)%nat ->
  nth i (kde_grid_uniform lo hi n) 0 < nth j (kde_grid_uniform lo hi n) 0.
Proof.
  intros lo hi n i j Hlh Hij Hj.
  destruct n as [|[|m]]; [lia|lia|].
  rewrite !kde_grid_uniform_nth by lia.
  assert (Hc : 0 < qn (S (S m) - 1)) by (apply qn_pos; lia).
  assert (Hi : 0 < / qn (S (S m) - 1)) by now apply Qinv_lt_0_compat.
  assert (qn i * (hi - lo) / qn (S (S m) - 1) < qn j * (hi - lo) / qn (S (S m) - 1)).
  { unfold Qdiv. apply Qmult_lt_compat_r; [exact Hi|]. apply Qmult_lt_compat_r; [lra|now apply qn_lt]. }
  lra.
Qed.

(* min / max of the training values *)
Lemma qmin_le_l : forall x y, qmin x y <= x.
Proof. intros x y. unfold qmin. destruct (Qle_bool x y) eqn:E; [lra|].
  assert (~ x <= y) by (intro H; apply Qle_bool_iff in H; congruence). lra. Qed.
Lemma qmin_le_r : forall x y, qmin x y <= y.
Proof. intros x y. unfold qmin. destruct (Qle_bool x y) eqn:E; [now apply Qle_bool_iff|lra]. Qed.
Lemma qmax_ge_l : forall x y, x <= qmax x y.
Proof. intros x y. unfold qmax. destruct (Qle_bool x y) eqn:E; [now apply Qle_bool_iff|lra]. Qed.
Lemma qmax_ge_r : forall x y, y <= qmax x y.
Proof. intros x y. unfold qmax. destruct (Qle_bool x y) eqn:E; [lra|].
  assert (~ x <= y) by (intro H; apply Qle_bool_iff in H; congruence). lra. Qed.

Lemma fold_left_qmin_le : forall t x y, In y (x :: t) -> fold_left qmin t x <= y.
Proof.
  induction t as [|z t IH]; intros x y Hy; cbn [fold_left].
  - destruct Hy as [<-|[]]. lra.
  - destruct Hy as [<-|[<-|Hy]].
    + apply Qle_trans with (qmin x z); [apply IH; now left|apply qmin_le_l].
    + apply Qle_trans with (qmin x z); [apply IH; now left|apply qmin_le_r].
    + apply IH. now right.
Qed.

Lemma fold_left_qmax_ge : forall t x y, In y (x :: t) -> y <= fold_left qmax t x.
Proof.
  induction t as [|z t IH]; intros x y Hy; cbn [fold_left].
  - destruct Hy as [<-|[]]. lra.
  - destruct Hy as [<-|[<-|Hy]].
    + apply Qle_trans with (qmax x z); [apply qmax_ge_l|apply IH; now left].
    + apply Qle_trans with (qmax x z); [apply qmax_ge_r|apply IH; now left].
    + apply IH. now right.
Qed.

Lemma list_min_le : forall d l x, In x l -> list_min d l <= x.
Proof. intros d [|a l] x Hx; [destruct Hx|]. cbn [list_min]. now apply fold_left_qmin_le. Qed.
Lemma list_max_ge : forall d l x, In x l -> x <= list_max d l.
Proof. intros d [|a l] x Hx; [destruct Hx|]. cbn [list_max]. now apply fold_left_qmax_ge. Qed.

Lemma list_min_le_max : forall d l, l <> [] -> list_min d l <= list_max d l.
Proof.
  intros d l Hne. assert (H := list_min_in d l Hne).
  now apply list_max_ge.
Qed.

(* ------------------------------------------------------------------ sorting *)
Lemma qinsert_perm : forall x l, Permutation (qinsert x l) (x :: l).
Proof.
  induction l as [|y t IH]; cbn [qinsert]; [apply Permutation_refl|].
  destruct (Qle_bool x y); [apply Permutation_refl|].
  apply Permutation_trans with (y :: x :: t); [now apply perm_skip|apply perm_swap].
Qed.

Lemma qsort_perm : forall l, Permutation (qsort l) l.
Proof.
  induction l as [|x l IH]; cbn [qsort fold_right]; [apply Permutation_refl|].
  apply Permutation_trans with (x :: fold_right qinsert [] l); [apply qinsert_perm|now apply perm_skip].
Qed.

Lemma qinsert_sorted : forall x l, Sorted Qle l -> Sorted Qle (qinsert x l).
Proof.
  induction l as [|y t IH]; intro H; cbn [qinsert].
  - repeat constructor.
  - destruct (Qle_bool x y) eqn:E.
    + constructor; [exact H|]. constructor. now apply Qle_bool_iff.
    + assert (Hyx : y <= x).
      { assert (~ x <= y) by (intro A; apply Qle_bool_iff in A; congruence). lra. }
      inversion H as [|? ? Ht Hhd]; subst. constructor; [now apply IH|].
      destruct t as [|z t]; cbn [qinsert]; [now constructor|].
      destruct (Qle_bool x z); constructor; [exact Hyx|]. now inversion Hhd.
Qed.

Lemma qsort_sorted : forall l, StronglySorted Qle (qsort l).
Proof.
  intro l. apply Sorted_StronglySorted; [intros a b c; apply Qle_trans|].
  induction l as [|x l IH]; cbn [qsort fold_right]; [constructor|]. now apply qinsert_sorted.
Qed.

Lemma qsort_length : forall l, length (qsort l) = length l.
Proof. intro l. apply Permutation_length, qsort_perm. Qed.

Lemma sorted_nth_mono : forall s, StronglySorted Qle s -> forall i j, (i <= j)%nat -> (j < length s)%nat ->
  nth i s 0 <= nth j s 0.
Proof.
  induction 1 as [|a s Hs IH Ha]; intros i j Hij Hj; [cbn in Hj; lia|].
  destruct j as [|j].
  - assert (i = 0)%nat as -> by lia. lra.
  - destruct i as [|i].
    + cbn [nth]. rewrite Forall_forall in Ha. apply Ha. apply nth_In. cbn in Hj. lia.
    + cbn [nth]. apply IH; [lia|cbn in Hj; lia].
Qed.

(* ------------------------------------------------------------------ quantiles *)
Section Quantile.
  Variable s : list Q.
  Hypothesis Hs : StronglySorted Qle s.
  Hypothesis Hne : s <> [].
  Variable m : nat.
  Hypothesis Hm : (0 < m)%nat.

  Let N1 := (length s - 1)%nat.

  Lemma N1_lt : (N1 < length s)%nat.
  Proof. unfold N1. destruct s; [congruence|cbn; lia]. Qed.

  Definition q_lo (i : nat) : nat := ((i * N1) / m)%nat.
  Definition q_hi (i : nat) : nat := Nat.min (S (q_lo i)) N1.
  Definition q_gamma (i : nat) : Q := qn ((i * N1) mod m) / qn m.

  Lemma quantile_at_eq : forall i,
    quantile_at s m i = nth (q_lo i) s 0 + (nth (q_hi i) s 0 - nth (q_lo i) s 0) * q_gamma i.
  Proof. reflexivity. Qed.

  Lemma q_lo_le : forall i, (i <= m)%nat -> (q_lo i <= N1)%nat.
  Proof.
    intros i Hi. unfold q_lo. apply Nat.div_le_upper_bound; [lia|]. nia.
  Qed.

  Lemma q_lo_mono : forall i j, (i <= j)%nat -> (q_lo i <= q_lo j)%nat.
  Proof. intros i j Hij. unfold q_lo. apply Nat.div_le_mono; [lia|nia]. Qed.

  Lemma q_gamma_bounds : forall i, 0 <= q_gamma i /\ q_gamma i < 1.
  Proof.
    intro i. unfold q_gamma. assert (Hc : 0 < qn m) by now apply qn_pos.
    assert (Hr : ((i * N1) mod m < m)%nat) by (apply Nat.mod_upper_bound; lia).
    assert (Hi : 0 < / qn m) by now apply Qinv_lt_0_compat.
    split.
    - unfold Qdiv. apply Qmult_le_0_compat; [apply qn_nonneg|lra].
    - assert (E : 1 == qn m * / qn m) by (field; lra). rewrite E. unfold Qdiv.
      apply Qmult_lt_compat_r; [exact Hi|now apply qn_lt].
  Qed.

  Lemma q_ab : forall i, (i <= m)%nat -> nth (q_lo i) s 0 <= nth (q_hi i) s 0.
  Proof.
    intros i Hi. apply sorted_nth_mono; [exact Hs| |].
    - unfold q_hi. pose proof (q_lo_le i Hi). lia.
    - unfold q_hi. pose proof N1_lt. lia.
  Qed.

  Lemma quantile_between : forall i, (i <= m)%nat ->
    nth (q_lo i) s 0 <= quantile_at s m i /\ quantile_at s m i <= nth (q_hi i) s 0.
  Proof.
    intros i Hi. rewrite quantile_at_eq. pose proof (q_ab i Hi) as Hab. destruct (q_gamma_bounds i) as [G0 G1].
    set (a := nth (q_lo i) s 0) in *. set (b := nth (q_hi i) s 0) in *. set (g := q_gamma i) in *.
    assert (0 <= (b - a) * g) by (apply Qmult_le_0_compat; lra).
    assert ((b - a) * g <= (b - a) * 1) by (rewrite !(Qmult_comm (b - a)); apply Qmult_le_compat_r; lra).
    split; lra.
  Qed.

  Lemma quantile_first : quantile_at s m 0 == nth 0 s 0.
  Proof.
    rewrite quantile_at_eq. unfold q_gamma, q_lo. cbn [Nat.mul].
    rewrite Nat.div_0_l, Nat.mod_0_l by lia. change (qn 0) with 0.
    assert (Hc : 0 < qn m) by now apply qn_pos. field. lra.
  Qed.

  Lemma quantile_last : quantile_at s m m == nth N1 s 0.
  Proof.
    rewrite quantile_at_eq. unfold q_gamma, q_hi, q_lo. rewrite (Nat.mul_comm m N1).
    rewrite Nat.div_mul, Nat.mod_mul by lia. change (qn 0) with 0.
    assert (Hc : 0 < qn m) by now apply qn_pos. field. lra.
  Qed.

  Lemma quantile_mono : forall i j, (i <= j)%nat -> (j <= m)%nat -> quantile_at s m i <= quantile_at s m j.
  Proof.
    intros i j Hij Hj.
    destruct (Nat.eq_dec (q_lo i) (q_lo j)) as [E|NE].
    - rewrite !quantile_at_eq. unfold q_hi. rewrite E.
      assert (Hab : nth (q_lo j) s 0 <= nth (Nat.min (S (q_lo j)) N1) s 0) by (apply (q_ab j); lia).
      assert (G : q_gamma i <= q_gamma j).
      { unfold q_gamma. assert (Hc : 0 < qn m) by now apply qn_pos.
        assert (Hi : 0 < / qn m) by now apply Qinv_lt_0_compat.
        unfold Qdiv. apply Qmult_le_compat_r; [|lra]. apply qn_le.
        unfold q_lo in E.
        pose proof (Nat.div_mod (i * N1) m ltac:(lia)) as D1. pose proof (Nat.div_mod (j * N1) m ltac:(lia)) as D2.
        rewrite E in D1. assert (i * N1 <= j * N1)%nat by nia. lia. }
      set (a := nth (q_lo j) s 0) in *. set (b := nth (Nat.min (S (q_lo j)) N1) s 0) in *.
      assert ((b - a) * q_gamma i <= (b - a) * q_gamma j).
      { rewrite !(Qmult_comm (b - a)). apply Qmult_le_compat_r; lra. }
      lra.
    - assert (L : (q_lo i < q_lo j)%nat) by (pose proof (q_lo_mono i j Hij); lia).
      destruct (quantile_between i ltac:(lia)) as [_ B]. destruct (quantile_between j Hj) as [A _].
      apply Qle_trans with (nth (q_hi i) s 0); [exact B|]. apply Qle_trans with (nth (q_lo j) s 0); [|exact A].
      apply sorted_nth_mono; [exact Hs|unfold q_hi; lia|]. pose proof (q_lo_le j Hj). pose proof N1_lt. lia.
  Qed.
End Quantile.

Lemma filter_length_perm : forall (p : Q -> bool) l l', Permutation l l' -> length (filter p l) = length (filter p l').
Proof.
  intros p l l' P. induction P; cbn [filter].
  - reflexivity.
  - destruct (p x); cbn [length]; now rewrite IHP.
  - destruct (p x), (p y); reflexivity.
  - congruence.
Qed.

Lemma filter_all : forall (p : Q -> bool) l, (forall x, In x l -> p x = true) -> filter p l = l.
Proof.
  intros p l. induction l as [|a l IH]; intro H; cbn [filter]; [reflexivity|].
  rewrite (H a) by now left. f_equal. apply IH. intros; apply H; now right.
Qed.

Lemma filter_length_firstn : forall (p : Q -> bool) l k, (forall x, In x (firstn k l) -> p x = true) -> (k <= length l)%nat ->
  (k <= length (filter p l))%nat.
Proof.
  intros p l k H Hk. rewrite <- (firstn_skipn k l) at 1. rewrite filter_app, app_length, (filter_all p (firstn k l) H).
  rewrite firstn_length. lia.
Qed.

Lemma filter_length_skipn : forall (p : Q -> bool) l k, (forall x, In x (skipn k l) -> p x = true) ->
  (length l - k <= length (filter p l))%nat.
Proof.
  intros p l k H. rewrite <- (firstn_skipn k l) at 2. rewrite filter_app, app_length, (filter_all p (skipn k l) H).
  rewrite skipn_length. lia.
Qed.

Lemma nth_firstn_lt' : forall (l : list Q) k j, (j < k)%nat -> nth j (firstn k l) 0 = nth j l 0.
Proof.
  induction l as [|a l IH]; intros k j H.
  - rewrite firstn_nil. reflexivity.
  - destruct k as [|k]; [lia|]. destruct j as [|j]; [reflexivity|]. cbn [firstn nth]. apply IH. lia.
Qed.

Lemma nth_skipn' : forall (l : list Q) k j, nth j (skipn k l) 0 = nth (k + j) l 0.
Proof.
  induction l as [|a l IH]; intros k j.
  - rewrite skipn_nil. destruct j, (k + _)%nat; reflexivity.
  - destruct k as [|k]; [reflexivity|]. cbn [skipn plus nth]. apply IH.
Qed.

Lemma In_firstn_nth : forall (l : list Q) k x, In x (firstn k l) -> exists j, (j < k)%nat /\ (j < length l)%nat /\ x = nth j l 0.
Proof.
  intros l k x H. destruct (In_nth _ _ 0 H) as (j & Hj & E). rewrite firstn_length in Hj.
  exists j. split; [lia|]. split; [lia|]. rewrite <- E. apply nth_firstn_lt'. lia.
Qed.

Lemma In_skipn_nth : forall (l : list Q) k x, In x (skipn k l) -> exists j, (k <= j)%nat /\ (j < length l)%nat /\ x = nth j l 0.
Proof.
  intros l k x H. destruct (In_nth _ _ 0 H) as (j & Hj & E). rewrite skipn_length in Hj.
  exists (k + j)%nat. split; [lia|]. split; [lia|]. rewrite <- E. apply nth_skipn'.
Qed.

(* ------------------------------------------------------------------ density grid *)
Lemma kde_grid_density_length : forall flat n, length (kde_grid_density flat n) = n.
Proof.
  intros flat [|[|m]]; [reflexivity|reflexivity|]. unfold kde_grid_density. now rewrite map_length, seq_length.
Qed.

Lemma kde_grid_density_nth : forall flat n i, (2 <= n)%nat -> (i < n)%nat ->
  nth i (kde_grid_density flat n) 0 = quantile_at (qsort flat) (n - 1) i.
Proof.
  intros flat [|[|m]] i Hn Hi; [lia|lia|]. unfold kde_grid_density.
  rewrite (nth_indep _ 0 (quantile_at (qsort flat) (S m) 0)) by (rewrite map_length, seq_length; lia).
  rewrite map_nth, seq_nth by lia. replace (S (S m) - 1)%nat with (S m) by lia. reflexivity.
Qed.

Lemma qsort_ne : forall flat, flat <> [] -> qsort flat <> [].
Proof. intros flat H E. apply H. apply length_zero_iff_nil. rewrite <- qsort_length, E. reflexivity. Qed.

Lemma qsort_nth_in : forall flat j, (j < length flat)%nat -> In (nth j (qsort flat) 0) flat.
Proof.
  intros flat j Hj. apply (Permutation_in _ (qsort_perm flat)). apply nth_In. now rewrite qsort_length.
Qed.

(* every grid point lies between two training values *)
Lemma kde_grid_density_between : forall flat n g, flat <> [] -> In g (kde_grid_density flat n) ->
  exists a b, In a flat /\ In b flat /\ a <= g /\ g <= b.
Proof.
  intros flat n g Hne Hg.
  assert (HL : (0 < length flat)%nat) by (destruct flat; [congruence|cbn; lia]).
  destruct (In_nth _ _ 0 Hg) as (i & Hi & <-). rewrite kde_grid_density_length in Hi.
  destruct n as [|[|m]]; [lia| |].
  - assert (i = 0)%nat as -> by lia. cbn [kde_grid_density nth].
    exists (nth 0 (qsort flat) 0), (nth 0 (qsort flat) 0). pose proof (qsort_nth_in flat 0 HL). repeat split; auto; lra.
  - rewrite kde_grid_density_nth by lia. replace (S (S m) - 1)%nat with (S m) by lia.
    destruct (quantile_between (qsort flat) (qsort_sorted flat) (qsort_ne flat Hne) (S m) ltac:(lia) i ltac:(lia)) as [A B].
    exists (nth (q_lo (qsort flat) (S m) i) (qsort flat) 0), (nth (q_hi (qsort flat) (S m) i) (qsort flat) 0).
    pose proof (q_lo_le (qsort flat) (S m) ltac:(lia) i ltac:(lia)) as L. rewrite qsort_length in L.
    repeat split; auto; apply qsort_nth_in; unfold q_hi; rewrite ?qsort_length; lia.
Qed.

Lemma kde_grid_density_bounds : forall flat n g, flat <> [] -> In g (kde_grid_density flat n) ->
  list_min 0 flat <= g /\ g <= list_max 0 flat.
Proof.
  intros flat n g Hne Hg. destruct (kde_grid_density_between flat n g Hne Hg) as (a & b & Ha & Hb & A & B).
  pose proof (list_min_le 0 flat a Ha). pose proof (list_max_ge 0 flat b Hb). split; lra.
Qed.

Lemma kde_grid_density_mono : forall flat n i j, flat <> [] -> (i <= j)%nat -> (j < n)%nat ->
  nth i (kde_grid_density flat n) 0 <= nth j (kde_grid_density flat n) 0.
Proof.
  intros flat n i j Hne Hij Hj.
  destruct n as [|[|m]]; [lia| |].
  - assert (i = 0)%nat as -> by lia. assert (j = 0)%nat as -> by lia. lra.
  - rewrite !kde_grid_density_nth by lia.
    apply quantile_mono; [apply qsort_sorted|now apply qsort_ne|lia|lia|lia].
Qed.

Lemma sorted_first_is_min : forall flat, flat <> [] -> nth 0 (qsort flat) 0 == list_min 0 flat.
Proof.
  intros flat Hne. assert (HL : (0 < length flat)%nat) by (destruct flat; [congruence|cbn; lia]).
  apply Qle_antisym.
  - pose proof (list_min_in 0 flat Hne) as Hin. apply (Permutation_in _ (Permutation_sym (qsort_perm flat))) in Hin.
    destruct (In_nth _ _ 0 Hin) as (j & Hj & <-). apply sorted_nth_mono; [apply qsort_sorted|lia|exact Hj].
  - apply list_min_le. now apply qsort_nth_in.
Qed.

Lemma sorted_last_is_max : forall flat, flat <> [] -> nth (length flat - 1) (qsort flat) 0 == list_max 0 flat.
Proof.
  intros flat Hne. assert (HL : (0 < length flat)%nat) by (destruct flat; [congruence|cbn; lia]).
  apply Qle_antisym.
  - apply list_max_ge. apply qsort_nth_in. lia.
  - pose proof (list_max_in 0 flat Hne) as Hin. apply (Permutation_in _ (Permutation_sym (qsort_perm flat))) in Hin.
    destruct (In_nth _ _ 0 Hin) as (j & Hj & <-). rewrite qsort_length in Hj.
    apply sorted_nth_mono; [apply qsort_sorted|lia|rewrite qsort_length; lia].
Qed.

Lemma kde_grid_density_ends : forall flat n, flat <> [] -> (2 <= n)%nat ->
  nth 0 (kde_grid_density flat n) 0 == list_min 0 flat /\ nth (n - 1) (kde_grid_density flat n) 0 == list_max 0 flat.
Proof.
  intros flat n Hne Hn. rewrite !kde_grid_density_nth by lia. split.
  - rewrite quantile_first by lia. now apply sorted_first_is_min.
  - rewrite quantile_last by lia. rewrite qsort_length. now apply sorted_last_is_max.
Qed.

Lemma kde_grid_density_one : forall flat, flat <> [] ->
  exists g, kde_grid_density flat 1 = [g] /\ g == list_min 0 flat.
Proof. intros flat Hne. exists (nth 0 (qsort flat) 0). split; [reflexivity|now apply sorted_first_is_min]. Qed.

(* the quantile property, as counts of training values: with k = floor(i (N - 1) / (n - 1)), at least k + 1 training values
   are <= g_i and at least N - min(k + 1, N - 1) are >= g_i *)
Lemma kde_grid_density_counts : forall flat n i, flat <> [] -> (2 <= n)%nat -> (i < n)%nat ->
  let g := nth i (kde_grid_density flat n) 0 in
  let k := ((i * (length flat - 1)) / (n - 1))%nat in
  (k + 1 <= length (filter (fun x => Qle_bool x g) flat))%nat /\
  (length flat - Nat.min (k + 1) (length flat - 1) <= length (filter (fun x => Qle_bool g x) flat))%nat.
Proof.
  intros flat n i Hne Hn Hi g k.
  assert (HL : (0 < length flat)%nat) by (destruct flat; [congruence|cbn; lia]).
  set (s := qsort flat). assert (Hs := qsort_sorted flat). assert (Hsne := qsort_ne flat Hne). fold s in Hs, Hsne.
  assert (Eg : g = quantile_at s (n - 1) i) by (unfold g; now rewrite kde_grid_density_nth).
  destruct (quantile_between s Hs Hsne (n - 1) ltac:(lia) i ltac:(lia)) as [A B]. rewrite <- Eg in A, B.
  assert (Ek : q_lo s (n - 1) i = k) by (unfold q_lo, k, s; now rewrite qsort_length).
  pose proof (q_lo_le s (n - 1) ltac:(lia) i ltac:(lia)) as Lk. rewrite Ek in Lk. unfold s in Lk. rewrite qsort_length in Lk.
  assert (Eh : q_hi s (n - 1) i = Nat.min (k + 1) (length flat - 1)).
  { unfold q_hi. rewrite Ek. unfold s. rewrite qsort_length. f_equal. lia. }
  rewrite Ek in A. rewrite Eh in B.
  split.
  - rewrite (filter_length_perm _ _ _ (Permutation_sym (qsort_perm flat))). fold s.
    apply filter_length_firstn; [|unfold s; rewrite qsort_length; lia].
    intros x Hx. destruct (In_firstn_nth s (k + 1) x Hx) as (j & Hj & Hjl & ->).
    apply Qle_bool_iff. apply Qle_trans with (nth k s 0); [|exact A].
    apply sorted_nth_mono; [exact Hs|lia|unfold s; rewrite qsort_length; lia].
  - rewrite (filter_length_perm _ _ _ (Permutation_sym (qsort_perm flat))). fold s.
    replace (length flat) with (length s) at 1 by (unfold s; apply qsort_length).
    apply filter_length_skipn.
    intros x Hx. destruct (In_skipn_nth s _ x Hx) as (j & Hj & Hjl & ->).
    apply Qle_bool_iff. apply Qle_trans with (nth (Nat.min (k + 1) (length flat - 1)) s 0); [exact B|].
    apply sorted_nth_mono; [exact Hs|exact Hj|exact Hjl].
Qed.

(* ------------------------------------------------------------------ fit *)
Lemma kde_fit_grid_length : forall density flat n, length (kde_fit_grid density flat n) = n.
Proof. intros [|] flat n; [apply kde_grid_density_length|apply kde_grid_uniform_length]. Qed.

Lemma kde_fit_grid_bounds : forall density flat n g, flat <> [] -> In g (kde_fit_grid density flat n) ->
  list_min 0 flat <= g /\ g <= list_max 0 flat.
Proof.
  intros [|] flat n g Hne Hg.
  - now apply (kde_grid_density_bounds flat n).
  - apply (kde_grid_uniform_bounds _ _ n); [now apply list_min_le_max|exact Hg].
Qed.

Lemma kde_fit_grid_mono : forall density flat n i j, flat <> [] -> (i <= j)%nat -> (j < n)%nat ->
  nth i (kde_fit_grid density flat n) 0 <= nth j (kde_fit_grid density flat n) 0.
Proof.
  intros [|] flat n i j Hne Hij Hj.
  - now apply kde_grid_density_mono.
  - apply kde_grid_uniform_mono; [now apply list_min_le_max|exact Hij|exact Hj].
Qed.

Lemma kde_fit_grid_ends : forall density flat n, flat <> [] -> (2 <= n)%nat ->
  nth 0 (kde_fit_grid density flat n) 0 == list_min 0 flat /\ nth (n - 1) (kde_fit_grid density flat n) 0 == list_max 0 flat.
Proof.
  intros [|] flat n Hne Hn; [now apply kde_grid_density_ends|now apply kde_grid_uniform_ends].
Qed.

Lemma list_min_max_facts : forall flat x, In x flat ->
  list_min 0 flat <= x /\ x <= list_max 0 flat /\ In (list_min 0 flat) flat /\ In (list_max 0 flat) flat.
Proof.
  intros flat x Hx. assert (Hne : flat <> []) by (intro E; subst; destruct Hx).
  repeat split; [now apply list_min_le|now apply list_max_ge|now apply list_min_in|now apply list_max_in].
Qed.

Lemma kde_fit_grid_one : forall density flat, flat <> [] ->
  exists g, kde_fit_grid density flat 1 = [g] /\ g == list_min 0 flat.
Proof.
  intros [|] flat Hne; [now apply kde_grid_density_one|]. exists (list_min 0 flat). split; reflexivity.
Qed.
