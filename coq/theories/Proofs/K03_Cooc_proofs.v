(* Proofs for C03: the event lists of the drivers sum (by key) to the pointwise windowed definition. *)
From Coq Require Import List Arith Bool Lia Permutation.
From VZ Require Import Model.K02_Windows Model.K03_Cooc Model.K03_CoocSpec
     Proofs.K03_BigSum Proofs.K02_Windows_proofs.
Import ListNotations.

Section Generic.
Context {K : carrier} (HK : carrier_laws K).

(* ---------- sumby is a bigsum; additivity ---------- *)

Definition cellv (r c : nat) (e : event K) : K :=
  if Nat.eqb (e_row e) r && Nat.eqb (e_col e) c then e_val e else zero.

Lemma sumby_bigsum : forall (evs : list (event K)) r c, sumby evs r c = bigsum (cellv r c) evs.
Proof. reflexivity. Qed.

Lemma sumby_app : forall (e1 e2 : list (event K)) r c, sumby (e1 ++ e2) r c = add (sumby e1 r c) (sumby e2 r c).
Proof. intros. rewrite !sumby_bigsum. apply bigsum_app. assumption. Qed.

Lemma sumby_nil : forall r c, sumby (@nil (event K)) r c = zero.
Proof. reflexivity. Qed.

Lemma sumby_flat_map : forall A (g : A -> list (event K)) l r c,
  sumby (flat_map g l) r c = bigsum (fun x => sumby (g x) r c) l.
Proof. intros. rewrite sumby_bigsum. rewrite bigsum_flat_map by assumption. reflexivity. Qed.

Lemma sumby_perm : forall (e1 e2 : list (event K)) r c, Permutation e1 e2 -> sumby e1 r c = sumby e2 r c.
Proof. intros. rewrite !sumby_bigsum. apply bigsum_perm; assumption. Qed.

(* ---------- one slot list ---------- *)

Lemma col_key_eq : forall n ctx c i i', ctx < n -> c < n ->
  Nat.eqb (ctx + i * n) (c + i' * n) = Nat.eqb ctx c && Nat.eqb i i'.
Proof.
  intros n ctx c i i' H1 H2.
  destruct (Nat.eqb_spec ctx c) as [->|Hc]; destruct (Nat.eqb_spec i i') as [->|Hi]; simpl.
  - apply Nat.eqb_refl.
  - apply Nat.eqb_neq. intros H. apply Hi.
    assert (i * n = i' * n) by lia. apply Nat.mul_cancel_r in H0; [assumption | lia].
  - apply Nat.eqb_neq. lia.
  - apply Nat.eqb_neq. intros H.
    assert (Hq : (ctx + i * n) / n = (c + i' * n) / n) by (rewrite H; reflexivity).
    rewrite !Nat.div_add in Hq by lia. rewrite !Nat.div_small in Hq by assumption. simpl in Hq. contradiction.
Qed.

Lemma sumby_slot_events : forall n i row (tot : K) win ker r c i',
  Forall (fun t => t < n) win -> c < n ->
  sumby (slot_events n i row tot win ker) r (c + i' * n) =
  if Nat.eqb row r && Nat.eqb i i'
  then bigsum (fun ck => if Nat.eqb (fst ck) c then posv (div (snd ck) tot) else zero) (combine win ker)
  else zero.
Proof.
  intros n i row tot win ker r c i' Hwin Hc. unfold slot_events. rewrite sumby_flat_map.
  assert (Hcell : forall ck, In ck (combine win ker) ->
            sumby (let v := div (snd ck) tot in if gtb0 v then [(i, row, fst ck + i * n, v)] else []) r (c + i' * n)
            = if Nat.eqb row r && Nat.eqb i i' then (if Nat.eqb (fst ck) c then posv (div (snd ck) tot) else zero) else zero).
  { intros [ctx k] Hin. simpl. apply in_combine_l in Hin. rewrite Forall_forall in Hwin. specialize (Hwin _ Hin).
    unfold posv. destruct (gtb0 (div k tot)) eqn:Hg.
    - unfold sumby, cellv. simpl. unfold e_row, e_col, e_val. simpl.
      rewrite col_key_eq by assumption. rewrite (add_0_r HK).
      destruct (Nat.eqb row r), (Nat.eqb ctx c), (Nat.eqb i i'); reflexivity.
    - rewrite sumby_nil. destruct (Nat.eqb row r && Nat.eqb i i'), (Nat.eqb ctx c); reflexivity. }
  etransitivity; [apply bigsum_ext; intros ck Hin; apply (Hcell ck Hin)|]. cbv beta.
  destruct (Nat.eqb row r && Nat.eqb i i'); [reflexivity | apply bigsum_const_zero; assumption].
Qed.

(* ---------- picking block i out of the enumerated list ---------- *)

Lemma bigsum_pick_index : forall A (G : A -> K) (d : A) (l : list A) a i, G d = zero ->
  bigsum (fun ix => if Nat.eqb (fst ix) i then G (snd ix) else zero) (combine (seq a (length l)) l) =
  if (a <=? i) then G (nth (i - a) l d) else zero.
Proof.
  induction l; intros b i Hd.
  - simpl. rewrite bigsum_nil. destruct (b <=? i); [destruct (i - b); symmetry; assumption | reflexivity].
  - simpl length. simpl seq. simpl combine. rewrite bigsum_cons. simpl fst. simpl snd.
    rewrite IHl by assumption.
    destruct (Nat.eqb_spec b i) as [->|Hne].
    + rewrite Nat.sub_diag. simpl nth.
      destruct (Nat.leb_spec (S i) i); [lia|]. destruct (Nat.leb_spec i i); [|lia]. apply (add_0_r HK).
    + rewrite (add_0_l K HK). destruct (Nat.leb_spec (S b) i); destruct (Nat.leb_spec b i); try lia; [|reflexivity].
      replace (i - b) with (S (i - S b)) by lia. reflexivity.
Qed.

(* ---------- one occurrence ---------- *)

Definition occ_ok (n : nat) (o : occurrence K) : Prop :=
  Forall (fun wk => Forall (fun t => t < n) (fst wk)) (snd o).

Lemma sumby_occ_events : forall nw n (o : occurrence K) r c i, occ_ok n o -> c < n ->
  sumby (occ_events nw n o) r (c + i * n) =
  if Nat.eqb (fst o) r
  then bigsum (fun ck => if Nat.eqb (fst ck) c then posv (div (snd ck) (occ_total nw (snd o))) else zero)
              (combine (fst (nth i (snd o) ([], []))) (snd (nth i (snd o) ([], []))))
  else zero.
Proof.
  intros nw n [row wk] r c i Hok Hc. unfold occ_events. simpl fst. simpl snd. unfold occ_ok in Hok. simpl in Hok.
  rewrite sumby_flat_map.
  set (tot := occ_total nw wk).
  set (G := fun wk1 : list nat * list K =>
              bigsum (fun ck => if Nat.eqb (fst ck) c then posv (div (snd ck) tot) else zero) (combine (fst wk1) (snd wk1))).
  rewrite (bigsum_ext _ _ (fun ix => if Nat.eqb row r then (if Nat.eqb (fst ix) i then G (snd ix) else zero) else zero)).
  - destruct (Nat.eqb row r); [|apply bigsum_const_zero; assumption].
    rewrite (bigsum_pick_index _ G ([], [])) by reflexivity.
    simpl. rewrite Nat.sub_0_r. reflexivity.
  - intros [i' wk1] Hin. simpl fst. simpl snd.
    apply in_combine_r in Hin. rewrite Forall_forall in Hok. specialize (Hok _ Hin).
    rewrite sumby_slot_events by assumption.
    destruct (Nat.eqb row r), (Nat.eqb i' i); reflexivity.
Qed.

(* ---------- positional occurrences: the shape shared by the token, n-gram and timed drivers ---------- *)

Variable L : nat.
Variable tok : nat -> nat.

Definition p_positions (b : pblock K) : list nat := win_positions (pb_rev b) (pb_R b) (pb_anchor b) L.

(* what the drivers compute for one block: window tokens and mix-weighted kernel *)
Definition p_wk (b : pblock K) : list nat * list K :=
  let P := p_positions b in
  (map tok P, map (mul (pb_mix b)) (finish_kernel (pb_mask b) (pb_norm b) (pb_off b) (map tok P) (map (pb_bw b) P))).

Definition p_occ (row : nat) (bs : list (pblock K)) : occurrence K := (row, map p_wk bs).

Lemma combine_map2 : forall A B C (f : A -> B) (g : A -> C) (l : list A),
  combine (map f l) (map g l) = map (fun x => (f x, g x)) l.
Proof. induction l; simpl; congruence. Qed.

Lemma raw_is_map : forall b, pb_anchor b < L ->
  offset_out (pb_off b) (mask_out (pb_mask b) (map tok (p_positions b)) (map (pb_bw b) (p_positions b)))
  = map (p_raw tok b) (p_positions b).
Proof.
  intros b Ha. set (P := p_positions b).
  apply (nth_ext _ _ zero zero).
  - rewrite offset_out_length, mask_out_length, !map_length; rewrite ?map_length; reflexivity.
  - intros j Hj. rewrite offset_out_length, mask_out_length, map_length in Hj by (rewrite !map_length; reflexivity).
    rewrite raw_kernel_nth by (rewrite ?map_length; try reflexivity; assumption).
    rewrite (nth_map_lt _ _ _ _ 0 zero) by assumption.
    rewrite (nth_map_lt _ _ _ _ 0 0) by assumption.
    rewrite (nth_map_lt _ _ _ _ 0 zero) by assumption.
    unfold p_raw. unfold P, p_positions in *. rewrite win_positions_dist by assumption.
    replace (j + 1 <=? pb_off b) with (j <? pb_off b); [reflexivity|].
    destruct (Nat.ltb_spec j (pb_off b)); destruct (Nat.leb_spec (j + 1) (pb_off b)); try reflexivity; lia.
Qed.

Lemma p_positions_sum : forall b (f : nat -> K), pb_anchor b < L ->
  bigsum f (p_positions b) = isum L (fun q => if p_in b q then f q else zero).
Proof. intros. unfold p_positions, p_in. apply window_sum_indicator; assumption. Qed.

Lemma p_kernel_is_map : forall b, pb_anchor b < L ->
  finish_kernel (pb_mask b) (pb_norm b) (pb_off b) (map tok (p_positions b)) (map (pb_bw b) (p_positions b))
  = map (p_norm L tok b) (p_positions b).
Proof.
  intros b Ha. unfold finish_kernel. rewrite raw_is_map by assumption.
  unfold p_norm. destruct (pb_norm b); [|reflexivity].
  unfold l1_normalize.
  assert (Hs : tsum (map (p_raw tok b) (p_positions b)) = p_ksum L tok b).
  { change (tsum (map (p_raw tok b) (p_positions b))) with (bigsum (p_raw tok b) (p_positions b)).
    rewrite p_positions_sum by assumption. reflexivity. }
  rewrite Hs. destruct (gtb0 (p_ksum L tok b)); [rewrite map_map|]; reflexivity.
Qed.

Lemma p_wk_combine : forall b, pb_anchor b < L ->
  combine (fst (p_wk b)) (snd (p_wk b)) = map (fun q => (tok q, p_weight L tok b q)) (p_positions b).
Proof.
  intros b Ha. unfold p_wk. simpl fst. simpl snd. rewrite p_kernel_is_map by assumption.
  rewrite map_map. rewrite combine_map2. reflexivity.
Qed.

Lemma p_total_eq : forall nw bs, Forall (fun b => pb_anchor b < L) bs ->
  occ_total nw (map p_wk bs) = p_total L tok nw bs.
Proof.
  intros nw bs Hbs. unfold occ_total, p_total. destruct nw; [|reflexivity].
  assert (Ht : tsum (map (fun x : list nat * list K => tsum (snd x)) (map p_wk bs))
               = bigsum (fun b => isum L (fun q => if p_in b q then p_weight L tok b q else zero)) bs).
  { rewrite map_map. change (bigsum (fun b => tsum (snd (p_wk b))) bs = bigsum (fun b => isum L (fun q => if p_in b q then p_weight L tok b q else zero)) bs).
    apply bigsum_ext. intros b Hb. rewrite Forall_forall in Hbs. specialize (Hbs _ Hb).
    unfold p_wk. simpl snd. rewrite p_kernel_is_map by assumption. rewrite map_map.
    change (bigsum (fun q => mul (pb_mix b) (p_norm L tok b q)) (p_positions b) = isum L (fun q => if p_in b q then p_weight L tok b q else zero)).
    rewrite p_positions_sum by assumption. reflexivity. }
  rewrite Ht. reflexivity.
Qed.

Lemma p_occ_ok : forall n row bs, (forall q, q < L -> tok q < n) -> Forall (fun b => pb_anchor b < L) bs ->
  occ_ok n (p_occ row bs).
Proof.
  intros n row bs Htok Hbs. unfold occ_ok, p_occ. simpl. rewrite Forall_forall. intros wk Hin.
  apply in_map_iff in Hin. destruct Hin as [b [<- Hb]]. unfold p_wk. simpl fst.
  rewrite Forall_forall. intros t Ht. apply in_map_iff in Ht. destruct Ht as [q [<- Hq]].
  apply Htok. rewrite Forall_forall in Hbs. specialize (Hbs _ Hb).
  unfold p_positions in Hq. apply win_positions_In in Hq; [tauto | assumption].
Qed.

(* the generic theorem: one positional occurrence contributes its pointwise cell *)
Lemma sumby_p_occ : forall nw n row bs r c i,
  (forall q, q < L -> tok q < n) -> Forall (fun b => pb_anchor b < L) bs -> c < n ->
  sumby (occ_events nw n (p_occ row bs)) r (c + i * n) =
  if Nat.eqb row r then p_cell L tok nw bs i c else zero.
Proof.
  intros nw n row bs r c i Htok Hbs Hc.
  rewrite sumby_occ_events by (try apply p_occ_ok; assumption).
  unfold p_occ. simpl fst. simpl snd. destruct (Nat.eqb row r); [|reflexivity].
  rewrite p_total_eq by assumption. unfold p_cell.
  destruct (nth_error bs i) as [b|] eqn:Hnth.
  - assert (Hb : In b bs) by (eapply nth_error_In; eassumption).
    rewrite Forall_forall in Hbs. specialize (Hbs _ Hb).
    assert (Hn : nth i (map p_wk bs) ([], []) = p_wk b).
    { apply nth_error_nth. rewrite nth_error_map, Hnth. reflexivity. }
    rewrite Hn. rewrite p_wk_combine by assumption. rewrite bigsum_map. simpl fst. simpl snd.
    rewrite p_positions_sum by assumption.
    apply isum_ext. intros q Hq. destruct (p_in b q); reflexivity.
  - apply nth_error_None in Hnth.
    rewrite nth_overflow by (rewrite map_length; assumption). reflexivity.
Qed.

End Generic.
