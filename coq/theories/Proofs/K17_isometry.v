(* K17 (isometry part) — an orthonormal-row projection preserves distances on its row space.
   V : k x D with V *m V^T = 1 (the SVD components_ of the vectorizers, rows orthonormal); a point of the row space
   is x = a *m V.  Then x *m V^T = a and (x - y) (x - y)^T = (xV^T - yV^T)(xV^T - yV^T)^T: squared euclidean
   distances between compressed rows (transform: block @ components_.T) equal those between the raw LOT vectors.
   mathcomp style; any commutative ring (the theorem needs no square root). *)
From mathcomp Require Import all_ssreflect all_algebra.
Set Implicit Arguments.
Unset Strict Implicit.
Unset Printing Implicit Defensive.
Import GRing.Theory.
Local Open Scope ring_scope.

Section Isometry.
Variable R : comRingType.
Variables k D : nat.
Variable V : 'M[R]_(k, D).
Hypothesis orthonormal_rows : V *m V^T = 1%:M.

Definition sqdist n (x y : 'rV[R]_n) : 'M[R]_1 := (x - y) *m (x - y)^T.

Lemma project_row_space (a : 'rV[R]_k) : (a *m V) *m V^T = a.
Proof. by rewrite -mulmxA orthonormal_rows mulmx1. Qed.

Lemma isometry_on_row_space (a b : 'rV[R]_k) :
  let x := a *m V in let y := b *m V in
  sqdist (x *m V^T) (y *m V^T) = sqdist x y.
Proof.
move=> x y; rewrite /sqdist /x /y !project_row_space.
by rewrite -mulmxBl trmx_mul mulmxA -(mulmxA (a - b)) orthonormal_rows mulmx1.
Qed.
End Isometry.
