(* Proofs about Model/K5_Float.v: the integer keys denote the correctly rounded IEEE results; consequences for the
   comparisons of prune_token_dictionary (count = bound is kept; count order = frequency order below 2^prec). *)
From Coq Require Import ZArith Reals Lia Lra Bool.
From Flocq Require Import Core BinarySingleNaN Double_rounding.
From VZ Require Import Model.K5_Float.
Open Scope Z_scope.

Lemma Rdiv_le_l : forall a b q : R, (0 < b)%R -> (a <= q * b)%R -> (a / b <= q)%R.
Proof.
  intros a b q Hb H. unfold Rdiv. apply Rmult_le_reg_r with b; [exact Hb|].
  rewrite Rmult_assoc, Rinv_l by lra. lra.
Qed.
Lemma Rdiv_lt_l : forall a b q : R, (0 < b)%R -> (a < q * b)%R -> (a / b < q)%R.
Proof.
  intros a b q Hb H. unfold Rdiv. apply Rmult_lt_reg_r with b; [exact Hb|].
  rewrite Rmult_assoc, Rinv_l by lra. lra.
Qed.

Section Fmt.
Variables prec emax : Z.
Context (Hprec : Prec_gt_0 prec) (Hmax : Prec_lt_emax prec emax).
Hypothesis Hemax3 : 3 <= emax.

Notation emin := (SpecFloat.emin prec emax).
Notation fexp := (SpecFloat.fexp prec emax).
Notation rnd := (round radix2 fexp ZnearestE).
Notation ofZ := (ofZ prec emax Hprec Hmax).
Notation fdiv := (fdiv prec emax Hprec Hmax).
Notation key := (key prec emax).

Local Instance fexp_valid : Valid_exp fexp := FLT_exp_valid emin prec.
Local Instance fexp_mono : Monotone_exp fexp := FLT_exp_monotone emin prec.

Lemma rnd_ge0 : forall x, (0 <= x)%R -> (0 <= rnd x)%R.
Proof. intros x Hx. apply round_ge_generic; [exact fexp_valid | apply valid_rnd_N | apply generic_format_0 | exact Hx]. Qed.
Lemma rnd_le_fmt : forall x y, generic_format radix2 fexp y -> (x <= y)%R -> (rnd x <= y)%R.
Proof. intros x y Hy Hxy. apply round_le_generic; [exact fexp_valid | apply valid_rnd_N | exact Hy | exact Hxy]. Qed.
Lemma rnd_mono : forall x y, (x <= y)%R -> (rnd x <= rnd y)%R.
Proof. intros x y Hxy. apply round_le; [exact fexp_valid | apply valid_rnd_N | exact Hxy]. Qed.
Lemma rnd_id : forall x, generic_format radix2 fexp x -> rnd x = x.
Proof. intros x Hx. apply round_generic; [apply valid_rnd_N | exact Hx]. Qed.

(* the real number denoted by a key *)
Definition valR (k : Z) : R := (IZR k * bpow radix2 emin)%R.

Lemma prec_pos : 0 < prec. Proof. exact Hprec. Qed.
Lemma prec_lt : prec < emax. Proof. exact Hmax. Qed.
Lemma emin_le : emin <= - prec.
Proof. unfold SpecFloat.emin. pose proof prec_pos. lia. Qed.

Lemma valR_inj : forall a b, valR a = valR b -> a = b.
Proof.
  intros a b H. unfold valR in H. apply eq_IZR.
  apply Rmult_eq_reg_r with (2 := Rgt_not_eq _ _ (bpow_gt_0 radix2 emin)). exact H.
Qed.

Lemma valR_lt : forall a b, (valR a < valR b)%R <-> a < b.
Proof.
  intros a b. unfold valR. pose proof (bpow_gt_0 radix2 emin) as Hp. split; intro H.
  - apply lt_IZR. apply Rmult_lt_reg_r with (1 := Hp). exact H.
  - apply Rmult_lt_compat_r; [exact Hp | now apply IZR_lt].
Qed.

Lemma valR_le : forall a b, (valR a <= valR b)%R <-> a <= b.
Proof.
  intros a b. unfold valR. pose proof (bpow_gt_0 radix2 emin) as Hp. split; intro H.
  - apply le_IZR. apply Rmult_le_reg_r with (1 := Hp). exact H.
  - apply Rmult_le_compat_r; [lra | now apply IZR_le].
Qed.

Lemma key_B2R : forall x : binary_float prec emax, valR (key x) = B2R x.
Proof.
  intros [s|s| |s m e Hb]; unfold valR, K5_Float.key, B2R; try ring.
  assert (He : emin <= e).
  { unfold SpecFloat.bounded in Hb. apply andb_true_iff in Hb. destruct Hb as [Hc _].
    unfold SpecFloat.canonical_mantissa in Hc. apply Zeq_bool_eq in Hc.
    revert Hc. unfold SpecFloat.fexp. generalize (Z.pos (SpecFloat.digits2_pos m) + e - prec). intros; lia. }
  rewrite Z.shiftl_mul_pow2 by (unfold SpecFloat.emin in *; lia).
  unfold F2R, Fnum, Fexp. rewrite mult_IZR. change 2 with (radix_val radix2).
  rewrite (IZR_Zpower radix2) by (unfold SpecFloat.emin in *; lia).
  rewrite Rmult_assoc, <- bpow_plus. f_equal. f_equal. unfold SpecFloat.emin. ring.
Qed.

Lemma pow_lt_emax : (bpow radix2 prec < bpow radix2 emax)%R.
Proof. apply bpow_lt. exact prec_lt. Qed.

Lemma int_format : forall z, Z.abs z <= 2 ^ prec -> generic_format radix2 fexp (IZR z).
Proof.
  intros z Hz. apply generic_format_FLT. pose proof prec_pos as Hp. pose proof emin_le as He.
  destruct (Z.eq_dec (Z.abs z) (2 ^ prec)) as [E|NE].
  - apply FLT_spec with (f := Float radix2 (Z.sgn z) prec).
    + unfold F2R; simpl. rewrite <- (IZR_Zpower radix2) by lia. rewrite <- mult_IZR. f_equal.
      change (radix2 ^ prec) with (2 ^ prec). rewrite <- E. destruct z; simpl; lia.
    + simpl. change (Z.pow_pos 2) with (Z.pow 2). assert (1 < 2 ^ prec) by (apply Z.pow_gt_1; lia).
      change (radix_val radix2) with 2. lia.
    + simpl. lia.
  - apply FLT_spec with (f := Float radix2 z 0).
    + unfold F2R; simpl. ring.
    + simpl. change (radix_val radix2) with 2. lia.
    + simpl. lia.
Qed.

Lemma ofZ_correct : forall z, Z.abs z <= 2 ^ prec -> B2R (ofZ z) = IZR z /\ is_finite (ofZ z) = true.
Proof.
  intros z Hz. unfold K5_Float.ofZ.
  generalize (binary_normalize_correct prec emax Hprec Hmax mode_NE z 0 false). simpl.
  assert (HF : F2R (Float radix2 z 0) = IZR z) by (unfold F2R; simpl; ring).
  rewrite HF. rewrite rnd_id by (now apply int_format).
  rewrite Rlt_bool_true.
  - intros (H1 & H2 & _). split; assumption.
  - apply Rle_lt_trans with (2 := pow_lt_emax). rewrite <- abs_IZR.
    rewrite <- (IZR_Zpower radix2) by (pose proof prec_pos; lia). apply IZR_le. exact Hz.
Qed.

Lemma fdiv_correct : forall c n, 0 <= c <= 2 ^ prec -> 0 < n <= 2 ^ prec ->
  valR (key (fdiv c n)) = rnd (IZR c / IZR n).
Proof.
  intros c n Hc Hn. rewrite key_B2R. unfold K5_Float.fdiv.
  destruct (ofZ_correct c) as [Rc Fc]; [lia|]. destruct (ofZ_correct n) as [Rn Fn]; [lia|].
  generalize (Bdiv_correct prec emax Hprec Hmax mode_NE (ofZ c) (ofZ n)).
  rewrite Rc, Rn. simpl round_mode. intro H.
  assert (Hn0 : IZR n <> 0%R) by (apply IZR_neq; lia).
  specialize (H Hn0). rewrite Rlt_bool_true in H; [tauto|].
  apply Rle_lt_trans with (2 := pow_lt_emax).
  assert (Hq0 : (0 <= IZR c / IZR n)%R).
  { apply Rmult_le_pos; [apply IZR_le; lia|]. apply Rlt_le, Rinv_0_lt_compat, IZR_lt; lia. }
  rewrite Rabs_pos_eq by (apply rnd_ge0; exact Hq0).
  apply rnd_le_fmt.
  - rewrite <- (IZR_Zpower radix2) by (pose proof prec_pos; lia). apply int_format.
    change (radix_val radix2) with 2. rewrite Z.abs_eq; [lia|]. apply Z.pow_nonneg; lia.
  - apply Rle_trans with (IZR c).
    + apply Rdiv_le_l; [apply IZR_lt; lia|]. rewrite <- mult_IZR. apply IZR_le. nia.
    + rewrite <- (IZR_Zpower radix2) by (pose proof prec_pos; lia). apply IZR_le. apply Hc.
Qed.

(* count order => frequency order (any total) *)
Lemma fdiv_mono : forall c1 c2 n, 0 <= c1 <= c2 -> c2 <= 2 ^ prec -> 0 < n <= 2 ^ prec ->
  key (fdiv c1 n) <= key (fdiv c2 n).
Proof.
  intros c1 c2 n H1 H2 Hn. apply valR_le. rewrite !fdiv_correct by lia.
  apply rnd_mono.
  apply Rmult_le_compat_r; [apply Rlt_le, Rinv_0_lt_compat, IZR_lt; lia | apply IZR_le; lia].
Qed.

Lemma one_format : generic_format radix2 fexp 1%R.
Proof. change 1%R with (IZR 1). apply int_format. simpl. pose proof prec_pos.
  assert (1 < 2 ^ prec) by (apply Z.pow_gt_1; lia). lia. Qed.

(* strictly: below 2^prec distinct counts give distinct frequencies *)
Lemma fdiv_strict : forall c1 c2 n, 0 <= c1 < c2 -> c2 <= n -> 0 < n < 2 ^ prec ->
  key (fdiv c1 n) < key (fdiv c2 n).
Proof.
  intros c1 c2 n H1 H2 Hn. apply valR_lt. rewrite !fdiv_correct by lia.
  pose proof prec_pos as Hp. pose proof emin_le as Hemin.
  assert (Hn0 : (0 < IZR n)%R) by (apply IZR_lt; lia).
  set (x := (IZR c1 / IZR n)%R). set (y := (IZR c2 / IZR n)%R).
  assert (Hx0 : (0 <= x)%R) by (apply Rmult_le_pos; [apply IZR_le; lia | apply Rlt_le, Rinv_0_lt_compat, Hn0]).
  assert (Hgap : (bpow radix2 (- prec) < y - x)%R).
  { unfold x, y. replace (IZR c2 / IZR n - IZR c1 / IZR n)%R with (IZR (c2 - c1) / IZR n)%R
      by (rewrite minus_IZR; field; lra).
    apply Rlt_le_trans with (/ IZR n)%R.
    - rewrite bpow_opp. apply Rinv_lt_contravar.
      + apply Rmult_lt_0_compat; [exact Hn0 | apply bpow_gt_0].
      + rewrite <- (IZR_Zpower radix2) by lia. apply IZR_lt. apply Hn.
    - unfold Rdiv. rewrite <- (Rmult_1_l (/ IZR n)) at 1. apply Rmult_le_compat_r.
      + apply Rlt_le, Rinv_0_lt_compat, Hn0.
      + apply IZR_le. lia. }
  assert (Hbp : (0 < bpow radix2 (- prec))%R) by apply bpow_gt_0.
  destruct (Z.eq_dec c2 n) as [E|NE].
  - (* y = 1 *)
    assert (Hy : y = 1%R) by (unfold y; rewrite E; field; lra).
    rewrite Hy. rewrite (rnd_id 1%R) by apply one_format.
    set (p := (1 - bpow radix2 (- prec))%R).
    assert (Hpf : generic_format radix2 fexp p).
    { replace p with (IZR (2 ^ prec - 1) * bpow radix2 (- prec))%R.
      - apply generic_format_FLT.
        apply FLT_spec with (f := Float radix2 (2 ^ prec - 1) (- prec)).
        + reflexivity.
        + simpl. change (radix_val radix2) with 2. assert (0 < 2 ^ prec) by (apply Z.pow_pos_nonneg; lia). lia.
        + simpl. exact Hemin.
      - unfold p. rewrite minus_IZR. rewrite (IZR_Zpower radix2) by lia.
        rewrite Rmult_minus_distr_r. rewrite <- bpow_plus. replace (prec + - prec) with 0 by ring. simpl. ring. }
    apply Rle_lt_trans with p.
    + apply rnd_le_fmt; [exact Hpf|]. unfold p. rewrite Hy in Hgap. lra.
    + unfold p. lra.
  - (* y < 1 *)
    assert (Hy1 : (y < 1)%R).
    { unfold y. apply Rdiv_lt_l; [exact Hn0|]. rewrite Rmult_1_l. apply IZR_lt. lia. }
    assert (Hy0 : (0 < y)%R) by lra.
    destruct (Rlt_or_le (rnd x) (rnd y)) as [Hlt|Hge]; [exact Hlt|exfalso].
    assert (Hle : (rnd x <= rnd y)%R) by (apply rnd_mono; lra).
    assert (Heq : rnd x = rnd y) by lra.
    pose proof (error_le_half_ulp radix2 fexp (fun t => negb (Z.even t)) x) as Ex.
    pose proof (error_le_half_ulp radix2 fexp (fun t => negb (Z.even t)) y) as Ey.
    assert (Hux : (ulp radix2 fexp x <= ulp radix2 fexp y)%R) by (apply ulp_le_pos; try typeclasses eauto; lra).
    assert (Huy : (ulp radix2 fexp y <= bpow radix2 (- prec))%R).
    { rewrite ulp_neq_0 by lra. apply bpow_le. unfold cexp.
      assert (mag radix2 y <= 0)%Z.
      { apply mag_le_bpow; [lra|]. rewrite Rabs_pos_eq by lra. simpl. exact Hy1. }
      unfold SpecFloat.fexp, SpecFloat.emin in *. lia. }
    fold (rnd x) in Ex. fold (rnd y) in Ey. rewrite Heq in Ex.
    apply Rabs_le_inv in Ex. apply Rabs_le_inv in Ey. lra.
Qed.

Lemma fdiv_le_one : forall c n, 0 <= c <= n -> 0 < n <= 2 ^ prec -> (valR (key (fdiv c n)) <= 1)%R.
Proof.
  intros c n Hc Hn. rewrite fdiv_correct by lia.
  apply rnd_le_fmt; [apply one_format|].
  apply Rdiv_le_l; [apply IZR_lt; lia|]. rewrite Rmult_1_l. apply IZR_le; lia.
Qed.

Lemma fdiv_ge_zero : forall c n, 0 <= c <= 2 ^ prec -> 0 < n <= 2 ^ prec -> 0 <= key (fdiv c n).
Proof.
  intros c n Hc Hn. apply valR_le. unfold valR at 1. rewrite Rmult_0_l. rewrite fdiv_correct by lia.
  apply rnd_ge0.
  apply Rmult_le_pos; [apply IZR_le; lia | apply Rlt_le, Rinv_0_lt_compat, IZR_lt; lia].
Qed.

End Fmt.

(* ------------------------------------------------------------------ binary32 / binary64 instances *)
#[local] Instance p24 : Prec_gt_0 24 := eq_refl.
#[local] Instance p53 : Prec_gt_0 53 := eq_refl.
Definition rnd32 := round radix2 (FLT_exp (-149) 24) ZnearestE.
Definition rnd64 := round radix2 (FLT_exp (-1074) 53) ZnearestE.
Definition R32 (k : Z) : R := (IZR k * bpow radix2 (-149))%R.
Definition R64 (k : Z) : R := (IZR k * bpow radix2 (-1074))%R.
Lemma H3a : 3 <= 128. Proof. lia. Qed.
Lemma H3b : 3 <= 1024. Proof. lia. Qed.

Lemma R32_inj : forall a b, R32 a = R32 b -> a = b.
Proof. exact (valR_inj 24 128). Qed.
Lemma R32_lt : forall a b, (R32 a < R32 b)%R <-> a < b.
Proof. exact (valR_lt 24 128). Qed.
Lemma R64_le : forall a b, (R64 a <= R64 b)%R <-> a <= b.
Proof. exact (valR_le 53 1024). Qed.

Lemma f32div_fl_correct : forall c n, 0 <= c <= 2 ^ 24 -> 0 < n <= 2 ^ 24 ->
  R32 (f32div_fl c n) = rnd32 (IZR c / IZR n).
Proof. intros c n Hc Hn. exact (fdiv_correct 24 128 eq_refl eq_refl H3a c n Hc Hn). Qed.

Lemma f64div_fl_correct : forall c n, 0 <= c <= 2 ^ 53 -> 0 < n <= 2 ^ 53 ->
  R64 (f64div_fl c n) = rnd64 (IZR c / IZR n).
Proof. intros c n Hc Hn. exact (fdiv_correct 53 1024 eq_refl eq_refl H3b c n Hc Hn). Qed.

Lemma R64_one : R64 one64_fl = 1%R.
Proof.
  unfold R64, one64_fl. rewrite Z.shiftl_mul_pow2 by lia. rewrite Z.mul_1_l.
  change 2 with (radix_val radix2). rewrite (IZR_Zpower radix2) by lia. rewrite <- bpow_plus. reflexivity.
Qed.

(* conversion of a float64 in [0, 2^24] to float32 *)
Lemma f64to32_fl_correct : forall x, 0 <= x -> (R64 x <= bpow radix2 24)%R ->
  R32 (f64to32_fl x) = rnd32 (R64 x).
Proof.
  intros x Hx Hb. unfold f64to32_fl. change (R32 ?k) with (valR 24 128 k). rewrite key_B2R.
  generalize (binary_normalize_correct 24 128 eq_refl eq_refl mode_NE x (-1074) false). simpl round_mode.
  assert (HF : F2R (Float radix2 x (-1074)) = R64 x) by reflexivity.
  cbv zeta. rewrite HF.
  assert (H0 : (0 <= R64 x)%R).
  { unfold R64. apply Rmult_le_pos; [apply IZR_le; lia | apply Rlt_le, bpow_gt_0]. }
  rewrite Rlt_bool_true; [intros (H1 & _); exact H1|].
  rewrite Rabs_pos_eq by (apply (rnd_ge0 24 128 eq_refl); exact H0).
  apply Rle_lt_trans with (bpow radix2 24); [|apply bpow_lt; lia].
  apply (rnd_le_fmt 24 128 eq_refl); [|exact Hb].
  apply generic_format_bpow. unfold SpecFloat.fexp, SpecFloat.emin. lia.
Qed.

Lemma int_f32 : forall c : Z, Z.abs c <= 2 ^ 24 -> FLT_format radix2 (-149) 24 (IZR c).
Proof.
  intros c Hc. apply FLT_format_generic; [reflexivity|]. exact (int_format 24 128 eq_refl H3a c Hc).
Qed.

(* ported from design_spikes/flocq_double_rounding.v *)
Lemma freq_double_round : forall c n : Z, 0 < n <= 2 ^ 24 -> 0 <= c <= 2 ^ 24 ->
  rnd32 (rnd64 (IZR c / IZR n)) = rnd32 (IZR c / IZR n).
Proof.
  intros c n Hn Hc. unfold rnd32, rnd64.
  apply (round_round_div_FLT radix2 (-149) 24 (-1074) 53).
  - exists 1; reflexivity.
  - lia.
  - lia.
  - apply IZR_neq; lia.
  - apply int_f32; lia.
  - apply int_f32; lia.
Qed.

Lemma f64div_fl_bounds : forall c n, 0 <= c <= 2 ^ 24 -> 0 < n <= 2 ^ 24 ->
  0 <= f64div_fl c n /\ (R64 (f64div_fl c n) <= bpow radix2 24)%R.
Proof.
  intros c n Hc Hn. split.
  - apply (fdiv_ge_zero 53 1024 eq_refl eq_refl H3b); lia.
  - rewrite f64div_fl_correct by lia. apply (rnd_le_fmt 53 1024 eq_refl).
    + apply generic_format_bpow. unfold SpecFloat.fexp, SpecFloat.emin. lia.
    + apply Rle_trans with (IZR c).
      * apply Rdiv_le_l; [apply IZR_lt; lia|]. rewrite <- mult_IZR. apply IZR_le. nia.
      * change (bpow radix2 24) with (IZR (2 ^ 24)). apply IZR_le. lia.
Qed.

(* the float32 frequency of a count and the float32 image of the float64 occurrence bound coincide *)
Lemma equal_bound_key : forall c n, 0 <= c <= 2 ^ 24 -> 0 < n <= 2 ^ 24 ->
  f64to32_fl (f64div_fl c n) = f32div_fl c n.
Proof.
  intros c n Hc Hn. apply R32_inj.
  destruct (f64div_fl_bounds c n Hc Hn) as [H0 Hb].
  rewrite f64to32_fl_correct by assumption.
  rewrite f64div_fl_correct by lia. rewrite f32div_fl_correct by lia.
  apply freq_double_round; lia.
Qed.

Lemma f64div_le_one : forall k n, 0 <= k <= n -> 0 < n <= 2 ^ 53 -> f64div_fl k n <= one64_fl.
Proof.
  intros k n Hk Hn. apply R64_le. rewrite R64_one.
  exact (fdiv_le_one 53 1024 eq_refl eq_refl H3b k n Hk Hn).
Qed.

(* below 2^24 tokens, the float comparisons of an occurrence bound are the integer comparisons of the counts *)
Lemma min_occ_decision : forall c k n, 0 < n < 2 ^ 24 -> 0 <= c <= n -> 0 <= k <= n ->
  (f32div_fl c n <? f64to32_fl (f64div_fl k n)) = (c <? k).
Proof.
  intros c k n Hn Hc Hk. rewrite equal_bound_key by lia.
  destruct (Z.ltb_spec c k) as [H|H].
  - apply Z.ltb_lt. apply (fdiv_strict 24 128 eq_refl eq_refl H3a); lia.
  - apply Z.ltb_ge. apply (fdiv_mono 24 128 eq_refl eq_refl H3a); lia.
Qed.

Lemma max_occ_decision : forall c k n, 0 < n < 2 ^ 24 -> 0 <= c <= n -> 0 <= k <= n ->
  (f64to32_fl (Z.min one64_fl (f64div_fl k n)) <? f32div_fl c n) = (k <? c).
Proof.
  intros c k n Hn Hc Hk. rewrite Z.min_r by (apply f64div_le_one; lia).
  rewrite equal_bound_key by lia.
  destruct (Z.ltb_spec k c) as [H|H].
  - apply Z.ltb_lt. apply (fdiv_strict 24 128 eq_refl eq_refl H3a); lia.
  - apply Z.ltb_ge. apply (fdiv_mono 24 128 eq_refl eq_refl H3a); lia.
Qed.

Lemma min_dococc_decision : forall c k n, 0 < n < 2 ^ 53 -> 0 <= c <= n -> 0 <= k <= n ->
  (f64div_fl c n <? f64div_fl k n) = (c <? k).
Proof.
  intros c k n Hn Hc Hk.
  destruct (Z.ltb_spec c k) as [H|H].
  - apply Z.ltb_lt. apply (fdiv_strict 53 1024 eq_refl eq_refl H3b); lia.
  - apply Z.ltb_ge. apply (fdiv_mono 53 1024 eq_refl eq_refl H3b); lia.
Qed.

Lemma max_dococc_decision : forall c k n, 0 < n < 2 ^ 53 -> 0 <= c <= n -> 0 <= k <= n ->
  (Z.min one64_fl (f64div_fl k n) <? f64div_fl c n) = (k <? c).
Proof.
  intros c k n Hn Hc Hk. rewrite Z.min_r by (apply f64div_le_one; lia).
  destruct (Z.ltb_spec k c) as [H|H].
  - apply Z.ltb_lt. apply (fdiv_strict 53 1024 eq_refl eq_refl H3b); lia.
  - apply Z.ltb_ge. apply (fdiv_mono 53 1024 eq_refl eq_refl H3b); lia.
Qed.

(* the default bounds 0.0 and 1.0 never prune *)
Lemma default_bounds_vacuous32 : forall c n, 0 < n <= 2 ^ 24 -> 0 <= c <= n ->
  (f32div_fl c n <? f64to32_fl 0) = false /\ (f64to32_fl one64_fl <? f32div_fl c n) = false.
Proof.
  intros c n Hn Hc. split.
  - apply Z.ltb_ge. change (f64to32_fl 0) with 0. apply (fdiv_ge_zero 24 128 eq_refl eq_refl H3a); lia.
  - apply Z.ltb_ge. apply (valR_le 24 128). change (valR 24 128) with R32.
    rewrite f64to32_fl_correct; [|unfold one64_fl; rewrite Z.shiftl_mul_pow2 by lia; lia|
      rewrite R64_one; change 1%R with (bpow radix2 0); apply bpow_le; lia].
    rewrite R64_one. unfold rnd32. change (FLT_exp (-149) 24) with (SpecFloat.fexp 24 128).
    rewrite (rnd_id 24 128) by (apply (one_format 24 128 eq_refl H3a)).
    exact (fdiv_le_one 24 128 eq_refl eq_refl H3a c n Hc Hn).
Qed.

Lemma default_bounds_vacuous64 : forall c n, 0 < n <= 2 ^ 53 -> 0 <= c <= n ->
  (f64div_fl c n <? 0) = false /\ (one64_fl <? f64div_fl c n) = false.
Proof.
  intros c n Hn Hc. split.
  - apply Z.ltb_ge. apply (fdiv_ge_zero 53 1024 eq_refl eq_refl H3b); lia.
  - apply Z.ltb_ge. apply f64div_le_one; lia.
Qed.

(* at 2^24 + 1 tokens a token occurring exactly max_occurrences = 1 times is above the bound *)
Lemma equal_bound_fails_above : (f64to32_fl (Z.min one64_fl (f64div_fl 1 (2 ^ 24 + 1))) <? f32div_fl 1 (2 ^ 24 + 1)) = true.
Proof. vm_compute. reflexivity. Qed.
