(* K02 — linear-algebra facts behind "fit_transform(X) = fit(X).transform(X)" for the SVD-compressed estimators
   (WassersteinVectorizer, SinkhornVectorizer, ApproximateWassersteinVectorizer, CountFeatureCompressionTransformer):
   fit_transform returns U * diag S (the left factor of the decomposition of the uncompressed matrix X), transform
   returns X * V^T (projection on the learned components).  MathComp matrices over an arbitrary field. *)
From mathcomp Require Import all_ssreflect all_algebra.
Set Implicit Arguments.
Unset Strict Implicit.
Unset Printing Implicit Defensive.
Import GRing.Theory.
Local Open Scope ring_scope.

Section SVD.
Variable F : fieldType.
Variables n m k : nat.

Lemma svd_roundtrip (X : 'M[F]_(n, m)) (U : 'M[F]_(n, k)) (S : 'rV[F]_k) (V : 'M[F]_(k, m)) :
  X = U *m diag_mx S *m V -> V *m V^T = 1%:M -> X *m V^T = U *m diag_mx S.
Proof. by move=> -> VV; rewrite -mulmxA VV mulmx1. Qed.

(* rows in the row space of V keep their squared Euclidean distances under projection (C08 isometry clause) *)
Lemma projection_isometry (x y : 'rV[F]_m) (a b : 'rV[F]_k) (V : 'M[F]_(k, m)) :
  x = a *m V -> y = b *m V -> V *m V^T = 1%:M ->
  (x *m V^T - y *m V^T) *m (x *m V^T - y *m V^T)^T = (x - y) *m (x - y)^T.
Proof.
move=> -> -> VV.
rewrite -!mulmxA VV !mulmx1 -mulmxBl trmx_mul mulmxA -[(a - b) *m V *m V^T]mulmxA VV mulmx1.
by [].
Qed.

(* projecting the training matrix row by row is projecting the matrix: no row sees another row *)
Lemma projection_rowwise (X : 'M[F]_(n, m)) (V : 'M[F]_(k, m)) (i : 'I_n) :
  row i (X *m V^T) = row i X *m V^T.
Proof. by rewrite row_mul. Qed.
End SVD.
