(* K1, array level, part 4: KEY PRESERVATION, and what it buys for the drivers' allocation.

   The per-operation lemmas of K01_CooAcc_proofs.v state that the sum by key of the live entries is kept.  That does not
   say that the SET of live keys is kept (an entry of value 0, or values that cancel, are invisible to the sums).  Here:
     - run-length compression, the stable sort and the interleaving of the carry keep the set of keys (list level);
     - merge_sum_duplicates, coo_sum_duplicates, merge_all_sum_duplicates keep the set of keys of the live entries
       (msd_keys, csd_keys, ma_keys); after merge_all the live keys are strictly sorted, hence `ind` IS the number of
       distinct keys of the live entries before it (ma_ind_distinct);
     - consequence for the level stack: a flush is NOT followed by merge_all only if `capacity - ind' > limit`, and
       ind' >= the number of distinct live keys.  After coo_increase_mem the live keys are distinct and there are at
       least 0.95 * (old capacity) of them, for ever (no key is lost).  So a buffer that starts at most `limit` long
       keeps F = 0 (no un-merged flush, level counter <= 4, depth <= 3) through every growth with
            grow_size limit cap <= limit + ceil(0.95 * cap)
       and the event-volume budget of K01_CooAcc_volume.v is only needed from the first growth that violates this,
       by which time coo_increase_mem has enlarged `min` several times (driver_mlen). *)
From Coq Require Import ZArith List Bool Lia Sorting.Sorted Permutation.
From VZ Require Import Model.K01_CooAcc Proofs.K01_CooAcc_list Proofs.K01_CooAcc_arrays Proofs.K01_CooAcc_proofs
  Proofs.K01_CooAcc_volume.
Import ListNotations.
Open Scope Z_scope.

(* ------------------------------------------------------------------ list level: sets of keys *)
Definition same_keys (a b : list entry) : Prop := forall k, In k (keys a) <-> In k (keys b).

Lemma same_keys_refl a : same_keys a a.
Proof. intros k. reflexivity. Qed.

Lemma same_keys_sym a b : same_keys a b -> same_keys b a.
Proof. intros H k. symmetry. apply H. Qed.

Lemma same_keys_trans a b c : same_keys a b -> same_keys b c -> same_keys a c.
Proof. intros H1 H2 k. rewrite (H1 k). apply H2. Qed.

Lemma same_keys_perm a b : Permutation a b -> same_keys a b.
Proof.
  intros P k. unfold keys. split; intros H.
  - eapply Permutation_in; [apply Permutation_map; exact P|exact H].
  - eapply Permutation_in; [apply Permutation_map, Permutation_sym; exact P|exact H].
Qed.

Lemma same_keys_app a a' b b' : same_keys a a' -> same_keys b b' -> same_keys (a ++ b) (a' ++ b').
Proof.
  intros H1 H2 k. unfold keys. rewrite !map_app, !in_app_iff. fold (keys a) (keys a') (keys b) (keys b').
  rewrite (H1 k), (H2 k). reflexivity.
Qed.

Lemma keys_app a b : keys (a ++ b) = keys a ++ keys b.
Proof. apply map_app. Qed.

(* the run-length loop keeps every key: the keys of (finished runs ++ [current run]) are those of (this :: R) *)
Lemma rl_keys R : forall this k,
  In k (keys (fst (rl this R) ++ [snd (rl this R)])) <-> In k (keys (this :: R)).
Proof.
  induction R as [|e t IH]; intros this k; simpl; [reflexivity|].
  destruct (e_key e =? e_key this) eqn:E.
  - apply Z.eqb_eq in E. rewrite (IH (add_val this (e_val e)) k). simpl. rewrite e_key_add_val, E. tauto.
  - specialize (IH e k). destruct (rl e t) as [d th]. simpl in *. rewrite IH. tauto.
Qed.

Lemma rlc_keys l : same_keys (rlc l) l.
Proof.
  destruct l as [|e t]; [apply same_keys_refl|]. intros k. unfold rlc.
  pose proof (rl_keys t e k) as H. destruct (rl e t) as [d th]. exact H.
Qed.

(* one sort window, one carry *)
Lemma window_keys seg : same_keys (rlc (sort_by_key seg)) seg.
Proof. eapply same_keys_trans; [apply rlc_keys|apply same_keys_sym, same_keys_perm, sort_perm]. Qed.

Lemma carry_keys f A B : same_keys (rlc (interleave f A B)) (A ++ B).
Proof. eapply same_keys_trans; [apply rlc_keys|apply same_keys_sym, same_keys_perm, interleave_perm]. Qed.

(* the specification-level compress keeps every key too (C04_window_* are stated with it) *)
Lemma compress_keys l : same_keys (compress l) l.
Proof.
  intros k. split; [apply compress_keys_incl|].
  induction l as [|e t IH]; simpl; [tauto|].
  destruct (compress t) as [|e' t'] eqn:E; simpl in *.
  - intros [H|H]; [left; exact H|destruct (IH H)].
  - destruct (e_key e =? e_key e') eqn:Ek; simpl.
    + apply Z.eqb_eq in Ek. rewrite e_key_add_val. intros [H|H]; [left; exact H|].
      destruct (IH H) as [H'|H']; [left; lia|right; exact H'].
    + intros [H|H]; [left; exact H|right; apply IH, H].
Qed.

(* strictly sorted keys are distinct; two duplicate-free lists with the same elements have the same length *)
Lemma same_keys_NoDup_length a b :
  same_keys a b -> NoDup (keys a) -> NoDup (keys b) -> zlen a = zlen b.
Proof.
  intros H Na Nb. unfold zlen. f_equal.
  assert (P : Permutation (keys a) (keys b)) by (apply NoDup_Permutation; assumption).
  apply Permutation_length in P. unfold keys in P. rewrite !map_length in P. exact P.
Qed.

(* a strictly sorted list has as many entries as the list it shares its keys with has distinct keys *)
Lemma ssorted_count_distinct a b :
  same_keys a b -> ssorted a -> zlen a = zlen (nodup Z.eq_dec (keys b)).
Proof.
  intros H Hs. pose proof (ssorted_NoDup a Hs) as Na.
  assert (P : Permutation (keys a) (nodup Z.eq_dec (keys b))).
  { apply NoDup_Permutation; [exact Na|apply NoDup_nodup|]. intros k. rewrite nodup_In. apply H. }
  apply Permutation_length in P. unfold keys in P at 1. rewrite map_length in P. unfold zlen. lia.
Qed.

(* a duplicate-free list of keys all of which are live is no longer than the live region *)
Lemma distinct_le_live W l : NoDup W -> incl W (keys l) -> zlen W <= zlen l.
Proof.
  intros N I. pose proof (NoDup_incl_length N I) as L. unfold keys in L. rewrite map_length in L. unfold zlen. lia.
Qed.

Section WithQ.
Variable Q : Z * Z * Z -> Prop.

(* ------------------------------------------------------------------ merge_level, msd_loop, merge_sum_duplicates *)
Lemma live_split c lo : 0 <= lo <= ind c -> live c = firstn (Z.to_nat lo) (buf c) ++ slice (buf c) lo (ind c).
Proof. intros H. unfold live. apply firstn_slice. exact H. Qed.

Lemma msd_loop_keys : forall n i c,
  i = depth c - Z.of_nat n -> 0 <= i ->
  depth c < zlen (mn c) ->
  chain_from (mn c) i (depth c) ->
  Z.abs (nthZ (mn c) i) <= ind c -> ind c <= cap c ->
  keys_nonneg Q (live c) ->
  forall c' nd, msd_loop n i c = Ok (c', nd) ->
  same_keys (live c') (live c).
Proof.
  induction n as [|n IH]; intros i c Hi Hi0 Hd Hch Hmi Huc Hk c' nd HE.
  - simpl in HE. inversion HE; subst. apply same_keys_refl.
  - simpl msd_loop in HE. assert (Hid : i < depth c) by lia.
    rewrite (getZ_nthZ _ (mn c) i) in HE by lia. simpl bind in HE.
    pose proof (Z.abs_nonneg (nthZ (mn c) i)) as Habs.
    destruct (nthZ (mn c) i <=? 0) eqn:E.
    + rewrite setZ_ok in HE by (rewrite zlen_fill_prefix; lia). simpl bind in HE.
      inversion HE; subst. unfold set_mn, live; simpl. apply same_keys_refl.
    + apply Z.leb_gt in E.
      set (mid := nthZ (mn c) i) in *. set (lo := Z.abs (nthZ (mn c) (i + 1))).
      assert (Hlm : lo <= mid) by (specialize (Hch i ltac:(lia)); unfold lo; lia).
      assert (Hmu : mid <= ind c) by lia.
      assert (Hlo0 : 0 <= lo) by apply Z.abs_nonneg.
      destruct (merge_level_ok Q c i lo mid) as (c1 & f & M1 & M2 & M3 & M4 & M5 & M6 & M7);
        auto; try lia.
      { apply live_slice_nonneg; [lia|exact Hk]. }
      rewrite M1 in HE. simpl bind in HE.
      set (A := slice (buf c) lo mid) in *. set (B := slice (buf c) mid (ind c)) in *.
      assert (HAB : slice (buf c) lo (ind c) = A ++ B) by (apply seg_split; unfold cap in *; lia).
      assert (K1 : same_keys (live c1) (live c)).
      { rewrite M6, (live_split c lo) by lia. rewrite HAB.
        apply same_keys_app; [apply same_keys_refl|apply carry_keys]. }
      assert (Hk1 : keys_nonneg Q (live c1)).
      { rewrite M6. apply keys_nonneg_app. split; [apply live_prefix_nonneg; [lia|exact Hk]|].
        apply keys_nonneg_rlc. eapply keys_nonneg_perm; [apply interleave_perm|].
        rewrite <- HAB. apply live_slice_nonneg; [lia|exact Hk]. }
      eapply same_keys_trans; [|exact K1].
      apply (IH (i + 1) c1) with (nd := nd).
      * rewrite M3. lia.
      * lia.
      * rewrite M2, M3. exact Hd.
      * rewrite M2, M3. intros j Hj. apply Hch. lia.
      * rewrite M2. fold lo. lia.
      * rewrite M4. lia.
      * exact Hk1.
      * exact HE.
Qed.

Lemma msd_live c c1 nd c' :
  msd_loop (Z.to_nat (depth c)) 0 c = Ok (c1, nd) -> merge_sum_duplicates c = Ok c' -> live c' = live c1.
Proof.
  intros H1 H2. unfold merge_sum_duplicates in H2. rewrite H1 in H2. simpl bind in H2.
  destruct nd; [|inversion H2; reflexivity].
  destruct (setZ S_ms_newdepth _ _ _); simpl bind in H2; [|discriminate]. inversion H2; subst. reflexivity.
Qed.

(* merge_sum_duplicates (the carry through the levels) neither loses nor invents a key *)
Lemma msd_keys c c' :
  stack_ok Q c -> ind c <= cap c -> merge_sum_duplicates c = Ok c' -> same_keys (live c') (live c).
Proof.
  intros [Hd Hz Hch Hi Hk Hfree Hruns] Huc HE.
  destruct (msd_loop (Z.to_nat (depth c)) 0 c) as [[c1 nd]|s] eqn:EL.
  - rewrite (msd_live c c1 nd c' EL HE).
    apply (msd_loop_keys (Z.to_nat (depth c)) 0 c) with (nd := nd); auto; lia.
  - unfold merge_sum_duplicates in HE. rewrite EL in HE. discriminate.
Qed.

(* ------------------------------------------------------------------ coo_sum_duplicates *)
Lemma csd_keys c c' :
  stack_ok Q c -> ind c < cap c -> coo_sum_duplicates c = Ok c' -> same_keys (live c') (live c).
Proof.
  intros [Hd Hz Hch Hi Hk Hfree Hruns] Huc HE.
  set (lo := Z.abs (nthZ (mn c) 0)).
  assert (Hlo0 : 0 <= lo) by apply Z.abs_nonneg.
  destruct (sd_phase c lo) as (cm & S1 & S2 & S3 & S4 & S5 & S6); try lia; try reflexivity.
  assert (Hseg : keys_nonneg Q (slice (buf c) lo (ind c))) by (apply live_slice_nonneg; [lia|exact Hk]).
  assert (Km : same_keys (live cm) (live c)).
  { rewrite S6, (live_split c lo) by lia. apply same_keys_app; [apply same_keys_refl|apply window_keys]. }
  assert (Hkm : keys_nonneg Q (live cm)).
  { rewrite S6. apply keys_nonneg_app. split; [apply live_prefix_nonneg; [lia|exact Hk]|].
    apply keys_nonneg_rlc. eapply keys_nonneg_perm; [apply sort_perm|exact Hseg]. }
  rewrite S1 in HE.
  destruct (msd_loop (Z.to_nat (depth cm)) 0 cm) as [[c1 nd]|s] eqn:EL.
  - rewrite (msd_live cm c1 nd c' EL HE). eapply same_keys_trans; [|exact Km].
    apply (msd_loop_keys (Z.to_nat (depth cm)) 0 cm) with (nd := nd); rewrite ?S2, ?S3, ?S4; auto; try lia.
    all: first [fold lo; lia | rewrite <- S3; exact EL].
  - unfold merge_sum_duplicates in HE. rewrite EL in HE. discriminate.
Qed.

(* ------------------------------------------------------------------ merge_all_sum_duplicates *)
(* the compaction of the min stack (first half of ma_ok): merge_all is merge_sum_duplicates on a state with the same
   buffer and `ind`, whose stack holds the occupied levels only and still satisfies the invariant *)
Lemma ma_reduce c :
  stack_ok Q c -> ind c <= cap c ->
  exists m2, merge_all_sum_duplicates c = merge_sum_duplicates (set_mn c m2) /\ stack_ok Q (set_mn c m2).
Proof.
  intros [Hd Hz Hch Hi Hk Hfree Hruns] Huc.
  set (d := depth c) in *. set (m := mn c) in *.
  set (X := slice m 0 d).
  assert (SX : seg m 0 d X) by (apply seg_slice; lia).
  assert (LX : zlen X = d) by (destruct SX as (_ & H & _); lia).
  assert (EX : X = firstn (Z.to_nat d) m) by (unfold X, slice; rewrite Z.sub_0_r; reflexivity).
  set (pos := filter gt0 X).
  assert (Lp : 0 <= zlen pos <= d).
  { split; [apply zlen_nonneg|]. rewrite <- LX. unfold pos, zlen.
    pose proof (filter_length_le' gt0 X). lia. }
  unfold merge_all_sum_duplicates. fold d. fold m.
  replace (Z.to_nat d) with (length X) by (unfold zlen in LX; lia).
  rewrite (positives_ok m X 0 d SX). simpl bind. fold pos.
  set (new_min := pos ++ repeat 0 (length X - length pos)).
  assert (Ln : zlen new_min = d).
  { unfold new_min. zl. unfold zlen in *. lia. }
  destruct (assign_slice_ok S_ma_assign m 0 d new_min) as (m2 & E1 & E2 & E3); [lia|lia|lia|].
  rewrite E1. simpl bind.
  simpl firstn in E2. rewrite app_nil_l in E2.
  exists m2. split; [reflexivity|].
  assert (N1 : forall j, 0 <= j < zlen pos -> nthZ m2 j = nthZ pos j).
  { intros j Hj. rewrite E2. unfold new_min. rewrite <- app_assoc. apply nthZ_app_l. lia. }
  assert (N2 : forall j, zlen pos <= j < d -> nthZ m2 j = 0).
  { intros j Hj. rewrite E2. unfold new_min. rewrite <- app_assoc. rewrite nthZ_app_r by lia.
    rewrite nthZ_app_l by (zl; unfold zlen in *; lia). apply nthZ_repeat. unfold zlen in *. lia. }
  assert (N3 : forall j, d <= j -> nthZ m2 j = 0).
  { intros j Hj. rewrite E2. rewrite nthZ_app_r by lia. rewrite Ln.
    destruct (Z_lt_le_dec j (zlen m)).
    - unfold nthZ. destruct (j - d <? 0) eqn:E; [apply Z.ltb_lt in E; lia|].
      rewrite nth_skipn'. replace (Z.to_nat d + Z.to_nat (j - d))%nat with (Z.to_nat j) by lia.
      specialize (Hz j Hj). unfold nthZ in Hz. destruct (j <? 0) eqn:E'; [apply Z.ltb_lt in E'; lia|]. exact Hz.
    - apply nthZ_beyond. rewrite zlen_skipn by lia. lia. }
  assert (PX : forall x, In x pos -> x > 0 /\ In x X).
  { intros x Hx. apply filter_In in Hx. destruct Hx as [H1 H2]. unfold gt0 in H2. apply Z.gtb_lt in H2. split; [lia|exact H1]. }
  assert (SXs : StronglySorted absge X).
  { apply adjacent_sorted. intros j Hj0 Hj. rewrite EX, !nthZ_firstn by lia. apply Hch. lia. }
  assert (Sp : StronglySorted absge pos) by (apply filter_sorted, SXs).
  assert (RL : runs_list (buf c) X 0).
  { apply (runs_list_of_pointwise (buf c) m 0 X 0 d SX); [apply Hz; lia| |].
    - intros j Hj. apply Hfree. lia.
    - intros j Hj. apply (Hruns j). lia. }
  assert (RL2 : runs_list (buf c) new_min 0) by (apply runs_filter, RL).
  assert (S2 : seg m2 0 d new_min).
  { split; [lia|]. split; [lia|]. rewrite slice0_firstn, E2. apply firstnZ_app. symmetry; exact Ln. }
  pose proof (pointwise_of_runs_list (buf c) m2 0 new_min 0 d S2 (N3 d ltac:(lia)) RL2) as PW.
  assert (H0 : Z.abs (nthZ m2 0) = Z.abs (nthZ m 0)).
  { rewrite <- (start_of_seg m2 new_min 0 d 0 S2 (N3 d ltac:(lia))).
    rewrite <- (start_of_seg m X 0 d 0 SX (Hz d ltac:(lia))). apply (start_filter (buf c)), RL. }
  constructor; unfold set_mn; simpl; fold d.
  - lia.
  - intros j Hj. apply N3, Hj.
  - intros j Hj.
    destruct (Z_lt_le_dec (j + 1) (zlen pos)).
    + rewrite !N1 by lia. apply (sorted_adjacent pos Sp); lia.
    + assert (nthZ m2 (j + 1) = 0) as ->.
      { destruct (Z_lt_le_dec (j + 1) d); [apply N2; lia|apply N3; lia]. }
      simpl. apply Z.abs_nonneg.
  - rewrite H0. fold m in Hi. exact Hi.
  - exact Hk.
  - intros j Hj. apply (PW j). lia.
  - intros j Hj. unfold run_at; simpl. apply (PW j). lia.
Qed.

(* merge_all_sum_duplicates neither loses nor invents a key *)
Lemma ma_keys c c' :
  stack_ok Q c -> ind c <= cap c -> merge_all_sum_duplicates c = Ok c' -> same_keys (live c') (live c).
Proof.
  intros SO Huc HE. destruct (ma_reduce c SO Huc) as (m2 & E & SO2). rewrite E in HE.
  apply (msd_keys (set_mn c m2) c' SO2 Huc HE).
Qed.

(* after merge_all the live keys are distinct, so `ind` is the number of distinct keys that were live before it *)
Lemma ma_ind_distinct c :
  stack_ok Q c -> ind c <= cap c -> cnt (mn c) (depth c) + 1 < 2 ^ (zlen (mn c) - 1) ->
  Z.abs (nthZ (mn c) 0) = ind c ->
  exists c', merge_all_sum_duplicates c = Ok c' /\ op_post Q c c' /\ ssorted (live c') /\
             same_keys (live c') (live c) /\ ind c' = zlen (nodup Z.eq_dec (keys (live c))).
Proof.
  intros SO Huc Hcnt Htail. destruct (ma_ok Q c SO Huc Hcnt Htail) as (c' & E & P & Hs).
  pose proof (ma_keys c c' SO Huc E) as K.
  exists c'. split; [exact E|]. split; [exact P|]. split; [exact Hs|]. split; [exact K|].
  destruct P as (SO' & P1 & _ & P3 & _).
  rewrite <- (ssorted_count_distinct (live c') (live c) K Hs).
  symmetry. apply zlen_live. lia.
Qed.

End WithQ.

(* ------------------------------------------------------------------ how far F = 0 carries: the drivers' regime *)
Lemma grow_min_size_ge n : 0 <= n -> n + 3 <= grow_min_size n.
Proof.
  intros H. unfold grow_min_size. pose proof (round_half_even_ge (3 * (n + 2)) ltac:(lia)).
  assert (n + 3 <= 3 * (n + 2) / 2) by (apply Z.div_le_lower_bound; lia). lia.
Qed.

(* The length of `min` at the first growth after which a flush may skip merge_all, for a buffer of capacity n <= limit
   with |min| = mlen, iterating coo_increase_mem as the model does: the growth n -> grow_size limit n happens when
   merge_all has left >= 0.95 * n distinct keys; none of them is ever lost, so afterwards every flush leaves
   ind' >= ceil(0.95 * n) and is followed by merge_all as long as  grow_size limit n - ceil(0.95 * n) <= limit.
   (fuel bounds the number of growths looked at; running out of it only gives a smaller, still valid, length) *)
Fixpoint driver_mlen (fuel : nat) (limit n mlen : Z) : Z :=
  match fuel with
  | O => mlen
  | S f => let n' := grow_size limit n in
           let m' := grow_min_size mlen in
           if n' <=? limit + cdiv (19 * n) 20 then driver_mlen f limit n' m' else m'
  end.

Lemma cdiv_19_20 n i : 19 * n <= 20 * i -> cdiv (19 * n) 20 <= i.
Proof. intros H. unfold cdiv. apply Z.lt_succ_r, Z.div_lt_upper_bound; lia. Qed.

Lemma zlen_keys l : zlen (keys l) = zlen l.
Proof. unfold zlen, keys. rewrite map_length. reflexivity. Qed.

Section Driver.
Variable Q : Z * Z * Z -> Prop.

(* the postcondition on the buffer geometry, with the exact sizes coo_increase_mem gives *)
Definition grown_exact (limit : Z) (c c' : coo) (F F' : Z) : Prop :=
  (cap c' = cap c /\ zlen (mn c') = zlen (mn c)) \/
  (F' = F /\ cap c' = grow_size limit (cap c) /\ zlen (mn c') = grow_min_size (zlen (mn c)) /\
   ssorted (live c') /\ 19 * cap c <= 20 * ind c').

(* an un-merged flush needs more room above the distinct live keys than `limit` *)
Definition unmerged_needs (limit : Z) (c : coo) : Prop :=
  forall W, NoDup W -> incl W (keys (live c)) -> limit + zlen W < cap c.

(* flush_tail_v with: key preservation, the exact geometry after growth, and the reason for an un-merged flush *)
Lemma flush_tail_k limit c F E :
  1 <= limit -> VInv Q limit c F E -> ind c <= cap c - 1 -> 20 <= cap c ->
  4 * F + 6 < 2 ^ (zlen (mn c) - 1) ->
  (limit <= ind c - Z.abs (nthZ (mn c) 0) \/ ind c = cap c - 1) ->
  exists c' F',
    flush_tail limit c = Ok c' /\ VInv Q limit c' F' E /\ ind c' <= cap c' - 2 /\ 20 <= cap c' /\
    (forall k, sumby (live c') k = sumby (live c) k) /\ same_keys (live c') (live c) /\
    (F' = F \/ (F' = F + 1 /\ unmerged_needs limit c)) /\
    grown_exact limit c c' F F'.
Proof.
  intros Hl (HI & HF & HP) Hic Hcap HG Hwhy.
  pose proof HI as (S0 & C0 & D0).
  pose proof (so_ind Q c S0) as Hi0. pose proof (so_depth Q c S0) as Hd0.
  set (a0 := Z.abs (nthZ (mn c) 0)) in *.
  set (P := 2 ^ (zlen (mn c) - 1)) in *.
  destruct (csd_ok Q c) as (c1 & E1 & P1); [exact S0|clear - Hic; lia|fold P; clear - C0 HG; lia|].
  assert (K1 : same_keys (live c1) (live c)) by (apply (csd_keys Q c c1 S0); [clear - Hic; lia|exact E1]).
  destruct P1 as (S1 & Q1 & Q2 & Q3 & Q4 & Q5 & Q6 & Q7).
  unfold flush_tail. rewrite E1. cbn [bind].
  pose proof (so_depth Q c1 S1) as Hd1.
  rewrite (getZ_nthZ _ (mn c1) 0) by (clear - Hd1; lia). cbn [bind]. rewrite Q4, Q1.
  assert (C1 : cnt (mn c1) (depth c1) <= 4 * F + 5) by (clear - C0 Q6; lia).
  assert (D1 : depth c1 = 0 \/ 2 ^ (depth c1 - 1) <= 4 * F + 5).
  { destruct Q7 as [Ed|[Ed Ed']].
    - rewrite Ed. destruct D0 as [D0|D0]; [left; exact D0|right; clear - D0; lia].
    - right. rewrite Ed. replace (depth c + 1 - 1) with (depth c) by lia. clear - Ed' C0. lia. }
  destruct (cap c - ind c1 <=? limit) eqn:T.
  - (* followed by merge_all: the counter is compacted *)
    apply Z.leb_le in T.
    destruct (ma_ok_strong Q c1) as (c2 & E2 & P2 & Hs & Hc2);
      [exact S1|clear - Q1 Q3 Hic; lia|rewrite Q2; fold P; clear - C1 HG; lia|exact Q4|].
    assert (K2 : same_keys (live c2) (live c)).
    { eapply same_keys_trans; [|exact K1]. apply (ma_keys Q c1 c2 S1); [clear - Q1 Q3 Hic; lia|exact E2]. }
    destruct P2 as (S2 & R1 & R2 & R3 & R4 & R5 & R6 & R7).
    rewrite E2. cbn [bind].
    assert (C2 : cnt (mn c2) (depth c2) <= 4 * (F + 1)).
    { pose proof (pow2_npos_le_cnt (mn c1) (depth c1)) as A1. pose proof (npos_nonneg (mn c1) (depth c1)) as A2.
      pose proof (pow2_4k (npos (mn c1) (depth c1)) F A2 HF ltac:(clear - A1 C1; lia)) as A3.
      clear - A3 Hc2. lia. }
    assert (D2 : depth c2 = 0 \/ 2 ^ (depth c2 - 1) <= 4 * (F + 1)).
    { destruct R7 as [Ed|[Ed Ed']].
      - rewrite Ed. destruct D1 as [D1|D1]; [left; exact D1|].
        destruct (Z_lt_le_dec (depth c1) 1); [left; clear - Hd1 l; lia|right].
        apply pow2_4k; [clear - l; lia|exact HF|clear - D1; lia].
      - right. rewrite Ed. replace (depth c1 + 1 - 1) with (depth c1) by lia.
        apply pow2_4k; [clear - Hd1; lia|exact HF|clear - Ed' C1; lia]. }
    assert (I2 : Inv Q c2 (4 * (F + 1))) by (split; [exact S2|split; [exact C2|exact D2]]).
    assert (HP2 : limit * F + 2 * ind c2 - Z.abs (nthZ (mn c2) 0) <= 2 * E)
      by (rewrite R4; clear - HP Hi0 Q3 R3; lia).
    assert (Hi2 : ind c2 <= cap c - 1) by (clear - R3 Q3 Hic; lia).
    assert (K2c : cap c2 = cap c) by (rewrite R1; exact Q1).
    assert (Z2 : zlen (mn c2) = zlen (mn c)) by (rewrite R2; exact Q2).
    assert (U2 : forall k, sumby (live c2) k = sumby (live c) k) by (intros k; rewrite R5, Q5; reflexivity).
    destruct (20 * ind c2 >=? 19 * cap c2) eqn:T2.
    + rewrite Z.geb_leb in T2. apply Z.leb_le in T2.
      destruct (grow_inv Q limit c2 (4 * (F + 1)) I2) as (I3 & G1 & G2 & G3 & G4); [rewrite K2c; clear - Hi2; lia|].
      exists (coo_increase_mem limit c2), F. split; [reflexivity|].
      pose proof (grow_size_bounds limit (cap c) Hcap) as [Hg1 Hg2].
      assert (Hmz : zlen (mn (coo_increase_mem limit c2)) = Z.max (zlen (mn c2)) (grow_min_size (zlen (mn c2))))
        by (unfold coo_increase_mem; simpl; apply zlen_extend).
      pose proof (grow_min_size_ge (zlen (mn c)) (zlen_nonneg (mn c))) as Hgm.
      split.
      { split; [exact I3|]. split; [exact HF|]. rewrite G1.
        replace (nthZ (mn (coo_increase_mem limit c2)) 0) with (nthZ (mn c2) 0)
          by (unfold coo_increase_mem; simpl; symmetry; apply nthZ_extend0). exact HP2. }
      unfold grown_exact. rewrite G1, G2, G4, K2c. rewrite Hmz, Z2. rewrite K2c in T2.
      replace (Z.max (cap c) (grow_size limit (cap c))) with (grow_size limit (cap c)) by (clear - Hg1; lia).
      replace (Z.max (zlen (mn c)) (grow_min_size (zlen (mn c)))) with (grow_min_size (zlen (mn c))) by (clear - Hgm; lia).
      split; [clear - Hi2 Hg1; lia|]. split; [clear - Hcap Hg1; lia|]. split; [exact U2|]. split; [exact K2|].
      split; [left; reflexivity|]. right.
      split; [reflexivity|]. split; [reflexivity|]. split; [reflexivity|]. split; [exact Hs|exact T2].
    + rewrite Z.geb_leb in T2. apply Z.leb_gt in T2. rewrite K2c in T2.
      exists c2, F. split; [reflexivity|]. split; [split; [exact I2|split; [exact HF|exact HP2]]|].
      unfold grown_exact. rewrite K2c, Z2.
      split; [clear - T2 Hcap; lia|]. split; [exact Hcap|]. split; [exact U2|]. split; [exact K2|].
      split; [left; reflexivity|]. left. split; reflexivity.
  - (* not followed by merge_all: one more unit of F; ind' >= the number of distinct live keys *)
    apply Z.leb_gt in T.
    exists c1, (F + 1). split; [reflexivity|].
    split.
    { split; [split; [exact S1|split]|split].
      - clear - C1; lia.
      - destruct D1 as [D1|D1]; [left; exact D1|right; clear - D1; lia].
      - clear - HF; lia.
      - rewrite Q4. clear - Hwhy HP Hi0 Q3 T Hic. destruct Hwhy as [W|W]; lia. }
    unfold grown_exact. rewrite Q1, Q2.
    split; [clear - T Hl; lia|]. split; [exact Hcap|]. split; [exact Q5|]. split; [exact K1|].
    split; [|left; split; reflexivity].
    right. split; [reflexivity|]. intros W NW IW.
    assert (LW : zlen W <= zlen (live c1)).
    { apply distinct_le_live; [exact NW|]. intros k Hk. apply K1, IW, Hk. }
    rewrite zlen_live in LW by (rewrite Q1; clear - Q3 Hic; lia). clear - LW T. lia.
Qed.

(* ------------------------------------------------------------------ coo_append *)
Lemma coo_append_k limit c F E ev :
  1 <= limit -> VInv Q limit c F E -> ind c <= cap c - 2 -> 20 <= cap c -> (0 <= e_key ev /\ Q (rck ev)) ->
  4 * F + 6 < 2 ^ (zlen (mn c) - 1) ->
  exists c' F',
    coo_append limit c ev = Ok c' /\ VInv Q limit c' F' (E + 1) /\ ind c' <= cap c' - 2 /\ 20 <= cap c' /\
    (forall k, sumby (live c') k = sumby (live c) k + sumby [ev] k) /\ same_keys (live c') (live c ++ [ev]) /\
    (F' = F \/ (F' = F + 1 /\ unmerged_needs limit c)) /\ grown_exact limit c c' F F'.
Proof.
  intros Hl (HI & HF & HP) Hic Hcap Hev HG.
  pose proof HI as ([Hd Hz Hch Hi Hk Hfree Hruns] & C & D).
  pose proof (Z.abs_nonneg (nthZ (mn c) 0)) as Habs.
  unfold coo_append. rewrite setZ_okA by (unfold cap in *; clear - Hi Habs Hic; lia). cbn [bind].
  set (c1 := {| buf := upd (buf c) (Z.to_nat (ind c)) ev; ind := ind c + 1; mn := mn c; depth := depth c |}).
  assert (L1 : live c1 = live c ++ [ev]) by (apply live_append; clear - Hi Habs Hic; lia).
  assert (I1 : Inv Q c1 (4 * (F + 1))).
  { split; [constructor; simpl; auto; try (clear - Hi; lia)|split; [exact C|exact D]].
    - rewrite L1. apply keys_nonneg_app. split; [exact Hk|]. constructor; [exact Hev|constructor].
    - intros j Hj. unfold run_at; simpl.
      assert (Z.abs (nthZ (mn c) j) <= Z.abs (nthZ (mn c) 0)) by (apply (chain_le (mn c) 0 (depth c)); [exact Hch|lia]).
      rewrite (slice_prefix_eq _ (buf c) _ _ (ind c)); [apply Hruns; exact Hj|apply Z.abs_nonneg|lia|apply firstn_upd]. }
  assert (V1 : VInv Q limit c1 F (E + 1)).
  { split; [exact I1|]. split; [exact HF|]. unfold c1; cbn [ind mn]. clear - HP. lia. }
  assert (K1 : cap c1 = cap c) by (unfold cap, c1; simpl; apply zlen_upd).
  assert (S1 : forall k, sumby (live c1) k = sumby (live c) k + sumby [ev] k)
    by (intros k; rewrite L1; apply sumby_app).
  assert (Z1 : zlen (mn c1) = zlen (mn c)) by reflexivity.
  assert (J1 : ind c1 = ind c + 1) by reflexivity.
  assert (UN : unmerged_needs limit c1 -> unmerged_needs limit c).
  { intros H W NW IW. rewrite <- K1. apply H; [exact NW|]. intros k Hkk. rewrite L1, keys_app. apply in_or_app. left. apply IW, Hkk. }
  rewrite (getZ_nthZ _ (mn c1) 0) by (simpl; clear - Hd; lia). cbn [bind].
  clearbody c1.
  destruct (ind c1 - Z.abs (nthZ (mn c1) 0) >=? limit) eqn:T0.
  - rewrite Z.geb_leb in T0. apply Z.leb_le in T0.
    destruct (flush_tail_k limit c1 F (E + 1)) as (c2 & F' & E2 & V2 & J2 & C2 & U2 & KK & FF & GG);
      [exact Hl|exact V1|rewrite K1, J1; clear - Hic; lia|rewrite K1; exact Hcap|rewrite Z1; exact HG|left; exact T0|].
    rewrite E2. cbn [bind].
    replace (ind c2 =? cap c2 - 1) with false by (symmetry; apply Z.eqb_neq; clear - J2; lia).
    exists c2, F'. split; [reflexivity|]. split; [exact V2|]. split; [exact J2|]. split; [exact C2|].
    split; [intros k; rewrite U2; apply S1|]. split; [rewrite <- L1; exact KK|].
    split; [destruct FF as [FF|[FF1 FF2]]; [left; exact FF|right; split; [exact FF1|apply UN, FF2]]|].
    unfold grown_exact in *. rewrite K1, Z1 in GG. exact GG.
  - cbn [bind]. destruct (ind c1 =? cap c1 - 1) eqn:T.
    + apply Z.eqb_eq in T.
      destruct (flush_tail_k limit c1 F (E + 1)) as (c2 & F' & E2 & V2 & J2 & C2 & U2 & KK & FF & GG);
        [exact Hl|exact V1|rewrite K1, J1; clear - Hic; lia|rewrite K1; exact Hcap|rewrite Z1; exact HG|right; exact T|].
      exists c2, F'. split; [exact E2|]. split; [exact V2|]. split; [exact J2|]. split; [exact C2|].
      split; [intros k; rewrite U2; apply S1|]. split; [rewrite <- L1; exact KK|].
      split; [destruct FF as [FF|[FF1 FF2]]; [left; exact FF|right; split; [exact FF1|apply UN, FF2]]|].
      unfold grown_exact in *. rewrite K1, Z1 in GG. exact GG.
    + apply Z.eqb_neq in T. exists c1, F. split; [reflexivity|]. split; [exact V1|].
      rewrite K1 in T. unfold grown_exact. rewrite K1. split; [clear - T J1 Hic; lia|]. split; [exact Hcap|]. split; [exact S1|].
      split; [rewrite L1; apply same_keys_refl|].
      split; [left; reflexivity|]. left. split; [reflexivity|exact Z1].
Qed.

(* ------------------------------------------------------------------ the event loop *)
(* regime: EITHER no flush has skipped merge_all so far (F = 0) and none can at the present capacity, because W is a
   duplicate-free list of live keys with capacity - |W| <= limit, and M is at most the length `min` will have when
   that stops being true; OR `min` already has M slots *)
Definition regime_k (limit M : Z) (c : coo) (F : Z) : Prop :=
  (F = 0 /\ exists W fuel, NoDup W /\ incl W (keys (live c)) /\ cap c <= limit + zlen W /\
                           M <= driver_mlen fuel limit (cap c) (zlen (mn c)))
  \/ M <= zlen (mn c).

Lemma regime_k_F limit M c F : regime_k limit M c F -> F = 0 \/ M <= zlen (mn c).
Proof. intros [(H & _)|H]; [left; exact H|right; exact H]. Qed.

Lemma appends_k limit M Etot : forall evs c F E,
  1 <= limit -> VInv Q limit c F E -> ind c <= cap c - 2 -> 20 <= cap c -> keys_nonneg Q evs ->
  6 < 2 ^ (zlen (mn c) - 1) -> regime_k limit M c F ->
  E + zlen evs <= Etot -> 8 * Etot + 6 * limit < limit * 2 ^ (M - 1) ->
  exists c' F',
    appends limit c evs = Ok c' /\ VInv Q limit c' F' (E + zlen evs) /\ ind c' <= cap c' - 2 /\ 20 <= cap c' /\
    6 < 2 ^ (zlen (mn c') - 1) /\ regime_k limit M c' F' /\
    (forall k, sumby (live c') k = sumby (live c) k + sumby evs k) /\ same_keys (live c') (live c ++ evs).
Proof.
  induction evs as [|ev t IH]; intros c F E Hl HV Hic Hcap Hk H6 HR HE HB.
  - exists c, F. replace (E + zlen (@nil entry)) with E by (zl; lia).
    split; [reflexivity|]. split; [exact HV|]. split; [exact Hic|]. split; [exact Hcap|]. split; [exact H6|].
    split; [exact HR|]. split; [intros k; simpl; lia|]. rewrite app_nil_r. apply same_keys_refl.
  - zl. inversion Hk as [|? ? Hev Ht]; subst. pose proof (zlen_nonneg t) as Lt.
    destruct (VInv_potential Q limit c F E HV) as [HP HF].
    assert (Hroom : 4 * F + 6 < 2 ^ (zlen (mn c) - 1)).
    { apply (budget_room limit M (zlen (mn c)) F E Etot); auto; [lia|apply (regime_k_F limit), HR]. }
    destruct (coo_append_k limit c F E ev Hl HV Hic Hcap Hev Hroom) as (c1 & F1 & E1 & V1 & J1 & C1 & U1 & KK & FF & GG).
    simpl appends. rewrite E1. cbn [bind].
    pose proof (grow_min_size_ge (zlen (mn c)) (zlen_nonneg (mn c))) as Hgm.
    assert (Hz : zlen (mn c) <= zlen (mn c1)).
    { destruct GG as [(_ & G)|(_ & _ & G & _)]; lia. }
    assert (H61 : 6 < 2 ^ (zlen (mn c1) - 1)).
    { assert (1 <= zlen (mn c)).
      { destruct (Z_lt_le_dec (zlen (mn c)) 1); [|lia]. rewrite Z.pow_neg_r in H6 by lia. lia. }
      pose proof (pow2_mono (zlen (mn c) - 1) (zlen (mn c1) - 1) ltac:(lia)). lia. }
    assert (Hi1 : 0 <= ind c1).
    { destruct V1 as ((S1 & _) & _). pose proof (so_ind Q c1 S1). pose proof (Z.abs_nonneg (nthZ (mn c1) 0)). lia. }
    assert (HR1 : regime_k limit M c1 F1).
    { destruct HR as [(R0 & W & fuel & RN & RI & RC & RM)|R]; [|right; lia].
      assert (F1 = 0).
      { destruct FF as [->|(_ & FF)]; [exact R0|]. specialize (FF W RN RI). lia. }
      assert (RI1 : incl W (keys (live c1))).
      { intros k Hkk. apply KK. rewrite keys_app. apply in_or_app. left. apply RI, Hkk. }
      destruct GG as [(G1 & G2)|(_ & G1 & G2 & Gs & Gi)].
      - left. split; [assumption|]. exists W, fuel. rewrite G1, G2.
        split; [exact RN|]. split; [exact RI1|]. split; [exact RC|exact RM].
      - destruct fuel as [|f].
        + right. simpl in RM. lia.
        + cbn [driver_mlen] in RM.
          destruct (grow_size limit (cap c) <=? limit + cdiv (19 * cap c) 20) eqn:T.
          * apply Z.leb_le in T. left. split; [assumption|]. exists (keys (live c1)), f.
            split; [apply ssorted_NoDup, Gs|]. split; [apply incl_refl|].
            rewrite zlen_keys, zlen_live by lia.
            pose proof (cdiv_19_20 (cap c) (ind c1) Gi).
            split; [lia|]. rewrite G1, G2. exact RM.
          * right. rewrite G2. exact RM. }
    destruct (IH c1 F1 (E + 1)) as (c' & F' & E' & V' & J' & C' & H6' & R' & U' & K'); auto; [lia|].
    exists c', F'. split; [exact E'|].
    replace (E + (1 + zlen t)) with (E + 1 + zlen t) by lia.
    split; [exact V'|]. split; [exact J'|]. split; [exact C'|]. split; [exact H6'|]. split; [exact R'|].
    split; [intros k; rewrite U', U1; simpl; lia|].
    eapply same_keys_trans; [exact K'|].
    replace (live c ++ ev :: t) with ((live c ++ [ev]) ++ t) by (rewrite <- app_assoc; reflexivity).
    apply same_keys_app; [exact KK|apply same_keys_refl].
Qed.

(* ------------------------------------------------------------------ the drivers' last two calls *)
Lemma finish_k c G :
  Inv Q c G -> ind c <= cap c - 1 -> G + 2 < 2 ^ (zlen (mn c) - 1) ->
  exists c', finish c = Ok c' /\ stack_ok Q c' /\ (forall k, sumby (live c') k = sumby (live c) k) /\
             ssorted (live c') /\ same_keys (live c') (live c).
Proof.
  intros HI Hic HG.
  destruct (csd_ok Q c) as (c1 & E1 & P1); [apply HI|lia|apply (Inv_room Q c G HI); lia|].
  assert (K1 : same_keys (live c1) (live c)) by (apply (csd_keys Q c c1); [apply HI|lia|exact E1]).
  pose proof (op_step Q c c1 G HI P1) as I1.
  destruct P1 as (S1 & Q1 & Q2 & Q3 & Q4 & Q5 & _).
  destruct (ma_ok Q c1) as (c2 & E2 & P2 & Hs); [exact S1|lia|apply (Inv_room Q c1 (G + 1) I1); rewrite Q2; lia|exact Q4|].
  assert (K2 : same_keys (live c2) (live c1)) by (apply (ma_keys Q c1 c2 S1); [lia|exact E2]).
  destruct P2 as (S2 & R1 & R2 & R3 & R4 & R5 & _).
  exists c2. unfold finish. rewrite E1. cbn [bind]. split; [exact E2|]. split; [exact S2|].
  split; [intros k; rewrite R5, Q5; reflexivity|]. split; [exact Hs|].
  eapply same_keys_trans; [exact K2|exact K1].
Qed.

(* ------------------------------------------------------------------ the whole run *)
(* M = a length `min` is known to have when the first flush skips merge_all:
     buffer allocated at most `limit` long: driver_mlen (any fuel); longer: the allocated length *)
Definition start_ok (limit n mlen M : Z) : Prop :=
  (n <= limit /\ exists fuel, M <= driver_mlen fuel limit n mlen) \/ M <= mlen.

Theorem run_total_k limit n mlen M evs :
  1 <= limit -> 20 <= n -> 4 <= mlen -> keys_nonneg Q evs -> start_ok limit n mlen M ->
  8 * zlen evs + 6 * limit < limit * 2 ^ (M - 1) ->
  exists s, run limit n mlen evs = Ok s /\ (forall k, denote s k = sumby evs k) /\
            StronglySorted Z.lt (map e_key (live s)) /\ keys_nonneg Q (live s) /\ same_keys (live s) evs.
Proof.
  intros Hl Hn Hm Hk HS HB.
  pose proof (init_VInv Q limit n mlen ltac:(lia) ltac:(lia)) as V0.
  assert (Z0 : zlen (mn (init n mlen)) = mlen) by (simpl; zl; lia).
  assert (C0 : cap (init n mlen) = n) by (unfold cap; simpl; zl; lia).
  assert (L0 : live (init n mlen) = []) by reflexivity.
  assert (H6 : 6 < 2 ^ (mlen - 1)).
  { pose proof (pow2_mono 3 (mlen - 1) ltac:(lia)). change (2 ^ 3) with 8 in *. lia. }
  destruct (appends_k limit M (zlen evs) evs (init n mlen) 0 0) as (c & F & E & V & J & C & H6' & R & U & K); auto;
    try (rewrite ?C0, ?Z0; simpl ind; lia).
  { unfold regime_k. rewrite C0, Z0. destruct HS as [(Hnl & fuel & HM)|HM]; [left|right; exact HM].
    split; [reflexivity|]. exists [], fuel. split; [constructor|]. split; [intros k []|].
    split; [zl; lia|exact HM]. }
  destruct (VInv_potential Q limit c F _ V) as [HP HF].
  assert (Hroom : 4 * F + 6 < 2 ^ (zlen (mn c) - 1)).
  { apply (budget_room limit M (zlen (mn c)) F (0 + zlen evs) (zlen evs)); auto; [lia|apply (regime_k_F limit), R]. }
  destruct V as (I & _ & _).
  destruct (finish_k c (4 * (F + 1))) as (s & Ef & Sf & Uf & Ss & Ks); [exact I|lia|lia|].
  exists s. unfold run. rewrite E. cbn [bind]. split; [exact Ef|].
  split; [intros k; unfold denote; rewrite Uf, U; simpl; lia|]. split; [exact Ss|]. split; [apply Sf|].
  eapply same_keys_trans; [exact Ks|]. rewrite L0 in K. exact K.
Qed.

End Driver.

(* ------------------------------------------------------------------ corollaries *)
(* the drivers' allocation: |min| = 2 * ceil(log2 capacity) >= 10 >= 4 for capacity >= 20 *)
Lemma ceil_log2_fuel_ge fuel : forall n p acc, acc <= ceil_log2_fuel fuel n p acc.
Proof.
  induction fuel as [|f IH]; intros n p acc; cbn [ceil_log2_fuel]; [lia|].
  destruct (n <=? p); [lia|]. specialize (IH n (2 * p) (acc + 1)). lia.
Qed.

Lemma ceil_log2_fuel_step f n p acc :
  p < n -> ceil_log2_fuel (S f) n p acc = ceil_log2_fuel f n (2 * p) (acc + 1).
Proof. intros H. cbn [ceil_log2_fuel]. replace (n <=? p) with false by (symmetry; apply Z.leb_gt; lia). reflexivity. Qed.

Lemma default_mlen_ge n : 17 <= n -> 10 <= 2 * ceil_log2 n.
Proof.
  intros H. unfold ceil_log2.
  assert (5 <= ceil_log2_fuel 64 n 1 0); [|lia].
  rewrite !ceil_log2_fuel_step by lia || fail.
  etransitivity; [|apply ceil_log2_fuel_ge]. lia.
Qed.

Theorem run_cells_k limit n mlen M mul evs :
  1 <= limit -> 20 <= n -> 4 <= mlen -> start_ok limit n mlen M ->
  8 * zlen evs + 6 * limit < limit * 2 ^ (M - 1) ->
  Forall (fun e => 0 <= e_key e /\ wf_ev mul (rck e)) evs ->
  exists s, run limit n mlen evs = Ok s /\
            (forall r c, 0 <= c < mul -> cell (live s) r c = cell evs r c) /\
            StronglySorted Z.lt (map e_key (live s)) /\ same_keys (live s) evs.
Proof.
  intros Hl Hn Hm HS HB Hev.
  destruct (run_total_k (wf_ev mul) limit n mlen M evs Hl Hn Hm Hev HS HB) as (s & E & D & S & K & KK).
  exists s. split; [exact E|]. split; [|split; [exact S|exact KK]].
  intros r c Hc. rewrite (cell_sumby mul (live s) r c Hc), (cell_sumby mul evs r c Hc).
  - apply D.
  - eapply Forall_impl; [|exact Hev]. simpl. intros e He. apply He.
  - eapply Forall_impl; [|exact K]. simpl. intros e He. apply He.
Qed.

(* one growth: both branches of driver_mlen give the length after coo_increase_mem (the regime of volume_mlen) *)
Lemma driver_mlen_1 limit n mlen : driver_mlen 1 limit n mlen = grow_min_size mlen.
Proof. cbn [driver_mlen]. destruct (_ <=? _); reflexivity. Qed.

Lemma start_ok_volume limit n mlen : start_ok limit n mlen (volume_mlen limit n mlen).
Proof.
  unfold start_ok, volume_mlen. destruct (n <=? limit) eqn:T; [|right; lia].
  apply Z.leb_le in T. left. split; [exact T|]. exists 1%nat. rewrite driver_mlen_1. lia.
Qed.

(* end to end: chunks, one accumulator per chunk *)
Theorem end_to_end_k doc (f : doc -> list entry) docs sizes n_threads limit (capf mlenf Mf : Z * Z -> Z) k :
  length sizes = length docs -> 1 <= limit -> (forall ch, 20 <= capf ch) ->
  Forall (fun e => 0 <= e_key e) (events_of doc f docs) ->
  (forall ch, 4 <= mlenf ch /\ start_ok limit (capf ch) (mlenf ch) (Mf ch) /\
              8 * zlen (events_of doc f docs) + 6 * limit < limit * 2 ^ (Mf ch - 1)) ->
  fold_right Z.add 0
    (map (fun ch => acc_matrix limit (capf ch) (mlenf ch) (events_of doc f (chunk_docs docs ch)) k)
         (chunk_boundaries sizes n_threads))
  = sumby (events_of doc f docs) k.
Proof.
  intros Hlen Hl Hcap Hk Hm.
  rewrite <- (chunked_matrix_total doc f docs sizes n_threads k Hlen). unfold chunked_matrix.
  f_equal. apply map_ext. intros ch.
  destruct (events_of_slice_bounds doc f docs ch) as [B1 B2].
  destruct (Hm ch) as (M1 & M2 & M3).
  destruct (run_total_k (fun _ => True) limit (capf ch) (mlenf ch) (Mf ch) (events_of doc f (chunk_docs docs ch)))
    as (s & E & D & _); auto.
  - unfold keys_nonneg. rewrite Forall_forall in *. intros x Hx. split; [apply Hk, B2, Hx|exact I].
  - lia.
  - unfold acc_matrix. rewrite E. apply D.
Qed.

(* two strictly sorted key lists with the same elements are equal *)
Lemma sorted_keys_unique (a b : list Z) :
  StronglySorted Z.lt a -> StronglySorted Z.lt b -> (forall k, In k a <-> In k b) -> a = b.
Proof.
  revert b. induction a as [|x a IH]; intros b Sa Sb H.
  - destruct b as [|y b]; [reflexivity|]. destruct (proj2 (H y) (or_introl eq_refl)).
  - destruct b as [|y b]; [destruct (proj1 (H x) (or_introl eq_refl))|].
    inversion Sa as [|? ? Sa' Fa]; subst. inversion Sb as [|? ? Sb' Fb]; subst.
    rewrite Forall_forall in Fa, Fb.
    assert (x = y).
    { destruct (proj1 (H x) (or_introl eq_refl)) as [E|Hx]; [symmetry; exact E|].
      destruct (proj2 (H y) (or_introl eq_refl)) as [E|Hy]; [exact E|].
      specialize (Fa y Hy). specialize (Fb x Hx). lia. }
    subst y. f_equal. apply IH; [exact Sa'|exact Sb'|]. intros k. split; intros Hk.
    + destruct (proj1 (H k) (or_intror Hk)) as [E|Hk']; [|exact Hk']. subst k. specialize (Fa x Hk). lia.
    + destruct (proj2 (H k) (or_intror Hk)) as [E|Hk']; [|exact Hk']. subst k. specialize (Fb x Hk). lia.
Qed.
