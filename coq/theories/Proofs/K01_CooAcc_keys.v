(* K1, array level, part 4: KEY PRESERVATION, and what it buys for the drivers' allocation.

   The per-operation lemmas of K01_CooAcc_proofs.v state that the sum by key of the live entries is kept.  That does not
   say that the SET of live keys is kept (an entry of value 0, or values that cancel, are invisible to the sums).  Here:
     - run-length compression, the stable sort and the interleaving of the carry keep the set of keys (list level);
     - merge_sum_duplicates, coo_sum_duplicates, merge_all_sum_duplicates keep the set of keys of the live entries
       (msd_keys, csd_keys, ma_keys); after merge_all the live keys are strictly sorted, hence `ind` IS the number of
       distinct keys of the live entries before it (ma_ind_distinct);
     - consequence for the level stack: a flush is NOT followed by merge_all only if `capacity - ind' > limit`, and
       ind' >= the number of distinct live keys.  After coo_increase_mem the live keys are distinct and there are at
       least 0.95 * (old capacity) of them, for ever (no key is lost).  So a buffer that starts at most `limit` long
       keeps F = 0 (no un-merged flush, level counter <= 4, depth <= 3) through every growth with
            grow_size limit cap <= limit + ceil(0.95 * cap)
       and the event-volume budget of K01_CooAcc_volume.v is only needed from the first growth that violates this,
       by which time coo_increase_mem has enlarged `min` several times (driver_mlen). *)
From Coq Require Import ZArith List Bool Lia Sorting.Sorted Permutation.
From VZ Require Import Model.K01_CooAcc Proofs.K01_CooAcc_list Proofs.K01_CooAcc_arrays Proofs.K01_CooAcc_proofs
  Proofs.K01_CooAcc_volume.
Import ListNotations.
Open Scope Z_scope.

(* ------------------------------------------------------------------ list level: sets of keys *)
Definition same_keys (a b : list entry) : Prop := forall k, In k (keys a) <-> In k (keys b).

Lemma same_keys_refl a : same_keys a a.
Proof. intros k. reflexivity. Qed.

Lemma same_keys_sym a b : same_keys a b -> same_keys b a.
Proof. intros H k. symmetry. apply H. Qed.

Lemma same_keys_trans a b c : same_keys a b -> same_keys b c -> same_keys a c.
Proof. intros H1 H2 k. rewrite (H1 k). apply H2. Qed.

Lemma same_keys_perm a b : Permutation a b -> same_keys a b.
Proof.
  intros P k. unfold keys. split; intros H.
  - eapply Permutation_in; [apply Permutation_map; exact P|exact H].
  - eapply Permutation_in; [apply Permutation_map, Permutation_sym; exact P|exact H].
Qed.

Lemma same_keys_app a a' b b' : same_keys a a' -> same_keys b b' -> same_keys (a ++ b) (a' ++ b').
Proof.
  intros H1 H2 k. unfold keys. rewrite !map_app, !in_app_iff. fold (keys a) (keys a') (keys b) (keys b').
  rewrite (H1 k), (H2 k). reflexivity.
Qed.

Lemma keys_app a b : keys (a ++ b) = keys a ++ keys b.
Proof. apply map_app. Qed.

(* the run-length loop keeps every key: the keys of (finished runs ++ [current run]) are those of (this :: R) *)
Lemma rl_keys R : forall this k,
  In k (keys (fst (rl this R) ++ [snd (rl this R)])) <-> In k (keys (this :: R)).
Proof.
  induction R as [|e t IH]; intros this k; simpl; [reflexivity|].
  destruct (e_key e =? e_key this) eqn:E.
  - apply Z.eqb_eq in E. rewrite (IH (add_val this (e_val e)) k). simpl. rewrite e_key_add_val, E. tauto.
  - specialize (IH e k). destruct (rl e t) as [d th]. simpl in *. rewrite IH. tauto.
Qed.

Lemma rlc_keys l : same_keys (rlc l) l.
Proof.
  destruct l as [|e t]; [apply same_keys_refl|]. intros k. unfold rlc.
  pose proof (rl_keys t e k) as H. destruct (rl e t) as [d th]. exact H.
Qed.

(* one sort window, one carry *)
Lemma window_keys seg : same_keys (rlc (sort_by_key seg)) seg.
Proof. eapply same_keys_trans; [apply rlc_keys|apply same_keys_sym, same_keys_perm, sort_perm]. Qed.

Lemma carry_keys f A B : same_keys (rlc (interleave f A B)) (A ++ B).
Proof. eapply same_keys_trans; [apply rlc_keys|apply same_keys_sym, same_keys_perm, interleave_perm]. Qed.

(* the specification-level compress keeps every key too (C04_window_* are stated with it) *)
Lemma compress_keys l : same_keys (compress l) l.
Proof.
  intros k. split; [apply compress_keys_incl|].
  induction l as [|e t IH]; simpl; [tauto|].
  destruct (compress t) as [|e' t'] eqn:E; simpl in *.
  - intros [H|H]; [left; exact H|destruct (IH H)].
  - destruct (e_key e =? e_key e') eqn:Ek; simpl.
    + apply Z.eqb_eq in Ek. rewrite e_key_add_val. intros [H|H]; [left; exact H|].
      destruct (IH H) as [H'|H']; [left; lia|right; exact H'].
    + intros [H|H]; [left; exact H|right; apply IH, H].
Qed.

(* strictly sorted keys are distinct; two duplicate-free lists with the same elements have the same length *)
Lemma same_keys_NoDup_length a b :
  same_keys a b -> NoDup (keys a) -> NoDup (keys b) -> zlen a = zlen b.
Proof.
  intros H Na Nb. unfold zlen. f_equal.
  assert (P : Permutation (keys a) (keys b)) by (apply NoDup_Permutation; assumption).
  apply Permutation_length in P. unfold keys in P. rewrite !map_length in P. exact P.
Qed.

(* a strictly sorted list has as many entries as the list it shares its keys with has distinct keys *)
Lemma ssorted_count_distinct a b :
  same_keys a b -> ssorted a -> zlen a = zlen (nodup Z.eq_dec (keys b)).
Proof.
  intros H Hs. pose proof (ssorted_NoDup a Hs) as Na.
  assert (P : Permutation (keys a) (nodup Z.eq_dec (keys b))).
  { apply NoDup_Permutation; [exact Na|apply NoDup_nodup|]. intros k. rewrite nodup_In. apply H. }
  apply Permutation_length in P. unfold keys in P at 1. rewrite map_length in P. unfold zlen. lia.
Qed.

(* a duplicate-free list of keys all of which are live is no longer than the live region *)
Lemma distinct_le_live W l : NoDup W -> incl W (keys l) -> zlen W <= zlen l.
Proof.
  intros N I. pose proof (NoDup_incl_length N I) as L. unfold keys in L. rewrite map_length in L. unfold zlen. lia.
Qed.

Section WithQ.
Variable Q : Z * Z * Z -> Prop.

(* ------------------------------------------------------------------ merge_level, msd_loop, merge_sum_duplicates *)
Lemma live_split c lo : 0 <= lo <= ind c -> live c = firstn (Z.to_nat lo) (buf c) ++ slice (buf c) lo (ind c).
Proof. intros H. unfold live. apply firstn_slice. exact H. Qed.

Lemma msd_loop_keys : forall n i c,
  i = depth c - Z.of_nat n -> 0 <= i ->
  depth c < zlen (mn c) ->
  chain_from (mn c) i (depth c) ->
  Z.abs (nthZ (mn c) i) <= ind c -> ind c <= cap c ->
  keys_nonneg Q (live c) ->
  forall c' nd, msd_loop n i c = Ok (c', nd) ->
  same_keys (live c') (live c).
Proof.
  induction n as [|n IH]; intros i c Hi Hi0 Hd Hch Hmi Huc Hk c' nd HE.
  - simpl in HE. inversion HE; subst. apply same_keys_refl.
  - simpl msd_loop in HE. assert (Hid : i < depth c) by lia.
    rewrite (getZ_nthZ _ (mn c) i) in HE by lia. simpl bind in HE.
    pose proof (Z.abs_nonneg (nthZ (mn c) i)) as Habs.
    destruct (nthZ (mn c) i <=? 0) eqn:E.
    + rewrite setZ_ok in HE by (rewrite zlen_fill_prefix; lia). simpl bind in HE.
      inversion HE; subst. unfold set_mn, live; simpl. apply same_keys_refl.
    + apply Z.leb_gt in E.
      set (mid := nthZ (mn c) i) in *. set (lo := Z.abs (nthZ (mn c) (i + 1))).
      assert (Hlm : lo <= mid) by (specialize (Hch i ltac:(lia)); unfold lo; lia).
      assert (Hmu : mid <= ind c) by lia.
      assert (Hlo0 : 0 <= lo) by apply Z.abs_nonneg.
      destruct (merge_level_ok Q c i lo mid) as (c1 & f & M1 & M2 & M3 & M4 & M5 & M6 & M7);
        auto; try lia.
      { apply live_slice_nonneg; [lia|exact Hk]. }
      rewrite M1 in HE. simpl bind in HE.
      set (A := slice (buf c) lo mid) in *. set (B := slice (buf c) mid (ind c)) in *.
      assert (HAB : slice (buf c) lo (ind c) = A ++ B) by (apply seg_split; unfold cap in *; lia).
      assert (K1 : same_keys (live c1) (live c)).
      { rewrite M6, (live_split c lo) by lia. rewrite HAB.
        apply same_keys_app; [apply same_keys_refl|apply carry_keys]. }
      assert (Hk1 : keys_nonneg Q (live c1)).
      { rewrite M6. apply keys_nonneg_app. split; [apply live_prefix_nonneg; [lia|exact Hk]|].
        apply keys_nonneg_rlc. eapply keys_nonneg_perm; [apply interleave_perm|].
        rewrite <- HAB. apply live_slice_nonneg; [lia|exact Hk]. }
      eapply same_keys_trans; [|exact K1].
      apply (IH (i + 1) c1) with (nd := nd).
      * rewrite M3. lia.
      * lia.
      * rewrite M2, M3. exact Hd.
      * rewrite M2, M3. intros j Hj. apply Hch. lia.
      * rewrite M2. fold lo. lia.
      * rewrite M4. lia.
      * exact Hk1.
      * exact HE.
Qed.

Lemma msd_live c c1 nd c' :
  msd_loop (Z.to_nat (depth c)) 0 c = Ok (c1, nd) -> merge_sum_duplicates c = Ok c' -> live c' = live c1.
Proof.
  intros H1 H2. unfold merge_sum_duplicates in H2. rewrite H1 in H2. simpl bind in H2.
  destruct nd; [|inversion H2; reflexivity].
  destruct (setZ S_ms_newdepth _ _ _); simpl bind in H2; [|discriminate]. inversion H2; subst. reflexivity.
Qed.

(* merge_sum_duplicates (the carry through the levels) neither loses nor invents a key *)
Lemma msd_keys c c' :
  stack_ok Q c -> ind c <= cap c -> merge_sum_duplicates c = Ok c' -> same_keys (live c') (live c).
Proof.
  intros [Hd Hz Hch Hi Hk Hfree Hruns] Huc HE.
  destruct (msd_loop (Z.to_nat (depth c)) 0 c) as [[c1 nd]|s] eqn:EL.
  - rewrite (msd_live c c1 nd c' EL HE).
    apply (msd_loop_keys (Z.to_nat (depth c)) 0 c) with (nd := nd); auto; lia.
  - unfold merge_sum_duplicates in HE. rewrite EL in HE. discriminate.
Qed.

(* ------------------------------------------------------------------ coo_sum_duplicates *)
Lemma csd_keys c c' :
  stack_ok Q c -> ind c < cap c -> coo_sum_duplicates c = Ok c' -> same_keys (live c') (live c).
Proof.
  intros [Hd Hz Hch Hi Hk Hfree Hruns] Huc HE.
  set (lo := Z.abs (nthZ (mn c) 0)).
  assert (Hlo0 : 0 <= lo) by apply Z.abs_nonneg.
  destruct (sd_phase c lo) as (cm & S1 & S2 & S3 & S4 & S5 & S6); try lia; try reflexivity.
  assert (Hseg : keys_nonneg Q (slice (buf c) lo (ind c))) by (apply live_slice_nonneg; [lia|exact Hk]).
  assert (Km : same_keys (live cm) (live c)).
  { rewrite S6, (live_split c lo) by lia. apply same_keys_app; [apply same_keys_refl|apply window_keys]. }
  assert (Hkm : keys_nonneg Q (live cm)).
  { rewrite S6. apply keys_nonneg_app. split; [apply live_prefix_nonneg; [lia|exact Hk]|].
    apply keys_nonneg_rlc. eapply keys_nonneg_perm; [apply sort_perm|exact Hseg]. }
  rewrite S1 in HE.
  destruct (msd_loop (Z.to_nat (depth cm)) 0 cm) as [[c1 nd]|s] eqn:EL.
  - rewrite (msd_live cm c1 nd c' EL HE). eapply same_keys_trans; [|exact Km].
    apply (msd_loop_keys (Z.to_nat (depth cm)) 0 cm) with (nd := nd); rewrite ?S2, ?S3, ?S4; auto; try lia.
    all: first [fold lo; lia | rewrite <- S3; exact EL].
  - unfold merge_sum_duplicates in HE. rewrite EL in HE. discriminate.
Qed.

(* ------------------------------------------------------------------ merge_all_sum_duplicates *)
(* the compaction of the min stack (first half of ma_ok): merge_all is merge_sum_duplicates on a state with the same
   buffer and `ind`, whose stack holds the occupied levels only and still satisfies the invariant *)
Lemma ma_reduce c :
  stack_ok Q c -> ind c <= cap c ->
  exists m2, merge_all_sum_duplicates c = merge_sum_duplicates (set_mn c m2) /\ stack_ok Q (set_mn c m2).
Proof.
  intros [Hd Hz Hch Hi Hk Hfree Hruns] Huc.
  set (d := depth c) in *. set (m := mn c) in *.
  set (X := slice m 0 d).
  assert (SX : seg m 0 d X) by (apply seg_slice; lia).
  assert (LX : zlen X = d) by (destruct SX as (_ & H & _); lia).
  assert (EX : X = firstn (Z.to_nat d) m) by (unfold X, slice; rewrite Z.sub_0_r; reflexivity).
  set (pos := filter gt0 X).
  assert (Lp : 0 <= zlen pos <= d).
  { split; [apply zlen_nonneg|]. rewrite <- LX. unfold pos, zlen.
    pose proof (filter_length_le' gt0 X). lia. }
  unfold merge_all_sum_duplicates. fold d. fold m.
  replace (Z.to_nat d) with (length X) by (unfold zlen in LX; lia).
  rewrite (positives_ok m X 0 d SX). simpl bind. fold pos.
  set (new_min := pos ++ repeat 0 (length X - length pos)).
  assert (Ln : zlen new_min = d).
  { unfold new_min. zl. unfold zlen in *. lia. }
  destruct (assign_slice_ok S_ma_assign m 0 d new_min) as (m2 & E1 & E2 & E3); [lia|lia|lia|].
  rewrite E1. simpl bind.
  simpl firstn in E2. rewrite app_nil_l in E2.
  exists m2. split; [reflexivity|].
  assert (N1 : forall j, 0 <= j < zlen pos -> nthZ m2 j = nthZ pos j).
  { intros j Hj. rewrite E2. unfold new_min. rewrite <- app_assoc. apply nthZ_app_l. lia. }
  assert (N2 : forall j, zlen pos <= j < d -> nthZ m2 j = 0).
  { intros j Hj. rewrite E2. unfold new_min. rewrite <- app_assoc. rewrite nthZ_app_r by lia.
    rewrite nthZ_app_l by (zl; unfold zlen in *; lia). apply nthZ_repeat. unfold zlen in *. lia. }
  assert (N3 : forall j, d <= j -> nthZ m2 j = 0).
  { intros j Hj. rewrite E2. rewrite nthZ_app_r by lia. rewrite Ln.
    destruct (Z_lt_le_dec j (zlen m)).
    - unfold nthZ. destruct (j - d <? 0) eqn:E; [apply Z.ltb_lt in E; lia|].
      rewrite nth_skipn'. replace (Z.to_nat d + Z.to_nat (j - d))%nat with (Z.to_nat j) by lia.
      specialize (Hz j Hj). unfold nthZ in Hz. destruct (j <? 0) eqn:E'; [apply Z.ltb_lt in E'; lia|]. exact Hz.
    - apply nthZ_beyond. rewrite zlen_skipn by lia. lia. }
  assert (PX : forall x, In x pos -> x > 0 /\ In x X).
  { intros x Hx. apply filter_In in Hx. destruct Hx as [H1 H2]. unfold gt0 in H2. apply Z.gtb_lt in H2. split; [lia|exact H1]. }
  assert (SXs : StronglySorted absge X).
  { apply adjacent_sorted. intros j Hj0 Hj. rewrite EX, !nthZ_firstn by lia. apply Hch. lia. }
  assert (Sp : StronglySorted absge pos) by (apply filter_sorted, SXs).
  assert (RL : runs_list (buf c) X 0).
  { apply (runs_list_of_pointwise (buf c) m 0 X 0 d SX); [apply Hz; lia| |].
    - intros j Hj. apply Hfree. lia.
    - intros j Hj. apply (Hruns j). lia. }
  assert (RL2 : runs_list (buf c) new_min 0) by (apply runs_filter, RL).
  assert (S2 : seg m2 0 d new_min).
  { split; [lia|]. split; [lia|]. rewrite slice0_firstn, E2. apply firstnZ_app. symmetry; exact Ln. }
  pose proof (pointwise_of_runs_list (buf c) m2 0 new_min 0 d S2 (N3 d ltac:(lia)) RL2) as PW.
  assert (H0 : Z.abs (nthZ m2 0) = Z.abs (nthZ m 0)).
  { rewrite <- (start_of_seg m2 new_min 0 d 0 S2 (N3 d ltac:(lia))).
    rewrite <- (start_of_seg m X 0 d 0 SX (Hz d ltac:(lia))). apply (start_filter (buf c)), RL. }
  constructor; unfold set_mn; simpl; fold d.
  - lia.
  - intros j Hj. apply N3, Hj.
  - intros j Hj.
    destruct (Z_lt_le_dec (j + 1) (zlen pos)).
    + rewrite !N1 by lia. apply (sorted_adjacent pos Sp); lia.
    + assert (nthZ m2 (j + 1) = 0) as ->.
      { destruct (Z_lt_le_dec (j + 1) d); [apply N2; lia|apply N3; lia]. }
      simpl. apply Z.abs_nonneg.
  - rewrite H0. fold m in Hi. exact Hi.
  - exact Hk.
  - intros j Hj. apply (PW j). lia.
  - intros j Hj. unfold run_at; simpl. apply (PW j). lia.
Qed.

(* merge_all_sum_duplicates neither loses nor invents a key *)
Lemma ma_keys c c' :
  stack_ok Q c -> ind c <= cap c -> merge_all_sum_duplicates c = Ok c' -> same_keys (live c') (live c).
Proof.
  intros SO Huc HE. destruct (ma_reduce c SO Huc) as (m2 & E & SO2). rewrite E in HE.
  apply (msd_keys (set_mn c m2) c' SO2 Huc HE).
Qed.

(* after merge_all the live keys are distinct, so `ind` is the number of distinct keys that were live before it *)
Lemma ma_ind_distinct c :
  stack_ok Q c -> ind c <= cap c -> cnt (mn c) (depth c) + 1 < 2 ^ (zlen (mn c) - 1) ->
  Z.abs (nthZ (mn c) 0) = ind c ->
  exists c', merge_all_sum_duplicates c = Ok c' /\ op_post Q c c' /\ ssorted (live c') /\
             same_keys (live c') (live c) /\ ind c' = zlen (nodup Z.eq_dec (keys (live c))).
Proof.
  intros SO Huc Hcnt Htail. destruct (ma_ok Q c SO Huc Hcnt Htail) as (c' & E & P & Hs).
  pose proof (ma_keys c c' SO Huc E) as K.
  exists c'. split; [exact E|]. split; [exact P|]. split; [exact Hs|]. split; [exact K|].
  destruct P as (SO' & P1 & _ & P3 & _).
  rewrite <- (ssorted_count_distinct (live c') (live c) K Hs).
  symmetry. apply zlen_live. lia.
Qed.

End WithQ.
