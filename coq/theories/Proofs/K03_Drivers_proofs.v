(* C03 for the token, n-gram and timed drivers: each occurrence is a positional occurrence (K03_Cooc_proofs),
   hence the event list sums by key to the pointwise specification. *)
From Coq Require Import List Arith Bool Lia Permutation.
From VZ Require Import Model.K02_Windows Model.K03_Cooc Model.K03_CoocSpec
     Proofs.K03_BigSum Proofs.K02_Windows_proofs Proofs.K03_Cooc_proofs.
Import ListNotations.

Lemma base_weights_positions : forall (K : carrier) (kf : nat -> K) reverse R p L,
  base_weights kf (length (win_positions reverse R p L)) = map (fun q => kf (dist p q)) (win_positions reverse R p L).
Proof.
  intros. apply (nth_ext _ _ zero zero).
  - rewrite base_weights_length, map_length. reflexivity.
  - intros j Hj. rewrite base_weights_length in Hj. unfold base_weights.
    rewrite (nth_map_lt _ _ _ _ 0 zero) by (rewrite seq_length; assumption).
    rewrite (nth_map_lt _ _ _ _ 0 zero) by assumption.
    rewrite seq_nth by assumption. rewrite win_positions_dist by assumption. f_equal. lia.
Qed.

Lemma nth_lt_of_Forall : forall n (d : list nat), Forall (fun t => t < n) d -> forall q, q < length d -> nth q d 0 < n.
Proof. intros n d H q Hq. rewrite Forall_forall in H. apply H. apply nth_In. assumption. Qed.

Section Drivers.
Context {K : carrier} (HK : carrier_laws K).

(* ---------- token ---------- *)

Lemma token_occ_is_p_occ : forall (blocks : list (block K)) s p, p < length s ->
  token_occ blocks s p = p_occ (length s) (fun q => nth q s 0) (nth p s 0) (token_pblocks blocks (nth p s 0) p).
Proof.
  intros blocks s p Hp. unfold token_occ, p_occ, token_pblocks. f_equal. rewrite map_map.
  apply map_ext. intros b. unfold p_wk, p_positions. simpl.
  rewrite (window_at_index_positions _ 0) by assumption.
  unfold kernel. rewrite map_length. rewrite base_weights_positions. reflexivity.
Qed.

Lemma token_pblocks_anchor : forall (blocks : list (block K)) r p L, p < L ->
  Forall (fun b => pb_anchor b < L) (token_pblocks blocks r p).
Proof.
  intros. unfold token_pblocks. rewrite Forall_forall. intros b Hb.
  apply in_map_iff in Hb. destruct Hb as [b0 [<- _]]. simpl. assumption.
Qed.

Theorem token_cooc : forall (blocks : list (block K)) nw n docs r c i,
  Forall (Forall (fun t => t < n)) docs -> c < n ->
  sumby (token_events blocks nw n docs) r (c + i * n) = token_spec blocks nw docs r c i.
Proof.
  intros blocks nw n docs r c i Hdocs Hc. unfold token_events, token_spec.
  rewrite (sumby_flat_map HK). apply bigsum_ext. intros d Hd.
  rewrite Forall_forall in Hdocs. specialize (Hdocs _ Hd).
  unfold token_doc_events. rewrite (sumby_flat_map HK). apply isum_ext. intros p Hp.
  rewrite token_occ_is_p_occ by assumption.
  rewrite (sumby_p_occ HK) by (try apply token_pblocks_anchor; try apply nth_lt_of_Forall; assumption).
  destruct (Nat.eqb_spec (nth p d 0) r) as [->|]; reflexivity.
Qed.

(* ---------- events never cross a document boundary ---------- *)

Theorem token_events_app : forall (blocks : list (block K)) nw n docs1 docs2,
  token_events blocks nw n (docs1 ++ docs2) = token_events blocks nw n docs1 ++ token_events blocks nw n docs2.
Proof. intros. unfold token_events. apply flat_map_app. Qed.

(* ---------- n-gram ---------- *)

Lemma ngram_occ_is_p_occ : forall (blocks : list (block K)) size row s w_i, 1 <= size -> size - 1 <= w_i -> w_i < length s ->
  ngram_occ blocks size row s w_i =
  p_occ (length s) (fun q => nth q s 0) row (ngram_pblocks blocks size row (w_i + 1 - size)).
Proof.
  intros blocks size row s w_i Hs Hlo Hw. unfold ngram_occ, p_occ, ngram_pblocks. f_equal. rewrite map_map.
  apply map_ext. intros b. unfold p_wk, p_positions. simpl.
  assert (Ha : w_i - (if b_rev b then 1 else 0) * (size - 1) = if b_rev b then w_i + 1 - size else w_i + 1 - size + size - 1)
    by (destruct (b_rev b); lia).
  rewrite Ha.
  rewrite (window_at_index_positions _ 0) by (destruct (b_rev b); lia).
  unfold kernel. rewrite map_length. rewrite base_weights_positions. reflexivity.
Qed.

Lemma slice_ngram_at : forall (s : list nat) a size, a + size <= length s ->
  slice a (a + size) s = ngram_at s a size.
Proof.
  intros. rewrite (slice_map_nth _ 0) by assumption. unfold ngram_at.
  replace (a + size - a) with size by lia. rewrite (seq_as_map size a), map_map. reflexivity.
Qed.

Lemma ngram_pblocks_anchor : forall (blocks : list (block K)) size r a L, 1 <= size -> a + size <= L ->
  Forall (fun b => pb_anchor b < L) (ngram_pblocks blocks size r a).
Proof.
  intros. unfold ngram_pblocks. rewrite Forall_forall. intros b Hb.
  apply in_map_iff in Hb. destruct Hb as [b0 [<- _]]. simpl. destruct (b_rev b0); lia.
Qed.

(* re-indexing a sum over the last positions w_i of the n-grams as a guarded sum over all start positions a *)
Lemma ngram_reindex : forall size L (F : nat -> K), 1 <= size ->
  bigsum (fun w_i => F (w_i + 1 - size)) (seq (size - 1) (L - (size - 1))) =
  isum L (fun a => if a + size <=? L then F a else zero).
Proof.
  intros size L F Hs. unfold isum.
  rewrite (seq_as_map (L - (size - 1)) (size - 1)). rewrite (bigsum_map (K:=K)).
  rewrite (bigsum_ext (K:=K) _ _ (fun j => F j)) by (intros; f_equal; lia).
  destruct (Nat.le_gt_cases (size - 1) L) as [Hle|Hgt].
  - replace L with ((L - (size - 1)) + (size - 1)) at 2 by lia.
    rewrite seq_app, (bigsum_app HK). simpl plus.
    rewrite (bigsum_ext (K:=K) _ (fun a => if a + size <=? L then F a else zero) F (seq 0 (L - (size - 1)))).
    2:{ intros a Ha. apply in_seq in Ha. destruct (Nat.leb_spec (a + size) L); [reflexivity | lia]. }
    rewrite (bigsum_zero HK _ _ (seq (L - (size - 1)) (size - 1))).
    2:{ intros a Ha. apply in_seq in Ha. destruct (Nat.leb_spec (a + size) L); [lia | reflexivity]. }
    symmetry. apply (add_0_r HK).
  - replace (L - (size - 1)) with 0 by lia. rewrite bigsum_nil. symmetry. apply (bigsum_zero HK).
    intros a Ha. apply in_seq in Ha. destruct (Nat.leb_spec (a + size) L); [lia | reflexivity].
Qed.

Theorem ngram_cooc : forall (blocks : list (block K)) nw n dict size docs r c i,
  1 <= size -> Forall (Forall (fun t => t < n)) docs -> c < n ->
  sumby (ngram_events blocks nw n dict size docs) r (c + i * n) = ngram_spec blocks nw dict size docs r c i.
Proof.
  intros blocks nw n dict size docs r c i Hs Hdocs Hc. unfold ngram_events, ngram_spec.
  rewrite (sumby_flat_map HK). apply bigsum_ext. intros d Hd.
  rewrite Forall_forall in Hdocs. specialize (Hdocs _ Hd).
  unfold ngram_doc_events. rewrite (sumby_flat_map HK).
  set (F := fun a => if (match dict_find dict (ngram_at d a size) with Some r' => Nat.eqb r' r | None => false end)
                     then p_cell (length d) (fun q => nth q d 0) nw (ngram_pblocks blocks size r a) i c else zero).
  transitivity (bigsum (fun w_i => if w_i + 1 - size + size <=? length d then F (w_i + 1 - size) else zero)
                       (seq (size - 1) (length d - (size - 1)))).
  - apply bigsum_ext. intros w_i Hw. apply in_seq in Hw.
    destruct (Nat.leb_spec (w_i + 1 - size + size) (length d)); [|lia].
    replace (w_i + 1) with (w_i + 1 - size + size) at 2 by lia.
    rewrite slice_ngram_at by lia. unfold F.
    destruct (dict_find dict (ngram_at d (w_i + 1 - size) size)) as [row|]; [|apply sumby_nil].
    rewrite ngram_occ_is_p_occ by lia.
    rewrite (sumby_p_occ HK) by (try apply ngram_pblocks_anchor; try apply nth_lt_of_Forall; try assumption; lia).
    destruct (Nat.eqb_spec row r) as [->|]; reflexivity.
  - rewrite (ngram_reindex size (length d) (fun a => if a + size <=? length d then F a else zero)) by assumption.
    apply isum_ext. intros a Ha. unfold F. destruct (a + size <=? length d); reflexivity.
Qed.

Theorem ngram_events_app : forall (blocks : list (block K)) nw n dict size docs1 docs2,
  ngram_events blocks nw n dict size (docs1 ++ docs2)
  = ngram_events blocks nw n dict size docs1 ++ ngram_events blocks nw n dict size docs2.
Proof. intros. unfold ngram_events. apply flat_map_app. Qed.

(* ---------- timed ---------- *)

Lemma timed_occ_is_p_occ : forall Tm (absdiff : Tm -> Tm -> Tm) (t0 : Tm) (blocks : list (tblock K Tm)) s p, p < length s ->
  timed_occ absdiff t0 blocks s p =
  p_occ (length s) (fun q => fst (nth q s (0, t0))) (fst (nth p s (0, t0)))
        (timed_pblocks absdiff t0 blocks s (fst (nth p s (0, t0))) p).
Proof.
  intros Tm absdiff t0 blocks s p Hp. unfold timed_occ, p_occ, timed_pblocks. f_equal. rewrite map_map.
  apply map_ext. intros b. unfold p_wk, p_positions. simpl.
  rewrite (window_at_index_positions _ (0, t0)) by assumption.
  unfold timed_kernel. rewrite !map_map. reflexivity.
Qed.

Lemma timed_pblocks_anchor : forall Tm (absdiff : Tm -> Tm -> Tm) t0 (blocks : list (tblock K Tm)) d r p L, p < L ->
  Forall (fun b => pb_anchor b < L) (timed_pblocks absdiff t0 blocks d r p).
Proof.
  intros. unfold timed_pblocks. rewrite Forall_forall. intros b Hb.
  apply in_map_iff in Hb. destruct Hb as [b0 [<- _]]. simpl. assumption.
Qed.

Theorem timed_cooc : forall Tm (absdiff : Tm -> Tm -> Tm) (t0 : Tm) (blocks : list (tblock K Tm)) nw n docs r c i,
  Forall (Forall (fun it => fst it < n)) docs -> c < n ->
  sumby (timed_events absdiff t0 blocks nw n docs) r (c + i * n) = timed_spec absdiff t0 blocks nw docs r c i.
Proof.
  intros Tm absdiff t0 blocks nw n docs r c i Hdocs Hc. unfold timed_events, timed_spec.
  rewrite (sumby_flat_map HK). apply bigsum_ext. intros d Hd.
  rewrite Forall_forall in Hdocs. specialize (Hdocs _ Hd).
  unfold timed_doc_events. rewrite (sumby_flat_map HK). apply isum_ext. intros p Hp.
  rewrite timed_occ_is_p_occ by assumption.
  rewrite (sumby_p_occ HK); try assumption.
  - destruct (Nat.eqb_spec (fst (nth p d (0, t0))) r) as [->|]; reflexivity.
  - intros q Hq. rewrite Forall_forall in Hdocs. apply (Hdocs (nth q d (0, t0))). apply nth_In. assumption.
  - apply timed_pblocks_anchor. assumption.
Qed.

Theorem timed_events_app : forall Tm (absdiff : Tm -> Tm -> Tm) (t0 : Tm) (blocks : list (tblock K Tm)) nw n docs1 docs2,
  timed_events absdiff t0 blocks nw n (docs1 ++ docs2)
  = timed_events absdiff t0 blocks nw n docs1 ++ timed_events absdiff t0 blocks nw n docs2.
Proof. intros. unfold timed_events. apply flat_map_app. Qed.

(* ---------- the timed driver only sees timestamp differences ---------- *)

Lemma flat_map_ext_In : forall A B (f g : A -> list B) l, (forall x, In x l -> f x = g x) -> flat_map f l = flat_map g l.
Proof.
  induction l; intros H; [reflexivity|]. simpl. rewrite H by (left; reflexivity).
  rewrite IHl by (intros; apply H; right; assumption). reflexivity.
Qed.

Lemma flat_map_map : forall A B C (h : A -> B) (g : B -> list C) l, flat_map g (map h l) = flat_map (fun x => g (h x)) l.
Proof. induction l; [reflexivity|]. simpl. rewrite IHl. reflexivity. Qed.

Theorem timed_events_shift : forall Tm (absdiff : Tm -> Tm -> Tm) (t0 t0' : Tm) (f : Tm -> Tm)
    (blocks : list (tblock K Tm)) nw n docs,
  (forall a b, absdiff (f a) (f b) = absdiff a b) ->
  timed_events absdiff t0' blocks nw n (map (map (fun it => (fst it, f (snd it)))) docs)
  = timed_events absdiff t0 blocks nw n docs.
Proof.
  intros Tm absdiff t0 t0' f blocks nw n docs Hf. unfold timed_events. rewrite flat_map_map.
  apply flat_map_ext. intros s. unfold timed_doc_events. rewrite map_length.
  apply flat_map_ext_In. intros p Hp. apply in_seq in Hp. f_equal.
  unfold timed_occ. set (F := fun it : nat * Tm => (fst it, f (snd it))).
  rewrite (nth_map_lt _ _ F s (0, t0) (0, t0')) by lia. simpl fst. simpl snd.
  f_equal. apply map_ext. intros b. rewrite window_at_index_map, !map_map. simpl fst. simpl snd.
  f_equal. f_equal. f_equal. apply map_ext. intros w. apply Hf.
Qed.

End Drivers.
