From Coq Require Import ZArith List Bool Lia Arith.
From VZ Require Import Model.K8_BPE Proofs.K8_BPE_proofs.
Import ListNotations.
Open Scope Z_scope.

(* ================================================================== small facts *)
Lemma encode_from_app ms1 : forall ms2 code l,
  encode_from (ms1 ++ ms2) code l = encode_from ms2 (code + Z.of_nat (length ms1)) (encode_from ms1 code l).
Proof.
  induction ms1 as [|[a b] ms1 IH]; intros ms2 code l; simpl.
  - f_equal. lia.
  - rewrite IH. f_equal. lia.
Qed.

Lemma encode_from_snoc ms p code l :
  encode_from (ms ++ [p]) code l = contract (fst p) (snd p) (code + Z.of_nat (length ms)) (encode_from ms code l).
Proof. rewrite encode_from_app. destruct p; reflexivity. Qed.

Lemma fold_max_ge l : forall m, m <= fold_left Z.max l m /\ Forall (fun c => c <= fold_left Z.max l m) l.
Proof.
  induction l as [|x t IH]; intros m; simpl; [split; [lia | constructor]|].
  destruct (IH (Z.max m x)) as [H1 H2]. split; [lia|]. constructor; [lia | exact H2].
Qed.

Lemma map_clamp_id mcc s : Forall (fun c => c <= mcc) s -> map (clamp mcc) s = s.
Proof.
  induction 1 as [|x t Hx _ IH]; [reflexivity|]. simpl. rewrite IH. unfold clamp.
  destruct (x <=? mcc) eqn:E; [reflexivity | apply Z.leb_gt in E; lia].
Qed.

Lemma Forall_concat {A} (P : A -> Prop) (ll : list (list A)) :
  Forall P (concat ll) <-> Forall (Forall P) ll.
Proof.
  induction ll as [|l t IH]; simpl; [split; constructor|].
  rewrite Forall_app, IH. split; [intros [? ?]; constructor; auto | inversion 1; auto].
Qed.

Lemma build_tokens_from_snoc mcc ms : forall t0 p,
  build_tokens_from mcc t0 (ms ++ [p]) =
  bind (build_tokens_from mcc t0 ms) (fun toks => bind (pair_to_string p toks mcc) (fun t => Ok (toks ++ [t]))).
Proof.
  induction ms as [|q ms IH]; intros t0 p; simpl.
  - destruct (pair_to_string p t0 mcc); reflexivity.
  - destruct (pair_to_string q t0 mcc); simpl; [apply IH | reflexivity].
Qed.

(* ================================================================== the training loop *)
Section TrainProofs.
  Variable OS : Type.
  Variable sel_init : list (list Z) -> Z -> res (OS * option (Z * Z)).
  Variable sel_step : OS -> Z * Z -> Z -> list (list Z) -> list (list Z) -> res (OS * option (Z * Z)).

  Notation train_loop := (train_loop OS sel_step).
  Notation bpe_train := (bpe_train OS sel_init sel_step).

  (* ---------- for EVERY oracle: what training returns is the replay of what it learned ---------- *)
  Lemma finish_replay X mcc toks ms0 p nc enc t (pending : bool) :
    length toks = length (ms0 ++ [p]) ->
    nc = mcc + Z.of_nat (length (ms0 ++ [p])) + (if pending then 0 else 1) ->
    enc = map (encode_from (if pending then ms0 else ms0 ++ [p]) (mcc + 1)) X ->
    finish toks (ms0 ++ [p]) p nc enc mcc = Ok t ->
    t_enc t = map (encode_from (ms0 ++ [p]) (mcc + 1)) X /\ t_mcc t = mcc /\
    t_merges t = ms0 ++ [p] /\ t_tokens t = toks.
  Proof.
    intros Hlen Hnc Henc. unfold finish. rewrite Hlen.
    destruct pending.
    - replace (Z.of_nat (length (ms0 ++ [p])) =? nc - mcc) with true by (symmetry; apply Z.eqb_eq; lia).
      rewrite contract_all_ok. simpl. intros H; inversion H; subst t; simpl. repeat split.
      rewrite Henc, map_map. apply map_ext. intros s. rewrite encode_from_snoc. f_equal.
      rewrite app_length in Hnc. simpl in Hnc. lia.
    - replace (Z.of_nat (length (ms0 ++ [p])) =? nc - mcc) with false by (symmetry; apply Z.eqb_neq; lia).
      intros H; inversion H; subst t; simpl. repeat split. exact Henc.
  Qed.

  Lemma train_loop_replay X mcc : forall room st toks ms0 p nc enc t,
    length toks = length (ms0 ++ [p]) ->
    nc = mcc + Z.of_nat (length (ms0 ++ [p])) ->
    enc = map (encode_from ms0 (mcc + 1)) X ->
    train_loop room st toks (ms0 ++ [p]) p nc enc mcc = Ok t ->
    t_enc t = map (encode_from (t_merges t) (mcc + 1)) X /\ t_mcc t = mcc /\
    length (t_tokens t) = length (t_merges t) /\
    (length (t_merges t) <= length (ms0 ++ [p]) + room)%nat /\
    exists extra, t_merges t = (ms0 ++ [p]) ++ extra.
  Proof.
    induction room as [|room IH]; intros st toks ms0 p nc enc t Hlen Hnc Henc Ht.
    - simpl in Ht. apply (finish_replay X mcc toks ms0 p nc enc t true) in Ht; [| assumption | lia | assumption].
      destruct Ht as (H1 & H2 & H3 & H4).
      split; [rewrite H3; exact H1|]. split; [exact H2|]. split; [rewrite H3, H4; exact Hlen|].
      split; [rewrite H3; lia|]. exists []. rewrite app_nil_r. exact H3.
    - simpl in Ht. rewrite contract_all_ok in Ht. simpl in Ht.
      assert (Henc' : map (contract (fst p) (snd p) nc) enc = map (encode_from (ms0 ++ [p]) (mcc + 1)) X).
      { rewrite Henc, map_map. apply map_ext. intros s. rewrite encode_from_snoc. f_equal.
        rewrite app_length in Hnc. simpl in Hnc. lia. }
      destruct (sel_step st p nc enc (map (contract (fst p) (snd p) nc) enc)) as [[st' [p'|]]|]; simpl in Ht; [| |discriminate].
      + apply bind_ok in Ht as (tok & Htok & Ht).
        apply (IH st' (toks ++ [tok]) (ms0 ++ [p]) p' (nc + 1)) in Ht.
        * destruct Ht as (H1 & H2 & H3 & H4 & extra & H5). repeat split; try assumption.
          -- rewrite app_length in H4. simpl in H4. lia.
          -- exists (p' :: extra). rewrite H5, <- app_assoc. reflexivity.
        * rewrite !app_length. simpl. rewrite app_length in Hlen. simpl in Hlen. lia.
        * rewrite (app_length (ms0 ++ [p])). simpl. lia.
        * exact Henc'.
      + apply (finish_replay X mcc toks ms0 p (nc + 1) _ t false) in Ht; [| assumption | lia | exact Henc'].
      destruct Ht as (H1 & H2 & H3 & H4).
        split; [rewrite H3; exact H1|]. split; [exact H2|]. split; [rewrite H3, H4; exact Hlen|].
        split; [rewrite H3; lia|]. exists []. rewrite app_nil_r. exact H3.
  Qed.

  Definition fitted_mcc (X : list (list Z)) (mcc0 : Z) : Z := fold_left Z.max (concat X) mcc0.

  Theorem train_replay_any X v mcc0 t :
    bpe_train X v mcc0 = Ok t ->
    t_mcc t = fitted_mcc X mcc0 /\
    t_enc t = map (encode (t_merges t) (t_mcc t)) X /\
    length (t_tokens t) = length (t_merges t) /\
    (1 <= v -> Z.of_nat (length (t_tokens t)) <= v).
  Proof.
    unfold K8_BPE.bpe_train. fold (fitted_mcc X mcc0). set (mcc := fitted_mcc X mcc0).
    destruct (sel_init X mcc) as [[st [p|]]|]; simpl; [|discriminate|discriminate].
    destruct (is_codepoint (fst p) && is_codepoint (snd p)); [|discriminate].
    intros Ht.
    apply (train_loop_replay X mcc _ st [[fst p; snd p]] [] p (mcc + 1) X t) in Ht;
      [| reflexivity | simpl; lia | symmetry; apply map_id].
    destruct Ht as (H1 & H2 & H3 & H4 & _). rewrite H2. repeat split; try assumption.
    - rewrite H1. apply map_ext_in. intros s Hs. unfold encode. rewrite map_clamp_id; [reflexivity|].
      destruct (fold_max_ge (concat X) mcc0) as [_ Hall]. apply Forall_concat in Hall.
      eapply Forall_forall in Hall; eauto.
    - intros Hv. rewrite H3. simpl in H4. lia.
  Qed.

  (* ---------- under a sound oracle: training succeeds and its merge list is well formed ---------- *)
  (* oracle state, max_char_code, number of codes fully contracted, the pending pair the state goes with *)
  Variable Inv : OS -> Z -> nat -> Z * Z -> Prop.
  Hypothesis init_sound : forall X mcc st p,
    Forall (is_char mcc) (concat X) -> sel_init X mcc = Ok (st, Some p) ->
    Inv st mcc 0 p /\ is_char mcc (fst p) /\ is_char mcc (snd p).
  Hypothesis step_sound : forall st mcc k p enc,
    Inv st mcc k p -> Forall (wf_code mcc k) (concat enc) -> wf_code mcc k (fst p) -> wf_code mcc k (snd p) ->
    exists st' o,
      sel_step st p (mcc + 1 + Z.of_nat k) enc (map (contract (fst p) (snd p) (mcc + 1 + Z.of_nat k)) enc) = Ok (st', o) /\
      forall q, o = Some q -> Inv st' mcc (S k) q /\ wf_code mcc (S k) (fst q) /\ wf_code mcc (S k) (snd q).

  Lemma wf_merges_snoc mcc ms q :
    wf_merges mcc ms -> wf_code mcc (length ms) (fst q) -> wf_code mcc (length ms) (snd q) ->
    wf_merges mcc (ms ++ [q]).
  Proof.
    intros [Hm Hwf] Ha Hb. split; [exact Hm|]. intros i a b Hi.
    destruct (Nat.lt_ge_cases i (length ms)) as [Hlt|Hge].
    - rewrite nth_error_app1 in Hi by lia. apply Hwf; exact Hi.
    - rewrite nth_error_app2 in Hi by lia.
      destruct (i - length ms)%nat as [|j] eqn:Ej; simpl in Hi; [|destruct j; discriminate].
      inversion Hi; subst q. assert (i = length ms) by lia. subst i. simpl in *. auto.
  Qed.

  Lemma contract_all_wf mcc k p enc :
    Forall (wf_code mcc k) (concat enc) ->
    Forall (wf_code mcc (S k)) (concat (map (contract (fst p) (snd p) (mcc + 1 + Z.of_nat k)) enc)).
  Proof.
    intros H. apply Forall_concat. apply Forall_concat in H. apply Forall_forall. intros l Hl.
    apply in_map_iff in Hl as (l0 & <- & Hl0). apply contract_wf. eapply Forall_forall in H; eauto.
  Qed.

  Lemma train_loop_sound mcc : forall room st toks ms0 p enc,
    0 <= mcc ->
    wf_merges mcc (ms0 ++ [p]) ->
    build_tokens mcc (ms0 ++ [p]) = Ok toks ->
    Inv st mcc (length ms0) p ->
    Forall (wf_code mcc (length ms0)) (concat enc) ->
    exists t, train_loop room st toks (ms0 ++ [p]) p (mcc + 1 + Z.of_nat (length ms0)) enc mcc = Ok t /\
              wf_merges mcc (t_merges t) /\ build_tokens mcc (t_merges t) = Ok (t_tokens t).
  Proof.
    induction room as [|room IH]; intros st toks ms0 p enc Hm Hwf Hb Hinv Henc.
    - simpl. unfold finish. rewrite contract_all_ok.
      destruct (Z.of_nat (length toks) =? _); simpl; eexists; (split; [reflexivity|]); simpl; auto.
    - simpl. rewrite contract_all_ok. simpl.
      assert (Hp : wf_code mcc (length ms0) (fst p) /\ wf_code mcc (length ms0) (snd p)).
      { destruct p as [a b]. destruct Hwf as [_ Hwf]. apply Hwf.
        rewrite nth_error_app2 by lia. rewrite Nat.sub_diag. reflexivity. }
      destruct Hp as [Hpa Hpb].
      destruct (step_sound st mcc (length ms0) p enc Hinv Henc Hpa Hpb) as (st' & o & Hsel & Hq).
      rewrite Hsel. simpl bind.
      destruct o as [q|].
      + destruct (Hq q eq_refl) as (Hinv' & Hqa & Hqb).
        assert (Hlen : length (ms0 ++ [p]) = S (length ms0)) by (rewrite app_length; simpl; lia).
        assert (Hwf' : wf_merges mcc ((ms0 ++ [p]) ++ [q])) by (apply wf_merges_snoc; [assumption | rewrite Hlen; assumption ..]).
        destruct (build_tokens_ok mcc _ Hwf) as (toks0 & Hb0 & Hok0). rewrite Hb in Hb0. inversion Hb0; subst toks0.
        destruct Hok0 as [Hlt _].
        unfold pair_to_string.
        rewrite (to_unicode_wf toks mcc (fst q)), (to_unicode_wf toks mcc (snd q)) by (rewrite Hlt, Hlen; assumption).
        simpl bind.
        replace (mcc + 1 + Z.of_nat (length ms0) + 1) with (mcc + 1 + Z.of_nat (length (ms0 ++ [p]))) by (rewrite Hlen; lia).
        apply IH; try assumption.
        * unfold build_tokens in *. rewrite build_tokens_from_snoc, Hb. simpl. unfold pair_to_string.
          rewrite (to_unicode_wf toks mcc (fst q)), (to_unicode_wf toks mcc (snd q)) by (rewrite Hlt, Hlen; assumption).
          reflexivity.
        * rewrite Hlen. exact Hinv'.
        * rewrite Hlen. apply contract_all_wf. exact Henc.
      + unfold finish. rewrite contract_all_ok.
        destruct (Z.of_nat (length toks) =? _); simpl; eexists; (split; [reflexivity|]); simpl; auto.
  Qed.

  Theorem train_sound X v mcc0 st p :
    Forall codepoints X ->
    sel_init X (fitted_mcc X mcc0) = Ok (st, Some p) ->
    exists t, bpe_train X v mcc0 = Ok t /\ wf_merges (t_mcc t) (t_merges t) /\
              build_tokens (t_mcc t) (t_merges t) = Ok (t_tokens t).
  Proof.
    intros HX Hsel. unfold K8_BPE.bpe_train. fold (fitted_mcc X mcc0). set (mcc := fitted_mcc X mcc0) in *.
    rewrite Hsel. simpl bind.
    destruct (fold_max_ge (concat X) mcc0) as [_ Hall]. fold (fitted_mcc X mcc0) in Hall. fold mcc in Hall.
    assert (Hchars : Forall (fun c => 0 <= c <= MAXCP) (concat X)) by (apply Forall_concat; exact HX).
    assert (Hischar : Forall (is_char mcc) (concat X)).
    { apply Forall_forall. intros c Hc. split; [split|].
      - eapply Forall_forall in Hchars; eauto. simpl in Hchars. lia.
      - eapply Forall_forall in Hall; eauto.
      - eapply Forall_forall in Hchars; eauto. simpl in Hchars. lia. }
    destruct (init_sound X mcc st p Hischar Hsel) as (Hinv & Hpa & Hpb).
    assert (Hm : 0 <= mcc) by (destruct Hpa as [[? ?] _]; lia).
    {
      assert (Hcp : is_codepoint (fst p) && is_codepoint (snd p) = true).
      { unfold is_codepoint. destruct Hpa as [[? ?] ?], Hpb as [[? ?] ?].
        rewrite !andb_true_iff, !Z.leb_le. lia. }
      rewrite Hcp.
      assert (Hwf : wf_merges mcc ([] ++ [p])).
      { split; [exact Hm|]. intros i a b Hi. destruct i; simpl in Hi; [|destruct i; discriminate].
        inversion Hi; subst p. simpl in *. split; left; assumption. }
      assert (Hb : build_tokens mcc ([] ++ [p]) = Ok [[fst p; snd p]]).
      { unfold build_tokens. simpl. unfold pair_to_string.
        rewrite (to_unicode_wf [] mcc (fst p)), (to_unicode_wf [] mcc (snd p)) by (left; assumption).
        simpl. unfold expand. destruct Hpa as [[? Ha] _], Hpb as [[? Hb'] _].
        apply Z.leb_le in Ha, Hb'. rewrite Ha, Hb'. reflexivity. }
      pose proof (train_loop_sound mcc (Z.to_nat (v - 1)) st [[fst p; snd p]] [] p X Hm Hwf Hb Hinv) as H.
      simpl length in H. replace (mcc + 1 + Z.of_nat 0) with (mcc + 1) in H by lia.
      destruct H as (t & Ht & Hwft & Hbt).
      { apply Forall_forall. intros c Hc. left. eapply Forall_forall in Hischar; eauto. }
      exists t. simpl app in Ht. rewrite Ht.
      assert (Hmcc : t_mcc t = mcc).
      { pose proof (train_loop_replay X mcc _ st [[fst p; snd p]] [] p (mcc + 1) X t eq_refl ltac:(simpl; lia)
                                      ltac:(symmetry; apply map_id) Ht) as (_ & H2 & _). exact H2. }
      rewrite Hmcc. auto.
    }
  Qed.
End TrainProofs.

(* ================================================================== consequences *)

(* every token is the concatenation of the strings of its pair *)
Theorem token_concat mcc ms toks i a b :
  wf_merges mcc ms -> build_tokens mcc ms = Ok toks -> nth_error ms i = Some (a, b) ->
  exists ta tb, to_unicode toks mcc a = Ok ta /\ to_unicode toks mcc b = Ok tb /\ nth_error toks i = Some (ta ++ tb).
Proof.
  intros Hwf Hb Hi.
  destruct (build_tokens_ok mcc ms Hwf) as (toks' & Hb' & [Hlen Hnth]). rewrite Hb in Hb'. inversion Hb'; subst toks'.
  assert (Hlt : (i < length ms)%nat) by (apply nth_error_Some; congruence).
  destruct Hwf as [_ Hwf]. destruct (Hwf _ _ _ Hi) as [Ha Hbb].
  exists (expand toks mcc a), (expand toks mcc b).
  split; [apply to_unicode_wf; eapply wf_code_mono; [|eassumption]; lia|].
  split; [apply to_unicode_wf; eapply wf_code_mono; [|eassumption]; lia|].
  rewrite <- (Hnth _ _ _ Hi). apply nth_error_nth'. lia.
Qed.

(* the 'tokens' output of a row lists the strings of its codes; bpe_decode concatenates them *)
Theorem tokens_row_spec toks mcc codes ts :
  tokens_row toks mcc codes = Ok ts ->
  Forall2 (fun c t => to_unicode toks mcc c = Ok t) codes ts /\ bpe_decode toks mcc codes = Ok (concat ts).
Proof.
  intros H. split; [apply mapM_ok_inv; exact H|]. unfold bpe_decode. rewrite H. reflexivity.
Qed.

Section Consequences.
  Variable OS : Type.
  Variable sel_init : list (list Z) -> Z -> res (OS * option (Z * Z)).
  Variable sel_step : OS -> Z * Z -> Z -> list (list Z) -> list (list Z) -> res (OS * option (Z * Z)).

  (* transform re-encodes the training strings to exactly what fit_transform returned, whatever the oracle *)
  Theorem transform_train_any X v mcc0 t :
    bpe_train OS sel_init sel_step X v mcc0 = Ok t -> transform_sequences t X = Ok (t_enc t).
  Proof.
    intros Ht. destruct (train_replay_any OS sel_init sel_step X v mcc0 t Ht) as (_ & H & _).
    unfold transform_sequences. rewrite H. apply mapM_ok_map. intros s _. apply bpe_encode_ok.
  Qed.

  (* oracles that never raise and whose choice occurs in the current encodings (what a pair-frequency table can
     offer) are sound *)
  Hypothesis init_occurs : forall X mcc st a b,
    sel_init X mcc = Ok (st, Some (a, b)) -> In a (concat X) /\ In b (concat X).
  Hypothesis step_total : forall st p c enc enc', exists st' o, sel_step st p c enc enc' = Ok (st', o).
  Hypothesis step_occurs : forall st p c enc enc' st' a b,
    sel_step st p c enc enc' = Ok (st', Some (a, b)) -> In a (concat enc') /\ In b (concat enc').

  Theorem train_sound_occurs X v mcc0 st p :
    Forall codepoints X ->
    sel_init X (fitted_mcc X mcc0) = Ok (st, Some p) ->
    exists t, bpe_train OS sel_init sel_step X v mcc0 = Ok t /\ wf_merges (t_mcc t) (t_merges t) /\
              build_tokens (t_mcc t) (t_merges t) = Ok (t_tokens t).
  Proof.
    apply (train_sound OS sel_init sel_step (fun _ _ _ _ => True)).
    - intros X' mcc st' [a b] Hall Hsel. split; [exact I|].
      destruct (init_occurs _ _ _ _ _ Hsel) as [Ha Hb]. simpl.
      split; eapply Forall_forall in Hall; eauto.
    - intros st0 mcc k p0 enc _ Henc _ _.
      destruct (step_total st0 p0 (mcc + 1 + Z.of_nat k) enc (map (contract (fst p0) (snd p0) (mcc + 1 + Z.of_nat k)) enc))
        as (st' & o & Hsel).
      exists st', o. split; [exact Hsel|]. intros [a b] ->. split; [exact I|].
      destruct (step_occurs _ _ _ _ _ _ _ _ Hsel) as [Ha Hb]. simpl.
      pose proof (contract_all_wf mcc k p0 enc Henc) as Hall.
      split; eapply Forall_forall in Hall; eauto.
  Qed.
End Consequences.

(* a fitted model with a well-formed merge list decodes what it returned at fit time, and what transform returns *)
Theorem fitted_lossless t X :
  wf_merges (t_mcc t) (t_merges t) -> build_tokens (t_mcc t) (t_merges t) = Ok (t_tokens t) ->
  t_enc t = map (encode (t_merges t) (t_mcc t)) X -> Forall (Forall (fun c => c <= t_mcc t)) X ->
  Forall codepoints X ->
  (forall i s, nth_error X i = Some s ->
     exists e, nth_error (t_enc t) i = Some e /\ bpe_decode (t_tokens t) (t_mcc t) e = Ok s) /\
  (forall s, codepoints s ->
     exists e, bpe_encode (t_merges t) (t_mcc t) s = Ok e /\
               bpe_decode (t_tokens t) (t_mcc t) e = Ok (map (clamp (t_mcc t)) s)).
Proof.
  intros Hwf Hb Henc Hle Hcp.
  assert (Hs : forall s, codepoints s ->
     bpe_decode (t_tokens t) (t_mcc t) (encode (t_merges t) (t_mcc t) s) = Ok (map (clamp (t_mcc t)) s)).
  { intros s Hsc. destruct (lossless _ _ s Hwf Hsc) as (toks & e & Hb' & He & Hd).
    rewrite Hb in Hb'. inversion Hb'; subst toks. rewrite bpe_encode_ok in He. inversion He; subst e. exact Hd. }
  split.
  - intros i s Hi. exists (encode (t_merges t) (t_mcc t) s). split.
    + rewrite Henc. apply map_nth_error. exact Hi.
    + rewrite Hs.
      * rewrite map_clamp_id; [reflexivity|]. eapply Forall_forall in Hle; [exact Hle|]. eapply nth_error_In; eauto.
      * eapply Forall_forall in Hcp; [exact Hcp|]. eapply nth_error_In; eauto.
  - intros s Hsc. exists (encode (t_merges t) (t_mcc t) s). split; [apply bpe_encode_ok | apply Hs; exact Hsc].
Qed.

Lemma fitted_mcc_ge X mcc0 : Forall (Forall (fun c => c <= fitted_mcc X mcc0)) X.
Proof. apply Forall_concat. apply (fold_max_ge (concat X) mcc0). Qed.
