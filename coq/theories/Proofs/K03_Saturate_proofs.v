(* C03: radii larger than the sequence.  A window radius is a `nat` in the model; once it reaches the length of the
   sequence (number of multisets of the document) every window is the whole side of the sequence, so any two such
   radii -- 40000, 2^31-1, ... -- give the same windows, hence the same event lists.  (The harness evaluates radii
   above 2^17 at `longest sequence + 1`; these lemmas are the justification.) *)
From Coq Require Import List Arith Bool Lia.
From VZ Require Import Model.K02_Windows Model.K03_Cooc.
Import ListNotations.

Lemma window_radius_saturates : forall A (s : list A) R R' p rev,
  length s <= R -> length s <= R' -> p < length s ->
  window_at_index s R p rev = window_at_index s R' p rev.
Proof.
  intros A s R R' p rev HR HR' Hp. unfold window_at_index. destruct rev.
  - replace (p - R) with 0 by lia. replace (p - R') with 0 by lia. reflexivity.
  - rewrite !Nat.min_r by lia. reflexivity.
Qed.

Lemma multi_window_radius_saturates : forall A (doc : list A) R R' m rev,
  length doc <= R -> length doc <= R' -> m < length doc ->
  multi_window doc R m rev = multi_window doc R' m rev.
Proof.
  intros A doc R R' m rev HR HR' Hm. unfold multi_window. destruct rev.
  - replace (m - R) with 0 by lia. replace (m - R') with 0 by lia. reflexivity.
  - rewrite !Nat.min_l by lia. reflexivity.
Qed.

Lemma window_clamp : forall A (s : list A) L r p rev, length s <= L -> p < length s ->
  window_at_index s (Nat.min L r) p rev = window_at_index s r p rev.
Proof.
  intros A s L r p rev HL Hp. destruct (Nat.le_gt_cases r L).
  - rewrite Nat.min_r by assumption. reflexivity.
  - rewrite Nat.min_l by lia. apply window_radius_saturates; lia.
Qed.

Lemma multi_window_clamp : forall A (doc : list A) L r m rev, length doc <= L -> m < length doc ->
  multi_window doc (Nat.min L r) m rev = multi_window doc r m rev.
Proof.
  intros A doc L r m rev HL Hm. destruct (Nat.le_gt_cases r L).
  - rewrite Nat.min_r by assumption. reflexivity.
  - rewrite Nat.min_l by lia. apply multi_window_radius_saturates; lia.
Qed.

Lemma nth_map_min : forall L l i, nth i (map (Nat.min L) l) 0 = Nat.min L (nth i l 0).
Proof. induction l as [|a l IH]; intros [|i]; simpl; rewrite ?Nat.min_0_r; auto. Qed.

Lemma flat_map_ext_In : forall A B (f g : A -> list B) l, (forall a, In a l -> f a = g a) -> flat_map f l = flat_map g l.
Proof.
  induction l as [|a l IH]; intros H; simpl; [reflexivity|].
  rewrite H by (left; reflexivity). f_equal. apply IH. intros; apply H; right; assumption.
Qed.

Lemma map_ext_In' : forall A B (f g : A -> B) l, (forall a, In a l -> f a = g a) -> map f l = map g l.
Proof. intros. apply map_ext_in. assumption. Qed.

(* every radius of a block replaced by min L radius *)
Definition clamp_block {K : carrier} (L : nat) (b : block K) : block K :=
  {| b_rev := b_rev b; b_radii := map (Nat.min L) (b_radii b); b_kf := b_kf b; b_mask := b_mask b;
     b_norm := b_norm b; b_off := b_off b; b_mix := b_mix b |}.

Definition clamp_tblock {K : carrier} {Tm} (L : nat) (b : tblock K Tm) : tblock K Tm :=
  {| tb_rev := tb_rev b; tb_radii := map (Nat.min L) (tb_radii b); tb_g := tb_g b; tb_mask := tb_mask b;
     tb_norm := tb_norm b; tb_off := tb_off b; tb_mix := tb_mix b |}.

Theorem token_events_radius_clamp : forall (K : carrier) (blocks : list (block K)) nw n docs L,
  Forall (fun s => length s <= L) docs ->
  token_events (map (clamp_block L) blocks) nw n docs = token_events blocks nw n docs.
Proof.
  intros K blocks nw n docs L HL. unfold token_events. apply flat_map_ext_In. intros s Hs.
  rewrite Forall_forall in HL. specialize (HL s Hs).
  unfold token_doc_events. apply flat_map_ext_In. intros p Hp. apply in_seq in Hp. f_equal.
  unfold token_occ. f_equal. rewrite map_map. apply map_ext. intros b. cbn [clamp_block b_rev b_radii b_kf b_mask b_norm b_off b_mix].
  rewrite nth_map_min. rewrite window_clamp by lia. reflexivity.
Qed.

Theorem timed_events_radius_clamp : forall (K : carrier) Tm (absdiff : Tm -> Tm -> Tm) t0 (blocks : list (tblock K Tm)) nw n docs L,
  Forall (fun s => length s <= L) docs ->
  timed_events absdiff t0 (map (clamp_tblock L) blocks) nw n docs = timed_events absdiff t0 blocks nw n docs.
Proof.
  intros K Tm absdiff t0 blocks nw n docs L HL. unfold timed_events. apply flat_map_ext_In. intros s Hs.
  rewrite Forall_forall in HL. specialize (HL s Hs).
  unfold timed_doc_events. apply flat_map_ext_In. intros p Hp. apply in_seq in Hp. f_equal.
  unfold timed_occ. f_equal. rewrite map_map. apply map_ext. intros b.
  cbn [clamp_tblock tb_rev tb_radii tb_g tb_mask tb_norm tb_off tb_mix].
  rewrite nth_map_min. rewrite window_clamp by lia. reflexivity.
Qed.

Theorem ngram_events_radius_clamp : forall (K : carrier) (blocks : list (block K)) nw n dict size docs L,
  Forall (fun s => length s <= L) docs ->
  ngram_events (map (clamp_block L) blocks) nw n dict size docs = ngram_events blocks nw n dict size docs.
Proof.
  intros K blocks nw n dict size docs L HL. unfold ngram_events. apply flat_map_ext_In. intros s Hs.
  rewrite Forall_forall in HL. specialize (HL s Hs).
  unfold ngram_doc_events. apply flat_map_ext_In. intros w_i Hw. apply in_seq in Hw.
  destruct (dict_find dict (slice (w_i + 1 - size) (w_i + 1) s)) as [row|]; [|reflexivity]. f_equal.
  unfold ngram_occ. f_equal. rewrite map_map. apply map_ext. intros b.
  cbn [clamp_block b_rev b_radii b_kf b_mask b_norm b_off b_mix].
  rewrite nth_map_min. rewrite window_clamp by (destruct (b_rev b); lia). reflexivity.
Qed.

Theorem multi_events_radius_clamp : forall (K : carrier) (blocks : list (block K)) nw n docs L,
  Forall (fun doc => length doc <= L) docs ->
  multi_events (map (clamp_block L) blocks) nw n docs = multi_events blocks nw n docs.
Proof.
  intros K blocks nw n docs L HL. unfold multi_events. apply flat_map_ext_In. intros doc Hd.
  rewrite Forall_forall in HL. specialize (HL doc Hd).
  unfold multi_doc_events. apply flat_map_ext_In. intros d_i Hdi. apply in_seq in Hdi.
  apply flat_map_ext_In. intros w_i _. f_equal.
  unfold multi_occ. f_equal. rewrite map_map. apply map_ext. intros b.
  cbn [clamp_block b_rev b_radii b_kf b_mask b_norm b_off b_mix].
  rewrite nth_map_min. rewrite multi_window_clamp by lia. reflexivity.
Qed.
