From Coq Require Import ZArith List Bool Lia Arith.
From VZ Require Import Model.K9_LZ Proofs.K9_LZ_proofs Proofs.K9_LZ_matrix_proofs.
Import ListNotations.
Open Scope Z_scope.

Definition idh (p : list Z) : list Z := p.

Lemma map_keys_length {K1 K2} (f : K1 -> K2) d : length (map_keys f d) = length d.
Proof. apply map_length. Qed.

Lemma map_keys_app {K1 K2} (f : K1 -> K2) d1 d2 : map_keys f (d1 ++ d2) = map_keys f d1 ++ map_keys f d2.
Proof. apply map_app. Qed.

Lemma keys_app {K} (d1 d2 : list (K * Z)) : keys (d1 ++ d2) = keys d1 ++ keys d2.
Proof. apply map_app. Qed.

Section Relabel.
  Variable K : Type.
  Variable keqb : K -> K -> bool.
  Hypothesis keqb_spec : forall a b, keqb a b = true <-> a = b.
  Variable h : list Z -> K.
  Variable Q : list (list Z).
  Hypothesis h_inj : forall x y, In x Q -> In y Q -> h x = h y -> x = y.

  Notation pdict := (list (list Z * Z)).

  Lemma keqb_h x y : In x Q -> In y Q -> keqb (h x) (h y) = list_eqb x y.
  Proof.
    intros Hx Hy. destruct (list_eqb x y) eqn:E.
    - apply list_eqb_spec in E. subst. apply keqb_spec. reflexivity.
    - destruct (keqb (h x) (h y)) eqn:E2; [|reflexivity].
      apply keqb_spec in E2. apply h_inj in E2; try assumption. subst.
      assert (list_eqb y y = true) by (apply list_eqb_spec; reflexivity). congruence.
  Qed.

  Lemma dget_relabel (d : pdict) q : incl (keys d) Q -> In q Q -> dget keqb (map_keys h d) (h q) = dget list_eqb d q.
  Proof.
    induction d as [|[k v] t IH]; simpl; intros Hd Hq; [reflexivity|].
    rewrite keqb_h; [|exact Hq | apply Hd; left; reflexivity].
    destruct (list_eqb q k); [reflexivity|]. apply IH; [|exact Hq]. intros x Hx. apply Hd. right. exact Hx.
  Qed.

  Lemma dincr_relabel (d : pdict) q : incl (keys d) Q -> In q Q -> dincr keqb (map_keys h d) (h q) = map_keys h (dincr list_eqb d q).
  Proof.
    induction d as [|[k v] t IH]; simpl; intros Hd Hq; [reflexivity|].
    rewrite keqb_h; [|exact Hq | apply Hd; left; reflexivity].
    destruct (list_eqb q k); [reflexivity|]. simpl. unfold map_keys at 2. simpl. f_equal.
    apply IH; [|exact Hq]. intros x Hx. apply Hd. right. exact Hx.
  Qed.

  Lemma dset_relabel (d : pdict) q v : incl (keys d) Q -> In q Q -> dset keqb (map_keys h d) (h q) v = map_keys h (dset list_eqb d q v).
  Proof.
    induction d as [|[k v'] t IH]; simpl; intros Hd Hq; [reflexivity|].
    rewrite keqb_h; [|exact Hq | apply Hd; left; reflexivity].
    destruct (list_eqb q k); [reflexivity|]. simpl. unfold map_keys at 2. simpl. f_equal.
    apply IH; [|exact Hq]. intros x Hx. apply Hd. right. exact Hx.
  Qed.

  Lemma keys_dset_incl (d : pdict) q v : incl (keys (dset list_eqb d q v)) (q :: keys d).
  Proof.
    induction d as [|[k v'] t IH]; simpl; [intros x [<-|[]]; left; reflexivity|].
    destruct (list_eqb q k); simpl.
    - intros x Hx. right. exact Hx.
    - intros x [<-|Hx]; [right; left; reflexivity|]. destruct (IH _ Hx) as [<-|H]; [left; reflexivity | right; right; exact H].
  Qed.

  Lemma input_dict_relabel (base : pdict) :
    incl (keys base) Q ->
    input_dict keqb (map_keys h base) = map_keys h (input_dict list_eqb base) /\ incl (keys (input_dict list_eqb base)) Q.
  Proof.
    unfold input_dict.
    assert (Hgen : forall d, incl (keys d) Q -> incl (keys base) Q ->
       fold_left (fun d kv => dset keqb d (fst kv) (snd kv)) (map_keys h base) (map_keys h d)
       = map_keys h (fold_left (fun d kv => dset list_eqb d (fst kv) (snd kv)) base d) /\
       incl (keys (fold_left (fun d kv => dset list_eqb d (fst kv) (snd kv)) base d)) Q).
    { induction base as [|[k v] t IH]; intros d Hd Hb; simpl; [split; [reflexivity | exact Hd]|].
      assert (Hk : In k Q) by (apply Hb; left; reflexivity).
      rewrite dset_relabel by assumption. apply IH.
      - intros x Hx. destruct (keys_dset_incl d k v x Hx) as [<-|H]; [exact Hk | apply Hd; exact H].
      - intros x Hx. apply Hb. right. exact Hx. }
    intros Hb. apply (Hgen [] (fun x H => match H with end) Hb).
  Qed.

  (* the parse: under injectivity on the queried phrases and the keys, the hashed parse is the relabelled parse *)
  Lemma lz_spec_relabel cap : forall rest cur (d : pdict) size drops,
    incl (keys d) Q -> incl (lz_queries rest cur d size cap) Q ->
    lz_spec keqb h rest cur (map_keys h d) size cap drops
    = (map_keys h (fst (lz_spec list_eqb idh rest cur d size cap drops)), snd (lz_spec list_eqb idh rest cur d size cap drops))
    /\ incl (keys (fst (lz_spec list_eqb idh rest cur d size cap drops))) Q.
  Proof.
    induction rest as [|c rest IH]; intros cur d size drops Hd Hq; simpl; [split; [reflexivity | exact Hd]|].
    simpl in Hq. assert (Hcur : In cur Q) by (apply Hq; left; reflexivity).
    assert (Hq' : incl (match dget list_eqb d cur with
                        | Some _ => lz_queries rest (cur ++ [c]) (dincr list_eqb d cur) size cap
                        | None => if cap <=? size then lz_queries rest [c] d size cap
                                  else lz_queries rest [c] (d ++ [(cur, 1)]) (size + 1) cap
                        end) Q) by (intros x Hx; apply Hq; right; exact Hx).
    rewrite dget_relabel by assumption. change (idh cur) with cur.
    destruct (dget list_eqb d cur) as [v|].
    - rewrite dincr_relabel by assumption. apply IH; [|exact Hq'].
      rewrite (keys_dincr _ list_eqb). exact Hd.
    - destruct (cap <=? size).
      + apply IH; assumption.
      + replace (map_keys h d ++ [(h cur, 1)]) with (map_keys h (d ++ [(cur, 1)])) by (rewrite map_keys_app; reflexivity).
        apply IH; [|exact Hq'].
        rewrite keys_app. intros x Hx. apply in_app_iff in Hx as [Hx|[<-|[]]]; [apply Hd; exact Hx | exact Hcur].
  Qed.

  Theorem lz_encode_relabel s (d : pdict) cap :
    incl (keys d) Q -> incl (lz_queries s [] d (Z.of_nat (length d)) cap) Q ->
    lz_encode keqb h s (map_keys h d) cap = map_keys h (lz_encode list_eqb idh s d cap) /\
    incl (keys (lz_encode list_eqb idh s d cap)) Q.
  Proof.
    intros Hd Hq. rewrite (lz_encode_spec K keqb h), (lz_encode_spec _ list_eqb idh). rewrite map_keys_length.
    destruct (lz_spec_relabel cap s [] d (Z.of_nat (length d)) 0 Hd Hq) as [H1 H2]. rewrite H1. split; [reflexivity | exact H2].
  Qed.

  (* column assignment commutes with the relabelling *)
  Lemma assign_cols_relabel : forall (d cols : pdict),
    incl (keys cols) Q -> incl (keys d) Q ->
    assign_cols keqb (map_keys h cols) (map_keys h d)
    = (map_keys h (fst (assign_cols list_eqb cols d)), snd (assign_cols list_eqb cols d)) /\
    incl (keys (fst (assign_cols list_eqb cols d))) Q.
  Proof.
    induction d as [|[k v] t IH]; intros cols Hc Hd; simpl; [split; [reflexivity | exact Hc]|].
    assert (Hk : In k Q) by (apply Hd; left; reflexivity).
    assert (Ht : incl (keys t) Q) by (intros x Hx; apply Hd; right; exact Hx).
    rewrite dget_relabel by assumption.
    destruct (dget list_eqb cols k) as [j|].
    - destruct (IH cols Hc Ht) as [H1 H2]. rewrite H1.
      destruct (assign_cols list_eqb cols t) as [c1 e1]. simpl in *. split; [reflexivity | exact H2].
    - rewrite map_keys_length.
      assert (Hc' : incl (keys (cols ++ [(k, Z.of_nat (length cols))])) Q).
      { rewrite keys_app. intros x Hx. apply in_app_iff in Hx as [Hx|[<-|[]]]; [apply Hc; exact Hx | exact Hk]. }
      replace (map_keys h cols ++ [(h k, Z.of_nat (length cols))])
        with (map_keys h (cols ++ [(k, Z.of_nat (length cols))])) by (rewrite map_keys_app; reflexivity).
      destruct (IH _ Hc' Ht) as [H1 H2]. rewrite H1.
      destruct (assign_cols list_eqb (cols ++ [(k, Z.of_nat (length cols))]) t) as [c1 e1]. simpl in *.
      split; [reflexivity | exact H2].
  Qed.

  (* the whole fit_transform: same rows, column dictionary relabelled *)
  Theorem fit_rows_relabel (base : pdict) cap : forall X (cols : pdict),
    incl (keys base) Q -> incl (keys cols) Q ->
    (forall s, In s X ->
       incl (lz_queries s [] (input_dict list_eqb base) (Z.of_nat (length (input_dict list_eqb base))) cap) Q) ->
    fit_rows keqb h X (map_keys h base) cap (map_keys h cols)
    = (map_keys h (fst (fit_rows list_eqb idh X base cap cols)), snd (fit_rows list_eqb idh X base cap cols)).
  Proof.
    intros X. induction X as [|s X IH]; intros cols Hb Hc HX; simpl; [reflexivity|].
    destruct (input_dict_relabel base Hb) as [Hib Hik]. rewrite Hib.
    destruct (lz_encode_relabel s (input_dict list_eqb base) cap Hik (HX s (or_introl eq_refl))) as [He Hek].
    rewrite He.
    destruct (assign_cols_relabel _ cols Hc Hek) as [Ha Hak]. rewrite Ha.
    destruct (assign_cols list_eqb cols (lz_encode list_eqb idh s (input_dict list_eqb base) cap)) as [c1 es]. simpl in *.
    rewrite (IH c1 Hb Hak) by (intros s' Hs'; apply HX; right; exact Hs').
    destruct (fit_rows list_eqb idh X base cap c1) as [c2 rows]. reflexivity.
  Qed.
End Relabel.
