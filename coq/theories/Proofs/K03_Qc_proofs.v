(* Rational-valued corollaries for C03: normalised kernels, and the positivity filter is the identity on
   non-negative weights. *)
From Coq Require Import List Arith Bool Lia QArith Qcanon.
From VZ Require Import Model.K02_Windows Model.K03_Cooc Model.K03_CoocSpec Model.K03_Exec
     Proofs.K03_BigSum Proofs.K02_Windows_proofs Proofs.K02_Qc_proofs.
Import ListNotations.
Local Open Scope Qc_scope.

Lemma Forall_mask_out : forall mask (win : list nat) (res : list Qc),
  Forall (fun x => 0 <= x) res -> Forall (fun x => 0 <= x) (@mask_out QcK mask win res).
Proof.
  intros mask win res H. unfold mask_out. destruct mask as [m|]; [|assumption].
  rewrite Forall_forall. intros x Hx. apply in_map_iff in Hx. destruct Hx as [[t y] [<- Hin]]. simpl.
  destruct (Nat.eqb t m); [apply Qcle_refl|]. apply in_combine_r in Hin. rewrite Forall_forall in H. apply H. assumption.
Qed.

Lemma Forall_offset_out : forall off (res : list Qc),
  Forall (fun x => 0 <= x) res -> Forall (fun x => 0 <= x) (@offset_out QcK off res).
Proof.
  intros off res H. unfold offset_out. apply Forall_app. split.
  - rewrite Forall_forall. intros x Hx. apply repeat_spec in Hx. subst. apply Qcle_refl.
  - rewrite Forall_forall in *. intros x Hx. apply H.
    rewrite <- (firstn_skipn (Nat.min off (length res)) res). apply in_or_app. right. assumption.
Qed.

Theorem kernel_normalized_sum : forall (kf : nat -> Qc) mask off (win : list nat),
  (forall k, 0 <= kf k) ->
  qsum (@kernel QcK kf mask true off win) = 1 \/ Forall (fun x => x = 0) (@kernel QcK kf mask true off win).
Proof.
  intros kf mask off win Hkf. unfold kernel, finish_kernel.
  set (raw := @offset_out QcK off (@mask_out QcK mask win (@base_weights QcK kf (length win)))).
  assert (Hraw : Forall (fun x => 0 <= x) raw).
  { apply Forall_offset_out, Forall_mask_out. unfold base_weights. rewrite Forall_forall.
    intros x Hx. apply in_map_iff in Hx. destruct Hx as [k [<- _]]. apply Hkf. }
  destruct (l1_normalize_sum raw Hraw) as [[_ H]|[H1 H2]]; [left; assumption | right; rewrite H2; assumption].
Qed.

(* ---------- non-negative positional blocks ---------- *)

Definition pb_nonneg (b : pblock QcK) : Prop := 0 <= pb_mix b /\ forall q, 0 <= pb_bw b q.

Lemma isum_nonneg : forall L (f : nat -> Qc), (forall q, 0 <= f q) -> 0 <= @isum QcK L f.
Proof.
  intros. unfold isum, bigsum. apply qsum_nonneg. rewrite Forall_forall. intros x Hx.
  apply in_map_iff in Hx. destruct Hx as [q [<- _]]. apply H.
Qed.

Section NonNeg.
Variable L : nat.
Variable tok : nat -> nat.

Lemma p_raw_nonneg : forall b q, pb_nonneg b -> 0 <= @p_raw QcK tok b q.
Proof.
  intros b q [_ Hb]. unfold p_raw. destruct (_ || _); [apply Qcle_refl | apply Hb].
Qed.

Lemma p_norm_nonneg : forall b q, pb_nonneg b -> 0 <= @p_norm QcK L tok b q.
Proof.
  intros b q Hb. unfold p_norm. destruct (pb_norm b); [|apply p_raw_nonneg; assumption].
  destruct (@gtb0 QcK (p_ksum L tok b)) eqn:E; [|apply p_raw_nonneg; assumption].
  apply gtb0_true in E. apply Qcdiv_nonneg; [apply p_raw_nonneg; assumption | assumption].
Qed.

Lemma p_weight_nonneg : forall b q, pb_nonneg b -> 0 <= @p_weight QcK L tok b q.
Proof.
  intros b q Hb. unfold p_weight. apply Qcmult_nonneg; [apply Hb | apply p_norm_nonneg; assumption].
Qed.

Lemma p_total_pos : forall nw (bs : list (pblock QcK)), 0 < @p_total QcK L tok nw bs.
Proof.
  intros. unfold p_total. destruct nw; [|reflexivity].
  match goal with |- context [gtb0 ?t] => destruct (@gtb0 QcK t) eqn:E end; [apply gtb0_true in E; assumption | reflexivity].
Qed.

Lemma p_cell_nonneg : forall nw (bs : list (pblock QcK)) i c, Forall pb_nonneg bs ->
  @p_cell QcK L tok nw bs i c =
  match nth_error bs i with
  | Some b => @isum QcK L (fun q => if p_in b q && Nat.eqb (tok q) c
                                  then p_weight L tok b q / p_total L tok nw bs else 0)
  | None => 0
  end.
Proof.
  intros nw bs i c Hbs. unfold p_cell. destruct (nth_error bs i) as [b|] eqn:Hn; [|reflexivity].
  apply isum_ext. intros q _. destruct (p_in b q && Nat.eqb (tok q) c); [|reflexivity].
  apply posv_nonneg. apply Qcdiv_nonneg; [|apply p_total_pos].
  apply p_weight_nonneg. rewrite Forall_forall in Hbs. apply Hbs. eapply nth_error_In. eassumption.
Qed.

End NonNeg.

Theorem token_cell_nonneg : forall (blocks : list (block QcK)) nw (d : list nat) r p i c,
  Forall (fun b : block QcK => 0 <= (b_mix b : Qc) /\ forall k, 0 <= (b_kf b k : Qc)) blocks -> (p < length d)%nat ->
  p_cell (length d) (fun q => nth q d 0%nat) nw (token_pblocks blocks r p) i c =
  match nth_error (token_pblocks blocks r p) i with
  | Some b => @isum QcK (length d) (fun q => if p_in b q && Nat.eqb (nth q d 0%nat) c
                then p_weight (length d) (fun q => nth q d 0%nat) b q / p_total (length d) (fun q => nth q d 0%nat) nw (token_pblocks blocks r p)
                else 0)
  | None => 0
  end.
Proof.
  intros blocks nw d r p i c Hb _. apply p_cell_nonneg. unfold token_pblocks. rewrite Forall_forall.
  intros pb Hpb. apply in_map_iff in Hpb. destruct Hpb as [b [<- Hin]]. rewrite Forall_forall in Hb.
  destruct (Hb b Hin) as [H1 H2]. split; simpl; [assumption | intros; apply H2].
Qed.

(* ---------- the printable matrix used by the correspondence is sumby ---------- *)

Lemma matrix_get_acc_add : forall m r' c' (v : Qc) r c,
  matrix_get (acc_add r' c' v m) r c = matrix_get m r c + (if Nat.eqb r r' && Nat.eqb c c' then v else 0).
Proof.
  induction m as [|[[r0 c0] v0] m IH]; intros r' c' v r c; cbn [acc_add matrix_get].
  - destruct (Nat.eqb r r' && Nat.eqb c c'); ring.
  - destruct (Nat.eqb r' r0 && Nat.eqb c' c0) eqn:K1; cbn [matrix_get].
    + apply andb_prop in K1. destruct K1 as [A B]. apply Nat.eqb_eq in A. apply Nat.eqb_eq in B. subst.
      destruct (Nat.eqb r r0 && Nat.eqb c c0); ring.
    + destruct (Nat.eqb r r0 && Nat.eqb c c0) eqn:K2.
      * apply andb_prop in K2. destruct K2 as [A B]. apply Nat.eqb_eq in A. apply Nat.eqb_eq in B. subst.
        rewrite (Nat.eqb_sym r0 r'), (Nat.eqb_sym c0 c'), K1. ring.
      * apply IH.
Qed.

Lemma sumby_cons_Qc : forall (e : event QcK) evs r c,
  @sumby QcK (e :: evs) r c = (if Nat.eqb (e_row e) r && Nat.eqb (e_col e) c then (e_val e : Qc) else 0) + @sumby QcK evs r c.
Proof. reflexivity. Qed.

Theorem matrix_of_sumby : forall (evs : list (event QcK)) r c, matrix_get (matrix_of evs) r c = @sumby QcK evs r c.
Proof.
  intros evs r c. unfold matrix_of.
  assert (H : forall m, matrix_get (fold_left (fun m (e : event QcK) => acc_add (e_row e) (e_col e) (e_val e : Qc) m) evs m) r c
                        = matrix_get m r c + @sumby QcK evs r c).
  { induction evs as [|e evs IH]; intros m; cbn [fold_left].
    - change (@sumby QcK [] r c) with (Q2Qc 0). ring.
    - rewrite IH, matrix_get_acc_add, sumby_cons_Qc.
      rewrite (Nat.eqb_sym (e_row e) r), (Nat.eqb_sym (e_col e) c).
      destruct (Nat.eqb r (e_row e) && Nat.eqb c (e_col e)); change (T QcK) with Qc; ring. }
  rewrite H. cbn [matrix_get]. ring.
Qed.
