(* Proofs about Model/K18_Tree.v.  The SPEC side (walks by explicit recursion over successor lists, the pointwise
   token window count, reachability) is defined here, independently of the matrix pipeline of the model. *)
From Coq Require Import ZArith List Lia Arith Bool Relations.
From VZ Require Import Model.K18_Tree.
Import ListNotations.
Open Scope Z_scope.

(* ================= specification side ================= *)

(* number of directed walks of exactly k steps from u to v: recursion over the successor list of the FIRST node *)
Fixpoint walks (g : graph) (k : nat) (u v : nat) : Z :=
  match k with
  | O => if (u =? v)%nat then 1 else 0
  | S k' => lsum (fun x => walks g k' x v) (succs g u)
  end.

Definition wf_graph (g : graph) : Prop := forall u x, In x (succs g u) -> (x < length g)%nat.
Definition wf_tree (t : tree) : Prop := wf_graph (fst t) /\ length (snd t) = length (fst t).

(* sum_{k=1..R} w_k * #walks_k(u,v),  w_k = nth (k-1) ws *)
Definition weighted_walks (ws : list Z) (g : graph) (u v : nat) : Z :=
  sumn (length ws) (fun i => nth i ws 0 * walks g (S i) u v).

(* the property's right-hand side for one tree and a pair of columns (a, b) of the dictionary d *)
Definition tree_spec (ws : list Z) (d : dict) (t : tree) (a b : nat) : Z :=
  let n := length (fst t) in
  sumn n (fun u => sumn n (fun v =>
    ind (opt_eqb (lookup d (nth u (snd t) 0%nat)) a) * ind (opt_eqb (lookup d (nth v (snd t) 0%nat)) b)
    * weighted_walks ws (fst t) u v)).

(* token co-occurrence 'after' counts of one sequence, pointwise over all position pairs (p, q):
   q is in the window after p iff p < q <= p + R, the weight depends on the distance q - p only *)
Definition token_after_spec (ws : list Z) (d : dict) (s : list nat) (a b : nat) : Z :=
  sumn (length s) (fun p => sumn (length s) (fun q =>
    if opt_eqb (lookup d (nth p s 0%nat)) a && opt_eqb (lookup d (nth q s 0%nat)) b
       && (p <? q)%nat && (q <=? p + length ws)%nat
    then nth (q - p - 1) ws 0 else 0)).

Definition edge (g : graph) (u v : nat) : Prop := In v (succs g u).
Definition reach (g : graph) : nat -> nat -> Prop := clos_refl_trans_1n nat (edge g).

(* parent -> child forests as far as remove_node needs them: simple rows, at most one parent per node *)
Definition out_forest (g : graph) : Prop :=
  (forall u, NoDup (succs g u)) /\ (forall u u' v, In v (succs g u) -> In v (succs g u') -> u = u').

(* ================= sums ================= *)

Lemma sumn_ext n f g : (forall x, (x < n)%nat -> f x = g x) -> sumn n f = sumn n g.
Proof.
  induction n as [|n IH]; intros H; [reflexivity|]. cbn. rewrite IH, H; auto.
Qed.

Lemma sumn_zero n f : (forall x, (x < n)%nat -> f x = 0) -> sumn n f = 0.
Proof.
  induction n as [|n IH]; intros H; [reflexivity|]. cbn. rewrite IH, H; auto.
Qed.

Lemma sumn_add n f g : sumn n (fun x => f x + g x) = sumn n f + sumn n g.
Proof. induction n as [|n IH]; cbn; [reflexivity|]. rewrite IH. ring. Qed.

Lemma sumn_mul_r n f c : sumn n f * c = sumn n (fun x => f x * c).
Proof. induction n as [|n IH]; cbn; [reflexivity|]. rewrite <- IH. ring. Qed.

Lemma sumn_mul_l n f c : c * sumn n f = sumn n (fun x => c * f x).
Proof. induction n as [|n IH]; cbn; [ring|]. rewrite <- IH. ring. Qed.

Lemma sumn_swap n m (f : nat -> nat -> Z) :
  sumn n (fun x => sumn m (fun y => f x y)) = sumn m (fun y => sumn n (fun x => f x y)).
Proof.
  induction n as [|n IH]; cbn.
  - symmetry. apply sumn_zero. reflexivity.
  - rewrite IH. rewrite <- sumn_add. reflexivity.
Qed.

Lemma sumn_single n f i0 :
  (i0 < n)%nat -> (forall i, (i < n)%nat -> i <> i0 -> f i = 0) -> sumn n f = f i0.
Proof.
  induction n as [|n IH]; intros Hi H; [lia|]. cbn.
  destruct (Nat.eq_dec i0 n) as [->|Hne].
  - rewrite sumn_zero; [ring|]. intros x Hx. apply H; lia.
  - rewrite IH; [|lia|intros; apply H; lia]. rewrite (H n); [ring|lia|auto].
Qed.

Lemma lsum_cons {A} (f : A -> Z) a l : lsum f (a :: l) = f a + lsum f l.
Proof. reflexivity. Qed.

Lemma lsum_ext {A} (f g : A -> Z) l : (forall x, In x l -> f x = g x) -> lsum f l = lsum g l.
Proof.
  induction l as [|a l IH]; intros H; [reflexivity|]. rewrite !lsum_cons, IH, H; cbn; auto.
  intros; apply H; cbn; auto.
Qed.

Lemma lsum_app {A} (f : A -> Z) l1 l2 : lsum f (l1 ++ l2) = lsum f l1 + lsum f l2.
Proof.
  induction l1 as [|a l IH]; [reflexivity|]. rewrite <- app_comm_cons, !lsum_cons, IH. ring.
Qed.

Lemma lsum_add {A} (f g : A -> Z) l : lsum (fun x => f x + g x) l = lsum f l + lsum g l.
Proof. induction l as [|a l IH]; [reflexivity|]. rewrite !lsum_cons, IH. ring. Qed.

Lemma lsum_mul_r {A} (f : A -> Z) l c : lsum f l * c = lsum (fun x => f x * c) l.
Proof. induction l as [|a l IH]; [reflexivity|]. rewrite !lsum_cons, <- IH. ring. Qed.

Lemma lsum_zero {A} (f : A -> Z) l : (forall x, In x l -> f x = 0) -> lsum f l = 0.
Proof.
  induction l as [|a l IH]; intros H; [reflexivity|]. rewrite lsum_cons, IH, H; cbn; auto.
  intros; apply H; cbn; auto.
Qed.

Lemma lsum_sumn_swap {A} (l : list A) n (f : A -> nat -> Z) :
  lsum (fun y => sumn n (fun x => f y x)) l = sumn n (fun x => lsum (fun y => f y x) l).
Proof.
  induction l as [|a l IH].
  - symmetry. apply sumn_zero. reflexivity.
  - rewrite lsum_cons, IH. rewrite <- sumn_add. apply sumn_ext. intros; rewrite lsum_cons; reflexivity.
Qed.

Lemma lsum_flat_map {A B} (f : B -> Z) (g : A -> list B) l :
  lsum f (flat_map g l) = lsum (fun x => lsum f (g x)) l.
Proof.
  induction l as [|a l IH]; [reflexivity|]. cbn [flat_map]. rewrite lsum_app, lsum_cons, IH. reflexivity.
Qed.

Lemma lsum_seq n f : lsum f (seq 0 n) = sumn n f.
Proof.
  induction n as [|n IH]; [reflexivity|]. rewrite seq_S, lsum_app, IH. cbn. ring.
Qed.

Lemma sumn_nth_lsum (F : nat -> Z) d l : sumn (length l) (fun i => F (nth i l d)) = lsum F l.
Proof.
  induction l as [|a l IH] using rev_ind; [reflexivity|].
  rewrite app_length, Nat.add_1_r. cbn [sumn]. rewrite lsum_app. cbn.
  rewrite nth_middle. rewrite <- IH. f_equal; [|ring].
  apply sumn_ext. intros x Hx. rewrite app_nth1; auto.
Qed.

(* ================= dense matrices ================= *)

Lemma nth_map_seq {A} (F : nat -> A) n i d : (i < n)%nat -> nth i (map F (seq 0 n)) d = F i.
Proof.
  intros H. rewrite (nth_indep _ d (F 0%nat)) by (rewrite map_length, seq_length; exact H).
  rewrite map_nth, seq_nth; auto.
Qed.

Lemma mget_mk n m f i j : (i < n)%nat -> (j < m)%nat -> mget (mk n m f) i j = f i j.
Proof. intros Hi Hj. unfold mget, mk. rewrite nth_map_seq by exact Hi. apply nth_map_seq. exact Hj. Qed.

Lemma ncols_mk n m f : (0 < n)%nat -> ncols (mk n m f) = m.
Proof.
  intros H. unfold mk. destruct n as [|n]; [lia|]. cbn. rewrite map_length, seq_length. reflexivity.
Qed.

Lemma mget_adj g u v : (u < length g)%nat -> (v < length g)%nat ->
  mget (adj g) u v = Z.of_nat (count_occ Nat.eq_dec (succs g u) v).
Proof. intros. unfold adj. apply mget_mk; auto. Qed.

(* ================= walks = matrix powers ================= *)

Lemma lsum_count (f : nat -> Z) l n : (forall x, In x l -> (x < n)%nat) ->
  lsum f l = sumn n (fun x => Z.of_nat (count_occ Nat.eq_dec l x) * f x).
Proof.
  induction l as [|y l IH]; intros H.
  - cbn. symmetry. apply sumn_zero. intros; ring.
  - rewrite lsum_cons.
    rewrite (sumn_ext n _ (fun x => (if Nat.eq_dec y x then f x else 0)
                                    + Z.of_nat (count_occ Nat.eq_dec l x) * f x)).
    2:{ intros x _. cbn [count_occ]. destruct (Nat.eq_dec y x); [rewrite Nat2Z.inj_succ|]; ring. }
    rewrite sumn_add, <- IH by (intros; apply H; cbn; auto).
    rewrite (sumn_single n _ y).
    + destruct (Nat.eq_dec y y); [reflexivity|congruence].
    + apply H; cbn; auto.
    + intros i _ Hne. destruct (Nat.eq_dec y i); [congruence|reflexivity].
Qed.

Lemma walks_one g u v : (v < length g)%nat -> wf_graph g ->
  walks g 1 u v = Z.of_nat (count_occ Nat.eq_dec (succs g u) v).
Proof.
  intros Hv Hwf. cbn [walks].
  rewrite (lsum_count _ _ (length g)) by (apply Hwf).
  rewrite (sumn_single _ _ v); auto.
  - rewrite Nat.eqb_refl. ring.
  - intros i _ Hne. destruct (Nat.eqb_spec i v); [congruence|ring].
Qed.

(* extension of a walk by its LAST step (the code multiplies by A on the right) *)
Lemma walks_right g k : wf_graph g -> forall u v, (u < length g)%nat -> (v < length g)%nat ->
  walks g (S k) u v = sumn (length g) (fun x => walks g k u x * mget (adj g) x v).
Proof.
  intros Hwf. induction k as [|k IH]; intros u v Hu Hv.
  - rewrite walks_one by auto. cbn [walks].
    rewrite (sumn_single _ _ u); auto.
    + rewrite Nat.eqb_refl, mget_adj by auto. ring.
    + intros i _ Hne. destruct (Nat.eqb_spec u i); [congruence|ring].
  - change (walks g (S (S k)) u v) with (lsum (fun y => walks g (S k) y v) (succs g u)).
    rewrite (lsum_ext _ (fun y => sumn (length g) (fun x => walks g k y x * mget (adj g) x v))).
    2:{ intros y Hy. apply IH; auto. apply (Hwf u); auto. }
    rewrite lsum_sumn_swap. apply sumn_ext. intros x Hx.
    rewrite <- lsum_mul_r. reflexivity.
Qed.

(* A^(k+1) as the code builds it: walk = A; walk = walk @ A (k times) *)
Fixpoint apow (n : nat) (A : matrix) (k : nat) : matrix :=
  match k with O => A | S k' => mmul n n n (apow n A k') A end.

Lemma mget_mmul n k m A B i j : (i < n)%nat -> (j < m)%nat ->
  mget (mmul n k m A B) i j = sumn k (fun x => mget A i x * mget B x j).
Proof. intros. unfold mmul. apply mget_mk; auto. Qed.

Lemma apow_walks g k : wf_graph g -> forall u v, (u < length g)%nat -> (v < length g)%nat ->
  mget (apow (length g) (adj g) k) u v = walks g (S k) u v.
Proof.
  intros Hwf. induction k as [|k IH]; intros u v Hu Hv.
  - cbn [apow]. rewrite mget_adj, walks_one; auto.
  - cbn [apow]. rewrite mget_mmul by auto. rewrite walks_right by auto.
    apply sumn_ext. intros x Hx. rewrite IH; auto.
Qed.

Fixpoint wsum (g : graph) (ws : list Z) (j : nat) (u v : nat) : Z :=
  match ws with [] => 0 | w :: ws' => w * walks g j u v + wsum g ws' (S j) u v end.

Lemma wsum_sumn g ws : forall j u v,
  wsum g ws j u v = sumn (length ws) (fun i => nth i ws 0 * walks g (j + i) u v).
Proof.
  induction ws as [|w ws IH] using rev_ind; intros j u v; [reflexivity|].
  rewrite app_length, Nat.add_1_r. cbn [sumn]. rewrite nth_middle.
  rewrite (sumn_ext _ _ (fun i => nth i ws 0 * walks g (j + i) u v))
    by (intros x Hx; rewrite app_nth1; auto).
  rewrite <- IH. clear IH. revert j. induction ws as [|a ws IH]; intros j; cbn.
  - rewrite Nat.add_0_r. ring.
  - rewrite IH. rewrite Nat.add_succ_r. cbn. ring.
Qed.

Lemma count_loop_spec g ws : wf_graph g -> forall j walk count,
  let n := length g in
  (forall u v, (u < n)%nat -> (v < n)%nat -> mget walk u v = walks g (S j) u v) ->
  forall u v, (u < n)%nat -> (v < n)%nat ->
  mget (count_loop n (adj g) ws walk count) u v = mget count u v + wsum g ws (S (S j)) u v.
Proof.
  intros Hwf. induction ws as [|w ws IH]; intros j walk count n Hwalk u v Hu Hv.
  - cbn [count_loop wsum]. ring.
  - cbn [count_loop wsum].
    assert (Hw' : forall u v, (u < n)%nat -> (v < n)%nat ->
                    mget (mmul n n n walk (adj g)) u v = walks g (S (S j)) u v).
    { intros u' v' Hu' Hv'. rewrite mget_mmul by auto. rewrite walks_right by auto.
      apply sumn_ext. intros x Hx. rewrite Hwalk; auto. }
    fold n. rewrite (IH (S j)); auto.
    unfold madd, mscale. rewrite !mget_mk by auto. rewrite Hw' by auto. ring.
Qed.

Lemma count_matrix_spec g ws : wf_graph g -> forall u v, (u < length g)%nat -> (v < length g)%nat ->
  mget (count_matrix (length g) (adj g) ws) u v = weighted_walks ws g u v.
Proof.
  intros Hwf u v Hu Hv. unfold weighted_walks. destruct ws as [|w0 ws].
  - unfold count_matrix, mzero. rewrite mget_mk by auto. reflexivity.
  - cbn [count_matrix]. rewrite (count_loop_spec g ws Hwf 0%nat); auto.
    2:{ intros. rewrite mget_adj, walks_one; auto. }
    unfold mscale. rewrite mget_mk by auto. rewrite mget_adj by auto.
    rewrite <- (walks_one g u v) by auto.
    pose proof (wsum_sumn g (w0 :: ws) 1 u v) as E. cbn [wsum Nat.add] in E.
    rewrite <- E. ring.
Qed.

(* ================= label classes and the binariser ================= *)

Lemma classes_In labels c : In c (classes labels) <-> In c labels.
Proof.
  unfold classes. rewrite filter_In, in_seq, existsb_exists. split.
  - intros [_ [x [Hx E]]]. apply Nat.eqb_eq in E. subst. exact Hx.
  - intros H. split.
    + pose proof (list_max_le labels (list_max labels)) as [L _]. specialize (L (Nat.le_refl _)).
      rewrite Forall_forall in L. specialize (L c H). lia.
    + exists c. split; [exact H|apply Nat.eqb_refl].
Qed.

Lemma classes_NoDup labels : NoDup (classes labels).
Proof. unfold classes. apply NoDup_filter, seq_NoDup. Qed.

Lemma lsum_ind_NoDup (h : nat -> Z) l cls : NoDup cls -> In l cls ->
  lsum (fun c => ind (l =? c)%nat * h c) cls = h l.
Proof.
  induction cls as [|c cls IH]; intros ND Hin; [destruct Hin|].
  rewrite lsum_cons. inversion ND as [|? ? Hnotin ND']; subst.
  destruct (Nat.eqb_spec l c) as [->|Hne].
  - rewrite lsum_zero; [cbn [ind]; ring|]. intros x Hx. destruct (Nat.eqb_spec c x); [subst; tauto|cbn [ind]; ring].
  - rewrite IH; [cbn [ind]; ring|assumption|]. destruct Hin; [congruence|assumption].
Qed.

Lemma sumn_ind_classes (h : nat -> Z) l cls : NoDup cls -> In l cls ->
  sumn (length cls) (fun i => ind (l =? nth i cls 0%nat)%nat * h (nth i cls 0%nat)) = h l.
Proof.
  intros ND Hin. rewrite (sumn_nth_lsum (fun c => ind (l =? c)%nat * h c) 0%nat cls).
  apply lsum_ind_NoDup; auto.
Qed.

Definition labels_ok (labels cls : list nat) : Prop :=
  NoDup cls /\ (forall l, In l labels -> In l cls) /\ labels <> [].

Lemma labels_ok_classes labels : labels <> [] -> labels_ok labels (classes labels).
Proof.
  intros H. split; [apply classes_NoDup|]. split; [|exact H]. intros l Hl. apply classes_In. exact Hl.
Qed.

(* in all three shapes LabelBinarizer can return, the repaired matrix is the label/class indicator *)
Lemma binarize_spec labels cls : labels_ok labels cls ->
  forall u c, (u < length labels)%nat -> (c < length cls)%nat ->
  mget (binarize labels cls) u c = ind (nth u labels 0%nat =? nth c cls 0%nat)%nat.
Proof.
  intros (ND & Hall & Hne) u c Hu Hc.
  assert (Hn : (0 < length labels)%nat) by (destruct labels; [congruence|cbn; lia]).
  assert (Hlu : In (nth u labels 0%nat) cls) by (apply Hall, nth_In; exact Hu).
  unfold binarize.
  destruct cls as [|c0 [|c1 [|c2 cls]]].
  - cbn in Hc. lia.
  - (* one class: an all-zero column, xor 1 *)
    cbn [binarize_raw]. rewrite ncols_mk by exact Hn. cbn [Nat.eqb length].
    assert (c = 0)%nat by (cbn in Hc; lia). subst c.
    unfold xor1. rewrite !mget_mk by lia.
    destruct Hlu as [E|[]]. cbn [nth]. rewrite <- E, Nat.eqb_refl. reflexivity.
  - (* two classes: the column of the larger class, hstack([col ^ 1, col]) *)
    cbn [binarize_raw]. rewrite ncols_mk by exact Hn. cbn [Nat.eqb length].
    unfold hstack, xor1. cbn [Nat.add]. rewrite mget_mk by (cbn in Hc; lia).
    assert (Hc01 : c0 <> c1) by (inversion ND as [|? ? Hni _]; subst; cbn in Hni; intuition).
    destruct c as [|[|c]]; [| |cbn in Hc; lia]; cbn [Nat.ltb Nat.leb Nat.sub nth].
    + rewrite !mget_mk by lia.
      destruct Hlu as [E|[E|[]]]; rewrite <- E.
      * rewrite Nat.eqb_refl. destruct (Nat.eqb_spec c0 c1); [congruence|reflexivity].
      * rewrite Nat.eqb_refl. destruct (Nat.eqb_spec c1 c0); [congruence|reflexivity].
    + rewrite mget_mk by lia. reflexivity.
  - (* three or more classes: one indicator column per class *)
    cbn [binarize_raw]. rewrite ncols_mk by exact Hn.
    replace (length (c0 :: c1 :: c2 :: cls) =? 1)%nat with false by (cbn; reflexivity).
    rewrite mget_mk by auto. reflexivity.
Qed.

(* (B^T M B)[i,j] = sum over the nodes labelled cls[i] and cls[j] *)
Lemma collapse_spec M labels : labels <> [] ->
  let cls := classes labels in
  let n := length labels in
  forall i j, (i < length cls)%nat -> (j < length cls)%nat ->
  mget (collapse M labels) i j =
  sumn n (fun u => sumn n (fun v =>
    ind (nth u labels 0%nat =? nth i cls 0%nat)%nat * ind (nth v labels 0%nat =? nth j cls 0%nat)%nat
    * mget M u v)).
Proof.
  intros Hne cls n i j Hi Hj. unfold collapse. destruct labels as [|l0 labels']; [congruence|].
  set (labels := l0 :: labels') in *. fold cls. fold n.
  pose proof (binarize_spec labels cls (labels_ok_classes labels Hne)) as HB.
  rewrite mget_mmul by auto.
  rewrite (sumn_ext _ _ (fun v => sumn n (fun u =>
     ind (nth u labels 0%nat =? nth i cls 0%nat)%nat * ind (nth v labels 0%nat =? nth j cls 0%nat)%nat
     * mget M u v))).
  - apply sumn_swap.
  - intros v Hv. rewrite mget_mmul by auto. rewrite HB by auto. rewrite sumn_mul_r.
    apply sumn_ext. intros u Hu. unfold mtrans. rewrite mget_mk by auto. rewrite HB by auto. ring.
Qed.

(* ================= alignment with the dictionary ================= *)

Lemma coo_dense_realign nt d cls G a b : (a < nt)%nat -> (b < nt)%nat ->
  mget (coo_dense nt (realign_events d cls G)) a b =
  sumn (length cls) (fun i => sumn (length cls) (fun j =>
    ind (opt_eqb (lookup d (nth i cls 0%nat)) a) * ind (opt_eqb (lookup d (nth j cls 0%nat)) b) * mget G i j)).
Proof.
  intros Ha Hb. unfold coo_dense. rewrite mget_mk by auto. unfold realign_events.
  rewrite lsum_flat_map, lsum_seq. apply sumn_ext. intros i Hi.
  rewrite lsum_flat_map, lsum_seq. apply sumn_ext. intros j Hj.
  destruct (Z.eqb_spec (mget G i j) 0) as [E|E].
  - rewrite E. cbn. ring.
  - rewrite lsum_cons. cbn [lsum fold_right]. cbn beta iota.
    destruct (opt_eqb (lookup d (nth i cls 0%nat)) a), (opt_eqb (lookup d (nth j cls 0%nat)) b);
      cbn [andb ind]; ring.
Qed.

(* sum over classes of [dict cls_i = a][lab = cls_i] F  =  [dict lab = a] F *)
Lemma regroup (labels cls : list nat) (d : dict) (a : nat) (F : nat -> Z) :
  labels_ok labels cls ->
  sumn (length cls) (fun i => ind (opt_eqb (lookup d (nth i cls 0%nat)) a)
        * sumn (length labels) (fun u => ind (nth u labels 0%nat =? nth i cls 0%nat)%nat * F u))
  = sumn (length labels) (fun u => ind (opt_eqb (lookup d (nth u labels 0%nat)) a) * F u).
Proof.
  intros (ND & Hall & _).
  rewrite (sumn_ext _ _ (fun i => sumn (length labels) (fun u =>
     ind (nth u labels 0%nat =? nth i cls 0%nat)%nat * (ind (opt_eqb (lookup d (nth i cls 0%nat)) a) * F u)))).
  2:{ intros i _. rewrite sumn_mul_l. apply sumn_ext. intros; ring. }
  rewrite sumn_swap. apply sumn_ext. intros u Hu.
  rewrite (sumn_ind_classes (fun c => ind (opt_eqb (lookup d c) a) * F u) (nth u labels 0%nat) cls ND).
  - reflexivity.
  - apply Hall, nth_In, Hu.
Qed.

Lemma tree_counts_spec ws nt d t a b : wf_tree t -> (a < nt)%nat -> (b < nt)%nat ->
  mget (tree_counts ws nt d t) a b = tree_spec ws d t a b.
Proof.
  destruct t as [g labels]. intros [Hwf Hlen] Ha Hb. cbn [fst snd] in *.
  unfold tree_counts, tree_events, tree_spec. cbn [fst snd].
  rewrite coo_dense_realign by auto.
  set (M := count_matrix (length g) (adj g) ws).
  destruct labels as [|l0 labels'] eqn:El.
  - (* no node at all *)
    cbn in Hlen. rewrite <- Hlen. cbn. reflexivity.
  - rewrite <- El in *. assert (Hne : labels <> []) by (rewrite El; discriminate).
    pose proof (labels_ok_classes labels Hne) as Hok.
    set (cls := classes labels) in *. set (n := length labels) in *.
    (* columns first, then rows *)
    rewrite (sumn_ext _ _ (fun i => ind (opt_eqb (lookup d (nth i cls 0%nat)) a) *
       sumn n (fun u => ind (nth u labels 0%nat =? nth i cls 0%nat)%nat *
          sumn n (fun v => ind (opt_eqb (lookup d (nth v labels 0%nat)) b) * mget M u v)))).
    + rewrite (regroup labels cls d a _ Hok). fold n. rewrite <- Hlen. fold n.
      apply sumn_ext. intros u Hu. rewrite sumn_mul_l. apply sumn_ext. intros v Hv.
      unfold M. rewrite count_matrix_spec by (auto; lia). ring.
    + intros i Hi.
      rewrite (sumn_ext _ _ (fun j => ind (opt_eqb (lookup d (nth i cls 0%nat)) a) *
         (ind (opt_eqb (lookup d (nth j cls 0%nat)) b) *
            sumn n (fun v => ind (nth v labels 0%nat =? nth j cls 0%nat)%nat *
               sumn n (fun u => ind (nth u labels 0%nat =? nth i cls 0%nat)%nat * mget M u v))))).
      * rewrite <- sumn_mul_l. f_equal.
        rewrite (regroup labels cls d b _ Hok). fold n.
        rewrite (sumn_ext _ _ (fun v => sumn n (fun u =>
           ind (nth u labels 0%nat =? nth i cls 0%nat)%nat *
             (ind (opt_eqb (lookup d (nth v labels 0%nat)) b) * mget M u v)))).
        2:{ intros v _. rewrite sumn_mul_l. apply sumn_ext. intros; ring. }
        rewrite sumn_swap. apply sumn_ext. intros u _. rewrite sumn_mul_l. reflexivity.
      * intros j Hj. rewrite collapse_spec by auto. fold cls. fold n.
        rewrite (sumn_swap n n). rewrite !sumn_mul_l. apply sumn_ext. intros v _.
        rewrite !sumn_mul_l. apply sumn_ext. intros u _. ring.
Qed.

Lemma mget_madd n m A B i j : (i < n)%nat -> (j < m)%nat ->
  mget (madd n m A B) i j = mget A i j + mget B i j.
Proof. intros. unfold madd. apply mget_mk; auto. Qed.

Lemma fold_madd {T} nt (F : T -> matrix) ts : forall M0 a b, (a < nt)%nat -> (b < nt)%nat ->
  mget (fold_left (fun acc t => madd nt nt acc (F t)) ts M0) a b
  = mget M0 a b + lsum (fun t => mget (F t) a b) ts.
Proof.
  induction ts as [|t ts IH]; intros M0 a b Ha Hb.
  - cbn [fold_left]. unfold lsum. cbn [fold_right]. ring.
  - cbn [fold_left]. rewrite IH by auto. rewrite mget_madd by auto. rewrite lsum_cons. ring.
Qed.

Lemma global_counts_spec ws nt d trees a b :
  Forall wf_tree trees -> (a < nt)%nat -> (b < nt)%nat ->
  mget (global_counts ws nt d trees) a b = lsum (fun t => tree_spec ws d t a b) trees.
Proof.
  intros Hwf Ha Hb. unfold global_counts. rewrite fold_madd by auto.
  unfold mzero. rewrite mget_mk by auto. rewrite Z.add_0_l.
  apply lsum_ext. intros t Ht. apply tree_counts_spec; auto.
  rewrite Forall_forall in Hwf. auto.
Qed.

(* ================= nullify_mask and orientation ================= *)

Lemma nullify_spec nt m G a b : (a < nt)%nat -> (b < nt)%nat ->
  mget (nullify nt (Some m) G) a b = if (a =? m)%nat || (b =? m)%nat then 0 else mget G a b.
Proof.
  intros Ha Hb. unfold nullify, projector. rewrite mget_mmul by auto.
  rewrite (sumn_single _ _ b); auto.
  - rewrite mget_mmul by auto. rewrite (sumn_single _ _ a); auto.
    + rewrite !mget_mk by auto. rewrite !Nat.eqb_refl.
      destruct (a =? m)%nat, (b =? m)%nat; cbn [orb]; ring.
    + intros i Hi Hne. rewrite mget_mk by auto. destruct (Nat.eqb_spec a i); [congruence|ring].
  - intros i Hi Hne. rewrite (mget_mk nt nt _ i b) by auto. destruct (Nat.eqb_spec i b); [congruence|ring].
Qed.

Lemma orient_after nt G : orient nt After G = G.
Proof. reflexivity. Qed.

Lemma orient_before nt G a b : (a < nt)%nat -> (b < nt)%nat ->
  mget (orient nt Before G) a b = mget G b a.
Proof. intros. unfold orient, mtrans. rewrite mget_mk by auto. reflexivity. Qed.

Lemma orient_symmetric nt G a b : (a < nt)%nat -> (b < nt)%nat ->
  mget (orient nt Symmetric G) a b = mget G a b + mget G b a.
Proof. intros. unfold orient, mtrans. rewrite mget_madd by auto. rewrite mget_mk by auto. reflexivity. Qed.

Lemma orient_directional nt G a b : (a < nt)%nat -> (b < nt + nt)%nat ->
  mget (orient nt Directional G) a b = if (b <? nt)%nat then mget G b a else mget G a (b - nt).
Proof.
  intros Ha Hb. unfold orient, hstack. rewrite mget_mk by auto.
  destruct (Nat.ltb_spec b nt); [|reflexivity]. unfold mtrans. rewrite mget_mk by auto. reflexivity.
Qed.

(* ================= path graphs = token windows ================= *)

Lemma succs_path L u : (u < L)%nat -> succs (path L) u = if (S u <? L)%nat then [S u] else [].
Proof. intros H. unfold succs, path. apply nth_map_seq. exact H. Qed.

Lemma path_length L : length (path L) = L.
Proof. unfold path. rewrite map_length, seq_length. reflexivity. Qed.

Lemma wf_path L : wf_graph (path L).
Proof.
  intros u x Hx. rewrite path_length. destruct (Nat.lt_ge_cases u L) as [Hu|Hu].
  - rewrite succs_path in Hx by exact Hu. destruct (Nat.ltb_spec (S u) L); [|destruct Hx].
    destruct Hx as [<-|[]]. exact H.
  - unfold succs in Hx. rewrite nth_overflow in Hx by (rewrite path_length; exact Hu). destruct Hx.
Qed.

Lemma walks_path L k : forall u v, (u < L)%nat ->
  walks (path L) k u v = ind ((u + k =? v)%nat && (v <? L)%nat).
Proof.
  induction k as [|k IH]; intros u v Hu.
  - cbn [walks]. rewrite Nat.add_0_r. destruct (Nat.eqb_spec u v); [|reflexivity].
    subst. destruct (Nat.ltb_spec v L); [reflexivity|lia].
  - cbn [walks]. rewrite succs_path by exact Hu. destruct (Nat.ltb_spec (S u) L) as [H|H].
    + rewrite lsum_cons. unfold lsum at 1. cbn [fold_right]. rewrite IH by exact H.
      replace (S u + k)%nat with (u + S k)%nat by lia. ring.
    + unfold lsum. cbn [fold_right].
      destruct (Nat.eqb_spec (u + S k) v); [|reflexivity].
      destruct (Nat.ltb_spec v L); [lia|reflexivity].
Qed.

Lemma weighted_walks_path ws L u v : (u < L)%nat -> (v < L)%nat ->
  weighted_walks ws (path L) u v =
  if (u <? v)%nat && (v <=? u + length ws)%nat then nth (v - u - 1) ws 0 else 0.
Proof.
  intros Hu Hv. unfold weighted_walks.
  destruct (Nat.ltb_spec u v) as [Huv|Huv]; [destruct (Nat.leb_spec v (u + length ws)) as [Hr|Hr]|]; cbn [andb].
  - rewrite (sumn_single _ _ (v - u - 1)%nat); [|lia|].
    + rewrite walks_path by exact Hu.
      replace (u + S (v - u - 1) =? v)%nat with true by (symmetry; apply Nat.eqb_eq; lia).
      replace (v <? L)%nat with true by (symmetry; apply Nat.ltb_lt; exact Hv). cbn [andb ind]. ring.
    + intros i Hi Hne. rewrite walks_path by exact Hu.
      destruct (Nat.eqb_spec (u + S i) v); [lia|]. cbn [andb ind]. ring.
  - apply sumn_zero. intros i Hi. rewrite walks_path by exact Hu.
    destruct (Nat.eqb_spec (u + S i) v); [lia|]. cbn [andb ind]. ring.
  - apply sumn_zero. intros i Hi. rewrite walks_path by exact Hu.
    destruct (Nat.eqb_spec (u + S i) v); [lia|]. cbn [andb ind]. ring.
Qed.

Definition path_tree (s : list nat) : tree := (path (length s), s).

Lemma wf_path_tree s : wf_tree (path_tree s).
Proof. split; cbn [fst snd path_tree]; [apply wf_path|rewrite path_length; reflexivity]. Qed.

Lemma tree_spec_path ws d s a b : tree_spec ws d (path_tree s) a b = token_after_spec ws d s a b.
Proof.
  unfold tree_spec, token_after_spec, path_tree. cbn [fst snd]. rewrite path_length.
  apply sumn_ext. intros p Hp. apply sumn_ext. intros q Hq.
  rewrite weighted_walks_path by auto.
  destruct (opt_eqb (lookup d (nth p s 0%nat)) a), (opt_eqb (lookup d (nth q s 0%nat)) b),
    ((p <? q)%nat), ((q <=? p + length ws)%nat); cbn [andb ind]; ring.
Qed.

Lemma path_is_token ws nt d docs a b : (a < nt)%nat -> (b < nt)%nat ->
  mget (global_counts ws nt d (map path_tree docs)) a b
  = lsum (fun s => token_after_spec ws d s a b) docs.
Proof.
  intros Ha Hb. rewrite global_counts_spec; auto.
  - induction docs as [|s docs IH]; [reflexivity|]. cbn [map]. rewrite !lsum_cons, IH, tree_spec_path. reflexivity.
  - rewrite Forall_forall. intros t Ht. apply in_map_iff in Ht as [s [<- _]]. apply wf_path_tree.
Qed.

(* ================= remove_node ================= *)

Lemma splice_nil x repl : splice x repl [] = [].
Proof. reflexivity. Qed.

Lemma remove_node_length g x : length (remove_node g x) = length g.
Proof. unfold remove_node. rewrite map_length, combine_length, seq_length. lia. Qed.

Lemma succs_remove g x i :
  succs (remove_node g x) i =
  if (i =? x)%nat then [] else splice x (splice x [] (succs g x)) (succs g i).
Proof.
  unfold succs at 1. unfold remove_node.
  set (repl := splice x [] (succs g x)).
  set (F := fun ir : nat * list nat => if (fst ir =? x)%nat then [] else splice x repl (snd ir)).
  assert (F0 : F (0%nat, []) = []) by (unfold F; cbn [fst snd]; destruct (0 =? x)%nat; reflexivity).
  destruct (Nat.lt_ge_cases i (length g)) as [Hi|Hi].
  - rewrite <- F0 at 1. rewrite map_nth. rewrite combine_nth by (rewrite seq_length; reflexivity).
    rewrite seq_nth by exact Hi. unfold F. cbn [fst snd Nat.add]. reflexivity.
  - rewrite nth_overflow by (rewrite map_length, combine_length, seq_length; lia).
    replace (succs g i) with (@nil nat) by (unfold succs; rewrite nth_overflow by exact Hi; reflexivity).
    rewrite splice_nil.
    destruct (i =? x)%nat; reflexivity.
Qed.

Lemma splice_in_sound x repl row y :
  In y (splice x repl row) -> In y row \/ (In x row /\ In y repl).
Proof.
  induction row as [|z r IH]; cbn [splice]; [tauto|].
  destruct (Nat.eqb_spec z x) as [->|Hne].
  - rewrite in_app_iff. cbn [In]. tauto.
  - cbn [In]. intros [->|H]; [tauto|]. apply IH in H. tauto.
Qed.

Lemma splice_in_complete x repl row y :
  (In y row /\ y <> x) \/ (In x row /\ In y repl) -> In y (splice x repl row).
Proof.
  induction row as [|z r IH]; cbn [splice In]; [tauto|].
  destruct (Nat.eqb_spec z x) as [->|Hne].
  - rewrite in_app_iff. intros [[[->|H] Hy]|[_ H]]; tauto.
  - cbn [In]. intros [[[->|H] Hy]|[[E|H1] H2]].
    + left; reflexivity.
    + right. apply IH. tauto.
    + congruence.
    + right. apply IH. tauto.
Qed.

Lemma splice_not_in x repl row : NoDup row -> ~ In x repl -> ~ In x (splice x repl row).
Proof.
  induction row as [|z r IH]; cbn [splice]; intros ND Hr; [tauto|].
  inversion ND as [|? ? Hz ND']; subst.
  destruct (Nat.eqb_spec z x) as [->|Hne].
  - rewrite in_app_iff. tauto.
  - cbn [In]. intros [E|H]; [congruence|]. apply IH in H; auto.
Qed.

Lemma NoDup_app_disjoint {A} (l1 l2 : list A) :
  NoDup l1 -> NoDup l2 -> (forall y, In y l1 -> In y l2 -> False) -> NoDup (l1 ++ l2).
Proof.
  induction l1 as [|a l1 IH]; intros N1 N2 D; [exact N2|].
  inversion N1 as [|? ? Ha N1']; subst. cbn. constructor.
  - rewrite in_app_iff. intros [H|H]; [tauto|]. apply (D a); cbn; auto.
  - apply IH; auto. intros y H1 H2. apply (D y); cbn; auto.
Qed.

Lemma splice_NoDup x repl row : NoDup row -> NoDup repl ->
  (forall y, In y repl -> In y row -> y = x) -> NoDup (splice x repl row).
Proof.
  induction row as [|z r IH]; cbn [splice]; intros ND NDr Hdis; [constructor|].
  inversion ND as [|? ? Hz ND']; subst.
  destruct (Nat.eqb_spec z x) as [->|Hne].
  - apply NoDup_app_disjoint; auto. intros y Hy1 Hy2. assert (y = x) by (apply Hdis; cbn; auto). subst. tauto.
  - constructor.
    + intros H. apply splice_in_sound in H. destruct H as [H|[_ H]]; [tauto|].
      apply Hne. apply Hdis; cbn; auto.
    + apply IH; auto. intros y Hy1 Hy2. apply Hdis; cbn; auto.
Qed.

Lemma edge_remove_sound g x a b :
  edge (remove_node g x) a b -> a <> x /\ (edge g a b \/ (edge g a x /\ edge g x b)).
Proof.
  unfold edge. rewrite succs_remove. destruct (Nat.eqb_spec a x) as [->|Hne]; [intros []|].
  intros H. split; [exact Hne|]. apply splice_in_sound in H. destruct H as [H|[H1 H2]]; [tauto|].
  right. split; [exact H1|]. apply splice_in_sound in H2. cbn [In] in H2. tauto.
Qed.

Lemma edge_remove_keep g x a b : a <> x -> b <> x -> edge g a b -> edge (remove_node g x) a b.
Proof.
  unfold edge. intros Ha Hb H. rewrite succs_remove. destruct (Nat.eqb_spec a x); [congruence|].
  apply splice_in_complete. tauto.
Qed.

Lemma edge_remove_bridge g x a b :
  a <> x -> b <> x -> edge g a x -> edge g x b -> edge (remove_node g x) a b.
Proof.
  unfold edge. intros Ha Hb H1 H2. rewrite succs_remove. destruct (Nat.eqb_spec a x); [congruence|].
  apply splice_in_complete. right. split; [exact H1|]. apply splice_in_complete. tauto.
Qed.

Lemma reach_trans g a b c : reach g a b -> reach g b c -> reach g a c.
Proof.
  unfold reach. intros H1 H2. apply clos_rt_rt1n. apply rt_trans with b; apply clos_rt1n_rt; assumption.
Qed.

Lemma reach_step g a b : edge g a b -> reach g a b.
Proof. intros H. unfold reach. eapply Relation_Operators.rt1n_trans; [exact H|apply rt1n_refl]. Qed.

Lemma reach_remove_sound g x u v : reach (remove_node g x) u v -> reach g u v.
Proof.
  unfold reach. induction 1 as [|a b c Hab _ IH]; [apply rt1n_refl|].
  apply edge_remove_sound in Hab as [_ [H|[H1 H2]]].
  - eapply Relation_Operators.rt1n_trans; eauto.
  - eapply Relation_Operators.rt1n_trans; [exact H1|]. eapply Relation_Operators.rt1n_trans; eauto.
Qed.

Lemma reach_remove_complete_aux g x a v : reach g a v -> v <> x ->
  (a <> x -> reach (remove_node g x) a v) /\
  (a = x -> forall u, u <> x -> edge g u x -> reach (remove_node g x) u v).
Proof.
  unfold reach. induction 1 as [a|a b c Hab Hbc IH]; intros Hv.
  - split; [intros; apply rt1n_refl|congruence].
  - destruct (IH Hv) as [IH1 IH2]. split.
    + intros Ha. destruct (Nat.eq_dec b x) as [->|Hb].
      * apply (IH2 eq_refl a Ha Hab).
      * eapply Relation_Operators.rt1n_trans; [apply edge_remove_keep; eauto|]. auto.
    + intros -> u Hu Hux. destruct (Nat.eq_dec b x) as [->|Hb].
      * apply (IH2 eq_refl u Hu Hux).
      * eapply Relation_Operators.rt1n_trans; [apply (edge_remove_bridge g x u b); eauto|]. auto.
Qed.

Lemma reach_remove g x u v : u <> x -> v <> x -> (reach (remove_node g x) u v <-> reach g u v).
Proof.
  intros Hu Hv. split; [apply reach_remove_sound|].
  intros H. destruct (reach_remove_complete_aux g x u v H Hv) as [H1 _]. auto.
Qed.

Lemma reach_remove_list xs : forall g u v, ~ In u xs -> ~ In v xs ->
  (reach (fold_left remove_node xs g) u v <-> reach g u v).
Proof.
  induction xs as [|x xs IH]; intros g u v Hu Hv; [reflexivity|].
  cbn [fold_left]. rewrite IH by (cbn in *; tauto). apply reach_remove; cbn in *; intuition.
Qed.

(* --- forests: the removed node ends up isolated and the result is again a forest --- *)

Definition isolated (g : graph) (x : nat) : Prop := succs g x = [] /\ forall a, ~ edge g a x.

Lemma out_forest_remove g x : out_forest g -> out_forest (remove_node g x).
Proof.
  intros [ND UP]. split.
  - intros u. rewrite succs_remove. destruct (Nat.eqb_spec u x) as [->|Hne]; [constructor|].
    apply splice_NoDup; auto.
    + apply splice_NoDup; auto; [constructor|]. intros y [].
    + intros y Hy1 Hy2. apply splice_in_sound in Hy1. cbn [In] in Hy1.
      assert (In y (succs g x)) by tauto. exfalso. apply Hne. apply (UP u x y); auto.
  - intros u u' v H1 H2.
    apply edge_remove_sound in H1 as [Hu [H1|[H1 H1']]]; apply edge_remove_sound in H2 as [Hu' [H2|[H2 H2']]].
    + eapply UP; eauto.
    + exfalso. apply Hu. eapply UP; eauto.
    + exfalso. apply Hu'. eapply UP; eauto.
    + eapply UP; eauto.
Qed.

Lemma isolated_remove_self g x : out_forest g -> isolated (remove_node g x) x.
Proof.
  intros [ND UP]. split.
  - rewrite succs_remove, Nat.eqb_refl. reflexivity.
  - intros a. unfold edge. rewrite succs_remove. destruct (Nat.eqb_spec a x); [tauto|].
    apply splice_not_in; auto. apply splice_not_in; auto.
Qed.

Lemma isolated_remove_other g x y : isolated g y -> isolated (remove_node g x) y.
Proof.
  intros [Hs Hin]. split.
  - rewrite succs_remove, Hs, splice_nil. destruct (y =? x)%nat; reflexivity.
  - intros a H. apply edge_remove_sound in H as [_ [H|[_ H]]]; eapply Hin; eauto.
Qed.

Lemma remove_list_isolated xs : forall g, out_forest g ->
  out_forest (fold_left remove_node xs g) /\
  forall x, (In x xs \/ isolated g x) -> isolated (fold_left remove_node xs g) x.
Proof.
  induction xs as [|y xs IH]; intros g Hf.
  - cbn. split; [exact Hf|]. intros x [[]|H]; exact H.
  - cbn [fold_left]. destruct (IH (remove_node g y) (out_forest_remove g y Hf)) as [IH1 IH2].
    split; [exact IH1|]. intros x [[->|H]|H].
    + apply IH2. right. apply isolated_remove_self. exact Hf.
    + apply IH2. left. exact H.
    + apply IH2. right. apply isolated_remove_other. exact H.
Qed.

Lemma wf_graph_remove g x : wf_graph g -> wf_graph (remove_node g x).
Proof.
  intros Hwf u b H. rewrite remove_node_length.
  apply edge_remove_sound in H as [_ [H|[_ H]]]; eapply Hwf; eauto.
Qed.

Lemma wf_graph_remove_list xs : forall g, wf_graph g ->
  wf_graph (fold_left remove_node xs g) /\ length (fold_left remove_node xs g) = length g.
Proof.
  induction xs as [|x xs IH]; intros g H; [cbn; auto|].
  cbn [fold_left]. destruct (IH (remove_node g x) (wf_graph_remove g x H)) as [H1 H2].
  split; [exact H1|]. rewrite H2. apply remove_node_length.
Qed.

Lemma wf_preprocess mask d t : wf_tree t -> wf_tree (preprocess mask d t).
Proof.
  destruct t as [g labels]. intros [Hwf Hlen]. cbn [fst snd] in *. unfold preprocess.
  destruct mask as [m|].
  - split; cbn [fst snd]; [exact Hwf|]. rewrite map_length. exact Hlen.
  - destruct (wf_graph_remove_list
                (filter (fun i => negb (in_dict d (nth i labels 0%nat))) (seq 0 (length labels))) g Hwf)
      as [H1 H2].
    split; cbn [fst snd]; [exact H1|]. rewrite H2. exact Hlen.
Qed.

(* ================= removed / masked labels never reach the dictionary lookup ================= *)

Lemma walks_to_isolated g k : forall u v, (forall a, ~ edge g a v) -> walks g (S k) u v = 0.
Proof.
  induction k as [|k IH]; intros u v Hv.
  - cbn [walks]. apply lsum_zero. intros x Hx. destruct (Nat.eqb_spec x v); [|reflexivity].
    subst. exfalso. apply (Hv u). exact Hx.
  - change (walks g (S (S k)) u v) with (lsum (fun y => walks g (S k) y v) (succs g u)).
    apply lsum_zero. intros x _. apply IH. exact Hv.
Qed.

Lemma weighted_walks_isolated ws g u v : isolated g u \/ isolated g v -> weighted_walks ws g u v = 0.
Proof.
  intros H. unfold weighted_walks. apply sumn_zero. intros i _.
  destruct H as [[Hs _]|[_ Hin]].
  - cbn [walks]. rewrite Hs. cbn. ring.
  - rewrite walks_to_isolated by exact Hin. ring.
Qed.

Lemma existsb_false {A} (f : A -> bool) l : (forall x, In x l -> f x = false) -> existsb f l = false.
Proof.
  intros H. destruct (existsb f l) eqn:E; [|reflexivity].
  apply existsb_exists in E as [x [Hx Hf]]. rewrite H in Hf by exact Hx. discriminate.
Qed.

Lemma keyerror_realign_false d cls G :
  (forall i j, (i < length cls)%nat -> (j < length cls)%nat -> mget G i j <> 0 ->
     in_dict d (nth i cls 0%nat) = true /\ in_dict d (nth j cls 0%nat) = true) ->
  keyerror (realign_events d cls G) = false.
Proof.
  intros H. unfold keyerror. apply existsb_false. intros e He.
  unfold realign_events in He. apply in_flat_map in He as [i [Hi He]]. apply in_flat_map in He as [j [Hj He]].
  apply in_seq in Hi. apply in_seq in Hj.
  destruct (Z.eqb_spec (mget G i j) 0) as [E|E]; [destruct He|].
  destruct He as [<-|[]]. destruct (H i j) as [H1 H2]; [lia|lia|exact E|].
  unfold in_dict in H1, H2.
  destruct (lookup d (nth i cls 0%nat)); [|discriminate].
  destruct (lookup d (nth j cls 0%nat)); [|discriminate]. reflexivity.
Qed.

Lemma nth_classes_In labels i : (i < length (classes labels))%nat -> In (nth i (classes labels) 0%nat) labels.
Proof. intros H. apply classes_In. apply nth_In. exact H. Qed.

Lemma keyerror_removed ws d g labels : wf_tree (g, labels) -> out_forest g ->
  keyerror (tree_events ws d (preprocess None d (g, labels))) = false.
Proof.
  intros [Hwf Hlen] Hf. cbn [fst snd] in *.
  assert (Hcase : labels = [] \/ labels <> []) by (destruct labels; [left; reflexivity|right; discriminate]).
  destruct Hcase as [->|Hne]; [reflexivity|].
  unfold preprocess.
  set (xs := filter (fun i => negb (in_dict d (nth i labels 0%nat))) (seq 0 (length labels))).
  destruct (remove_list_isolated xs g Hf) as [_ Hiso].
  destruct (wf_graph_remove_list xs g Hwf) as [Hwf' Hlen'].
  set (g' := fold_left remove_node xs g) in *.
  unfold tree_events.
  set (M := count_matrix (length g') (adj g') ws).
  assert (Hz : forall u v, (u < length labels)%nat -> (v < length labels)%nat ->
             (in_dict d (nth u labels 0%nat) = false \/ in_dict d (nth v labels 0%nat) = false) ->
             mget M u v = 0).
  { intros u v Hu Hv Hd. unfold M. rewrite count_matrix_spec by (auto; lia).
    apply weighted_walks_isolated.
    assert (Hx : forall x, (x < length labels)%nat -> in_dict d (nth x labels 0%nat) = false -> isolated g' x).
    { intros x Hx E. apply Hiso. left. unfold xs. apply filter_In. split; [apply in_seq; lia|].
      rewrite E. reflexivity. }
    destruct Hd; [left|right]; auto. }
  assert (Claim : forall i j, (i < length (classes labels))%nat -> (j < length (classes labels))%nat ->
            (in_dict d (nth i (classes labels) 0%nat) = false \/ in_dict d (nth j (classes labels) 0%nat) = false) ->
            mget (collapse M labels) i j = 0).
  { intros i j Hi Hj Hd. rewrite collapse_spec by auto.
    apply sumn_zero. intros u Hu. apply sumn_zero. intros v Hv.
    destruct (Nat.eqb_spec (nth u labels 0%nat) (nth i (classes labels) 0%nat)) as [Eu|Eu]; [|cbn [ind]; ring].
    destruct (Nat.eqb_spec (nth v labels 0%nat) (nth j (classes labels) 0%nat)) as [Ev|Ev]; [|cbn [ind]; ring].
    rewrite Hz; [ring|assumption|assumption|]. rewrite Eu, Ev. exact Hd. }
  apply keyerror_realign_false. intros i j Hi Hj Hnz.
  destruct (in_dict d (nth i (classes labels) 0%nat)) eqn:Ei;
    destruct (in_dict d (nth j (classes labels) 0%nat)) eqn:Ej; auto;
    exfalso; apply Hnz; apply Claim; auto.
Qed.

Lemma keyerror_masked ws d m g labels : in_dict d m = true ->
  keyerror (tree_events ws d (preprocess (Some m) d (g, labels))) = false.
Proof.
  intros Hm. unfold preprocess, tree_events.
  set (labels' := map (fun l => if in_dict d l then l else m) labels).
  assert (Hall : forall l, In l labels' -> in_dict d l = true).
  { intros l Hl. unfold labels' in Hl. apply in_map_iff in Hl as [l0 [<- _]].
    destruct (in_dict d l0) eqn:E; auto. }
  apply keyerror_realign_false. intros i j Hi Hj _. split; apply Hall, nth_classes_In; assumption.
Qed.

Lemma no_keyerror ws d mask trees :
  Forall (fun t => wf_tree t /\ (mask = None -> out_forest (fst t))) trees ->
  (forall m, mask = Some m -> in_dict d m = true) ->
  any_keyerror ws d (map (preprocess mask d) trees) = false.
Proof.
  intros Hall Hm. unfold any_keyerror. apply existsb_false. intros t' Ht'.
  apply in_map_iff in Ht' as [[g labels] [<- Ht]]. rewrite Forall_forall in Hall.
  destruct (Hall _ Ht) as [Hwf Hf]. destruct mask as [m|].
  - apply keyerror_masked. auto.
  - apply keyerror_removed; auto.
Qed.

(* ================= boolean checkers (used by the Examples) ================= *)
Definition wf_graphb (g : graph) : bool := forallb (fun row => forallb (fun x => (x <? length g)%nat) row) g.

Lemma wf_graphb_ok g : wf_graphb g = true -> wf_graph g.
Proof.
  unfold wf_graphb. rewrite forallb_forall. intros H u x Hx.
  destruct (Nat.lt_ge_cases u (length g)) as [Hu|Hu].
  - specialize (H (succs g u) (nth_In g [] Hu)). rewrite forallb_forall in H. apply Nat.ltb_lt. apply H. exact Hx.
  - unfold succs in Hx. rewrite nth_overflow in Hx by exact Hu. destruct Hx.
Qed.

(* at most one parent: the concatenation of all rows is duplicate free (this also gives simple rows) *)
Fixpoint nodupb (l : list nat) : bool :=
  match l with [] => true | x :: r => negb (existsb (Nat.eqb x) r) && nodupb r end.

Lemma nodupb_ok l : nodupb l = true -> NoDup l.
Proof.
  induction l as [|x r IH]; cbn; intros H; [constructor|].
  apply andb_prop in H as [H1 H2]. constructor; [|auto].
  intros Hin. apply negb_true_iff in H1. assert (existsb (Nat.eqb x) r = true); [|congruence].
  apply existsb_exists. exists x. split; [exact Hin|apply Nat.eqb_refl].
Qed.

Definition out_forestb (g : graph) : bool := nodupb (concat g).

Lemma NoDup_app_inv {A} (l1 l2 : list A) : NoDup (l1 ++ l2) ->
  NoDup l1 /\ NoDup l2 /\ forall v, In v l1 -> In v l2 -> False.
Proof.
  induction l1 as [|a l1 IH]; cbn; intros ND.
  - split; [constructor|]. split; [exact ND|]. intros v [].
  - inversion ND as [|? ? Ha ND']; subst. destruct (IH ND') as (N1 & N2 & D).
    rewrite in_app_iff in Ha. split; [constructor; tauto|]. split; [exact N2|].
    intros v [->|H1] H2; [tauto|eauto].
Qed.

Lemma NoDup_concat_rows (g : graph) : NoDup (concat g) ->
  (forall i, NoDup (nth i g [])) /\
  (forall i j v, In v (nth i g []) -> In v (nth j g []) -> i = j).
Proof.
  induction g as [|r g IH]; intros ND.
  - split; [intros [|i]; constructor|intros [|i] j v []].
  - cbn [concat] in ND. destruct (NoDup_app_inv _ _ ND) as (ND1 & ND2 & Dis).
    destruct (IH ND2) as [IH1 IH2]. split.
    + intros [|i]; cbn [nth]; auto.
    + assert (Hin : forall i v, In v (nth i g []) -> In v (concat g)).
      { intros i v Hv. destruct (Nat.lt_ge_cases i (length g)) as [Hi|Hi].
        - apply in_concat. exists (nth i g []). split; [apply nth_In; exact Hi|exact Hv].
        - rewrite nth_overflow in Hv by exact Hi. destruct Hv. }
      intros [|i] [|j] v H1 H2; cbn [nth] in *; auto.
      * exfalso. eapply Dis; eauto.
      * exfalso. eapply Dis; eauto.
      * f_equal. eapply IH2; eauto.
Qed.

Lemma out_forestb_ok g : out_forestb g = true -> out_forest g.
Proof.
  unfold out_forestb. intros Hb. pose proof (nodupb_ok _ Hb) as ND.
  destruct (NoDup_concat_rows g ND) as [H1 H2]. split; [exact H1|]. intros u u' v. apply H2.
Qed.
