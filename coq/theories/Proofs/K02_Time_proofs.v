(* Time axis of C03 (Flocq): in binary64 the difference of two timestamps within a factor 2 of each other is computed
   exactly (Sterbenz), so with float64 storage the timed weights are functions of the exact differences whatever the
   absolute magnitude of the timestamps. *)
From Coq Require Import Reals.
From Flocq Require Import Core Sterbenz.
Local Open Scope R_scope.

Definition b64_exp := FLT_exp (-1074) 53.
Definition b64 (x : R) : Prop := generic_format radix2 b64_exp x.
Definition rnd64 (x : R) : R := round radix2 b64_exp ZnearestE x.

Lemma time_difference_exact : forall t1 t2 : R, b64 t1 -> b64 t2 -> t2 / 2 <= t1 <= 2 * t2 -> rnd64 (t1 - t2) = t1 - t2.
Proof.
  intros t1 t2 H1 H2 H. unfold rnd64. apply round_generic; [apply valid_rnd_N|].
  apply sterbenz; try assumption; [apply FLT_exp_valid; reflexivity | apply FLT_exp_monotone].
Qed.

(* |t1 - t2| is exact as well (the driver takes np.abs of the difference) *)
Lemma time_absdiff_exact : forall t1 t2 : R, b64 t1 -> b64 t2 -> t2 / 2 <= t1 <= 2 * t2 -> rnd64 (Rabs (t1 - t2)) = Rabs (t1 - t2).
Proof.
  intros t1 t2 H1 H2 H. unfold rnd64. apply round_generic; [apply valid_rnd_N|].
  apply generic_format_abs. apply sterbenz; try assumption; [apply FLT_exp_valid; reflexivity | apply FLT_exp_monotone].
Qed.
