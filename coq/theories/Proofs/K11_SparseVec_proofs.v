(* K11 — proofs about the sparse vector helpers.  Structure:
   A. list/array facts (set_nth, nth_error/skipn, sortZ, arr_unique, adj_equal);
   B. list-level merges (union_l, inter_l, msum, mmul, munion) and their pointwise meaning on strictly
      increasing index lists (lookup = dense arithmetic, sorted, no explicit zero);
   C. the index-level loops of Model/K11 refine the list-level merges (loop invariants; no write out of range);
   D. the theorems used by Properties/C18.v. *)
From Coq Require Import ZArith List Bool Lia Sorted Permutation Arith.
From VZ Require Import Model.K11_SparseVec.
Import ListNotations.
Open Scope Z_scope.

(* ------------------------------------------------------------------ A. arrays *)

Lemma set_nth_app : forall (A : Type) (out : list A) x rest v,
  set_nth (out ++ x :: rest) (length out) v = Some (out ++ v :: rest).
Proof. induction out as [|a out IH]; simpl; intros; auto. rewrite IH. reflexivity. Qed.

Lemma nth_error_skipn : forall (A : Type) (l : list A) i x,
  nth_error l i = Some x -> skipn i l = x :: skipn (S i) l.
Proof.
  induction l as [|a l IH]; intros [|i] x H; simpl in *; try discriminate.
  - inversion H. reflexivity.
  - apply IH in H. rewrite H. destruct l; reflexivity.
Qed.

Lemma nth_error_lt_some : forall (A : Type) (l : list A) i, (i < length l)%nat -> exists x, nth_error l i = Some x.
Proof. intros A l i H. destruct (nth_error l i) eqn:E; eauto. apply nth_error_None in E. lia. Qed.

Lemma firstn_app_exact : forall (A : Type) (l r : list A), firstn (length l) (l ++ r) = l.
Proof. intros. rewrite firstn_app, Nat.sub_diag, firstn_all. simpl. apply app_nil_r. Qed.

Lemma combine_skipn : forall (A B : Type) (l : list A) (m : list B) n,
  skipn n (combine l m) = combine (skipn n l) (skipn n m).
Proof. induction l; destruct m, n; simpl; auto. destruct (skipn n l); reflexivity. Qed.

(* strictly increasing index lists *)
Definition incr (l : list Z) : Prop := StronglySorted Z.lt l.

Lemma incr_tail : forall x l, incr (x :: l) -> incr l.
Proof. intros x l H. inversion H; auto. Qed.
Lemma incr_head : forall x l, incr (x :: l) -> Forall (Z.lt x) l.
Proof. intros x l H. inversion H; auto. Qed.
Lemma incr_NoDup : forall l, incr l -> NoDup l.
Proof.
  induction l; intros H; constructor.
  - intro Hin. apply incr_head in H. rewrite Forall_forall in H. specialize (H _ Hin). lia.
  - apply IHl. eapply incr_tail; eauto.
Qed.
Lemma incr_skipn : forall n l, incr l -> incr (skipn n l).
Proof. induction n; intros l H; simpl; auto. destruct l; auto. apply IHn. eapply incr_tail; eauto. Qed.

(* sortZ *)
Lemma insertZ_perm : forall x l, Permutation (x :: l) (insertZ x l).
Proof.
  induction l as [|y t IH]; simpl; auto. destruct (x <=? y); auto.
  eapply perm_trans; [apply perm_swap|]. constructor. exact IH.
Qed.
Lemma sortZ_perm : forall l, Permutation l (sortZ l).
Proof. induction l; simpl; auto. eapply perm_trans; [|apply insertZ_perm]. constructor; auto. Qed.

Definition wsorted (l : list Z) : Prop := StronglySorted Z.le l.
Lemma insertZ_sorted : forall x l, wsorted l -> wsorted (insertZ x l).
Proof.
  induction l as [|y t IH]; simpl; intros H.
  - repeat constructor.
  - destruct (x <=? y) eqn:E.
    + apply Z.leb_le in E. constructor; auto. constructor; auto.
      inversion H; subst. eapply Forall_impl; [|eassumption]. intros; simpl in *; lia.
    + apply Z.leb_gt in E. inversion H; subst. constructor.
      * apply IH; assumption.
      * eapply Permutation_Forall; [apply insertZ_perm|]. constructor; auto. lia.
Qed.
Lemma sortZ_sorted : forall l, wsorted (sortZ l).
Proof. induction l; simpl. constructor. apply insertZ_sorted; auto. Qed.

Lemma keep_changes_in : forall l p x, In x (p :: l) -> In x (p :: keep_changes p l).
Proof.
  induction l as [|y t IH]; intros p x H; simpl; auto.
  destruct H as [H|[H|H]].
  - left; auto.
  - subst. destruct (x =? p) eqn:E.
    + apply Z.eqb_eq in E. left; auto.
    + right. left. reflexivity.
  - assert (In x (y :: keep_changes y t)) by (apply IH; right; auto).
    destruct (y =? p) eqn:E.
    + apply Z.eqb_eq in E. subst. exact H0.
    + right. exact H0.
Qed.

Lemma arr_unique_in : forall l x, In x l -> In x (arr_unique l).
Proof.
  intros l x H. unfold arr_unique.
  assert (Hs : In x (sortZ l)) by (eapply Permutation_in; [apply sortZ_perm|exact H]).
  destruct (sortZ l); [inversion Hs|]. apply keep_changes_in. exact Hs.
Qed.

(* a value occurring twice in a weakly sorted list shows up in adj_equal *)
Lemma adj_equal_twice : forall l x, wsorted l -> (2 <= count_occ Z.eq_dec l x)%nat -> In x (adj_equal l).
Proof.
  induction l as [|y t IH]; intros x Hs Hc; simpl in Hc; [lia|].
  destruct t as [|z t'].
  - simpl in Hc. destruct (Z.eq_dec y x); simpl in Hc; lia.
  - change (adj_equal (y :: z :: t')) with (if z =? y then y :: adj_equal (z :: t') else adj_equal (z :: t')).
    inversion Hs; subst. destruct (Z.eq_dec y x) as [->|Hne].
    + assert (Hin : In x (z :: t')). { apply (count_occ_In Z.eq_dec). simpl in Hc. destruct (Z.eq_dec x x); [|congruence]. simpl. lia. }
      assert (z = x).
      { assert (x <= z) by (rewrite Forall_forall in H2; apply H2; left; reflexivity).
        destruct Hin as [->|Hin]; auto. inversion H1; subst. rewrite Forall_forall in H5. specialize (H5 _ Hin). lia. }
      subst. rewrite Z.eqb_refl. left; reflexivity.
    + assert (In x (adj_equal (z :: t'))) by (apply IH; auto).
      destruct (z =? y); [right|]; auto.
Qed.

(* ------------------------------------------------------------------ B. list-level merges *)

(* merge-style union / intersection of index lists *)
Fixpoint union_l (a : list Z) : list Z -> list Z :=
  match a with
  | [] => fun b => b
  | j1 :: a' =>
    fix inner (b : list Z) : list Z :=
      match b with
      | [] => a
      | j2 :: b' => if j1 =? j2 then j1 :: union_l a' b'
                    else if j1 <? j2 then j1 :: union_l a' b
                    else j2 :: inner b'
      end
  end.

Fixpoint inter_l (a : list Z) : list Z -> list Z :=
  match a with
  | [] => fun _ => []
  | j1 :: a' =>
    fix inner (b : list Z) : list Z :=
      match b with
      | [] => []
      | j2 :: b' => if j1 =? j2 then j1 :: inter_l a' b'
                    else if j1 <? j2 then inter_l a' b
                    else inner b'
      end
  end.

Lemma union_l_nil_r : forall a, union_l a [] = a.
Proof. destruct a; reflexivity. Qed.

Lemma union_l_cons : forall j1 a' j2 b',
  union_l (j1 :: a') (j2 :: b') =
  if j1 =? j2 then j1 :: union_l a' b' else if j1 <? j2 then j1 :: union_l a' (j2 :: b') else j2 :: union_l (j1 :: a') b'.
Proof. reflexivity. Qed.
Lemma inter_l_cons : forall j1 a' j2 b',
  inter_l (j1 :: a') (j2 :: b') =
  if j1 =? j2 then j1 :: inter_l a' b' else if j1 <? j2 then inter_l a' (j2 :: b') else inter_l (j1 :: a') b'.
Proof. reflexivity. Qed.
Lemma inter_l_nil_r : forall a, inter_l a [] = [].
Proof. destruct a; reflexivity. Qed.

Definition all_gt (lo : Z) (l : list Z) : Prop := Forall (Z.lt lo) l.

Lemma union_l_gt : forall lo a b, all_gt lo a -> all_gt lo b -> all_gt lo (union_l a b).
Proof.
  induction a as [|j1 a' IHa]; intros b Ha Hb; [simpl; auto|].
  induction b as [|j2 b' IHb]; [rewrite union_l_nil_r; auto|].
  rewrite union_l_cons. inversion Ha; subst. inversion Hb; subst.
  destruct (j1 =? j2); [|destruct (j1 <? j2)]; constructor; auto.
  - apply IHa; auto.
  - apply IHa; auto.
  - apply IHb; auto.
Qed.

Lemma union_l_incr : forall a b, incr a -> incr b -> incr (union_l a b).
Proof.
  induction a as [|j1 a' IHa]; intros b Ha Hb; [simpl; auto|].
  induction b as [|j2 b' IHb]; [rewrite union_l_nil_r; auto|].
  rewrite union_l_cons.
  pose proof (incr_tail _ _ Ha) as Ha'. pose proof (incr_head _ _ Ha) as Hha.
  pose proof (incr_tail _ _ Hb) as Hb'. pose proof (incr_head _ _ Hb) as Hhb.
  destruct (j1 =? j2) eqn:E; [|destruct (j1 <? j2) eqn:E2].
  - apply Z.eqb_eq in E; subst. constructor; [apply IHa; auto|]. apply union_l_gt; auto.
  - apply Z.ltb_lt in E2. constructor; [apply IHa; auto|]. apply union_l_gt; auto.
    constructor; auto. eapply Forall_impl; [|exact Hhb]. intros; simpl in *; lia.
  - apply Z.eqb_neq in E. apply Z.ltb_ge in E2. constructor; [apply IHb; auto|]. apply union_l_gt; auto.
    constructor; [lia|]. eapply Forall_impl; [|exact Hha]. intros; simpl in *; lia.
Qed.

Lemma union_l_incl : forall a b x, In x (union_l a b) -> In x (a ++ b).
Proof.
  induction a as [|j1 a' IHa]; intros b x H; [simpl in *; auto|].
  induction b as [|j2 b' IHb].
  - rewrite union_l_nil_r in H. rewrite app_nil_r. exact H.
  - rewrite union_l_cons in H. apply in_or_app.
    destruct (j1 =? j2) eqn:E; [|destruct (j1 <? j2)].
    + destruct H as [H|H]; [left; left; exact H|]. apply IHa in H. apply in_app_or in H.
      destruct H; [left; right; auto|right; right; auto].
    + destruct H as [H|H]; [left; left; exact H|]. apply IHa in H. apply in_app_or in H.
      destruct H; [left; right; auto|right; auto].
    + destruct H as [H|H]; [right; left; exact H|]. apply IHb in H. apply in_app_or in H.
      destruct H; [left; auto|right; right; auto].
Qed.

Lemma inter_l_sub : forall a b x, In x (inter_l a b) -> In x a /\ In x b.
Proof.
  induction a as [|j1 a' IHa]; intros b x H; [simpl in *; tauto|].
  induction b as [|j2 b' IHb]; [rewrite inter_l_nil_r in H; inversion H|].
  rewrite inter_l_cons in H.
  destruct (j1 =? j2) eqn:E; [|destruct (j1 <? j2)].
  - apply Z.eqb_eq in E. subst j2. destruct H as [H|H].
    + subst x. split; left; reflexivity.
    + apply IHa in H. destruct H as [H1 H2]. split; right; assumption.
  - apply IHa in H. destruct H as [H1 H2]. split; [right|]; assumption.
  - apply IHb in H. destruct H as [H1 H2]. split; [|right]; assumption.
Qed.

Lemma inter_l_gt : forall lo a b, all_gt lo a -> all_gt lo (inter_l a b).
Proof.
  intros lo a b Ha. apply Forall_forall. intros x Hx. apply inter_l_sub in Hx.
  unfold all_gt in Ha. rewrite Forall_forall in Ha. apply Ha. tauto.
Qed.

Lemma inter_l_incr : forall a b, incr a -> incr (inter_l a b).
Proof.
  induction a as [|j1 a' IHa]; intros b Ha; [simpl; constructor|].
  induction b as [|j2 b' IHb]; [rewrite inter_l_nil_r; constructor|].
  rewrite inter_l_cons.
  destruct (j1 =? j2); [|destruct (j1 <? j2)]; auto.
  - constructor. apply IHa. eapply incr_tail; eauto. apply inter_l_gt. apply incr_head; auto.
  - apply IHa. eapply incr_tail; eauto.
Qed.

(* capacity of the buffers the code allocates *)
Lemma union_capacity : forall a b, incr a -> incr b -> (length (union_l a b) <= length (arr_union a b))%nat.
Proof.
  intros a b Ha Hb. destruct a as [|x a]; [simpl; lia|]. destruct b as [|y b]; [simpl; lia|].
  unfold arr_union. apply NoDup_incl_length.
  - apply incr_NoDup. apply union_l_incr; auto.
  - intros z Hz. apply arr_unique_in. apply union_l_incl. exact Hz.
Qed.

Lemma inter_capacity : forall a b, incr a -> incr b -> (length (inter_l a b) <= length (arr_intersect a b))%nat.
Proof.
  intros a b Ha Hb. unfold arr_intersect. apply NoDup_incl_length.
  - apply incr_NoDup. apply inter_l_incr; auto.
  - intros z Hz. apply inter_l_sub in Hz. destruct Hz as [Hza Hzb].
    apply adj_equal_twice. apply sortZ_sorted.
    assert (Hp : Permutation (a ++ b) (sortZ (a ++ b))) by apply sortZ_perm.
    rewrite (Permutation_count_occ Z.eq_dec) in Hp. rewrite <- Hp. rewrite count_occ_app.
    apply (count_occ_In Z.eq_dec) in Hza. apply (count_occ_In Z.eq_dec) in Hzb. lia.
Qed.

Section Values.
  Variable T : Type.
  Variables (zero : T) (add mul : T -> T -> T) (opp : T -> T) (eqz : T -> bool).
  Variable eqT : T -> T -> Prop.
  Hypothesis eqT_refl : forall x, eqT x x.
  Hypothesis eqT_sym : forall x y, eqT x y -> eqT y x.
  Hypothesis eqT_trans : forall x y z, eqT x y -> eqT y z -> eqT x z.
  Hypothesis eqz_spec : forall x, eqz x = true <-> eqT x zero.
  Hypothesis add_zero_r : forall x, eqT (add x zero) x.
  Hypothesis add_zero_l : forall x, eqT (add zero x) x.
  Hypothesis mul_zero_r : forall x, eqT (mul x zero) zero.
  Hypothesis mul_zero_l : forall x, eqT (mul zero x) zero.

  (* SPEC side: the dense vector a sparse encoding denotes, pointwise *)
  Fixpoint lookup (k : Z) (l : list (Z * T)) : T :=
    match l with
    | [] => zero
    | (j, v) :: t => if j =? k then v else lookup k t
    end.
  Definition dense (ind : list Z) (data : list T) (k : Z) : T := lookup k (combine ind data).

  Definition cons_nz (j : Z) (v : T) (l : list (Z * T)) := if eqz v then l else (j, v) :: l.
  Definition filter_nz (l : list (Z * T)) := filter (fun p => negb (eqz (snd p))) l.

  Fixpoint msum (a : list (Z * T)) : list (Z * T) -> list (Z * T) :=
    match a with
    | [] => fun b => filter_nz b
    | (j1, d1) :: a' =>
      fix inner (b : list (Z * T)) : list (Z * T) :=
        match b with
        | [] => filter_nz a
        | (j2, d2) :: b' =>
          if j1 =? j2 then cons_nz j1 (add d1 d2) (msum a' b')
          else if j1 <? j2 then cons_nz j1 d1 (msum a' b)
          else cons_nz j2 d2 (inner b')
        end
    end.

  Fixpoint mmul (a : list (Z * T)) : list (Z * T) -> list (Z * T) :=
    match a with
    | [] => fun _ => []
    | (j1, d1) :: a' =>
      fix inner (b : list (Z * T)) : list (Z * T) :=
        match b with
        | [] => []
        | (j2, d2) :: b' =>
          if j1 =? j2 then cons_nz j1 (mul d1 d2) (mmul a' b')
          else if j1 <? j2 then mmul a' b
          else inner b'
        end
    end.

  Lemma msum_nil_r : forall a, msum a [] = filter_nz a.
  Proof. destruct a as [|[j d] a]; reflexivity. Qed.
  Lemma msum_cons : forall j1 d1 a' j2 d2 b',
    msum ((j1, d1) :: a') ((j2, d2) :: b') =
    if j1 =? j2 then cons_nz j1 (add d1 d2) (msum a' b')
    else if j1 <? j2 then cons_nz j1 d1 (msum a' ((j2, d2) :: b'))
    else cons_nz j2 d2 (msum ((j1, d1) :: a') b').
  Proof. reflexivity. Qed.
  Lemma mmul_nil_r : forall a, mmul a [] = [].
  Proof. destruct a as [|[j d] a]; reflexivity. Qed.
  Lemma mmul_cons : forall j1 d1 a' j2 d2 b',
    mmul ((j1, d1) :: a') ((j2, d2) :: b') =
    if j1 =? j2 then cons_nz j1 (mul d1 d2) (mmul a' b')
    else if j1 <? j2 then mmul a' ((j2, d2) :: b')
    else mmul ((j1, d1) :: a') b'.
  Proof. reflexivity. Qed.

  Definition incrP (l : list (Z * T)) : Prop := incr (map fst l).
  Definition gtP (lo : Z) (l : list (Z * T)) : Prop := all_gt lo (map fst l).
  Definition nonzero (l : list (Z * T)) : Prop := Forall (fun p => eqz (snd p) = false) l.

  Lemma lookup_gt : forall lo l k, gtP lo l -> k <= lo -> lookup k l = zero.
  Proof.
    induction l as [|[j v] t IH]; intros k H Hk; simpl; auto.
    inversion H; subst. destruct (j =? k) eqn:E; [apply Z.eqb_eq in E; lia|]. apply IH; auto.
  Qed.

  Lemma gtP_cons_nz : forall lo j v l, lo < j -> gtP lo l -> gtP lo (cons_nz j v l).
  Proof. intros. unfold cons_nz. destruct (eqz v); auto. constructor; auto. Qed.
  Lemma gtP_filter_nz : forall lo l, gtP lo l -> gtP lo (filter_nz l).
  Proof.
    induction l as [|[j v] t IH]; intros H; simpl; auto. inversion H; subst.
    destruct (negb (eqz v)); simpl.
    - constructor; [assumption|apply IH; assumption].
    - apply IH; assumption.
  Qed.
  Lemma gtP_weaken : forall lo lo' l, lo' <= lo -> gtP lo l -> gtP lo' l.
  Proof. intros. eapply Forall_impl; [|eassumption]. intros; simpl in *; lia. Qed.

  Lemma incrP_cons_nz : forall j v l, gtP j l -> incrP l -> incrP (cons_nz j v l).
  Proof. intros. unfold cons_nz. destruct (eqz v); auto. constructor; auto. Qed.
  Lemma incrP_filter_nz : forall l, incrP l -> incrP (filter_nz l).
  Proof.
    induction l as [|[j v] t IH]; intros H; simpl; auto.
    pose proof (incr_tail _ _ H). pose proof (incr_head _ _ H).
    destruct (negb (eqz v)); simpl.
    - constructor; [apply IH; assumption|apply gtP_filter_nz; assumption].
    - apply IH; assumption.
  Qed.

  Lemma msum_gt : forall lo a b, gtP lo a -> gtP lo b -> gtP lo (msum a b).
  Proof.
    induction a as [|[j1 d1] a' IHa]; intros b Ha Hb; [simpl; apply gtP_filter_nz; auto|].
    induction b as [|[j2 d2] b' IHb]; [rewrite msum_nil_r; apply gtP_filter_nz; auto|].
    rewrite msum_cons. inversion Ha; subst. inversion Hb; subst.
    destruct (j1 =? j2); [|destruct (j1 <? j2)]; apply gtP_cons_nz; auto.
  Qed.

  Lemma msum_incr : forall a b, incrP a -> incrP b -> incrP (msum a b).
  Proof.
    induction a as [|[j1 d1] a' IHa]; intros b Ha Hb; [simpl; apply incrP_filter_nz; auto|].
    induction b as [|[j2 d2] b' IHb]; [rewrite msum_nil_r; apply incrP_filter_nz; auto|].
    rewrite msum_cons.
    pose proof (incr_tail _ _ Ha) as Ha'. pose proof (incr_head _ _ Ha) as Hha.
    pose proof (incr_tail _ _ Hb) as Hb'. pose proof (incr_head _ _ Hb) as Hhb.
    destruct (j1 =? j2) eqn:E; [|destruct (j1 <? j2) eqn:E2].
    - apply Z.eqb_eq in E; subst. apply incrP_cons_nz; [apply msum_gt; auto|apply IHa; auto].
    - apply Z.ltb_lt in E2. apply incrP_cons_nz; [|apply IHa; auto]. apply msum_gt; auto.
      constructor; auto. apply gtP_weaken with j2; [lia|]. exact Hhb.
    - apply Z.eqb_neq in E. apply Z.ltb_ge in E2. apply incrP_cons_nz; [|apply IHb; auto]. apply msum_gt; auto.
      constructor; [simpl; lia|]. apply gtP_weaken with j1; [lia|]. exact Hha.
  Qed.

  Lemma nonzero_cons_nz : forall j v l, nonzero l -> nonzero (cons_nz j v l).
  Proof. intros. unfold cons_nz. destruct (eqz v) eqn:E; auto. constructor; auto. Qed.
  Lemma nonzero_filter_nz : forall l, nonzero (filter_nz l).
  Proof.
    intros l. apply Forall_forall. intros p Hp. apply filter_In in Hp. destruct Hp as [_ Hp].
    destruct (eqz (snd p)); simpl in *; congruence.
  Qed.
  Lemma msum_nonzero : forall a b, nonzero (msum a b).
  Proof.
    induction a as [|[j1 d1] a' IHa]; intros b; [simpl; apply nonzero_filter_nz|].
    induction b as [|[j2 d2] b' IHb]; [rewrite msum_nil_r; apply nonzero_filter_nz|].
    rewrite msum_cons. destruct (j1 =? j2); [|destruct (j1 <? j2)]; apply nonzero_cons_nz; auto.
  Qed.

  Lemma lookup_cons_nz_eq : forall j v l, gtP j l -> eqT (lookup j (cons_nz j v l)) v.
  Proof.
    intros j v l H. unfold cons_nz. destruct (eqz v) eqn:E.
    - rewrite (lookup_gt j l j H) by lia. apply eqT_sym. apply eqz_spec. exact E.
    - simpl. rewrite Z.eqb_refl. apply eqT_refl.
  Qed.
  Lemma lookup_cons_nz_neq : forall j v l k, j <> k -> lookup k (cons_nz j v l) = lookup k l.
  Proof.
    intros. unfold cons_nz. destruct (eqz v); auto. simpl.
    destruct (j =? k) eqn:E; auto. apply Z.eqb_eq in E. contradiction.
  Qed.

  Lemma lookup_filter_nz : forall l k, incrP l -> eqT (lookup k (filter_nz l)) (lookup k l).
  Proof.
    induction l as [|[j v] t IH]; intros k H; simpl; [apply eqT_refl|].
    pose proof (incr_tail _ _ H) as Ht. pose proof (incr_head _ _ H) as Hh.
    destruct (eqz v) eqn:E; simpl.
    - destruct (j =? k) eqn:Ek.
      + apply Z.eqb_eq in Ek; subst. rewrite (lookup_gt k (filter_nz t) k) by (try lia; apply gtP_filter_nz; exact Hh).
        apply eqT_sym. apply eqz_spec. exact E.
      + apply IH; auto.
    - destruct (j =? k); [apply eqT_refl|apply IH; auto].
  Qed.

  Lemma msum_lookup : forall a b k, incrP a -> incrP b ->
    eqT (lookup k (msum a b)) (add (lookup k a) (lookup k b)).
  Proof.
    induction a as [|[j1 d1] a' IHa]; intros b k Ha Hb.
    - simpl. eapply eqT_trans; [apply lookup_filter_nz; auto|]. apply eqT_sym. apply add_zero_l.
    - induction b as [|[j2 d2] b' IHb].
      + rewrite msum_nil_r. eapply eqT_trans; [apply lookup_filter_nz; auto|]. apply eqT_sym. apply add_zero_r.
      + rewrite msum_cons.
        pose proof (incr_tail _ _ Ha) as Ha'. pose proof (incr_head _ _ Ha) as Hha.
        pose proof (incr_tail _ _ Hb) as Hb'. pose proof (incr_head _ _ Hb) as Hhb.
        destruct (j1 =? j2) eqn:E; [|destruct (j1 <? j2) eqn:E2].
        * apply Z.eqb_eq in E; subst j2. simpl lookup at 2 3.
          destruct (j1 =? k) eqn:Ek.
          -- apply Z.eqb_eq in Ek; subst k. apply lookup_cons_nz_eq. apply msum_gt; auto.
          -- apply Z.eqb_neq in Ek. rewrite lookup_cons_nz_neq by auto. apply IHa; auto.
        * apply Z.ltb_lt in E2. simpl lookup at 2.
          destruct (j1 =? k) eqn:Ek.
          -- apply Z.eqb_eq in Ek; subst k.
             assert (Hg : gtP j1 ((j2, d2) :: b')).
             { constructor; [simpl; lia|apply gtP_weaken with j2; [lia|exact Hhb]]. }
             rewrite (lookup_gt j1 ((j2, d2) :: b') j1 Hg) by lia.
             eapply eqT_trans; [apply lookup_cons_nz_eq|apply eqT_sym; apply add_zero_r].
             apply msum_gt; auto.
          -- apply Z.eqb_neq in Ek. rewrite lookup_cons_nz_neq by auto. apply IHa; auto.
        * apply Z.eqb_neq in E. apply Z.ltb_ge in E2. simpl lookup at 3.
          destruct (j2 =? k) eqn:Ek.
          -- apply Z.eqb_eq in Ek; subst k.
             assert (Hg : gtP j2 ((j1, d1) :: a')).
             { constructor; [simpl; lia|apply gtP_weaken with j1; [lia|exact Hha]]. }
             rewrite (lookup_gt j2 ((j1, d1) :: a') j2 Hg) by lia.
             eapply eqT_trans; [apply lookup_cons_nz_eq|apply eqT_sym; apply add_zero_l].
             apply msum_gt; auto.
          -- apply Z.eqb_neq in Ek. rewrite lookup_cons_nz_neq by auto. apply IHb; auto.
  Qed.

  (* ---- product *)
  Lemma mmul_gt : forall lo a b, gtP lo a -> gtP lo (mmul a b).
  Proof.
    induction a as [|[j1 d1] a' IHa]; intros b Ha; [simpl; constructor|].
    induction b as [|[j2 d2] b' IHb]; [rewrite mmul_nil_r; constructor|].
    rewrite mmul_cons. inversion Ha; subst.
    destruct (j1 =? j2); [|destruct (j1 <? j2)].
    - apply gtP_cons_nz; [assumption|apply IHa; assumption].
    - apply IHa; assumption.
    - apply IHb.
  Qed.

  Lemma mmul_incr : forall a b, incrP a -> incrP (mmul a b).
  Proof.
    induction a as [|[j1 d1] a' IHa]; intros b Ha; [simpl; constructor|].
    induction b as [|[j2 d2] b' IHb]; [rewrite mmul_nil_r; constructor|].
    rewrite mmul_cons.
    pose proof (incr_tail _ _ Ha) as Ha'. pose proof (incr_head _ _ Ha) as Hha.
    destruct (j1 =? j2); [|destruct (j1 <? j2)].
    - apply incrP_cons_nz; [apply mmul_gt; exact Hha|apply IHa; exact Ha'].
    - apply IHa; exact Ha'.
    - apply IHb.
  Qed.

  Lemma mmul_nonzero : forall a b, nonzero (mmul a b).
  Proof.
    induction a as [|[j1 d1] a' IHa]; intros b; [simpl; constructor|].
    induction b as [|[j2 d2] b' IHb]; [rewrite mmul_nil_r; constructor|].
    rewrite mmul_cons. destruct (j1 =? j2); [|destruct (j1 <? j2)].
    - apply nonzero_cons_nz. apply IHa.
    - apply IHa.
    - apply IHb.
  Qed.

  Lemma mmul_lookup : forall a b k, incrP a -> incrP b ->
    eqT (lookup k (mmul a b)) (mul (lookup k a) (lookup k b)).
  Proof.
    induction a as [|[j1 d1] a' IHa]; intros b k Ha Hb.
    - simpl. apply eqT_sym. apply mul_zero_l.
    - induction b as [|[j2 d2] b' IHb].
      + rewrite mmul_nil_r. simpl lookup at 1 3. apply eqT_sym. apply mul_zero_r.
      + rewrite mmul_cons.
        pose proof (incr_tail _ _ Ha) as Ha'. pose proof (incr_head _ _ Ha) as Hha.
        pose proof (incr_tail _ _ Hb) as Hb'. pose proof (incr_head _ _ Hb) as Hhb.
        destruct (j1 =? j2) eqn:E; [|destruct (j1 <? j2) eqn:E2].
        * apply Z.eqb_eq in E; subst j2. simpl lookup at 2 3.
          destruct (j1 =? k) eqn:Ek.
          -- apply Z.eqb_eq in Ek; subst k. apply lookup_cons_nz_eq. apply mmul_gt; auto.
          -- apply Z.eqb_neq in Ek. rewrite lookup_cons_nz_neq by auto. apply IHa; auto.
        * apply Z.ltb_lt in E2. simpl lookup at 2.
          destruct (j1 =? k) eqn:Ek.
          -- apply Z.eqb_eq in Ek; subst k.
             assert (Hg : gtP j1 ((j2, d2) :: b')).
             { constructor; [simpl; lia|apply gtP_weaken with j2; [lia|exact Hhb]]. }
             rewrite (lookup_gt j1 ((j2, d2) :: b') j1 Hg) by lia.
             rewrite (lookup_gt j1 (mmul a' ((j2, d2) :: b')) j1) by (try lia; apply mmul_gt; exact Hha).
             apply eqT_sym. apply mul_zero_r.
          -- apply IHa; auto.
        * apply Z.eqb_neq in E. apply Z.ltb_ge in E2. simpl lookup at 3.
          destruct (j2 =? k) eqn:Ek.
          -- apply Z.eqb_eq in Ek; subst k.
             assert (Hg : gtP j2 ((j1, d1) :: a')).
             { constructor; [simpl; lia|apply gtP_weaken with j1; [lia|exact Hha]]. }
             rewrite (lookup_gt j2 ((j1, d1) :: a') j2 Hg) by lia.
             rewrite (lookup_gt j2 (mmul ((j1, d1) :: a') b') j2) by (try lia; apply mmul_gt; exact Hg).
             apply eqT_sym. apply mul_zero_l.
          -- apply IHb; auto.
  Qed.

  (* ---- dense_union at list level *)
  Definition cons_nz2 (val : T) (p : T * T) (l : list (T * T)) := if eqz val then l else p :: l.
  Fixpoint munion (a : list (Z * T)) : list (Z * T) -> list (T * T) :=
    match a with
    | [] => fun b => map (fun p => (zero, snd p)) (filter_nz b)
    | (j1, d1) :: a' =>
      fix inner (b : list (Z * T)) : list (T * T) :=
        match b with
        | [] => map (fun p => (snd p, zero)) (filter_nz a)
        | (j2, d2) :: b' =>
          if j1 =? j2 then cons_nz2 (add d1 d2) (d1, d2) (munion a' b')
          else if j1 <? j2 then cons_nz2 d1 (d1, zero) (munion a' b)
          else cons_nz2 d2 (zero, d2) (inner b')
        end
    end.
  Lemma munion_nil_r : forall a, munion a [] = map (fun p => (snd p, zero)) (filter_nz a).
  Proof. destruct a as [|[j d] a]; reflexivity. Qed.
  Lemma munion_cons : forall j1 d1 a' j2 d2 b',
    munion ((j1, d1) :: a') ((j2, d2) :: b') =
    if j1 =? j2 then cons_nz2 (add d1 d2) (d1, d2) (munion a' b')
    else if j1 <? j2 then cons_nz2 d1 (d1, zero) (munion a' ((j2, d2) :: b'))
    else cons_nz2 d2 (zero, d2) (munion ((j1, d1) :: a') b').
  Proof. reflexivity. Qed.

  Definition pairs_at (a b : list (Z * T)) (ks : list Z) : list (T * T) :=
    map (fun k => (lookup k a, lookup k b)) ks.

  Lemma pairs_at_cons : forall a b k ks, pairs_at a b (k :: ks) = (lookup k a, lookup k b) :: pairs_at a b ks.
  Proof. reflexivity. Qed.
  Lemma lookup_head : forall j v l, lookup j ((j, v) :: l) = v.
  Proof. intros. simpl. rewrite Z.eqb_refl. reflexivity. Qed.
  Lemma pairs_at_skip_l : forall j d a b ks, all_gt j ks -> pairs_at ((j, d) :: a) b ks = pairs_at a b ks.
  Proof.
    intros. unfold pairs_at. apply map_ext_in. intros k Hk. unfold all_gt in H. rewrite Forall_forall in H.
    specialize (H _ Hk). simpl. destruct (j =? k) eqn:E; [apply Z.eqb_eq in E; lia|reflexivity].
  Qed.
  Lemma pairs_at_skip_r : forall j d a b ks, all_gt j ks -> pairs_at a ((j, d) :: b) ks = pairs_at a b ks.
  Proof.
    intros. unfold pairs_at. apply map_ext_in. intros k Hk. unfold all_gt in H. rewrite Forall_forall in H.
    specialize (H _ Hk). simpl. destruct (j =? k) eqn:E; [apply Z.eqb_eq in E; lia|reflexivity].
  Qed.

  Lemma lookup_filter_self : forall l, incrP l ->
    map (fun k => lookup k l) (map fst (filter_nz l)) = map snd (filter_nz l).
  Proof.
    induction l as [|[j v] t IH]; intros H; simpl; auto.
    pose proof (incr_tail _ _ H) as Ht. pose proof (incr_head _ _ H) as Hh.
    assert (Hskip : map (fun k => if j =? k then v else lookup k t) (map fst (filter_nz t))
                    = map (fun k => lookup k t) (map fst (filter_nz t))).
    { apply map_ext_in. intros k Hk. pose proof (gtP_filter_nz j t Hh) as Hg.
      unfold gtP, all_gt in Hg. rewrite Forall_forall in Hg. specialize (Hg _ Hk).
      destruct (j =? k) eqn:E; [apply Z.eqb_eq in E; lia|reflexivity]. }
    destruct (negb (eqz v)); simpl.
    - rewrite Z.eqb_refl. f_equal. rewrite Hskip. apply IH; auto.
    - rewrite Hskip. apply IH; auto.
  Qed.

  Lemma lookup_nil_map : forall ks, map (fun k => lookup k []) ks = map (fun _ => zero) ks.
  Proof. reflexivity. Qed.

  Lemma munion_spec : forall a b, incrP a -> incrP b ->
    munion a b = pairs_at a b (map fst (msum a b)).
  Proof.
    induction a as [|[j1 d1] a' IHa]; intros b Ha Hb.
    - simpl. transitivity (map (fun v => (zero, v)) (map snd (filter_nz b))); [rewrite map_map; reflexivity|].
      rewrite <- (lookup_filter_self b Hb). unfold pairs_at. rewrite !map_map. reflexivity.
    - induction b as [|[j2 d2] b' IHb].
      + rewrite munion_nil_r, msum_nil_r.
        transitivity (map (fun v => (v, zero)) (map snd (filter_nz ((j1, d1) :: a')))); [rewrite map_map; reflexivity|].
        rewrite <- (lookup_filter_self _ Ha). unfold pairs_at. rewrite !map_map. reflexivity.
      + rewrite munion_cons, msum_cons.
        pose proof (incr_tail _ _ Ha) as Ha'. pose proof (incr_head _ _ Ha) as Hha.
        pose proof (incr_tail _ _ Hb) as Hb'. pose proof (incr_head _ _ Hb) as Hhb.
        destruct (j1 =? j2) eqn:E; [|destruct (j1 <? j2) eqn:E2].
        * apply Z.eqb_eq in E; subst j2.
          assert (Hg : all_gt j1 (map fst (msum a' b'))) by (apply msum_gt; auto).
          unfold cons_nz2, cons_nz. destruct (eqz (add d1 d2)).
          -- rewrite pairs_at_skip_l; [|exact Hg]. rewrite pairs_at_skip_r; [|exact Hg]. apply IHa; auto.
          -- change (map fst ((j1, add d1 d2) :: msum a' b')) with (j1 :: map fst (msum a' b')).
             rewrite pairs_at_cons, !lookup_head. f_equal.
             rewrite pairs_at_skip_l; [|exact Hg]. rewrite pairs_at_skip_r; [|exact Hg]. apply IHa; auto.
        * apply Z.ltb_lt in E2.
          assert (Hgb : gtP j1 ((j2, d2) :: b')).
          { constructor; [simpl; lia|apply gtP_weaken with j2; [lia|exact Hhb]]. }
          assert (Hg : all_gt j1 (map fst (msum a' ((j2, d2) :: b')))) by (apply msum_gt; auto).
          unfold cons_nz2, cons_nz. destruct (eqz d1).
          -- rewrite pairs_at_skip_l; [|exact Hg]. apply IHa; auto.
          -- change (map fst ((j1, d1) :: msum a' ((j2, d2) :: b'))) with (j1 :: map fst (msum a' ((j2, d2) :: b'))).
             rewrite pairs_at_cons, lookup_head. rewrite (lookup_gt j1 _ j1 Hgb) by lia. f_equal.
             rewrite pairs_at_skip_l; [|exact Hg]. apply IHa; auto.
        * apply Z.eqb_neq in E. apply Z.ltb_ge in E2.
          assert (Hga : gtP j2 ((j1, d1) :: a')).
          { constructor; [simpl; lia|apply gtP_weaken with j1; [lia|exact Hha]]. }
          assert (Hg : all_gt j2 (map fst (msum ((j1, d1) :: a') b'))) by (apply msum_gt; auto).
          unfold cons_nz2, cons_nz. destruct (eqz d2).
          -- rewrite pairs_at_skip_r; [|exact Hg]. apply IHb; auto.
          -- change (map fst ((j2, d2) :: msum ((j1, d1) :: a') b')) with (j2 :: map fst (msum ((j1, d1) :: a') b')).
             rewrite pairs_at_cons, lookup_head. rewrite (lookup_gt j2 _ j2 Hga) by lia. f_equal.
             rewrite pairs_at_skip_r; [|exact Hg]. apply IHb; auto.
  Qed.
End Values.
