(* K11 — proofs about the sparse vector helpers.  Structure:
   A. list/array facts (set_nth, nth_error/skipn, sortZ, arr_unique, adj_equal);
   B. list-level merges (union_l, inter_l, msum, mmul, munion) and their pointwise meaning on strictly
      increasing index lists (lookup = dense arithmetic, sorted, no explicit zero);
   C. the index-level loops of Model/K11 refine the list-level merges (loop invariants; no write out of range);
   D. the theorems used by Properties/C18.v. *)
From Coq Require Import ZArith List Bool Lia Sorted Permutation Arith.
From VZ Require Import Model.K11_SparseVec.
Import ListNotations.
Open Scope Z_scope.

(* ------------------------------------------------------------------ A. arrays *)

Lemma set_nth_app : forall (A : Type) (out : list A) x rest v,
  set_nth (out ++ x :: rest) (length out) v = Some (out ++ v :: rest).
Proof. induction out as [|a out IH]; simpl; intros; auto. rewrite IH. reflexivity. Qed.

Lemma nth_error_skipn : forall (A : Type) (l : list A) i x,
  nth_error l i = Some x -> skipn i l = x :: skipn (S i) l.
Proof.
  induction l as [|a l IH]; intros [|i] x H; simpl in *; try discriminate.
  - inversion H. reflexivity.
  - apply IH in H. rewrite H. destruct l; reflexivity.
Qed.

Lemma nth_error_lt_some : forall (A : Type) (l : list A) i, (i < length l)%nat -> exists x, nth_error l i = Some x.
Proof. intros A l i H. destruct (nth_error l i) eqn:E; eauto. apply nth_error_None in E. lia. Qed.

Lemma firstn_app_exact : forall (A : Type) (l r : list A), firstn (length l) (l ++ r) = l.
Proof. intros. rewrite firstn_app, Nat.sub_diag, firstn_all. simpl. apply app_nil_r. Qed.

Lemma combine_skipn : forall (A B : Type) (l : list A) (m : list B) n,
  skipn n (combine l m) = combine (skipn n l) (skipn n m).
Proof. induction l; destruct m, n; simpl; auto. destruct (skipn n l); reflexivity. Qed.

(* strictly increasing index lists *)
Definition incr (l : list Z) : Prop := StronglySorted Z.lt l.

Lemma incr_tail : forall x l, incr (x :: l) -> incr l.
Proof. intros x l H. inversion H; auto. Qed.
Lemma incr_head : forall x l, incr (x :: l) -> Forall (Z.lt x) l.
Proof. intros x l H. inversion H; auto. Qed.
Lemma incr_NoDup : forall l, incr l -> NoDup l.
Proof.
  induction l; intros H; constructor.
  - intro Hin. apply incr_head in H. rewrite Forall_forall in H. specialize (H _ Hin). lia.
  - apply IHl. eapply incr_tail; eauto.
Qed.
Lemma incr_skipn : forall n l, incr l -> incr (skipn n l).
Proof. induction n; intros l H; simpl; auto. destruct l; auto. apply IHn. eapply incr_tail; eauto. Qed.

(* sortZ *)
Lemma insertZ_perm : forall x l, Permutation (x :: l) (insertZ x l).
Proof.
  induction l as [|y t IH]; simpl; auto. destruct (x <=? y); auto.
  eapply perm_trans; [apply perm_swap|]. constructor. exact IH.
Qed.
Lemma sortZ_perm : forall l, Permutation l (sortZ l).
Proof. induction l; simpl; auto. eapply perm_trans; [|apply insertZ_perm]. constructor; auto. Qed.

Definition wsorted (l : list Z) : Prop := StronglySorted Z.le l.
Lemma insertZ_sorted : forall x l, wsorted l -> wsorted (insertZ x l).
Proof.
  induction l as [|y t IH]; simpl; intros H.
  - repeat constructor.
  - destruct (x <=? y) eqn:E.
    + apply Z.leb_le in E. constructor; auto. constructor; auto.
      inversion H; subst. eapply Forall_impl; [|eassumption]. intros; simpl in *; lia.
    + apply Z.leb_gt in E. inversion H; subst. constructor.
      * apply IH; assumption.
      * eapply Permutation_Forall; [apply insertZ_perm|]. constructor; auto. lia.
Qed.
Lemma sortZ_sorted : forall l, wsorted (sortZ l).
Proof. induction l; simpl. constructor. apply insertZ_sorted; auto. Qed.

Lemma keep_changes_in : forall l p x, In x (p :: l) -> In x (p :: keep_changes p l).
Proof.
  induction l as [|y t IH]; intros p x H; simpl; auto.
  destruct H as [H|[H|H]].
  - left; auto.
  - subst. destruct (x =? p) eqn:E.
    + apply Z.eqb_eq in E. left; auto.
    + right. left. reflexivity.
  - assert (In x (y :: keep_changes y t)) by (apply IH; right; auto).
    destruct (y =? p) eqn:E.
    + apply Z.eqb_eq in E. subst. exact H0.
    + right. exact H0.
Qed.

Lemma arr_unique_in : forall l x, In x l -> In x (arr_unique l).
Proof.
  intros l x H. unfold arr_unique.
  assert (Hs : In x (sortZ l)) by (eapply Permutation_in; [apply sortZ_perm|exact H]).
  destruct (sortZ l); [inversion Hs|]. apply keep_changes_in. exact Hs.
Qed.

(* a value occurring twice in a weakly sorted list shows up in adj_equal *)
Lemma adj_equal_twice : forall l x, wsorted l -> (2 <= count_occ Z.eq_dec l x)%nat -> In x (adj_equal l).
Proof.
  induction l as [|y t IH]; intros x Hs Hc; simpl in Hc; [lia|].
  destruct t as [|z t'].
  - simpl in Hc. destruct (Z.eq_dec y x); simpl in Hc; lia.
  - change (adj_equal (y :: z :: t')) with (if z =? y then y :: adj_equal (z :: t') else adj_equal (z :: t')).
    inversion Hs; subst. destruct (Z.eq_dec y x) as [->|Hne].
    + assert (Hin : In x (z :: t')). { apply (count_occ_In Z.eq_dec). simpl in Hc. destruct (Z.eq_dec x x); [|congruence]. simpl. lia. }
      assert (z = x).
      { assert (x <= z) by (rewrite Forall_forall in H2; apply H2; left; reflexivity).
        destruct Hin as [->|Hin]; auto. inversion H1; subst. rewrite Forall_forall in H5. specialize (H5 _ Hin). lia. }
      subst. rewrite Z.eqb_refl. left; reflexivity.
    + assert (In x (adj_equal (z :: t'))) by (apply IH; auto).
      destruct (z =? y); [right|]; auto.
Qed.

(* ------------------------------------------------------------------ B. list-level merges *)

(* merge-style union / intersection of index lists *)
Fixpoint union_l (a : list Z) : list Z -> list Z :=
  match a with
  | [] => fun b => b
  | j1 :: a' =>
    fix inner (b : list Z) : list Z :=
      match b with
      | [] => a
      | j2 :: b' => if j1 =? j2 then j1 :: union_l a' b'
                    else if j1 <? j2 then j1 :: union_l a' b
                    else j2 :: inner b'
      end
  end.

Fixpoint inter_l (a : list Z) : list Z -> list Z :=
  match a with
  | [] => fun _ => []
  | j1 :: a' =>
    fix inner (b : list Z) : list Z :=
      match b with
      | [] => []
      | j2 :: b' => if j1 =? j2 then j1 :: inter_l a' b'
                    else if j1 <? j2 then inter_l a' b
                    else inner b'
      end
  end.

Lemma union_l_nil_r : forall a, union_l a [] = a.
Proof. destruct a; reflexivity. Qed.

Lemma union_l_cons : forall j1 a' j2 b',
  union_l (j1 :: a') (j2 :: b') =
  if j1 =? j2 then j1 :: union_l a' b' else if j1 <? j2 then j1 :: union_l a' (j2 :: b') else j2 :: union_l (j1 :: a') b'.
Proof. reflexivity. Qed.
Lemma inter_l_cons : forall j1 a' j2 b',
  inter_l (j1 :: a') (j2 :: b') =
  if j1 =? j2 then j1 :: inter_l a' b' else if j1 <? j2 then inter_l a' (j2 :: b') else inter_l (j1 :: a') b'.
Proof. reflexivity. Qed.
Lemma inter_l_nil_r : forall a, inter_l a [] = [].
Proof. destruct a; reflexivity. Qed.

Definition all_gt (lo : Z) (l : list Z) : Prop := Forall (Z.lt lo) l.

Lemma union_l_gt : forall lo a b, all_gt lo a -> all_gt lo b -> all_gt lo (union_l a b).
Proof.
  induction a as [|j1 a' IHa]; intros b Ha Hb; [simpl; auto|].
  induction b as [|j2 b' IHb]; [rewrite union_l_nil_r; auto|].
  rewrite union_l_cons. inversion Ha; subst. inversion Hb; subst.
  destruct (j1 =? j2); [|destruct (j1 <? j2)]; constructor; auto.
  - apply IHa; auto.
  - apply IHa; auto.
  - apply IHb; auto.
Qed.

Lemma union_l_incr : forall a b, incr a -> incr b -> incr (union_l a b).
Proof.
  induction a as [|j1 a' IHa]; intros b Ha Hb; [simpl; auto|].
  induction b as [|j2 b' IHb]; [rewrite union_l_nil_r; auto|].
  rewrite union_l_cons.
  pose proof (incr_tail _ _ Ha) as Ha'. pose proof (incr_head _ _ Ha) as Hha.
  pose proof (incr_tail _ _ Hb) as Hb'. pose proof (incr_head _ _ Hb) as Hhb.
  destruct (j1 =? j2) eqn:E; [|destruct (j1 <? j2) eqn:E2].
  - apply Z.eqb_eq in E; subst. constructor; [apply IHa; auto|]. apply union_l_gt; auto.
  - apply Z.ltb_lt in E2. constructor; [apply IHa; auto|]. apply union_l_gt; auto.
    constructor; auto. eapply Forall_impl; [|exact Hhb]. intros; simpl in *; lia.
  - apply Z.eqb_neq in E. apply Z.ltb_ge in E2. constructor; [apply IHb; auto|]. apply union_l_gt; auto.
    constructor; [lia|]. eapply Forall_impl; [|exact Hha]. intros; simpl in *; lia.
Qed.

Lemma union_l_incl : forall a b x, In x (union_l a b) -> In x (a ++ b).
Proof.
  induction a as [|j1 a' IHa]; intros b x H; [simpl in *; auto|].
  induction b as [|j2 b' IHb].
  - rewrite union_l_nil_r in H. rewrite app_nil_r. exact H.
  - rewrite union_l_cons in H. apply in_or_app.
    destruct (j1 =? j2) eqn:E; [|destruct (j1 <? j2)].
    + destruct H as [H|H]; [left; left; exact H|]. apply IHa in H. apply in_app_or in H.
      destruct H; [left; right; auto|right; right; auto].
    + destruct H as [H|H]; [left; left; exact H|]. apply IHa in H. apply in_app_or in H.
      destruct H; [left; right; auto|right; auto].
    + destruct H as [H|H]; [right; left; exact H|]. apply IHb in H. apply in_app_or in H.
      destruct H; [left; auto|right; right; auto].
Qed.

Lemma inter_l_sub : forall a b x, In x (inter_l a b) -> In x a /\ In x b.
Proof.
  induction a as [|j1 a' IHa]; intros b x H; [simpl in *; tauto|].
  induction b as [|j2 b' IHb]; [rewrite inter_l_nil_r in H; inversion H|].
  rewrite inter_l_cons in H.
  destruct (j1 =? j2) eqn:E; [|destruct (j1 <? j2)].
  - apply Z.eqb_eq in E. subst j2. destruct H as [H|H].
    + subst x. split; left; reflexivity.
    + apply IHa in H. destruct H as [H1 H2]. split; right; assumption.
  - apply IHa in H. destruct H as [H1 H2]. split; [right|]; assumption.
  - apply IHb in H. destruct H as [H1 H2]. split; [|right]; assumption.
Qed.

Lemma inter_l_gt : forall lo a b, all_gt lo a -> all_gt lo (inter_l a b).
Proof.
  intros lo a b Ha. apply Forall_forall. intros x Hx. apply inter_l_sub in Hx.
  unfold all_gt in Ha. rewrite Forall_forall in Ha. apply Ha. tauto.
Qed.

Lemma inter_l_incr : forall a b, incr a -> incr (inter_l a b).
Proof.
  induction a as [|j1 a' IHa]; intros b Ha; [simpl; constructor|].
  induction b as [|j2 b' IHb]; [rewrite inter_l_nil_r; constructor|].
  rewrite inter_l_cons.
  destruct (j1 =? j2); [|destruct (j1 <? j2)]; auto.
  - constructor. apply IHa. eapply incr_tail; eauto. apply inter_l_gt. apply incr_head; auto.
  - apply IHa. eapply incr_tail; eauto.
Qed.

(* capacity of the buffers the code allocates *)
Lemma union_capacity : forall a b, incr a -> incr b -> (length (union_l a b) <= length (arr_union a b))%nat.
Proof.
  intros a b Ha Hb. destruct a as [|x a]; [simpl; lia|]. destruct b as [|y b]; [simpl; lia|].
  unfold arr_union. apply NoDup_incl_length.
  - apply incr_NoDup. apply union_l_incr; auto.
  - intros z Hz. apply arr_unique_in. apply union_l_incl. exact Hz.
Qed.

Lemma inter_capacity : forall a b, incr a -> incr b -> (length (inter_l a b) <= length (arr_intersect a b))%nat.
Proof.
  intros a b Ha Hb. unfold arr_intersect. apply NoDup_incl_length.
  - apply incr_NoDup. apply inter_l_incr; auto.
  - intros z Hz. apply inter_l_sub in Hz. destruct Hz as [Hza Hzb].
    apply adj_equal_twice. apply sortZ_sorted.
    assert (Hp : Permutation (a ++ b) (sortZ (a ++ b))) by apply sortZ_perm.
    rewrite (Permutation_count_occ Z.eq_dec) in Hp. rewrite <- Hp. rewrite count_occ_app.
    apply (count_occ_In Z.eq_dec) in Hza. apply (count_occ_In Z.eq_dec) in Hzb. lia.
Qed.

Section Values.
  Variable T : Type.
  Variables (zero : T) (add mul : T -> T -> T) (opp : T -> T) (eqz : T -> bool).
  Variable eqT : T -> T -> Prop.
  Hypothesis eqT_refl : forall x, eqT x x.
  Hypothesis eqT_sym : forall x y, eqT x y -> eqT y x.
  Hypothesis eqT_trans : forall x y z, eqT x y -> eqT y z -> eqT x z.
  Hypothesis eqz_spec : forall x, eqz x = true <-> eqT x zero.
  Hypothesis add_zero_r : forall x, eqT (add x zero) x.
  Hypothesis add_zero_l : forall x, eqT (add zero x) x.
  Hypothesis mul_zero_r : forall x, eqT (mul x zero) zero.
  Hypothesis mul_zero_l : forall x, eqT (mul zero x) zero.

  (* SPEC side: the dense vector a sparse encoding denotes, pointwise *)
  Fixpoint lookup (k : Z) (l : list (Z * T)) : T :=
    match l with
    | [] => zero
    | (j, v) :: t => if j =? k then v else lookup k t
    end.
  Definition dense (ind : list Z) (data : list T) (k : Z) : T := lookup k (combine ind data).

  Definition cons_nz (j : Z) (v : T) (l : list (Z * T)) := if eqz v then l else (j, v) :: l.
  Definition filter_nz (l : list (Z * T)) := filter (fun p => negb (eqz (snd p))) l.

  Fixpoint msum (a : list (Z * T)) : list (Z * T) -> list (Z * T) :=
    match a with
    | [] => fun b => filter_nz b
    | (j1, d1) :: a' =>
      fix inner (b : list (Z * T)) : list (Z * T) :=
        match b with
        | [] => filter_nz a
        | (j2, d2) :: b' =>
          if j1 =? j2 then cons_nz j1 (add d1 d2) (msum a' b')
          else if j1 <? j2 then cons_nz j1 d1 (msum a' b)
          else cons_nz j2 d2 (inner b')
        end
    end.

  Fixpoint mmul (a : list (Z * T)) : list (Z * T) -> list (Z * T) :=
    match a with
    | [] => fun _ => []
    | (j1, d1) :: a' =>
      fix inner (b : list (Z * T)) : list (Z * T) :=
        match b with
        | [] => []
        | (j2, d2) :: b' =>
          if j1 =? j2 then cons_nz j1 (mul d1 d2) (mmul a' b')
          else if j1 <? j2 then mmul a' b
          else inner b'
        end
    end.

  Lemma msum_nil_r : forall a, msum a [] = filter_nz a.
  Proof. destruct a as [|[j d] a]; reflexivity. Qed.
  Lemma msum_cons : forall j1 d1 a' j2 d2 b',
    msum ((j1, d1) :: a') ((j2, d2) :: b') =
    if j1 =? j2 then cons_nz j1 (add d1 d2) (msum a' b')
    else if j1 <? j2 then cons_nz j1 d1 (msum a' ((j2, d2) :: b'))
    else cons_nz j2 d2 (msum ((j1, d1) :: a') b').
  Proof. reflexivity. Qed.
  Lemma mmul_nil_r : forall a, mmul a [] = [].
  Proof. destruct a as [|[j d] a]; reflexivity. Qed.
  Lemma mmul_cons : forall j1 d1 a' j2 d2 b',
    mmul ((j1, d1) :: a') ((j2, d2) :: b') =
    if j1 =? j2 then cons_nz j1 (mul d1 d2) (mmul a' b')
    else if j1 <? j2 then mmul a' ((j2, d2) :: b')
    else mmul ((j1, d1) :: a') b'.
  Proof. reflexivity. Qed.

  Definition incrP (l : list (Z * T)) : Prop := incr (map fst l).
  Definition gtP (lo : Z) (l : list (Z * T)) : Prop := all_gt lo (map fst l).
  Definition nonzero (l : list (Z * T)) : Prop := Forall (fun p => eqz (snd p) = false) l.

  Lemma lookup_gt : forall lo l k, gtP lo l -> k <= lo -> lookup k l = zero.
  Proof.
    induction l as [|[j v] t IH]; intros k H Hk; simpl; auto.
    inversion H; subst. destruct (j =? k) eqn:E; [apply Z.eqb_eq in E; lia|]. apply IH; auto.
  Qed.

  Lemma gtP_cons_nz : forall lo j v l, lo < j -> gtP lo l -> gtP lo (cons_nz j v l).
  Proof. intros. unfold cons_nz. destruct (eqz v); auto. constructor; auto. Qed.
  Lemma gtP_filter_nz : forall lo l, gtP lo l -> gtP lo (filter_nz l).
  Proof.
    induction l as [|[j v] t IH]; intros H; simpl; auto. inversion H; subst.
    destruct (negb (eqz v)); simpl.
    - constructor; [assumption|apply IH; assumption].
    - apply IH; assumption.
  Qed.
  Lemma gtP_weaken : forall lo lo' l, lo' <= lo -> gtP lo l -> gtP lo' l.
  Proof. intros. eapply Forall_impl; [|eassumption]. intros; simpl in *; lia. Qed.

  Lemma incrP_cons_nz : forall j v l, gtP j l -> incrP l -> incrP (cons_nz j v l).
  Proof. intros. unfold cons_nz. destruct (eqz v); auto. constructor; auto. Qed.
  Lemma incrP_filter_nz : forall l, incrP l -> incrP (filter_nz l).
  Proof.
    induction l as [|[j v] t IH]; intros H; simpl; auto.
    pose proof (incr_tail _ _ H). pose proof (incr_head _ _ H).
    destruct (negb (eqz v)); simpl.
    - constructor; [apply IH; assumption|apply gtP_filter_nz; assumption].
    - apply IH; assumption.
  Qed.

  Lemma msum_gt : forall lo a b, gtP lo a -> gtP lo b -> gtP lo (msum a b).
  Proof.
    induction a as [|[j1 d1] a' IHa]; intros b Ha Hb; [simpl; apply gtP_filter_nz; auto|].
    induction b as [|[j2 d2] b' IHb]; [rewrite msum_nil_r; apply gtP_filter_nz; auto|].
    rewrite msum_cons. inversion Ha; subst. inversion Hb; subst.
    destruct (j1 =? j2); [|destruct (j1 <? j2)]; apply gtP_cons_nz; auto.
  Qed.

  Lemma msum_incr : forall a b, incrP a -> incrP b -> incrP (msum a b).
  Proof.
    induction a as [|[j1 d1] a' IHa]; intros b Ha Hb; [simpl; apply incrP_filter_nz; auto|].
    induction b as [|[j2 d2] b' IHb]; [rewrite msum_nil_r; apply incrP_filter_nz; auto|].
    rewrite msum_cons.
    pose proof (incr_tail _ _ Ha) as Ha'. pose proof (incr_head _ _ Ha) as Hha.
    pose proof (incr_tail _ _ Hb) as Hb'. pose proof (incr_head _ _ Hb) as Hhb.
    destruct (j1 =? j2) eqn:E; [|destruct (j1 <? j2) eqn:E2].
    - apply Z.eqb_eq in E; subst. apply incrP_cons_nz; [apply msum_gt; auto|apply IHa; auto].
    - apply Z.ltb_lt in E2. apply incrP_cons_nz; [|apply IHa; auto]. apply msum_gt; auto.
      constructor; auto. apply gtP_weaken with j2; [lia|]. exact Hhb.
    - apply Z.eqb_neq in E. apply Z.ltb_ge in E2. apply incrP_cons_nz; [|apply IHb; auto]. apply msum_gt; auto.
      constructor; [simpl; lia|]. apply gtP_weaken with j1; [lia|]. exact Hha.
  Qed.

  Lemma nonzero_cons_nz : forall j v l, nonzero l -> nonzero (cons_nz j v l).
  Proof. intros. unfold cons_nz. destruct (eqz v) eqn:E; auto. constructor; auto. Qed.
  Lemma nonzero_filter_nz : forall l, nonzero (filter_nz l).
  Proof.
    intros l. apply Forall_forall. intros p Hp. apply filter_In in Hp. destruct Hp as [_ Hp].
    destruct (eqz (snd p)); simpl in *; congruence.
  Qed.
  Lemma msum_nonzero : forall a b, nonzero (msum a b).
  Proof.
    induction a as [|[j1 d1] a' IHa]; intros b; [simpl; apply nonzero_filter_nz|].
    induction b as [|[j2 d2] b' IHb]; [rewrite msum_nil_r; apply nonzero_filter_nz|].
    rewrite msum_cons. destruct (j1 =? j2); [|destruct (j1 <? j2)]; apply nonzero_cons_nz; auto.
  Qed.

  Lemma lookup_cons_nz_eq : forall j v l, gtP j l -> eqT (lookup j (cons_nz j v l)) v.
  Proof.
    intros j v l H. unfold cons_nz. destruct (eqz v) eqn:E.
    - rewrite (lookup_gt j l j H) by lia. apply eqT_sym. apply eqz_spec. exact E.
    - simpl. rewrite Z.eqb_refl. apply eqT_refl.
  Qed.
  Lemma lookup_cons_nz_neq : forall j v l k, j <> k -> lookup k (cons_nz j v l) = lookup k l.
  Proof.
    intros. unfold cons_nz. destruct (eqz v); auto. simpl.
    destruct (j =? k) eqn:E; auto. apply Z.eqb_eq in E. contradiction.
  Qed.

  Lemma lookup_filter_nz : forall l k, incrP l -> eqT (lookup k (filter_nz l)) (lookup k l).
  Proof.
    induction l as [|[j v] t IH]; intros k H; simpl; [apply eqT_refl|].
    pose proof (incr_tail _ _ H) as Ht. pose proof (incr_head _ _ H) as Hh.
    destruct (eqz v) eqn:E; simpl.
    - destruct (j =? k) eqn:Ek.
      + apply Z.eqb_eq in Ek; subst. rewrite (lookup_gt k (filter_nz t) k) by (try lia; apply gtP_filter_nz; exact Hh).
        apply eqT_sym. apply eqz_spec. exact E.
      + apply IH; auto.
    - destruct (j =? k); [apply eqT_refl|apply IH; auto].
  Qed.

  Lemma msum_lookup : forall a b k, incrP a -> incrP b ->
    eqT (lookup k (msum a b)) (add (lookup k a) (lookup k b)).
  Proof.
    induction a as [|[j1 d1] a' IHa]; intros b k Ha Hb.
    - simpl. eapply eqT_trans; [apply lookup_filter_nz; auto|]. apply eqT_sym. apply add_zero_l.
    - induction b as [|[j2 d2] b' IHb].
      + rewrite msum_nil_r. eapply eqT_trans; [apply lookup_filter_nz; auto|]. apply eqT_sym. apply add_zero_r.
      + rewrite msum_cons.
        pose proof (incr_tail _ _ Ha) as Ha'. pose proof (incr_head _ _ Ha) as Hha.
        pose proof (incr_tail _ _ Hb) as Hb'. pose proof (incr_head _ _ Hb) as Hhb.
        destruct (j1 =? j2) eqn:E; [|destruct (j1 <? j2) eqn:E2].
        * apply Z.eqb_eq in E; subst j2. simpl lookup at 2 3.
          destruct (j1 =? k) eqn:Ek.
          -- apply Z.eqb_eq in Ek; subst k. apply lookup_cons_nz_eq. apply msum_gt; auto.
          -- apply Z.eqb_neq in Ek. rewrite lookup_cons_nz_neq by auto. apply IHa; auto.
        * apply Z.ltb_lt in E2. simpl lookup at 2.
          destruct (j1 =? k) eqn:Ek.
          -- apply Z.eqb_eq in Ek; subst k.
             assert (Hg : gtP j1 ((j2, d2) :: b')).
             { constructor; [simpl; lia|apply gtP_weaken with j2; [lia|exact Hhb]]. }
             rewrite (lookup_gt j1 ((j2, d2) :: b') j1 Hg) by lia.
             eapply eqT_trans; [apply lookup_cons_nz_eq|apply eqT_sym; apply add_zero_r].
             apply msum_gt; auto.
          -- apply Z.eqb_neq in Ek. rewrite lookup_cons_nz_neq by auto. apply IHa; auto.
        * apply Z.eqb_neq in E. apply Z.ltb_ge in E2. simpl lookup at 3.
          destruct (j2 =? k) eqn:Ek.
          -- apply Z.eqb_eq in Ek; subst k.
             assert (Hg : gtP j2 ((j1, d1) :: a')).
             { constructor; [simpl; lia|apply gtP_weaken with j1; [lia|exact Hha]]. }
             rewrite (lookup_gt j2 ((j1, d1) :: a') j2 Hg) by lia.
             eapply eqT_trans; [apply lookup_cons_nz_eq|apply eqT_sym; apply add_zero_l].
             apply msum_gt; auto.
          -- apply Z.eqb_neq in Ek. rewrite lookup_cons_nz_neq by auto. apply IHb; auto.
  Qed.

  (* ---- product *)
  Lemma mmul_gt : forall lo a b, gtP lo a -> gtP lo (mmul a b).
  Proof.
    induction a as [|[j1 d1] a' IHa]; intros b Ha; [simpl; constructor|].
    induction b as [|[j2 d2] b' IHb]; [rewrite mmul_nil_r; constructor|].
    rewrite mmul_cons. inversion Ha; subst.
    destruct (j1 =? j2); [|destruct (j1 <? j2)].
    - apply gtP_cons_nz; [assumption|apply IHa; assumption].
    - apply IHa; assumption.
    - apply IHb.
  Qed.

  Lemma mmul_incr : forall a b, incrP a -> incrP (mmul a b).
  Proof.
    induction a as [|[j1 d1] a' IHa]; intros b Ha; [simpl; constructor|].
    induction b as [|[j2 d2] b' IHb]; [rewrite mmul_nil_r; constructor|].
    rewrite mmul_cons.
    pose proof (incr_tail _ _ Ha) as Ha'. pose proof (incr_head _ _ Ha) as Hha.
    destruct (j1 =? j2); [|destruct (j1 <? j2)].
    - apply incrP_cons_nz; [apply mmul_gt; exact Hha|apply IHa; exact Ha'].
    - apply IHa; exact Ha'.
    - apply IHb.
  Qed.

  Lemma mmul_nonzero : forall a b, nonzero (mmul a b).
  Proof.
    induction a as [|[j1 d1] a' IHa]; intros b; [simpl; constructor|].
    induction b as [|[j2 d2] b' IHb]; [rewrite mmul_nil_r; constructor|].
    rewrite mmul_cons. destruct (j1 =? j2); [|destruct (j1 <? j2)].
    - apply nonzero_cons_nz. apply IHa.
    - apply IHa.
    - apply IHb.
  Qed.

  Lemma mmul_lookup : forall a b k, incrP a -> incrP b ->
    eqT (lookup k (mmul a b)) (mul (lookup k a) (lookup k b)).
  Proof.
    induction a as [|[j1 d1] a' IHa]; intros b k Ha Hb.
    - simpl. apply eqT_sym. apply mul_zero_l.
    - induction b as [|[j2 d2] b' IHb].
      + rewrite mmul_nil_r. simpl lookup at 1 3. apply eqT_sym. apply mul_zero_r.
      + rewrite mmul_cons.
        pose proof (incr_tail _ _ Ha) as Ha'. pose proof (incr_head _ _ Ha) as Hha.
        pose proof (incr_tail _ _ Hb) as Hb'. pose proof (incr_head _ _ Hb) as Hhb.
        destruct (j1 =? j2) eqn:E; [|destruct (j1 <? j2) eqn:E2].
        * apply Z.eqb_eq in E; subst j2. simpl lookup at 2 3.
          destruct (j1 =? k) eqn:Ek.
          -- apply Z.eqb_eq in Ek; subst k. apply lookup_cons_nz_eq. apply mmul_gt; auto.
          -- apply Z.eqb_neq in Ek. rewrite lookup_cons_nz_neq by auto. apply IHa; auto.
        * apply Z.ltb_lt in E2. simpl lookup at 2.
          destruct (j1 =? k) eqn:Ek.
          -- apply Z.eqb_eq in Ek; subst k.
             assert (Hg : gtP j1 ((j2, d2) :: b')).
             { constructor; [simpl; lia|apply gtP_weaken with j2; [lia|exact Hhb]]. }
             rewrite (lookup_gt j1 ((j2, d2) :: b') j1 Hg) by lia.
             rewrite (lookup_gt j1 (mmul a' ((j2, d2) :: b')) j1) by (try lia; apply mmul_gt; exact Hha).
             apply eqT_sym. apply mul_zero_r.
          -- apply IHa; auto.
        * apply Z.eqb_neq in E. apply Z.ltb_ge in E2. simpl lookup at 3.
          destruct (j2 =? k) eqn:Ek.
          -- apply Z.eqb_eq in Ek; subst k.
             assert (Hg : gtP j2 ((j1, d1) :: a')).
             { constructor; [simpl; lia|apply gtP_weaken with j1; [lia|exact Hha]]. }
             rewrite (lookup_gt j2 ((j1, d1) :: a') j2 Hg) by lia.
             rewrite (lookup_gt j2 (mmul ((j1, d1) :: a') b') j2) by (try lia; apply mmul_gt; exact Hg).
             apply eqT_sym. apply mul_zero_l.
          -- apply IHb; auto.
  Qed.

  (* ---- dense_union at list level *)
  Definition cons_nz2 (val : T) (p : T * T) (l : list (T * T)) := if eqz val then l else p :: l.
  Fixpoint munion (a : list (Z * T)) : list (Z * T) -> list (T * T) :=
    match a with
    | [] => fun b => map (fun p => (zero, snd p)) (filter_nz b)
    | (j1, d1) :: a' =>
      fix inner (b : list (Z * T)) : list (T * T) :=
        match b with
        | [] => map (fun p => (snd p, zero)) (filter_nz a)
        | (j2, d2) :: b' =>
          if j1 =? j2 then cons_nz2 (add d1 d2) (d1, d2) (munion a' b')
          else if j1 <? j2 then cons_nz2 d1 (d1, zero) (munion a' b)
          else cons_nz2 d2 (zero, d2) (inner b')
        end
    end.
  Lemma munion_nil_r : forall a, munion a [] = map (fun p => (snd p, zero)) (filter_nz a).
  Proof. destruct a as [|[j d] a]; reflexivity. Qed.
  Lemma munion_cons : forall j1 d1 a' j2 d2 b',
    munion ((j1, d1) :: a') ((j2, d2) :: b') =
    if j1 =? j2 then cons_nz2 (add d1 d2) (d1, d2) (munion a' b')
    else if j1 <? j2 then cons_nz2 d1 (d1, zero) (munion a' ((j2, d2) :: b'))
    else cons_nz2 d2 (zero, d2) (munion ((j1, d1) :: a') b').
  Proof. reflexivity. Qed.

  Definition pairs_at (a b : list (Z * T)) (ks : list Z) : list (T * T) :=
    map (fun k => (lookup k a, lookup k b)) ks.

  Lemma pairs_at_cons : forall a b k ks, pairs_at a b (k :: ks) = (lookup k a, lookup k b) :: pairs_at a b ks.
  Proof. reflexivity. Qed.
  Lemma lookup_head : forall j v l, lookup j ((j, v) :: l) = v.
  Proof. intros. simpl. rewrite Z.eqb_refl. reflexivity. Qed.
  Lemma pairs_at_skip_l : forall j d a b ks, all_gt j ks -> pairs_at ((j, d) :: a) b ks = pairs_at a b ks.
  Proof.
    intros. unfold pairs_at. apply map_ext_in. intros k Hk. unfold all_gt in H. rewrite Forall_forall in H.
    specialize (H _ Hk). simpl. destruct (j =? k) eqn:E; [apply Z.eqb_eq in E; lia|reflexivity].
  Qed.
  Lemma pairs_at_skip_r : forall j d a b ks, all_gt j ks -> pairs_at a ((j, d) :: b) ks = pairs_at a b ks.
  Proof.
    intros. unfold pairs_at. apply map_ext_in. intros k Hk. unfold all_gt in H. rewrite Forall_forall in H.
    specialize (H _ Hk). simpl. destruct (j =? k) eqn:E; [apply Z.eqb_eq in E; lia|reflexivity].
  Qed.

  Lemma lookup_filter_self : forall l, incrP l ->
    map (fun k => lookup k l) (map fst (filter_nz l)) = map snd (filter_nz l).
  Proof.
    induction l as [|[j v] t IH]; intros H; simpl; auto.
    pose proof (incr_tail _ _ H) as Ht. pose proof (incr_head _ _ H) as Hh.
    assert (Hskip : map (fun k => if j =? k then v else lookup k t) (map fst (filter_nz t))
                    = map (fun k => lookup k t) (map fst (filter_nz t))).
    { apply map_ext_in. intros k Hk. pose proof (gtP_filter_nz j t Hh) as Hg.
      unfold gtP, all_gt in Hg. rewrite Forall_forall in Hg. specialize (Hg _ Hk).
      destruct (j =? k) eqn:E; [apply Z.eqb_eq in E; lia|reflexivity]. }
    destruct (negb (eqz v)); simpl.
    - rewrite Z.eqb_refl. f_equal. rewrite Hskip. apply IH; auto.
    - rewrite Hskip. apply IH; auto.
  Qed.

  Lemma lookup_nil_map : forall ks, map (fun k => lookup k []) ks = map (fun _ => zero) ks.
  Proof. reflexivity. Qed.

  Lemma munion_spec : forall a b, incrP a -> incrP b ->
    munion a b = pairs_at a b (map fst (msum a b)).
  Proof.
    induction a as [|[j1 d1] a' IHa]; intros b Ha Hb.
    - simpl. transitivity (map (fun v => (zero, v)) (map snd (filter_nz b))); [rewrite map_map; reflexivity|].
      rewrite <- (lookup_filter_self b Hb). unfold pairs_at. rewrite !map_map. reflexivity.
    - induction b as [|[j2 d2] b' IHb].
      + rewrite munion_nil_r, msum_nil_r.
        transitivity (map (fun v => (v, zero)) (map snd (filter_nz ((j1, d1) :: a')))); [rewrite map_map; reflexivity|].
        rewrite <- (lookup_filter_self _ Ha). unfold pairs_at. rewrite !map_map. reflexivity.
      + rewrite munion_cons, msum_cons.
        pose proof (incr_tail _ _ Ha) as Ha'. pose proof (incr_head _ _ Ha) as Hha.
        pose proof (incr_tail _ _ Hb) as Hb'. pose proof (incr_head _ _ Hb) as Hhb.
        destruct (j1 =? j2) eqn:E; [|destruct (j1 <? j2) eqn:E2].
        * apply Z.eqb_eq in E; subst j2.
          assert (Hg : all_gt j1 (map fst (msum a' b'))) by (apply msum_gt; auto).
          unfold cons_nz2, cons_nz. destruct (eqz (add d1 d2)).
          -- rewrite pairs_at_skip_l; [|exact Hg]. rewrite pairs_at_skip_r; [|exact Hg]. apply IHa; auto.
          -- change (map fst ((j1, add d1 d2) :: msum a' b')) with (j1 :: map fst (msum a' b')).
             rewrite pairs_at_cons, !lookup_head. f_equal.
             rewrite pairs_at_skip_l; [|exact Hg]. rewrite pairs_at_skip_r; [|exact Hg]. apply IHa; auto.
        * apply Z.ltb_lt in E2.
          assert (Hgb : gtP j1 ((j2, d2) :: b')).
          { constructor; [simpl; lia|apply gtP_weaken with j2; [lia|exact Hhb]]. }
          assert (Hg : all_gt j1 (map fst (msum a' ((j2, d2) :: b')))) by (apply msum_gt; auto).
          unfold cons_nz2, cons_nz. destruct (eqz d1).
          -- rewrite pairs_at_skip_l; [|exact Hg]. apply IHa; auto.
          -- change (map fst ((j1, d1) :: msum a' ((j2, d2) :: b'))) with (j1 :: map fst (msum a' ((j2, d2) :: b'))).
             rewrite pairs_at_cons, lookup_head. rewrite (lookup_gt j1 _ j1 Hgb) by lia. f_equal.
             rewrite pairs_at_skip_l; [|exact Hg]. apply IHa; auto.
        * apply Z.eqb_neq in E. apply Z.ltb_ge in E2.
          assert (Hga : gtP j2 ((j1, d1) :: a')).
          { constructor; [simpl; lia|apply gtP_weaken with j1; [lia|exact Hha]]. }
          assert (Hg : all_gt j2 (map fst (msum ((j1, d1) :: a') b'))) by (apply msum_gt; auto).
          unfold cons_nz2, cons_nz. destruct (eqz d2).
          -- rewrite pairs_at_skip_r; [|exact Hg]. apply IHb; auto.
          -- change (map fst ((j2, d2) :: msum ((j1, d1) :: a') b')) with (j2 :: map fst (msum ((j1, d1) :: a') b')).
             rewrite pairs_at_cons, lookup_head. rewrite (lookup_gt j2 _ j2 Hga) by lia. f_equal.
             rewrite pairs_at_skip_r; [|exact Hg]. apply IHb; auto.
  Qed.
End Values.

(* ------------------------------------------------------------------ C. the index-level loops refine the merges *)
Section Refine.
  Variable T : Type.
  Variables (zero : T) (add mul : T -> T -> T) (eqz : T -> bool).

  Notation cons_nz := (cons_nz T eqz).
  Notation filter_nz := (filter_nz T eqz).
  Notation msum := (msum T add eqz).
  Notation mmul := (mmul T mul eqz).
  Notation emit := (emit T eqz).

  Definition suf (ind : list Z) (data : list T) (i : nat) : list (Z * T) := combine (skipn i ind) (skipn i data).

  Lemma suf_all : forall ind data i, (length ind <= i)%nat -> suf ind data i = [].
  Proof. intros. unfold suf. rewrite (skipn_all2 ind) by lia. reflexivity. Qed.

  Lemma suf_step : forall ind data i j d, nth_error ind i = Some j -> nth_error data i = Some d ->
    suf ind data i = (j, d) :: suf ind data (S i).
  Proof. intros. unfold suf. rewrite (nth_error_skipn _ ind i j H), (nth_error_skipn _ data i d H0). reflexivity. Qed.

  Lemma cons_nz_app : forall j v l, cons_nz j v l = cons_nz j v [] ++ l.
  Proof. intros. unfold K11_SparseVec_proofs.cons_nz. destruct (eqz v); reflexivity. Qed.

  (* the two result buffers: the entries written so far, then at least c free slots *)
  Definition bufs (out : list (Z * T)) (c : nat) (ri : list Z) (rd : list T) : Prop :=
    exists rest_i rest_d, ri = map fst out ++ rest_i /\ rd = map snd out ++ rest_d /\
                          (c <= length rest_i)%nat /\ (c <= length rest_d)%nat.

  Lemma bufs_weaken : forall out c c' ri rd, (c' <= c)%nat -> bufs out c ri rd -> bufs out c' ri rd.
  Proof. intros out c c' ri rd Hc (a & b & ? & ? & ? & ?). exists a, b. repeat split; auto; lia. Qed.

  Lemma emit_spec : forall out c ri rd j v, bufs out (S c) ri rd ->
    exists ri' rd', emit (length out) ri rd j v = Some (length (out ++ cons_nz j v []), ri', rd')
                    /\ bufs (out ++ cons_nz j v []) c ri' rd'.
  Proof.
    intros out c ri rd j v (rest_i & rest_d & -> & -> & Hi & Hd).
    unfold K11_SparseVec.emit, K11_SparseVec_proofs.cons_nz. destruct (eqz v).
    - rewrite app_nil_r. do 2 eexists. split; [reflexivity|]. exists rest_i, rest_d. repeat split; auto; lia.
    - destruct rest_i as [|x rest_i]; [simpl in Hi; lia|]. destruct rest_d as [|y rest_d]; [simpl in Hd; lia|].
      pose proof (set_nth_app _ (map fst out) x rest_i j) as H1. rewrite map_length in H1.
      pose proof (set_nth_app _ (map snd out) y rest_d v) as H2. rewrite map_length in H2.
      rewrite H1, H2.
      do 2 eexists. split.
      + rewrite app_length. simpl. rewrite Nat.add_1_r. reflexivity.
      + exists rest_i, rest_d. rewrite !map_app. simpl. rewrite <- !app_assoc. simpl in *. repeat split; auto; lia.
  Qed.

  Lemma tail_loop_spec : forall ind data, length ind = length data ->
    forall fuel i out c ri rd,
    bufs out c ri rd -> (length ind - i <= fuel)%nat -> (length ind - i <= c)%nat ->
    exists ri' rd',
      tail_loop T eqz fuel ind data i (length out) ri rd
      = Some (length (out ++ filter_nz (suf ind data i)), ri', rd')
      /\ bufs (out ++ filter_nz (suf ind data i)) (c - (length ind - i)) ri' rd'.
  Proof.
    intros ind data Hlen. induction fuel as [|f IH]; intros i out c ri rd Hb Hf Hc.
    - simpl. rewrite suf_all by lia. simpl. rewrite app_nil_r. do 2 eexists. split; [reflexivity|].
      eapply bufs_weaken; [|exact Hb]. lia.
    - simpl. destruct (i <? length ind)%nat eqn:E.
      + apply Nat.ltb_lt in E.
        destruct (nth_error_lt_some _ ind i E) as [j Hj].
        destruct (nth_error_lt_some _ data i ltac:(lia)) as [d Hd].
        rewrite Hd, Hj. rewrite (suf_step ind data i j d Hj Hd).
        destruct c as [|c]; [lia|].
        destruct (emit_spec out c ri rd j d Hb) as (ri1 & rd1 & He & Hb1). rewrite He.
        destruct (IH (S i) _ c ri1 rd1 Hb1 ltac:(lia) ltac:(lia)) as (ri2 & rd2 & Ht & Hb2).
        rewrite Ht. exists ri2, rd2.
        assert (Hout : (out ++ cons_nz j d []) ++ filter_nz (suf ind data (S i))
                       = out ++ filter_nz ((j, d) :: suf ind data (S i))).
        { rewrite <- app_assoc. f_equal. unfold K11_SparseVec_proofs.filter_nz, K11_SparseVec_proofs.cons_nz. simpl.
          destruct (eqz d); reflexivity. }
        rewrite Hout in *. split; [reflexivity|]. eapply bufs_weaken; [|exact Hb2]. lia.
      + apply Nat.ltb_ge in E. rewrite suf_all by lia. simpl. rewrite app_nil_r. do 2 eexists. split; [reflexivity|].
        eapply bufs_weaken; [|exact Hb]. lia.
  Qed.

  Section Two.
    Variables (ind1 : list Z) (data1 : list T) (ind2 : list Z) (data2 : list T).
    Hypothesis Hlen1 : length ind1 = length data1.
    Hypothesis Hlen2 : length ind2 = length data2.

    Lemma sum_main_spec : forall fuel i1 i2 out c ri rd,
      bufs out c ri rd ->
      ((length ind1 - i1) + (length ind2 - i2) <= fuel)%nat ->
      (length (union_l (skipn i1 ind1) (skipn i2 ind2)) <= c)%nat ->
      exists i1' i2' ri' rd' c' outm,
        sum_main T add eqz ind1 data1 ind2 data2 fuel i1 i2 (length out) ri rd
        = Some (i1', i2', length (out ++ outm), ri', rd')
        /\ bufs (out ++ outm) c' ri' rd'
        /\ outm ++ filter_nz (suf ind1 data1 i1') ++ filter_nz (suf ind2 data2 i2')
           = msum (suf ind1 data1 i1) (suf ind2 data2 i2)
        /\ ((length ind1 - i1') + (length ind2 - i2') <= c')%nat
        /\ ((length ind1 <= i1')%nat \/ (length ind2 <= i2')%nat).
    Proof.
      induction fuel as [|f IH]; intros i1 i2 out c ri rd Hb Hf Hc.
      - simpl. exists i1, i2, ri, rd, c, []. rewrite app_nil_r.
        rewrite (suf_all ind1 data1 i1), (suf_all ind2 data2 i2) by lia. simpl.
        repeat split; auto; try lia.
      - simpl. destruct ((i1 <? length ind1)%nat && (i2 <? length ind2)%nat) eqn:E.
        + apply andb_true_iff in E. destruct E as [E1 E2]. apply Nat.ltb_lt in E1, E2.
          destruct (nth_error_lt_some _ ind1 i1 E1) as [j1 Hj1].
          destruct (nth_error_lt_some _ ind2 i2 E2) as [j2 Hj2].
          destruct (nth_error_lt_some _ data1 i1 ltac:(lia)) as [d1 Hd1].
          destruct (nth_error_lt_some _ data2 i2 ltac:(lia)) as [d2 Hd2].
          rewrite Hj1, Hj2.
          rewrite (suf_step ind1 data1 i1 j1 d1 Hj1 Hd1), (suf_step ind2 data2 i2 j2 d2 Hj2 Hd2).
          rewrite (nth_error_skipn _ ind1 i1 j1 Hj1), (nth_error_skipn _ ind2 i2 j2 Hj2) in Hc.
          rewrite union_l_cons in Hc. rewrite msum_cons.
          destruct (j1 =? j2) eqn:Ej; [|destruct (j1 <? j2) eqn:El].
          * rewrite Hd1, Hd2. cbn [length] in Hc. destruct c as [|c]; [lia|].
            destruct (emit_spec out c ri rd j1 (add d1 d2) Hb) as (ri1 & rd1 & He & Hb1). rewrite He.
            destruct (IH (S i1) (S i2) _ c ri1 rd1 Hb1 ltac:(lia) ltac:(lia))
              as (i1' & i2' & ri' & rd' & c' & outm & Hm & Hb' & Hout & Hcap & Hend).
            exists i1', i2', ri', rd', c', (cons_nz j1 (add d1 d2) [] ++ outm).
            rewrite app_assoc. repeat split; auto.
            rewrite <- app_assoc, Hout. symmetry. apply cons_nz_app.
          * rewrite Hd1. cbn [length] in Hc. destruct c as [|c]; [lia|].
            destruct (emit_spec out c ri rd j1 d1 Hb) as (ri1 & rd1 & He & Hb1). rewrite He.
            assert (Hc' : (length (union_l (skipn (S i1) ind1) (skipn i2 ind2)) <= c)%nat).
            { rewrite (nth_error_skipn _ ind2 i2 j2 Hj2). lia. }
            destruct (IH (S i1) i2 _ c ri1 rd1 Hb1 ltac:(lia) Hc')
              as (i1' & i2' & ri' & rd' & c' & outm & Hm & Hb' & Hout & Hcap & Hend).
            exists i1', i2', ri', rd', c', (cons_nz j1 d1 [] ++ outm).
            rewrite app_assoc. repeat split; auto.
            rewrite <- app_assoc, Hout. rewrite (suf_step ind2 data2 i2 j2 d2 Hj2 Hd2). symmetry. apply cons_nz_app.
          * rewrite Hd2. cbn [length] in Hc. destruct c as [|c]; [lia|].
            destruct (emit_spec out c ri rd j2 d2 Hb) as (ri1 & rd1 & He & Hb1). rewrite He.
            assert (Hc' : (length (union_l (skipn i1 ind1) (skipn (S i2) ind2)) <= c)%nat).
            { rewrite (nth_error_skipn _ ind1 i1 j1 Hj1). lia. }
            destruct (IH i1 (S i2) _ c ri1 rd1 Hb1 ltac:(lia) Hc')
              as (i1' & i2' & ri' & rd' & c' & outm & Hm & Hb' & Hout & Hcap & Hend).
            exists i1', i2', ri', rd', c', (cons_nz j2 d2 [] ++ outm).
            rewrite app_assoc. repeat split; auto.
            rewrite <- app_assoc, Hout. rewrite (suf_step ind1 data1 i1 j1 d1 Hj1 Hd1). symmetry. apply cons_nz_app.
        + exists i1, i2, ri, rd, c, []. rewrite app_nil_r. simpl.
          apply andb_false_iff in E. destruct E as [E|E]; apply Nat.ltb_ge in E.
          * rewrite (suf_all ind1 data1 i1) by lia. simpl.
            rewrite (skipn_all2 ind1) in Hc by lia. simpl in Hc. rewrite skipn_length in Hc.
            repeat split; auto; lia.
          * rewrite (suf_all ind2 data2 i2) by lia. rewrite msum_nil_r. simpl. rewrite app_nil_r.
            rewrite (skipn_all2 ind2) in Hc by lia. rewrite union_l_nil_r in Hc. rewrite skipn_length in Hc.
            repeat split; auto; lia.
    Qed.
  End Two.

  Lemma bufs_firstn : forall out c ri rd, bufs out c ri rd ->
    firstn (length out) ri = map fst out /\ firstn (length out) rd = map snd out.
  Proof.
    intros out c ri rd (a & b & -> & -> & _ & _). split.
    - rewrite <- (map_length fst out). apply firstn_app_exact.
    - rewrite <- (map_length snd out). apply firstn_app_exact.
  Qed.

  Lemma bufs_init : forall n (ri0 : list Z), length ri0 = n -> bufs [] n ri0 (repeat zero n).
  Proof. intros. exists ri0, (repeat zero n). simpl. rewrite repeat_length. repeat split; auto; lia. Qed.

  Theorem sparse_sum_refines : forall ind1 data1 ind2 data2,
    length ind1 = length data1 -> length ind2 = length data2 ->
    (length (union_l ind1 ind2) <= length (arr_union ind1 ind2))%nat ->
    sparse_sum T zero add eqz ind1 data1 ind2 data2
    = Some (map fst (msum (combine ind1 data1) (combine ind2 data2)),
            map snd (msum (combine ind1 data1) (combine ind2 data2))).
  Proof.
    intros ind1 data1 ind2 data2 H1 H2 Hcap. unfold sparse_sum.
    pose proof (bufs_init _ (arr_union ind1 ind2) eq_refl) as Hb0.
    destruct (sum_main_spec ind1 data1 ind2 data2 H1 H2 (length ind1 + length ind2) 0 0 [] _ _ _ Hb0
                ltac:(lia) ltac:(simpl; exact Hcap))
      as (i1' & i2' & ri' & rd' & c' & outm & Hm & Hb' & Hout & Hc' & Hend).
    simpl length in Hm. rewrite Hm. simpl app in *.
    destruct (tail_loop_spec ind1 data1 H1 (length ind1) i1' outm c' ri' rd' Hb' ltac:(lia) ltac:(lia))
      as (ri1 & rd1 & Ht1 & Hb1). rewrite Ht1.
    destruct (tail_loop_spec ind2 data2 H2 (length ind2) i2' _ _ ri1 rd1 Hb1 ltac:(lia) ltac:(lia))
      as (ri2 & rd2 & Ht2 & Hb2). rewrite Ht2.
    destruct (bufs_firstn _ _ _ _ Hb2) as [Hf1 Hf2]. rewrite Hf1, Hf2.
    rewrite <- app_assoc, Hout. unfold suf. simpl. reflexivity.
  Qed.

  Lemma mul_main_spec : forall ind1 data1 ind2 data2,
    length ind1 = length data1 -> length ind2 = length data2 ->
    forall fuel i1 i2 out c ri rd,
      bufs out c ri rd ->
      ((length ind1 - i1) + (length ind2 - i2) <= fuel)%nat ->
      (length (inter_l (skipn i1 ind1) (skipn i2 ind2)) <= c)%nat ->
      exists ri' rd' c',
        mul_main T mul eqz ind1 data1 ind2 data2 fuel i1 i2 (length out) ri rd
        = Some (length (out ++ mmul (suf ind1 data1 i1) (suf ind2 data2 i2)), ri', rd')
        /\ bufs (out ++ mmul (suf ind1 data1 i1) (suf ind2 data2 i2)) c' ri' rd'.
  Proof.
    intros ind1 data1 ind2 data2 Hlen1 Hlen2.
    induction fuel as [|f IH]; intros i1 i2 out c ri rd Hb Hf Hc.
    - simpl. exists ri, rd, c. rewrite (suf_all ind1 data1 i1) by lia. simpl. rewrite app_nil_r. auto.
    - simpl. destruct ((i1 <? length ind1)%nat && (i2 <? length ind2)%nat) eqn:E.
      + apply andb_true_iff in E. destruct E as [E1 E2]. apply Nat.ltb_lt in E1, E2.
        destruct (nth_error_lt_some _ ind1 i1 E1) as [j1 Hj1].
        destruct (nth_error_lt_some _ ind2 i2 E2) as [j2 Hj2].
        destruct (nth_error_lt_some _ data1 i1 ltac:(lia)) as [d1 Hd1].
        destruct (nth_error_lt_some _ data2 i2 ltac:(lia)) as [d2 Hd2].
        rewrite Hj1, Hj2.
        rewrite (suf_step ind1 data1 i1 j1 d1 Hj1 Hd1), (suf_step ind2 data2 i2 j2 d2 Hj2 Hd2).
        rewrite (nth_error_skipn _ ind1 i1 j1 Hj1), (nth_error_skipn _ ind2 i2 j2 Hj2) in Hc.
        rewrite inter_l_cons in Hc. rewrite mmul_cons.
        destruct (j1 =? j2) eqn:Ej; [|destruct (j1 <? j2) eqn:El].
        * rewrite Hd1, Hd2. cbn [length] in Hc. destruct c as [|c]; [lia|].
          destruct (emit_spec out c ri rd j1 (mul d1 d2) Hb) as (ri1 & rd1 & He & Hb1). rewrite He.
          destruct (IH (S i1) (S i2) _ c ri1 rd1 Hb1 ltac:(lia) ltac:(lia)) as (ri' & rd' & c' & Hm & Hb').
          exists ri', rd', c'. rewrite (cons_nz_app j1 (mul d1 d2) (mmul _ _)). rewrite app_assoc. split; assumption.
        * assert (Hc' : (length (inter_l (skipn (S i1) ind1) (skipn i2 ind2)) <= c)%nat).
          { rewrite (nth_error_skipn _ ind2 i2 j2 Hj2). lia. }
          destruct (IH (S i1) i2 out c ri rd Hb ltac:(lia) Hc') as (ri' & rd' & c' & Hm & Hb').
          exists ri', rd', c'. rewrite (suf_step ind2 data2 i2 j2 d2 Hj2 Hd2) in Hm, Hb'. split; assumption.
        * assert (Hc' : (length (inter_l (skipn i1 ind1) (skipn (S i2) ind2)) <= c)%nat).
          { rewrite (nth_error_skipn _ ind1 i1 j1 Hj1). lia. }
          destruct (IH i1 (S i2) out c ri rd Hb ltac:(lia) Hc') as (ri' & rd' & c' & Hm & Hb').
          exists ri', rd', c'. rewrite (suf_step ind1 data1 i1 j1 d1 Hj1 Hd1) in Hm, Hb'. split; assumption.
      + exists ri, rd, c.
        apply andb_false_iff in E. destruct E as [E|E]; apply Nat.ltb_ge in E.
        * rewrite (suf_all ind1 data1 i1) by lia. simpl. rewrite app_nil_r. auto.
        * rewrite (suf_all ind2 data2 i2) by lia. rewrite mmul_nil_r. rewrite app_nil_r. auto.
  Qed.

  Theorem sparse_mul_refines : forall ind1 data1 ind2 data2,
    length ind1 = length data1 -> length ind2 = length data2 ->
    (length (inter_l ind1 ind2) <= length (arr_intersect ind1 ind2))%nat ->
    sparse_mul T zero mul eqz ind1 data1 ind2 data2
    = Some (map fst (mmul (combine ind1 data1) (combine ind2 data2)),
            map snd (mmul (combine ind1 data1) (combine ind2 data2))).
  Proof.
    intros ind1 data1 ind2 data2 H1 H2 Hcap. unfold sparse_mul.
    pose proof (bufs_init _ (arr_intersect ind1 ind2) eq_refl) as Hb0.
    destruct (mul_main_spec ind1 data1 ind2 data2 H1 H2 (length ind1 + length ind2) 0 0 [] _ _ _ Hb0
                ltac:(lia) ltac:(simpl; exact Hcap))
      as (ri' & rd' & c' & Hm & Hb').
    change (length (@nil (Z * T))) with 0%nat in Hm. rewrite Hm. simpl app in *.
    destruct (bufs_firstn _ _ _ _ Hb') as [Hf1 Hf2]. rewrite Hf1, Hf2. reflexivity.
  Qed.

  (* ---- dense_union *)
  Notation munion := (munion T zero add eqz).
  Notation cons_nz2 := (cons_nz2 T eqz).

  Definition bufs2 (out : list (T * T)) (c : nat) (r1 r2 : list T) : Prop :=
    exists k, r1 = map fst out ++ repeat zero k /\ r2 = map snd out ++ repeat zero k /\ (c <= k)%nat.

  Lemma bufs2_weaken : forall out c c' r1 r2, (c' <= c)%nat -> bufs2 out c r1 r2 -> bufs2 out c' r1 r2.
  Proof. intros out c c' r1 r2 Hc (k & ? & ? & ?). exists k. repeat split; auto; lia. Qed.

  Lemma cons_nz2_app : forall v p l, cons_nz2 v p l = cons_nz2 v p [] ++ l.
  Proof. intros. unfold K11_SparseVec_proofs.cons_nz2. destruct (eqz v); reflexivity. Qed.

  Definition wval (w : option T) : T := match w with Some v => v | None => zero end.

  Lemma emit2_spec : forall out c r1 r2 val w1 w2, bufs2 out (S c) r1 r2 ->
    exists r1' r2', emit2 T eqz (length out) r1 r2 val w1 w2
                    = Some (length (out ++ cons_nz2 val (wval w1, wval w2) []), r1', r2')
                    /\ bufs2 (out ++ cons_nz2 val (wval w1, wval w2) []) c r1' r2'.
  Proof.
    intros out c r1 r2 val w1 w2 (k & -> & -> & Hk).
    unfold emit2, K11_SparseVec_proofs.cons_nz2. destruct (eqz val).
    - rewrite app_nil_r. do 2 eexists. split; [reflexivity|]. exists k. repeat split; auto; lia.
    - destruct k as [|k]; [lia|]. simpl repeat.
      pose proof (set_nth_app _ (map fst out) zero (repeat zero k)) as H1. rewrite map_length in H1.
      pose proof (set_nth_app _ (map snd out) zero (repeat zero k)) as H2. rewrite map_length in H2.
      assert (Hl : length (out ++ [(wval w1, wval w2)]) = S (length out))
        by (rewrite app_length; simpl; lia).
      rewrite Hl.
      assert (Hb : bufs2 (out ++ [(wval w1, wval w2)]) c
                     (map fst out ++ wval w1 :: repeat zero k) (map snd out ++ wval w2 :: repeat zero k)).
      { exists k. rewrite !map_app. simpl. rewrite <- !app_assoc. simpl. repeat split; auto; lia. }
      destruct w1 as [v1|], w2 as [v2|]; simpl wval in *; rewrite ?H1, ?H2; do 2 eexists; (split; [reflexivity|exact Hb]).
  Qed.

  Lemma du_tail_spec : forall (first : bool) ind data, length ind = length data ->
    forall fuel i out c r1 r2,
    bufs2 out c r1 r2 -> (length ind - i <= fuel)%nat -> (length ind - i <= c)%nat ->
    let tl := map (fun p : Z * T => if first then (snd p, zero) else (zero, snd p)) (filter_nz (suf ind data i)) in
    exists r1' r2',
      du_tail T eqz fuel first ind data i (length out) r1 r2 = Some (length (out ++ tl), r1', r2')
      /\ bufs2 (out ++ tl) (c - (length ind - i)) r1' r2'.
  Proof.
    intros first ind data Hlen. induction fuel as [|f IH]; intros i out c r1 r2 Hb Hf Hc tl; subst tl.
    - simpl. rewrite suf_all by lia. simpl. rewrite app_nil_r. do 2 eexists. split; [reflexivity|].
      eapply bufs2_weaken; [|exact Hb]. lia.
    - simpl. destruct (i <? length ind)%nat eqn:E.
      + apply Nat.ltb_lt in E.
        destruct (nth_error_lt_some _ ind i E) as [j Hj].
        destruct (nth_error_lt_some _ data i ltac:(lia)) as [d Hd].
        rewrite Hd. rewrite (suf_step ind data i j d Hj Hd).
        destruct c as [|c]; [lia|].
        assert (He : exists r1a r2a,
                   (if first then emit2 T eqz (length out) r1 r2 d (Some d) None
                    else emit2 T eqz (length out) r1 r2 d None (Some d))
                   = Some (length (out ++ cons_nz2 d (if first then (d, zero) else (zero, d)) []), r1a, r2a)
                   /\ bufs2 (out ++ cons_nz2 d (if first then (d, zero) else (zero, d)) []) c r1a r2a).
        { destruct first.
          - apply (emit2_spec out c r1 r2 d (Some d) None Hb).
          - apply (emit2_spec out c r1 r2 d None (Some d) Hb). }
        destruct He as (r1a & r2a & He & Hb1). rewrite He.
        destruct (IH (S i) _ c r1a r2a Hb1 ltac:(lia) ltac:(lia)) as (r1b & r2b & Ht & Hb2).
        rewrite Ht. exists r1b, r2b.
        assert (Hout : (out ++ cons_nz2 d (if first then (d, zero) else (zero, d)) [])
                         ++ map (fun p : Z * T => if first then (snd p, zero) else (zero, snd p))
                                (filter_nz (suf ind data (S i)))
                       = out ++ map (fun p : Z * T => if first then (snd p, zero) else (zero, snd p))
                                    (filter_nz ((j, d) :: suf ind data (S i)))).
        { rewrite <- app_assoc. f_equal. unfold K11_SparseVec_proofs.filter_nz, K11_SparseVec_proofs.cons_nz2. simpl.
          destruct (eqz d); simpl; [reflexivity|]. destruct first; reflexivity. }
        rewrite Hout in *. split; [reflexivity|]. eapply bufs2_weaken; [|exact Hb2]. lia.
      + apply Nat.ltb_ge in E. rewrite suf_all by lia. simpl. rewrite app_nil_r. do 2 eexists. split; [reflexivity|].
        eapply bufs2_weaken; [|exact Hb]. lia.
  Qed.

  Lemma du_main_spec : forall ind1 data1 ind2 data2,
    length ind1 = length data1 -> length ind2 = length data2 ->
    forall fuel i1 i2 out c r1 r2,
      bufs2 out c r1 r2 ->
      ((length ind1 - i1) + (length ind2 - i2) <= fuel)%nat ->
      (length (union_l (skipn i1 ind1) (skipn i2 ind2)) <= c)%nat ->
      exists i1' i2' r1' r2' c' outm,
        du_main T add eqz ind1 data1 ind2 data2 fuel i1 i2 (length out) r1 r2
        = Some (i1', i2', length (out ++ outm), r1', r2')
        /\ bufs2 (out ++ outm) c' r1' r2'
        /\ outm ++ map (fun p : Z * T => (snd p, zero)) (filter_nz (suf ind1 data1 i1'))
                 ++ map (fun p : Z * T => (zero, snd p)) (filter_nz (suf ind2 data2 i2'))
           = munion (suf ind1 data1 i1) (suf ind2 data2 i2)
        /\ ((length ind1 - i1') + (length ind2 - i2') <= c')%nat
        /\ ((length ind1 <= i1')%nat \/ (length ind2 <= i2')%nat).
  Proof.
    intros ind1 data1 ind2 data2 Hlen1 Hlen2.
    induction fuel as [|f IH]; intros i1 i2 out c r1 r2 Hb Hf Hc.
    - simpl. exists i1, i2, r1, r2, c, []. rewrite app_nil_r.
      rewrite (suf_all ind1 data1 i1), (suf_all ind2 data2 i2) by lia. simpl.
      repeat split; auto; try lia.
    - simpl. destruct ((i1 <? length ind1)%nat && (i2 <? length ind2)%nat) eqn:E.
      + apply andb_true_iff in E. destruct E as [E1 E2]. apply Nat.ltb_lt in E1, E2.
        destruct (nth_error_lt_some _ ind1 i1 E1) as [j1 Hj1].
        destruct (nth_error_lt_some _ ind2 i2 E2) as [j2 Hj2].
        destruct (nth_error_lt_some _ data1 i1 ltac:(lia)) as [d1 Hd1].
        destruct (nth_error_lt_some _ data2 i2 ltac:(lia)) as [d2 Hd2].
        rewrite Hj1, Hj2.
        rewrite (suf_step ind1 data1 i1 j1 d1 Hj1 Hd1), (suf_step ind2 data2 i2 j2 d2 Hj2 Hd2).
        rewrite (nth_error_skipn _ ind1 i1 j1 Hj1), (nth_error_skipn _ ind2 i2 j2 Hj2) in Hc.
        rewrite union_l_cons in Hc. rewrite munion_cons.
        destruct (j1 =? j2) eqn:Ej; [|destruct (j1 <? j2) eqn:El].
        * rewrite Hd1, Hd2. cbn [length] in Hc. destruct c as [|c]; [lia|].
          destruct (emit2_spec out c r1 r2 (add d1 d2) (Some d1) (Some d2) Hb) as (ra & rb & He & Hb1).
          simpl wval in *. rewrite He.
          destruct (IH (S i1) (S i2) _ c ra rb Hb1 ltac:(lia) ltac:(lia))
            as (i1' & i2' & r1' & r2' & c' & outm & Hm & Hb' & Hout & Hcap & Hend).
          exists i1', i2', r1', r2', c', (cons_nz2 (add d1 d2) (d1, d2) [] ++ outm).
          rewrite app_assoc. repeat split; auto.
          rewrite <- app_assoc, Hout. symmetry. apply cons_nz2_app.
        * rewrite Hd1. cbn [length] in Hc. destruct c as [|c]; [lia|].
          destruct (emit2_spec out c r1 r2 d1 (Some d1) None Hb) as (ra & rb & He & Hb1).
          simpl wval in *. rewrite He.
          assert (Hc' : (length (union_l (skipn (S i1) ind1) (skipn i2 ind2)) <= c)%nat).
          { rewrite (nth_error_skipn _ ind2 i2 j2 Hj2). lia. }
          destruct (IH (S i1) i2 _ c ra rb Hb1 ltac:(lia) Hc')
            as (i1' & i2' & r1' & r2' & c' & outm & Hm & Hb' & Hout & Hcap & Hend).
          exists i1', i2', r1', r2', c', (cons_nz2 d1 (d1, zero) [] ++ outm).
          rewrite app_assoc. repeat split; auto.
          rewrite <- app_assoc, Hout. rewrite (suf_step ind2 data2 i2 j2 d2 Hj2 Hd2). symmetry. apply cons_nz2_app.
        * rewrite Hd2. cbn [length] in Hc. destruct c as [|c]; [lia|].
          destruct (emit2_spec out c r1 r2 d2 None (Some d2) Hb) as (ra & rb & He & Hb1).
          simpl wval in *. rewrite He.
          assert (Hc' : (length (union_l (skipn i1 ind1) (skipn (S i2) ind2)) <= c)%nat).
          { rewrite (nth_error_skipn _ ind1 i1 j1 Hj1). lia. }
          destruct (IH i1 (S i2) _ c ra rb Hb1 ltac:(lia) Hc')
            as (i1' & i2' & r1' & r2' & c' & outm & Hm & Hb' & Hout & Hcap & Hend).
          exists i1', i2', r1', r2', c', (cons_nz2 d2 (zero, d2) [] ++ outm).
          rewrite app_assoc. repeat split; auto.
          rewrite <- app_assoc, Hout. rewrite (suf_step ind1 data1 i1 j1 d1 Hj1 Hd1). symmetry. apply cons_nz2_app.
      + exists i1, i2, r1, r2, c, []. rewrite app_nil_r. simpl app.
        apply andb_false_iff in E. destruct E as [E|E]; apply Nat.ltb_ge in E.
        * rewrite (suf_all ind1 data1 i1) by lia. simpl.
          rewrite (skipn_all2 ind1) in Hc by lia. simpl in Hc. rewrite skipn_length in Hc.
          repeat split; auto; lia.
        * rewrite (suf_all ind2 data2 i2) by lia. rewrite munion_nil_r. simpl. rewrite app_nil_r.
          rewrite (skipn_all2 ind2) in Hc by lia. rewrite union_l_nil_r in Hc. rewrite skipn_length in Hc.
          repeat split; auto; lia.
  Qed.

  Lemma bufs2_firstn : forall out c r1 r2, bufs2 out c r1 r2 ->
    firstn (length out) r1 = map fst out /\ firstn (length out) r2 = map snd out.
  Proof.
    intros out c r1 r2 (k & -> & -> & _). split.
    - rewrite <- (map_length fst out). apply firstn_app_exact.
    - rewrite <- (map_length snd out). apply firstn_app_exact.
  Qed.

  Theorem dense_union_refines : forall ind1 data1 ind2 data2,
    length ind1 = length data1 -> length ind2 = length data2 ->
    (length (union_l ind1 ind2) <= length (arr_union ind1 ind2))%nat ->
    dense_union T zero add eqz ind1 data1 ind2 data2
    = Some (map fst (munion (combine ind1 data1) (combine ind2 data2)),
            map snd (munion (combine ind1 data1) (combine ind2 data2))).
  Proof.
    intros ind1 data1 ind2 data2 H1 H2 Hcap. unfold dense_union.
    assert (Hb0 : bufs2 [] (length (arr_union ind1 ind2)) (repeat zero (length (arr_union ind1 ind2)))
                    (repeat zero (length (arr_union ind1 ind2)))).
    { exists (length (arr_union ind1 ind2)). simpl. repeat split; auto. }
    destruct (du_main_spec ind1 data1 ind2 data2 H1 H2 (length ind1 + length ind2) 0 0 [] _ _ _ Hb0
                ltac:(lia) ltac:(simpl; exact Hcap))
      as (i1' & i2' & r1' & r2' & c' & outm & Hm & Hb' & Hout & Hc' & Hend).
    change (length (@nil (T * T))) with 0%nat in Hm. rewrite Hm. simpl app in *.
    destruct (du_tail_spec true ind1 data1 H1 (length ind1) i1' outm c' r1' r2' Hb' ltac:(lia) ltac:(lia))
      as (ra & rb & Ht1 & Hb1). rewrite Ht1.
    destruct (du_tail_spec false ind2 data2 H2 (length ind2) i2' _ _ ra rb Hb1 ltac:(lia) ltac:(lia))
      as (rc & rd & Ht2 & Hb2). rewrite Ht2.
    destruct (bufs2_firstn _ _ _ _ Hb2) as [Hf1 Hf2]. rewrite Hf1, Hf2.
    rewrite <- app_assoc, Hout. unfold suf. simpl. reflexivity.
  Qed.
End Refine.

(* ------------------------------------------------------------------ D. final statements *)
Lemma map_fst_combine : forall (A B : Type) (l : list A) (m : list B), length l = length m -> map fst (combine l m) = l.
Proof. induction l; destruct m; simpl; intros; try discriminate; auto. f_equal. apply IHl. lia. Qed.
Lemma map_snd_combine : forall (A B : Type) (l : list A) (m : list B), length l = length m -> map snd (combine l m) = m.
Proof. induction l; destruct m; simpl; intros; try discriminate; auto. f_equal. apply IHl. lia. Qed.
Lemma combine_fst_snd : forall (A B : Type) (l : list (A * B)), combine (map fst l) (map snd l) = l.
Proof. induction l as [|[a b] l IH]; simpl; auto. f_equal. exact IH. Qed.

Section Final.
  Variable T : Type.
  Variables (zero : T) (add mul : T -> T -> T) (opp : T -> T) (eqz : T -> bool).
  Variable eqT : T -> T -> Prop.
  Hypothesis eqT_refl : forall x, eqT x x.
  Hypothesis eqT_sym : forall x y, eqT x y -> eqT y x.
  Hypothesis eqT_trans : forall x y z, eqT x y -> eqT y z -> eqT x z.
  Hypothesis eqz_spec : forall x, eqz x = true <-> eqT x zero.
  Hypothesis add_zero_r : forall x, eqT (add x zero) x.
  Hypothesis add_zero_l : forall x, eqT (add zero x) x.
  Hypothesis mul_zero_r : forall x, eqT (mul x zero) zero.
  Hypothesis mul_zero_l : forall x, eqT (mul zero x) zero.
  Hypothesis opp_zero : eqT (opp zero) zero.
  Hypothesis add_compat_r : forall x y y', eqT y y' -> eqT (add x y) (add x y').

  Notation lookup := (lookup T zero).
  Notation dense := (dense T zero).
  Notation incrP := (incrP T).
  Notation nonzero := (nonzero T eqz).

  Lemma lookup_in : forall M k v, incrP M -> In (k, v) M -> lookup k M = v.
  Proof.
    induction M as [|[j w] t IH]; intros k v Hs Hin; [inversion Hin|]. simpl.
    destruct Hin as [Hin|Hin].
    - inversion Hin; subst. rewrite Z.eqb_refl. reflexivity.
    - pose proof (incr_head _ _ Hs) as Hh. simpl in Hh. rewrite Forall_forall in Hh.
      assert (j < k) by (apply Hh; apply (in_map fst) in Hin; exact Hin).
      destruct (j =? k) eqn:E; [apply Z.eqb_eq in E; lia|]. apply IH; auto. eapply incr_tail; eauto.
  Qed.
  Lemma lookup_notin : forall M k, ~ In k (map fst M) -> lookup k M = zero.
  Proof.
    induction M as [|[j w] t IH]; intros k H; simpl; auto.
    destruct (j =? k) eqn:E; [apply Z.eqb_eq in E; subst; exfalso; apply H; left; reflexivity|].
    apply IH. intro Hin. apply H. right. exact Hin.
  Qed.

  Lemma support_iff : forall M k, incrP M -> nonzero M -> (In k (map fst M) <-> ~ eqT (lookup k M) zero).
  Proof.
    intros M k Hs Hnz. split.
    - intros Hin Heq. apply in_map_iff in Hin. destruct Hin as [[j v] [Hj Hin]]. simpl in Hj; subst j.
      rewrite (lookup_in M k v Hs Hin) in Heq. apply eqz_spec in Heq.
      unfold K11_SparseVec_proofs.nonzero in Hnz. rewrite Forall_forall in Hnz. specialize (Hnz _ Hin). simpl in Hnz. congruence.
    - intros Hne. destruct (In_dec Z.eq_dec k (map fst M)) as [Hin|Hnot]; auto.
      exfalso. apply Hne. rewrite (lookup_notin M k Hnot). apply eqT_refl.
  Qed.

  Definition no_explicit_zero (rd : list T) : Prop := Forall (fun v => eqz v = false) rd.

  Lemma nonzero_snd : forall M, nonzero M -> no_explicit_zero (map snd M).
  Proof. intros M H. unfold no_explicit_zero. rewrite Forall_map. exact H. Qed.

  (* a valid sparse encoding: strictly increasing indices, one value per index (explicit zeros allowed) *)
  Definition sparse_ok (ind : list Z) (data : list T) : Prop := incr ind /\ length ind = length data.

  Lemma sparse_ok_incrP : forall ind data, sparse_ok ind data -> incrP (combine ind data).
  Proof. intros ind data [H1 H2]. unfold K11_SparseVec_proofs.incrP. rewrite map_fst_combine; auto. Qed.

  Theorem sparse_sum_correct : forall ind1 data1 ind2 data2,
    sparse_ok ind1 data1 -> sparse_ok ind2 data2 ->
    exists ri rd,
      sparse_sum T zero add eqz ind1 data1 ind2 data2 = Some (ri, rd)
      /\ length ri = length rd /\ incr ri /\ no_explicit_zero rd
      /\ (forall k, eqT (dense ri rd k) (add (dense ind1 data1 k) (dense ind2 data2 k)))
      /\ (forall k, In k ri <-> ~ eqT (add (dense ind1 data1 k) (dense ind2 data2 k)) zero).
  Proof.
    intros ind1 data1 ind2 data2 Ha Hb.
    pose proof (sparse_ok_incrP _ _ Ha) as Sa. pose proof (sparse_ok_incrP _ _ Hb) as Sb.
    destruct Ha as [Ia La], Hb as [Ib Lb].
    set (M := msum T add eqz (combine ind1 data1) (combine ind2 data2)).
    exists (map fst M), (map snd M).
    assert (HsM : incrP M) by (apply msum_incr; assumption).
    assert (HnM : nonzero M) by apply msum_nonzero.
    assert (HlM : forall k, eqT (lookup k M) (add (dense ind1 data1 k) (dense ind2 data2 k))).
    { intro k. unfold K11_SparseVec_proofs.dense. apply (msum_lookup T zero add eqz eqT); assumption. }
    split; [apply sparse_sum_refines; auto; apply union_capacity; assumption|].
    split; [rewrite !map_length; reflexivity|].
    split; [exact HsM|]. split; [apply nonzero_snd; exact HnM|].
    split.
    - intro k. unfold K11_SparseVec_proofs.dense at 1. rewrite combine_fst_snd. apply HlM.
    - intro k. rewrite (support_iff M k HsM HnM). split; intros H Hc; apply H.
      + eapply eqT_trans; [apply HlM|exact Hc].
      + eapply eqT_trans; [apply eqT_sym; apply HlM|exact Hc].
  Qed.

  Lemma combine_map_r : forall (ind : list Z) (data : list T) (f : T -> T),
    combine ind (map f data) = map (fun p => (fst p, f (snd p))) (combine ind data).
  Proof. induction ind; destruct data; simpl; intros; auto. f_equal. apply IHind. Qed.

  Lemma lookup_map_opp : forall l k, eqT (lookup k (map (fun p => (fst p, opp (snd p))) l)) (opp (lookup k l)).
  Proof.
    induction l as [|[j v] t IH]; intro k; simpl.
    - apply eqT_sym. exact opp_zero.
    - destruct (j =? k); [apply eqT_refl|apply IH].
  Qed.

  Theorem sparse_diff_correct : forall ind1 data1 ind2 data2,
    sparse_ok ind1 data1 -> sparse_ok ind2 data2 ->
    exists ri rd,
      sparse_diff T zero add opp eqz ind1 data1 ind2 data2 = Some (ri, rd)
      /\ length ri = length rd /\ incr ri /\ no_explicit_zero rd
      /\ (forall k, eqT (dense ri rd k) (add (dense ind1 data1 k) (opp (dense ind2 data2 k))))
      /\ (forall k, In k ri <-> ~ eqT (add (dense ind1 data1 k) (opp (dense ind2 data2 k))) zero).
  Proof.
    intros ind1 data1 ind2 data2 Ha Hb. unfold sparse_diff.
    assert (Hb' : sparse_ok ind2 (map opp data2)) by (destruct Hb; split; auto; rewrite map_length; auto).
    destruct (sparse_sum_correct ind1 data1 ind2 (map opp data2) Ha Hb') as (ri & rd & Hs & Hl & Hi & Hz & Hd & Hsupp).
    assert (Hopp : forall k, eqT (add (dense ind1 data1 k) (dense ind2 (map opp data2) k))
                             (add (dense ind1 data1 k) (opp (dense ind2 data2 k)))).
    { intro k. apply add_compat_r. unfold K11_SparseVec_proofs.dense. rewrite combine_map_r. apply lookup_map_opp. }
    exists ri, rd. repeat split; auto.
    - intro k. eapply eqT_trans; [apply Hd|apply Hopp].
    - intros H Hc. apply (proj1 (Hsupp k) H). eapply eqT_trans; [apply Hopp|exact Hc].
    - intros H. apply (proj2 (Hsupp k)). intro Hc. apply H. eapply eqT_trans; [apply eqT_sym; apply Hopp|exact Hc].
  Qed.

  Theorem sparse_mul_correct : forall ind1 data1 ind2 data2,
    sparse_ok ind1 data1 -> sparse_ok ind2 data2 ->
    exists ri rd,
      sparse_mul T zero mul eqz ind1 data1 ind2 data2 = Some (ri, rd)
      /\ length ri = length rd /\ incr ri /\ no_explicit_zero rd
      /\ (forall k, eqT (dense ri rd k) (mul (dense ind1 data1 k) (dense ind2 data2 k)))
      /\ (forall k, In k ri <-> ~ eqT (mul (dense ind1 data1 k) (dense ind2 data2 k)) zero).
  Proof.
    intros ind1 data1 ind2 data2 Ha Hb.
    pose proof (sparse_ok_incrP _ _ Ha) as Sa. pose proof (sparse_ok_incrP _ _ Hb) as Sb.
    destruct Ha as [Ia La], Hb as [Ib Lb].
    set (M := mmul T mul eqz (combine ind1 data1) (combine ind2 data2)).
    exists (map fst M), (map snd M).
    assert (HsM : incrP M) by (apply mmul_incr; assumption).
    assert (HnM : nonzero M) by apply mmul_nonzero.
    assert (HlM : forall k, eqT (lookup k M) (mul (dense ind1 data1 k) (dense ind2 data2 k))).
    { intro k. unfold K11_SparseVec_proofs.dense. apply (mmul_lookup T zero mul eqz eqT); assumption. }
    split; [apply sparse_mul_refines; auto; apply inter_capacity; assumption|].
    split; [rewrite !map_length; reflexivity|].
    split; [exact HsM|]. split; [apply nonzero_snd; exact HnM|].
    split.
    - intro k. unfold K11_SparseVec_proofs.dense at 1. rewrite combine_fst_snd. apply HlM.
    - intro k. rewrite (support_iff M k HsM HnM). split; intros H Hc; apply H.
      + eapply eqT_trans; [apply HlM|exact Hc].
      + eapply eqT_trans; [apply eqT_sym; apply HlM|exact Hc].
  Qed.

  (* dense_union returns the two vectors restricted to the index list sparse_sum computes *)
  Theorem dense_union_correct : forall ind1 data1 ind2 data2,
    sparse_ok ind1 data1 -> sparse_ok ind2 data2 ->
    exists U rd,
      sparse_sum T zero add eqz ind1 data1 ind2 data2 = Some (U, rd)
      /\ dense_union T zero add eqz ind1 data1 ind2 data2
         = Some (map (dense ind1 data1) U, map (dense ind2 data2) U).
  Proof.
    intros ind1 data1 ind2 data2 Ha Hb.
    pose proof (sparse_ok_incrP _ _ Ha) as Sa. pose proof (sparse_ok_incrP _ _ Hb) as Sb.
    destruct Ha as [Ia La], Hb as [Ib Lb].
    set (M := msum T add eqz (combine ind1 data1) (combine ind2 data2)).
    exists (map fst M), (map snd M).
    split; [apply sparse_sum_refines; auto; apply union_capacity; assumption|].
    rewrite dense_union_refines by (auto; apply union_capacity; assumption).
    rewrite (munion_spec T zero add eqz) by assumption.
    fold M. unfold pairs_at. rewrite !map_map. reflexivity.
  Qed.
End Final.
