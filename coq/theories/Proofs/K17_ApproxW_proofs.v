(* Proofs about Model/K17_ApproxW.v over the real numbers: the row map of ApproximateWassersteinVectorizer depends
   only on the measure a row encodes (the multiset of (weight, vector) pairs, zero weights dropped, equal vectors
   merged) and, for normalization_power = 1, not on its total mass; rows are independent of each other.
   `pw` (x |-> x ** normalization_power) is an arbitrary function R -> R unless a hypothesis says otherwise; the
   SVD data (components_, singular_values_) are arbitrary inputs. *)
From Coq Require Import Reals Lra List Bool Arith Lia Permutation.
From VZ Require Import Model.K17_LOTglue Model.K17_LOTspherical Model.K17_ApproxW Proofs.K17_LOTspherical_proofs.
Import ListNotations.
Open Scope R_scope.

Definition axpy_R := axpy R Rplus Rmult.
Definition row_matvec_R := row_matvec R 0 Rplus Rmult.
Definition row_sum_R := row_sum R 0 Rplus.
Definition approx_basis_R (pw : R -> R) := approx_basis R 0 Rplus Rmult Rdiv pw.
Definition approx_row_R (pw : R -> R) := approx_row R 0 Rplus Rmult Rdiv sqrt pw.
Definition approx_transform_R (pw : R -> R) := approx_transform R 0 Rplus Rmult Rdiv sqrt pw.

(* the measure a stored row encodes: (weight, vector) per stored entry *)
Definition atoms_of (V : list (list R)) (row : list (nat * R)) : list (R * list R) :=
  map (fun e => (snd e, nth (fst e) V [])) row.

Definition wfold (atoms : list (R * list R)) (acc : list R) : list R :=
  fold_left (fun acc a => axpy_R (fst a) (snd a) acc) atoms acc.

Lemma row_matvec_atoms : forall d V row, row_matvec_R d V row = wfold (atoms_of V row) (repeat 0 d).
Proof.
  intros d V row. unfold row_matvec_R, row_matvec, wfold, atoms_of. generalize (repeat 0 d) as acc.
  induction row as [|e row IH]; intros acc; [reflexivity|]. simpl. apply IH.
Qed.

Lemma row_sum_atoms : forall V row, row_sum_R row = fold_right Rplus 0 (map fst (atoms_of V row)).
Proof.
  intros V row. unfold row_sum_R, row_sum, gsum. rewrite gsum_acc_R. unfold atoms_of. rewrite map_map, Rplus_0_l. f_equal.
Qed.

Lemma axpy_comm : forall acc a x b y, axpy_R a x (axpy_R b y acc) = axpy_R b y (axpy_R a x acc).
Proof.
  unfold axpy_R, axpy. induction acc as [|h t IH]; intros a x b y; [reflexivity|].
  destruct x as [|x0 x], y as [|y0 y]; simpl; try reflexivity. rewrite IH. f_equal. ring.
Qed.

Lemma wfold_perm : forall l l', Permutation l l' -> forall acc, wfold l acc = wfold l' acc.
Proof.
  unfold wfold. intros l l' P. induction P as [| a l l' P IH | a b l | l1 l2 l3 P1 IH1 P2 IH2]; intros acc; simpl.
  - reflexivity.
  - apply IH.
  - rewrite axpy_comm. reflexivity.
  - rewrite IH1. apply IH2.
Qed.

Lemma fold_right_Rplus_perm : forall l l', Permutation l l' -> fold_right Rplus 0 l = fold_right Rplus 0 l'.
Proof. intros l l' P. induction P; simpl; try lra. Qed.

Lemma approx_basis_atoms : forall pw d V row,
  approx_basis_R pw d V row
  = map (fun t => t / pw (fold_right Rplus 0 (map fst (atoms_of V row)))) (wfold (atoms_of V row) (repeat 0 d)).
Proof.
  intros pw d V row. unfold approx_basis_R, approx_basis. fold (row_sum_R row). fold (row_matvec_R d V row).
  rewrite (row_sum_atoms V), row_matvec_atoms. reflexivity.
Qed.

(* ---- permuting the support points together with their vectors (any reordering of the stored entries, any
   renumbering of the columns that carries the vectors along) ---- *)
Theorem approx_basis_perm : forall pw d V V' row row', Permutation (atoms_of V row) (atoms_of V' row') ->
  approx_basis_R pw d V row = approx_basis_R pw d V' row'.
Proof.
  intros pw d V V' row row' P. rewrite !approx_basis_atoms.
  rewrite (wfold_perm _ _ P). rewrite (fold_right_Rplus_perm _ _ (Permutation_map fst P)). reflexivity.
Qed.

Corollary approx_basis_renumber : forall pw d V V' (sigma : nat -> nat) row,
  Forall (fun e => nth (sigma (fst e)) V' [] = nth (fst e) V []) row ->
  forall row', Permutation row' (map (fun e => (sigma (fst e), snd e)) row) ->
  approx_basis_R pw d V' row' = approx_basis_R pw d V row.
Proof.
  intros pw d V V' sigma row H row' P. apply approx_basis_perm.
  apply Permutation_trans with (atoms_of V' (map (fun e => (sigma (fst e), snd e)) row)).
  - unfold atoms_of. apply Permutation_map. assumption.
  - unfold atoms_of. rewrite map_map. simpl.
    replace (map (fun x => (snd x, nth (sigma (fst x)) V' [])) row) with (map (fun e => (snd e, nth (fst e) V [])) row); [apply Permutation_refl|].
    clear P. induction H as [|e row He _ IH]; [reflexivity|]. simpl. rewrite IH, He. reflexivity.
Qed.

(* ---- support points of zero weight ---- *)
Lemma axpy_zero : forall d x, length x = d -> axpy_R 0 x (repeat 0 d) = repeat 0 d.
Proof.
  unfold axpy_R, axpy. induction d as [|d IH]; intros x L; [reflexivity|].
  destruct x as [|x0 x]; [discriminate|]. simpl in *. rewrite IH by lia. f_equal. ring.
Qed.

Theorem approx_basis_pad : forall pw d V r1 r2 c, length (nth c V []) = d ->
  approx_basis_R pw d V (r1 ++ (c, 0) :: r2) = approx_basis_R pw d V (r1 ++ r2).
Proof.
  intros pw d V r1 r2 c L. rewrite !approx_basis_atoms.
  assert (P : Permutation (atoms_of V (r1 ++ (c, 0) :: r2)) ((0, nth c V []) :: atoms_of V (r1 ++ r2))).
  { unfold atoms_of. rewrite !map_app. simpl. apply Permutation_sym, Permutation_middle. }
  rewrite (wfold_perm _ _ P). rewrite (fold_right_Rplus_perm _ _ (Permutation_map fst P)).
  unfold wfold. simpl. rewrite axpy_zero by assumption. rewrite Rplus_0_l. reflexivity.
Qed.

(* columns that no row uses (vectors appended to the vector set) *)
Theorem approx_basis_more_vectors : forall pw d V extra row, Forall (fun e => (fst e < length V)%nat) row ->
  approx_basis_R pw d (V ++ extra) row = approx_basis_R pw d V row.
Proof.
  intros pw d V extra row H. apply approx_basis_perm.
  replace (atoms_of (V ++ extra) row) with (atoms_of V row); [apply Permutation_refl|].
  unfold atoms_of. induction H as [|e row He _ IH]; [reflexivity|]. simpl. rewrite IH, app_nth1 by assumption. reflexivity.
Qed.

(* ---- splitting a support point into duplicates that share its mass ---- *)
Lemma axpy_merge : forall acc x w1 w2, axpy_R w2 x (axpy_R w1 x acc) = axpy_R (w1 + w2) x acc.
Proof.
  unfold axpy_R, axpy. induction acc as [|h t IH]; intros x w1 w2; [reflexivity|].
  destruct x as [|x0 x]; simpl; [reflexivity|]. rewrite IH. f_equal. ring.
Qed.

Theorem approx_basis_split_atoms : forall pw d V V' row row' w w1 w2 x rest, w1 + w2 = w ->
  Permutation (atoms_of V row) ((w, x) :: rest) -> Permutation (atoms_of V' row') ((w1, x) :: (w2, x) :: rest) ->
  approx_basis_R pw d V row = approx_basis_R pw d V' row'.
Proof.
  intros pw d V V' row row' w w1 w2 x rest Hw P P'. rewrite !approx_basis_atoms.
  rewrite (wfold_perm _ _ P), (wfold_perm _ _ P').
  rewrite (fold_right_Rplus_perm _ _ (Permutation_map fst P)), (fold_right_Rplus_perm _ _ (Permutation_map fst P')).
  unfold wfold. simpl. rewrite axpy_merge, Hw. replace (w1 + (w2 + fold_right Rplus 0 (map fst rest))) with (w + fold_right Rplus 0 (map fst rest)) by lra.
  reflexivity.
Qed.

(* the concrete re-encoding: column c is duplicated as a new last column; the row shares its weight between the two *)
Theorem approx_basis_split : forall pw d V r1 r2 c w w1 w2, w1 + w2 = w ->
  (c < length V)%nat -> Forall (fun e => (fst e < length V)%nat) (r1 ++ r2) ->
  approx_basis_R pw d (V ++ [nth c V []]) (r1 ++ (c, w1) :: r2 ++ [(length V, w2)])
  = approx_basis_R pw d V (r1 ++ (c, w) :: r2).
Proof.
  intros pw d V r1 r2 c w w1 w2 Hw Hc H. symmetry.
  apply (approx_basis_split_atoms pw d V (V ++ [nth c V []]) _ _ w w1 w2 (nth c V []) (atoms_of V (r1 ++ r2)) Hw).
  - unfold atoms_of. rewrite !map_app. simpl. apply Permutation_sym, Permutation_middle.
  - assert (A : forall r, Forall (fun e => (fst e < length V)%nat) r -> atoms_of (V ++ [nth c V []]) r = atoms_of V r).
    { intros r F. unfold atoms_of. induction F as [|e r He _ IH]; [reflexivity|]. simpl. rewrite IH, app_nth1 by assumption. reflexivity. }
    apply Forall_app in H. destruct H as [H1 H2].
    unfold atoms_of at 1. rewrite !map_app. simpl. rewrite !map_app. simpl.
    fold (atoms_of (V ++ [nth c V []]) r1). fold (atoms_of (V ++ [nth c V []]) r2). rewrite (A r1 H1), (A r2 H2).
    rewrite app_nth1 by assumption. rewrite app_nth2, Nat.sub_diag by lia. simpl.
    unfold atoms_of at 3. rewrite map_app. fold (atoms_of V r1). fold (atoms_of V r2).
    apply Permutation_sym. apply Permutation_trans with ((w1, nth c V []) :: atoms_of V r1 ++ (w2, nth c V []) :: atoms_of V r2).
    + apply perm_skip. apply Permutation_middle.
    + apply Permutation_trans with ((w1, nth c V []) :: atoms_of V r1 ++ atoms_of V r2 ++ [(w2, nth c V [])]).
      * apply perm_skip. apply Permutation_app_head. apply Permutation_cons_append.
      * apply (Permutation_middle (atoms_of V r1) (atoms_of V r2 ++ [(w2, nth c V [])]) (w1, nth c V [])).
Qed.

(* ---- rescaling the row ---- *)
Lemma axpy_scale : forall c acc a x, axpy_R (c * a) x (map (Rmult c) acc) = map (Rmult c) (axpy_R a x acc).
Proof.
  unfold axpy_R, axpy. intros c. induction acc as [|h t IH]; intros a x; [reflexivity|].
  destruct x as [|x0 x]; simpl; [reflexivity|]. rewrite IH. f_equal. ring.
Qed.

Definition scale_row (c : R) (row : list (nat * R)) : list (nat * R) := map (fun e => (fst e, c * snd e)) row.

Lemma row_matvec_scale : forall c d V row, row_matvec_R d V (scale_row c row) = map (Rmult c) (row_matvec_R d V row).
Proof.
  intros c d V row. unfold row_matvec_R, row_matvec.
  replace (repeat 0 d) with (map (Rmult c) (repeat 0 d)) at 1 by (rewrite map_repeat; f_equal; ring).
  generalize (repeat 0 d) as acc. induction row as [|e row IH]; intros acc; [reflexivity|]. simpl.
  fold axpy_R. rewrite axpy_scale. apply IH.
Qed.

Lemma row_sum_scale : forall c row, row_sum_R (scale_row c row) = c * row_sum_R row.
Proof.
  intros c row. unfold row_sum_R, row_sum, scale_row. rewrite map_map. simpl.
  rewrite <- (map_map snd (Rmult c)). apply gsum_scale.
Qed.

(* the guard pw(s) <> 0 is what the real division needs (a row of total mass 0 yields nan / inf) *)
Theorem approx_basis_scale_gen : forall pw c d V row, c <> 0 -> pw (row_sum_R row) <> 0 ->
  pw (c * row_sum_R row) = c * pw (row_sum_R row) ->
  approx_basis_R pw d V (scale_row c row) = approx_basis_R pw d V row.
Proof.
  intros pw c d V row Hc Hs Hp. unfold approx_basis_R, approx_basis. fold (row_sum_R (scale_row c row)). fold (row_sum_R row).
  fold (row_matvec_R d V (scale_row c row)). fold (row_matvec_R d V row).
  rewrite row_matvec_scale, row_sum_scale, Hp, map_map. apply map_ext. intros t. field. split; assumption.
Qed.

(* normalization_power = 1 *)
Theorem approx_basis_scale : forall c d V row, c <> 0 -> row_sum_R row <> 0 ->
  approx_basis_R (fun x => x) d V (scale_row c row) = approx_basis_R (fun x => x) d V row.
Proof. intros c d V row Hc Hs. apply approx_basis_scale_gen; [assumption|assumption|reflexivity]. Qed.

(* normalization_power = 0 (x ** 0 = 1): the row is NOT scale invariant (by design: "treating input rows as
   distributions" is the default power 1.0 only) *)
Theorem approx_basis_scale_power0_refuted :
  approx_basis_R (fun _ => 1) 1 [[1]] (scale_row 2 [(0%nat, 1)]) <> approx_basis_R (fun _ => 1) 1 [[1]] [(0%nat, 1)].
Proof.
  unfold approx_basis_R, approx_basis, row_matvec, scale_row, axpy, row_sum. simpl. intros H. injection H as H. lra.
Qed.

(* ---- transform: a function of the basis row, row by row ---- *)
Theorem approx_row_of_basis : forall pw d V V' comps svs row row',
  approx_basis_R pw d V row = approx_basis_R pw d V' row' ->
  approx_row_R pw d V comps svs row = approx_row_R pw d V' comps svs row'.
Proof. intros pw d V V' comps svs row row' H. unfold approx_row_R, approx_row. unfold approx_basis_R in H. rewrite H. reflexivity. Qed.

Theorem approx_transform_rowwise : forall pw d V comps svs X i, (i < length X)%nat ->
  nth i (approx_transform_R pw d V comps svs X) [] = approx_row_R pw d V comps svs (nth i X []).
Proof.
  intros pw d V comps svs X i Hi. unfold approx_transform_R, approx_transform.
  rewrite nth_indep with (d' := approx_row R 0 Rplus Rmult Rdiv sqrt pw d V comps svs []) by (rewrite map_length; assumption).
  rewrite map_nth. reflexivity.
Qed.

Theorem approx_transform_row_independent : forall pw d V comps svs X X' i j, (i < length X)%nat -> (j < length X')%nat ->
  nth i X [] = nth j X' [] ->
  nth i (approx_transform_R pw d V comps svs X) [] = nth j (approx_transform_R pw d V comps svs X') [].
Proof. intros pw d V comps svs X X' i j Hi Hj H. rewrite !approx_transform_rowwise by assumption. rewrite H. reflexivity. Qed.

Theorem approx_transform_length : forall pw d V comps svs X, length (approx_transform_R pw d V comps svs X) = length X.
Proof. intros. unfold approx_transform_R, approx_transform. apply map_length. Qed.
