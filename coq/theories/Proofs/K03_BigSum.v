(* Sums over lists in a carrier whose (add, zero) is a commutative monoid: the algebra used by the C03 theorems. *)
From Coq Require Import List Arith Bool Lia Permutation.
From VZ Require Import Model.K02_Windows.
Import ListNotations.

Record carrier_laws (K : carrier) : Prop := {
  add_comm : forall a b : K, add a b = add b a;
  add_assoc : forall a b c : K, add a (add b c) = add (add a b) c;
  add_0_l : forall a : K, add zero a = a
}.


Section Sums.
Context {K : carrier} (HK : carrier_laws K).

Lemma add_0_r : forall a : K, add a zero = a.
Proof. intros. rewrite (add_comm K HK). apply (add_0_l K HK). Qed.

Lemma tsum_app : forall l1 l2 : list K, tsum (l1 ++ l2) = add (tsum l1) (tsum l2).
Proof.
  induction l1; intros; simpl.
  - symmetry. apply (add_0_l K HK).
  - rewrite IHl1. apply (add_assoc K HK).
Qed.

Lemma tsum_perm : forall l1 l2 : list K, Permutation l1 l2 -> tsum l1 = tsum l2.
Proof.
  induction 1; simpl; try congruence.
  rewrite !(add_assoc K HK). f_equal. apply (add_comm K HK).
Qed.

Lemma tsum_rev : forall l : list K, tsum (rev l) = tsum l.
Proof. intros. apply tsum_perm. apply Permutation_sym, Permutation_rev. Qed.

Lemma bigsum_nil : forall A (f : A -> K), bigsum f [] = zero.
Proof. reflexivity. Qed.

Lemma bigsum_cons : forall A (f : A -> K) a l, bigsum f (a :: l) = add (f a) (bigsum f l).
Proof. reflexivity. Qed.

Lemma bigsum_app : forall A (f : A -> K) l1 l2, bigsum f (l1 ++ l2) = add (bigsum f l1) (bigsum f l2).
Proof. intros. unfold bigsum. rewrite map_app. apply tsum_app. Qed.

Lemma bigsum_perm : forall A (f : A -> K) l1 l2, Permutation l1 l2 -> bigsum f l1 = bigsum f l2.
Proof. intros. unfold bigsum. apply tsum_perm. apply Permutation_map. assumption. Qed.

Lemma bigsum_rev : forall A (f : A -> K) l, bigsum f (rev l) = bigsum f l.
Proof. intros. apply bigsum_perm. apply Permutation_sym, Permutation_rev. Qed.

Lemma bigsum_ext : forall A (f g : A -> K) l, (forall x, In x l -> f x = g x) -> bigsum f l = bigsum g l.
Proof.
  induction l; intros H; [reflexivity|].
  rewrite !bigsum_cons. rewrite H by (left; reflexivity). rewrite IHl; [reflexivity|].
  intros; apply H; right; assumption.
Qed.

Lemma bigsum_zero : forall A (f : A -> K) l, (forall x, In x l -> f x = zero) -> bigsum f l = zero.
Proof.
  induction l; intros H; [reflexivity|].
  rewrite bigsum_cons, H by (left; reflexivity). rewrite IHl by (intros; apply H; right; assumption).
  apply (add_0_l K HK).
Qed.

Lemma bigsum_map : forall A B (g : A -> B) (f : B -> K) l, bigsum f (map g l) = bigsum (fun x => f (g x)) l.
Proof. intros. unfold bigsum. rewrite map_map. reflexivity. Qed.

Lemma bigsum_flat_map : forall A B (g : A -> list B) (f : B -> K) l,
  bigsum f (flat_map g l) = bigsum (fun x => bigsum f (g x)) l.
Proof.
  induction l; [reflexivity|]. simpl. rewrite bigsum_app, bigsum_cons, IHl. reflexivity.
Qed.

Lemma bigsum_concat : forall A (f : A -> K) (ls : list (list A)),
  bigsum f (concat ls) = bigsum (fun l => bigsum f l) ls.
Proof.
  induction ls; [reflexivity|]. simpl. rewrite bigsum_app, bigsum_cons, IHls. reflexivity.
Qed.

Lemma bigsum_filter : forall A (P : A -> bool) (f : A -> K) l,
  bigsum f (filter P l) = bigsum (fun x => if P x then f x else zero) l.
Proof.
  induction l; [reflexivity|]. simpl. rewrite bigsum_cons. destruct (P a).
  - rewrite bigsum_cons, IHl. reflexivity.
  - rewrite IHl. symmetry. apply (add_0_l K HK).
Qed.

Lemma bigsum_add : forall A (f g : A -> K) l,
  bigsum (fun x => add (f x) (g x)) l = add (bigsum f l) (bigsum g l).
Proof.
  induction l; simpl.
  - rewrite !bigsum_nil. symmetry. apply (add_0_l K HK).
  - rewrite !bigsum_cons, IHl.
    rewrite <- !(add_assoc K HK). f_equal.
    rewrite !(add_assoc K HK). f_equal. apply (add_comm K HK).
Qed.

Lemma bigsum_const_zero : forall A (l : list A), bigsum (fun _ => (zero : K)) l = zero.
Proof. intros. apply bigsum_zero. reflexivity. Qed.

Lemma bigsum_swap : forall A B (F : A -> B -> K) l1 l2,
  bigsum (fun x => bigsum (fun y => F x y) l2) l1 = bigsum (fun y => bigsum (fun x => F x y) l1) l2.
Proof.
  induction l1; intros.
  - rewrite bigsum_nil. symmetry. apply bigsum_zero. reflexivity.
  - rewrite bigsum_cons, IHl1. rewrite <- bigsum_add. apply bigsum_ext. intros. reflexivity.
Qed.

(* a sum over a duplicate-free list characterised by a predicate is an indicator sum over any duplicate-free
   list containing it *)
Lemma bigsum_indicator : forall (P : nat -> bool) (f : nat -> K) (l u : list nat),
  NoDup l -> NoDup u -> (forall q, In q l <-> In q u /\ P q = true) ->
  bigsum f l = bigsum (fun q => if P q then f q else zero) u.
Proof.
  intros P f l u Hl Hu H. rewrite <- bigsum_filter. apply bigsum_perm.
  apply NoDup_Permutation; [assumption | apply NoDup_filter; assumption |].
  intros q. rewrite filter_In. apply H.
Qed.

Lemma isum_indicator : forall (P : nat -> bool) (f : nat -> K) (l : list nat) (L : nat),
  NoDup l -> (forall q, In q l <-> q < L /\ P q = true) ->
  bigsum f l = isum L (fun q => if P q then f q else zero).
Proof.
  intros. unfold isum. apply bigsum_indicator; [assumption | apply seq_NoDup |].
  intros q. rewrite in_seq. rewrite H0. intuition lia.
Qed.

Lemma bigsum_single : forall (f : nat -> K) (l : list nat) (a : nat),
  NoDup l -> In a l -> bigsum (fun x => if Nat.eqb x a then f x else zero) l = f a.
Proof.
  induction l; intros b Hnd Hin; [contradiction|].
  rewrite bigsum_cons. inversion Hnd; subst. destruct Hin as [->|Hin].
  - rewrite Nat.eqb_refl. rewrite bigsum_zero; [apply add_0_r|].
    intros x Hx. destruct (Nat.eqb_spec x b); [subst; contradiction | reflexivity].
  - destruct (Nat.eqb_spec a b); [subst; contradiction|].
    rewrite IHl by assumption. apply (add_0_l K HK).
Qed.

Lemma isum_swap : forall L1 L2 (F : nat -> nat -> K),
  isum L1 (fun p => isum L2 (fun q => F p q)) = isum L2 (fun q => isum L1 (fun p => F p q)).
Proof. intros. unfold isum. apply bigsum_swap. Qed.

Lemma isum_ext : forall L (f g : nat -> K), (forall q, q < L -> f q = g q) -> isum L f = isum L g.
Proof. intros. unfold isum. apply bigsum_ext. intros x Hx. apply in_seq in Hx. apply H. lia. Qed.

End Sums.
