From Coq Require Import ZArith List Lia Bool Permutation Arith.
From VZ Require Import Model.K10_Assembly.
Import ListNotations.
Open Scope Z_scope.

(* ================= sums ================= *)
Fixpoint sumZ (l : list Z) : Z := match l with [] => 0 | x :: l' => x + sumZ l' end.

Lemma sumZ_app a b : sumZ (a ++ b) = sumZ a + sumZ b.
Proof. induction a as [|x a IH]; cbn; [reflexivity|]. rewrite IH. lia. Qed.

Lemma sumZ_map_ext {A} (f g : A -> Z) l :
  (forall x, In x l -> f x = g x) -> sumZ (map f l) = sumZ (map g l).
Proof.
  induction l as [|x l IH]; intros H; cbn; [reflexivity|].
  rewrite (H x) by (left; reflexivity). rewrite IH; [reflexivity|]. intros y Hy. apply H. right. exact Hy.
Qed.

Lemma sumZ_map_zero {A} (f : A -> Z) l : (forall x, In x l -> f x = 0) -> sumZ (map f l) = 0.
Proof.
  induction l as [|x l IH]; intros H; cbn; [reflexivity|].
  rewrite (H x) by (left; reflexivity). rewrite IH; [reflexivity|]. intros y Hy. apply H. right. exact Hy.
Qed.

Lemma sumZ_map_add {A} (f g : A -> Z) l :
  sumZ (map (fun x => f x + g x) l) = sumZ (map f l) + sumZ (map g l).
Proof. induction l as [|x l IH]; cbn; [reflexivity|]. rewrite IH. lia. Qed.

Lemma seq_add_map a m : seq a m = map (fun j => (a + j)%nat) (seq 0 m).
Proof.
  revert a. induction m as [|m IH]; intros a; [reflexivity|].
  cbn [seq map]. f_equal; [lia|].
  rewrite (IH (S a)), <- (seq_shift m 0), map_map. apply map_ext. intros j. lia.
Qed.

(* the indicator of one index picks one term *)
Lemma sumZ_pick (F : nat -> Z) a L i :
  sumZ (map (fun k => if (k =? i)%nat then F k else 0) (seq a L))
  = if ((a <=? i) && (i <? a + L))%nat then F i else 0.
Proof.
  revert a. induction L as [|L IH]; intros a; cbn [seq map sumZ].
  - destruct (Nat.leb_spec a i), (Nat.ltb_spec i (a + 0)); cbn [andb]; try reflexivity; lia.
  - rewrite IH.
    destruct (Nat.eqb_spec a i); destruct (Nat.leb_spec (S a) i), (Nat.ltb_spec i (S a + L)),
      (Nat.leb_spec a i), (Nat.ltb_spec i (a + S L)); cbn [andb]; subst; try lia.
Qed.

(* a window [p+1, min(p+R+1, L)) of a sum over [0, L) *)
Lemma sumZ_window (F : nat -> Z) (p R L : nat) :
  (p < L)%nat ->
  sumZ (map (fun q => if ((p <? q) && (q <=? p + R))%nat then F q else 0) (seq 0 L))
  = sumZ (map (fun j => F (p + 1 + j)%nat) (seq 0 (Nat.min (p + R + 1) L - (p + 1)))).
Proof.
  intros Hp. set (m := (Nat.min (p + R + 1) L - (p + 1))%nat).
  assert (Hm : (m = Nat.min (p + R + 1) L - (p + 1))%nat) by reflexivity. clearbody m.
  remember (p + 1)%nat as a eqn:Ha. remember (L - a - m)%nat as r eqn:Hr.
  replace L with (a + (m + r))%nat at 1 by lia.
  rewrite (seq_app a), (seq_app m), !map_app, !sumZ_app. cbn [Nat.add].
  rewrite (sumZ_map_zero _ (seq 0 a)).
  2:{ intros q Hq. apply in_seq in Hq. replace (p <? q)%nat with false; [reflexivity|].
      symmetry. apply Nat.ltb_ge. lia. }
  rewrite (sumZ_map_zero _ (seq (a + m) r)).
  2:{ intros q Hq. apply in_seq in Hq.
      replace (q <=? p + R)%nat with false; [rewrite andb_false_r; reflexivity|].
      symmetry. apply Nat.leb_gt. lia. }
  rewrite (seq_add_map a m), map_map.
  rewrite (sumZ_map_ext _ (fun j => F (a + j)%nat)); [lia|].
  intros j Hj. apply in_seq in Hj.
  replace (p <? a + j)%nat with true by (symmetry; apply Nat.ltb_lt; lia).
  replace (a + j <=? p + R)%nat with true by (symmetry; apply Nat.leb_le; lia). reflexivity.
Qed.

(* ================= cells ================= *)
Lemma cell_nil i j : cell [] i j = 0.
Proof. reflexivity. Qed.

Lemma cell_cons t ts i j : cell (t :: ts) i j = (if at_coord i j t then tval t else 0) + cell ts i j.
Proof. unfold cell; cbn. destruct (at_coord i j t); lia. Qed.

Lemma cell_app a b i j : cell (a ++ b) i j = cell a i j + cell b i j.
Proof. induction a as [|t a IH]; [reflexivity|]. rewrite <- app_comm_cons, !cell_cons, IH. lia. Qed.

Lemma cell_sum ts i j : cell ts i j = sumZ (map (fun t => if at_coord i j t then tval t else 0) ts).
Proof. induction ts as [|t ts IH]; [reflexivity|]. rewrite cell_cons, IH. reflexivity. Qed.

Lemma cell_perm a b i j : Permutation a b -> cell a i j = cell b i j.
Proof.
  induction 1 as [|x l l' _ IH|x y l|l l' l'' _ IH1 _ IH2]; rewrite ?cell_cons; try lia.
Qed.

Lemma cell_flat_map {A} (f : A -> list triple) l i j :
  cell (flat_map f l) i j = sumZ (map (fun x => cell (f x) i j) l).
Proof. induction l as [|x l IH]; [reflexivity|]. cbn [flat_map map sumZ]. rewrite cell_app, IH. reflexivity. Qed.

Lemma cell_zero ts i j : (forall t, In t ts -> at_coord i j t = false) -> cell ts i j = 0.
Proof.
  induction ts as [|t ts IH]; intros H; [reflexivity|]. rewrite cell_cons, (H t) by (left; reflexivity).
  rewrite IH; [reflexivity|]. intros u Hu. apply H. right. exact Hu.
Qed.

Lemma at_coord_true i j t : at_coord i j t = true <-> trow t = i /\ tcol t = j.
Proof. unfold at_coord. rewrite andb_true_iff, !Z.eqb_eq. tauto. Qed.

Lemma cell_filter_nonzero ts i j : cell (filter (fun t => negb (tval t =? 0)) ts) i j = cell ts i j.
Proof.
  induction ts as [|t ts IH]; [reflexivity|]. cbn [filter].
  destruct (tval t =? 0) eqn:E; cbn [negb]; rewrite ?cell_cons, IH; [|reflexivity].
  apply Z.eqb_eq in E. rewrite E. destruct (at_coord i j t); lia.
Qed.

Lemma cell_filter_cols W ts i j : j < W -> cell (filter (fun t => tcol t <? W) ts) i j = cell ts i j.
Proof.
  intros Hj. induction ts as [|t ts IH]; [reflexivity|]. cbn [filter].
  destruct (tcol t <? W) eqn:E; rewrite ?cell_cons, IH; [reflexivity|].
  apply Z.ltb_ge in E. destruct (at_coord i j t) eqn:Ec; [|lia].
  apply at_coord_true in Ec. lia.
Qed.

(* rows built document by document *)
Lemma cell_by_rows {A} (g : nat -> list A) (c v : nat -> A -> Z) a L i j :
  cell (flat_map (fun i' => map (fun x => (Z.of_nat i', c i' x, v i' x)) (g i')) (seq a L)) (Z.of_nat i) j
  = if ((a <=? i) && (i <? a + L))%nat
    then sumZ (map (fun x => if c i x =? j then v i x else 0) (g i)) else 0.
Proof.
  rewrite cell_flat_map.
  rewrite (sumZ_map_ext _ (fun k => if (k =? i)%nat
                                    then sumZ (map (fun x => if c i x =? j then v i x else 0) (g i)) else 0)).
  - apply sumZ_pick.
  - intros k _. destruct (k =? i)%nat eqn:E.
    + apply Nat.eqb_eq in E. subst k. rewrite cell_sum, map_map. apply sumZ_map_ext. intros x _.
      unfold at_coord, trow, tcol, tval; cbn. rewrite Z.eqb_refl. reflexivity.
    + apply Nat.eqb_neq in E. apply cell_zero. intros t Ht. apply in_map_iff in Ht. destruct Ht as [x [<- _]].
      unfold at_coord, trow; cbn. replace (Z.of_nat k =? Z.of_nat i) with false; [reflexivity|].
      symmetry. apply Z.eqb_neq. lia.
Qed.

(* ================= sorting, sum_coo_entries ================= *)
Lemma insert_by_perm {A} (leb : A -> A -> bool) x l : Permutation (insert_by leb x l) (x :: l).
Proof.
  induction l as [|y l IH]; cbn; [apply Permutation_refl|].
  destruct (leb x y); [apply Permutation_refl|].
  eapply Permutation_trans; [apply perm_skip, IH|apply perm_swap].
Qed.

Lemma isort_by_perm {A} (leb : A -> A -> bool) l : Permutation (isort_by leb l) l.
Proof.
  induction l as [|x l IH]; cbn; [apply Permutation_refl|].
  eapply Permutation_trans; [apply insert_by_perm|apply perm_skip, IH].
Qed.

Lemma sum_runs_cell r c acc l i j :
  cell (sum_runs r c acc l) i j = (if (r =? i) && (c =? j) then acc else 0) + cell l i j.
Proof.
  revert r c acc. induction l as [|e l IH]; intros r c acc; cbn [sum_runs].
  - rewrite cell_cons, cell_nil. unfold at_coord, trow, tcol, tval; cbn. lia.
  - destruct (at_coord r c e) eqn:E.
    + rewrite IH, cell_cons. apply at_coord_true in E. destruct E as [<- <-].
      unfold at_coord. destruct ((trow e =? i) && (tcol e =? j)); lia.
    + rewrite cell_cons, IH, cell_cons. unfold at_coord at 1, trow at 1, tcol at 1, tval at 1; cbn [fst snd].
      unfold at_coord. destruct ((trow e =? i) && (tcol e =? j)), ((r =? i) && (c =? j)); lia.
Qed.

Lemma sum_coo_entries_cell l i j : cell (sum_coo_entries l) i j = cell l i j.
Proof.
  unfold sum_coo_entries. pose proof (isort_by_perm triple_leb l) as P.
  destruct (isort_by triple_leb l) as [|e0 s] eqn:E.
  - apply Permutation_nil in P. subst l. reflexivity.
  - rewrite sum_runs_cell, <- (cell_perm _ _ i j P). destruct ((trow e0 =? i) && (tcol e0 =? j)); lia.
Qed.

(* the coordinates produced by sum_coo_entries are coordinates of its input *)
Lemma sum_runs_coords (P : Z -> Z -> Prop) r c acc l :
  P r c -> Forall (fun t => P (trow t) (tcol t)) l ->
  Forall (fun t => P (trow t) (tcol t)) (sum_runs r c acc l).
Proof.
  revert r c acc. induction l as [|e l IH]; intros r c acc Hrc Hl; cbn [sum_runs].
  - constructor; [exact Hrc|constructor].
  - inversion Hl as [|? ? He Hl']; subst. destruct (at_coord r c e).
    + apply IH; assumption.
    + constructor; [exact Hrc|]. apply IH; assumption.
Qed.

Lemma sum_coo_entries_coords (P : Z -> Z -> Prop) l :
  Forall (fun t => P (trow t) (tcol t)) l -> Forall (fun t => P (trow t) (tcol t)) (sum_coo_entries l).
Proof.
  intros H. unfold sum_coo_entries.
  assert (Hs : Forall (fun t => P (trow t) (tcol t)) (isort_by triple_leb l)).
  { apply Forall_forall. intros t Ht. rewrite Forall_forall in H. apply H.
    eapply Permutation_in; [apply isort_by_perm|exact Ht]. }
  destruct (isort_by triple_leb l) as [|e0 s]; [constructor|].
  apply sum_runs_coords; [|exact Hs]. inversion Hs; assumption.
Qed.

(* ================= association lists ================= *)
Section Assoc.
  Context {K : Type} (eqb : K -> K -> bool).
  Hypothesis eqb_spec : forall x y, eqb x y = true <-> x = y.

  Lemma alookup_In (k : K) (v : Z) d : alookup eqb k d = Some v -> In (k, v) d.
  Proof.
    induction d as [|[k' v'] d IH]; cbn; [discriminate|].
    destruct (eqb k' k) eqn:E.
    - intros [= ->]. apply eqb_spec in E. subst. left. reflexivity.
    - intros H. right. apply IH. exact H.
  Qed.

  Lemma alookup_key (k : K) d : In k (map fst d) -> exists v : Z, alookup eqb k d = Some v.
  Proof.
    induction d as [|[k' v'] d IH]; cbn; [tauto|].
    intros [<-|H].
    - replace (eqb k' k') with true by (symmetry; apply eqb_spec; reflexivity). eauto.
    - destruct (eqb k' k); eauto.
  Qed.

  Lemma alookup_None (k : K) (d : list (K * Z)) : alookup eqb k d = None -> ~ In k (map fst d).
  Proof.
    intros H Hin. destruct (alookup_key k d Hin) as [v Hv]. congruence.
  Qed.

  Lemma In_snd_unique (d : list (K * Z)) k k' v :
    NoDup (map snd d) -> In (k, v) d -> In (k', v) d -> k = k'.
  Proof.
    induction d as [|[k0 v0] d IH]; cbn; [tauto|].
    intros ND H1 H2. inversion ND as [|? ? Hn ND']; subst.
    destruct H1 as [H1|H1], H2 as [H2|H2].
    - congruence.
    - injection H1 as -> ->. exfalso. apply Hn. change v with (snd (k', v)). apply in_map. exact H2.
    - injection H2 as -> ->. exfalso. apply Hn. change v with (snd (k, v)). apply in_map. exact H1.
    - apply IH; assumption.
  Qed.

  Lemma alookup_inj (d : list (K * Z)) k k' v :
    NoDup (map snd d) -> alookup eqb k d = Some v -> alookup eqb k' d = Some v -> k = k'.
  Proof. intros ND H1 H2. eapply In_snd_unique; eauto using alookup_In. Qed.

  Lemma alookup_NoDup_In (d : list (K * Z)) k v :
    NoDup (map fst d) -> In (k, v) d -> alookup eqb k d = Some v.
  Proof.
    induction d as [|[k0 v0] d IH]; cbn; [tauto|].
    intros ND H. inversion ND as [|? ? Hn ND']; subst. destruct H as [[= -> ->]|H].
    - replace (eqb k k) with true by (symmetry; apply eqb_spec; reflexivity). reflexivity.
    - destruct (eqb k0 k) eqn:E.
      + apply eqb_spec in E. subst. exfalso. apply Hn. apply in_map_iff. exists (k, v). split; [reflexivity|exact H].
      + apply IH; assumption.
  Qed.
End Assoc.

Lemma Zeqb_spec x y : (x =? y) = true <-> x = y.
Proof. apply Z.eqb_eq. Qed.

Lemma lookup_In k v d : lookup k d = Some v -> In (k, v) d.
Proof. apply (alookup_In Z.eqb Zeqb_spec). Qed.
Lemma lookup_key k d : In k (map fst d) -> exists v, lookup k d = Some v.
Proof. apply (alookup_key Z.eqb Zeqb_spec). Qed.
Lemma lookup_inj d k k' v : NoDup (map snd d) -> lookup k d = Some v -> lookup k' d = Some v -> k = k'.
Proof. apply (alookup_inj Z.eqb Zeqb_spec). Qed.
Lemma lookup_NoDup_In d k v : NoDup (map fst d) -> In (k, v) d -> lookup k d = Some v.
Proof. apply (alookup_NoDup_In Z.eqb Zeqb_spec). Qed.

Lemma map_fst_combine {A B} (l : list A) (l' : list B) : length l = length l' -> map fst (combine l l') = l.
Proof.
  revert l'. induction l as [|x l IH]; intros [|y l'] H; cbn in *; try discriminate; [reflexivity|].
  f_equal. apply IH. lia.
Qed.

Lemma map_snd_combine {A B} (l : list A) (l' : list B) : length l = length l' -> map snd (combine l l') = l'.
Proof.
  revert l'. induction l as [|x l IH]; intros [|y l'] H; cbn in *; try discriminate; [reflexivity|].
  f_equal. apply IH. lia.
Qed.

Lemma NoDup_nat_seq_Z a n : NoDup (map Z.of_nat (seq a n)).
Proof.
  apply FinFun.Injective_map_NoDup; [|apply seq_NoDup]. intros x y H. lia.
Qed.

Lemma enum_dict_keys keys : map fst (enum_dict keys) = keys.
Proof. unfold enum_dict. apply map_fst_combine. rewrite map_length, seq_length. reflexivity. Qed.

Lemma enum_dict_values keys : map snd (enum_dict keys) = map Z.of_nat (seq 0 (length keys)).
Proof. unfold enum_dict. apply map_snd_combine. rewrite map_length, seq_length. reflexivity. Qed.

Lemma enum_dict_values_NoDup keys : NoDup (map snd (enum_dict keys)).
Proof. rewrite enum_dict_values. apply NoDup_nat_seq_Z. Qed.

Lemma enum_dict_length keys : length (enum_dict keys) = length keys.
Proof. unfold enum_dict. rewrite combine_length, map_length, seq_length. lia. Qed.

Lemma sort_uniq_In x l : In x (sort_uniq l) <-> In x l.
Proof.
  unfold sort_uniq. split; intros H.
  - apply (nodup_In Z.eq_dec). eapply Permutation_in; [apply isort_by_perm|exact H].
  - eapply Permutation_in; [apply Permutation_sym, isort_by_perm|]. apply nodup_In. exact H.
Qed.

Lemma sort_uniq_NoDup l : NoDup (sort_uniq l).
Proof.
  unfold sort_uniq. eapply Permutation_NoDup; [apply Permutation_sym, isort_by_perm|apply NoDup_nodup].
Qed.

Lemma max_list_ge x l : In x l -> x <= max_list l.
Proof.
  induction l as [|y l IH]; [cbn; tauto|]. change (max_list (y :: l)) with (Z.max y (max_list l)).
  intros [->|H]; [lia|]. specialize (IH H). lia.
Qed.

Lemma max_list_nonneg l : 0 <= max_list l.
Proof. induction l as [|y l IH]; [cbn; lia|]. change (max_list (y :: l)) with (Z.max y (max_list l)). lia. Qed.

(* ================= coo_matrix, column selection ================= *)
Lemma coo_matrix_shape_ok h w ts :
  Forall (fun t => 0 <= trow t < h /\ 0 <= tcol t < w) ts -> coo_matrix (Some (h, w)) ts = Ok (h, w, ts).
Proof.
  intros H. unfold coo_matrix.
  replace (forallb (in_shape h w) ts) with true; [reflexivity|].
  symmetry. apply forallb_forall. intros t Ht. rewrite Forall_forall in H. specialize (H t Ht).
  unfold in_shape. rewrite !andb_true_iff, !Z.leb_le, !Z.ltb_lt. lia.
Qed.

Lemma index_of_Some x l k : index_of x l = Some k -> 0 <= k < Z.of_nat (length l) /\ nth (Z.to_nat k) l 0 = x.
Proof.
  revert k. induction l as [|y l IH]; intros k; cbn [index_of]; [discriminate|].
  destruct (y =? x) eqn:E.
  - intros [= <-]. apply Z.eqb_eq in E. cbn. split; [lia|exact E].
  - destruct (index_of x l) as [k'|]; cbn; [|discriminate]. intros [= <-].
    destruct (IH k' eq_refl) as [Hk Hn]. cbn [length]. split; [lia|].
    replace (Z.to_nat (Z.succ k')) with (S (Z.to_nat k')) by lia. exact Hn.
Qed.

Lemma index_of_nth l k : NoDup l -> (k < length l)%nat -> index_of (nth k l 0) l = Some (Z.of_nat k).
Proof.
  revert k. induction l as [|y l IH]; intros k ND Hk; cbn in Hk; [lia|].
  inversion ND as [|? ? Hn ND']; subst. destruct k as [|k]; cbn [nth index_of].
  - rewrite Z.eqb_refl. reflexivity.
  - destruct (y =? nth k l 0) eqn:E.
    + apply Z.eqb_eq in E. exfalso. apply Hn. rewrite E. apply nth_In. lia.
    + rewrite IH by (assumption || lia). cbn. f_equal. lia.
Qed.

Lemma index_of_None x l : index_of x l = None -> ~ In x l.
Proof.
  induction l as [|y l IH]; cbn [index_of]; [tauto|].
  destruct (y =? x) eqn:E; [discriminate|]. apply Z.eqb_neq in E.
  destruct (index_of x l); cbn; [discriminate|]. intros _ [H|H]; [congruence|]. apply IH; [reflexivity|exact H].
Qed.

Lemma cell_select_cols kept m i k :
  NoDup kept -> (k < length kept)%nat ->
  cell (entries (select_cols kept m)) i (Z.of_nat k) = cell (entries m) i (nth k kept 0).
Proof.
  intros ND Hk. unfold select_cols, entries at 1; cbn [snd].
  induction (entries m) as [|t ts IH]; [reflexivity|]. cbn [flat_map]. rewrite cell_app, IH, cell_cons. f_equal.
  destruct (index_of (tcol t) kept) as [k'|] eqn:E.
  - rewrite cell_cons, cell_nil. unfold at_coord, trow, tcol, tval; cbn [fst snd].
    destruct (index_of_Some _ _ _ E) as [Hk' Hn].
    destruct (fst (fst t) =? i); cbn [andb]; [|lia].
    destruct (k' =? Z.of_nat k) eqn:E1.
    + apply Z.eqb_eq in E1. subst k'. rewrite Nat2Z.id in Hn. unfold tcol in Hn. rewrite Hn, Z.eqb_refl. lia.
    + apply Z.eqb_neq in E1. destruct (snd (fst t) =? nth k kept 0) eqn:E2; [|lia].
      apply Z.eqb_eq in E2. exfalso. unfold tcol in E. rewrite E2, index_of_nth in E by assumption.
      injection E as <-. lia.
  - rewrite cell_nil. destruct (at_coord i (nth k kept 0) t) eqn:Ec; [|lia].
    apply at_coord_true in Ec. destruct Ec as [_ Ec]. exfalso. apply (index_of_None _ _ E).
    rewrite Ec. apply nth_In. exact Hk.
Qed.

Lemma select_cols_in_range kept m t :
  In t (entries (select_cols kept m)) ->
  0 <= tcol t < Z.of_nat (length kept) /\ exists u, In u (entries m) /\ trow u = trow t.
Proof.
  unfold select_cols, entries at 1; cbn [snd]. intros H. apply in_flat_map in H. destruct H as [u [Hu Ht]].
  destruct (index_of (tcol u) kept) as [k|] eqn:E; [|destruct Ht].
  destruct Ht as [<-|[]]. unfold tcol at 1 2, trow at 2; cbn [fst snd].
  destruct (index_of_Some _ _ _ E) as [Hk _]. split; [exact Hk|]. exists u. split; [exact Hu|reflexivity].
Qed.

Lemma kept_from_spec j mask x :
  In x (kept_from j mask) <-> j <= x < j + Z.of_nat (length mask) /\ nth (Z.to_nat (x - j)) mask false = true.
Proof.
  revert j. induction mask as [|b mask IH]; intros j; cbn [kept_from length In].
  - split; [tauto|]. intros [H _]. lia.
  - assert (Hstep : forall y, j + 1 <= y -> Z.to_nat (y - j) = S (Z.to_nat (y - (j + 1)))) by (intros; lia).
    destruct b; cbn [In]; rewrite IH; split.
    + intros [<-|[H1 H2]]; [rewrite Z.sub_diag; cbn; split; [lia|reflexivity]|].
      split; [lia|]. rewrite Hstep by lia. exact H2.
    + intros [H1 H2]. destruct (Z.eq_dec j x) as [->|Hne]; [left; reflexivity|right].
      split; [lia|]. rewrite Hstep in H2 by lia. exact H2.
    + intros [H1 H2]. split; [lia|]. rewrite Hstep by lia. exact H2.
    + intros [H1 H2]. destruct (Z.eq_dec j x) as [->|Hne].
      * rewrite Z.sub_diag in H2. cbn in H2. discriminate.
      * split; [lia|]. rewrite Hstep in H2 by lia. exact H2.
Qed.

Lemma kept_from_NoDup j mask : NoDup (kept_from j mask).
Proof.
  revert j. induction mask as [|b mask IH]; intros j; cbn [kept_from]; [constructor|].
  destruct b; [|apply IH]. constructor; [|apply IH]. intros H. apply kept_from_spec in H. lia.
Qed.

Lemma kept_columns_NoDup mask : NoDup (kept_columns mask).
Proof. apply kept_from_NoDup. Qed.

Lemma kept_columns_range mask x : In x (kept_columns mask) -> 0 <= x < Z.of_nat (length mask).
Proof. intros H. apply kept_from_spec in H. lia. Qed.

(* ================= EdgeListVectorizer ================= *)
Definition dict_inj (d : dict) : Prop :=
  forall k k' v, lookup k d = Some v -> lookup k' d = Some v -> k = k'.
Definition dict_nonneg (d : dict) : Prop := Forall (fun kv => 0 <= snd kv) d.
Definition el_wf (M : el_model) : Prop := dict_nonneg (fst M) /\ dict_nonneg (snd M).

Lemma NoDup_values_inj d : NoDup (map snd d) -> dict_inj d.
Proof. intros ND k k' v. apply lookup_inj. exact ND. Qed.

Lemma lookup_bounds d k v : dict_nonneg d -> lookup k d = Some v -> 0 <= v < dict_dim d.
Proof.
  intros Hd H. apply lookup_In in H. unfold dict_nonneg in Hd. rewrite Forall_forall in Hd.
  pose proof (Hd _ H) as H0. cbn in H0. split; [exact H0|]. unfold dict_dim.
  assert (v <= max_list (map snd d)); [|lia]. apply max_list_ge. change v with (snd (k, v)). apply in_map. exact H.
Qed.

Lemma el_cell M edges r c i j :
  dict_inj (fst M) -> dict_inj (snd M) -> lookup r (fst M) = Some i -> lookup c (snd M) = Some j ->
  cell (el_indexed M edges) i j = cell edges r c.
Proof.
  intros Hr Hc Li Lj. unfold el_indexed. induction edges as [|e edges IH]; [reflexivity|].
  cbn [flat_map]. rewrite cell_app, IH, (cell_cons e). f_equal.
  destruct (lookup (trow e) (fst M)) as [i'|] eqn:E1; [destruct (lookup (tcol e) (snd M)) as [j'|] eqn:E2|].
  - rewrite cell_cons, cell_nil. unfold at_coord at 1, trow at 1, tcol at 1, tval at 1; cbn [fst snd].
    change (tval (i', j', tval e)) with (tval e).
    replace ((i' =? i) && (j' =? j)) with (at_coord r c e); [lia|].
    unfold at_coord. apply eq_true_iff_eq. rewrite !andb_true_iff, !Z.eqb_eq. split; intros [H1 H2]; split.
    + subst. congruence.
    + subst. congruence.
    + subst. eapply Hr; eassumption.
    + subst. eapply Hc; eassumption.
  - rewrite cell_nil. destruct (at_coord r c e) eqn:Ec; [|lia]. apply at_coord_true in Ec. destruct Ec as [<- <-]. congruence.
  - rewrite cell_nil. destruct (at_coord r c e) eqn:Ec; [|lia]. apply at_coord_true in Ec. destruct Ec as [<- <-]. congruence.
Qed.

Lemma el_indexed_in_shape M edges :
  el_wf M ->
  Forall (fun t => 0 <= trow t < dict_dim (fst M) /\ 0 <= tcol t < dict_dim (snd M)) (el_indexed M edges).
Proof.
  intros [Wr Wc]. apply Forall_forall. intros t Ht. unfold el_indexed in Ht. apply in_flat_map in Ht.
  destruct Ht as [e [_ Ht]].
  destruct (lookup (trow e) (fst M)) as [i|] eqn:E1; [|destruct Ht].
  destruct (lookup (tcol e) (snd M)) as [j|] eqn:E2; [|destruct Ht].
  destruct Ht as [<-|[]]. unfold trow at 1 2, tcol at 1 2; cbn [fst snd].
  split; eapply lookup_bounds; eassumption.
Qed.

Lemma el_transform_ok M edges :
  el_wf M -> el_transform M edges = Ok (dict_dim (fst M), dict_dim (snd M), el_indexed M edges).
Proof. intros W. unfold el_transform, el_shape. apply coo_matrix_shape_ok. apply el_indexed_in_shape. exact W. Qed.

Definition is_some {A} (o : option A) : bool := match o with Some _ => true | None => false end.
Definition el_known (M : el_model) (e : triple) : bool :=
  is_some (lookup (trow e) (fst M)) && is_some (lookup (tcol e) (snd M)).

Lemma el_indexed_strip M edges : el_indexed M (filter (el_known M) edges) = el_indexed M edges.
Proof.
  unfold el_indexed. induction edges as [|e edges IH]; [reflexivity|]. cbn [filter flat_map]. unfold el_known at 1.
  destruct (lookup (trow e) (fst M)) as [i|] eqn:E1; [destruct (lookup (tcol e) (snd M)) as [j|] eqn:E2|]; cbn [is_some andb].
  - cbn [flat_map]. rewrite E1, E2, IH. reflexivity.
  - exact IH.
  - exact IH.
Qed.

Lemma el_fit_inv rd cd joint edges M tr :
  el_fit rd cd joint edges = Ok (M, tr) ->
  el_dicts rd cd joint edges = Ok M /\ el_transform M edges = Ok tr.
Proof.
  unfold el_fit, bind. destruct (el_dicts rd cd joint edges) as [M'|]; [|discriminate].
  destruct (el_transform M' edges) as [m|] eqn:E; [|discriminate]. intros [= <- <-]. split; [reflexivity|exact E].
Qed.

Lemma enum_dict_nonneg keys : dict_nonneg (enum_dict keys).
Proof.
  unfold dict_nonneg. apply Forall_forall. intros [k v] H. cbn.
  assert (Hv : In v (map snd (enum_dict keys))) by (change v with (snd (k, v)); apply in_map; exact H).
  rewrite enum_dict_values in Hv. apply in_map_iff in Hv. destruct Hv as [x [<- _]]. lia.
Qed.

Lemma enum_dict_inj keys : dict_inj (enum_dict keys).
Proof. apply NoDup_values_inj, enum_dict_values_NoDup. Qed.

Lemma learned_lookup l x : In x l -> exists i, lookup x (enum_dict (sort_uniq l)) = Some i.
Proof. intros H. apply lookup_key. rewrite enum_dict_keys. apply sort_uniq_In. exact H. Qed.

(* ================= SkipgramVectorizer ================= *)
Definition skip_spec (Rs : list Z) (w : nat -> Z) (s : list Z) (a b : Z) : Z :=
  sumZ (map (fun p =>
    if nth p s 0 =? a then
      sumZ (map (fun q => if ((p <? q) && (q <=? p + radius Rs a))%nat
                          then (if nth q s 0 =? b then w (q - p)%nat else 0) else 0)
                (seq 0 (length s)))
    else 0) (seq 0 (length s))).

Lemma k10_nth_firstn {A} (d : A) n (l : list A) j : (j < n)%nat -> nth j (firstn n l) d = nth j l d.
Proof.
  revert l j. induction n as [|n IH]; intros l j H; [lia|].
  destruct l as [|x l]; [reflexivity|]. destruct j as [|j]; [reflexivity|]. cbn. apply IH. lia.
Qed.

Lemma k10_nth_skipn {A} (d : A) n (l : list A) j : nth j (skipn n l) d = nth (n + j) l d.
Proof.
  revert l. induction n as [|n IH]; intros l; [reflexivity|].
  destruct l as [|x l]; [destruct j; reflexivity|]. cbn. apply IH.
Qed.

Lemma window_after_length s R p :
  (p < length s)%nat -> length (window_after s R p) = (Nat.min (p + R + 1) (length s) - (p + 1))%nat.
Proof. intros H. unfold window_after. rewrite firstn_length, skipn_length. lia. Qed.

Lemma window_after_nth s R p j :
  (j < Nat.min (p + R + 1) (length s) - (p + 1))%nat -> nth j (window_after s R p) 0 = nth (p + 1 + j) s 0.
Proof. intros H. unfold window_after. rewrite k10_nth_firstn by exact H. apply k10_nth_skipn. Qed.

Lemma skip_events_cell Rs w s a b : cell (skip_events Rs w s) a b = skip_spec Rs w s a b.
Proof.
  unfold skip_events, skip_spec. rewrite cell_cons.
  replace (if at_coord a b (0, 0, 0) then tval (0, 0, 0) else 0) with 0
    by (unfold tval; cbn; destruct (at_coord a b (0, 0, 0)); reflexivity).
  rewrite Z.add_0_l, cell_flat_map. apply sumZ_map_ext. intros p Hp. apply in_seq in Hp. cbv zeta.
  rewrite cell_sum, map_map. unfold at_coord, trow, tcol, tval; cbn [fst snd].
  destruct (nth p s 0 =? a) eqn:Ea; cbn [andb].
  - apply Z.eqb_eq in Ea. rewrite Ea.
    rewrite (sumZ_window (fun q => if nth q s 0 =? b then w (q - p)%nat else 0)) by lia.
    rewrite window_after_length by lia. apply sumZ_map_ext. intros j Hj. apply in_seq in Hj.
    rewrite window_after_nth by lia. replace (p + 1 + j - p)%nat with (S j) by lia. reflexivity.
  - apply sumZ_map_zero. intros j _. reflexivity.
Qed.

Lemma build_skip_grams_cell Rs w s a b : cell (build_skip_grams Rs w s) a b = skip_spec Rs w s a b.
Proof. unfold build_skip_grams. rewrite sum_coo_entries_cell. apply skip_events_cell. Qed.

Lemma In_firstn {A} (x : A) n l : In x (firstn n l) -> In x l.
Proof.
  revert l. induction n as [|n IH]; intros [|y l]; cbn; try tauto. intros [H|H]; [left; exact H|right; apply IH; exact H].
Qed.

Lemma In_skipn {A} (x : A) n l : In x (skipn n l) -> In x l.
Proof.
  revert l. induction n as [|n IH]; intros [|y l]; cbn; try tauto. intros H. right. apply IH. exact H.
Qed.

Lemma skip_events_coords (P : Z -> Prop) Rs w s :
  P 0 -> Forall P s -> Forall (fun t => P (trow t) /\ P (tcol t)) (skip_events Rs w s).
Proof.
  intros H0 Hs. rewrite Forall_forall in Hs. unfold skip_events. constructor; [split; exact H0|].
  apply Forall_forall. intros t Ht. apply in_flat_map in Ht. destruct Ht as [p [Hp Ht]]. apply in_seq in Hp.
  cbv zeta in Ht. apply in_map_iff in Ht. destruct Ht as [j [<- Hj]]. apply in_seq in Hj.
  unfold trow, tcol; cbn [fst snd]. split.
  - apply Hs. apply nth_In. lia.
  - apply Hs. eapply In_skipn, In_firstn. unfold window_after in *. apply nth_In. lia.
Qed.

Lemma build_skip_grams_coords (P : Z -> Prop) Rs w s :
  P 0 -> Forall P s -> Forall (fun t => P (trow t) /\ P (tcol t)) (build_skip_grams Rs w s).
Proof.
  intros H0 Hs. unfold build_skip_grams.
  apply (sum_coo_entries_coords (fun r c => P r /\ P c)). apply skip_events_coords; assumption.
Qed.

Lemma colcode_inj n a b a' b' : 0 <= b < n -> 0 <= b' < n -> colcode n a b = colcode n a' b' -> a = a' /\ b = b'.
Proof. unfold colcode. intros Hb Hb' H. assert (a = a') by nia. subst. lia. Qed.

Lemma colcode_roundtrip n a b : 0 <= b < n -> decode n (colcode n a b) = (a, b).
Proof.
  intros Hb. unfold decode, colcode. f_equal.
  - rewrite Z.div_add_l by lia. rewrite Z.div_small by lia. lia.
  - rewrite Z.add_comm, Z.mod_add by lia. apply Z.mod_small. lia.
Qed.

Lemma decode_colcode n c : 0 < n -> let '(a, b) := decode n c in colcode n a b = c /\ 0 <= b < n.
Proof.
  intros Hn. unfold decode, colcode. split; [|apply Z.mod_pos_bound; lia].
  rewrite Z.mul_comm. symmetry. apply Z.div_mod. lia.
Qed.

Definition tokens_in (n : Z) (s : list Z) : Prop := Forall (fun t => 0 <= t < n) s.

Lemma skip_coo_data_cell Rs w seqs i a b :
  let n := Z.of_nat (length Rs) - 1 in
  (i < length seqs)%nat -> tokens_in n (nth i seqs []) -> 0 <= b < n ->
  cell (skip_coo_data Rs w seqs) (Z.of_nat i) (colcode n a b) = skip_spec Rs w (nth i seqs []) a b.
Proof.
  intros n Hi Hs Hb. unfold skip_coo_data. fold n.
  rewrite (cell_by_rows (fun i' => build_skip_grams Rs w (nth i' seqs []))
                        (fun _ t => colcode n (trow t) (tcol t)) (fun _ t => tval t)).
  replace ((0 <=? i) && (i <? 0 + length seqs))%nat with true
    by (symmetry; apply andb_true_iff; split; [apply Nat.leb_le|apply Nat.ltb_lt]; lia).
  rewrite <- build_skip_grams_cell, cell_sum. apply sumZ_map_ext. intros t Ht.
  assert (Hc : 0 <= tcol t < n).
  { assert (HF : Forall (fun t => 0 <= trow t < n /\ 0 <= tcol t < n) (build_skip_grams Rs w (nth i seqs []))).
    { apply (build_skip_grams_coords (fun x => 0 <= x < n)); [lia|exact Hs]. }
    rewrite Forall_forall in HF. apply (HF t Ht). }
  replace (colcode n (trow t) (tcol t) =? colcode n a b) with (at_coord a b t); [reflexivity|].
  unfold at_coord. apply eq_true_iff_eq. rewrite andb_true_iff, !Z.eqb_eq. split.
  - intros [-> ->]. reflexivity.
  - intros H. apply colcode_inj in H; [exact H|exact Hc|exact Hb].
Qed.

Lemma skip_coo_data_rows Rs w seqs t :
  In t (skip_coo_data Rs w seqs) ->
  exists i u, (i < length seqs)%nat /\ In u (build_skip_grams Rs w (nth i seqs [])) /\
              t = (Z.of_nat i, colcode (Z.of_nat (length Rs) - 1) (trow u) (tcol u), tval u).
Proof.
  unfold skip_coo_data. intros H. apply in_flat_map in H. destruct H as [i [Hi H]]. apply in_seq in Hi.
  apply in_map_iff in H. destruct H as [u [<- Hu]]. exists i, u. split; [lia|]. split; [exact Hu|reflexivity].
Qed.

(* kept token indices lie in the range of the dictionary's values *)
Lemma kept_tokens_in tokdict n doc :
  Forall (fun kv => 0 <= snd kv < n) tokdict -> tokens_in n (kept tokdict doc).
Proof.
  intros W. unfold tokens_in, kept. apply Forall_forall. intros t Ht. apply in_flat_map in Ht.
  destruct Ht as [l [_ Ht]]. destruct (lookup l tokdict) as [i|] eqn:E; [|destruct Ht]. destruct Ht as [<-|[]].
  apply lookup_In in E. rewrite Forall_forall in W. apply (W _ E).
Qed.

Definition tok_known (tokdict : dict) (t : Z) : bool := is_some (lookup t tokdict).

Lemma kept_strip tokdict doc : kept tokdict (filter (tok_known tokdict) doc) = kept tokdict doc.
Proof.
  unfold kept. induction doc as [|t doc IH]; [reflexivity|]. cbn [filter flat_map]. unfold tok_known at 1.
  destruct (lookup t tokdict) as [i|] eqn:E; cbn [is_some].
  - cbn [flat_map]. rewrite E, IH. reflexivity.
  - exact IH.
Qed.

Definition sg_wf (tokdict : dict) (Rs : list Z) : Prop :=
  Z.of_nat (length Rs) - 1 = Z.of_nat (length tokdict) /\ 0 < Z.of_nat (length tokdict) /\
  Forall (fun kv => 0 <= snd kv < Z.of_nat (length tokdict)) tokdict.

Lemma coo_matrix_None_inv ts m :
  coo_matrix None ts = Ok m ->
  entries m = ts /\ nrows m = max_list (map trow ts) + 1 /\ ncols m = max_list (map tcol ts) + 1.
Proof.
  unfold coo_matrix. destruct ts as [|t ts]; [discriminate|].
  destruct (forallb _ (t :: ts)); [|discriminate]. intros [= <-]. repeat split.
Qed.

Lemma mask_cols_inv mask m m' : mask_cols mask m = Ok m' ->
  Z.of_nat (length mask) = ncols m /\ m' = select_cols (kept_columns mask) m.
Proof.
  unfold mask_cols. destruct (Z.of_nat (length mask) =? ncols m) eqn:E; [|discriminate].
  intros [= <-]. apply Z.eqb_eq in E. split; [exact E|reflexivity].
Qed.

Definition sg_data tokdict Rs w (docs : list (list Z)) := skip_coo_data Rs w (map (kept tokdict) docs).

Lemma sg_fit_inv tokdict Rs w docs M tr :
  sg_fit tokdict Rs w docs = Ok (M, tr) ->
  sg_tokdict M = tokdict /\ sg_radii M = Rs /\
  Z.of_nat (length (sg_mask M)) = max_list (map tcol (sg_data tokdict Rs w docs)) + 1 /\
  nrows tr = max_list (map trow (sg_data tokdict Rs w docs)) + 1 /\
  ncols tr = Z.of_nat (length (kept_columns (sg_mask M))) /\
  (forall i k, cell (entries tr) i k
               = cell (entries (select_cols (kept_columns (sg_mask M)) (0, 0, sg_data tokdict Rs w docs))) i k).
Proof.
  unfold sg_fit, bind. fold (sg_data tokdict Rs w docs). set (data := sg_data tokdict Rs w docs). intros H.
  destruct (coo_matrix None data) as [base|] eqn:E; [|discriminate].
  apply coo_matrix_None_inv in E. destruct E as [Ee [Er Ec]].
  destruct (mask_cols _ base) as [m|] eqn:Em; [|discriminate].
  apply mask_cols_inv in Em. destruct Em as [Hl ->]. injection H as <- <-.
  unfold sg_tokdict, sg_radii, sg_mask; cbn [fst snd]. repeat split.
  - rewrite Hl. exact Ec.
  - unfold eliminate_zeros, select_cols, nrows; cbn [fst snd]. exact Er.
  - intros i k. unfold eliminate_zeros, entries at 1; cbn [snd]. rewrite cell_filter_nonzero.
    destruct base as [[bh bw] bts]. unfold entries in Ee; cbn [snd] in Ee. subst bts.
    unfold select_cols, entries; cbn [fst snd]. reflexivity.
Qed.

Lemma sg_labels_nth M k a b :
  nth_error (sg_labels M) k = Some (a, b) ->
  (k < length (kept_columns (sg_mask M)))%nat /\
  decode (Z.of_nat (length (sg_tokdict M))) (nth k (kept_columns (sg_mask M)) 0) = (a, b).
Proof.
  unfold sg_labels. intros H. rewrite nth_error_map in H.
  destruct (nth_error (kept_columns (sg_mask M)) k) as [raw|] eqn:E; [|discriminate]. cbn in H.
  split; [apply nth_error_Some; congruence|]. rewrite (nth_error_nth _ _ 0 E). congruence.
Qed.

Theorem sg_fit_cell tokdict Rs w docs M tr i k a b :
  sg_wf tokdict Rs -> sg_fit tokdict Rs w docs = Ok (M, tr) ->
  (i < length docs)%nat -> nth_error (sg_labels M) k = Some (a, b) ->
  cell (entries tr) (Z.of_nat i) (Z.of_nat k) = skip_spec Rs w (kept tokdict (nth i docs [])) a b.
Proof.
  intros [Wn [Hn Wt]] Hfit Hi Hk. apply sg_fit_inv in Hfit. unfold sg_data in Hfit.
  destruct Hfit as [Ht [Hr [_ [_ [_ Hcell]]]]]. apply sg_labels_nth in Hk. destruct Hk as [Hk Hd]. rewrite Ht in Hd.
  rewrite Hcell, cell_select_cols by (apply kept_columns_NoDup || exact Hk). unfold entries; cbn [snd].
  set (raw := nth k (kept_columns (sg_mask M)) 0) in *.
  assert (Hraw : 0 <= raw) by (apply (kept_columns_range (sg_mask M)), nth_In; exact Hk).
  set (n := Z.of_nat (length tokdict)) in *.
  pose proof (decode_colcode n raw Hn) as Hdc. rewrite Hd in Hdc. destruct Hdc as [Hcode Hb].
  rewrite <- Hcode. rewrite <- Wn.
  assert (Hkept : nth i (map (kept tokdict) docs) [] = kept tokdict (nth i docs [])).
  { change [] with (kept tokdict []) at 1. apply map_nth. }
  rewrite <- Hkept. apply skip_coo_data_cell.
  - rewrite map_length. exact Hi.
  - rewrite Hkept, Wn. apply kept_tokens_in. exact Wt.
  - rewrite Wn. exact Hb.
Qed.

(* the cell of the raw (coded) skip-gram data at the k-th fitted column *)
Lemma sg_data_cell M w docs i k a b :
  sg_wf (sg_tokdict M) (sg_radii M) -> (i < length docs)%nat -> nth_error (sg_labels M) k = Some (a, b) ->
  (k < length (kept_columns (sg_mask M)))%nat /\
  cell (sg_data (sg_tokdict M) (sg_radii M) w docs) (Z.of_nat i) (nth k (kept_columns (sg_mask M)) 0)
  = skip_spec (sg_radii M) w (kept (sg_tokdict M) (nth i docs [])) a b.
Proof.
  intros [Wn [Hn Wt]] Hi Hk. apply sg_labels_nth in Hk. destruct Hk as [Hk Hd]. split; [exact Hk|].
  set (tokdict := sg_tokdict M) in *. set (Rs := sg_radii M) in *.
  set (raw := nth k (kept_columns (sg_mask M)) 0) in *.
  set (n := Z.of_nat (length tokdict)) in *.
  pose proof (decode_colcode n raw Hn) as Hdc. rewrite Hd in Hdc. destruct Hdc as [Hcode Hb].
  rewrite <- Hcode. rewrite <- Wn. unfold sg_data.
  assert (Hkept : nth i (map (kept tokdict) docs) [] = kept tokdict (nth i docs [])).
  { change [] with (kept tokdict []) at 1. apply map_nth. }
  rewrite <- Hkept. apply skip_coo_data_cell.
  - rewrite map_length. exact Hi.
  - rewrite Hkept, Wn. apply kept_tokens_in. exact Wt.
  - rewrite Wn. exact Hb.
Qed.

Lemma sg_data_in_shape tokdict Rs w docs t :
  sg_wf tokdict Rs -> In t (sg_data tokdict Rs w docs) ->
  0 <= trow t < Z.of_nat (length docs) /\ 0 <= tcol t.
Proof.
  intros [Wn [Hn Wt]] Ht. unfold sg_data in Ht. apply skip_coo_data_rows in Ht.
  destruct Ht as [i [u [Hi [Hu ->]]]]. rewrite map_length in Hi.
  change (trow (Z.of_nat i, colcode (Z.of_nat (length Rs) - 1) (trow u) (tcol u), tval u)) with (Z.of_nat i).
  change (tcol (Z.of_nat i, colcode (Z.of_nat (length Rs) - 1) (trow u) (tcol u), tval u))
    with (colcode (Z.of_nat (length Rs) - 1) (trow u) (tcol u)).
  split; [lia|].
  assert (HF : Forall (fun t => 0 <= trow t < Z.of_nat (length tokdict) /\ 0 <= tcol t < Z.of_nat (length tokdict))
                      (build_skip_grams Rs w (nth i (map (kept tokdict) docs) []))).
  { apply (build_skip_grams_coords (fun x => 0 <= x < Z.of_nat (length tokdict))); [lia|].
    change [] with (kept tokdict []) at 1. rewrite map_nth. apply kept_tokens_in. exact Wt. }
  rewrite Forall_forall in HF. specialize (HF u Hu). unfold colcode. rewrite Wn. nia.
Qed.

Theorem sg_transform_ok M w docs :
  sg_wf (sg_tokdict M) (sg_radii M) ->
  exists m, sg_transform M w docs = Ok m /\
    nrows m = Z.of_nat (length docs) /\
    ncols m = Z.of_nat (length (kept_columns (sg_mask M))) /\
    (forall t, In t (entries m) -> 0 <= trow t < nrows m /\ 0 <= tcol t < ncols m) /\
    (forall i k a b, (i < length docs)%nat -> nth_error (sg_labels M) k = Some (a, b) ->
       cell (entries m) (Z.of_nat i) (Z.of_nat k)
       = skip_spec (sg_radii M) w (kept (sg_tokdict M) (nth i docs [])) a b).
Proof.
  intros W. unfold sg_transform. fold (sg_data (sg_tokdict M) (sg_radii M) w docs).
  set (data := sg_data (sg_tokdict M) (sg_radii M) w docs).
  set (Wd := Z.of_nat (length (sg_mask M))). rewrite map_length.
  assert (Hshape : Forall (fun t => 0 <= trow t < Z.of_nat (length docs) /\ 0 <= tcol t < Wd)
                          (filter (fun t => tcol t <? Wd) data)).
  { apply Forall_forall. intros t Ht. apply filter_In in Ht. destruct Ht as [Ht Hc]. apply Z.ltb_lt in Hc.
    destruct (sg_data_in_shape _ _ _ _ _ W Ht) as [Hr Hc0]. lia. }
  rewrite (coo_matrix_shape_ok _ _ _ Hshape). cbn [bind]. unfold mask_cols, ncols at 1; cbn [fst snd].
  fold Wd. rewrite Z.eqb_refl.
  eexists. split; [reflexivity|]. unfold select_cols at 1 2, nrows at 1 3, ncols at 1 2; cbn [fst snd].
  split; [reflexivity|]. split; [reflexivity|]. split.
  - intros t Ht. apply select_cols_in_range in Ht. destruct Ht as [Hc [u [Hu Hrow]]].
    unfold entries in Hu; cbn [snd] in Hu. rewrite Forall_forall in Hshape. specialize (Hshape u Hu).
    split; [rewrite <- Hrow; tauto|exact Hc].
  - intros i k a b Hi Hk. destruct (sg_data_cell M w docs i k a b W Hi Hk) as [Hk' Hcell].
    rewrite cell_select_cols by (apply kept_columns_NoDup || exact Hk').
    unfold entries; cbn [snd]. rewrite cell_filter_cols; [exact Hcell|].
    apply (kept_columns_range (sg_mask M)), nth_In. exact Hk'.
Qed.

Theorem sg_transform_strip M w docs :
  sg_transform M w (map (filter (tok_known (sg_tokdict M))) docs) = sg_transform M w docs.
Proof.
  unfold sg_transform. rewrite map_map, !map_length.
  rewrite (map_ext (fun x => kept (sg_tokdict M) (filter (tok_known (sg_tokdict M)) x)) (kept (sg_tokdict M)));
    [reflexivity|]. intros doc. apply kept_strip.
Qed.

Theorem sg_fit_cell' tokdict Rs w docs M tr i k a b :
  sg_wf tokdict Rs -> sg_fit tokdict Rs w docs = Ok (M, tr) ->
  (i < length docs)%nat -> nth_error (sg_labels M) k = Some (a, b) ->
  ncols tr = Z.of_nat (length (sg_labels M)) /\
  cell (entries tr) (Z.of_nat i) (Z.of_nat k) = skip_spec Rs w (kept tokdict (nth i docs [])) a b.
Proof.
  intros W Hfit Hi Hk. split.
  - apply sg_fit_inv in Hfit. destruct Hfit as [_ [_ [_ [_ [Hc _]]]]]. unfold sg_labels. rewrite map_length. exact Hc.
  - eapply sg_fit_cell; eassumption.
Qed.

(* ================= EdgeList: the statements used by Properties ================= *)
Lemma coo_matrix_Some_inv h w ts m : coo_matrix (Some (h, w)) ts = Ok m -> m = (h, w, ts).
Proof. unfold coo_matrix. destruct (forallb (in_shape h w) ts); [|discriminate]. intros [= <-]. reflexivity. Qed.

Theorem el_transform_cell M X tr r c i j :
  el_transform M X = Ok tr -> dict_inj (fst M) -> dict_inj (snd M) ->
  lookup r (fst M) = Some i -> lookup c (snd M) = Some j -> cell (entries tr) i j = cell X r c.
Proof.
  unfold el_transform, el_shape. intros H Hr Hc Li Lj. apply coo_matrix_Some_inv in H. subst tr.
  unfold entries; cbn [snd]. apply el_cell; assumption.
Qed.

Theorem el_fit_cell rd cd joint edges M tr r c i j :
  el_fit rd cd joint edges = Ok (M, tr) -> dict_inj (fst M) -> dict_inj (snd M) ->
  lookup r (fst M) = Some i -> lookup c (snd M) = Some j -> cell (entries tr) i j = cell edges r c.
Proof. intros H. apply el_fit_inv in H. destruct H as [_ H]. apply el_transform_cell. exact H. Qed.

Theorem el_transform_C01 M X :
  el_wf M ->
  exists m, el_transform M X = Ok m /\ nrows m = dict_dim (fst M) /\ ncols m = dict_dim (snd M) /\
            (forall t, In t (entries m) -> 0 <= trow t < nrows m /\ 0 <= tcol t < ncols m) /\
            el_transform M (filter (el_known M) X) = Ok m.
Proof.
  intros W. eexists. split; [apply el_transform_ok; exact W|]. unfold nrows, ncols, entries; cbn [fst snd].
  split; [reflexivity|]. split; [reflexivity|]. split.
  - pose proof (el_indexed_in_shape M X W) as H. rewrite Forall_forall in H. exact H.
  - rewrite el_transform_ok by exact W. rewrite el_indexed_strip. reflexivity.
Qed.

Theorem el_fit_learned joint edges :
  exists M tr, el_fit None None joint edges = Ok (M, tr) /\ dict_inj (fst M) /\ dict_inj (snd M) /\ el_wf M /\
    (forall e, In e edges -> exists i j, lookup (trow e) (fst M) = Some i /\ lookup (tcol e) (snd M) = Some j).
Proof.
  unfold el_fit, el_dicts. destruct joint; cbn [bind].
  - set (d := enum_dict (sort_uniq (map trow edges ++ map tcol edges))).
    assert (W : el_wf (d, d)) by (split; apply enum_dict_nonneg).
    rewrite (el_transform_ok (d, d) edges W). cbn [bind]. eexists. eexists. split; [reflexivity|]. cbn [fst snd].
    split; [apply enum_dict_inj|]. split; [apply enum_dict_inj|]. split; [exact W|].
    intros e He. destruct (learned_lookup (map trow edges ++ map tcol edges) (trow e)) as [i Hi].
    { apply in_or_app. left. apply in_map. exact He. }
    destruct (learned_lookup (map trow edges ++ map tcol edges) (tcol e)) as [j Hj].
    { apply in_or_app. right. apply in_map. exact He. }
    exists i, j. split; assumption.
  - set (dr := enum_dict (sort_uniq (map trow edges))). set (dc := enum_dict (sort_uniq (map tcol edges))).
    assert (W : el_wf (dr, dc)) by (split; apply enum_dict_nonneg).
    rewrite (el_transform_ok (dr, dc) edges W). cbn [bind]. eexists. eexists. split; [reflexivity|]. cbn [fst snd].
    split; [apply enum_dict_inj|]. split; [apply enum_dict_inj|]. split; [exact W|].
    intros e He. destruct (learned_lookup (map trow edges) (trow e)) as [i Hi]; [apply in_map; exact He|].
    destruct (learned_lookup (map tcol edges) (tcol e)) as [j Hj]; [apply in_map; exact He|].
    exists i, j. split; assumption.
Qed.
