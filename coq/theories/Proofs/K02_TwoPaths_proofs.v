(* Proofs about Model/K02_TwoPaths.v: re-indexing the training corpus with the dictionary learned from it is
   idempotent (delete mode and mask mode), hence the three pipelines of BaseCooccurrenceVectorizer agree on the
   training data; transform never raises, stays in the fitted shape and ignores unseen tokens. *)
From Coq Require Import ZArith List Bool Arith Lia Sorted QArith Qcanon.
From VZ Require Import Model.K5_Vocab Model.K6_Reindex Model.K02_Windows Model.K03_Cooc Model.K03_Exec Model.K04_EM
     Model.K02_TwoPaths.
From VZ Require Import Proofs.K5_Vocab_proofs Proofs.K6_Reindex_proofs Proofs.K03_Blocks_proofs Proofs.K04_Pipeline_proofs.
Import ListNotations.
Close Scope Z_scope.
Open Scope nat_scope.

(* ------------------------------------------------------------------ the re-indexing half *)
Section PrepProofs.
Variable T : Type.
Variable eqb : T -> T -> bool.
Hypothesis eqb_eq : forall a b, eqb a b = true <-> a = b.

Lemma remove_add_mask : forall m (d : dict T), ~ In m (map fst d) ->
  remove_key T eqb m (add_mask T m d) = d.
Proof.
  intros m d Hm. unfold add_mask, remove_key. rewrite filter_app. simpl.
  rewrite (eqb_refl' T eqb eqb_eq). simpl. rewrite app_nil_r. apply (remove_key_id T eqb eqb_eq m d Hm).
Qed.

Lemma remove_key_idem : forall m (d : dict T),
  remove_key T eqb m (add_mask T m (remove_key T eqb m d)) = remove_key T eqb m d.
Proof. intros m d. apply remove_add_mask. apply (remove_key_not_In T eqb eqb_eq). Qed.

Section Generic.
Variables Doc IDoc : Type.
Variable learn : config T -> list Doc -> option (dict T) -> res (dict T * list Z).
Variable del : (T -> option nat) -> Doc -> IDoc.
Variable msk : (T -> nat) -> Doc -> IDoc.
(* the `else: token_dictionary = dict(token_dictionary)` branch of every preprocess_* copy *)
Hypothesis learn_given : forall c docs d, exists fr, learn c docs (Some d) = Ok (d, fr).

Notation reindex_g := (reindex_g T eqb Doc IDoc del msk).
Notation preprocess_g := (preprocess_g T eqb Doc IDoc learn del msk).

(* feeding the dictionary that came out back in gives the same sequences and the same dictionary *)
Lemma reindex_g_idem : forall masking d docs,
  reindex_g masking (snd (reindex_g masking d docs)) docs = reindex_g masking d docs.
Proof.
  intros [m|] d docs; simpl; [|reflexivity]. rewrite remove_key_idem. reflexivity.
Qed.

Theorem preprocess_g_idem : forall c c' docs d0 masking seqs d fr,
  preprocess_g c docs d0 masking = Ok (seqs, d, fr) ->
  exists fr', preprocess_g c' docs (Some d) masking = Ok (seqs, d, fr').
Proof.
  intros c c' docs d0 masking seqs d fr H. unfold K02_TwoPaths.preprocess_g in *.
  destruct (learn c docs d0) as [[d1 fr1]|e]; [|discriminate].
  destruct (reindex_g masking d1 docs) as [s1 d1'] eqn:E. inversion H; subst s1 d1' fr1; clear H.
  destruct (learn_given c' docs d) as [fr' Hg]. rewrite Hg. exists fr'.
  pose proof (reindex_g_idem masking d1 docs) as I. rewrite E in I. simpl in I. rewrite I. reflexivity.
Qed.

(* a supplied dictionary never makes the preprocessing raise *)
Lemma preprocess_g_given_ok : forall c docs d masking,
  exists seqs d' fr, preprocess_g c docs (Some d) masking = Ok (seqs, d', fr) /\
                     (seqs, d') = reindex_g masking d docs.
Proof.
  intros c docs d masking. unfold K02_TwoPaths.preprocess_g. destruct (learn_given c docs d) as [fr Hg]. rewrite Hg.
  destruct (reindex_g masking d docs) as [s d'] eqn:E. exists s, d', fr. split; reflexivity.
Qed.

End Generic.
End PrepProofs.

(* the token copy is Model/K6_Reindex.v preprocess *)
Lemma tok_preprocess_is_K6 : forall (T : Type) (eqb ltb : T -> T -> bool) (matches : T -> bool)
    (f32div f64div : Z -> Z -> Z) (f64to32 : Z -> Z) (one64 : Z) c docs d0 masking,
  tok_preprocess T eqb ltb matches f32div f64div f64to32 one64 c docs d0 masking
  = preprocess T eqb ltb matches f32div f64div f64to32 one64 c docs d0 masking.
Proof.
  intros. unfold tok_preprocess, preprocess_g, preprocess.
  destruct (learn_vocab T eqb ltb matches f32div f64div f64to32 one64 c docs d0) as [[d fr]|e]; [|reflexivity].
  destruct masking; reflexivity.
Qed.

Lemma learn_vocab_given : forall (T : Type) (eqb ltb : T -> T -> bool) (matches : T -> bool)
    (f32div f64div : Z -> Z -> Z) (f64to32 : Z -> Z) (one64 : Z) c docs d,
  exists fr, learn_vocab T eqb ltb matches f32div f64div f64to32 one64 c docs (Some d) = Ok (d, fr).
Proof. intros. unfold learn_vocab. apply vocab_given_dict. Qed.

(* C02_reindex_idem for preprocess_token_sequences *)
Theorem tok_reindex_idem : forall (T : Type) (eqb ltb : T -> T -> bool) (matches : T -> bool)
    (f32div f64div : Z -> Z -> Z) (f64to32 : Z -> Z) (one64 : Z),
  (forall a b, eqb a b = true <-> a = b) ->
  forall (c c' : config T) (docs : list (list T)) (d0 : option (dict T)) (masking : option T) seqs d fr,
  preprocess T eqb ltb matches f32div f64div f64to32 one64 c docs d0 masking = Ok (seqs, d, fr) ->
  exists fr', preprocess T eqb ltb matches f32div f64div f64to32 one64 c' docs (Some d) masking = Ok (seqs, d, fr').
Proof.
  intros T eqb ltb matches f32div f64div f64to32 one64 eqb_eq c c' docs d0 masking seqs d fr H.
  rewrite <- tok_preprocess_is_K6 in H.
  destruct (preprocess_g_idem T eqb eqb_eq (list T) (list nat)
              (learn_vocab T eqb ltb matches f32div f64div f64to32 one64) tok_del tok_msk
              (learn_vocab_given T eqb ltb matches f32div f64div f64to32 one64)
              c c' docs d0 masking seqs d fr H) as [fr' H'].
  exists fr'. rewrite <- tok_preprocess_is_K6. exact H'.
Qed.

Theorem timed_reindex_idem : forall (T : Type) (eqb ltb : T -> T -> bool) (matches : T -> bool)
    (f32div f64div : Z -> Z -> Z) (f64to32 : Z -> Z) (one64 : Z) (U : Type),
  (forall a b, eqb a b = true <-> a = b) ->
  forall (c c' : config T) (docs : list (list (T * U))) d0 masking seqs d fr,
  timed_preprocess T eqb ltb matches f32div f64div f64to32 one64 U c docs d0 masking = Ok (seqs, d, fr) ->
  exists fr', timed_preprocess T eqb ltb matches f32div f64div f64to32 one64 U c' docs (Some d) masking = Ok (seqs, d, fr').
Proof.
  intros T eqb ltb matches f32div f64div f64to32 one64 U eqb_eq c c' docs d0 masking seqs d fr H.
  unfold timed_preprocess in *.
  eapply (preprocess_g_idem T eqb eqb_eq); [|exact H].
  intros c0 docs0 d1. apply learn_vocab_given.
Qed.

(* ------------------------------------------------------------------ the three pipelines *)
Section BaseProofs.
Variable T : Type.
Variables Doc IDoc : Type.
Variable prep : config T -> list Doc -> option (dict T) -> option T -> res (list IDoc * dict T * list Z).
Variables S A : Type.
Variable setup : list IDoc -> dict T -> list Z -> res S.
Variable build : S -> nat -> list IDoc -> A.
Hypothesis prep_idem : forall c c' X d0 masking seqs d fr,
  prep c X d0 masking = Ok (seqs, d, fr) -> exists fr', prep c' X (Some d) masking = Ok (seqs, d, fr').

Notation base_fit_transform := (base_fit_transform T Doc IDoc prep S A setup build).
Notation base_fit := (base_fit T Doc IDoc prep S A setup build).
Notation base_transform := (base_transform T Doc IDoc prep S A build).

(* fit_transform = fit, returning cooccurrences_ (and leaving the same fitted attributes) *)
Theorem fit_transform_is_fit : forall c masking d0 X,
  base_fit_transform c masking d0 X
  = match base_fit c masking d0 X with Ok M => Ok (M, ft_cooc M) | Err e => Err e end.
Proof.
  intros c masking d0 X. unfold K02_TwoPaths.base_fit_transform, K02_TwoPaths.base_fit.
  destruct (prep c X d0 masking) as [[[seqs d] fr]|e]; [|reflexivity].
  destruct (length d =? 0); [reflexivity|].
  destruct (setup seqs d fr) as [st|e]; reflexivity.
Qed.

(* transform of the training data with the fitted model = cooccurrences_ *)
Theorem transform_after_fit : forall c masking d0 X M,
  base_fit c masking d0 X = Ok M -> base_transform masking M X = Ok (ft_cooc M).
Proof.
  intros c masking d0 X M H. unfold K02_TwoPaths.base_fit in H. unfold K02_TwoPaths.base_transform.
  destruct (prep c X d0 masking) as [[[seqs d] fr]|e] eqn:E; [|discriminate].
  destruct (length d =? 0); [discriminate|].
  destruct (setup seqs d fr) as [st|e]; [|discriminate].
  inversion H; subst M; clear H. simpl.
  destruct (prep_idem c (default_config T) X d0 masking seqs d fr E) as [fr' E']. rewrite E'. reflexivity.
Qed.

Theorem three_paths : forall c masking d0 X M,
  base_fit c masking d0 X = Ok M ->
  base_fit_transform c masking d0 X = Ok (M, ft_cooc M) /\ base_transform masking M X = Ok (ft_cooc M).
Proof.
  intros c masking d0 X M H. split; [rewrite fit_transform_is_fit, H; reflexivity|].
  eapply transform_after_fit; eauto.
Qed.

End BaseProofs.

(* ------------------------------------------------------------------ the token driver *)
Section TokenProofs.
Variable T : Type.
Variable eqb ltb : T -> T -> bool.
Variable matches : T -> bool.
Variables f32div f64div : Z -> Z -> Z.
Variable f64to32 : Z -> Z.
Variable one64 : Z.
Hypothesis eqb_eq : forall a b, eqb a b = true <-> a = b.

Notation prep := (tok_preprocess T eqb ltb matches f32div f64div f64to32 one64).
Notation lookup := (lookup T eqb).
Notation remove_key := (remove_key T eqb).
Notation in_dict := (in_dict T eqb).

Lemma tok_prep_idem : forall c c' X d0 masking seqs d fr,
  prep c X d0 masking = Ok (seqs, d, fr) -> exists fr', prep c' X (Some d) masking = Ok (seqs, d, fr').
Proof.
  intros c c' X d0 masking seqs d fr H. unfold tok_preprocess in *.
  eapply (preprocess_g_idem T eqb eqb_eq); [|exact H]. intros; apply learn_vocab_given.
Qed.

Lemma tok_prep_given : forall c X d masking,
  exists fr, prep c X (Some d) masking
             = Ok (fst (reindex T eqb masking d X), snd (reindex T eqb masking d X), fr).
Proof.
  intros c X d masking. rewrite tok_preprocess_is_K6. unfold preprocess.
  destruct (learn_vocab_given T eqb ltb matches f32div f64div f64to32 one64 c X d) as [fr Hg]. rewrite Hg.
  exists fr. destruct (reindex T eqb masking d X); reflexivity.
Qed.

Section WithDriver.
Variable K : carrier.
Variable A : Type.
Variable cfg : cooc_cfg K.
Variable post : list (block K) -> nat -> list (list nat) -> list (event K) -> A.

Notation token_fit_transform := (token_fit_transform T eqb ltb matches f32div f64div f64to32 one64 K A cfg post).
Notation token_fit := (token_fit T eqb ltb matches f32div f64div f64to32 one64 K A cfg post).
Notation token_transform := (token_transform T eqb ltb matches f32div f64div f64to32 one64 K A cfg post).

Theorem token_three_paths : forall c masking d0 X M,
  token_fit c masking d0 X = Ok M ->
  token_fit_transform c masking d0 X = Ok (M, ft_cooc M) /\ token_transform masking M X = Ok (ft_cooc M).
Proof. intros c masking d0 X M. apply three_paths. exact tok_prep_idem. Qed.

Theorem token_fit_transform_is_fit : forall c masking d0 X,
  token_fit_transform c masking d0 X
  = match token_fit c masking d0 X with Ok M => Ok (M, ft_cooc M) | Err e => Err e end.
Proof. intros. apply fit_transform_is_fit. Qed.

(* transform written out: the fitted blocks and width applied to the re-indexed X' — whatever X' is *)
Theorem token_transform_unfold : forall masking (M : fitted T (list (block K)) A) X,
  token_transform masking M X
  = Ok (post (ft_state M) (length (ft_dict M)) (fst (reindex T eqb masking (ft_dict M) X))
             (token_events (ft_state M) (cc_nw cfg) (length (ft_dict M)) (fst (reindex T eqb masking (ft_dict M) X)))).
Proof.
  intros masking M X. unfold K02_TwoPaths.token_transform, base_transform.
  destruct (tok_prep_given (default_config T) X (ft_dict M) masking) as [fr E]. rewrite E. reflexivity.
Qed.

(* what fit stores *)
Theorem token_fit_inv : forall c masking d0 X M,
  token_fit c masking d0 X = Ok M ->
  exists seqs, prep c X d0 masking = Ok (seqs, ft_dict M, ft_freqs M) /\ ft_dict M <> [] /\
    ft_state M = cc_blocks cfg (ft_freqs M) (mask_index K cfg (ft_freqs M)) /\
    ft_cooc M = post (ft_state M) (length (ft_dict M)) seqs
                     (token_events (ft_state M) (cc_nw cfg) (length (ft_dict M)) seqs).
Proof.
  intros c masking d0 X M H. unfold K02_TwoPaths.token_fit, base_fit in H.
  destruct (prep c X d0 masking) as [[[seqs d] fr]|e]; [|discriminate].
  destruct (length d =? 0) eqn:L; [discriminate|]. simpl in H. inversion H; subst M; clear H. simpl.
  exists seqs. repeat split; try reflexivity. intro E; subst d; discriminate.
Qed.

End WithDriver.

End TokenProofs.

Section RangeProofs.
Variable T : Type.
Variable eqb : T -> T -> bool.
Hypothesis eqb_eq : forall a b, eqb a b = true <-> a = b.
Notation lookup := (lookup T eqb).
Notation remove_key := (remove_key T eqb).

(* ---------- unseen tokens ---------- *)
Lemma reindex_delete_strip : forall (d : dict T) s,
  reindex_delete T eqb d (filter (fun t => match lookup d t with Some _ => true | None => false end) s)
  = reindex_delete T eqb d s.
Proof.
  intros d s. unfold reindex_delete. induction s as [|t s IH]; simpl; [reflexivity|].
  destruct (lookup d t) eqn:E; simpl; rewrite ?E, IH; reflexivity.
Qed.

Lemma reindex_mask_relabel : forall m (d : dict T) s, ~ In m (map fst d) ->
  reindex_mask T eqb d (relabel_mask T eqb m d s) = reindex_mask T eqb d s.
Proof.
  intros m d s Hm. unfold reindex_mask, relabel_mask. rewrite map_map. apply map_ext. intro t.
  destruct (lookup d t) eqn:E; [rewrite E; reflexivity|].
  rewrite (lookup_not_In T eqb eqb_eq d m Hm). reflexivity.
Qed.

Theorem reindex_strip_unseen : forall (d : dict T) X,
  fst (reindex T eqb None d (strip_unseen eqb d X)) = fst (reindex T eqb None d X).
Proof.
  intros d X. simpl. unfold strip_unseen. rewrite map_map. apply map_ext. intro s. apply reindex_delete_strip.
Qed.

Theorem reindex_mask_unseen : forall m (d : dict T) X,
  fst (reindex T eqb (Some m) d (mask_unseen eqb m d X)) = fst (reindex T eqb (Some m) d X).
Proof.
  intros m d X. simpl. unfold mask_unseen. rewrite map_map. apply map_ext. intro s.
  apply reindex_mask_relabel. apply (remove_key_not_In T eqb eqb_eq).
Qed.

(* a document made of unseen tokens only is re-indexed to the empty sequence (delete mode) *)
Lemma reindex_delete_all_unseen : forall (d : dict T) s,
  Forall (fun t => lookup d t = None) s -> reindex_delete T eqb d s = [].
Proof.
  intros d s H. unfold reindex_delete. induction H as [|t s Ht _ IH]; simpl; [reflexivity|]. rewrite Ht. exact IH.
Qed.

(* ---------- every index produced by the re-indexing is below the size of the final dictionary ---------- *)
Definition dict_in_range (d : dict T) : Prop := Forall (fun e => snd e < length d) d.

Lemma lookup_In : forall (d : dict T) t i, lookup d t = Some i -> In (t, i) d.
Proof.
  induction d as [|[k v] d IH]; intros t i H; simpl in *; [discriminate|].
  destruct (eqb t k) eqn:E; [apply eqb_eq in E; inversion H; subst; now left | right; now apply IH].
Qed.

Lemma reindex_delete_in_range : forall (d : dict T) n s,
  Forall (fun e => snd e < n) d -> Forall (fun i => i < n) (reindex_delete T eqb d s).
Proof.
  intros d n s Hd. unfold reindex_delete. induction s as [|t s IH]; simpl; [constructor|].
  destruct (lookup d t) eqn:E; simpl; [|exact IH]. constructor; [|exact IH].
  rewrite Forall_forall in Hd. apply lookup_In in E. exact (Hd _ E).
Qed.

Lemma reindex_mask_in_range : forall (d : dict T) n s,
  Forall (fun e => snd e < n) d -> length d < n -> Forall (fun i => i < n) (reindex_mask T eqb d s).
Proof.
  intros d n s Hd Hl. unfold reindex_mask. induction s as [|t s IH]; simpl; [constructor|].
  constructor; [|exact IH]. destruct (lookup d t) eqn:E; [|exact Hl].
  rewrite Forall_forall in Hd. apply lookup_In in E. exact (Hd _ E).
Qed.

(* the fitted dictionary of a model: in range, and in mask mode = a dictionary without the mask key + the mask entry *)
Definition fitted_dict_wf (masking : option T) (d : dict T) : Prop :=
  dict_in_range d /\
  match masking with None => True | Some m => exists d', ~ In m (map fst d') /\ d = add_mask T m d' end.

Lemma add_mask_length : forall m (d : dict T), length (add_mask T m d) = S (length d).
Proof. intros. unfold add_mask. rewrite app_length. simpl. lia. Qed.

Theorem reindex_in_range : forall masking (d : dict T) X,
  fitted_dict_wf masking d ->
  Forall (Forall (fun i => i < length d)) (fst (reindex T eqb masking d X)).
Proof.
  intros [m|] d X [Hr Hm]; simpl.
  - destruct Hm as [d' [Hm Hd]]. subst d. rewrite (remove_add_mask T eqb eqb_eq m d' Hm).
    rewrite add_mask_length. apply Forall_forall. intros s Hs. apply in_map_iff in Hs. destruct Hs as [s0 [Hs _]].
    subst s. apply reindex_mask_in_range; [|lia].
    unfold dict_in_range in Hr. rewrite add_mask_length in Hr. unfold add_mask in Hr. apply Forall_app in Hr. tauto.
  - apply Forall_forall. intros s Hs. apply in_map_iff in Hs. destruct Hs as [s0 [Hs _]]. subst s.
    apply reindex_delete_in_range. exact Hr.
Qed.

End RangeProofs.

(* ------------------------------------------------------------------ a learned dictionary is well formed *)
Section LearnedWf.
Variable T : Type.
Variable eqb ltb : T -> T -> bool.
Variable matches : T -> bool.
Variables f32div f64div : Z -> Z -> Z.
Variable f64to32 : Z -> Z.
Variable one64 : Z.
Hypothesis eqb_eq : forall a b, eqb a b = true <-> a = b.
Hypothesis ltb_irrefl : forall a, ltb a a = false.
Hypothesis ltb_trans : forall a b c, ltb a b = true -> ltb b c = true -> ltb a c = true.
Hypothesis ltb_total : forall a b, a = b \/ ltb a b = true \/ ltb b a = true.

Lemma remove_key_length : forall m (d : dict T), NoDup (map fst d) ->
  length d <= S (length (remove_key T eqb m d)).
Proof.
  intros m d. induction d as [|[k v] d IH]; intro Hn; [simpl; lia|].
  simpl in Hn. inversion Hn as [|? ? Hk Hn']; subst.
  assert (U : remove_key T eqb m ((k, v) :: d)
              = if negb (eqb m k) then (k, v) :: remove_key T eqb m d else remove_key T eqb m d) by reflexivity.
  rewrite U. destruct (eqb m k) eqn:E; simpl.
  - apply eqb_eq in E. subst k. rewrite (remove_key_id T eqb eqb_eq m d Hk). lia.
  - specialize (IH Hn'). lia.
Qed.

Lemma remove_key_incl : forall m (d : dict T) e, In e (remove_key T eqb m d) -> In e d.
Proof. intros m d e H. unfold remove_key in H. apply filter_In in H. tauto. Qed.

Theorem learned_dict_wf : forall c X masking seqs d fr,
  tok_preprocess T eqb ltb matches f32div f64div f64to32 one64 c X None masking = Ok (seqs, d, fr) ->
  fitted_dict_wf T masking d.
Proof.
  intros c X masking seqs d fr H. rewrite tok_preprocess_is_K6 in H. unfold preprocess in H.
  destruct (learn_vocab T eqb ltb matches f32div f64div f64to32 one64 c X None) as [[d1 fr1]|e] eqn:L; [|discriminate].
  unfold learn_vocab in L.
  destruct (vocab_sorted_indices T eqb ltb matches f32div f64div f64to32 one64 eqb_eq ltb_irrefl ltb_trans ltb_total
              c (need_doc T c) X d1 fr1 L) as [Hs [Hi _]].
  assert (R1 : Forall (fun e => snd e < length d1) d1).
  { apply Forall_forall. intros e He. assert (In (snd e) (map snd d1)) by (apply in_map; exact He).
    rewrite Hi in H0. apply in_seq in H0. lia. }
  destruct masking as [m|]; simpl in H; inversion H; subst; clear H.
  - split.
    + unfold dict_in_range. rewrite add_mask_length. unfold add_mask. apply Forall_app. split.
      * apply Forall_forall. intros e He. apply remove_key_incl in He. rewrite Forall_forall in R1.
        specialize (R1 _ He).
        pose proof (remove_key_length m d1 (sorted_NoDup T ltb ltb_irrefl _ Hs)). lia.
      * constructor; [simpl; lia|constructor].
    + exists (remove_key T eqb m d1). split; [apply (remove_key_not_In T eqb eqb_eq)|reflexivity].
  - split; [exact R1|exact I].
Qed.

End LearnedWf.

(* ------------------------------------------------------------------ shape of transform's output *)
Section ShapeProofs.
Variable T : Type.
Variable eqb ltb : T -> T -> bool.
Variable matches : T -> bool.
Variables f32div f64div : Z -> Z -> Z.
Variable f64to32 : Z -> Z.
Variable one64 : Z.
Hypothesis eqb_eq : forall a b, eqb a b = true <-> a = b.
Variable K : carrier.
Variable cfg : cooc_cfg K.

Notation ev_transform :=
  (token_transform T eqb ltb matches f32div f64div f64to32 one64 K (list (event K)) cfg ev_post).

(* the event list of transform: no exception; every event in a dictionary row, in its block's column range *)
Theorem token_transform_events_shape : forall masking (M : fitted T (list (block K)) (list (event K))) X,
  fitted_dict_wf T masking (ft_dict M) ->
  exists evs, ev_transform masking M X = Ok evs /\
    forall e, In e evs ->
      e_blk e < length (ft_state M) /\
      e_blk e * length (ft_dict M) <= e_col e < (e_blk e + 1) * length (ft_dict M) /\
      e_row e < length (ft_dict M) /\ e_col e < length (ft_state M) * length (ft_dict M).
Proof.
  intros masking M X W. rewrite (token_transform_unfold T eqb ltb matches f32div f64div f64to32 one64).
  eexists. split; [reflexivity|]. unfold ev_post. intros e He.
  pose proof (reindex_in_range T eqb eqb_eq masking (ft_dict M) X W) as R.
  destruct (token_events_block_columns K _ _ _ _ e R He) as [Hb [Hc [Hr _]]].
  repeat split; try lia. nia.
Qed.

Theorem token_transform_strip : forall (A : Type) (post : list (block K) -> nat -> list (list nat) -> list (event K) -> A)
    (M : fitted T (list (block K)) A) X,
  token_transform T eqb ltb matches f32div f64div f64to32 one64 K A cfg post None M (strip_unseen eqb (ft_dict M) X)
  = token_transform T eqb ltb matches f32div f64div f64to32 one64 K A cfg post None M X.
Proof.
  intros A post M X. rewrite !(token_transform_unfold T eqb ltb matches f32div f64div f64to32 one64).
  rewrite reindex_strip_unseen. reflexivity.
Qed.

Theorem token_transform_mask_unseen : forall (A : Type) (post : list (block K) -> nat -> list (list nat) -> list (event K) -> A)
    m (M : fitted T (list (block K)) A) X,
  token_transform T eqb ltb matches f32div f64div f64to32 one64 K A cfg post (Some m) M (mask_unseen eqb m (ft_dict M) X)
  = token_transform T eqb ltb matches f32div f64div f64to32 one64 K A cfg post (Some m) M X.
Proof.
  intros A post m M X. rewrite !(token_transform_unfold T eqb ltb matches f32div f64div f64to32 one64).
  rewrite (reindex_mask_unseen T eqb eqb_eq). reflexivity.
Qed.

Lemma token_events_all_empty : forall (blocks : list (block K)) nw n (docs : list (list nat)),
  Forall (fun s => s = []) docs -> token_events blocks nw n docs = [].
Proof.
  intros blocks nw n docs H. unfold token_events. induction H as [|s docs Hs _ IH]; simpl; [reflexivity|].
  subst s. simpl. exact IH.
Qed.

(* delete mode: an input made of unseen tokens only produces no event at all *)
Theorem token_transform_all_unseen : forall (M : fitted T (list (block K)) (list (event K))) X,
  Forall (Forall (fun t => lookup T eqb (ft_dict M) t = None)) X ->
  ev_transform None M X = Ok [].
Proof.
  intros M X H. rewrite (token_transform_unfold T eqb ltb matches f32div f64div f64to32 one64). unfold ev_post.
  f_equal. apply token_events_all_empty. simpl. apply Forall_forall. intros s Hs.
  apply in_map_iff in Hs. destruct Hs as [s0 [Hs Hin]]. subst s.
  apply reindex_delete_all_unseen. rewrite Forall_forall in H. exact (H _ Hin).
Qed.

End ShapeProofs.

(* ------------------------------------------------------------------ the K04 rows of transform *)
Lemma upd_row_length : forall M r c v, length (upd_row M r c v) = length M.
Proof. induction M as [|row M IH]; intros [|r] c v; simpl; auto. Qed.

Lemma rows_of_events_length : forall n (evs : list (event QcK)), length (rows_of_events n evs) = n.
Proof.
  intros n evs. unfold rows_of_events.
  assert (G : forall M0, length (fold_left (fun M (e : event QcK) => upd_row M (e_row e) (e_col e) (e_val e : Qc)) evs M0)
                         = length M0).
  { induction evs as [|e evs IH]; intro M0; simpl; [reflexivity|]. rewrite IH. apply upd_row_length. }
  rewrite G. apply repeat_length.
Qed.

Lemma insert_cell_cols : forall (P : nat -> Prop) c v r,
  P c -> Forall P (map fst r) -> Forall P (map fst (insert_cell c v r)).
Proof.
  intros P c v r Hc. induction r as [|[c' v'] r IH]; intro H; simpl; [constructor; [exact Hc|constructor]|].
  inversion H; subst. destruct (c <? c'); [constructor; assumption|].
  destruct (Nat.eqb c c'); simpl; constructor; auto.
Qed.

Lemma upd_row_cols : forall (P : nat -> Prop) M r c v,
  P c -> Forall (fun row : list (nat * Qc) => Forall P (map fst row)) M ->
  Forall (fun row : list (nat * Qc) => Forall P (map fst row)) (upd_row M r c v).
Proof.
  intros P M. induction M as [|row M IH]; intros [|r] c v Hc H; simpl; try exact H; inversion H; subst; constructor; auto.
  apply insert_cell_cols; assumption.
Qed.

Lemma rows_of_events_cols : forall (P : nat -> Prop) n (evs : list (event QcK)),
  (forall e, In e evs -> P (e_col e)) ->
  Forall (fun row : list (nat * Qc) => Forall P (map fst row)) (rows_of_events n evs).
Proof.
  intros P n evs H. unfold rows_of_events.
  assert (G : forall M0, Forall (fun row : list (nat * Qc) => Forall P (map fst row)) M0 ->
              Forall (fun row : list (nat * Qc) => Forall P (map fst row))
                     (fold_left (fun M (e : event QcK) => upd_row M (e_row e) (e_col e) (e_val e : Qc)) evs M0)).
  { induction evs as [|e evs IH]; intros M0 HM; simpl; [exact HM|]. apply IH.
    - intros e' He'. apply H. now right.
    - apply upd_row_cols; [apply H; now left | exact HM]. }
  apply G. apply Forall_forall. intros row Hr. apply repeat_spec in Hr. subst row. constructor.
Qed.

Lemma sub_support_length : forall M' M, sub_support M' M -> length M' = length M.
Proof. intros M' M H. induction H; simpl; congruence. Qed.

Lemma sub_support_cols : forall (P : nat -> Prop) M' M, sub_support M' M ->
  Forall (fun row : list (nat * Qc) => Forall P (map fst row)) M ->
  Forall (fun row : list (nat * Qc) => Forall P (map fst row)) M'.
Proof.
  intros P M' M H. induction H as [|r' r M' M Hi _ IH]; intro HM; [constructor|].
  inversion HM; subst. constructor; [|auto].
  apply Forall_forall. intros x Hx. rewrite Forall_forall in H1. apply H1. apply Hi. exact Hx.
Qed.

Section RowsProofs.
Variable T : Type.
Variable eqb ltb : T -> T -> bool.
Variable matches : T -> bool.
Variables f32div f64div : Z -> Z -> Z.
Variable f64to32 : Z -> Z.
Variable one64 : Z.
Hypothesis eqb_eq : forall a b, eqb a b = true <-> a = b.
Variable cfg : cooc_cfg QcK.

(* the matrix of transform after the K04 post-processing (any n_iter, epsilon): one row per dictionary entry, every
   stored column below n_blocks * n — whatever X' is *)
Theorem token_transform_rows_shape : forall n_iter eps masking (M : fitted T (list (block QcK)) rows) X,
  fitted_dict_wf T masking (ft_dict M) ->
  exists R, token_transform T eqb ltb matches f32div f64div f64to32 one64 QcK rows cfg (em_post n_iter eps) masking M X = Ok R /\
    length R = length (ft_dict M) /\
    Forall (fun row : list (nat * Qc) => Forall (fun c => c < length (ft_state M) * length (ft_dict M)) (map fst row)) R.
Proof.
  intros n_iter eps masking M X W. rewrite (token_transform_unfold T eqb ltb matches f32div f64div f64to32 one64).
  eexists. split; [reflexivity|]. unfold em_post.
  set (seqs := fst (reindex T eqb masking (ft_dict M) X)).
  set (n := length (ft_dict M)).
  set (evs := token_events (ft_state M) (cc_nw cfg) n seqs).
  pose proof (pipeline_support n_iter eps n (token_occs (ft_state M) seqs) (rows_of_events n evs)) as S.
  split.
  - rewrite (sub_support_length _ _ S). apply rows_of_events_length.
  - apply (sub_support_cols _ _ _ S). apply rows_of_events_cols. intros e He.
    pose proof (reindex_in_range T eqb eqb_eq masking (ft_dict M) X W) as R.
    destruct (token_events_block_columns QcK _ _ _ _ e R He) as [Hb [Hc _]]. fold n in Hc. nia.
Qed.

End RowsProofs.

(* ------------------------------------------------------------------ what the re-indexed corpus is, pointwise *)
Theorem tok_preprocess_pointwise : forall (T : Type) (eqb ltb : T -> T -> bool) (matches : T -> bool)
    (f32div f64div : Z -> Z -> Z) (f64to32 : Z -> Z) (one64 : Z),
  (forall a b, eqb a b = true <-> a = b) ->
  forall c docs d0 masking seqs d fr,
  preprocess T eqb ltb matches f32div f64div f64to32 one64 c docs d0 masking = Ok (seqs, d, fr) ->
  match masking with
  | None => seqs = map (fun s => map (idx T eqb d) (filter (in_dict T eqb d) s)) docs
  | Some m => exists d', ~ In m (map fst d') /\ d = add_mask T m d' /\ seqs = map (map (code T eqb d')) docs
  end.
Proof.
  intros T eqb ltb matches f32div f64div f64to32 one64 eqb_eq c docs d0 masking seqs d fr H.
  unfold preprocess in H.
  destruct (learn_vocab T eqb ltb matches f32div f64div f64to32 one64 c docs d0) as [[d1 fr1]|e]; [|discriminate].
  destruct masking as [m|].
  - simpl in H. inversion H; subst; clear H. exists (remove_key T eqb m d1).
    split; [apply (remove_key_not_In T eqb eqb_eq)|]. split; reflexivity.
  - rewrite (delete_mode T eqb) in H. inversion H; subst. reflexivity.
Qed.

(* what a model fitted on a learned vocabulary stores *)
Theorem token_fit_wf : forall (T : Type) (eqb ltb : T -> T -> bool) (matches : T -> bool)
    (f32div f64div : Z -> Z -> Z) (f64to32 : Z -> Z) (one64 : Z),
  (forall a b, eqb a b = true <-> a = b) -> (forall a, ltb a a = false) ->
  (forall a b c, ltb a b = true -> ltb b c = true -> ltb a c = true) ->
  (forall a b, a = b \/ ltb a b = true \/ ltb b a = true) ->
  forall (K : carrier) (A : Type) (cfg : cooc_cfg K) post c masking X M,
  token_fit T eqb ltb matches f32div f64div f64to32 one64 K A cfg post c masking None X = Ok M ->
  fitted_dict_wf T masking (ft_dict M).
Proof.
  intros T eqb ltb matches f32div f64div f64to32 one64 E I Tr To K A cfg post c masking X M H.
  destruct (token_fit_inv T eqb ltb matches f32div f64div f64to32 one64 K A cfg post c masking None X M H)
    as [seqs [Hp _]].
  exact (learned_dict_wf T eqb ltb matches f32div f64div f64to32 one64 E I Tr To c X masking seqs _ _ Hp).
Qed.
