(* K17 — proofs about the LOT glue (Model/K17_LOTglue.v): block / chunk loops partition the rows, row normalisation
   is scale invariant, and the plan-transfer lemmas: re-encoding a measure by permuting its support points, listing
   points of zero weight, or splitting a point into duplicates that share its mass maps feasible plans to feasible
   plans of the same cost and the same barycentric image, in both directions. *)
From Coq Require Import QArith Qminmax List Bool ZArith Arith Lia Lqa Setoid Morphisms Permutation.
From VZ Require Import Model.K16_OTcert Model.K17_LOTglue Proofs.K16_OTcert_proofs.
Import ListNotations.

(* ================================================================ A. block and chunk loops *)
Section Loops.
Open Scope nat_scope.

Lemma ranges_prefix : forall lo hi step k, 1 <= step -> lo <= hi -> k <= (hi - lo) / step + 1 ->
  concat (map range_rows (map (fun i => (lo + i * step, Nat.min hi (lo + i * step + step))) (seq 0 k)))
  = seq lo (Nat.min hi (lo + k * step) - lo).
Proof.
  intros lo hi step k Hs Hl. induction k as [|k IH]; intros Hk.
  - simpl. replace (Nat.min hi (lo + 0) - lo) with 0 by lia. reflexivity.
  - rewrite seq_S, !map_app, concat_app, IH by lia. simpl. rewrite app_nil_r.
    unfold range_rows. simpl fst. simpl snd.
    assert (K : k * step <= hi - lo).
    { assert (k <= (hi - lo) / step) by lia.
      apply Nat.le_trans with (((hi - lo) / step) * step); [apply Nat.mul_le_mono_r; assumption|].
      rewrite Nat.mul_comm. apply Nat.mul_div_le. lia. }
    replace (Nat.min hi (lo + k * step)) with (lo + k * step) by lia.
    replace (lo + k * step - lo) with (k * step) by lia.
    rewrite <- seq_app. f_equal. lia.
Qed.

(* every row index of [lo, hi) is produced exactly once, in order *)
Lemma ranges_partition : forall lo hi step, 1 <= step -> lo <= hi ->
  concat (map range_rows (ranges lo hi step)) = seq lo (hi - lo).
Proof.
  intros lo hi step Hs Hl. unfold ranges. rewrite ranges_prefix by lia.
  f_equal.
  assert (hi - lo < ((hi - lo) / step + 1) * step).
  { rewrite Nat.mul_comm. replace ((hi - lo) / step + 1) with (S ((hi - lo) / step)) by lia.
    apply Nat.mul_succ_div_gt. lia. }
  lia.
Qed.

Lemma ranges_ordered : forall lo hi step b, 1 <= step -> lo <= hi -> In b (ranges lo hi step) ->
  lo <= fst b /\ fst b <= snd b /\ snd b <= hi.
Proof.
  intros lo hi step b Hs Hl H. unfold ranges in H. apply in_map_iff in H. destruct H as (i & E & Hi).
  apply in_seq in Hi. subst b. simpl.
  assert (K : i * step <= hi - lo).
  { assert (i <= (hi - lo) / step) by lia.
    apply Nat.le_trans with (((hi - lo) / step) * step); [apply Nat.mul_le_mono_r; assumption|].
    rewrite Nat.mul_comm. apply Nat.mul_div_le. lia. }
  lia.
Qed.

Lemma blocks_partition : forall n_rows block_size, 1 <= block_size ->
  concat (map range_rows (blocks n_rows block_size)) = seq 0 n_rows.
Proof.
  intros. unfold blocks. rewrite ranges_partition by lia. f_equal. lia.
Qed.

Lemma block_chunk_partition : forall n_rows block_size chunk_size, 1 <= block_size -> 1 <= chunk_size ->
  block_chunk_rows n_rows block_size chunk_size = seq 0 n_rows.
Proof.
  intros n bs cs Hb Hc. unfold block_chunk_rows.
  rewrite <- (blocks_partition n bs Hb). f_equal. apply map_ext_in. intros b Hin.
  destruct (ranges_ordered 0 n bs b Hb (Nat.le_0_l n) Hin) as (_ & O & _).
  rewrite ranges_partition by lia. reflexivity.
Qed.

Lemma gen_chunks_rows : forall fuel s be cs, 1 <= cs ->
  concat (map range_rows (gen_chunks fuel s be cs)) = seq s (Nat.min (be - s) (fuel * cs)).
Proof.
  induction fuel as [|f IH]; intros s be cs Hc.
  - simpl. rewrite Nat.min_0_r. reflexivity.
  - simpl gen_chunks. simpl map. simpl concat. rewrite IH by assumption.
    unfold range_rows. simpl fst. simpl snd.
    replace (s + Nat.min cs (be - s) - s) with (Nat.min cs (be - s)) by lia.
    rewrite <- seq_app. f_equal. lia.
Qed.

Lemma gen_block_chunks_partition : forall bs be cs, 1 <= cs -> bs <= be ->
  concat (map range_rows (gen_block_chunks bs be cs)) = seq bs (be - bs).
Proof.
  intros bs be cs Hc Hl. unfold gen_block_chunks. rewrite gen_chunks_rows by assumption. f_equal.
  assert (be - bs < ((be - bs) / cs + 1) * cs).
  { rewrite Nat.mul_comm. replace ((be - bs) / cs + 1) with (S ((be - bs) / cs)) by lia.
    apply Nat.mul_succ_div_gt. lia. }
  lia.
Qed.

Lemma block_size_of_pos : forall mem dim, 1 <= block_size_of mem dim.
Proof. intros. unfold block_size_of. lia. Qed.

(* without the max(1, .) a small memory_size gives block size 0 (the loops divide by it) *)
Lemma unguarded_block_size_zero : forall mem dim, mem < dim * 8 -> mem / (dim * 8) = 0.
Proof. intros. apply Nat.div_small. assumption. Qed.
End Loops.

(* ================================================================ B. vectors over Q *)
Open Scope Q_scope.

Definition veqv : list Q -> list Q -> Prop := Forall2 Qeq.

Lemma veqv_refl : forall a, veqv a a.
Proof. induction a; constructor; [reflexivity | assumption]. Qed.
Lemma veqv_sym : forall a b, veqv a b -> veqv b a.
Proof. induction 1; constructor; [symmetry; assumption | assumption]. Qed.
Lemma veqv_trans : forall a b c, veqv a b -> veqv b c -> veqv a c.
Proof.
  intros a b c H. revert c. induction H; intros c H2; inversion H2; subst; constructor.
  - etransitivity; eassumption.
  - apply IHForall2. assumption.
Qed.
#[global] Instance veqv_equiv : Equivalence veqv.
Proof. split; [exact veqv_refl | exact veqv_sym | exact veqv_trans]. Qed.

Lemma veqv_length : forall a b, veqv a b -> length a = length b.
Proof. induction 1; simpl; congruence. Qed.

#[global] Instance vadd_proper : Proper (veqv ==> veqv ==> veqv) vadd.
Proof.
  intros a a' Ha. induction Ha; intros b b' Hb; [constructor|].
  inversion Hb; subst; simpl; constructor.
  - rewrite H, H0. reflexivity.
  - apply IHHa. assumption.
Qed.

Lemma vadd_comm : forall a b, veqv (vadd a b) (vadd b a).
Proof. induction a; destruct b; simpl; constructor; [ring | apply IHa]. Qed.

Lemma vadd_assoc : forall a b c, veqv (vadd a (vadd b c)) (vadd (vadd a b) c).
Proof. induction a; destruct b; destruct c; simpl; constructor; [ring | apply IHa]. Qed.

Lemma vadd_zero_l : forall a, veqv (vadd (repeat 0 (length a)) a) a.
Proof. induction a; simpl; constructor; [ring | assumption]. Qed.

Lemma vadd_zero_l' : forall L a, length a = L -> veqv (vadd (repeat 0 L) a) a.
Proof. intros L a H. subst L. apply vadd_zero_l. Qed.

Lemma vadd_len : forall m a b, length a = m -> length b = m -> length (vadd a b) = m.
Proof. intros. rewrite vadd_length; congruence. Qed.

Lemma vadd_app : forall a1 a2 b1 b2, length a1 = length a2 ->
  vadd (a1 ++ b1) (a2 ++ b2) = vadd a1 a2 ++ vadd b1 b2.
Proof.
  induction a1; destruct a2; simpl; intros; try discriminate; [reflexivity|].
  f_equal. apply IHa1. congruence.
Qed.

Lemma veqv_app : forall a a' b b', veqv a a' -> veqv b b' -> veqv (a ++ b) (a' ++ b').
Proof. intros. apply Forall2_app; assumption. Qed.

Lemma gvadd_vadd : forall a b, gvadd Q Qplus a b = vadd a b.
Proof. induction a; destruct b; simpl; congruence. Qed.

Definition vscale (t : Q) (r : list Q) : list Q := map (Qmult t) r.

Lemma vscale_split : forall t s r, t + s == 1 -> veqv (vadd (vscale t r) (vscale s r)) r.
Proof. intros t s r H. induction r; simpl; constructor; [nra | assumption]. Qed.

Lemma vscale_length : forall t r, length (vscale t r) = length r.
Proof. intros. apply map_length. Qed.

Lemma qsum_vscale : forall t r, qsum (vscale t r) == t * qsum r.
Proof. induction r; simpl; [ring | rewrite IHr; ring]. Qed.

Lemma vscale_nonneg : forall t r, 0 <= t -> Forall (fun v => 0 <= v) r -> Forall (fun v => 0 <= v) (vscale t r).
Proof. intros t r Ht H. induction H; simpl; constructor; [nra | assumption]. Qed.

Lemma qsum_vadd : forall a b, length a = length b -> qsum (vadd a b) == qsum a + qsum b.
Proof.
  induction a; destruct b; simpl; intros; try discriminate; [ring|].
  rewrite IHa by congruence. ring.
Qed.

Lemma vadd_nonneg : forall a b, Forall (fun v => 0 <= v) a -> Forall (fun v => 0 <= v) b ->
  Forall (fun v => 0 <= v) (vadd a b).
Proof.
  intros a b Ha. revert b. induction Ha; intros b Hb; [constructor|].
  destruct Hb; simpl; constructor; [lra | apply IHHa; assumption].
Qed.

Lemma qsum_nonneg : forall r, Forall (fun v => 0 <= v) r -> 0 <= qsum r.
Proof. induction 1; simpl; lra. Qed.

Lemma nonneg_sum_zero : forall r, Forall (fun v => 0 <= v) r -> qsum r == 0 -> Forall (fun v => v == 0) r.
Proof.
  induction 1 as [|x r Hx Hr IH]; intros S; constructor; simpl in S; pose proof (qsum_nonneg r Hr).
  - lra.
  - apply IH. lra.
Qed.

Lemma qsum_proper : forall a b, veqv a b -> qsum a == qsum b.
Proof. induction 1; simpl; [reflexivity | rewrite H, IHForall2; reflexivity]. Qed.

Lemma dot_proper_l : forall a b c, veqv a b -> dot a c == dot b c.
Proof.
  intros a b c H. revert c. induction H; intros c; [reflexivity|].
  destruct c; simpl; [reflexivity | rewrite H, IHForall2; reflexivity].
Qed.

Lemma dot_vadd : forall a b c, length a = length b -> dot (vadd a b) c == dot a c + dot b c.
Proof.
  induction a; destruct b; simpl; intros c H; try discriminate; [ring|].
  destruct c; [ring|]. rewrite IHa by congruence. ring.
Qed.

Lemma dot_zero : forall a c, Forall (fun v => v == 0) a -> dot a c == 0.
Proof.
  intros a c H. revert c. induction H; intros c; [reflexivity|].
  destruct c; simpl; [reflexivity | rewrite H, IHForall; ring].
Qed.

Lemma colsums_perm : forall L l l', Permutation l l' -> veqv (colsums L l) (colsums L l').
Proof.
  intros L l l' P. induction P; simpl.
  - reflexivity.
  - rewrite IHP. reflexivity.
  - rewrite !vadd_assoc. rewrite (vadd_comm y x). reflexivity.
  - etransitivity; eassumption.
Qed.

Lemma colsums_len : forall L l, Forall (fun r => length r = L) l -> length (colsums L l) = L.
Proof.
  induction 1; simpl; [apply repeat_length | apply vadd_len; assumption].
Qed.

Lemma qsum_perm : forall l l', Permutation l l' -> qsum l == qsum l'.
Proof. induction 1; simpl; [reflexivity | rewrite IHPermutation; reflexivity | ring | etransitivity; eassumption]. Qed.

(* ================================================================ C. scale invariance of the row normalisation *)
Lemma gsum_acc_spec : forall l acc, gsum_acc Q Qplus acc l == acc + qsum l.
Proof. induction l; intros acc; simpl; [ring | rewrite IHl; ring]. Qed.

Lemma gsum_spec : forall l, gsum Q 0 Qplus l == qsum l.
Proof. intros. unfold gsum. rewrite gsum_acc_spec. ring. Qed.

Lemma Qltb_spec : forall a b, Qltb a b = true <-> a < b.
Proof.
  intros a b. unfold Qltb. rewrite negb_true_iff. split; intros H.
  - apply Qnot_le_lt. intros K. apply Qle_bool_iff in K. congruence.
  - destruct (Qle_bool b a) eqn:E; [|reflexivity]. apply Qle_bool_iff in E. lra.
Qed.

Lemma normalise_Q_some : forall w, 0 < qsum w ->
  normalise_Q w = Some (map (fun x => x / gsum Q 0 Qplus w) w).
Proof.
  intros w H. unfold normalise_Q, normalise.
  assert (K : Qltb 0 (gsum Q 0 Qplus w) = true) by (apply Qltb_spec; rewrite gsum_spec; assumption).
  rewrite K. reflexivity.
Qed.

Lemma normalise_Q_none : forall w, qsum w <= 0 -> normalise_Q w = None.
Proof.
  intros w H. unfold normalise_Q, normalise.
  destruct (Qltb 0 (gsum Q 0 Qplus w)) eqn:K; [|reflexivity].
  apply Qltb_spec in K. rewrite gsum_spec in K. lra.
Qed.

Lemma scaled_div : forall c s s' l, 0 < c -> 0 < s -> s' == c * s ->
  veqv (map (fun x => x / s') (map (Qmult c) l)) (map (fun x => x / s) l).
Proof.
  intros c s s' l Hc Hs E. induction l; simpl; constructor; [|assumption].
  rewrite E. field. split; lra.
Qed.

Theorem normalise_scale : forall (c : Q) (w : list Q), 0 < c ->
  match normalise_Q (map (Qmult c) w), normalise_Q w with
  | Some a, Some b => veqv a b
  | None, None => True
  | _, _ => False
  end.
Proof.
  intros c w Hc.
  assert (S : qsum (map (Qmult c) w) == c * qsum w) by (apply qsum_vscale).
  destruct (Qlt_le_dec 0 (qsum w)) as [P|N].
  - rewrite (normalise_Q_some w P).
    rewrite (normalise_Q_some (map (Qmult c) w)) by (rewrite S; nra).
    apply scaled_div; try assumption.
    + rewrite gsum_spec. assumption.
    + rewrite !gsum_spec. assumption.
  - rewrite (normalise_Q_none w N).
    rewrite (normalise_Q_none (map (Qmult c) w)) by (rewrite S; nra). exact I.
Qed.

(* a normalised row sums to one *)
Theorem normalise_sums_to_one : forall w p, normalise_Q w = Some p -> qsum p == 1.
Proof.
  intros w p. unfold normalise_Q, normalise. destruct (Qltb 0 (gsum Q 0 Qplus w)) eqn:B; [|discriminate].
  intros E. inversion E. subst p. apply Qltb_spec in B. pose proof (gsum_spec w) as S.
  set (s := gsum Q 0 Qplus w) in *.
  assert (G : forall l, qsum (map (fun x => x / s) l) == qsum l / s).
  { induction l; simpl; [field; lra | rewrite IHl; field; lra]. }
  rewrite G, <- S. field. lra.
Qed.

(* ================================================================ D. plans over an encoding, transfer lemmas *)
Section Transfer.
  (* the reference measure (q over the points ys, m = |q|), the dimension d, and an arbitrary ground cost *)
  Variable m d : nat.
  Variable q : list Q.
  Variable ys : list (list Q).
  Variable dist : list Q -> list Q -> Q.
  Hypothesis q_len : length q = m.

  (* one support point: weight, vector, and its row of the plan *)
  Record atom := mk_atom { a_w : Q; a_x : list Q; a_r : list Q }.

  Definition enc_of (pe : list atom) : list (Q * list Q) := map (fun a => (a_w a, a_x a)) pe.

  Definition atom_ok (a : atom) : Prop :=
    length (a_x a) = d /\ length (a_r a) = m /\ Forall (fun v => 0 <= v) (a_r a) /\ qsum (a_r a) == a_w a.

  (* pe is a coupling of the encoded measure with q: row sums are the weights, column sums are q, entries >= 0 *)
  Definition pfeasible (pe : list atom) : Prop :=
    Forall atom_ok pe /\ veqv (colsums m (map a_r pe)) q.

  Definition invq : list Q := map (fun qj => 1 / qj) q.
  Definition a_cost (a : atom) : Q := dot (a_r a) (map (dist (a_x a)) ys).
  Definition a_img (a : atom) : list Q := contrib_Q invq (a_x a) (a_r a).

  Definition pcost (pe : list atom) : Q := qsum (map a_cost pe).
  (* the flattened barycentric image matrix: block j is sum_i plan[i,j] * (1/q_j) * x_i *)
  Definition pimage (pe : list atom) : list Q := colsums (m * d) (map a_img pe).

  (* ---- contrib ---- *)
  Lemma contrib_length : forall x r iq, length r = length iq -> length (contrib_Q iq x r) = (length r * length x)%nat.
  Proof.
    unfold contrib_Q, contrib. intros x. induction r; destruct iq; simpl; intros H; try discriminate; [reflexivity|].
    rewrite app_length, map_length, IHr by congruence. reflexivity.
  Qed.

  Lemma contrib_proper : forall x r r' iq, veqv r r' -> veqv (contrib_Q iq x r) (contrib_Q iq x r').
  Proof.
    unfold contrib_Q, contrib. intros x r r' iq H. revert iq.
    induction H as [|u u' r r' Hu Hr IH]; intros iq; [reflexivity|].
    destruct iq; simpl; [reflexivity|]. apply veqv_app; [|apply IH].
    clear -Hu. induction x as [|z x IHx]; simpl; constructor; [rewrite Hu; reflexivity | assumption].
  Qed.

  Lemma contrib_zero : forall x r iq, length r = length iq -> Forall (fun v => v == 0) r ->
    veqv (contrib_Q iq x r) (repeat 0 (length r * length x)).
  Proof.
    unfold contrib_Q, contrib. intros x r iq L H. revert iq L.
    induction H as [|u r Hu Hr IH]; intros iq L; [reflexivity|].
    destruct iq; [discriminate|]. simpl. rewrite repeat_app. apply veqv_app; [|apply IH; simpl in L; congruence].
    clear -Hu. induction x as [|z x IHx]; simpl; constructor; [rewrite Hu; ring | assumption].
  Qed.

  Lemma contrib_vadd : forall x r1 r2 iq, length r1 = length r2 -> length r1 = length iq ->
    veqv (contrib_Q iq x (vadd r1 r2)) (vadd (contrib_Q iq x r1) (contrib_Q iq x r2)).
  Proof.
    unfold contrib_Q, contrib. intros x. induction r1; destruct r2; destruct iq; simpl; intros L1 L2; try discriminate;
      [reflexivity|].
    rewrite vadd_app by (rewrite !map_length; reflexivity). apply veqv_app; [|apply IHr1; congruence].
    clear. induction x as [|z x IH]; simpl; constructor; [ring | assumption].
  Qed.

  Lemma invq_len : length invq = m.
  Proof. unfold invq. rewrite map_length. exact q_len. Qed.

  Lemma a_img_length : forall a, atom_ok a -> length (a_img a) = (m * d)%nat.
  Proof.
    intros a (Lx & Lr & _). unfold a_img. rewrite contrib_length by (rewrite invq_len; assumption).
    rewrite Lx, Lr. reflexivity.
  Qed.

  (* ---- the model's accumulator loop computes pimage ---- *)
  Lemma images_acc_spec : forall atoms acc,
    length acc = (m * d)%nat -> Forall atom_ok atoms ->
    veqv (images_acc Q Qplus Qmult acc invq (map (fun a => (a_x a, a_r a)) atoms))
         (vadd acc (pimage atoms)).
  Proof.
    induction atoms as [|a atoms IH]; intros acc La Hok.
    - simpl. unfold pimage. simpl. rewrite vadd_comm. symmetry. apply vadd_zero_l'. assumption.
    - inversion Hok as [|? ? Ha Hrest]; subst. simpl map. simpl images_acc. rewrite gvadd_vadd.
      fold (contrib_Q invq (a_x a) (a_r a)). fold (a_img a).
      rewrite IH; [| apply vadd_len; [assumption | apply a_img_length; assumption] | assumption].
      unfold pimage. simpl. rewrite vadd_assoc. reflexivity.
  Qed.

  Theorem images_model : forall pe, Forall atom_ok pe ->
    veqv (images_Q m d q (map (fun a => (a_x a, a_r a)) pe)) (pimage pe).
  Proof.
    intros pe H. unfold images_Q, images. fold invq.
    rewrite images_acc_spec; [| apply repeat_length | assumption].
    assert (L : length (pimage pe) = (m * d)%nat).
    { unfold pimage. apply colsums_len. rewrite Forall_map. revert H. apply Forall_impl. apply a_img_length. }
    apply vadd_zero_l'. assumption.
  Qed.

  (* ---- transfer relation between two encodings ---- *)
  Definition same_obs (pe pe' : list atom) : Prop := pcost pe' == pcost pe /\ veqv (pimage pe') (pimage pe).

  Definition transfers (E E' : list (Q * list Q)) : Prop :=
    forall pe, enc_of pe = E -> pfeasible pe -> exists pe', enc_of pe' = E' /\ pfeasible pe' /\ same_obs pe pe'.

  (* permutation of the support points (weights and vectors together) *)
  Lemma perm_obs : forall pe pe', Permutation pe pe' -> pfeasible pe -> pfeasible pe' /\ same_obs pe pe'.
  Proof.
    intros pe pe' P [Hok Hcol]. split; [split|split].
    - revert Hok. apply Permutation_Forall. assumption.
    - rewrite <- Hcol. apply colsums_perm. apply Permutation_map. apply Permutation_sym. assumption.
    - unfold pcost. apply qsum_perm. apply Permutation_map. apply Permutation_sym. assumption.
    - unfold pimage. apply colsums_perm. apply Permutation_map. apply Permutation_sym. assumption.
  Qed.

  Theorem transfer_perm : forall E E', Permutation E E' -> transfers E E'.
  Proof.
    intros E E' P pe HE F. subst E. unfold enc_of in P.
    apply Permutation_sym in P. apply Permutation_map_inv in P. destruct P as (pe' & E1 & P).
    exists pe'. split; [symmetry; exact E1|]. apply perm_obs; [|assumption]. assumption.
  Qed.

  (* a support point of zero weight *)
  Lemma zero_atom_obs : forall a pe, a_w a == 0 -> pfeasible (a :: pe) ->
    pfeasible pe /\ same_obs (a :: pe) pe.
  Proof.
    intros a pe Hw [Hok Hcol]. inversion Hok as [|? ? Ha Hrest]; subst.
    destruct Ha as (Lx & Lr & Hpos & Hsum).
    assert (Z : Forall (fun v => v == 0) (a_r a)) by (apply nonneg_sum_zero; [assumption | rewrite Hsum; assumption]).
    assert (Zr : veqv (a_r a) (repeat 0 m)).
    { rewrite <- Lr. clear -Z. induction Z; simpl; constructor; assumption. }
    assert (Lc : length (colsums m (map a_r pe)) = m).
    { apply colsums_len. rewrite Forall_map. revert Hrest. apply Forall_impl. intros b (_ & L & _). exact L. }
    split; [split|split].
    - assumption.
    - rewrite <- Hcol. simpl. rewrite Zr. symmetry. apply vadd_zero_l'. assumption.
    - assert (Z0 : a_cost a == 0) by (unfold a_cost; apply dot_zero; assumption).
      unfold pcost. simpl. rewrite Z0. ring.
    - assert (Li : length (colsums (m * d) (map a_img pe)) = (m * d)%nat).
      { apply colsums_len. rewrite Forall_map. revert Hrest. apply Forall_impl. apply a_img_length. }
      assert (Zi : veqv (a_img a) (repeat 0 (m * d))).
      { unfold a_img. rewrite contrib_zero; [| rewrite invq_len; assumption | assumption].
        rewrite Lr, Lx. reflexivity. }
      unfold pimage. simpl. rewrite Zi. symmetry. apply vadd_zero_l'. assumption.
  Qed.

  Lemma zero_atom_add : forall x pe, length x = d -> pfeasible pe ->
    pfeasible (mk_atom 0 x (repeat 0 m) :: pe).
  Proof.
    intros x pe Lx [Hok Hcol].
    assert (Lc : length (colsums m (map a_r pe)) = m).
    { apply colsums_len. rewrite Forall_map. revert Hok. apply Forall_impl. intros b (_ & L & _). exact L. }
    split.
    - constructor; [|assumption]. repeat split; simpl; try assumption.
      + apply repeat_length.
      + clear. induction m; simpl; constructor; [lra | assumption].
      + clear. induction m; simpl; [reflexivity | rewrite IHn; ring].
    - simpl. rewrite vadd_zero_l' by assumption. assumption.
  Qed.

  Theorem transfer_pad_front : forall E x, length x = d ->
    transfers E ((0, x) :: E) /\ transfers ((0, x) :: E) E.
  Proof.
    intros E x Lx. split.
    - intros pe HE F. exists (mk_atom 0 x (repeat 0 m) :: pe). split; [simpl; congruence|].
      pose proof (zero_atom_add x pe Lx F) as F'. split; [assumption|].
      destruct (zero_atom_obs (mk_atom 0 x (repeat 0 m)) pe (Qeq_refl 0) F') as (_ & C & I). split; [symmetry; exact C | symmetry; exact I].
    - intros pe HE F. destruct pe as [|a pe]; [discriminate|]. simpl in HE. inversion HE as [[Hw Hx HE']].
      exists pe. split; [reflexivity|]. apply zero_atom_obs; [rewrite Hw; reflexivity | assumption].
  Qed.

  (* composition and the general (anywhere in the list) forms *)
  Lemma transfers_trans : forall E1 E2 E3, transfers E1 E2 -> transfers E2 E3 -> transfers E1 E3.
  Proof.
    intros E1 E2 E3 T12 T23 pe HE F. destruct (T12 pe HE F) as (pe2 & HE2 & F2 & C2 & I2).
    destruct (T23 pe2 HE2 F2) as (pe3 & HE3 & F3 & C3 & I3).
    exists pe3. split; [assumption|]. split; [assumption|]. split; [rewrite C3; assumption | rewrite I3; assumption].
  Qed.

  Theorem transfer_pad : forall E1 E2 x, length x = d ->
    transfers (E1 ++ E2) (E1 ++ (0, x) :: E2) /\ transfers (E1 ++ (0, x) :: E2) (E1 ++ E2).
  Proof.
    intros E1 E2 x Lx. destruct (transfer_pad_front (E1 ++ E2) x Lx) as [T1 T2]. split.
    - eapply transfers_trans; [exact T1|]. apply transfer_perm. apply Permutation_middle.
    - eapply transfers_trans; [|exact T2]. apply transfer_perm. apply Permutation_sym, Permutation_middle.
  Qed.

  (* splitting a support point into two duplicates sharing its mass *)
  Lemma merge_obs : forall a1 a2 pe, a_x a1 = a_x a2 -> pfeasible (a1 :: a2 :: pe) ->
    let a := mk_atom (a_w a1 + a_w a2) (a_x a1) (vadd (a_r a1) (a_r a2)) in
    pfeasible (a :: pe) /\ same_obs (a1 :: a2 :: pe) (a :: pe).
  Proof.
    intros a1 a2 pe Hx [Hok Hcol] a.
    inversion Hok as [|? ? H1 Hok']; subst. inversion Hok' as [|? ? H2 Hrest]; subst.
    destruct H1 as (Lx1 & Lr1 & P1 & S1). destruct H2 as (Lx2 & Lr2 & P2 & S2).
    split; [split|split].
    - constructor; [|assumption]. unfold a. repeat split; simpl.
      + assumption.
      + apply vadd_len; assumption.
      + apply vadd_nonneg; assumption.
      + rewrite qsum_vadd by congruence. rewrite S1, S2. reflexivity.
    - rewrite <- Hcol. simpl. rewrite vadd_assoc. reflexivity.
    - assert (Ca : a_cost a == a_cost a1 + a_cost a2).
      { unfold a_cost, a. simpl. rewrite dot_vadd by congruence. rewrite Hx. reflexivity. }
      unfold pcost. simpl. rewrite Ca. ring.
    - assert (Ia : veqv (a_img a) (vadd (a_img a1) (a_img a2))).
      { unfold a_img, a. simpl. rewrite contrib_vadd; [| congruence | rewrite invq_len; assumption].
        rewrite Hx. reflexivity. }
      unfold pimage. simpl. rewrite Ia. rewrite vadd_assoc. reflexivity.
  Qed.

  Lemma split_obs : forall a pe w1 w2, 0 <= w1 -> 0 <= w2 -> w1 + w2 == a_w a -> pfeasible (a :: pe) ->
    exists r1 r2,
      let a1 := mk_atom w1 (a_x a) r1 in
      let a2 := mk_atom w2 (a_x a) r2 in
      pfeasible (a1 :: a2 :: pe) /\ same_obs (a :: pe) (a1 :: a2 :: pe).
  Proof.
    intros a pe w1 w2 H1 H2 Hw F.
    set (t := if Qeq_bool (a_w a) 0 then 0 else w1 / a_w a).
    exists (vscale t (a_r a)), (vscale (1 - t) (a_r a)). intros a1 a2.
    destruct F as [Hok Hcol]. inversion Hok as [|? ? Ha Hrest]; subst.
    destruct Ha as (Lx & Lr & Hpos & Hsum).
    assert (Ht : 0 <= t /\ 0 <= 1 - t /\ t * a_w a == w1 /\ (1 - t) * a_w a == w2).
    { unfold t. destruct (Qeq_bool (a_w a) 0) eqn:B.
      - apply Qeq_bool_iff in B. repeat split; try lra; rewrite B; lra.
      - apply Qeq_bool_neq in B. assert (0 < a_w a) by lra.
        assert (E : w1 / a_w a * a_w a == w1) by (field; lra).
        assert (0 <= w1 / a_w a) by (apply Qle_shift_div_l; lra).
        assert (w1 / a_w a <= 1) by (apply Qle_shift_div_r; lra).
        repeat split; try lra; nra. }
    destruct Ht as (T0 & T1 & E1 & E2).
    assert (F12 : pfeasible (a1 :: a2 :: pe)).
    { split.
      - constructor; [|constructor; [|assumption]]; unfold a1, a2; repeat split; simpl;
          try assumption; try (rewrite vscale_length; assumption); try (apply vscale_nonneg; assumption).
        + rewrite qsum_vscale, Hsum. exact E1.
        + rewrite qsum_vscale, Hsum. exact E2.
      - rewrite <- Hcol. simpl. rewrite vadd_assoc. rewrite (vscale_split t (1 - t) (a_r a)) by ring. reflexivity. }
    split; [exact F12|].
    assert (R : veqv (vadd (vscale t (a_r a)) (vscale (1 - t) (a_r a))) (a_r a)) by (apply vscale_split; ring).
    assert (Ca : a_cost a == a_cost a1 + a_cost a2).
    { unfold a_cost, a1, a2. simpl. rewrite <- dot_vadd by (rewrite !vscale_length; reflexivity).
      apply dot_proper_l. symmetry. exact R. }
    assert (Ia : veqv (a_img a) (vadd (a_img a1) (a_img a2))).
    { unfold a_img, a1, a2. simpl.
      rewrite <- contrib_vadd; [| rewrite !vscale_length; reflexivity | rewrite vscale_length, invq_len; assumption].
      apply contrib_proper. symmetry. exact R. }
    split.
    - unfold pcost. simpl. rewrite Ca. ring.
    - unfold pimage. simpl. rewrite Ia. rewrite vadd_assoc. reflexivity.
  Qed.

  Theorem transfer_split_front : forall E w x w1 w2, 0 <= w1 -> 0 <= w2 -> w1 + w2 == w ->
    transfers ((w, x) :: E) ((w1, x) :: (w2, x) :: E) /\ transfers ((w1, x) :: (w2, x) :: E) ((w1 + w2, x) :: E).
  Proof.
    intros E w x w1 w2 H1 H2 Hw. split.
    - intros pe HE F. destruct pe as [|a pe]; [discriminate|]. simpl in HE. inversion HE as [[Ew Ex EE]].
      assert (Hw' : w1 + w2 == a_w a) by (rewrite Ew; assumption).
      destruct (split_obs a pe w1 w2 H1 H2 Hw' F) as (r1 & r2 & F' & O).
      exists (mk_atom w1 (a_x a) r1 :: mk_atom w2 (a_x a) r2 :: pe). split; [reflexivity|]. split; assumption.
    - intros pe HE F. destruct pe as [|a1 [|a2 pe]]; try discriminate. simpl in HE.
      inversion HE as [[Ew1 Ex1 Ew2 Ex2 EE]].
      assert (Hx : a_x a1 = a_x a2) by congruence.
      destruct (merge_obs a1 a2 pe Hx F) as (F' & O).
      exists (mk_atom (a_w a1 + a_w a2) (a_x a1) (vadd (a_r a1) (a_r a2)) :: pe). split; [simpl; congruence|]. split; assumption.
  Qed.

  (* ---- consequences: same optimal value, same set of optimal images ---- *)
  Definition popt (E : list (Q * list Q)) (opt : Q) : Prop :=
    (forall pe, enc_of pe = E -> pfeasible pe -> opt <= pcost pe) /\
    (forall b, (forall pe, enc_of pe = E -> pfeasible pe -> b <= pcost pe) -> b <= opt).

  Definition poptimal (E : list (Q * list Q)) (pe : list atom) : Prop :=
    enc_of pe = E /\ pfeasible pe /\ forall pe2, enc_of pe2 = E -> pfeasible pe2 -> pcost pe <= pcost pe2.

  Definition opt_image (E : list (Q * list Q)) (img : list Q) : Prop :=
    exists pe, poptimal E pe /\ veqv (pimage pe) img.

  Lemma transfers_lower_bound : forall E E' b, transfers E' E ->
    (forall pe, enc_of pe = E -> pfeasible pe -> b <= pcost pe) ->
    (forall pe, enc_of pe = E' -> pfeasible pe -> b <= pcost pe).
  Proof.
    intros E E' b T H pe HE F. destruct (T pe HE F) as (pe2 & HE2 & F2 & C & _). rewrite <- C. apply H; assumption.
  Qed.

  Theorem equal_optimum : forall E E' opt, transfers E E' -> transfers E' E -> popt E opt -> popt E' opt.
  Proof.
    intros E E' opt T T' [L G]. split.
    - apply (transfers_lower_bound E E'); assumption.
    - intros b Hb. apply G. apply (transfers_lower_bound E' E); assumption.
  Qed.

  Lemma transfers_optimal : forall E E' pe, transfers E E' -> transfers E' E -> poptimal E pe ->
    exists pe', poptimal E' pe' /\ same_obs pe pe'.
  Proof.
    intros E E' pe T T' (HE & F & M). destruct (T pe HE F) as (pe' & HE' & F' & C & I).
    exists pe'. split; [|split; assumption]. split; [assumption|]. split; [assumption|].
    intros pe2 HE2 F2. destruct (T' pe2 HE2 F2) as (pe3 & HE3 & F3 & C3 & _).
    rewrite C, <- C3. apply M; assumption.
  Qed.

  Theorem equal_optimal_images : forall E E' img, transfers E E' -> transfers E' E ->
    opt_image E img -> opt_image E' img.
  Proof.
    intros E E' img T T' (pe & O & I). destruct (transfers_optimal E E' pe T T' O) as (pe' & O' & _ & I').
    exists pe'. split; [assumption|]. rewrite I'. assumption.
  Qed.

  (* if the optimal image of one encoding is unique, every optimal plan of the other encoding has that image:
     whatever optimal plans the solver returns for the two encodings, the barycentric images agree *)
  Theorem unique_image_transfer : forall E E' pe pe', transfers E' E ->
    (forall p1 p2, poptimal E p1 -> poptimal E p2 -> veqv (pimage p1) (pimage p2)) ->
    transfers E E' -> poptimal E pe -> poptimal E' pe' -> veqv (pimage pe') (pimage pe).
  Proof.
    intros E E' pe pe' T' U T O O'.
    destruct (transfers_optimal E' E pe' T' T O') as (pe2 & O2 & _ & I2).
    rewrite <- I2. apply U; assumption.
  Qed.

  (* the model's LOT row for a plan is determined by pimage *)
  Theorem lot_row_model : forall pe pe', Forall atom_ok pe -> Forall atom_ok pe' -> veqv (pimage pe') (pimage pe) ->
    veqv (lot_row_Q m d q ys (map (fun a => (a_x a, a_r a)) pe'))
         (lot_row_Q m d q ys (map (fun a => (a_x a, a_r a)) pe)).
  Proof.
    intros pe pe' H H' I. unfold lot_row_Q, lot_row.
    assert (G : forall a a' b, veqv a a' -> veqv (gvsub Q Qminus a b) (gvsub Q Qminus a' b)).
    { intros a a' b Ha. revert b. induction Ha; intros b; [reflexivity|].
      destruct b; simpl; [reflexivity|]. constructor; [rewrite H0; reflexivity | apply IHHa]. }
    apply G. fold (images_Q m d q (map (fun a => (a_x a, a_r a)) pe')).
    fold (images_Q m d q (map (fun a => (a_x a, a_r a)) pe)).
    rewrite !images_model by assumption. assumption.
  Qed.

  (* the couplings here are the couplings of C07 (Model K16): same feasibility predicate on the matrix of rows *)
  Theorem pfeasible_is_feasible : forall pe, pfeasible pe -> feasible (map a_w pe) q (map a_r pe).
  Proof.
    intros pe [Hok Hcol].
    assert (HM : is_matrix (length pe) m (map a_r pe) = true).
    { unfold is_matrix. rewrite map_length, Nat.eqb_refl. simpl. apply forallb_forall.
      intros r Hr. apply in_map_iff in Hr. destruct Hr as (a & <- & Ha).
      rewrite Forall_forall in Hok. destruct (Hok a Ha) as (_ & L & _). apply Nat.eqb_eq. exact L. }
    unfold feasible. rewrite map_length, q_len. split; [|split].
    - intros i j Hi Hj. unfold entry.
      rewrite nth_indep with (d' := a_r (mk_atom 0 [] [])) by (rewrite map_length; assumption).
      rewrite map_nth. rewrite Forall_forall in Hok.
      destruct (Hok (nth i pe (mk_atom 0 [] []))) as (_ & L & P & _); [apply nth_In; assumption|].
      rewrite Forall_forall in P. apply P. apply nth_In. lia.
    - intros i Hi. rewrite <- (rowsums_nth (length pe) m _ i HM Hi). unfold rowsums. rewrite map_map.
      rewrite nth_indep with (d' := qsum (a_r (mk_atom 0 [] []))) by (rewrite map_length; assumption).
      rewrite (map_nth (fun a => qsum (a_r a))).
      rewrite nth_indep with (d' := a_w (mk_atom 0 [] [])) by (rewrite map_length; assumption).
      rewrite (map_nth a_w). rewrite Forall_forall in Hok.
      destruct (Hok (nth i pe (mk_atom 0 [] []))) as (_ & _ & _ & S); [apply nth_In; assumption|]. exact S.
    - intros j Hj. rewrite <- (colsums_nth (length pe) m _ j HM).
      clear -Hcol Hj. revert j Hj. induction Hcol; intros j Hj; [reflexivity|].
      destruct j; simpl; [assumption | apply IHHcol; simpl in Hj; lia].
  Qed.
End Transfer.
