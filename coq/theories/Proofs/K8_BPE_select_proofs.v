From Coq Require Import ZArith List Bool Lia Arith.
From VZ Require Import Model.K8_BPE Model.K8_BPE_select Proofs.K8_BPE_proofs Proofs.K8_BPE_train_proofs.
Import ListNotations.
Open Scope Z_scope.
Local Arguments firstn : simpl never.

(* ================================================================== pair dictionaries *)
Lemma peqb_spec p q : peqb p q = true <-> p = q.
Proof.
  destruct p as [a b], q as [c d]. unfold peqb. simpl. rewrite andb_true_iff, !Z.eqb_eq.
  split; [intros [-> ->]; reflexivity | intros H; inversion H; auto].
Qed.

Lemma peqb_refl p : peqb p p = true.
Proof. apply peqb_spec. reflexivity. Qed.

Definition pkeys (d : list ((Z * Z) * Z)) : list (Z * Z) := map fst d.

(* every code mentioned by a key satisfies P *)
Definition keys_ok (P : Z -> Prop) (d : list ((Z * Z) * Z)) : Prop :=
  Forall (fun p => P (fst p) /\ P (snd p)) (pkeys d).

Lemma pget_In d p : pget d p <> None <-> In p (pkeys d).
Proof.
  unfold pkeys. induction d as [|[q v] t IH]; simpl; [split; [congruence | tauto]|].
  destruct (peqb p q) eqn:E.
  - apply peqb_spec in E. subst. split; [auto | discriminate].
  - rewrite IH. split; [auto|]. intros [H|H]; [subst; rewrite peqb_refl in E; discriminate | exact H].
Qed.

Lemma pkeys_padd d p delta : pkeys (padd d p delta) = pkeys d.
Proof. unfold pkeys. induction d as [|[q v] t IH]; simpl; [reflexivity|]. destruct (peqb p q); simpl; congruence. Qed.

Lemma pkeys_pdrop d p : pkeys (pdrop d p) = pkeys d.
Proof. unfold pdrop. destruct (pget d p); [apply pkeys_padd | reflexivity]. Qed.

Lemma pkeys_pbump d p : pkeys (pbump d p) = pkeys d \/ (pkeys (pbump d p) = pkeys d ++ [p] /\ ~ In p (pkeys d)).
Proof.
  unfold pbump. destruct (pget d p) eqn:E; [left; apply pkeys_padd|].
  right. split; [unfold pkeys; rewrite map_app; reflexivity|]. intros H. apply pget_In in H. congruence.
Qed.

Lemma pbump_incl d p : incl (pkeys d) (pkeys (pbump d p)).
Proof. destruct (pkeys_pbump d p) as [->|[-> _]]; [apply incl_refl | apply incl_appl, incl_refl]. Qed.

Lemma keys_ok_pbump P d p : keys_ok P d -> P (fst p) -> P (snd p) -> keys_ok P (pbump d p).
Proof.
  unfold keys_ok. intros Hd Ha Hb. destruct (pkeys_pbump d p) as [->|[-> _]]; [exact Hd|].
  apply Forall_app. split; [exact Hd | repeat constructor; assumption].
Qed.

Lemma keys_ok_pdrop P d p : keys_ok P d -> keys_ok P (pdrop d p).
Proof. unfold keys_ok. rewrite pkeys_pdrop. auto. Qed.

Lemma nodup_pbump d p : NoDup (pkeys d) -> NoDup (pkeys (pbump d p)).
Proof.
  intros H. destruct (pkeys_pbump d p) as [->|[-> Hn]]; [exact H|].
  clear - H Hn. induction H as [|x t Hx Ht IH]; simpl; [repeat constructor; auto|].
  constructor.
  - rewrite in_app_iff. simpl. intros [H1|[H1|[]]]; [auto | subst; apply Hn; left; reflexivity].
  - apply IH. intros H1. apply Hn. right. exact H1.
Qed.

Lemma nodup_pdrop d p : NoDup (pkeys d) -> NoDup (pkeys (pdrop d p)).
Proof. rewrite pkeys_pdrop. auto. Qed.

Lemma premove_incl d p : incl (pkeys (premove d p)) (pkeys d).
Proof.
  unfold pkeys. induction d as [|[q v] t IH]; simpl; [apply incl_refl|].
  destruct (peqb p q); simpl; [apply incl_tl, incl_refl|].
  intros x [H|H]; [left; exact H | right; apply IH; exact H].
Qed.

Lemma premove_other d p q : q <> p -> In q (pkeys d) -> In q (pkeys (premove d p)).
Proof.
  unfold pkeys. induction d as [|[r v] t IH]; simpl; [tauto|]. intros Hne [H|H].
  - subst r. destruct (peqb p q) eqn:E; [apply peqb_spec in E; congruence | left; reflexivity].
  - destruct (peqb p r); [exact H | right; apply IH; assumption].
Qed.

Lemma nodup_premove d p : NoDup (pkeys d) -> NoDup (pkeys (premove d p)).
Proof.
  unfold pkeys. induction d as [|[q v] t IH]; simpl; intros H; [constructor|].
  inversion H; subst. destruct (peqb p q); simpl; [assumption|].
  constructor; [|apply IH; assumption]. intros Hin. apply (premove_incl t p) in Hin. contradiction.
Qed.

Lemma keys_ok_incl P d d' : incl (pkeys d') (pkeys d) -> keys_ok P d -> keys_ok P d'.
Proof. unfold keys_ok. intros Hi Hd. apply Forall_forall. intros x Hx. eapply Forall_forall in Hd; eauto. Qed.

(* ================================================================== count_pairs *)
Lemma count_pairs_arr_ok P : forall l d,
  Forall P l -> keys_ok P d -> NoDup (pkeys d) ->
  keys_ok P (count_pairs_arr l d) /\ NoDup (pkeys (count_pairs_arr l d)).
Proof.
  induction l as [|x|x y t IH1 IH2] using list_ind2; intros d Hl Hd Hn; try (simpl; auto; fail).
  change (count_pairs_arr (x :: y :: t) d) with (count_pairs_arr (y :: t) (pbump d (x, y))).
  inversion Hl as [|? ? Hx Hl']; subst. inversion Hl' as [|? ? Hy _]; subst.
  apply IH2; [exact Hl' | apply keys_ok_pbump; assumption | apply nodup_pbump; exact Hn].
Qed.

Lemma count_pairs_ok P enc :
  Forall P (concat enc) -> keys_ok P (count_pairs enc) /\ NoDup (pkeys (count_pairs enc)).
Proof.
  unfold count_pairs. intros H. apply Forall_concat in H.
  assert (Hgen : forall d, keys_ok P d -> NoDup (pkeys d) ->
            keys_ok P (fold_left (fun d l => count_pairs_arr l d) enc d) /\
            NoDup (pkeys (fold_left (fun d l => count_pairs_arr l d) enc d))).
  { induction H as [|l t Hl Ht IH]; intros d Hd Hn; simpl; [auto|].
    destruct (count_pairs_arr_ok P l d Hl Hd Hn) as [H1 H2]. apply IH; assumption. }
  apply Hgen; constructor.
Qed.

(* ================================================================== contract_and_count_pairs *)
Lemma aget_In l i x : aget l i = Some x -> In x l.
Proof. unfold aget. apply nth_error_In. Qed.

Lemma cacp_loop_S cl a b c steps i skip last buf k d :
  cacp_loop cl a b c (S steps) i skip last buf k d =
  if skip then cacp_loop cl a b c steps (S i) false last buf k d
  else match aget cl i with
       | None => Err 1
       | Some x =>
           let hit := if x =? a
                      then match aget cl (S i) with Some y => Some (y =? b) | None => None end
                      else Some false in
           match hit with
           | None => Err 2
           | Some true =>
               let d1 := if (0 <? i)%nat then pbump (pdrop d (last, x)) (last, c) else d in
               let d2 := if (i + 2 <? length cl)%nat
                         then match aget cl (S i), aget cl (S (S i)) with
                              | Some y, Some z => Some (pbump (pdrop d1 (y, z)) (c, z))
                              | _, _ => None
                              end
                         else Some d1 in
               match d2 with
               | None => Err 7
               | Some d2 =>
                   match aset buf k c with
                   | None => Err 3
                   | Some buf' => cacp_loop cl a b c steps (S i) true c buf' (S k) d2
                   end
               end
           | Some false =>
               match aset buf k x with
               | None => Err 4
               | Some buf' => cacp_loop cl a b c steps (S i) false x buf' (S k) d
               end
           end
       end.
Proof. reflexivity. Qed.

Lemma cacp_loop_ok cl a b c (P : Z -> Prop) :
  P c -> Forall P cl ->
  forall steps i skip last buf k d st,
    contract_loop cl a b c steps i skip buf k = Ok st ->
    (i = 0%nat /\ skip = false) \/ P last ->
    keys_ok P d -> NoDup (pkeys d) ->
    exists d', cacp_loop cl a b c steps i skip last buf k d = Ok (st, d') /\
               keys_ok P d' /\ NoDup (pkeys d') /\ incl (pkeys d) (pkeys d').
Proof.
  intros Hc Hcl. induction steps as [|steps IH]; intros i skip last buf k d st Hloop Hlast Hd Hn.
  - simpl in *. inversion Hloop; subst. exists d. repeat split; auto using incl_refl.
  - rewrite contract_loop_S in Hloop. rewrite cacp_loop_S. destruct skip.
    + apply (IH (S i) false last buf k d st Hloop); [|assumption|assumption].
      right. destruct Hlast as [[_ H]|H]; [discriminate | exact H].
    + destruct (aget cl i) as [x|] eqn:Ex; [|discriminate].
      assert (Hx : P x) by (eapply Forall_forall; [exact Hcl | eapply aget_In; eauto]).
      cbv zeta in Hloop.
      destruct (x =? a) eqn:Exa.
      * destruct (aget cl (S i)) as [y|] eqn:Ey; [|discriminate].
        assert (Hy : P y) by (eapply Forall_forall; [exact Hcl | eapply aget_In; eauto]).
        destruct (y =? b) eqn:Eyb.
        -- (* a contraction at position i *)
           set (d1 := if (0 <? i)%nat then pbump (pdrop d (last, x)) (last, c) else d).
           assert (Hd1 : keys_ok P d1 /\ NoDup (pkeys d1) /\ incl (pkeys d) (pkeys d1)).
           { subst d1. destruct (0 <? i)%nat eqn:Ei; [|auto using incl_refl].
             apply Nat.ltb_lt in Ei. assert (Hl : P last) by (destruct Hlast as [[H _]|H]; [lia | exact H]).
             split; [apply keys_ok_pbump; [apply keys_ok_pdrop; exact Hd | exact Hl | exact Hc]|].
             split; [apply nodup_pbump, nodup_pdrop; exact Hn|].
             eapply incl_tran; [|apply pbump_incl]. rewrite pkeys_pdrop. apply incl_refl. }
           destruct Hd1 as (Hd1 & Hn1 & Hi1).
           destruct (i + 2 <? length cl)%nat eqn:Ei2.
           ++ apply Nat.ltb_lt in Ei2.
              destruct (aget cl (S (S i))) as [z|] eqn:Ez; [|apply nth_error_None in Ez; lia].
              assert (Hz : P z) by (eapply Forall_forall; [exact Hcl | eapply aget_In; eauto]).
              destruct (aset buf k c) as [buf'|]; [|discriminate].
              destruct (IH (S i) true c buf' (S k) (pbump (pdrop d1 (y, z)) (c, z)) st Hloop) as (d' & H1 & H2 & H3 & H4).
              { right; exact Hc. }
              { apply keys_ok_pbump; [apply keys_ok_pdrop; exact Hd1 | exact Hc | exact Hz]. }
              { apply nodup_pbump, nodup_pdrop; exact Hn1. }
              exists d'. cbv beta iota zeta. fold d1. repeat split; try assumption.
              eapply incl_tran; [exact Hi1|]. eapply incl_tran; [|exact H4].
              eapply incl_tran; [|apply pbump_incl]. rewrite pkeys_pdrop. apply incl_refl.
           ++ destruct (aset buf k c) as [buf'|]; [|discriminate].
              destruct (IH (S i) true c buf' (S k) d1 st Hloop) as (d' & H1 & H2 & H3 & H4); try assumption.
              { right; exact Hc. }
              exists d'. cbv beta iota zeta. fold d1. repeat split; try assumption. eapply incl_tran; eassumption.
        -- destruct (aset buf k x) as [buf'|]; [|discriminate].
           apply (IH (S i) false x buf' (S k) d st Hloop); [right; exact Hx | assumption | assumption].
      * destruct (aset buf k x) as [buf'|]; [|discriminate].
        apply (IH (S i) false x buf' (S k) d st Hloop); [right; exact Hx | assumption | assumption].
Qed.

(* the array output of contract_and_count_pairs is contract_pair's; the dictionary keeps its invariants *)
Theorem cacp_ok cl a b c d (P : Z -> Prop) :
  P c -> Forall P cl -> keys_ok P d -> NoDup (pkeys d) ->
  exists d', cacp cl a b c d = Ok (contract a b c cl, d') /\
             keys_ok P d' /\ NoDup (pkeys d') /\ incl (pkeys d) (pkeys d').
Proof.
  intros Hc Hcl Hd Hn.
  pose proof (contract_pair_refines cl a b c) as Href. rewrite contract_pair_arr_unfold in Href.
  apply bind_ok in Href as (st & Hloop & Htail).
  destruct (cacp_loop_ok cl a b c P Hc Hcl _ _ _ (-1) _ _ d st Hloop (or_introl (conj eq_refl eq_refl)) Hd Hn)
    as (d' & H1 & H2 & H3 & H4).
  exists d'. split; [|auto]. unfold cacp. rewrite H1. simpl bind.
  destruct st as [[skip buf] k]. unfold tail_step in Htail.
  destruct (negb skip && (0 <? length cl)%nat).
  - destruct (aget cl (length cl - 1)); [|discriminate]. destruct (aset buf k z); [|discriminate].
    inversion Htail. reflexivity.
  - inversion Htail. reflexivity.
Qed.

Lemma cacp_all_ok a b c (P : Z -> Prop) : forall enc d,
  P c -> Forall P (concat enc) -> keys_ok P d -> NoDup (pkeys d) ->
  exists d', cacp_all enc a b c d = Ok (map (contract a b c) enc, d') /\
             keys_ok P d' /\ NoDup (pkeys d') /\ incl (pkeys d) (pkeys d').
Proof.
  induction enc as [|l t IH]; intros d Hc Henc Hd Hn; simpl.
  - exists d. repeat split; auto using incl_refl.
  - simpl in Henc. apply Forall_app in Henc as [Hl Ht].
    destruct (cacp_ok l a b c d P Hc Hl Hd Hn) as (d1 & H1 & H2 & H3 & H4). rewrite H1. simpl.
    destruct (IH d1 Hc Ht H2 H3) as (d2 & G1 & G2 & G3 & G4). rewrite G1. simpl.
    exists d2. repeat split; try assumption. eapply incl_tran; eassumption.
Qed.

(* ================================================================== pruning_max_freq_pair *)
Definition lens_ok (lens : list (Z * Z)) (mcc : Z) (P : Z -> Prop) : Prop :=
  forall c, P c -> c <= mcc \/ zget lens c <> None.

Lemma pair_length_ok lens mcc P p :
  lens_ok lens mcc P -> P (fst p) -> P (snd p) -> exists n, pair_length p lens mcc = Ok n.
Proof.
  intros Hl Ha Hb. unfold pair_length, code_length.
  assert (H : forall c, P c -> exists n, (if c <=? mcc then Ok 1 else match zget lens c with Some v => Ok v | None => Err 13 end) = Ok n).
  { intros c Hc. destruct (c <=? mcc) eqn:E; [eauto|]. apply Z.leb_gt in E.
    destruct (Hl c Hc) as [H|H]; [lia|]. destruct (zget lens c); [eauto | congruence]. }
  destruct (H _ Ha) as [x ->]. destruct (H _ Hb) as [y ->]. simpl. eauto.
Qed.

(* scan invariant: the candidate is the sentinel or one of the keys seen so far, never one to be killed *)
Lemma prune_scan_ok lens mcc mn (P : Z -> Prop) (Hpos : forall c, P c -> 0 <= c) : forall items result mx bl kill seen,
  lens_ok lens mcc P -> keys_ok P items -> NoDup (seen ++ pkeys items) ->
  (fst result < 0 \/ In result seen) -> incl kill seen -> ~ In result kill ->
  exists result' mx' bl' kill',
    prune_scan items lens mcc mn (result, mx, bl, kill) = Ok (result', mx', bl', kill') /\
    (fst result' < 0 \/ In result' (seen ++ pkeys items)) /\ incl kill' (seen ++ pkeys items) /\ ~ In result' kill'.
Proof.
  induction items as [|[p count] t IH]; intros result mx bl kill seen Hl Hk Hn Hr Hkill Hnk.
  - simpl. exists result, mx, bl, kill. rewrite app_nil_r. repeat split; auto.
  - unfold keys_ok, pkeys in Hk. simpl in Hk. inversion Hk as [|? ? [Hpa Hpb] Hk']; subst.
    assert (Hassoc : seen ++ pkeys ((p, count) :: t) = (seen ++ [p]) ++ pkeys t) by (unfold pkeys; simpl; rewrite <- app_assoc; reflexivity).
    assert (Hp_notin : ~ In p seen).
    { unfold pkeys in Hn. simpl in Hn. apply NoDup_remove_2 in Hn. intros H. apply Hn. rewrite in_app_iff. left. exact H. }
    rewrite Hassoc in *.
    assert (Hp_new : forall l, incl l seen -> ~ In p l) by (intros l Hi H; apply Hp_notin, Hi, H).
    destruct (pair_length_ok lens mcc P p Hl Hpa Hpb) as [len Hlen].
    simpl prune_scan.
    assert (Htake : exists result' mx' bl' kill',
               prune_scan t lens mcc mn (p, count, len, kill) = Ok (result', mx', bl', kill') /\
               (fst result' < 0 \/ In result' ((seen ++ [p]) ++ pkeys t)) /\ incl kill' ((seen ++ [p]) ++ pkeys t) /\ ~ In result' kill').
    { apply IH; try assumption.
      - right. rewrite in_app_iff. right. left. reflexivity.
      - apply incl_appl. exact Hkill.
      - apply Hp_new. exact Hkill. }
    assert (Hkeep : forall kill0, incl kill0 (seen ++ [p]) -> ~ In result kill0 -> exists result' mx' bl' kill',
               prune_scan t lens mcc mn (result, mx, bl, kill0) = Ok (result', mx', bl', kill') /\
               (fst result' < 0 \/ In result' ((seen ++ [p]) ++ pkeys t)) /\ incl kill' ((seen ++ [p]) ++ pkeys t) /\ ~ In result' kill').
    { intros kill0 Hk0 Hnk0. apply IH; try assumption.
      destruct Hr as [H|H]; [left; exact H | right; rewrite in_app_iff; left; exact H]. }
    destruct (mx <? count).
    + rewrite Hlen. simpl bind. exact Htake.
    + destruct (count =? mx).
      * rewrite Hlen. simpl bind.
        destruct ((bl <? len) || ((len =? bl) && pair_gt p result)); [exact Htake|].
        apply Hkeep; [apply incl_appl; exact Hkill | exact Hnk].
      * destruct (count <=? mn).
        -- apply Hkeep.
           ++ apply incl_app; [apply incl_appl; exact Hkill | apply incl_appr, incl_refl].
           ++ rewrite in_app_iff. intros [H|[H|[]]]; [contradiction|]. subst p.
              destruct Hr as [H|H]; [pose proof (Hpos _ Hpa); lia | contradiction].
        -- apply Hkeep; [apply incl_appl; exact Hkill | exact Hnk].
Qed.

Lemma fold_premove_incl kill : forall d, incl (pkeys (fold_left premove kill d)) (pkeys d).
Proof.
  induction kill as [|q t IH]; intros d; simpl; [apply incl_refl|].
  eapply incl_tran; [apply IH | apply premove_incl].
Qed.

Lemma fold_premove_other kill p : ~ In p kill -> forall d, In p (pkeys d) -> In p (pkeys (fold_left premove kill d)).
Proof.
  induction kill as [|q t IH]; intros Hn d Hd; simpl; [exact Hd|].
  apply IH; [intros H; apply Hn; right; exact H|].
  apply premove_other; [intros ->; apply Hn; left; reflexivity | exact Hd].
Qed.

Lemma fold_premove_nodup kill : forall d, NoDup (pkeys d) -> NoDup (pkeys (fold_left premove kill d)).
Proof. induction kill as [|q t IH]; intros d H; simpl; [exact H | apply IH, nodup_premove, H]. Qed.

(* pruning never raises on a consistent dictionary; its choice is the sentinel or a key that survives the pruning *)
Theorem prune_ok d lens mcc mn (P : Z -> Prop) :
  (forall c, P c -> 0 <= c) -> lens_ok lens mcc P -> keys_ok P d -> NoDup (pkeys d) ->
  exists d' q n, prune d lens mcc mn = Ok (d', q, n) /\
    incl (pkeys d') (pkeys d) /\ NoDup (pkeys d') /\ (fst q < 0 \/ In q (pkeys d')).
Proof.
  intros Hpos Hl Hd Hn.
  destruct (prune_scan_ok lens mcc mn P Hpos d (-1, -1) 0 0 [] [] Hl Hd Hn) as (r & mx & bl & kill & Hs & Hr & Hk & Hnk).
  { left. simpl. lia. } { apply incl_refl. } { simpl. tauto. }
  unfold prune. rewrite Hs. simpl bind. simpl app in *.
  destruct (mx =? 1).
  - eexists _, _, _. split; [reflexivity|]. split; [apply fold_premove_incl|]. split; [apply fold_premove_nodup; exact Hn|].
    left. simpl. lia.
  - eexists _, _, _. split; [reflexivity|]. split; [apply fold_premove_incl|]. split; [apply fold_premove_nodup; exact Hn|].
    destruct Hr as [H|H]; [left; exact H | right; apply fold_premove_other; assumption].
Qed.

(* ================================================================== the oracle instance is sound *)
Definition lens_upto (lens : list (Z * Z)) (mcc : Z) (k : nat) : Prop :=
  forall c, mcc < c < mcc + 2 + Z.of_nat k -> zget lens c <> None.

Definition impl_inv (st : sstate) (mcc : Z) (k : nat) (p : Z * Z) : Prop :=
  s_mcc st = mcc /\ keys_ok (wf_code mcc k) (s_counts st) /\ NoDup (pkeys (s_counts st)) /\
  In p (pkeys (s_counts st)) /\ lens_upto (s_lens st) mcc k.

Lemma wf_code_nonneg mcc k c : 0 <= mcc -> wf_code mcc k c -> 0 <= c.
Proof. unfold wf_code, is_char. intros Hm [[[H _] _]|H]; lia. Qed.

Lemma lens_upto_ok lens mcc k : lens_upto lens mcc k -> lens_ok lens mcc (wf_code mcc (S k)).
Proof.
  intros H c [[[_ Hc] _]|Hc]; [left; exact Hc | right; apply H; lia].
Qed.

Lemma zget_app_l lens c ext : zget lens c <> None -> zget (lens ++ ext) c <> None.
Proof. induction lens as [|[k v] t IH]; simpl; [congruence|]. destruct (c =? k); [discriminate | exact IH]. Qed.

Lemma zget_snoc lens c v : zget (lens ++ [(c, v)]) c <> None.
Proof. induction lens as [|[k v'] t IH]; simpl; [rewrite Z.eqb_refl; discriminate|]. destruct (c =? k); [discriminate | exact IH]. Qed.

Lemma keys_ok_mono (P Q : Z -> Prop) d : (forall c, P c -> Q c) -> keys_ok P d -> keys_ok Q d.
Proof. unfold keys_ok. intros H Hd. eapply Forall_impl; [|exact Hd]. intros p [Ha Hb]. auto. Qed.

Lemma keys_ok_In P d p : keys_ok P d -> In p (pkeys d) -> P (fst p) /\ P (snd p).
Proof. unfold keys_ok. intros H Hp. eapply Forall_forall in H; eauto. Qed.

Theorem impl_step_sound st mcc k p enc :
  0 <= mcc ->
  impl_inv st mcc k p -> Forall (wf_code mcc k) (concat enc) -> wf_code mcc k (fst p) -> wf_code mcc k (snd p) ->
  exists st' o,
    impl_step st p (mcc + 1 + Z.of_nat k) enc (map (contract (fst p) (snd p) (mcc + 1 + Z.of_nat k)) enc) = Ok (st', o) /\
    forall q, o = Some q -> impl_inv st' mcc (S k) q /\ wf_code mcc (S k) (fst q) /\ wf_code mcc (S k) (snd q).
Proof.
  intros Hm (Hmcc & Hkeys & Hnd & Hp & Hlens) Henc Hpa Hpb.
  set (c := mcc + 1 + Z.of_nat k). set (P := wf_code mcc (S k)).
  assert (Hmono : forall x, wf_code mcc k x -> P x) by (intros x Hx; eapply wf_code_mono; [|exact Hx]; lia).
  assert (Hc : P c) by (right; unfold c; lia).
  assert (Hpos : forall x, P x -> 0 <= x) by (intros x Hx; eapply wf_code_nonneg; eauto).
  assert (HlensP : lens_ok (s_lens st) mcc P) by (apply lens_upto_ok; exact Hlens).
  destruct (cacp_all_ok (fst p) (snd p) c P enc (s_counts st) Hc) as (d1 & Hc1 & Hk1 & Hn1 & Hi1).
  { eapply Forall_impl; [|exact Henc]. exact Hmono. } { eapply keys_ok_mono; eauto. } { exact Hnd. }
  unfold impl_step. rewrite Hmcc. fold c. rewrite Hc1. simpl bind. simpl snd.
  assert (Hp1 : In p (pkeys d1)) by (apply Hi1; exact Hp).
  destruct (pget d1 p) eqn:Eg; [|apply pget_In in Hp1; congruence].
  assert (Hk2 : keys_ok P (premove d1 p)) by (eapply keys_ok_incl; [apply premove_incl | exact Hk1]).
  assert (Hn2 : NoDup (pkeys (premove d1 p))) by (apply nodup_premove; exact Hn1).
  destruct (prune_ok (premove d1 p) (s_lens st) mcc (s_cur_min st) P Hpos HlensP Hk2 Hn2) as (d3 & q & cnt & Hpr & Hi3 & Hn3 & Hq3).
  rewrite Hpr. simpl bind.
  (* the optional recount *)
  assert (Hsel : exists dd qq cur,
     (if (s_min st <? s_cur_min st) && (cnt <=? s_cur_min st)
      then let cur' := Z.max (s_cur_min st / 2) (s_min st) in
           r' <- prune (count_pairs (map (contract (fst p) (snd p) c) enc)) (s_lens st) mcc cur' ;;
           let '(d5, q', _) := r' in Ok (d5, q', cur')
      else Ok (d3, q, s_cur_min st)) = Ok (dd, qq, cur) /\
     keys_ok P dd /\ NoDup (pkeys dd) /\ (fst qq < 0 \/ In qq (pkeys dd))).
  { destruct ((s_min st <? s_cur_min st) && (cnt <=? s_cur_min st)).
    - assert (Henc' : Forall P (concat (map (contract (fst p) (snd p) c) enc))) by (apply contract_all_wf; exact Henc).
      destruct (count_pairs_ok P _ Henc') as [Hk4 Hn4].
      destruct (prune_ok _ (s_lens st) mcc (Z.max (s_cur_min st / 2) (s_min st)) P Hpos HlensP Hk4 Hn4) as (d5 & q5 & n5 & Hpr5 & Hi5 & Hn5 & Hq5).
      cbv zeta. rewrite Hpr5. simpl. exists d5, q5, (Z.max (s_cur_min st / 2) (s_min st)).
      split; [reflexivity|]. split; [eapply keys_ok_incl; eauto|]. auto.
    - exists d3, q, (s_cur_min st). split; [reflexivity|]. split; [eapply keys_ok_incl; eauto|]. auto. }
  destruct Hsel as (d & q' & cur & Hsel & Hkd & Hnd' & Hqd). cbv zeta in Hsel. rewrite Hsel. simpl bind.
  destruct (fst q' <? 0) eqn:Eneg.
  - eexists _, None. split; [reflexivity|]. intros ? H; discriminate.
  - apply Z.ltb_ge in Eneg. destruct Hqd as [H|Hqd]; [lia|].
    destruct (pget d q') as [n|] eqn:Egq; [|apply pget_In in Hqd; congruence].
    destruct (keys_ok_In P d q' Hkd Hqd) as [Hqa Hqb].
    destruct (1 <? n).
    + destruct (pair_length_ok (s_lens st) mcc P q' HlensP Hqa Hqb) as [len Hlen]. rewrite Hlen. simpl bind.
      eexists _, (Some q'). split; [reflexivity|]. intros q0 Hq0. inversion Hq0; subst q0.
      split; [|split; assumption].
      unfold impl_inv. simpl. split; [reflexivity|]. split; [exact Hkd|]. split; [exact Hnd'|]. split; [exact Hqd|].
      intros x Hx. destruct (Z.eq_dec x (c + 1)) as [->|Hne]; [apply zget_snoc|].
      apply zget_app_l. apply Hlens. unfold c in *. lia.
    + eexists _, None. split; [reflexivity|]. intros ? H; discriminate.
Qed.

Theorem impl_init_sound mn X mcc st p :
  Forall (is_char mcc) (concat X) -> impl_init mn X mcc = Ok (st, Some p) ->
  impl_inv st mcc 0 p /\ is_char mcc (fst p) /\ is_char mcc (snd p).
Proof.
  intros HX. set (P := is_char mcc).
  destruct (count_pairs_ok P X HX) as [Hk Hn].
  assert (Hpos : forall x, P x -> 0 <= x) by (intros x [[H _] _]; exact H).
  assert (Hl : lens_ok [(-1, 1)] mcc P) by (intros c [[_ H] _]; left; exact H).
  unfold impl_init. destruct (count_pairs X) as [|kv d] eqn:Ed; [discriminate|]. rewrite <- Ed in *.
  destruct (prune_ok (count_pairs X) [(-1, 1)] mcc (max_count_of (count_pairs X) / 2) P Hpos Hl Hk Hn) as (d' & q & n & Hpr & Hi & Hn' & Hq).
  rewrite Hpr. simpl bind. destruct (fst q <? 0) eqn:Eneg; [discriminate|].
  apply Z.ltb_ge in Eneg. destruct Hq as [H|Hq]; [lia|].
  assert (Hkd' : keys_ok P d') by (eapply keys_ok_incl; eauto).
  destruct (keys_ok_In P d' q Hkd' Hq) as [Hqa Hqb].
  destruct (pair_length_ok [(-1, 1)] mcc P q Hl Hqa Hqb) as [len Hlen]. rewrite Hlen. simpl bind.
  intros H. inversion H; subst. split; [|split; assumption].
  unfold impl_inv. simpl. split; [reflexivity|]. split; [|split; [exact Hn'|split; [exact Hq|]]].
  - eapply keys_ok_mono; [|exact Hkd']. intros c Hc. left. exact Hc.
  - intros c Hc. assert (c = mcc + 1) by lia. subst c.
    simpl. destruct (mcc + 1 =? -1) eqn:E; [discriminate|]. rewrite Z.eqb_refl. discriminate.
Qed.


(* ================================================================== the whole of bpe_train *)
Definition impl_inv' (st : sstate) (mcc : Z) (k : nat) (p : Z * Z) : Prop := 0 <= mcc /\ impl_inv st mcc k p.

Theorem impl_train_sound mn X v mcc0 st p :
  Forall codepoints X ->
  impl_init mn X (fitted_mcc X mcc0) = Ok (st, Some p) ->
  exists t, bpe_train sstate (impl_init mn) impl_step X v mcc0 = Ok t /\ wf_merges (t_mcc t) (t_merges t) /\
            build_tokens (t_mcc t) (t_merges t) = Ok (t_tokens t).
Proof.
  apply (train_sound sstate (impl_init mn) impl_step impl_inv').
  - intros X' mcc st' p' HX' Hinit. destruct (impl_init_sound mn X' mcc st' p' HX' Hinit) as (Hinv & Ha & Hb).
    split; [|auto]. split; [|exact Hinv]. destruct Ha as [[? ?] _]. lia.
  - intros st' mcc k p' enc [Hm Hinv] Henc Ha Hb.
    destruct (impl_step_sound st' mcc k p' enc Hm Hinv Henc Ha Hb) as (st2 & o & Hstep & Hq).
    exists st2, o. split; [exact Hstep|]. intros q Ho. destruct (Hq q Ho) as (H1 & H2 & H3).
    split; [split; assumption | auto].
Qed.

(* whenever the model of the whole training returns, the fitted model is lossless both ways *)
Theorem impl_lossless mn X v mcc0 t :
  Forall codepoints X ->
  bpe_train sstate (impl_init mn) impl_step X v mcc0 = Ok t ->
  wf_merges (t_mcc t) (t_merges t) /\ build_tokens (t_mcc t) (t_merges t) = Ok (t_tokens t) /\
  transform_sequences t X = Ok (t_enc t) /\
  (forall i s, nth_error X i = Some s ->
     exists e, nth_error (t_enc t) i = Some e /\ bpe_decode (t_tokens t) (t_mcc t) e = Ok s) /\
  (forall s, codepoints s ->
     exists e, bpe_encode (t_merges t) (t_mcc t) s = Ok e /\
               bpe_decode (t_tokens t) (t_mcc t) e = Ok (map (clamp (t_mcc t)) s)).
Proof.
  intros HX Ht.
  destruct (train_replay_any _ _ _ X v mcc0 t Ht) as (Hmcc & Henc & _).
  assert (Hsel : exists st p, impl_init mn X (fitted_mcc X mcc0) = Ok (st, Some p)).
  { unfold bpe_train in Ht. fold (fitted_mcc X mcc0) in Ht.
    destruct (impl_init mn X (fitted_mcc X mcc0)) as [[st [p|]]|]; simpl in Ht; [eauto | discriminate | discriminate]. }
  destruct Hsel as (st & p & Hsel).
  destruct (impl_train_sound mn X v mcc0 st p HX Hsel) as (t' & Ht' & Hwf & Hb).
  rewrite Ht in Ht'. inversion Ht'; subst t'.
  split; [exact Hwf|]. split; [exact Hb|]. split; [eapply transform_train_any; eauto|].
  apply (fitted_lossless t X Hwf Hb Henc); [|exact HX]. rewrite Hmcc. apply fitted_mcc_ge.
Qed.

(* the array output of contract_and_count_pairs is that of contract_pair, whatever the dictionary *)
Theorem cacp_array cl a b c d :
  NoDup (pkeys d) -> exists d', cacp cl a b c d = Ok (contract a b c cl, d').
Proof.
  intros Hn. destruct (cacp_ok cl a b c d (fun _ => True) I) as (d' & H & _); [| |exact Hn|eauto].
  - apply Forall_forall. intros; exact I.
  - unfold keys_ok. apply Forall_forall. intros; split; exact I.
Qed.
