(* K15 (KDE, executable part) over R: the kernels of Model/K15_KDEexec.v instantiated with the real numbers. *)
From Coq Require Import Reals List Permutation Lra Lia Arith.
From VZ Require Import Model.K12_Dist Model.K15_HistKDE Model.K15_KDEexec.
From VZ Require Import Proofs.K12_Dist_proofs Proofs.K15_KDE_proofs.
Import ListNotations.
Open Scope R_scope.

Definition RO : Ops R := R_ops 0.
Definition Rkval : kernel -> R -> R -> R := kval R RO exp cos PI.
Definition Rknorm : kernel -> R := knorm R RO PI.
Definition Rkern : kernel -> R -> R -> R -> R := kern R RO exp cos PI.
Definition Rkde_row_k : kernel -> R -> list R -> list R -> list R := kde_row_k R RO exp cos PI.
Definition Rkde_transform_k : kernel -> R -> list R -> list (list R) -> list (list R) := kde_transform_k R RO exp cos PI.

Lemma Rkde_row_k_eq : forall k h grid xs, Rkde_row_k k h grid xs = Rkde_row (Rkern k) h grid xs.
Proof. reflexivity. Qed.

Lemma Rkde_transform_k_eq : forall k h grid X, Rkde_transform_k k h grid X = map (Rkde_row_k k h grid) X.
Proof. reflexivity. Qed.

(* ---------- the unnormalised kernels, pointwise ---------- *)
Lemma Rkval_gaussian : forall d h, Rkval Gaussian d h = exp (- (1 / 2) * (d * d) / (h * h)).
Proof. reflexivity. Qed.
Lemma Rkval_exponential : forall d h, Rkval Exponential d h = exp (- d / h).
Proof. reflexivity. Qed.
Lemma Rkval_tophat : forall d h, d < h -> Rkval Tophat d h = 1.
Proof. intros d h H. unfold Rkval, kval. cbn. now rewrite R_ltb_true. Qed.
Lemma Rkval_epanechnikov : forall d h, d < h -> Rkval Epanechnikov d h = 1 - (d * d) / (h * h).
Proof. intros d h H. unfold Rkval, kval. cbn. now rewrite R_ltb_true. Qed.
Lemma Rkval_linear : forall d h, d < h -> Rkval Linear d h = 1 - d / h.
Proof. intros d h H. unfold Rkval, kval. cbn. now rewrite R_ltb_true. Qed.
Lemma Rkval_cosine : forall d h, d < h -> Rkval Cosine d h = cos (1 / 2 * PI * d / h).
Proof. intros d h H. unfold Rkval, kval. cbn. now rewrite R_ltb_true. Qed.

(* finite-support kernels vanish at and beyond distance h *)
Lemma Rkval_outside : forall k d h, finite_support k = true -> h <= d -> Rkval k d h = 0.
Proof.
  intros k d h Hk Hd. assert (~ d < h) by lra.
  destruct k; try discriminate; unfold Rkval, kval; cbn; now rewrite R_ltb_false.
Qed.

Lemma div_lt_1 : forall a b, 0 < b -> a < b -> a / b < 1.
Proof.
  intros a b Hb Hab. apply (Rmult_lt_reg_r b); [exact Hb|]. unfold Rdiv. rewrite Rmult_assoc, Rinv_l by lra. lra.
Qed.

Lemma div_nonneg : forall a b, 0 <= a -> 0 < b -> 0 <= a / b.
Proof. intros a b Ha Hb. apply Rmult_le_pos; [exact Ha|]. left. now apply Rinv_0_lt_compat. Qed.

Lemma div_le_div : forall a b c, 0 < c -> a <= b -> a / c <= b / c.
Proof. intros a b c Hc Hab. apply Rmult_le_compat_r; [left; now apply Rinv_0_lt_compat|exact Hab]. Qed.

Lemma sq_lt : forall d h, 0 <= d -> d < h -> d * d < h * h.
Proof. intros. nra. Qed.

Lemma cos_arg_bounds : forall d h, 0 < h -> 0 <= d -> d < h -> 0 <= 1 / 2 * PI * d / h < PI / 2.
Proof.
  intros d h Hh Hd Hdh. assert (HP := PI_RGT_0).
  assert (E : 1 / 2 * PI * d / h = PI / 2 * (d / h)) by (field; lra). rewrite E.
  assert (0 <= d / h) by now apply div_nonneg.
  assert (d / h < 1) by now apply div_lt_1.
  split; nra.
Qed.

Lemma Rkval_nonneg : forall k d h, 0 < h -> 0 <= d -> 0 <= Rkval k d h.
Proof.
  intros k d h Hh Hd.
  destruct (Rlt_dec d h) as [Hlt|Hge].
  - destruct k.
    + rewrite Rkval_gaussian. left. apply exp_pos.
    + rewrite Rkval_tophat by assumption. lra.
    + rewrite Rkval_epanechnikov by assumption.
      assert (d * d / (h * h) < 1) by (apply div_lt_1; [nra|now apply sq_lt]). lra.
    + rewrite Rkval_exponential. left. apply exp_pos.
    + rewrite Rkval_linear by assumption. assert (d / h < 1) by now apply div_lt_1. lra.
    + rewrite Rkval_cosine by assumption. destruct (cos_arg_bounds d h Hh Hd Hlt) as [A B].
      apply cos_ge_0; [assert (HP := PI_RGT_0); lra|lra].
  - destruct (finite_support k) eqn:Ek.
    + rewrite Rkval_outside; [lra|exact Ek|lra].
    + destruct k; try discriminate; [rewrite Rkval_gaussian|rewrite Rkval_exponential]; left; apply exp_pos.
Qed.

Lemma exp_le : forall x y, x <= y -> exp x <= exp y.
Proof. intros x y [H|H]; [left; now apply exp_increasing|subst; lra]. Qed.

(* every kernel is non-increasing in the distance: farther values contribute less *)
Lemma Rkval_decreasing : forall k d1 d2 h, 0 < h -> 0 <= d1 -> d1 <= d2 -> Rkval k d2 h <= Rkval k d1 h.
Proof.
  intros k d1 d2 h Hh H1 H12.
  assert (Hhh : 0 < h * h) by nra.
  destruct (Rlt_dec d2 h) as [Hlt|Hge].
  - assert (Hlt1 : d1 < h) by lra.
    destruct k.
    + rewrite !Rkval_gaussian. apply exp_le. apply div_le_div; [exact Hhh|]. nra.
    + rewrite !Rkval_tophat by assumption. lra.
    + rewrite !Rkval_epanechnikov by assumption.
      assert (d1 * d1 / (h * h) <= d2 * d2 / (h * h)) by (apply div_le_div; [exact Hhh|nra]). lra.
    + rewrite !Rkval_exponential. apply exp_le. apply div_le_div; [exact Hh|lra].
    + rewrite !Rkval_linear by assumption. assert (d1 / h <= d2 / h) by (apply div_le_div; [exact Hh|lra]). lra.
    + rewrite !Rkval_cosine by assumption.
      destruct (cos_arg_bounds d1 h Hh H1 Hlt1) as [A1 B1].
      destruct (cos_arg_bounds d2 h Hh (Rle_trans _ _ _ H1 H12) Hlt) as [A2 B2].
      assert (HP := PI_RGT_0).
      apply cos_decr_1; try lra.
      apply div_le_div; [exact Hh|]. nra.
  - destruct (finite_support k) eqn:Ek.
    + rewrite (Rkval_outside k d2 h Ek) by lra. now apply Rkval_nonneg.
    + destruct k; try discriminate.
      * rewrite !Rkval_gaussian. apply exp_le. apply div_le_div; [exact Hhh|]. nra.
      * rewrite !Rkval_exponential. apply exp_le. apply div_le_div; [exact Hh|lra].
Qed.

Lemma Rkval_le_1 : forall k d h, 0 < h -> 0 <= d -> Rkval k d h <= 1.
Proof.
  intros k d h Hh Hd. apply Rle_trans with (Rkval k 0 h); [apply Rkval_decreasing; lra|].
  destruct k.
  - rewrite Rkval_gaussian. replace (- (1 / 2) * (0 * 0) / (h * h)) with 0 by (field; lra). rewrite exp_0. lra.
  - rewrite Rkval_tophat by assumption. lra.
  - rewrite Rkval_epanechnikov by assumption. replace (0 * 0 / (h * h)) with 0 by (field; lra). lra.
  - rewrite Rkval_exponential. replace (- 0 / h) with 0 by (field; lra). rewrite exp_0. lra.
  - rewrite Rkval_linear by assumption. replace (0 / h) with 0 by (field; lra). lra.
  - rewrite Rkval_cosine by assumption. replace (1 / 2 * PI * 0 / h) with 0 by (field; lra). rewrite cos_0. lra.
Qed.

(* ---------- normalisation constants ---------- *)
Lemma Rknorm_values :
  Rknorm Gaussian = 1 / sqrt (2 * PI) /\ Rknorm Tophat = 1 / 2 /\ Rknorm Epanechnikov = 3 / 4 /\
  Rknorm Exponential = 1 / 2 /\ Rknorm Linear = 1 /\ Rknorm Cosine = PI / 4.
Proof. unfold Rknorm, knorm. cbn. repeat split; try reflexivity; try lra; f_equal; lra. Qed.

Lemma sqrt_2PI_pos : 0 < sqrt (2 * PI).
Proof. apply sqrt_lt_R0. assert (HP := PI_RGT_0). lra. Qed.

Lemma Rknorm_pos : forall k, 0 < Rknorm k.
Proof.
  assert (HP := PI_RGT_0). assert (HS := sqrt_2PI_pos).
  destruct Rknorm_values as (A & B & C & D & E & F).
  destruct k; [rewrite A|rewrite B|rewrite C|rewrite D|rewrite E|rewrite F]; try lra.
  apply Rdiv_lt_0_compat; lra.
Qed.

(* ---------- the normalised kernel ---------- *)
Lemma Rkern_eq : forall k h g x, Rkern k h g x = Rknorm k * Rkval k (Rabs (g - x)) h / h.
Proof. reflexivity. Qed.

Lemma Rkern_nonneg : forall k h g x, 0 < h -> 0 <= Rkern k h g x.
Proof.
  intros k h g x Hh. rewrite Rkern_eq. apply div_nonneg; [|exact Hh].
  apply Rmult_le_pos; [left; apply Rknorm_pos|]. apply Rkval_nonneg; [exact Hh|apply Rabs_pos].
Qed.

Lemma Rkern_outside : forall k h g x, 0 < h -> finite_support k = true -> h <= Rabs (g - x) -> Rkern k h g x = 0.
Proof. intros k h g x Hh Hk Hd. rewrite Rkern_eq, Rkval_outside by assumption. field. lra. Qed.

Lemma Rkern_far_le : forall k h g x D, 0 < h -> 0 <= D -> D <= Rabs (g - x) ->
  Rkern k h g x <= Rknorm k * Rkval k D h / h.
Proof.
  intros k h g x D Hh HD Hd. rewrite Rkern_eq. apply div_le_div; [exact Hh|].
  apply Rmult_le_compat_l; [left; apply Rknorm_pos|]. now apply Rkval_decreasing.
Qed.

(* the Gaussian instance is the density N(g; x, h^2) used by C20_kde_gauss_nonneg *)
Lemma Rkern_gaussian : forall h g x, 0 < h -> Rkern Gaussian h g x = gauss h g x.
Proof.
  intros h g x Hh. rewrite Rkern_eq, Rkval_gaussian. destruct Rknorm_values as (-> & _).
  unfold gauss. assert (HS := sqrt_2PI_pos).
  assert (E : Rabs (g - x) * Rabs (g - x) = (g - x) * (g - x)).
  { pose proof (Rsqr_abs (g - x)) as Q. unfold Rsqr in Q. symmetry. exact Q. }
  rewrite E.
  replace (- (1 / 2) * ((g - x) * (g - x)) / (h * h)) with (- ((g - x) / h * ((g - x) / h)) / 2) by (field; lra).
  field. split; lra.
Qed.

(* ---------- sums and means ---------- *)
Section Means.
  Variable kern : R -> R -> R -> R.

  Lemma Rksum_app : forall h g xs ys, Rksum kern h g (xs ++ ys) = Rksum kern h g xs + Rksum kern h g ys.
  Proof.
    intros h g xs ys. unfold Rksum, ksum. induction xs as [|x xs IH]; cbn; [lra|]. rewrite IH. lra.
  Qed.

  Lemma Rksum_repeat : forall h g xs m,
    Rksum kern h g (concat (repeat xs m)) = INR m * Rksum kern h g xs.
  Proof.
    intros h g xs m. induction m as [|m IH].
    - cbn. unfold Rksum, ksum. cbn. lra.
    - cbn [repeat concat]. rewrite Rksum_app, IH, S_INR. lra.
  Qed.

  Lemma length_concat_repeat : forall (A : Type) (xs : list A) m, length (concat (repeat xs m)) = (m * length xs)%nat.
  Proof. intros A xs m. induction m as [|m IH]; cbn; [reflexivity|]. rewrite app_length, IH. reflexivity. Qed.

  (* repeating the whole sample m >= 1 times does not change the estimate *)
  Lemma Rkde_at_repeat : forall h g xs m, xs <> [] ->
    Rkde_at kern h (concat (repeat xs (S m))) g = Rkde_at kern h xs g.
  Proof.
    intros h g xs m Hne. unfold Rkde_at, kde_at.
    change (ksum R Rplus 0 kern h g ?l) with (Rksum kern h g l).
    rewrite Rksum_repeat, length_concat_repeat, mult_INR.
    assert (0 < INR (length xs)) by (apply lt_0_INR; destruct xs; [congruence|cbn; lia]).
    assert (0 < INR (S m)) by (apply lt_0_INR; lia).
    field. split; lra.
  Qed.

  Lemma Rkde_row_repeat : forall h grid xs m, xs <> [] ->
    Rkde_row kern h grid (concat (repeat xs (S m))) = Rkde_row kern h grid xs.
  Proof. intros h grid xs m Hne. unfold Rkde_row, kde_row. apply map_ext. intro g. now apply Rkde_at_repeat. Qed.

  (* the row depends on the sample only through its value counts *)
  Lemma Rkde_row_count_occ : forall h grid xs ys,
    (forall v, count_occ Req_EM_T xs v = count_occ Req_EM_T ys v) ->
    Rkde_row kern h grid xs = Rkde_row kern h grid ys.
  Proof. intros h grid xs ys H. apply Rkde_row_perm. now apply (Permutation_count_occ Req_EM_T). Qed.

  Lemma Rksum_le : forall h g xs B, (forall x, In x xs -> kern h g x <= B) -> Rksum kern h g xs <= INR (length xs) * B.
  Proof.
    intros h g xs B. unfold Rksum, ksum. induction xs as [|x xs IH]; intro H.
    - cbn. lra.
    - cbn [fold_right length]. rewrite S_INR.
      assert (kern h g x <= B) by (apply H; now left).
      assert (fold_right (fun x s => kern h g x + s) 0 xs <= INR (length xs) * B) by (apply IH; intros; apply H; now right).
      lra.
  Qed.

  Lemma Rkde_at_le : forall h g xs B, xs <> [] -> (forall x, In x xs -> kern h g x <= B) -> Rkde_at kern h xs g <= B.
  Proof.
    intros h g xs B Hne H. unfold Rkde_at, kde_at.
    change (ksum R Rplus 0 kern h g ?l) with (Rksum kern h g l).
    assert (HL : 0 < INR (length xs)) by (apply lt_0_INR; destruct xs; [congruence|cbn; lia]).
    apply (Rmult_le_reg_r (INR (length xs))); [exact HL|].
    unfold Rdiv. rewrite Rmult_assoc, Rinv_l by lra. rewrite Rmult_1_r, (Rmult_comm B). now apply Rksum_le.
  Qed.

  Lemma Rkde_at_zero : forall h g xs, (forall x, In x xs -> kern h g x = 0) -> Rkde_at kern h xs g = 0.
  Proof.
    intros h g xs H. unfold Rkde_at, kde_at.
    assert (E : ksum R Rplus 0 kern h g xs = 0).
    { unfold ksum. induction xs as [|x xs IH]; cbn; [reflexivity|].
      rewrite (H x) by now left. rewrite IH by (intros; apply H; now right). lra. }
    rewrite E. unfold Rdiv. lra.
  Qed.
End Means.

(* ---------- rows of the modelled transform ---------- *)
Lemma Rkde_row_k_nonneg : forall k h grid xs, 0 < h -> xs <> [] -> Forall (fun v => 0 <= v) (Rkde_row_k k h grid xs).
Proof. intros k h grid xs Hh Hne. rewrite Rkde_row_k_eq. apply Rkde_row_nonneg; auto. intros. now apply Rkern_nonneg. Qed.

Lemma Rkde_row_k_length : forall k h grid xs, length (Rkde_row_k k h grid xs) = length grid.
Proof. intros. rewrite Rkde_row_k_eq. apply Rkde_row_length. Qed.

Lemma Rkde_row_k_cell : forall k h grid xs i, (i < length grid)%nat ->
  nth i (Rkde_row_k k h grid xs) 0 = Rkde_at (Rkern k) h xs (nth i grid 0).
Proof. intros k h grid xs i Hi. rewrite Rkde_row_k_eq, Rkde_row_nth by exact Hi. reflexivity. Qed.

Lemma Rkde_far_zero : forall k h g xs, 0 < h -> finite_support k = true ->
  (forall x, In x xs -> h <= Rabs (g - x)) -> Rkde_at (Rkern k) h xs g = 0.
Proof. intros k h g xs Hh Hk H. apply Rkde_at_zero. intros x Hx. apply Rkern_outside; auto. Qed.

Lemma Rkde_far_bound : forall k h g xs D, 0 < h -> xs <> [] -> 0 <= D ->
  (forall x, In x xs -> D <= Rabs (g - x)) -> Rkde_at (Rkern k) h xs g <= Rknorm k * Rkval k D h / h.
Proof. intros k h g xs D Hh Hne HD H. apply Rkde_at_le; [exact Hne|]. intros x Hx. apply Rkern_far_le; auto. Qed.

Lemma Rkde_transform_k_rows : forall k h grid X,
  length (Rkde_transform_k k h grid X) = length X /\
  forall i d, (i < length X)%nat -> nth i (Rkde_transform_k k h grid X) [] = Rkde_row_k k h grid (nth i X d).
Proof.
  intros k h grid X. rewrite Rkde_transform_k_eq. split; [apply map_length|].
  intros i d Hi. rewrite (nth_indep _ [] (Rkde_row_k k h grid d)) by (now rewrite map_length). apply map_nth.
Qed.

(* ---------- bandwidth candidates: 10 ** linspace(log10 a, log10 b, num) ---------- *)
Definition Rbw_grid : R -> R -> nat -> list R := bw_grid R RO exp.

Lemma Rpow10_pos : forall y, 0 < pow10_T R RO exp y.
Proof. intro y. unfold pow10_T. apply exp_pos. Qed.

Lemma Rbw_grid_pos : forall a b num, Forall (fun c => 0 < c) (Rbw_grid a b num).
Proof.
  intros a b num. unfold Rbw_grid, bw_grid. apply Forall_forall. intros c Hc.
  apply in_map_iff in Hc. destruct Hc as (y & <- & _). apply Rpow10_pos.
Qed.

Lemma ln10_pos : 0 < ln (INR 10).
Proof. rewrite <- ln_1. apply ln_increasing; [lra|]. replace 1 with (INR 1) by reflexivity. apply lt_INR. lia. Qed.

Lemma Rpow10_log10 : forall x, 0 < x -> pow10_T R RO exp (log10_T R RO x) = x.
Proof.
  intros x Hx. unfold pow10_T, log10_T, ln10.
  change (o_ln R RO) with ln. change (o_div R RO) with Rdiv. change (o_mul R RO) with Rmult. change (o_of_nat R RO) with INR.
  assert (H10 := ln10_pos).
  replace (ln x / ln (INR 10) * ln (INR 10)) with (ln x) by (field; lra). now apply exp_ln.
Qed.

Lemma Rbw_grid_length : forall a b num, length (Rbw_grid a b num) = num.
Proof.
  intros a b num. unfold Rbw_grid, bw_grid. rewrite map_length. unfold np_linspace.
  destruct num as [|[|m]]; [reflexivity|reflexivity|]. rewrite app_length, map_length, seq_length. cbn. lia.
Qed.

(* the first and last candidates are the two bandwidth bounds *)
Lemma Rbw_grid_ends : forall a b num, 0 < a -> 0 < b -> (2 <= num)%nat ->
  nth 0 (Rbw_grid a b num) 0 = a /\ last (Rbw_grid a b num) 0 = b.
Proof.
  intros a b num Ha Hb Hn. unfold Rbw_grid, bw_grid, np_linspace.
  destruct num as [|[|m]]; [lia|lia|]. split.
  - cbn [seq map app nth]. cbn [o_eqz o_of_nat o_div o_mul o_add o_sub RO R_ops].
    replace (INR 0) with 0 by reflexivity.
    destruct (R_eqz _).
    + unfold Rdiv. rewrite !Rmult_0_l, Rplus_0_l. now apply Rpow10_log10.
    + rewrite Rmult_0_l, Rplus_0_l. now apply Rpow10_log10.
  - rewrite map_app. cbn [map]. rewrite last_last. now apply Rpow10_log10.
Qed.
