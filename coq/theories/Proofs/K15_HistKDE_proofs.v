(* Proofs about Model/K15_HistKDE.v: order facts on extended rationals, chain => partition => conservation,
   chain-preservation of the bin construction steps. *)
From Coq Require Import QArith List Bool Arith Lia Lqa Sorted Permutation.
From VZ Require Import Model.K15_HistKDE.
Import ListNotations.

(* ------------------------------------------------------------------ order on ext *)
Lemma qltb_iff : forall x y, qltb x y = true <-> (x < y)%Q.
Proof.
  intros x y. unfold qltb. rewrite negb_true_iff. split; intro H.
  - apply Qnot_le_lt. intro Hle. apply Qle_bool_iff in Hle. congruence.
  - destruct (Qle_bool y x) eqn:E; [|reflexivity].
    apply Qle_bool_iff in E. exfalso. apply (Qlt_not_le _ _ H E).
Qed.

Lemma qltb_false_iff : forall x y, qltb x y = false <-> (y <= x)%Q.
Proof.
  intros x y. unfold qltb. rewrite negb_false_iff. apply Qle_bool_iff.
Qed.

Lemma elt_irrefl : forall a, elt a a = false.
Proof.
  destruct a; cbn; try reflexivity. apply qltb_false_iff. apply Qle_refl.
Qed.

Lemma elt_trans : forall a b c, elt a b = true -> elt b c = true -> elt a c = true.
Proof.
  destruct a, b, c; cbn; intros H1 H2; try reflexivity; try discriminate.
  apply qltb_iff in H1. apply qltb_iff in H2. apply qltb_iff. eapply Qlt_trans; eauto.
Qed.

Lemma ele_elt_trans : forall a b c, ele a b = true -> elt b c = true -> elt a c = true.
Proof.
  unfold ele. destruct a, b, c; cbn; intros H1 H2; try reflexivity; try discriminate.
  apply negb_true_iff in H1. apply qltb_false_iff in H1. apply qltb_iff in H2. apply qltb_iff.
  eapply Qle_lt_trans; eauto.
Qed.

Lemma elt_ele_trans : forall a b c, elt a b = true -> ele b c = true -> elt a c = true.
Proof.
  unfold ele. destruct a, b, c; cbn; intros H1 H2; try reflexivity; try discriminate.
  apply negb_true_iff in H2. apply qltb_false_iff in H2. apply qltb_iff in H1. apply qltb_iff.
  eapply Qlt_le_trans; eauto.
Qed.

Lemma ele_trans : forall a b c, ele a b = true -> ele b c = true -> ele a c = true.
Proof.
  unfold ele. destruct a, b, c; cbn; intros H1 H2; try reflexivity; try discriminate.
  apply negb_true_iff in H1. apply negb_true_iff in H2. apply negb_true_iff.
  apply qltb_false_iff in H1. apply qltb_false_iff in H2. apply qltb_false_iff.
  eapply Qle_trans; eauto.
Qed.

Lemma ele_refl : forall a, ele a a = true.
Proof. intro a. unfold ele. now rewrite elt_irrefl. Qed.

Lemma elt_ele : forall a b, elt a b = true -> ele a b = true.
Proof.
  intros a b H. unfold ele. apply negb_true_iff.
  destruct (elt b a) eqn:E; [|reflexivity].
  pose proof (elt_trans _ _ _ H E) as C. now rewrite elt_irrefl in C.
Qed.

Lemma eeqb_elt_l : forall a b c, eeqb a b = true -> elt a c = elt b c.
Proof.
  intros a b c H. unfold eeqb in H. apply andb_true_iff in H. destruct H as [H1 H2].
  destruct (elt a c) eqn:E1, (elt b c) eqn:E2; try reflexivity.
  - pose proof (ele_elt_trans _ _ _ H2 E1). congruence.
  - pose proof (ele_elt_trans _ _ _ H1 E2). congruence.
Qed.

Lemma eeqb_elt_r : forall a b c, eeqb a b = true -> elt c a = elt c b.
Proof.
  intros a b c H. unfold eeqb in H. apply andb_true_iff in H. destruct H as [H1 H2].
  destruct (elt c a) eqn:E1, (elt c b) eqn:E2; try reflexivity.
  - pose proof (elt_ele_trans _ _ _ E1 H1). congruence.
  - pose proof (elt_ele_trans _ _ _ E2 H2). congruence.
Qed.

Lemma eeqb_refl : forall a, eeqb a a = true.
Proof. intro a. unfold eeqb. now rewrite ele_refl. Qed.

(* ------------------------------------------------------------------ cut_from *)
Lemma cut_from_none : forall bins j x,
  cut_from j bins x = None <-> (forall b, In b bins -> in_bin b x = false).
Proof.
  induction bins as [|b t IH]; intros j x; cbn.
  - split; [intros _ b []|reflexivity].
  - destruct (in_bin b x) eqn:E.
    + split; [discriminate|]. intro H. specialize (H b (or_introl eq_refl)). congruence.
    + rewrite IH. split.
      * intros H b' [<-|Hin]; auto.
      * intros H b' Hin. apply H. now right.
Qed.

Lemma cut_from_some : forall bins j x k d,
  cut_from j bins x = Some k ->
  (j <= k < j + length bins)%nat /\ in_bin (nth (k - j) bins d) x = true /\
  (forall i, (i < k - j)%nat -> in_bin (nth i bins d) x = false).
Proof.
  induction bins as [|b t IH]; intros j x k d; cbn.
  - discriminate.
  - destruct (in_bin b x) eqn:E.
    + intro H. injection H as <-. rewrite Nat.sub_diag. repeat split; try lia; auto.
    + intro H. apply (IH _ _ _ d) in H. destruct H as (Hr & Hin & Hbefore).
      split; [lia|].
      replace (k - j)%nat with (S (k - S j)) by lia. split; [exact Hin|].
      intros i Hi. destruct i; [exact E|]. apply Hbefore. lia.
Qed.

Lemma cut_one_lt : forall bins x k, cut_one bins x = Some k -> (k < length bins)%nat.
Proof.
  intros bins x k H. apply (cut_from_some _ _ _ _ (PInf, PInf)) in H. lia.
Qed.

(* ------------------------------------------------------------------ chain facts *)
(* every bin of a chain starting at r lies to the right of r and is non-empty *)
Lemma chain_from_bounds : forall bins r b,
  chain_fromb r bins = true -> In b bins -> ele r (fst b) = true /\ elt (fst b) (snd b) = true.
Proof.
  induction bins as [|[l' r'] t IH]; intros r b Hc Hin; [destruct Hin|].
  cbn in Hc. apply andb_true_iff in Hc. destruct Hc as [Hc Ht].
  apply andb_true_iff in Hc. destruct Hc as [Heq Hlt].
  destruct Hin as [<-|Hin]; cbn.
  - split; [|exact Hlt]. unfold eeqb in Heq. apply andb_true_iff in Heq. tauto.
  - destruct (IH _ _ Ht Hin) as [H1 H2]. split; [|exact H2].
    unfold eeqb in Heq. apply andb_true_iff in Heq. destruct Heq as [Ha _].
    eapply ele_trans; [exact Ha|]. eapply ele_trans; [apply elt_ele; exact Hlt|exact H1].
Qed.

Lemma in_bin_right_excludes : forall bins r b x,
  chain_fromb r bins = true -> ele (Fin x) r = true -> In b bins -> in_bin b x = false.
Proof.
  intros bins r b x Hc Hx Hin. destruct (chain_from_bounds _ _ _ Hc Hin) as [H1 _].
  unfold in_bin. apply andb_false_iff. left.
  destruct (elt (fst b) (Fin x)) eqn:E; [|reflexivity].
  pose proof (elt_ele_trans _ _ _ E Hx) as C1.
  pose proof (elt_ele_trans _ _ _ C1 H1) as C2. now rewrite elt_irrefl in C2.
Qed.

Definition chain_tail (bins : list bin) : Prop :=
  match bins with [] => True | (l, r) :: t => elt l r = true /\ chain_fromb r t = true end.

Lemma chainb_tail : forall bins, chainb bins = true -> chain_tail bins.
Proof.
  destruct bins as [|[l r] t]; cbn; [discriminate|]. intro H. now apply andb_true_iff in H.
Qed.

Lemma chain_from_tail : forall r bins, chain_fromb r bins = true -> chain_tail bins.
Proof.
  intros r [|[l' r'] t]; cbn; [trivial|]. intro H.
  apply andb_true_iff in H. destruct H as [H Ht]. apply andb_true_iff in H. tauto.
Qed.

Lemma chain_tail_cons : forall b t, chain_tail (b :: t) -> chain_tail t.
Proof.
  intros [l r] t [_ H]. eapply chain_from_tail; eauto.
Qed.

(* pairwise disjointness: the bins of a chain that contain x are one and the same position *)
Lemma chain_disjoint : forall bins d x i j,
  chain_tail bins -> (i < length bins)%nat -> (j < length bins)%nat ->
  in_bin (nth i bins d) x = true -> in_bin (nth j bins d) x = true -> i = j.
Proof.
  induction bins as [|[l r] t IH]; intros d x i j Hc Hi Hj Hbi Hbj; [cbn in Hi; lia|].
  destruct Hc as [Hlr Ht].
  assert (Hex : forall k, (k < length t)%nat -> in_bin (l, r) x = true -> in_bin (nth k t d) x = true -> False).
  { intros k Hk H0 Hkk. unfold in_bin in H0. cbn in H0. apply andb_true_iff in H0. destruct H0 as [_ Hxr].
    rewrite (in_bin_right_excludes t r (nth k t d) x Ht Hxr) in Hkk; [discriminate|]. now apply nth_In. }
  destruct i, j; cbn in *; try reflexivity.
  - exfalso. apply (Hex j); auto. lia.
  - exfalso. apply (Hex i); auto. lia.
  - f_equal. apply (IH d x); auto; try lia. eapply chain_from_tail; eauto.
Qed.

Lemma last_right_cons : forall b b' t d, last_right (b :: b' :: t) d = last_right (b' :: t) d.
Proof. reflexivity. Qed.

(* covering: a value right of r and not beyond the last right edge is in some bin *)
Lemma chain_cover : forall bins r x d,
  bins <> [] -> chain_fromb r bins = true -> elt r (Fin x) = true -> ele (Fin x) (last_right bins d) = true ->
  exists j, (j < length bins)%nat /\ in_bin (nth j bins (d, d)) x = true.
Proof.
  induction bins as [|[l' r'] t IH]; intros r x d Hne Hc Hrx Hxh; [congruence|].
  cbn in Hc. apply andb_true_iff in Hc. destruct Hc as [Hc Ht].
  apply andb_true_iff in Hc. destruct Hc as [Heq Hlt].
  destruct (ele (Fin x) r') eqn:E.
  - exists 0%nat. split; [cbn; lia|]. cbn. unfold in_bin. cbn.
    rewrite <- (eeqb_elt_l _ _ _ Heq), Hrx, E. reflexivity.
  - destruct t as [|b' t'].
    + unfold last_right in Hxh. cbn in Hxh. congruence.
    + assert (Hr'x : elt r' (Fin x) = true).
      { unfold ele in E. apply negb_false_iff in E. exact E. }
      rewrite last_right_cons in Hxh.
      destruct (IH r' x d) as (j & Hj & Hin); auto; [discriminate|].
      exists (S j). split; [cbn in *; lia|exact Hin].
Qed.

Lemma chain_from_last_ge : forall bins r d b,
  chain_fromb r bins = true -> In b bins -> ele (snd b) (last_right bins d) = true.
Proof.
  induction bins as [|[l' r'] t IH]; intros r d b Hc Hin; [destruct Hin|].
  cbn in Hc. apply andb_true_iff in Hc. destruct Hc as [Hc Ht].
  destruct t as [|b' t'].
  - destruct Hin as [<-|[]]. unfold last_right. cbn. apply ele_refl.
  - rewrite last_right_cons. destruct Hin as [<-|Hin].
    + cbn. specialize (IH r' d b' Ht (or_introl eq_refl)).
      destruct (chain_from_bounds _ _ b' Ht (or_introl eq_refl)) as [H1 H2].
      eapply ele_trans; [exact H1|]. eapply ele_trans; [apply elt_ele; exact H2|exact IH].
    + eapply IH; eauto.
Qed.

Lemma in_range_iff_some_bin : forall bins x,
  chainb bins = true ->
  (in_range bins x = true <-> exists j, (j < length bins)%nat /\ in_bin (nth j bins (NInf, NInf)) x = true).
Proof.
  intros [|[l r] t] x Hc; [discriminate|].
  cbn in Hc. apply andb_true_iff in Hc. destruct Hc as [Hlr Ht].
  unfold in_range, lo_of, hi_of. cbn [hd fst]. split.
  - intro H. apply andb_true_iff in H. destruct H as [Hlo Hhi].
    destruct (ele (Fin x) r) eqn:E.
    + exists 0%nat. split; [cbn; lia|]. cbn. unfold in_bin. cbn. now rewrite Hlo, E.
    + destruct t as [|b' t'].
      * unfold last_right in Hhi. cbn in Hhi. congruence.
      * rewrite last_right_cons in Hhi.
        assert (Hrx : elt r (Fin x) = true) by (unfold ele in E; now apply negb_false_iff in E).
        destruct (chain_cover (b' :: t') r x NInf) as (j & Hj & Hin); auto; [discriminate|].
        exists (S j). split; [cbn in *; lia|exact Hin].
  - intros (j & Hj & Hin).
    assert (Hc' : chain_fromb l ((l, r) :: t) = true).
    { cbn. now rewrite eeqb_refl, Hlr, Ht. }
    assert (HIn : In (nth j ((l, r) :: t) (NInf, NInf)) ((l, r) :: t)) by now apply nth_In.
    destruct (chain_from_bounds _ _ _ Hc' HIn) as [H1 _].
    pose proof (chain_from_last_ge _ _ NInf _ Hc' HIn) as H2.
    unfold in_bin in Hin. apply andb_true_iff in Hin. destruct Hin as [Ha Hb].
    apply andb_true_iff. split.
    + eapply ele_elt_trans; eauto.
    + eapply ele_trans; eauto.
Qed.

Lemma nth_default_irrel : forall (A : Type) (l : list A) n d d', (n < length l)%nat -> nth n l d = nth n l d'.
Proof. intros. now apply nth_indep. Qed.

Lemma partition_exists_unique : forall bins x d,
  chainb bins = true -> in_range bins x = true ->
  exists j, ((j < length bins)%nat /\ in_bin (nth j bins d) x = true) /\
            forall j', (j' < length bins)%nat /\ in_bin (nth j' bins d) x = true -> j = j'.
Proof.
  intros bins x d Hc Hr. apply (in_range_iff_some_bin _ _ Hc) in Hr. destruct Hr as (j & Hj & Hin).
  exists j. split.
  - split; [exact Hj|]. now rewrite (nth_indep _ d (NInf, NInf)).
  - intros j' [Hj' Hin']. rewrite (nth_indep _ d (NInf, NInf)) in Hin' by exact Hj'.
    eapply chain_disjoint; eauto. now apply chainb_tail.
Qed.

Lemma outside_no_bin : forall bins x b,
  chainb bins = true -> in_range bins x = false -> In b bins -> in_bin b x = false.
Proof.
  intros bins x b Hc Hr Hin. destruct (in_bin b x) eqn:E; [|reflexivity].
  destruct (In_nth _ _ (NInf, NInf) Hin) as (j & Hj & Hnth).
  assert (in_range bins x = true).
  { apply in_range_iff_some_bin; auto. exists j. split; auto. rewrite <- Hnth in E. exact E. }
  congruence.
Qed.

(* cut_one returns j exactly when x lies in bin j *)
Lemma cut_one_spec : forall bins x j d,
  chainb bins = true -> (j < length bins)%nat ->
  (cut_one bins x = Some j <-> in_bin (nth j bins d) x = true).
Proof.
  intros bins x j d Hc Hj. split.
  - intro H. apply (cut_from_some _ _ _ _ d) in H. destruct H as (_ & H & _). now rewrite Nat.sub_0_r in H.
  - intro Hin. destruct (cut_one bins x) as [k|] eqn:E.
    + pose proof (cut_from_some _ _ _ _ d E) as (Hk & Hink & _). rewrite Nat.sub_0_r in Hink.
      f_equal. eapply chain_disjoint; eauto; [now apply chainb_tail|lia].
    + unfold cut_one in E. rewrite cut_from_none in E.
      rewrite E in Hin; [discriminate|]. now apply nth_In.
Qed.

Lemma cut_one_none_spec : forall bins x,
  chainb bins = true -> (cut_one bins x = None <-> in_range bins x = false).
Proof.
  intros bins x Hc. unfold cut_one. rewrite cut_from_none. split.
  - intro H. destruct (in_range bins x) eqn:E; [|reflexivity].
    apply (in_range_iff_some_bin _ _ Hc) in E. destruct E as (j & Hj & Hin).
    rewrite H in Hin; [discriminate|]. now apply nth_In.
  - intros H b Hb. eapply outside_no_bin; eauto.
Qed.

(* ------------------------------------------------------------------ counting *)
Lemma value_counts_length : forall n codes, length (value_counts n codes) = n.
Proof. intros. unfold value_counts. now rewrite map_length, seq_length. Qed.

Lemma hist_row_length : forall bins xs, length (hist_row bins xs) = length bins.
Proof. intros. unfold hist_row. apply value_counts_length. Qed.

Lemma value_counts_nth : forall n codes j,
  (j < n)%nat -> nth j (value_counts n codes) 0%nat = length (filter (code_is j) codes).
Proof.
  intros n codes j Hj. unfold value_counts.
  set (f := fun j => length (filter (code_is j) codes)).
  rewrite (nth_indep _ 0%nat (f 0%nat)) by now rewrite map_length, seq_length.
  rewrite map_nth. now rewrite seq_nth.
Qed.

Lemma filter_map_length : forall (A B : Type) (f : A -> B) (p : B -> bool) l,
  length (filter p (map f l)) = length (filter (fun a => p (f a)) l).
Proof.
  induction l as [|a l IH]; cbn; [reflexivity|]. destruct (p (f a)); cbn; now rewrite IH.
Qed.

Lemma filter_ext_length : forall (A : Type) (p q : A -> bool) l,
  (forall a, In a l -> p a = q a) -> length (filter p l) = length (filter q l).
Proof.
  induction l as [|a l IH]; intro H; cbn; [reflexivity|].
  rewrite (H a (or_introl eq_refl)). destruct (q a); cbn; rewrite IH; auto; intros; apply H; now right.
Qed.

Lemma hist_row_nth : forall bins xs j d,
  chainb bins = true -> (j < length bins)%nat ->
  nth j (hist_row bins xs) 0%nat = length (filter (in_bin (nth j bins d)) xs).
Proof.
  intros bins xs j d Hc Hj. unfold hist_row. rewrite value_counts_nth by exact Hj.
  rewrite filter_map_length. apply filter_ext_length. intros x _.
  destruct (in_bin (nth j bins d) x) eqn:E.
  - apply (cut_one_spec bins x j d Hc Hj) in E. rewrite E. cbn. apply Nat.eqb_refl.
  - destruct (cut_one bins x) as [k|] eqn:Ek; cbn; [|reflexivity].
    destruct (Nat.eqb k j) eqn:Ekj; [|reflexivity]. apply Nat.eqb_eq in Ekj. subst k.
    apply (cut_one_spec bins x j d Hc Hj) in Ek. congruence.
Qed.

Definition is_some (c : option nat) : bool := match c with Some _ => true | None => false end.

Lemma list_sum_cons : forall a l, list_sum (a :: l) = (a + list_sum l)%nat.
Proof. reflexivity. Qed.

Lemma sum_indicator_gen : forall n s k,
  list_sum (map (fun j => if Nat.eqb k j then 1%nat else 0%nat) (seq s n)) =
  (if (s <=? k)%nat && (k <? s + n)%nat then 1%nat else 0%nat).
Proof.
  induction n as [|n IH]; intros s k.
  - cbn [seq map]. change (list_sum []) with 0%nat. destruct (s <=? k)%nat eqn:E1, (k <? s + 0)%nat eqn:E2; cbn [andb]; try reflexivity.
    apply Nat.leb_le in E1. apply Nat.ltb_lt in E2. lia.
  - cbn [seq map]. rewrite list_sum_cons, IH.
    destruct (Nat.eqb_spec k s), (Nat.leb_spec (S s) k), (Nat.ltb_spec k (S s + n)),
             (Nat.leb_spec s k), (Nat.ltb_spec k (s + S n)); cbn [andb]; try reflexivity; lia.
Qed.

Lemma sum_indicator : forall n k, (k < n)%nat ->
  list_sum (map (fun j => if Nat.eqb k j then 1%nat else 0%nat) (seq 0 n)) = 1%nat.
Proof.
  intros n k Hk. rewrite sum_indicator_gen.
  replace (0 <=? k)%nat with true by (symmetry; apply Nat.leb_le; lia).
  replace (k <? 0 + n)%nat with true by (symmetry; apply Nat.ltb_lt; lia). reflexivity.
Qed.

Lemma list_sum_map_add : forall (f g : nat -> nat) l,
  list_sum (map (fun j => (f j + g j)%nat) l) = (list_sum (map f l) + list_sum (map g l))%nat.
Proof.
  induction l as [|a l IH]; [reflexivity|]. cbn [map]. rewrite !list_sum_cons, IH. lia.
Qed.

Lemma list_sum_zero : forall (A : Type) (l : list A), list_sum (map (fun _ => 0%nat) l) = 0%nat.
Proof. induction l; cbn; auto. Qed.

Lemma value_counts_sum : forall n codes,
  (forall k, In (Some k) codes -> (k < n)%nat) ->
  list_sum (value_counts n codes) = length (filter is_some codes).
Proof.
  intros n codes. unfold value_counts. induction codes as [|c codes IH]; intro Hb.
  - cbn [filter length]. apply list_sum_zero.
  - cbn [filter].
    assert (Hb' : forall k, In (Some k) codes -> (k < n)%nat) by (intros; apply Hb; now right).
    specialize (IH Hb').
    transitivity (list_sum (map (fun j => ((if code_is j c then 1 else 0) + length (filter (code_is j) codes))%nat) (seq 0 n))).
    { f_equal. apply map_ext. intro j. destruct (code_is j c); reflexivity. }
    rewrite list_sum_map_add, IH.
    destruct c as [k|]; cbn [is_some code_is].
    + assert (Hk : (k < n)%nat) by (apply Hb; now left).
      rewrite (sum_indicator n k Hk). reflexivity.
    + rewrite list_sum_zero. reflexivity.
Qed.

Lemma hist_row_sum : forall bins xs,
  chainb bins = true -> list_sum (hist_row bins xs) = length (filter (in_range bins) xs).
Proof.
  intros bins xs Hc. unfold hist_row. rewrite value_counts_sum.
  - rewrite filter_map_length. apply filter_ext_length. intros x _.
    destruct (cut_one bins x) as [k|] eqn:E; cbn.
    + destruct (in_range bins x) eqn:Er; [reflexivity|].
      apply (cut_one_none_spec bins x Hc) in Er. congruence.
    + apply (cut_one_none_spec bins x Hc) in E. now rewrite E.
  - intros k Hin. apply in_map_iff in Hin. destruct Hin as (x & Hx & _). eapply cut_one_lt; eauto.
Qed.

Lemma filter_length_le' : forall (A : Type) (p : A -> bool) l, (length (filter p l) <= length l)%nat.
Proof. induction l as [|a l IH]; cbn; [lia|]. destruct (p a); cbn; lia. Qed.

(* without any hypothesis on the bins: nothing is counted twice (each value feeds at most one cell) *)
Lemma hist_row_sum_le : forall bins xs, (list_sum (hist_row bins xs) <= length xs)%nat.
Proof.
  intros bins xs. unfold hist_row. rewrite value_counts_sum.
  - rewrite filter_map_length. apply filter_length_le'.
  - intros k Hin. apply in_map_iff in Hin. destruct Hin as (x & Hx & _). eapply cut_one_lt; eauto.
Qed.

(* ------------------------------------------------------------------ construction: from_breaks *)
Fixpoint incr (l : list Q) : Prop :=
  match l with
  | a :: ((b :: _) as t) => (a < b)%Q /\ incr t
  | _ => True
  end.

Lemma chain_from_breaks : forall l b,
  incr (b :: l) -> chain_fromb (Fin b) (from_breaks (map Fin (b :: l))) = true.
Proof.
  induction l as [|c l IH]; intros b H; [reflexivity|].
  destruct H as [Hbc Hi]. change (from_breaks (map Fin (b :: c :: l))) with ((Fin b, Fin c) :: from_breaks (map Fin (c :: l))).
  cbn [chain_fromb]. rewrite eeqb_refl. cbn [elt andb].
  assert (qltb b c = true) as -> by now apply qltb_iff. cbn. apply IH. exact Hi.
Qed.

Lemma chainb_from_breaks : forall a b l,
  incr (a :: b :: l) -> chainb (from_breaks (map Fin (a :: b :: l))) = true.
Proof.
  intros a b l [Hab Hi].
  change (from_breaks (map Fin (a :: b :: l))) with ((Fin a, Fin b) :: from_breaks (map Fin (b :: l))).
  cbn [chainb elt]. assert (qltb a b = true) as -> by now apply qltb_iff. cbn.
  now apply chain_from_breaks.
Qed.

Lemma from_breaks_length : forall l, length (from_breaks l) = (length l - 1)%nat.
Proof.
  intros [|a l]; [reflexivity|]. unfold from_breaks, bin. cbn [tl]. rewrite combine_length. cbn [length]. lia.
Qed.

Lemma lo_of_from_breaks : forall a b l, lo_of (from_breaks (a :: b :: l)) = a.
Proof. reflexivity. Qed.

Lemma last_right_from_breaks : forall l a b d, last_right (from_breaks (a :: b :: l)) d = last (b :: l) d.
Proof.
  induction l as [|c l IH]; intros a b d; [reflexivity|].
  change (from_breaks (a :: b :: c :: l)) with ((a, b) :: from_breaks (b :: c :: l)).
  change (from_breaks (b :: c :: l)) with ((b, c) :: from_breaks (c :: l)).
  rewrite last_right_cons. change ((b, c) :: from_breaks (c :: l)) with (from_breaks (b :: c :: l)).
  rewrite IH. reflexivity.
Qed.

Lemma incr_map_seq : forall (f : nat -> Q) k s,
  (forall i, (f i < f (S i))%Q) -> incr (map f (seq s k)).
Proof.
  induction k as [|k IH]; intros s Hf; [exact I|].
  cbn [seq map]. destruct k as [|k]; [exact I|].
  cbn [seq map]. split; [apply Hf|]. apply (IH (S s) Hf).
Qed.

Definition lin (lo hi : Q) (n i : nat) : Q :=
  lo + (inject_Z (Z.of_nat i)) * (hi - lo) / (inject_Z (Z.of_nat n)).

Lemma lin_step : forall lo hi n i, (0 < n)%nat -> (lo < hi)%Q -> (lin lo hi n i < lin lo hi n (S i))%Q.
Proof.
  intros lo hi n i Hn Hlh. unfold lin.
  assert (Hn' : (0 < inject_Z (Z.of_nat n))%Q).
  { change 0%Q with (inject_Z 0). rewrite <- Zlt_Qlt. lia. }
  assert (Hw : (0 < (hi - lo) / inject_Z (Z.of_nat n))%Q).
  { apply Qlt_shift_div_l; [exact Hn'|]. lra. }
  rewrite Nat2Z.inj_succ. unfold Z.succ. rewrite inject_Z_plus.
  set (w := ((hi - lo) / inject_Z (Z.of_nat n))%Q) in *.
  assert (E1 : (inject_Z (Z.of_nat i) * (hi - lo) / inject_Z (Z.of_nat n) == inject_Z (Z.of_nat i) * w)%Q).
  { unfold w. unfold Qdiv. ring. }
  assert (E2 : ((inject_Z (Z.of_nat i) + inject_Z 1) * (hi - lo) / inject_Z (Z.of_nat n) == inject_Z (Z.of_nat i) * w + w)%Q).
  { unfold w. unfold Qdiv. change (inject_Z 1) with 1%Q. ring. }
  rewrite E1, E2. lra.
Qed.

Lemma linspace_eq : forall lo hi n, linspace lo hi n = map (lin lo hi n) (seq 0 (S n)).
Proof. reflexivity. Qed.

Lemma lin_last : forall lo hi n, (0 < n)%nat -> (lin lo hi n n == hi)%Q.
Proof.
  intros lo hi n Hn. unfold lin.
  assert (Hn' : ~ (inject_Z (Z.of_nat n) == 0)%Q).
  { unfold Qeq, inject_Z. cbn [Qnum Qden]. lia. }
  field. exact Hn'.
Qed.

Lemma lin_first : forall lo hi n, (lin lo hi n 0 == lo)%Q.
Proof.
  intros. unfold lin. cbn [Z.of_nat]. unfold Qdiv. change (inject_Z 0) with 0%Q. ring.
Qed.

Lemma last_map_seq : forall (A : Type) (f : nat -> A) k s d, last (map f (seq s (S k))) d = f (s + k)%nat.
Proof.
  induction k as [|k IH]; intros s d.
  - cbn. now rewrite Nat.add_0_r.
  - change (seq s (S (S k))) with (s :: seq (S s) (S k)). cbn [map].
    change (last (f s :: map f (seq (S s) (S k))) d) with (last (map f (seq (S s) (S k))) d).
    rewrite IH. f_equal. lia.
Qed.

Lemma eeqb_fin : forall x y, (x == y)%Q -> eeqb (Fin x) (Fin y) = true.
Proof.
  intros x y E. unfold eeqb, ele. cbn [elt].
  assert (qltb y x = false) as -> by (apply qltb_false_iff; rewrite E; apply Qle_refl).
  assert (qltb x y = false) as -> by (apply qltb_false_iff; rewrite E; apply Qle_refl).
  reflexivity.
Qed.

Lemma interval_range_facts : forall lo hi n,
  (0 < n)%nat -> (lo < hi)%Q ->
  let bins := interval_range lo hi n in
  chainb bins = true /\ length bins = n /\ eeqb (lo_of bins) (Fin lo) = true /\ eeqb (hi_of bins) (Fin hi) = true.
Proof.
  intros lo hi n Hn Hlh bins. unfold bins, interval_range. rewrite linspace_eq.
  destruct n as [|n]; [lia|].
  assert (Hi : incr (map (lin lo hi (S n)) (seq 0 (S (S n))))).
  { apply incr_map_seq. intro i. apply lin_step; [lia|exact Hlh]. }
  change (seq 0 (S (S n))) with (0%nat :: 1%nat :: seq 2 n) in *. cbn [map] in *.
  split; [now apply chainb_from_breaks|]. split.
  - rewrite from_breaks_length. cbn [length]. rewrite !map_length, seq_length. lia.
  - split.
    + rewrite lo_of_from_breaks. apply eeqb_fin. apply lin_first.
    + unfold hi_of. rewrite last_right_from_breaks.
      change (Fin (lin lo hi (S n) 1) :: map Fin (map (lin lo hi (S n)) (seq 2 n)))
        with (map Fin (map (lin lo hi (S n)) (seq 1 (S n)))).
      rewrite map_map, last_map_seq. apply eeqb_fin. apply lin_last. lia.
Qed.

(* ------------------------------------------------------------------ expand_boundaries / add_outier_bins *)
Lemma last_right_default : forall bins d d', bins <> [] -> last_right bins d = last_right bins d'.
Proof.
  induction bins as [|b t IH]; intros d d' Hne; [congruence|].
  destruct t as [|b' t']; [reflexivity|]. rewrite !last_right_cons. apply IH. discriminate.
Qed.

Lemma set_last_right_cons2 : forall b b' t a1,
  set_last_right (b :: b' :: t) a1 = b :: set_last_right (b' :: t) a1.
Proof. intros [l r] b' t a1. reflexivity. Qed.

Lemma set_last_right_length : forall bins a1, length (set_last_right bins a1) = length bins.
Proof.
  induction bins as [|b t IH]; intro a1; [reflexivity|].
  destruct t as [|b' t']; [destruct b; reflexivity|].
  rewrite set_last_right_cons2. cbn [length]. f_equal. apply IH.
Qed.

Lemma set_last_right_hd : forall b t a1 d, fst (hd d (set_last_right (b :: t) a1)) = fst b.
Proof.
  intros [l r] [|b' t'] a1 d; reflexivity.
Qed.

Lemma set_last_right_chain_from : forall bins r0 a1,
  chain_fromb r0 bins = true -> chain_fromb r0 (set_last_right bins a1) = true.
Proof.
  induction bins as [|[l r] t IH]; intros r0 a1 Hc; [reflexivity|].
  cbn [chain_fromb] in Hc. apply andb_true_iff in Hc. destruct Hc as [Hc Ht].
  apply andb_true_iff in Hc. destruct Hc as [Heq Hlr].
  destruct t as [|b' t'].
  - cbn [set_last_right chain_fromb]. rewrite Heq. cbn [andb].
    destruct (elt r a1) eqn:E; [|now rewrite Hlr].
    now rewrite (elt_trans _ _ _ Hlr E).
  - rewrite set_last_right_cons2. cbn [chain_fromb]. rewrite Heq, Hlr. cbn [andb]. now apply IH.
Qed.

Lemma set_last_right_last : forall bins a1 d, bins <> [] ->
  last_right (set_last_right bins a1) d = (if elt (last_right bins d) a1 then a1 else last_right bins d).
Proof.
  induction bins as [|[l r] t IH]; intros a1 d Hne; [congruence|].
  destruct t as [|b' t'].
  - unfold last_right. cbn. reflexivity.
  - rewrite set_last_right_cons2.
    assert (Hs : exists b'' t'', set_last_right (b' :: t') a1 = b'' :: t'').
    { pose proof (set_last_right_length (b' :: t') a1) as Hl.
      destruct (set_last_right (b' :: t') a1) as [|b'' t'']; [cbn in Hl; lia|eauto]. }
    destruct Hs as (b'' & t'' & Hs). rewrite Hs, !last_right_cons, <- Hs. apply IH. discriminate.
Qed.

Lemma chainb_as_from : forall l r t, chainb ((l, r) :: t) = chain_fromb l ((l, r) :: t).
Proof. intros. cbn. now rewrite eeqb_refl. Qed.

Lemma expand_boundaries_facts : forall bins a0 a1,
  chainb bins = true ->
  exists bins', expand_boundaries bins a0 a1 = Some bins' /\ chainb bins' = true /\ length bins' = length bins /\
    lo_of bins' = (if elt a0 (lo_of bins) then a0 else lo_of bins) /\
    hi_of bins' = (if elt (hi_of bins) a1 then a1 else hi_of bins).
Proof.
  intros [|[l r] t] a0 a1 Hc; [discriminate|].
  cbn [expand_boundaries]. eexists. split; [reflexivity|].
  set (l' := if elt a0 l then a0 else l).
  assert (Hc1 : chainb ((l', r) :: t) = true).
  { cbn in Hc |- *. apply andb_true_iff in Hc. destruct Hc as [Hlr Ht]. rewrite Ht, andb_true_r.
    unfold l'. destruct (elt a0 l) eqn:E; [eapply elt_trans; eauto|exact Hlr]. }
  split; [|split; [|split]].
  - assert (Hs : exists r'' t'', set_last_right ((l', r) :: t) a1 = (l', r'') :: t'').
    { destruct t as [|b' t']; [cbn; eauto|]. rewrite set_last_right_cons2. eauto. }
    destruct Hs as (r'' & t'' & Hs). rewrite Hs, chainb_as_from, <- Hs.
    apply set_last_right_chain_from. now rewrite <- chainb_as_from.
  - now rewrite set_last_right_length.
  - unfold lo_of. rewrite set_last_right_hd. reflexivity.
  - unfold hi_of. rewrite set_last_right_last by discriminate.
    assert (E : last_right ((l', r) :: t) NInf = last_right ((l, r) :: t) NInf).
    { destruct t as [|b' t']; reflexivity. }
    now rewrite E.
Qed.

Lemma chain_from_app_last : forall bins r0 a1 d,
  bins <> [] -> chain_fromb r0 bins = true -> elt (last_right bins d) a1 = true ->
  chain_fromb r0 (bins ++ [(last_right bins d, a1)]) = true.
Proof.
  induction bins as [|[l r] t IH]; intros r0 a1 d Hne Hc Hlt; [congruence|].
  cbn [chain_fromb] in Hc. apply andb_true_iff in Hc. destruct Hc as [Hc Ht].
  apply andb_true_iff in Hc. destruct Hc as [Heq Hlr].
  destruct t as [|b' t'].
  - unfold last_right in *. cbn in *. now rewrite Heq, Hlr, eeqb_refl, Hlt.
  - rewrite last_right_cons in *. cbn [app chain_fromb]. rewrite Heq, Hlr. cbn [andb].
    apply (IH r a1 d); auto. discriminate.
Qed.

Lemma last_right_app : forall bins b d, last_right (bins ++ [b]) d = snd b.
Proof.
  intros bins b d. unfold last_right. now rewrite last_last.
Qed.

Lemma lo_of_app : forall bins b, bins <> [] -> lo_of (bins ++ [b]) = lo_of bins.
Proof. intros [|b0 t] b Hne; [congruence|reflexivity]. Qed.

Lemma add_outlier_bins_facts : forall bins a0 a1,
  chainb bins = true ->
  exists bins', add_outlier_bins bins a0 a1 = Some bins' /\ chainb bins' = true /\
    length bins' = (length bins + (if elt a0 (lo_of bins) then 1 else 0) + (if elt (hi_of bins) a1 then 1 else 0))%nat /\
    lo_of bins' = (if elt a0 (lo_of bins) then a0 else lo_of bins) /\
    hi_of bins' = (if elt (hi_of bins) a1 then a1 else hi_of bins).
Proof.
  intros [|[l r] t] a0 a1 Hc; [discriminate|].
  cbn [add_outlier_bins]. cbv zeta.
  set (bins := (l, r) :: t) in *.
  set (bins1 := if elt a0 l then (a0, l) :: bins else bins).
  exists (if elt (last_right bins1 PInf) a1 then bins1 ++ [(last_right bins1 PInf, a1)] else bins1).
  split; [reflexivity|].
  assert (Hne1 : bins1 <> []) by (unfold bins1, bins; destruct (elt a0 l); discriminate).
  assert (Hlo1 : lo_of bins1 = (if elt a0 l then a0 else l)).
  { unfold bins1, bins. destruct (elt a0 l); reflexivity. }
  assert (Hc1 : chain_fromb (lo_of bins1) bins1 = true).
  { unfold bins1. destruct (elt a0 l) eqn:E.
    - cbn [lo_of hd fst chain_fromb]. rewrite eeqb_refl, E. cbn [andb]. unfold bins. now rewrite <- chainb_as_from.
    - unfold bins. cbn [lo_of hd fst]. now rewrite <- chainb_as_from. }
  assert (Hchain1 : chainb bins1 = true).
  { destruct bins1 as [|[l1 r1] t1] eqn:Eb; [congruence|]. now rewrite chainb_as_from. }
  assert (Hlast1 : forall d, last_right bins1 d = last_right bins NInf).
  { intro d. unfold bins1. destruct (elt a0 l).
    - unfold bins. rewrite last_right_cons. apply last_right_default. discriminate.
    - apply last_right_default. discriminate. }
  assert (Hlen1 : length bins1 = (length bins + (if elt a0 l then 1 else 0))%nat).
  { unfold bins1. destruct (elt a0 l); cbn [length]; lia. }
  change ((l, r) :: t) with bins. change (lo_of bins) with l.
  change (hi_of bins) with (last_right bins NInf).
  rewrite (Hlast1 PInf).
  destruct (elt (last_right bins NInf) a1) eqn:E.
  - split; [|split; [|split]].
    + destruct bins1 as [|[l1 r1] t1] eqn:Eb; [congruence|].
      change (((l1, r1) :: t1) ++ [(last_right bins NInf, a1)]) with ((l1, r1) :: (t1 ++ [(last_right bins NInf, a1)])).
      rewrite chainb_as_from.
      change ((l1, r1) :: (t1 ++ [(last_right bins NInf, a1)])) with (((l1, r1) :: t1) ++ [(last_right bins NInf, a1)]).
      rewrite <- (Hlast1 NInf). apply chain_from_app_last; auto.
      now rewrite (Hlast1 NInf).
    + rewrite app_length, Hlen1. change (length [(last_right bins NInf, a1)]) with 1%nat. reflexivity.
    + rewrite lo_of_app by exact Hne1. exact Hlo1.
    + unfold hi_of. now rewrite last_right_app.
  - split; [exact Hchain1|]. split; [rewrite Nat.add_0_r; exact Hlen1|]. split; [exact Hlo1|].
    unfold hi_of. apply Hlast1.
Qed.

(* ------------------------------------------------------------------ fit: uniform *)
Lemma fold_left_qmin_in : forall t x, In (fold_left qmin t x) (x :: t).
Proof.
  induction t as [|y t IH]; intro x; cbn [fold_left]; [now left|].
  destruct (IH (qmin x y)) as [H|H].
  - rewrite <- H. unfold qmin. destruct (Qle_bool x y); [now left|right; now left].
  - right. now right.
Qed.

Lemma fold_left_qmax_in : forall t x, In (fold_left qmax t x) (x :: t).
Proof.
  induction t as [|y t IH]; intro x; cbn [fold_left]; [now left|].
  destruct (IH (qmax x y)) as [H|H].
  - rewrite <- H. unfold qmax. destruct (Qle_bool x y); [right; now left|now left].
  - right. now right.
Qed.

Lemma list_min_in : forall d l, l <> [] -> In (list_min d l) l.
Proof. intros d [|x t] H; [congruence|]. apply fold_left_qmin_in. Qed.

Lemma list_max_in : forall d l, l <> [] -> In (list_max d l) l.
Proof. intros d [|x t] H; [congruence|]. apply fold_left_qmax_in. Qed.

Lemma fit_filter_in : forall a0 a1 flat x,
  In x (fit_filter a0 a1 flat) -> elt a0 (Fin x) = true /\ elt (Fin x) a1 = true.
Proof.
  intros a0 a1 flat x H. unfold fit_filter in H. apply filter_In in H. destruct H as [_ H].
  now apply andb_true_iff in H.
Qed.

Lemma finish_bins_facts : forall outl bins a0 a1,
  chainb bins = true -> elt a0 (lo_of bins) = true -> elt (hi_of bins) a1 = true ->
  exists bins', finish_bins outl bins a0 a1 = Some bins' /\ chainb bins' = true /\
    lo_of bins' = a0 /\ hi_of bins' = a1 /\ length bins' = (length bins + (if outl then 2 else 0))%nat.
Proof.
  intros outl bins a0 a1 Hc Hlo Hhi. unfold finish_bins. destruct outl.
  - destruct (add_outlier_bins_facts bins a0 a1 Hc) as (b' & H1 & H2 & H3 & H4 & H5).
    rewrite Hlo in *. rewrite Hhi in *. exists b'. repeat split; auto. rewrite H3. lia.
  - destruct (expand_boundaries_facts bins a0 a1 Hc) as (b' & H1 & H2 & H3 & H4 & H5).
    rewrite Hlo in *. rewrite Hhi in *. exists b'. repeat split; auto. rewrite H3. lia.
Qed.

Lemma hist_fit_uniform_facts : forall flat n a0 a1 outl,
  (0 < n)%nat ->
  (list_min 0 (fit_filter a0 a1 flat) < list_max 0 (fit_filter a0 a1 flat))%Q ->
  exists bins, hist_fit_uniform flat n a0 a1 outl = Some bins /\ chainb bins = true /\
    lo_of bins = a0 /\ hi_of bins = a1 /\ length bins = (n + (if outl then 2 else 0))%nat.
Proof.
  intros flat n a0 a1 outl Hn Hlt. unfold hist_fit_uniform.
  set (f := fit_filter a0 a1 flat) in *.
  assert (Hne : f <> []).
  { intro E. rewrite E in Hlt. cbn in Hlt. exact (Qlt_irrefl _ Hlt). }
  destruct (fit_filter_in a0 a1 flat _ (list_min_in 0 f Hne)) as [Hmin _].
  destruct (fit_filter_in a0 a1 flat _ (list_max_in 0 f Hne)) as [_ Hmax].
  destruct (interval_range_facts _ _ n Hn Hlt) as (Hc & Hlen & Hlo & Hhi).
  destruct (finish_bins_facts outl (interval_range (list_min 0 f) (list_max 0 f) n) a0 a1 Hc) as (b' & H1 & H2 & H3 & H4 & H5).
  - now rewrite (eeqb_elt_r _ _ a0 Hlo).
  - now rewrite (eeqb_elt_l _ _ a1 Hhi).
  - exists b'. repeat split; auto. now rewrite H5, Hlen.
Qed.

(* ------------------------------------------------------------------ fit: quantile (find_bin_boundaries) *)
Lemma incr_snoc : forall l a v, incr (l ++ [a]) -> (a < v)%Q -> incr ((l ++ [a]) ++ [v]).
Proof.
  induction l as [|x l IH]; intros a v Hi Hav.
  - cbn. split; [exact Hav|exact I].
  - destruct l as [|y l'].
    + cbn in *. destruct Hi as [Hxa _]. repeat split; auto.
    + change (incr (x :: ((y :: l') ++ [a]) ++ [v])).
      change (incr (x :: (y :: l') ++ [a])) in Hi.
      cbn [app] in Hi |- *. destruct Hi as [Hxy Hi]. split; [exact Hxy|].
      apply (IH a v); auto.
Qed.

Lemma find_breaks_loop_incr : forall thr rest k lastv acc',
  incr (rev acc' ++ [lastv]) -> incr (find_breaks_loop thr rest k lastv (lastv :: acc')).
Proof.
  induction rest as [|[v cs] t IH]; intros k lastv acc' Hi.
  - cbn [find_breaks_loop rev]. exact Hi.
  - cbn [find_breaks_loop]. destruct (Qle_bool (thr k) cs && qltb lastv v) eqn:E.
    + apply andb_true_iff in E. destruct E as [_ E]. apply qltb_iff in E.
      apply IH. cbn [rev]. apply incr_snoc; auto.
    + apply IH. exact Hi.
Qed.

Lemma find_breaks_loop_shape : forall thr rest k lastv acc,
  exists e, find_breaks_loop thr rest k lastv acc = rev acc ++ e /\ (forall x, In x e -> In x (map fst rest)).
Proof.
  induction rest as [|[v cs] t IH]; intros k lastv acc.
  - exists []. cbn. split; [now rewrite app_nil_r|intros x []].
  - cbn [find_breaks_loop]. destruct (Qle_bool (thr k) cs && qltb lastv v).
    + destruct (IH (S k) v (v :: acc)) as (e & He & Hin). exists (v :: e). split.
      * rewrite He. cbn [rev]. now rewrite <- app_assoc.
      * intros x [<-|Hx]; [now left|right; now apply Hin].
    + destruct (IH k lastv acc) as (e & He & Hin). exists e. split; [exact He|].
      intros x Hx. right. now apply Hin.
Qed.

Lemma find_breaks_incr : forall thr flat csum, incr (find_breaks thr flat csum).
Proof.
  intros thr [|v0 ft] [|c0 ct]; try exact I.
  unfold find_breaks. apply find_breaks_loop_incr. exact I.
Qed.

Lemma in_map_fst_combine : forall (A B : Type) (l : list A) (l' : list B) x,
  In x (map fst (combine l l')) -> In x l.
Proof.
  induction l as [|a l IH]; intros [|b l'] x H; cbn in *; try contradiction.
  destruct H as [<-|H]; [now left|right; eauto].
Qed.

Lemma find_breaks_in : forall thr flat csum x, In x (find_breaks thr flat csum) -> In x flat.
Proof.
  intros thr [|v0 ft] [|c0 ct] x H; try contradiction.
  unfold find_breaks in H.
  destruct (find_breaks_loop_shape thr (combine ft ct) 1 v0 [v0]) as (e & He & Hin).
  rewrite He in H. cbn in H. destruct H as [<-|H]; [now left|].
  right. eapply in_map_fst_combine. apply Hin. exact H.
Qed.

Lemma find_breaks_head : forall thr v0 ft c0 ct,
  exists e, find_breaks thr (v0 :: ft) (c0 :: ct) = v0 :: e.
Proof.
  intros. unfold find_breaks.
  destruct (find_breaks_loop_shape thr (combine ft ct) 1 v0 [v0]) as (e & He & _).
  exists e. now rewrite He.
Qed.

Lemma incr_lt_all : forall l a, incr (a :: l) -> Forall (fun b => (a < b)%Q) l.
Proof.
  induction l as [|b l IH]; intros a H; [constructor|].
  destruct H as [Hab Hi]. constructor; [exact Hab|].
  assert (Hi' : incr (a :: l)).
  { destruct l as [|c l']; [exact I|]. destruct Hi as [Hbc Hi]. split; [eapply Qlt_trans; eauto|exact Hi]. }
  apply IH. exact Hi'.
Qed.

Lemma incr_strongly_sorted : forall l, incr l -> StronglySorted Qlt l.
Proof.
  induction l as [|a l IH]; intro H; [constructor|].
  constructor.
  - apply IH. destruct l as [|b l']; [exact I|]. now destruct H.
  - now apply incr_lt_all.
Qed.

Lemma strongly_sorted_incr : forall l, StronglySorted Qlt l -> incr l.
Proof.
  induction l as [|a l IH]; intro H; [exact I|].
  inversion H as [|a' l' Hs Hf]; subst. destruct l as [|b l']; [exact I|].
  split; [now inversion Hf|now apply IH].
Qed.

Lemma last_map : forall (A B : Type) (f : A -> B) l d, l <> [] -> last (map f l) (f d) = f (last l d).
Proof.
  induction l as [|a l IH]; intros d Hne; [congruence|].
  destruct l as [|b l']; [reflexivity|].
  change (last (map f (a :: b :: l')) (f d)) with (last (map f (b :: l')) (f d)).
  change (last (a :: b :: l') d) with (last (b :: l') d). apply IH. discriminate.
Qed.

Lemma last_default : forall (A : Type) (l : list A) d d', l <> [] -> last l d = last l d'.
Proof.
  induction l as [|a l IH]; intros d d' Hne; [congruence|].
  destruct l as [|b l']; [reflexivity|].
  change (last (a :: b :: l') d) with (last (b :: l') d).
  change (last (a :: b :: l') d') with (last (b :: l') d'). apply IH. discriminate.
Qed.

Lemma hist_fit_breaks_facts : forall breaks a0 a1 outl,
  incr breaks -> (2 <= length breaks)%nat ->
  elt a0 (Fin (hd 0 breaks)) = true -> elt (Fin (last breaks 0)) a1 = true ->
  exists bins, hist_fit_breaks breaks a0 a1 outl = Some bins /\ chainb bins = true /\
    lo_of bins = a0 /\ hi_of bins = a1 /\ length bins = (length breaks - 1 + (if outl then 2 else 0))%nat.
Proof.
  intros breaks a0 a1 outl Hi Hlen Hlo Hhi. unfold hist_fit_breaks.
  destruct breaks as [|a [|b l]]; cbn [length] in Hlen; try lia.
  destruct (finish_bins_facts outl (from_breaks (map Fin (a :: b :: l))) a0 a1) as (b' & H1 & H2 & H3 & H4 & H5).
  - now apply chainb_from_breaks.
  - exact Hlo.
  - unfold hi_of. cbn [map]. rewrite last_right_from_breaks.
    change (Fin b :: map Fin l) with (map Fin (b :: l)).
    rewrite (last_default _ _ NInf (Fin 0)) by discriminate.
    rewrite last_map by discriminate. exact Hhi.
  - exists b'. repeat split; auto. rewrite H5, from_breaks_length, map_length. reflexivity.
Qed.

Lemma hist_fit_quantile_facts : forall thr flat sorted csum a0 a1 outl,
  (forall x, In x sorted -> In x (fit_filter a0 a1 flat)) ->
  (2 <= length (find_breaks thr sorted csum))%nat ->
  exists bins, hist_fit_breaks (find_breaks thr sorted csum) a0 a1 outl = Some bins /\ chainb bins = true /\
    lo_of bins = a0 /\ hi_of bins = a1 /\
    length bins = (length (find_breaks thr sorted csum) - 1 + (if outl then 2 else 0))%nat.
Proof.
  intros thr flat sorted csum a0 a1 outl Hsub Hlen.
  set (bs := find_breaks thr sorted csum) in *.
  assert (Hne : bs <> []) by (destruct bs; [cbn in Hlen; lia|discriminate]).
  assert (Hall : forall x, In x bs -> elt a0 (Fin x) = true /\ elt (Fin x) a1 = true).
  { intros x Hx. apply (fit_filter_in a0 a1 flat). apply Hsub. eapply find_breaks_in; eauto. }
  apply hist_fit_breaks_facts; auto.
  - apply find_breaks_incr.
  - apply Hall. destruct bs; [congruence|now left].
  - apply Hall. destruct (exists_last Hne) as (l' & a & E). rewrite E, last_last. apply in_or_app. right. now left.
Qed.

Lemma find_breaks_sorted : forall thr flat csum, StronglySorted Qlt (find_breaks thr flat csum).
Proof. intros. apply incr_strongly_sorted. apply find_breaks_incr. Qed.
