(* C14 for the multiset kernels (after the D31 repair): a target that is the nullified mask gets an all-zero kernel,
   whatever the window (its own multiset at distance 0 included), offset and normalisation. *)
From Coq Require Import List Arith Bool Lia QArith Qcanon.
From VZ Require Import Model.K02_Windows Model.K03_Cooc Model.K03_Exec.
Import ListNotations.
Open Scope nat_scope.

Lemma multi_raw_masked_target : forall (K : carrier) (kf : nat -> K) m off (window : list (list nat)) s,
  nth s (hd [] window) 0 = m -> Forall (fun x : K => x = zero) (multi_raw kf (Some m) off window s).
Proof.
  intros K kf m off window s H. unfold multi_raw. rewrite H, Nat.eqb_refl.
  apply Forall_forall. intros x Hx. apply in_map_iff in Hx. destruct Hx as [y [<- _]]. reflexivity.
Qed.

(* an unmasked target keeps the plain kernel: own slot zeroed, masked contexts zeroed by multi_fill *)
Lemma multi_raw_other_target : forall (K : carrier) (kf : nat -> K) m off (window : list (list nat)) s,
  nth s (hd [] window) 0 <> m ->
  multi_raw kf (Some m) off window s = upd (multi_fill kf (Some m) off 0 window) s zero.
Proof.
  intros K kf m off window s H. unfold multi_raw. apply Nat.eqb_neq in H. rewrite H. reflexivity.
Qed.

Lemma qc_zeros_sum : forall l : list Qc, Forall (fun x => x = 0%Qc) l -> @tsum QcK l = 0%Qc.
Proof.
  induction 1 as [|x l Hx _ IH]; [reflexivity|]. simpl. subst x. rewrite IH. apply Qcplus_0_l.
Qed.

Theorem multi_kernel_masked_target : forall (kf : nat -> QcK) m norm off (window : list (list nat)) s,
  nth s (hd [] window) 0 = m ->
  Forall (fun x : Qc => x = 0%Qc) (@multi_kernel QcK kf (Some m) norm off window s).
Proof.
  intros kf m norm off window s H. unfold multi_kernel.
  pose proof (multi_raw_masked_target QcK kf m off window s H) as Hz.
  destruct norm; [|exact Hz]. unfold l1_normalize. rewrite (qc_zeros_sum _ Hz).
  change (@gtb0 QcK 0%Qc) with false. exact Hz.
Qed.
