(* C01 — proofs about the row skeletons of Model/C01_NumericRows.v, over the partition lemmas of K19. *)
From Coq Require Import List Arith Bool Lia.
From VZ Require Import Model.K19_RowWise Proofs.K19_RowWise_proofs Model.C01_NumericRows.
Import ListNotations.

(* ---------- vstack / row assignment ---------- *)
Lemma vstack_some : forall (B : Type) (width : B -> nat) (parts : list B) w,
  parts <> [] -> (forall p, In p parts -> width p = w) -> vstack width parts = Some parts.
Proof.
  intros B width parts w Hne H. destruct parts as [|p t]; [congruence|]. unfold vstack.
  assert (E : forallb (fun q => Nat.eqb (width q) (width p)) (p :: t) = true).
  { apply forallb_forall. intros q Hq. apply Nat.eqb_eq. rewrite (H q Hq), (H p); [reflexivity|now left]. }
  now rewrite E.
Qed.

Lemma vstack_empty : forall (B : Type) (width : B -> nat), vstack width [] = None.
Proof. reflexivity. Qed.

Lemma assign_rows_some : forall (C : Type) w (rows : list (list C)),
  (forall r, In r rows -> length r = w) -> assign_rows w rows = Some rows.
Proof.
  intros C w rows H. unfold assign_rows.
  assert (E : forallb (fun r => Nat.eqb (length r) w) rows = true).
  { apply forallb_forall. intros r Hr. apply Nat.eqb_eq. now apply H. }
  now rewrite E.
Qed.

Lemma assign_rows_none : forall (C : Type) w (rows : list (list C)) r,
  In r rows -> length r <> w -> assign_rows w rows = None.
Proof.
  intros C w rows r Hr Hw. unfold assign_rows.
  destruct (forallb (fun r => Nat.eqb (length r) w) rows) eqn:E; [|reflexivity].
  rewrite forallb_forall in E. apply E in Hr. apply Nat.eqb_eq in Hr. contradiction.
Qed.

(* the three facts C01 asks of a list of rows: one per item, in input order, of the fitted width *)
Definition rows_ok {A C : Type} (row : A -> list C) (w : nat) (X : list A) (R : list (list C)) : Prop :=
  length R = length X /\ (forall i d, i < length X -> nth i R [] = row (nth i X d)) /\ Forall (fun r => length r = w) R.

Lemma map_rows_ok : forall (A C : Type) (row : A -> list C) w X,
  (forall x, length (row x) = w) -> rows_ok row w X (map row X).
Proof.
  intros A C row w X Hw. split; [apply map_length|]. split.
  - intros i d Hi. rewrite (nth_indep _ [] (row d)) by (now rewrite map_length). apply map_nth.
  - apply Forall_forall. intros r Hr. apply in_map_iff in Hr. destruct Hr as (x & <- & _). apply Hw.
Qed.

(* ---------- KDE ---------- *)
Lemma kde_loop_rows : forall (A C : Type) (row : A -> list C) n garbage X,
  length garbage = length X -> (forall x, length (row x) = n) -> kde_loop row n garbage X = Some (map row X).
Proof.
  intros A C row n garbage X Hg Hw. unfold kde_loop. rewrite fill_loop_map by exact Hg.
  apply assign_rows_some. intros r Hr. apply in_map_iff in Hr. destruct Hr as (x & <- & _). apply Hw.
Qed.

Lemma kde_loop_width_mismatch : forall (A C : Type) (row : A -> list C) n garbage X x,
  length garbage = length X -> In x X -> length (row x) <> n -> kde_loop row n garbage X = None.
Proof.
  intros A C row n garbage X x Hg Hx Hw. unfold kde_loop. rewrite fill_loop_map by exact Hg.
  apply assign_rows_none with (r := row x); [now apply in_map|exact Hw].
Qed.

(* ---------- Distribution ---------- *)
Section Distribution.
  Variables (T P Comp : Type).
  Variables (add div : T -> T -> T) (abs : T -> T) (zero one : T) (eqz : T -> bool).
  Variable lik : Comp -> P -> T.
  Notation vd := (vectorize_diagram T P Comp add div abs zero one eqz lik).

  Lemma vectorize_diagram_length : forall comps diagram, length (vd comps diagram) = length comps.
  Proof. intros. unfold vectorize_diagram. apply map_length. Qed.

  Lemma distribution_transform_rows : forall comps X, X <> [] ->
    distribution_transform T P Comp add div abs zero one eqz lik comps X = Some (map (vd comps) X).
  Proof.
    intros comps X Hne. unfold distribution_transform. rewrite append_loop_map.
    apply vstack_some with (w := length comps).
    - destruct X; [congruence|discriminate].
    - intros r Hr. apply in_map_iff in Hr. destruct Hr as (x & <- & _). apply vectorize_diagram_length.
  Qed.

  Lemma distribution_transform_empty : forall comps,
    distribution_transform T P Comp add div abs zero one eqz lik comps [] = None.
  Proof. reflexivity. Qed.
End Distribution.

(* ---------- Wasserstein family ---------- *)
Lemma Forall2_concat : forall (A B : Type) (R : A -> B -> Prop) Ls Ms,
  Forall2 (Forall2 R) Ls Ms -> Forall2 R (concat Ls) (concat Ms).
Proof. intros A B R Ls Ms H. induction H; cbn; [constructor|]. now apply Forall2_app. Qed.

Lemma Forall2_map_same : forall (I A B : Type) (R : A -> B -> Prop) (f : I -> A) (g : I -> B) idx,
  (forall i, In i idx -> R (f i) (g i)) -> Forall2 R (map f idx) (map g idx).
Proof.
  intros I A B R f g idx. induction idx as [|i idx IH]; intro H; cbn; constructor.
  - apply H. now left.
  - apply IH. intros; apply H; now right.
Qed.

Lemma Forall2_map_r : forall (A B C : Type) (R : A -> B -> Prop) (h : B -> C) l m,
  Forall2 R l m -> Forall2 (fun a c => exists b, R a b /\ c = h b) l (map h m).
Proof. intros A B C R h l m H. induction H; cbn; constructor; eauto. Qed.

Lemma Forall2_length' : forall (A B : Type) (R : A -> B -> Prop) l m, Forall2 R l m -> length l = length m.
Proof. intros A B R l m H. induction H; cbn; congruence. Qed.

Lemma Forall2_nth' : forall (A B : Type) (R : A -> B -> Prop) l m, Forall2 R l m ->
  forall i da db, i < length l -> R (nth i l da) (nth i m db).
Proof.
  intros A B R l m H. induction H; intros i da db Hi; [cbn in Hi; lia|].
  destruct i as [|i]; [exact H|]. cbn. apply IHForall2. cbn in Hi. lia.
Qed.

Lemma Forall2_of_length : forall (A B : Type) (l : list A) (m : list B), length l = length m -> Forall2 (fun _ _ => True) l m.
Proof.
  intros A B l. induction l as [|a l IH]; intros [|b m] H; cbn in H; try discriminate; constructor; auto.
Qed.

Section LOT.
  Variables (T A : Type).
  Variable dot : list T -> list T -> T.
  Variable lotrow : A -> list T.
  Variables (d : A) (zero_row : list T).
  Notation project := (project T dot).

  Lemma project_length : forall comps r, length (project comps r) = length comps.
  Proof. intros. unfold C01_NumericRows.project. apply map_length. Qed.

  Lemma lot_block_map : forall c Y, 0 < c -> lot_block T A lotrow d zero_row c Y = map lotrow Y.
  Proof. intros c Y Hc. unfold lot_block. now apply kernel_chunk_fill_map. Qed.

  (* LOT_exact ('spmatrix', 'lil'): every block size and chunk size >= 1 *)
  Lemma wasserstein_transform_rows : forall comps b c X, 0 < b -> 0 < c ->
    wasserstein_transform T A dot lotrow d zero_row comps b c X = Some (map (fun x => project comps (lotrow x)) X).
  Proof.
    intros comps b c X Hb Hc. unfold wasserstein_transform.
    rewrite (vstack_some _ _ _ (length comps)).
    - cbn [option_map]. f_equal.
      rewrite <- (blockwise_map A (list T) (fun Y => map (project comps) (lot_block T A lotrow d zero_row c Y))
                                (fun x => project comps (lotrow x)) b X Hb).
      + reflexivity.
      + intro Y. rewrite lot_block_map by exact Hc. apply map_map.
    - unfold blocks. rewrite Nat.add_1_r. cbn [seq map]. discriminate.
    - intros blk Hblk. apply in_map_iff in Hblk. destruct Hblk as (p & <- & _).
      unfold block_width. destruct (map (project comps) (lot_block T A lotrow d zero_row c (rows_of X p))) as [|r t] eqn:E;
        [reflexivity|].
      assert (Hr : In r (map (project comps) (lot_block T A lotrow d zero_row c (rows_of X p)))) by (rewrite E; now left).
      apply in_map_iff in Hr. destruct Hr as (y & <- & _). apply project_length.
  Qed.

  (* Sinkhorn: the batch kernel of one chunk is not row-wise; whatever relation R it guarantees between each item
     and its own output row survives the chunk / block assembly, in input order *)
  Variable batch : list A -> list (list T).

  Lemma sinkhorn_transform_eq : forall comps b c X,
    sinkhorn_transform T A dot batch comps b c X = map (project comps) (block_chunkwise batch b c X).
  Proof.
    intros comps b c X. unfold sinkhorn_transform, sinkhorn_block, block_chunkwise.
    rewrite concat_map, map_map. reflexivity.
  Qed.

  Lemma block_chunkwise_Forall2 : forall (R : A -> list T -> Prop) b c X, 0 < b -> 0 < c ->
    (forall Y, Forall2 R Y (batch Y)) -> Forall2 R X (block_chunkwise batch b c X).
  Proof.
    intros R b c X Hb Hc HR.
    pattern X at 1. rewrite <- (block_chunk_partition A X b c Hb Hc). unfold block_chunkwise.
    apply Forall2_concat. apply Forall2_map_same. intros blk _.
    apply Forall2_concat. apply Forall2_map_same. intros ch _. apply HR.
  Qed.

  Lemma sinkhorn_transform_rows : forall (R : A -> list T -> Prop) comps b c X, 0 < b -> 0 < c ->
    (forall Y, Forall2 R Y (batch Y)) ->
    Forall2 (fun x r => exists r0, R x r0 /\ r = project comps r0) X (sinkhorn_transform T A dot batch comps b c X).
  Proof.
    intros R comps b c X Hb Hc HR. rewrite sinkhorn_transform_eq.
    apply Forall2_map_r. now apply block_chunkwise_Forall2.
  Qed.

  Lemma sinkhorn_transform_shape : forall comps b c X, 0 < b -> 0 < c ->
    (forall Y, length (batch Y) = length Y) ->
    length (sinkhorn_transform T A dot batch comps b c X) = length X /\
    Forall (fun r => length r = length comps) (sinkhorn_transform T A dot batch comps b c X).
  Proof.
    intros comps b c X Hb Hc HL. rewrite sinkhorn_transform_eq. split.
    - rewrite map_length. symmetry. apply (Forall2_length' _ _ (fun _ _ => True)).
      apply block_chunkwise_Forall2; [exact Hb|exact Hc|]. intro Y. apply Forall2_of_length. symmetry. apply HL.
    - apply Forall_forall. intros r Hr. apply in_map_iff in Hr. destruct Hr as (r0 & <- & _). apply project_length.
  Qed.

  Lemma sinkhorn_transform_rowwise : forall (row : A -> list T) comps b c X, 0 < b -> 0 < c ->
    (forall Y, batch Y = map row Y) ->
    sinkhorn_transform T A dot batch comps b c X = map (fun x => project comps (row x)) X.
  Proof.
    intros row comps b c X Hb Hc H. rewrite sinkhorn_transform_eq, (block_chunkwise_map A (list T) batch row b c X Hb Hc H).
    apply map_map.
  Qed.
End LOT.

(* the batch kernel built from the batched Sinkhorn iteration of K19: each output row is an iterate of its own item *)
Section SinkhornBatch.
  Variables (T Item St : Type).
  Variable init : Item -> St.
  Variable step : Item -> St -> St.
  Variable nonfinite : Item -> St -> bool.
  Variable converged : list (Item * St) -> bool.
  Variable max_iter : nat.
  Variable readout : Item -> St -> list T.

  Definition sink_batch (Y : list Item) : list (list T) :=
    map (fun p => readout (fst p) (snd p)) (combine Y (sinkhorn_batch Item St init step nonfinite converged max_iter Y)).

  Lemma sink_batch_own_iterate : forall Y,
    Forall2 (fun x r => exists n, r = readout x (iter n (step x) (init x))) Y (sink_batch Y).
  Proof.
    intro Y. unfold sink_batch. rewrite sinkhorn_batch_spec.
    set (n := stop_index Item St init step nonfinite converged max_iter Y). clearbody n.
    induction Y as [|x Y IH]; cbn; constructor; [now exists n|exact IH].
  Qed.
End SinkhornBatch.

Lemma Forall2_impl' : forall (A B : Type) (R R' : A -> B -> Prop) l m,
  (forall a b, R a b -> R' a b) -> Forall2 R l m -> Forall2 R' l m.
Proof. intros A B R R' l m H F. induction F; constructor; auto. Qed.

Lemma sinkhorn_batch_transform_rows : forall (T Item St : Type) dot init step nonfinite converged max_iter
    (readout : Item -> St -> list T) comps b c X,
  0 < b -> 0 < c ->
  Forall2 (fun x r => exists n, r = project T dot comps (readout x (iter n (step x) (init x)))) X
          (sinkhorn_transform T Item dot (sink_batch T Item St init step nonfinite converged max_iter readout) comps b c X).
Proof.
  intros T Item St dot init step nonfinite converged max_iter readout comps b c X Hb Hc.
  pose proof (sinkhorn_transform_rows T Item dot (sink_batch T Item St init step nonfinite converged max_iter readout)
                (fun x r => exists n, r = readout x (iter n (step x) (init x))) comps b c X Hb Hc
                (sink_batch_own_iterate T Item St init step nonfinite converged max_iter readout)) as H.
  eapply Forall2_impl'; [|exact H]. intros x r (r0 & (n & ->) & ->). now exists n.
Qed.

(* ---------- generator input ---------- *)
Lemma skipn_skipn' : forall (A : Type) (l : list A) n m, skipn m (skipn n l) = skipn (n + m) l.
Proof.
  induction l as [|a l IH]; intros n m.
  - now rewrite !skipn_nil.
  - destruct n as [|n]; [reflexivity|]. cbn [skipn plus]. apply IH.
Qed.

Lemma firstn_add' : forall (A : Type) (l : list A) n m, firstn (n + m) l = firstn n l ++ firstn m (skipn n l).
Proof.
  induction l as [|a l IH]; intros n m.
  - now rewrite !firstn_nil, skipn_nil, firstn_nil.
  - destruct n as [|n]; [reflexivity|]. cbn [firstn skipn plus app]. f_equal. apply IH.
Qed.

Section Generator.
  Variables (T A : Type).
  Variable dot : list T -> list T -> T.
  Variable lotrow : A -> list T.
  Variables (d : A) (zero_row : list T).
  Notation project := (project T dot).
  Notation lot_block := (lot_block T A lotrow d zero_row).
  Notation gen_chunk_loop := (gen_chunk_loop T A lotrow d zero_row).
  Notation gen_block_loop := (gen_block_loop T A dot lotrow d zero_row).

  (* the chunk loop of one block consumes exactly the block's items, in order *)
  Lemma gen_chunk_loop_spec : forall c, 0 < c -> forall fuel cs be stream acc,
    cs <= be -> be - cs <= fuel * c -> be - cs <= length stream ->
    exists pieces,
      gen_chunk_loop fuel cs be c stream acc = (acc ++ pieces, skipn (be - cs) stream) /\
      concat pieces = map lotrow (firstn (be - cs) stream) /\ (cs < be -> pieces <> []).
  Proof.
    intros c Hc. induction fuel as [|f IH]; intros cs be stream acc Hle Hfuel Hlen.
    - exists []. cbn in Hfuel. assert (be - cs = 0) as -> by lia. cbn. rewrite app_nil_r. repeat split; auto. lia.
    - cbn [C01_NumericRows.gen_chunk_loop]. unfold take.
      destruct (Nat.eq_dec be cs) as [->|Hne].
      + rewrite Nat.sub_diag, Nat.min_0_r. cbn [firstn skipn].
        destruct (IH cs cs stream acc (le_n _) ltac:(lia) ltac:(lia)) as (pieces & E & Hc1 & _).
        rewrite Nat.sub_diag in E, Hc1. exists pieces. repeat split; auto. lia.
      + set (next := Nat.min c (be - cs)). assert (Hn : 0 < next) by (unfold next; lia).
        assert (Hnl : next <= length stream) by (unfold next; lia).
        destruct (firstn next stream) as [|a ch] eqn:Ech.
        { exfalso. assert (L : length (firstn next stream) = next) by (apply firstn_length_le; lia).
          rewrite Ech in L. cbn in L. lia. }
        destruct (IH (cs + next) be (skipn next stream) (acc ++ [lot_block c (a :: ch)])) as (pieces & E & Hc1 & _).
        * unfold next; lia.
        * unfold next. destruct (Nat.min_spec c (be - cs)) as [[_ ->]|[_ ->]]; nia.
        * rewrite skipn_length. unfold next; lia.
        * exists (lot_block c (a :: ch) :: pieces). split; [|split].
          -- rewrite E, <- app_assoc. cbn [app]. f_equal. rewrite skipn_skipn'. f_equal. unfold next; lia.
          -- cbn [concat]. rewrite Hc1. unfold C01_NumericRows.lot_block. rewrite kernel_chunk_fill_map by exact Hc.
             rewrite <- Ech, <- map_app. f_equal.
             replace (be - cs) with (next + (be - (cs + next))) by (unfold next; lia).
             rewrite firstn_add'. reflexivity.
          -- intros _. discriminate.
  Qed.

  (* a list of consecutive blocks s = s_0 <= e_0 = s_1 <= e_1 = ... *)
  Fixpoint chain (s : nat) (blks : list (nat * nat)) : Prop :=
    match blks with
    | [] => True
    | (bs, be) :: rest => bs = s /\ bs <= be /\ chain be rest
    end.
  Definition chain_end (s : nat) (blks : list (nat * nat)) : nat := last (map snd blks) s.

  Lemma last_cons_default : forall (l : list nat) x u v, last (x :: l) u = last (x :: l) v.
  Proof.
    induction l as [|a l IH]; intros x u v; [reflexivity|].
    change (last (x :: a :: l) u) with (last (a :: l) u). change (last (x :: a :: l) v) with (last (a :: l) v). apply IH.
  Qed.

  Lemma chain_end_cons : forall s bs be rest, chain_end s ((bs, be) :: rest) = chain_end be rest.
  Proof.
    intros s bs be rest. unfold chain_end. cbn [map snd]. destruct (map snd rest) as [|y l]; [reflexivity|].
    change (last (be :: y :: l) s) with (last (y :: l) s). apply last_cons_default.
  Qed.

  Lemma chain_end_ge : forall blks s, chain s blks -> s <= chain_end s blks.
  Proof.
    induction blks as [|[bs be] rest IH]; intros s H; [unfold chain_end; cbn; lia|].
    destruct H as (-> & Hle & Hc). rewrite chain_end_cons. specialize (IH be Hc). lia.
  Qed.

  Lemma gen_block_loop_spec : forall comps c, 0 < c -> forall blks s stream acc,
    chain s blks -> chain_end s blks - s <= length stream ->
    exists outs,
      gen_block_loop comps c blks stream acc = Some (acc ++ outs) /\
      concat outs = map (fun x => project comps (lotrow x)) (firstn (chain_end s blks - s) stream) /\
      (s < chain_end s blks -> outs <> []).
  Proof.
    intros comps c Hc. induction blks as [|[bs be] rest IH]; intros s stream acc Hch Hlen.
    - exists []. unfold chain_end. cbn. rewrite Nat.sub_diag, app_nil_r. cbn. repeat split; auto. lia.
    - destruct Hch as (-> & Hle & Hch). rewrite chain_end_cons in *. pose proof (chain_end_ge rest be Hch) as Hge.
      cbn [C01_NumericRows.gen_block_loop].
      destruct (Nat.eqb s be) eqn:Eb.
      + apply Nat.eqb_eq in Eb. subst be. exact (IH s stream acc Hch Hlen).
      + apply Nat.eqb_neq in Eb.
        destruct (gen_chunk_loop_spec c Hc ((be - s) / c + 1) s be stream [] Hle) as (pieces & E & Hcat & Hne).
        * pose proof (Nat.div_mod (be - s) c ltac:(lia)). pose proof (Nat.mod_upper_bound (be - s) c ltac:(lia)). nia.
        * lia.
        * rewrite E. cbn [app]. destruct pieces as [|pc pieces]; [exfalso; apply Hne; [lia|reflexivity]|].
          remember (pc :: pieces) as pcs eqn:Epcs.
          destruct (IH be (skipn (be - s) stream) (acc ++ [map (project comps) (concat pcs)]) Hch) as (outs & E2 & Hcat2 & _).
          { rewrite skipn_length. lia. }
          exists (map (project comps) (concat pcs) :: outs). split; [|split].
          -- rewrite Epcs in *. rewrite E2, <- app_assoc. reflexivity.
          -- cbn [concat]. rewrite Hcat2, Hcat, map_map, <- map_app. f_equal.
             replace (chain_end be rest - s) with ((be - s) + (chain_end be rest - be)) by lia.
             rewrite firstn_add'. reflexivity.
          -- intros _. discriminate.
  Qed.

  Lemma blocks_chain_from : forall b n k i, 0 < b -> i + k = n / b + 1 -> 0 < k ->
    chain (i * b) (map (fun j => (j * b, Nat.min n (j * b + b))) (seq i k)) /\
    chain_end (i * b) (map (fun j => (j * b, Nat.min n (j * b + b))) (seq i k)) = n.
  Proof.
    intros b n k. revert n. induction k as [|k IH]; intros n i Hb Hik Hk; [lia|].
    pose proof (Nat.div_mod n b ltac:(lia)) as Hdm. pose proof (Nat.mod_upper_bound n b ltac:(lia)) as Hmod.
    rewrite <- cons_seq. cbn [map]. cbn [chain]. rewrite chain_end_cons.
    destruct k as [|k'].
    - (* last block: i = n / b *)
      assert (i = n / b) by lia. subst i. cbn [seq map chain]. unfold chain_end. cbn [map last].
      assert (Nat.min n (n / b * b + b) = n) by nia. split; [split; [reflexivity|split; [nia|exact I]]|exact H].
    - assert (Hi : i < n / b) by lia.
      assert (Em : Nat.min n (i * b + b) = S i * b) by nia.
      destruct (IH n (S i) Hb ltac:(lia) ltac:(lia)) as (C1 & C2).
      rewrite Em. split; [split; [reflexivity|split; [nia|exact C1]]|exact C2].
  Qed.

  Lemma blocks_chain : forall b n, 0 < b -> chain 0 (blocks b n) /\ chain_end 0 (blocks b n) = n.
  Proof.
    intros b n Hb. unfold blocks. destruct (blocks_chain_from b n (n / b + 1) 0 Hb ltac:(lia) ltac:(lia)) as (C1 & C2).
    cbn [Nat.mul] in C1, C2. split; assumption.
  Qed.

  (* generator input delivering exactly generator_n_distributions = n_rows >= 1 items *)
  Lemma generator_transform_rows : forall comps b c stream, 0 < b -> 0 < c -> stream <> [] ->
    generator_transform T A dot lotrow d zero_row comps b c (length stream) stream
    = Some (map (fun x => project comps (lotrow x)) stream).
  Proof.
    intros comps b c stream Hb Hc Hne. unfold generator_transform.
    destruct (blocks_chain b (length stream) Hb) as (C1 & C2).
    destruct (gen_block_loop_spec comps c Hc (blocks b (length stream)) 0 stream [] C1 ltac:(lia)) as (outs & E & Hcat & Hnn).
    rewrite E. cbn [app]. rewrite C2, Nat.sub_0_r, firstn_all in Hcat.
    assert (outs <> []) by (apply Hnn; rewrite C2; destruct stream; [congruence|cbn; lia]).
    destruct outs as [|o outs]; [congruence|]. now rewrite Hcat.
  Qed.
End Generator.

(* ---------- ApproximateWasserstein / HeuristicLinearAlgebra ---------- *)
Section Approx.
  Variable T : Type.
  Variables (div : T -> T -> T) (sqrt : T -> T) (zero : T) (add : T -> T -> T).
  Variable dot : list T -> list T -> T.
  Variable pow : T -> T -> T.
  Notation arow := (approx_row T div sqrt zero add dot pow).

  Lemma approx_row_length : forall vc comps sv p r, length sv = length comps -> length (arow vc comps sv p r) = length comps.
  Proof. intros vc comps sv p r H. unfold approx_row. rewrite map_length, combine_length. lia. Qed.

  Lemma approx_transform_rows : forall vc comps sv p X, length sv = length comps ->
    rows_ok (arow vc comps sv p) (length comps) X (approx_transform T div sqrt zero add dot pow vc comps sv p X).
  Proof. intros vc comps sv p X H. unfold approx_transform. apply map_rows_ok. intro x. now apply approx_row_length. Qed.
End Approx.
