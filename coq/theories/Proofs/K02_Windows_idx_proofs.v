(* Proofs about Model/K02_Windows_idx.v: the checked-access window / kernel / radius-table models return Ok on every
   valid input and refine the list-level definitions of Model/K02_Windows.v. *)
From Coq Require Import ZArith List Bool Arith Lia.
From VZ Require Import Model.K02_Windows Model.K02_Windows_idx Proofs.K02_Windows_proofs.
Import ListNotations.
Open Scope Z_scope.

(* ---------- checked accesses ---------- *)

Lemma getZ_nth : forall A s (l : list A) i d, 0 <= i < zlen l -> getZ s l i = Ok (nth (Z.to_nat i) l d).
Proof.
  intros A s l i d [H0 H1]. unfold getZ, zlen in *.
  destruct (i <? 0) eqn:E; [apply Z.ltb_lt in E; lia|].
  rewrite (nth_error_nth' l d) by lia. reflexivity.
Qed.

Lemma getZ_ok_iff : forall A s (l : list A) i, (exists a, getZ s l i = Ok a) <-> 0 <= i < zlen l.
Proof.
  intros A s l i. unfold getZ, zlen. split.
  - intros [a H]. destruct (i <? 0) eqn:E; [discriminate|]. apply Z.ltb_ge in E.
    destruct (nth_error l (Z.to_nat i)) eqn:En; [|discriminate].
    assert (Hn : nth_error l (Z.to_nat i) <> None) by congruence. apply nth_error_Some in Hn. lia.
  - intros [H0 H1]. destruct (i <? 0) eqn:E; [apply Z.ltb_lt in E; lia|].
    destruct (nth_error l (Z.to_nat i)) eqn:En; [eexists; reflexivity|].
    apply nth_error_None in En. lia.
Qed.

Lemma upd_mid : forall A (p : list A) x r v, upd (p ++ x :: r) (length p) v = p ++ v :: r.
Proof. induction p; intros; simpl; [reflexivity|]. f_equal. apply IHp. Qed.

Lemma setZ_mid : forall A s (p : list A) x r i v, i = zlen p -> setZ s (p ++ x :: r) i v = Ok (p ++ v :: r).
Proof.
  intros A s p x r i v ->. unfold setZ, zlen.
  assert (H : ((0 <=? Z.of_nat (length p)) && (Z.of_nat (length p) <? Z.of_nat (length (p ++ x :: r)))) = true).
  { apply andb_true_intro. split; [apply Z.leb_le | apply Z.ltb_lt]; rewrite ?app_length; simpl; lia. }
  rewrite H, Nat2Z.id, upd_mid. reflexivity.
Qed.

Lemma upd_length : forall A (l : list A) i v, length (upd l i v) = length l.
Proof. induction l; intros; destruct i; simpl; auto. Qed.

Lemma setZ_ok_iff : forall A s (l : list A) i v, (exists r, setZ s l i v = Ok r) <-> 0 <= i < zlen l.
Proof.
  intros. unfold setZ. split.
  - intros [r H]. destruct ((0 <=? i) && (i <? zlen l)) eqn:E; [|discriminate].
    apply andb_prop in E. destruct E as [E1 E2]. apply Z.leb_le in E1. apply Z.ltb_lt in E2. lia.
  - intros [H0 H1]. assert (E : ((0 <=? i) && (i <? zlen l)) = true).
    { apply andb_true_intro. split; [apply Z.leb_le | apply Z.ltb_lt]; lia. }
    rewrite E. eexists. reflexivity.
Qed.

(* ---------- views ---------- *)

Definition view_ok {A} (base : list A) (v : view) : Prop :=
  0 <= v_len v /\ forall j, 0 <= j < v_len v -> 0 <= v_start v + j * v_step v < zlen base.

Lemma vget_ok : forall A s (base : list A) v j d, view_ok base v -> 0 <= j < v_len v ->
  vget s base v j = Ok (nth (Z.to_nat (v_start v + j * v_step v)) base d).
Proof.
  intros A s base v j d [_ Hv] Hj. unfold vget.
  assert (E : ((0 <=? j) && (j <? v_len v)) = true).
  { apply andb_true_intro. split; [apply Z.leb_le | apply Z.ltb_lt]; lia. }
  rewrite E. apply getZ_nth. apply Hv. exact Hj.
Qed.

(* the elements of a view, in iteration order *)
Definition view_elems {A} (d : A) (base : list A) (v : view) : list A :=
  map (fun k => nth (Z.to_nat (v_start v + Z.of_nat k * v_step v)) base d) (seq 0 (Z.to_nat (v_len v))).

Lemma read_view_ok : forall A s (base : list A) v d, view_ok base v ->
  forall steps j0, (j0 + steps <= Z.to_nat (v_len v))%nat ->
  read_view s base v steps (Z.of_nat j0)
  = Ok (map (fun k => nth (Z.to_nat (v_start v + Z.of_nat k * v_step v)) base d) (seq j0 steps)).
Proof.
  intros A s base v d Hv. induction steps; intros j0 Hj; [reflexivity|].
  cbn [read_view seq map]. rewrite (vget_ok _ _ _ _ _ d) by (try assumption; lia). cbn [bind].
  replace (Z.of_nat j0 + 1) with (Z.of_nat (S j0)) by lia. rewrite IHsteps by lia. reflexivity.
Qed.

Lemma read_all_ok : forall A s (base : list A) v d, view_ok base v -> read_all s base v = Ok (view_elems d base v).
Proof. intros. unfold read_all, view_elems. apply (read_view_ok _ _ _ _ d H _ 0%nat). lia. Qed.

Lemma view_elems_length : forall A (d : A) base v, length (view_elems d base v) = Z.to_nat (v_len v).
Proof. intros. unfold view_elems. rewrite map_length, seq_length. reflexivity. Qed.

Lemma vget_elems : forall A s (base : list A) v d j, view_ok base v -> (j < Z.to_nat (v_len v))%nat ->
  vget s base v (Z.of_nat j) = Ok (nth j (view_elems d base v) d).
Proof.
  intros A s base v d j Hv Hj. rewrite (vget_ok _ _ _ _ _ d) by (try assumption; lia). f_equal.
  unfold view_elems. rewrite (nth_map_lt _ _ _ _ 0%nat) by (rewrite seq_length; exact Hj).
  rewrite seq_nth by exact Hj. reflexivity.
Qed.

(* ---------- window_at_index ---------- *)

Lemma window_view_rev : forall n R p, (p < n)%nat ->
  window_view (Z.of_nat n) (Z.of_nat R) (Z.of_nat p) true
  = {| v_start := Z.of_nat p - 1; v_len := Z.of_nat (Nat.min R p); v_step := -1 |}.
Proof.
  intros n R p Hp. unfold window_view, py_slice, norm_bound.
  destruct (Z.max (Z.of_nat p - Z.of_nat R) 0 <? 0) eqn:E1; [apply Z.ltb_lt in E1; lia|].
  destruct (Z.of_nat p <? 0) eqn:E2; [apply Z.ltb_lt in E2; lia|].
  f_equal; lia.
Qed.

Lemma window_view_fwd : forall n R p, (p < n)%nat ->
  window_view (Z.of_nat n) (Z.of_nat R) (Z.of_nat p) false
  = {| v_start := Z.of_nat p + 1; v_len := Z.of_nat (Nat.min R (n - 1 - p)); v_step := 1 |}.
Proof.
  intros n R p Hp. unfold window_view, py_slice, norm_bound.
  destruct (Z.of_nat p + 1 <? 0) eqn:E1; [apply Z.ltb_lt in E1; lia|].
  destruct (Z.min (Z.of_nat p + Z.of_nat R + 1) (Z.of_nat n) <? 0) eqn:E2; [apply Z.ltb_lt in E2; lia|].
  f_equal; lia.
Qed.

Lemma window_view_ok : forall A (s : list A) R p reverse, (p < length s)%nat ->
  view_ok s (window_view (zlen s) (Z.of_nat R) (Z.of_nat p) reverse).
Proof.
  intros A s R p reverse Hp. unfold view_ok, zlen. destruct reverse.
  - rewrite window_view_rev by exact Hp. cbn [v_start v_len v_step]. split; [lia|]. intros j Hj. lia.
  - rewrite window_view_fwd by exact Hp. cbn [v_start v_len v_step]. split; [lia|]. intros j Hj. lia.
Qed.

Lemma window_view_elems : forall A (d : A) (s : list A) R p reverse, (p < length s)%nat ->
  view_elems d s (window_view (zlen s) (Z.of_nat R) (Z.of_nat p) reverse) = window_at_index s R p reverse.
Proof.
  intros A d s R p reverse Hp. rewrite (window_at_index_positions A d) by exact Hp.
  unfold view_elems, win_positions, zlen. destruct reverse.
  - rewrite window_view_rev by exact Hp. cbn [v_start v_len v_step]. rewrite Nat2Z.id.
    rewrite <- seq_shift, !map_map. apply map_ext_in. intros k Hk. apply in_seq in Hk. f_equal. lia.
  - rewrite window_view_fwd by exact Hp. cbn [v_start v_len v_step]. rewrite Nat2Z.id.
    rewrite <- seq_shift, !map_map. apply map_ext_in. intros k Hk. apply in_seq in Hk. f_equal. lia.
Qed.

Theorem window_at_index_idx_refines : forall (s : list nat) R p reverse, (p < length s)%nat ->
  window_at_index_idx s (Z.of_nat R) (Z.of_nat p) reverse = Ok (window_at_index s R p reverse).
Proof.
  intros s R p reverse Hp. unfold window_at_index_idx.
  rewrite (read_all_ok _ _ _ _ 0%nat) by (apply window_view_ok; exact Hp).
  rewrite window_view_elems by exact Hp. reflexivity.
Qed.

(* every index the window touches, as a pointwise fact: slot j of the window is base[p -/+ (j+1)] and lies inside *)
Theorem window_view_index : forall n R p reverse j, (p < n)%nat ->
  let v := window_view (Z.of_nat n) (Z.of_nat R) (Z.of_nat p) reverse in
  0 <= j < v_len v ->
  v_start v + j * v_step v = (if reverse then Z.of_nat p - (j + 1) else Z.of_nat p + (j + 1)) /\
  0 <= v_start v + j * v_step v < Z.of_nat n.
Proof.
  intros n R p reverse j Hp. destruct reverse; cbv zeta.
  - rewrite window_view_rev by exact Hp. simpl. lia.
  - rewrite window_view_fwd by exact Hp. simpl. lia.
Qed.

(* ---------- kernels ---------- *)
Section Kernel.
Context {K : carrier}.

Lemma mask_loop_ok : forall (base : list nat) v m win, view_ok base v -> win = view_elems 0%nat base v ->
  forall wrest wpre (pre rest : list K), win = wpre ++ wrest -> length pre = length wpre -> length rest = length wrest ->
  mask_loop base v m (length wrest) (zlen pre) (pre ++ rest) = Ok (pre ++ mask_out (Some m) wrest rest).
Proof.
  intros base v m win Hv Hwin. induction wrest as [|t wrest IH]; intros wpre pre rest Hsplit Hpre Hrest.
  - destruct rest; [|discriminate]. reflexivity.
  - destruct rest as [|x rest]; [discriminate|]. simpl in Hrest.
    cbn [mask_loop length]. unfold zlen at 1.
    assert (Hlen : (length wpre < Z.to_nat (v_len v))%nat).
    { rewrite <- (view_elems_length _ 0%nat base v), <- Hwin, Hsplit, app_length. simpl. lia. }
    rewrite (vget_elems _ _ _ _ 0%nat) by (try assumption; lia). cbn [bind].
    rewrite <- Hwin, Hsplit, Hpre, app_nth2, Nat.sub_diag by lia. cbn [nth].
    assert (Hnext : forall y, mask_loop base v m (length wrest) (zlen pre + 1) (pre ++ y :: rest)
                              = Ok ((pre ++ [y]) ++ mask_out (Some m) wrest rest)).
    { intros y. replace (zlen pre + 1) with (zlen (pre ++ [y])) by (unfold zlen; rewrite app_length; simpl; lia).
      replace (pre ++ y :: rest) with ((pre ++ [y]) ++ rest) by (rewrite <- app_assoc; reflexivity).
      apply (IH (wpre ++ [t])).
      - rewrite <- app_assoc. exact Hsplit.
      - rewrite !app_length. simpl. lia.
      - lia. }
    unfold mask_out. cbn [combine map fst snd].
    destruct (Nat.eqb t m).
    + rewrite (setZ_mid _ _ pre) by (unfold zlen; lia). cbn [bind]. rewrite Hnext, <- app_assoc. reflexivity.
    + cbn [bind]. rewrite Hnext, <- app_assoc. reflexivity.
Qed.

Lemma mask_idx_ok : forall (base : list nat) v mask (result : list K), view_ok base v ->
  length result = Z.to_nat (v_len v) ->
  mask_idx base v mask result = Ok (mask_out mask (view_elems 0%nat base v) result).
Proof.
  intros base v mask result Hv Hlen. destruct mask as [m|]; [|reflexivity]. unfold mask_idx.
  destruct Hv as [H0 Hv']. assert (E : (zlen result =? v_len v) = true) by (apply Z.eqb_eq; unfold zlen; lia).
  rewrite E. rewrite <- (view_elems_length _ 0%nat base v).
  apply (mask_loop_ok base v m _ (conj H0 Hv') eq_refl (view_elems 0%nat base v) [] [] result).
  - reflexivity.
  - reflexivity.
  - rewrite view_elems_length. exact Hlen.
Qed.

Lemma fill_loop_ok : forall steps (pre rest : list K), (steps <= length rest)%nat ->
  fill_loop steps (zlen pre) (pre ++ rest) = Ok (pre ++ repeat zero steps ++ skipn steps rest).
Proof.
  induction steps; intros pre rest H; [reflexivity|].
  destruct rest as [|x rest]; [simpl in H; lia|]. simpl in H.
  cbn [fill_loop repeat skipn app]. rewrite (setZ_mid _ _ pre) by reflexivity. cbn [bind].
  replace (zlen pre + 1) with (zlen (pre ++ [zero])) by (unfold zlen; rewrite app_length; simpl; lia).
  replace (pre ++ zero :: rest) with ((pre ++ [zero]) ++ rest) by (rewrite <- app_assoc; reflexivity).
  rewrite IHsteps by lia. rewrite <- app_assoc. reflexivity.
Qed.

Lemma offset_idx_ok : forall off (result : list K),
  offset_idx (Z.of_nat off) result = Ok (offset_out off result).
Proof.
  intros off result. unfold offset_idx, py_slice, norm_bound.
  replace (0 <? 0) with false by reflexivity.
  destruct (Z.min (Z.of_nat off) (zlen result) <? 0) eqn:E; [apply Z.ltb_lt in E; unfold zlen in E; lia|].
  replace (Z.min 0 (zlen result)) with (zlen (@nil K)) by (unfold zlen; simpl; lia).
  replace (Z.to_nat (Z.max (Z.min (Z.min (Z.of_nat off) (zlen result)) (zlen result) - zlen (@nil K)) 0))
    with (Nat.min off (length result)) by (unfold zlen; simpl; lia).
  rewrite (fill_loop_ok _ [] result) by lia. reflexivity.
Qed.

Theorem kernel_idx_refines : forall (kf : nat -> K) mask normalize off (base : list nat) v, view_ok base v ->
  kernel_idx kf mask normalize (Z.of_nat off) base v
  = Ok (kernel kf mask normalize off (view_elems 0%nat base v)).
Proof.
  intros kf mask normalize off base v Hv. unfold kernel_idx, kernel, finish_kernel.
  rewrite mask_idx_ok by (try assumption; apply base_weights_length). cbn [bind].
  rewrite view_elems_length. rewrite offset_idx_ok. reflexivity.
Qed.

Theorem window_kernel_idx_refines : forall (kf : nat -> K) mask normalize off (s : list nat) R p reverse,
  (p < length s)%nat ->
  window_kernel_idx kf mask normalize (Z.of_nat off) s (Z.of_nat R) (Z.of_nat p) reverse
  = Ok (window_at_index s R p reverse, kernel kf mask normalize off (window_at_index s R p reverse)).
Proof.
  intros kf mask normalize off s R p reverse Hp. unfold window_kernel_idx.
  pose proof (window_view_ok _ s R p reverse Hp) as Hv.
  rewrite (read_all_ok _ _ _ _ 0%nat) by exact Hv. cbn [bind].
  rewrite kernel_idx_refines by exact Hv. cbn [bind].
  rewrite window_view_elems by exact Hp. reflexivity.
Qed.

(* a kernel applied to a window held as an array of its own *)
Lemma whole_ok : forall A (l : list A), view_ok l (whole l).
Proof. intros. split; simpl; unfold zlen; lia. Qed.

Lemma whole_elems : forall A (d : A) (l : list A), view_elems d l (whole l) = l.
Proof.
  intros. unfold view_elems, whole, zlen. cbn [v_start v_len v_step]. rewrite Nat2Z.id.
  rewrite (list_map_nth_seq A d l) at 2. apply map_ext. intros k. f_equal. lia.
Qed.

Theorem kernel_idx_whole : forall (kf : nat -> K) mask normalize off (win : list nat),
  kernel_idx kf mask normalize (Z.of_nat off) win (whole win) = Ok (kernel kf mask normalize off win).
Proof. intros. rewrite kernel_idx_refines by apply whole_ok. rewrite whole_elems. reflexivity. Qed.

End Kernel.

(* ---------- radius tables ---------- *)

Lemma upd_nth : forall A (l : list A) i v d j, (i < length l)%nat ->
  nth j (upd l i v) d = if Nat.eqb j i then v else nth j l d.
Proof.
  induction l; intros i v d j H; simpl in H; [lia|].
  destruct i, j; simpl; try reflexivity. apply IHl. lia.
Qed.

(* the table has len(token_frequency) + 1 entries; the mask write is in range exactly when mask_index <= len(freq) *)
Theorem fixed_radii_idx_ok_iff : forall R n_freq m,
  (exists t, fixed_window_radii_idx R n_freq (Some m) = Ok t) <-> 0 <= m <= Z.of_nat n_freq.
Proof.
  intros. unfold fixed_window_radii_idx. rewrite setZ_ok_iff. unfold zlen. rewrite repeat_length. lia.
Qed.

Theorem fixed_radii_idx_refines : forall R n_freq (mask : option nat),
  match mask with Some m => (m <= n_freq)%nat | None => True end ->
  fixed_window_radii_idx R n_freq (option_map Z.of_nat mask) = Ok (fixed_window_radii R n_freq mask).
Proof.
  intros R n_freq [m|] H; [|reflexivity]. unfold fixed_window_radii_idx, fixed_window_radii, setZ. cbn [option_map].
  assert (E : ((0 <=? Z.of_nat m) && (Z.of_nat m <? zlen (repeat R (n_freq + 1)))) = true).
  { apply andb_true_intro. split; [apply Z.leb_le | apply Z.ltb_lt]; unfold zlen; rewrite ?repeat_length; lia. }
  rewrite E, Nat2Z.id. reflexivity.
Qed.

Lemma fixed_radii_length : forall R n_freq mask, length (fixed_window_radii R n_freq mask) = (n_freq + 1)%nat.
Proof. intros. unfold fixed_window_radii. destruct mask; rewrite ?upd_length, repeat_length; reflexivity. Qed.

Theorem variable_radii_idx_length : forall vals mask t, variable_window_radii_idx vals mask = Ok t ->
  length t = (length vals + 1)%nat.
Proof.
  intros vals mask t. unfold variable_window_radii_idx. destruct (list_min vals); [|discriminate].
  destruct mask as [m|].
  - unfold setZ. destruct ((0 <=? m) && (m <? zlen (vals ++ [n]))); [|discriminate].
    intros H. inversion H. rewrite upd_length, app_length. reflexivity.
  - intros H. inversion H. rewrite app_length. reflexivity.
Qed.

Theorem variable_radii_idx_ok_iff : forall vals m,
  (exists t, variable_window_radii_idx vals (Some m) = Ok t) <-> vals <> [] /\ 0 <= m <= zlen vals.
Proof.
  intros vals m. unfold variable_window_radii_idx. destruct vals as [|x vals].
  - simpl. split; [intros [t H]; discriminate | intros [H _]; contradiction].
  - cbn [list_min]. rewrite setZ_ok_iff. unfold zlen. rewrite app_length. simpl. split.
    + intros H. split; [discriminate | lia].
    + intros [_ H]. lia.
Qed.

(* the 2-d look-up: safe exactly for 0 <= i < n_windows and 0 <= token id < row length *)
Theorem lookup2_ok_iff : forall (tbl : list (list nat)) i t,
  (exists r, lookup2 tbl i t = Ok r) <-> 0 <= i < zlen tbl /\ 0 <= t < zlen (nth (Z.to_nat i) tbl []).
Proof.
  intros tbl i t. unfold lookup2. split.
  - intros [r H]. destruct (getZ W_radii_row tbl i) as [row|] eqn:E; [|discriminate]. cbn [bind] in H.
    assert (Hi : 0 <= i < zlen tbl) by (apply (getZ_ok_iff _ W_radii_row); eexists; exact E).
    split; [exact Hi|]. rewrite (getZ_nth _ _ _ _ []) in E by exact Hi. inversion E; subst.
    apply (getZ_ok_iff _ W_radii_col). eexists. exact H.
  - intros [Hi Ht]. rewrite (getZ_nth _ _ _ _ []) by exact Hi. cbn [bind].
    apply (getZ_ok_iff _ W_radii_col). exact Ht.
Qed.

(* Every token id a driver can meet — an id of the vocabulary (< n_unique) or, with masking on, the mask id n_unique
   — is a valid column of a table built from a frequency table with one entry per vocabulary entry. *)
Theorem radii_lookup_safe : forall (Rs : list nat) n_unique (masking : bool) i t,
  let mask := if masking then Some n_unique else None in
  let tbl := map (fun R => fixed_window_radii R n_unique mask) Rs in
  (i < length Rs)%nat -> (t < n_unique \/ (masking = true /\ t = n_unique))%nat ->
  lookup2 tbl (Z.of_nat i) (Z.of_nat t)
  = Ok (if masking && Nat.eqb t n_unique then 0%nat else nth i Rs 0%nat).
Proof.
  intros Rs n_unique masking i t mask tbl Hi Ht. unfold lookup2, tbl.
  rewrite (getZ_nth _ _ _ _ []) by (unfold zlen; rewrite map_length; lia). cbn [bind].
  rewrite Nat2Z.id. rewrite (nth_map_lt _ _ _ _ 0%nat) by exact Hi.
  rewrite (getZ_nth _ _ _ _ 0%nat) by (unfold zlen; rewrite fixed_radii_length; lia).
  rewrite Nat2Z.id. f_equal. unfold fixed_window_radii, mask. destruct masking; cbn [andb].
  - rewrite upd_nth by (rewrite repeat_length; lia). destruct (Nat.eqb t n_unique); [reflexivity|].
    apply nth_repeat_lt. lia.
  - apply nth_repeat_lt. lia.
Qed.

(* ... and a frequency table that is shorter than the vocabulary is not enough: the last vocabulary id (no masking,
   two entries short) resp. the mask id (masking, one entry short) falls off the table *)
Theorem radii_lookup_short_table_oob : forall R n_freq,
  lookup2 [repeat R (n_freq + 1)] 0 (Z.of_nat (n_freq + 1)) = OOB W_radii_col.
Proof.
  intros R n_freq. unfold lookup2.
  rewrite (getZ_nth _ _ _ _ []) by (unfold zlen; simpl; lia). cbn [bind]. simpl (nth _ _ _).
  destruct (getZ W_radii_col (repeat R (n_freq + 1)) (Z.of_nat (n_freq + 1))) eqn:E.
  - assert (H : 0 <= Z.of_nat (n_freq + 1) < zlen (repeat R (n_freq + 1)))
      by (apply (getZ_ok_iff _ W_radii_col); eexists; exact E).
    unfold zlen in H. rewrite repeat_length in H. lia.
  - unfold getZ in E. destruct (Z.of_nat (n_freq + 1) <? 0); [congruence|].
    destruct (nth_error (repeat R (n_freq + 1)) (Z.to_nat (Z.of_nat (n_freq + 1)))); congruence.
Qed.
