(* K1, array level, part 1: checked access / slice lemmas and the refinement of the three array loops
   (sd_loop, take/drain/merge_loop) to list functions. *)
From Coq Require Import ZArith List Bool Lia Sorting.Sorted Permutation.
From VZ Require Import Model.K01_CooAcc Proofs.K01_CooAcc_list.
Import ListNotations.
Open Scope Z_scope.

(* ------------------------------------------------------------------ zlen, firstn, skipn *)
Lemma zlen_nonneg {A} (l : list A) : 0 <= zlen l.
Proof. unfold zlen; lia. Qed.
Lemma zlen_app {A} (a b : list A) : zlen (a ++ b) = zlen a + zlen b.
Proof. unfold zlen; rewrite app_length; lia. Qed.
Lemma zlen_cons {A} (x : A) l : zlen (x :: l) = 1 + zlen l.
Proof. unfold zlen; simpl length; lia. Qed.
Lemma zlen_nil {A} : zlen (@nil A) = 0.
Proof. reflexivity. Qed.
Lemma zlen_repeat {A} (x : A) n : zlen (repeat x n) = Z.of_nat n.
Proof. unfold zlen; rewrite repeat_length; reflexivity. Qed.
Lemma zlen_rev {A} (l : list A) : zlen (rev l) = zlen l.
Proof. unfold zlen; rewrite rev_length; reflexivity. Qed.
Lemma zlen_firstn {A} (l : list A) n : 0 <= n <= zlen l -> zlen (firstn (Z.to_nat n) l) = n.
Proof. unfold zlen; intros; rewrite firstn_length; lia. Qed.
Lemma zlen_skipn {A} (l : list A) n : 0 <= n <= zlen l -> zlen (skipn (Z.to_nat n) l) = zlen l - n.
Proof. unfold zlen; intros; rewrite skipn_length; lia. Qed.
Lemma zlen_0_nil {A} (l : list A) : zlen l = 0 -> l = [].
Proof. destruct l; [reflexivity|rewrite zlen_cons; pose proof (zlen_nonneg l); lia]. Qed.

Global Hint Rewrite @zlen_app @zlen_cons @zlen_nil @zlen_repeat @zlen_rev : zl.
Ltac zl := autorewrite with zl in *.

Lemma firstn_app_exact {A} (a b : list A) n : n = length a -> firstn n (a ++ b) = a.
Proof. intros ->. rewrite firstn_app, Nat.sub_diag, firstn_all. simpl. apply app_nil_r. Qed.
Lemma skipn_app_exact {A} (a b : list A) n : n = length a -> skipn n (a ++ b) = b.
Proof. intros ->. rewrite skipn_app, Nat.sub_diag, skipn_all. reflexivity. Qed.

Lemma firstnZ_app {A} (a b : list A) n : n = zlen a -> firstn (Z.to_nat n) (a ++ b) = a.
Proof. intros ->. apply firstn_app_exact. unfold zlen; lia. Qed.
Lemma skipnZ_app {A} (a b : list A) n : n = zlen a -> skipn (Z.to_nat n) (a ++ b) = b.
Proof. intros ->. apply skipn_app_exact. unfold zlen; lia. Qed.

(* ------------------------------------------------------------------ getZ / setZ *)
Lemma getZ_mid {A} s (P : list A) x S i : i = zlen P -> getZ s (P ++ x :: S) i = Ok x.
Proof.
  intros ->. unfold getZ. pose proof (zlen_nonneg P).
  destruct (zlen P <? 0) eqn:E; [apply Z.ltb_lt in E; lia|].
  unfold zlen. rewrite Nat2Z.id, nth_error_app2 by lia. rewrite Nat.sub_diag. reflexivity.
Qed.

Lemma upd_mid {A} (P : list A) x S v : upd (P ++ x :: S) (length P) v = P ++ v :: S.
Proof. induction P as [|p P IH]; simpl; [reflexivity|]. rewrite IH. reflexivity. Qed.

Lemma setZ_mid {A} s (P : list A) x S v i : i = zlen P -> setZ s (P ++ x :: S) i v = Ok (P ++ v :: S).
Proof.
  intros ->. unfold setZ. pose proof (zlen_nonneg P). pose proof (zlen_nonneg S).
  replace ((0 <=? zlen P) && (zlen P <? zlen (P ++ x :: S))) with true.
  - unfold zlen at 1. rewrite Nat2Z.id, upd_mid. reflexivity.
  - symmetry. apply andb_true_iff. split; [apply Z.leb_le; lia|apply Z.ltb_lt; zl; lia].
Qed.

Lemma split_at {A} (l : list A) i : 0 <= i < zlen l ->
  exists x, l = firstn (Z.to_nat i) l ++ x :: skipn (S (Z.to_nat i)) l.
Proof.
  intros H. unfold zlen in H.
  destruct (nth_error l (Z.to_nat i)) as [x|] eqn:E.
  - exists x. rewrite <- (firstn_skipn (Z.to_nat i) l) at 1. f_equal.
    clear H. revert l E. generalize (Z.to_nat i) as n. induction n as [|n IH]; intros l E; destruct l; simpl in *; try discriminate.
    + inversion E; reflexivity.
    + apply IH, E.
  - apply nth_error_None in E. lia.
Qed.

Lemma upd_length {A} (l : list A) n v : length (upd l n v) = length l.
Proof. revert n; induction l as [|x l IH]; intros [|n]; simpl; auto. Qed.

(* ------------------------------------------------------------------ nthZ: total read used in invariants *)
Definition nthZ (l : list Z) (j : Z) : Z := if j <? 0 then 0 else nth (Z.to_nat j) l 0.

Lemma getZ_nthZ s (l : list Z) j : 0 <= j < zlen l -> getZ s l j = Ok (nthZ l j).
Proof.
  intros H. unfold getZ, nthZ. destruct (j <? 0) eqn:E; [apply Z.ltb_lt in E; lia|].
  unfold zlen in H. destruct (nth_error l (Z.to_nat j)) eqn:E2.
  - f_equal. symmetry. apply nth_error_nth with (d := 0) in E2. exact E2.
  - apply nth_error_None in E2. lia.
Qed.

Lemma nthZ_app_l a b j : 0 <= j < zlen a -> nthZ (a ++ b) j = nthZ a j.
Proof.
  intros H. unfold nthZ. destruct (j <? 0); [reflexivity|]. apply app_nth1. unfold zlen in H; lia.
Qed.
Lemma nthZ_app_r a b j : zlen a <= j -> nthZ (a ++ b) j = nthZ b (j - zlen a).
Proof.
  intros H. pose proof (zlen_nonneg a). unfold nthZ.
  destruct (j <? 0) eqn:E; [apply Z.ltb_lt in E; lia|].
  destruct (j - zlen a <? 0) eqn:E2; [apply Z.ltb_lt in E2; lia|].
  rewrite app_nth2 by (unfold zlen in *; lia). f_equal. unfold zlen in *; lia.
Qed.
Lemma nth_repeat' {A} (v d : A) n m : (m < n)%nat -> nth m (repeat v n) d = v.
Proof. revert m; induction n as [|n IH]; intros [|m] H; simpl; try lia; auto. apply IH; lia. Qed.

Lemma nthZ_repeat v n j : 0 <= j < Z.of_nat n -> nthZ (repeat v n) j = v.
Proof.
  intros H. unfold nthZ. destruct (j <? 0) eqn:E; [apply Z.ltb_lt in E; lia|].
  apply nth_repeat'. lia.
Qed.
Lemma nthZ_beyond l j : zlen l <= j -> nthZ l j = 0.
Proof.
  intros H. unfold nthZ. destruct (j <? 0); [reflexivity|]. apply nth_overflow. unfold zlen in H; lia.
Qed.
Lemma nthZ_neg l j : j < 0 -> nthZ l j = 0.
Proof. intros H. unfold nthZ. apply Z.ltb_lt in H. rewrite H. reflexivity. Qed.

Lemma nthZ_upd l i v j : 0 <= i < zlen l ->
  nthZ (upd l (Z.to_nat i) v) j = if j =? i then v else nthZ l j.
Proof.
  intros H. destruct (split_at l i H) as [x Hx].
  assert (Hl : zlen (firstn (Z.to_nat i) l) = i) by (apply zlen_firstn; lia).
  remember (firstn (Z.to_nat i) l) as P. remember (skipn (S (Z.to_nat i)) l) as T. clear HeqP HeqT.
  subst l. replace (Z.to_nat i) with (length P) by (unfold zlen in Hl; lia). rewrite upd_mid.
  destruct (j =? i) eqn:E.
  - apply Z.eqb_eq in E; subst j. rewrite nthZ_app_r by lia. rewrite Hl, Z.sub_diag. reflexivity.
  - apply Z.eqb_neq in E.
    destruct (Z_lt_le_dec j i).
    + destruct (Z_lt_le_dec j 0); [rewrite !nthZ_neg by lia; reflexivity|].
      rewrite !nthZ_app_l by lia. reflexivity.
    + rewrite !nthZ_app_r by lia. rewrite Hl. unfold nthZ.
      destruct (j - i <? 0); [reflexivity|].
      replace (Z.to_nat (j - i)) with (S (Z.to_nat (j - i - 1))) by lia. reflexivity.
Qed.

Lemma setZ_ok s (l : list Z) i v : 0 <= i < zlen l -> setZ s l i v = Ok (upd l (Z.to_nat i) v).
Proof.
  intros H. unfold setZ. replace ((0 <=? i) && (i <? zlen l)) with true; [reflexivity|].
  symmetry. apply andb_true_iff. split; [apply Z.leb_le|apply Z.ltb_lt]; lia.
Qed.

Lemma zlen_upd {A} (l : list A) n v : zlen (upd l n v) = zlen l.
Proof. unfold zlen. rewrite upd_length. reflexivity. Qed.

Lemma zlen_fill_prefix {A} (l : list A) i v : zlen (fill_prefix l i v) = zlen l.
Proof.
  unfold fill_prefix, zlen. rewrite app_length, repeat_length, skipn_length. lia.
Qed.

Lemma nth_skipn' {A} (l : list A) n m d : nth m (skipn n l) d = nth (n + m) l d.
Proof. revert l; induction n as [|n IH]; intros l; simpl; [reflexivity|]. destruct l; [destruct m; reflexivity|apply IH]. Qed.

Lemma nthZ_fill_prefix l i v j : 0 <= i <= zlen l ->
  nthZ (fill_prefix l i v) j = if (0 <=? j) && (j <? i) then v else nthZ l j.
Proof.
  intros H. unfold fill_prefix.
  assert (Hm : Nat.min (Z.to_nat i) (length l) = Z.to_nat i) by (unfold zlen in H; lia).
  rewrite Hm.
  destruct (Z_lt_le_dec j 0).
  { rewrite !nthZ_neg by lia. replace (0 <=? j) with false by (symmetry; apply Z.leb_gt; lia). reflexivity. }
  replace (0 <=? j) with true by (symmetry; apply Z.leb_le; lia). simpl.
  destruct (j <? i) eqn:E.
  - apply Z.ltb_lt in E. rewrite nthZ_app_l by (zl; lia). apply nthZ_repeat. lia.
  - apply Z.ltb_ge in E. rewrite nthZ_app_r by (zl; lia). zl. rewrite Z2Nat.id by lia.
    unfold nthZ. destruct (j - i <? 0) eqn:E1; [apply Z.ltb_lt in E1; lia|].
    destruct (j <? 0) eqn:E2; [apply Z.ltb_lt in E2; lia|].
    rewrite nth_skipn'. f_equal. lia.
Qed.

(* ------------------------------------------------------------------ segments of an array *)
(* seg b p q A : the slice b[p:q] is exactly A (and lies inside b) *)
Definition seg {A} (b : list A) (p q : Z) (X : list A) : Prop :=
  0 <= p /\ zlen X = q - p /\ slice b p q = X.

Lemma seg_nil_eq {A} (b : list A) p q : seg b p q [] -> p = q.
Proof. intros (H0 & H1 & _). zl. lia. Qed.

Lemma skipn_nth_cons {A} (l : list A) n x t : skipn n l = x :: t -> nth_error l n = Some x /\ skipn (S n) l = t.
Proof.
  revert l; induction n as [|n IH]; intros l H; destruct l; simpl in *; try discriminate.
  - inversion H; auto.
  - apply IH, H.
Qed.

Lemma seg_cons {A} s (b : list A) p q x X : seg b p q (x :: X) -> getZ s b p = Ok x /\ seg b (p + 1) q X.
Proof.
  intros (H0 & H1 & H2). zl. pose proof (zlen_nonneg X).
  unfold slice in H2.
  destruct (skipn (Z.to_nat p) b) as [|y t] eqn:E.
  { rewrite firstn_nil in H2. discriminate. }
  replace (Z.to_nat (q - p)) with (S (Z.to_nat (q - p - 1))) in H2 by lia. simpl in H2.
  injection H2 as Hy HX. subst y. apply skipn_nth_cons in E. destruct E as [E1 E2].
  split.
  - unfold getZ. destruct (p <? 0) eqn:Ep; [apply Z.ltb_lt in Ep; lia|]. rewrite E1. reflexivity.
  - repeat split; [lia|lia|]. unfold slice.
    replace (Z.to_nat (p + 1)) with (S (Z.to_nat p)) by lia. rewrite E2.
    replace (q - (p + 1)) with (q - p - 1) by lia. exact HX.
Qed.

Lemma seg_length_nat {A} (b : list A) p q X : seg b p q X -> Z.to_nat (q - p) = length X.
Proof. intros (_ & H & _). unfold zlen in H. lia. Qed.

Lemma slice_length_le {A} (b : list A) lo up : 0 <= lo <= up -> up <= zlen b -> zlen (slice b lo up) = up - lo.
Proof.
  intros H1 H2. unfold slice, zlen in *. rewrite firstn_length, skipn_length. lia.
Qed.

Lemma seg_slice {A} (b : list A) lo up : 0 <= lo <= up -> up <= zlen b -> seg b lo up (slice b lo up).
Proof. intros H1 H2. repeat split; [lia|apply slice_length_le; lia]. Qed.

Lemma seg_split {A} (b : list A) lo mid up : 0 <= lo <= mid -> mid <= up -> up <= zlen b ->
  slice b lo up = slice b lo mid ++ slice b mid up.
Proof. intros. apply slice_split; lia. Qed.

(* the three-part decomposition used by every slice assignment *)
Lemma three_parts {A} (b : list A) lo up : 0 <= lo <= up -> up <= zlen b ->
  b = firstn (Z.to_nat lo) b ++ slice b lo up ++ skipn (Z.to_nat up) b.
Proof.
  intros H1 H2. unfold slice.
  rewrite <- (firstn_skipn (Z.to_nat lo) b) at 1. f_equal.
  rewrite <- (firstn_skipn (Z.to_nat (up - lo)) (skipn (Z.to_nat lo) b)) at 1. f_equal.
  rewrite <- skipn_add. f_equal. lia.
Qed.

Lemma assign_slice_ok {A} s (b : list A) lo up new : 0 <= lo <= up -> up <= zlen b -> zlen new = up - lo ->
  exists b', assign_slice s b lo up new = Ok b' /\
             b' = firstn (Z.to_nat lo) b ++ new ++ skipn (Z.to_nat up) b /\ zlen b' = zlen b.
Proof.
  intros H1 H2 H3. unfold assign_slice. rewrite slice_length_le by lia. rewrite H3, Z.eqb_refl.
  destruct (lo <? up) eqn:E.
  - eexists; split; [reflexivity|]. split; [reflexivity|].
    zl. rewrite zlen_firstn, zlen_skipn by lia. lia.
  - apply Z.ltb_ge in E. assert (lo = up) by lia. subst up.
    assert (new = []) by (apply zlen_0_nil; lia). subst new.
    exists b. split; [reflexivity|]. split; [|reflexivity]. simpl. symmetry. apply firstn_skipn.
Qed.

(* ------------------------------------------------------------------ run-length accumulation, left to right *)
(* the state of the summing loops: `this` = the run being accumulated; returns the finished runs and the last one *)
Fixpoint rl (this : entry) (R : list entry) : list entry * entry :=
  match R with
  | [] => ([], this)
  | e :: t => if e_key e =? e_key this then rl (add_val this (e_val e)) t
              else let '(d, th) := rl e t in (this :: d, th)
  end.

Definition rlc (l : list entry) : list entry :=
  match l with [] => [] | e :: t => let '(d, th) := rl e t in d ++ [th] end.

Lemma rl_sumby this R k :
  sumby (fst (rl this R)) k + sumby [snd (rl this R)] k = sumby (this :: R) k.
Proof.
  revert this; induction R as [|e t IH]; intros this; simpl; [lia|].
  destruct (e_key e =? e_key this) eqn:E.
  - rewrite IH. simpl. apply Z.eqb_eq in E. rewrite e_key_add_val, e_val_add_val, E.
    destruct (e_key this =? k); lia.
  - specialize (IH e). destruct (rl e t) as [d th]. simpl in *. lia.
Qed.

Lemma rlc_sumby l k : sumby (rlc l) k = sumby l k.
Proof.
  destruct l as [|e t]; [reflexivity|]. unfold rlc. pose proof (rl_sumby e t k) as H.
  destruct (rl e t) as [d th]. simpl in H. rewrite sumby_app. simpl. simpl in H. lia.
Qed.

Lemma rl_length this R : (length (fst (rl this R)) <= length R)%nat.
Proof.
  revert this; induction R as [|e t IH]; intros this; simpl; [lia|].
  destruct (e_key e =? e_key this).
  - specialize (IH (add_val this (e_val e))). lia.
  - specialize (IH e). destruct (rl e t); simpl in *. lia.
Qed.

Lemma rlc_length l : (length (rlc l) <= length l)%nat.
Proof.
  destruct l as [|e t]; [simpl; lia|]. unfold rlc. pose proof (rl_length e t).
  destruct (rl e t) as [d th]. rewrite app_length. simpl in *. lia.
Qed.

(* a property of (row, col, key) that all inputs have is inherited by all outputs *)
Definition rck (e : entry) : Z * Z * Z := (e_row e, e_col e, e_key e).
Lemma rck_add_val e v : rck (add_val e v) = rck e.
Proof. destruct e as [[[r c] v0] k]; reflexivity. Qed.

Lemma rl_forall (Q : Z * Z * Z -> Prop) this R :
  Q (rck this) -> Forall (fun e => Q (rck e)) R ->
  Forall (fun e => Q (rck e)) (fst (rl this R)) /\ Q (rck (snd (rl this R))).
Proof.
  revert this; induction R as [|e t IH]; intros this Hq HR; simpl; [split; [constructor|exact Hq]|].
  inversion HR as [|? ? He Ht]; subst.
  destruct (e_key e =? e_key this).
  - apply IH; [rewrite rck_add_val; exact Hq|exact Ht].
  - specialize (IH e He Ht). destruct (rl e t) as [d th]. simpl in *. destruct IH. split; [constructor; auto|auto].
Qed.

Lemma rlc_forall (Q : Z * Z * Z -> Prop) l :
  Forall (fun e => Q (rck e)) l -> Forall (fun e => Q (rck e)) (rlc l).
Proof.
  destruct l as [|e t]; intros H; [constructor|]. inversion H as [|? ? He Ht]; subst.
  unfold rlc. pose proof (rl_forall Q e t He Ht) as P. destruct (rl e t) as [d th]. simpl in P. destruct P.
  apply Forall_app. split; [assumption|constructor; [assumption|constructor]].
Qed.

(* strictly sorted output on weakly sorted input *)
Lemma rl_sorted this R :
  wsorted (this :: R) ->
  ssorted (fst (rl this R) ++ [snd (rl this R)]) /\
  e_key this <= e_key (hd (snd (rl this R)) (fst (rl this R))) /\ e_key (hd (snd (rl this R)) (fst (rl this R))) = e_key this.
Proof.
  unfold wsorted, ssorted.
  revert this; induction R as [|e t IH]; intros this H; simpl.
  - repeat split; [constructor; constructor|lia].
  - inversion H as [|? ? Hs Hall]; subst. simpl in Hall. inversion Hall as [|? ? Hle Hall']; subst.
    destruct (e_key e =? e_key this) eqn:E.
    + apply Z.eqb_eq in E.
      assert (Hw : StronglySorted Z.le (keys (add_val this (e_val e) :: t))).
      { simpl. rewrite e_key_add_val. constructor; [inversion Hs; assumption|exact Hall']. }
      specialize (IH _ Hw). rewrite e_key_add_val in IH. exact IH.
    + apply Z.eqb_neq in E. specialize (IH e Hs). destruct (rl e t) as [d th]. simpl in *.
      destruct IH as (IH1 & IH2 & IH3).
      repeat split; [|lia].
      constructor; [exact IH1|].
      (* every key of d ++ [th] is >= key of its head = key e > key this *)
      assert (Hhd : forall x, In x (keys (d ++ [th])) -> e_key e <= x).
      { intros x Hx. unfold keys in Hx.
        destruct d as [|d0 d']; simpl in *.
        - destruct Hx as [<-|[]]. lia.
        - destruct Hx as [<-|Hx]; [lia|].
          inversion IH1 as [|? ? _ F]; subst. rewrite Forall_forall in F. specialize (F x Hx). lia. }
      rewrite Forall_forall. intros x Hx. specialize (Hhd x Hx). lia.
Qed.

Lemma rlc_sorted l : wsorted l -> ssorted (rlc l).
Proof.
  destruct l as [|e t]; intros H; [constructor|]. unfold rlc.
  pose proof (rl_sorted e t H) as P. destruct (rl e t) as [d th]. simpl in P. apply P.
Qed.

(* ------------------------------------------------------------------ sd_loop: in-place run-length summation *)
Lemma app_assoc4 {A} (a b c d : list A) : a ++ b ++ c ++ d = (a ++ b) ++ c ++ d.
Proof. rewrite app_assoc. reflexivity. Qed.

Lemma sd_loop_gen R : forall D J this P S,
  J <> [] ->
  exists J',
    sd_loop (length R) (P ++ D ++ J ++ R ++ S) (zlen (P ++ D ++ J)) (zlen (P ++ D)) this
    = Ok (P ++ D ++ fst (rl this R) ++ J' ++ S, zlen (P ++ D) + zlen (fst (rl this R)), snd (rl this R))
    /\ zlen (fst (rl this R) ++ J') = zlen (J ++ R) /\ J' <> [].
Proof.
  induction R as [|e t IH]; intros D J this P S HJ.
  - exists J. simpl. rewrite Z.add_0_r, !app_nil_r. repeat split; auto.
  - simpl sd_loop.
    assert (G : getZ S_sd_read (P ++ D ++ J ++ e :: t ++ S) (zlen (P ++ D ++ J)) = Ok e).
    { replace (P ++ D ++ J ++ e :: t ++ S) with ((P ++ D ++ J) ++ e :: t ++ S)
        by (rewrite <- !app_assoc; reflexivity).
      apply getZ_mid. reflexivity. }
    rewrite G. simpl bind.
    destruct (e_key e =? e_key this) eqn:E.
    + destruct (IH D (J ++ [e]) (add_val this (e_val e)) P S) as (J' & H1 & H2 & H3).
      { destruct J; discriminate. }
      exists J'. simpl rl. rewrite E.
      replace (P ++ D ++ (J ++ [e]) ++ t ++ S) with (P ++ D ++ J ++ e :: t ++ S) in H1
        by (rewrite <- !app_assoc; reflexivity).
      replace (zlen (P ++ D ++ J ++ [e])) with (zlen (P ++ D ++ J) + 1) in H1 by (zl; lia).
      split; [exact H1|]. split; [|exact H3]. zl. lia.
    + destruct J as [|j0 J0]; [contradiction|].
      assert (W : setZ S_sd_write (P ++ D ++ (j0 :: J0) ++ e :: t ++ S) (zlen (P ++ D)) this
                  = Ok (P ++ D ++ (this :: J0) ++ e :: t ++ S)).
      { replace (P ++ D ++ (j0 :: J0) ++ e :: t ++ S) with ((P ++ D) ++ j0 :: J0 ++ e :: t ++ S)
          by (rewrite <- !app_assoc; reflexivity).
        rewrite setZ_mid by reflexivity. rewrite <- !app_assoc. reflexivity. }
      rewrite W. simpl bind.
      destruct (IH (D ++ [this]) (J0 ++ [e]) e P S) as (J' & H1 & H2 & H3).
      { destruct J0; discriminate. }
      exists J'. simpl rl. rewrite E. destruct (rl e t) as [d th] eqn:Er. simpl fst in *. simpl snd in *.
      replace (P ++ (D ++ [this]) ++ (J0 ++ [e]) ++ t ++ S) with (P ++ D ++ (this :: J0) ++ e :: t ++ S) in H1
        by (rewrite <- !app_assoc; reflexivity).
      replace (zlen (P ++ (D ++ [this]) ++ J0 ++ [e])) with (zlen (P ++ D ++ j0 :: J0) + 1) in H1 by (zl; lia).
      replace (zlen (P ++ D ++ [this])) with (zlen (P ++ D) + 1) in H1 by (zl; lia).
      split.
      * etransitivity; [apply H1|].
        replace (P ++ (D ++ [this]) ++ d ++ J' ++ S) with (P ++ D ++ (this :: d) ++ J' ++ S)
          by (rewrite <- !app_assoc; reflexivity).
        replace (zlen (P ++ D) + 1 + zlen d) with (zlen (P ++ D) + zlen (this :: d)) by (zl; lia).
        reflexivity.
      * split; [|exact H3]. zl. zl. lia.
Qed.

(* ------------------------------------------------------------------ take / drain / merge_loop *)
Definition step (acc : list entry) (e : entry) : list entry :=
  match acc with
  | [] => []
  | h :: tl => if e_key e =? e_key h then add_val h (e_val e) :: tl else e :: acc
  end.

Lemma step_nonempty acc e : acc <> [] -> step acc e <> [].
Proof. destruct acc as [|h tl]; [contradiction|]. intros _. simpl. destruct (e_key e =? e_key h); discriminate. Qed.

Lemma step_zlen acc e : acc <> [] -> zlen (step acc e) <= zlen acc + 1.
Proof.
  destruct acc as [|h tl]; [contradiction|]. intros _. unfold step. destruct (e_key e =? e_key h); zl; lia.
Qed.

Lemma fold_step_nonempty R : forall acc, acc <> [] -> fold_left step R acc <> [].
Proof. induction R as [|e t IH]; intros acc H; simpl; [exact H|]. apply IH, step_nonempty, H. Qed.

Lemma fold_step_zlen R : forall acc, acc <> [] -> zlen (fold_left step R acc) <= zlen acc + zlen R.
Proof.
  induction R as [|e t IH]; intros acc H; simpl; [zl; lia|].
  specialize (IH (step acc e) (step_nonempty _ _ H)). pose proof (step_zlen acc e H). zl. lia.
Qed.

Lemma take_ok b t alen acc e :
  getZ S_ms_read b t = Ok e -> acc <> [] -> zlen acc < alen -> take b t alen acc = Ok (step acc e).
Proof.
  intros G Ha Hl. unfold take. rewrite G. simpl. destruct acc as [|h tl]; [contradiction|].
  simpl. destruct (e_key e =? e_key h); [reflexivity|].
  apply Z.ltb_lt in Hl. rewrite Hl. reflexivity.
Qed.

Lemma drain_ok b alen R : forall p q acc,
  seg b p q R -> acc <> [] -> zlen acc + zlen R <= alen ->
  drain (length R) b p alen acc = Ok (fold_left step R acc).
Proof.
  induction R as [|e t IH]; intros p q acc Hs Ha Hl; simpl; [reflexivity|].
  apply (seg_cons S_ms_read) in Hs. destruct Hs as [G Hs]. zl.
  pose proof (zlen_nonneg t).
  rewrite (take_ok b p alen acc e G Ha) by lia. simpl.
  apply IH with (q := q); [exact Hs|apply step_nonempty, Ha|]. pose proof (step_zlen acc e Ha). lia.
Qed.

(* the order in which the two pointers consume the runs *)
Fixpoint interleave (fuel : nat) (A B : list entry) : list entry :=
  match fuel with
  | O => A ++ B
  | S f =>
    match A, B with
    | [], _ => B
    | _, [] => A
    | a :: A', b :: B' => if e_key a <=? e_key b then a :: interleave f A' B else b :: interleave f A B'
    end
  end.

Lemma interleave_perm f : forall A B, Permutation (A ++ B) (interleave f A B).
Proof.
  induction f as [|f IH]; intros A B; simpl; [apply Permutation_refl|].
  destruct A as [|a A']; [apply Permutation_refl|]. destruct B as [|b B']; [rewrite app_nil_r; apply Permutation_refl|].
  destruct (e_key a <=? e_key b).
  - simpl. apply perm_skip, IH.
  - eapply perm_trans; [apply Permutation_sym, Permutation_middle|]. apply perm_skip, IH.
Qed.

Lemma interleave_length f A B : length (interleave f A B) = (length A + length B)%nat.
Proof. rewrite <- app_length. symmetry. apply Permutation_length, interleave_perm. Qed.

Lemma interleave_wsorted f : forall A B, (length A + length B <= f)%nat ->
  wsorted A -> wsorted B -> wsorted (interleave f A B).
Proof.
  unfold wsorted. induction f as [|f IH]; intros A B Hf HA HB.
  - destruct A; destruct B; simpl in *; try lia. constructor.
  - simpl. destruct A as [|a A']; [exact HB|]. destruct B as [|b B']; [exact HA|].
    inversion HA as [|? ? HA' FA]; subst. inversion HB as [|? ? HB' FB]; subst. simpl in Hf.
    destruct (e_key a <=? e_key b) eqn:E.
    + apply Z.leb_le in E. simpl. constructor; [apply IH; simpl; auto; lia|].
      assert (P : Permutation (keys (A' ++ b :: B')) (keys (interleave f A' (b :: B')))).
      { apply Permutation_map, interleave_perm. }
      eapply Permutation_Forall; [exact P|]. unfold keys. rewrite map_app. apply Forall_app. split; [exact FA|].
      simpl. constructor; [exact E|]. eapply Forall_impl; [|exact FB]. simpl; intros; lia.
    + apply Z.leb_gt in E. simpl. constructor; [apply IH; simpl; auto; lia|].
      assert (P : Permutation (keys ((a :: A') ++ B')) (keys (interleave f (a :: A') B'))).
      { apply Permutation_map, interleave_perm. }
      eapply Permutation_Forall; [exact P|]. unfold keys. rewrite map_app. apply Forall_app. split; [|exact FB].
      simpl. constructor; [lia|]. eapply Forall_impl; [|exact FA]. simpl; intros; lia.
Qed.

Lemma merge_loop_ok b mid up alen : forall fuel A B p1 p2 acc,
  seg b p1 mid A -> seg b p2 up B -> (length A + length B <= fuel)%nat ->
  acc <> [] -> zlen acc + zlen A + zlen B <= alen ->
  merge_loop fuel b p1 mid p2 up alen acc = Ok (fold_left step (interleave fuel A B) acc).
Proof.
  induction fuel as [|fuel IH]; intros A B p1 p2 acc HA HB Hf Ha Hl.
  - destruct A; destruct B; simpl in Hf; try lia.
    apply seg_nil_eq in HA. apply seg_nil_eq in HB. subst. simpl.
    rewrite !Z.ltb_irrefl. simpl. rewrite Z.geb_leb, Z.leb_refl, Z.sub_diag. reflexivity.
  - destruct A as [|a A'].
    { pose proof (seg_nil_eq _ _ _ HA) as ->. unfold merge_loop. rewrite Z.ltb_irrefl. simpl.
      fold merge_loop. rewrite Z.geb_leb, Z.leb_refl.
      rewrite (seg_length_nat _ _ _ _ HB).
      change (interleave (S fuel) [] B) with B.
      apply drain_ok with (q := up); auto. zl. lia. }
    destruct B as [|b0 B'].
    { pose proof (seg_nil_eq _ _ _ HB) as ->.
      assert (Hlt : p1 < mid). { destruct HA as (_ & H & _). zl. pose proof (zlen_nonneg A'). lia. }
      unfold merge_loop. fold merge_loop. rewrite Z.ltb_irrefl, andb_false_r.
      replace (p1 >=? mid) with false by (symmetry; rewrite Z.geb_leb; apply Z.leb_gt; lia).
      rewrite (seg_length_nat _ _ _ _ HA).
      change (interleave (S fuel) (a :: A') []) with (a :: A').
      apply drain_ok with (q := mid); auto. zl. lia. }
    assert (H1 : p1 < mid). { destruct HA as (_ & H & _). zl. pose proof (zlen_nonneg A'). lia. }
    assert (H2 : p2 < up). { destruct HB as (_ & H & _). zl. pose proof (zlen_nonneg B'). lia. }
    unfold merge_loop. fold merge_loop.
    replace ((p1 <? mid) && (p2 <? up)) with true
      by (symmetry; apply andb_true_iff; split; apply Z.ltb_lt; lia).
    pose proof (seg_cons S_ms_read _ _ _ _ _ HA) as [GA HA'].
    pose proof (seg_cons S_ms_read _ _ _ _ _ HB) as [GB HB'].
    rewrite GA, GB. simpl bind. simpl interleave. zl. pose proof (zlen_nonneg A'). pose proof (zlen_nonneg B').
    destruct (e_key a <=? e_key b0).
    + rewrite (take_ok b p1 alen acc a GA Ha) by lia. simpl bind.
      simpl fold_left. apply IH; auto.
      * simpl in *. lia.
      * apply step_nonempty, Ha.
      * pose proof (step_zlen acc a Ha). zl. lia.
    + rewrite (take_ok b p2 alen acc b0 GB Ha) by lia. simpl bind.
      simpl fold_left. apply IH; auto.
      * simpl in *. lia.
      * apply step_nonempty, Ha.
      * pose proof (step_zlen acc b0 Ha). zl. lia.
Qed.

(* the accumulator list in terms of rl *)
Lemma fold_step_rl R : forall h tl,
  fold_left step R (h :: tl) = snd (rl h R) :: rev (fst (rl h R)) ++ tl.
Proof.
  induction R as [|e t IH]; intros h tl; simpl; [reflexivity|].
  destruct (e_key e =? e_key h).
  - apply IH.
  - rewrite IH. destruct (rl e t) as [d th]. simpl. rewrite <- app_assoc. reflexivity.
Qed.

(* with the sentinel (key -1) below non-negative keys, result[1:] is rlc of what was taken *)
Lemma fold_step_sentinel I :
  Forall (fun e => 0 <= e_key e) I ->
  tl (rev (fold_left step I [sentinel])) = rlc I /\
  zlen (fold_left step I [sentinel]) - 1 = zlen (rlc I).
Proof.
  intros H. rewrite fold_step_rl. destruct I as [|e t].
  - simpl. split; reflexivity.
  - inversion H as [|? ? He Ht]; subst.
    assert (E : (e_key e =? e_key sentinel) = false) by (apply Z.eqb_neq; unfold sentinel; simpl; lia).
    change (rl sentinel (e :: t)) with
      (if e_key e =? e_key sentinel then rl (add_val sentinel (e_val e)) t
       else let '(d, th) := rl e t in (sentinel :: d, th)).
    rewrite E. unfold rlc. destruct (rl e t) as [d th]. simpl fst. simpl snd.
    rewrite app_nil_r. split.
    + simpl rev. rewrite rev_app_distr, rev_involutive. reflexivity.
    + zl. lia.
Qed.
