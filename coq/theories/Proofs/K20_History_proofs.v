From Coq Require Import List Arith Bool Lia.
From VZ Require Import Model.K20_History.
Import ListNotations.

(* ---------- dictionary edits ---------- *)
Lemma del_key_idem m d : del_key m (del_key m d) = del_key m d.
Proof.
  unfold del_key. induction d as [|a d IH]; [reflexivity|]. cbn.
  destruct (negb (a =? m)) eqn:E; cbn; [rewrite E|]; rewrite IH; reflexivity.
Qed.

Lemma del_key_app m d1 d2 : del_key m (d1 ++ d2) = del_key m d1 ++ del_key m d2.
Proof. unfold del_key. apply filter_app. Qed.

Lemma mask_edit_idem mask d : mask_edit mask (mask_edit mask d) = mask_edit mask d.
Proof.
  destruct mask as [m|]; [|reflexivity]. unfold mask_edit, add_key.
  rewrite del_key_app, del_key_idem. cbn. rewrite Nat.eqb_refl. cbn. rewrite app_nil_r. reflexivity.
Qed.

(* a dictionary whose last and only mask entry is the mask is a fixed point (why the transform-side edit is benign) *)
Lemma mask_edit_fixed m d : ~ In m d -> mask_edit (Some m) (d ++ [m]) = d ++ [m].
Proof.
  intros H. unfold mask_edit, add_key. rewrite del_key_app. cbn. rewrite Nat.eqb_refl. cbn. rewrite app_nil_r.
  f_equal. unfold del_key. induction d as [|a d IH]; [reflexivity|]. cbn.
  destruct (Nat.eqb_spec a m) as [->|Hne]; [exfalso; apply H; cbn; auto|]. cbn. f_equal. apply IH.
  intros Hin. apply H. cbn. auto.
Qed.

(* ---------- temporary paths ---------- *)
Lemma block_loop_fs k todo : forall i fs, snd (block_loop k i todo fs) = fs.
Proof.
  induction todo as [|r IH]; intros i fs; [reflexivity|]. cbn. destruct (i =? k); [reflexivity|apply IH].
Qed.

Lemma block_loop_outcome k todo : forall i fs,
  fst (block_loop k i todo fs) = if (i <=? k) && (k <? i + todo) then Exn else Ok tt.
Proof.
  induction todo as [|r IH]; intros i fs.
  - cbn [block_loop fst]. rewrite Nat.add_0_r.
    destruct ((i <=? k) && (k <? i)) eqn:E; [|reflexivity].
    apply andb_prop in E as [E1 E2]. apply Nat.leb_le in E1. apply Nat.ltb_lt in E2. lia.
  - cbn [block_loop]. destruct (Nat.eqb_spec i k) as [->|Hne].
    + cbn [fst]. replace ((k <=? k) && (k <? k + S r)) with true; [reflexivity|].
      symmetry. apply andb_true_intro. split; [apply Nat.leb_le|apply Nat.ltb_lt]; lia.
    + rewrite IH.
      replace ((S i <=? k) && (k <? S i + r)) with ((i <=? k) && (k <? i + S r)); [reflexivity|].
      destruct (Nat.leb_spec (S i) k), (Nat.ltb_spec k (S i + r)), (Nat.leb_spec i k), (Nat.ltb_spec k (i + S r));
        cbn [andb]; try reflexivity; lia.
Qed.

Lemma rm_notin p fs : ~ In p fs -> rm p fs = fs.
Proof.
  unfold rm. induction fs as [|a fs IH]; intros H; [reflexivity|]. cbn.
  destruct (Nat.eq_dec p a) as [->|Hne]; [exfalso; apply H; cbn; auto|]. f_equal. apply IH.
  intros Hin. apply H. cbn. auto.
Qed.

Lemma rm_head p fs : rm p (p :: fs) = rm p fs.
Proof. unfold rm. cbn. destruct (Nat.eq_dec p p); [reflexivity|congruence]. Qed.

Lemma rm_other p q fs : p <> q -> rm p (q :: fs) = q :: rm p fs.
Proof. intros H. unfold rm. cbn. destruct (Nat.eq_dec p q); [congruence|reflexivity]. Qed.

Definition fresh_ok (fs : list nat) (next : nat) : Prop := Forall (fun p => p < next) fs.

Lemma fresh_notin fs next p : fresh_ok fs next -> next <= p -> ~ In p fs.
Proof. intros H Hp Hin. unfold fresh_ok in H. rewrite Forall_forall in H. specialize (H p Hin). lia. Qed.

Lemma scratch_repaired nblocks k fs next : fresh_ok fs next ->
  let '(r, fs', next') := scratch true nblocks k fs next in
  fs' = fs /\ fresh_ok fs' next' /\ r = if k <? nblocks then Exn else Ok tt.
Proof.
  intros Hok. unfold scratch. destruct (Nat.leb_spec nblocks 1) as [H1|H1].
  - split; [reflexivity|]. split; [exact Hok|].
    destruct (Nat.eqb_spec 0 k), (Nat.ltb_spec 0 nblocks), (Nat.ltb_spec k nblocks); cbn; try reflexivity; lia.
  - destruct (block_loop k 0 nblocks (S next :: next :: fs)) as [r fs2] eqn:E.
    pose proof (block_loop_fs k nblocks 0 (S next :: next :: fs)) as Hfs. rewrite E in Hfs. cbn in Hfs. subst fs2.
    pose proof (block_loop_outcome k nblocks 0 (S next :: next :: fs)) as Hr. rewrite E in Hr. cbn [fst] in Hr.
    split; [|split].
    + rewrite rm_head, rm_other by lia. rewrite (rm_notin (S next)) by (apply (fresh_notin fs next); auto).
      rewrite rm_head. apply rm_notin. apply (fresh_notin fs next); auto.
    + rewrite rm_head, rm_other by lia. rewrite (rm_notin (S next)) by (apply (fresh_notin fs next); auto).
      rewrite rm_head. rewrite rm_notin by (apply (fresh_notin fs next); auto).
      unfold fresh_ok in *. eapply Forall_impl; [|exact Hok]. cbn. intros; lia.
    + rewrite Hr. cbn [Nat.leb Nat.add andb]. reflexivity.
Qed.

Section Proofs.
  Variables data model out : Type.
  Variable fitf : dict -> data -> model.
  Variable outf : model -> dict -> data -> out.
  Variable norm : data -> data.
  Variable cachef : data -> nat.

  Notation world := (world model).
  Notation transform := (transform data model out outf norm cachef).
  Notation fit := (fit data model fitf norm cachef).
  Notation obs := (obs model).
  Notation rd := (rd model).
  Notation wr := (wr model).
  Notation run_history := (run_history data model out outf norm cachef).
  Notation single := (single data model out outf norm cachef).

  Lemma rd_wr (w : world) d : rd (wr w d) = d.
  Proof.
    unfold K20_History.rd, K20_History.wr. destruct (e_dict model (w_est model w)) eqn:E; cbn; rewrite ?E; reflexivity.
  Qed.

  Lemma model_wr (w : world) d : e_model model (w_est model (wr w d)) = e_model model (w_est model w).
  Proof. unfold K20_History.wr. destruct (e_dict model (w_est model w)); reflexivity. Qed.

  (* transform (original or repaired, faulting or not) preserves the observational state *)
  Lemma transform_obs rep mask x n k (w : world) :
    obs mask (snd (transform rep mask x n k w)) = obs mask w.
  Proof.
    unfold K20_History.transform. destruct (e_model model (w_est model w)) as [mdl|] eqn:Em; [|reflexivity].
    assert (H : forall w1 : world,
               (w1 = w \/ w1 = wr w (mask_edit mask (rd w))) ->
               obs mask (set_est model w1 {| e_dict := e_dict model (w_est model w1);
                                             e_model := e_model model (w_est model w1); e_cache := cachef x |})
               = obs mask w).
    { intros w1 [-> | ->]; unfold K20_History.obs; cbn [set_est w_est e_model e_dict].
      - reflexivity.
      - rewrite model_wr. f_equal.
        transitivity (mask_edit mask (rd (wr w (mask_edit mask (rd w))))); [reflexivity|].
        rewrite rd_wr. apply mask_edit_idem. }
    destruct (fst (block_loop k 0 n [])); cbn [snd]; apply H; destruct rep; auto.
  Qed.

  (* the outcome of a transform is a function of the observational state and the call *)
  Definition outcome_of (mask : option nat) (o : option model * dict) (c : call data) : res out :=
    let '(x, n, k) := c in
    match fst o with
    | None => Exn
    | Some mdl => match fst (block_loop k 0 n []) with
                  | Exn => Exn
                  | Ok _ => Ok (outf mdl (snd o) (norm x))
                  end
    end.

  Lemma single_outcome rep mask (w : world) c : single rep mask w c = outcome_of mask (obs mask w) c.
  Proof.
    destruct c as [[x n] k]. unfold K20_History.single, outcome_of, K20_History.transform, K20_History.obs. cbn [fst snd].
    destruct (e_model model (w_est model w)); [|reflexivity].
    destruct (fst (block_loop k 0 n [])); reflexivity.
  Qed.

  Lemma history rep mask : forall cs (w : world),
    map snd (run_history rep mask w cs) = map (single rep mask w) cs.
  Proof.
    induction cs as [|[[x n] k] cs IH]; intros w; [reflexivity|].
    cbn [K20_History.run_history].
    destruct (transform rep mask x n k w) as [[r xa] w'] eqn:E. cbn [map snd].
    f_equal.
    - unfold K20_History.single. rewrite E. reflexivity.
    - rewrite IH. apply map_ext. intros c. rewrite !single_outcome.
      pose proof (transform_obs rep mask x n k w) as Ho. rewrite E in Ho. cbn [snd] in Ho. rewrite Ho. reflexivity.
  Qed.

  (* non-faulting calls of the history return the single-call output; faulting calls raise and change nothing observable *)
  Lemma history_worlds rep mask : forall cs (w : world),
    Forall (fun p => obs mask (fst p) = obs mask w) (run_history rep mask w cs).
  Proof.
    induction cs as [|[[x n] k] cs IH]; intros w; [constructor|].
    cbn [K20_History.run_history]. destruct (transform rep mask x n k w) as [[r xa] w'] eqn:E.
    pose proof (transform_obs rep mask x n k w) as Ho. rewrite E in Ho. cbn [snd] in Ho.
    constructor; [exact Ho|]. specialize (IH w'). rewrite Forall_forall in *. intros p Hp. rewrite <- Ho. auto.
  Qed.

  (* ---------- caller-owned objects (repaired code) ---------- *)
  Lemma param_wr_own (w : world) d d' : e_dict model (w_est model w) = Own d -> w_param model (wr w d') = w_param model w.
  Proof. intros H. unfold K20_History.wr. rewrite H. reflexivity. Qed.

  Lemma fit_caller_unchanged mask x n k (w : world) :
    let '(_, xa, w') := fit true mask x n k w in
    xa = x /\ w_param model w' = w_param model w /\ exists d, e_dict model (w_est model w') = Own d.
  Proof.
    unfold K20_History.fit. cbn [x_after].
    set (w1 := set_est model w _).
    set (w2 := wr w1 _).
    assert (H2 : w_param model w2 = w_param model w) by (unfold w2; rewrite (param_wr_own w1 (w_param model w)); reflexivity).
    assert (D2 : exists d, e_dict model (w_est model w2) = Own d) by (unfold w2, K20_History.wr, w1; cbn; eauto).
    destruct (scratch true n k (w_fs model w2) (w_next model w2)) as [[r fs'] next'].
    destruct r; cbn; auto.
  Qed.

  Lemma transform_caller_unchanged mask x n k (w : world) :
    let '(_, xa, w') := transform true mask x n k w in
    xa = x /\ w_param model w' = w_param model w /\ e_dict model (w_est model w') = e_dict model (w_est model w).
  Proof.
    unfold K20_History.transform. destruct (e_model model (w_est model w)); [|auto].
    destruct (fst (block_loop k 0 n [])); cbn; auto.
  Qed.

  (* ---------- temporary paths ---------- *)
  Lemma fit_tempfiles mask x n k (w : world) : fresh_ok (w_fs model w) (w_next model w) ->
    let '(r, _, w') := fit true mask x n k w in
    w_fs model w' = w_fs model w /\ fresh_ok (w_fs model w') (w_next model w') /\
    (k < n -> r = Exn) /\ (n <= k -> r = Ok tt).
  Proof.
    intros Hok. unfold K20_History.fit.
    set (w1 := set_est model w _). set (w2 := wr w1 _).
    assert (Hfs : w_fs model w2 = w_fs model w /\ w_next model w2 = w_next model w).
    { unfold w2, K20_History.wr, w1. cbn. auto. }
    destruct Hfs as [Hfs Hn].
    pose proof (scratch_repaired n k (w_fs model w2) (w_next model w2)) as Hs.
    rewrite Hfs, Hn in *. specialize (Hs Hok).
    destruct (scratch true n k (w_fs model w) (w_next model w)) as [[r fs'] next'].
    destruct Hs as (E1 & E2 & E3). subst fs'.
    assert (Hk : (k < n -> r = Exn) /\ (n <= k -> r = Ok tt)).
    { rewrite E3. destruct (Nat.ltb_spec k n); split; intros; try reflexivity; lia. }
    destruct Hk as [Hk1 Hk2].
    destruct r as [[]|]; cbn; (split; [reflexivity|]); (split; [exact E2|]); split; assumption.
  Qed.

  Lemma transform_tempfiles rep mask x n k (w : world) :
    w_fs model (snd (transform rep mask x n k w)) = w_fs model w.
  Proof.
    unfold K20_History.transform. destruct (e_model model (w_est model w)); [|reflexivity].
    assert (H : w_fs model (if rep then w else wr w (mask_edit mask (rd w))) = w_fs model w).
    { destruct rep; [reflexivity|]. unfold K20_History.wr. destruct (e_dict model (w_est model w)); reflexivity. }
    destruct (fst (block_loop k 0 n [])); cbn; exact H.
  Qed.
End Proofs.

(* ---------- K20c: a cache that transform consults, keyed by an auxiliary argument ---------- *)
Section ProofsC.
  Variables data model out aux cost : Type.
  Variable fitf : dict -> data -> model.
  Variable costf : model -> aux -> cost.
  Variable outc : model -> dict -> data -> aux -> cost -> out.
  Variable norm : data -> data.
  Variable cachef : data -> nat.
  Variable valid : aux -> aux -> bool.

  Notation cworld := (cworld model aux cost).
  Notation transform_c := (transform_c data model out aux cost costf outc norm cachef valid).
  Notation fit_c := (fit_c data model aux cost fitf norm cachef).
  Notation run_history_c := (run_history_c data model out aux cost costf outc norm cachef valid).
  Notation single_c := (single_c data model out aux cost costf outc norm cachef valid).
  Notation cost_used := (cost_used model aux cost costf valid).
  Notation clear := (clear model aux cost).
  Notation mdl_of cw := (e_model model (w_est model (c_w model aux cost cw))).

  (* the validity test is sound: a cached value it accepts is the value that would be computed *)
  Definition sound : Prop := forall mdl a0 a, valid a0 a = true -> costf mdl a0 = costf mdl a.

  (* the cache holds what costf gives for the fitted model and the argument it was made for *)
  Definition cache_ok (cw : cworld) : Prop :=
    match c_kc model aux cost cw with
    | None => True
    | Some (a0, v) => forall mdl, mdl_of cw = Some mdl -> v = costf mdl a0
    end.

  Lemma cost_used_ok (cw : cworld) mdl a : sound -> cache_ok cw -> mdl_of cw = Some mdl ->
    cost_used mdl (c_kc model aux cost cw) a = costf mdl a.
  Proof.
    intros Hs Hc Hm. unfold K20_History.cost_used, cache_ok in *.
    destruct (c_kc model aux cost cw) as [[a0 v]|]; [|reflexivity].
    destruct (valid a0 a) eqn:E; [|reflexivity]. rewrite (Hc mdl Hm). apply Hs. exact E.
  Qed.

  (* what a call returns as a function of the observational state only (written without any cache) *)
  Definition outcome_c (o : option model * dict) (c : ccall data aux) : res out :=
    let '(x, a, n, k) := c in
    match fst o with
    | None => Exn
    | Some mdl => match fst (block_loop k 0 n []) with
                  | Exn => Exn
                  | Ok _ => Ok (outc mdl (snd o) (norm x) a (costf mdl a))
                  end
    end.

  Lemma transform_c_outcome rep mask x a n k (cw : cworld) : sound -> cache_ok cw ->
    fst (fst (transform_c rep mask x a n k cw)) = outcome_c (obs model mask (c_w model aux cost cw)) (x, a, n, k).
  Proof.
    intros Hs Hc. unfold K20_History.transform_c, outcome_c, K20_History.obs. cbn [fst snd].
    destruct (mdl_of cw) as [mdl|] eqn:Em; [|reflexivity].
    rewrite (cost_used_ok cw mdl a Hs Hc Em).
    pose proof (single_outcome data model out (fun m d y => outc m d y a (costf mdl a)) norm cachef rep mask
                               (c_w model aux cost cw) (x, n, k)) as H.
    unfold K20_History.single in H.
    destruct (transform data model out (fun m d y => outc m d y a (costf mdl a)) norm cachef rep mask x n k
                        (c_w model aux cost cw)) as [[r xa] w'].
    cbn [fst] in *. rewrite H. unfold outcome_of, K20_History.obs. cbn [fst snd]. rewrite Em. reflexivity.
  Qed.

  Lemma transform_c_state rep mask x a n k (cw : cworld) : sound -> cache_ok cw ->
    cache_ok (snd (transform_c rep mask x a n k cw)) /\
    obs model mask (c_w model aux cost (snd (transform_c rep mask x a n k cw))) = obs model mask (c_w model aux cost cw).
  Proof.
    intros Hs Hc. unfold K20_History.transform_c.
    destruct (mdl_of cw) as [mdl|] eqn:Em; [|cbn [snd]; auto].
    set (v := cost_used mdl (c_kc model aux cost cw) a).
    pose proof (transform_obs data model out (fun m d y => outc m d y a v) norm cachef rep mask x n k
                              (c_w model aux cost cw)) as Ho.
    destruct (transform data model out (fun m d y => outc m d y a v) norm cachef rep mask x n k
                        (c_w model aux cost cw)) as [[r xa] w'].
    cbn [snd c_w] in *. split; [|exact Ho].
    assert (Hm : e_model model (w_est model w') = Some mdl).
    { unfold K20_History.obs in Ho. injection Ho as Ho1 _. rewrite Ho1. exact Em. }
    unfold cache_ok in *. cbn [c_kc c_w].
    destruct (c_kc model aux cost cw) as [[a0 v0]|] eqn:Ek.
    - destruct (valid a0 a) eqn:Ev.
      + intros m Hm'. rewrite Hm in Hm'. injection Hm' as <-. apply Hc. exact Em.
      + intros m Hm'. rewrite Hm in Hm'. injection Hm' as <-. unfold v, K20_History.cost_used. rewrite Ev. reflexivity.
    - intros m Hm'. rewrite Hm in Hm'. injection Hm' as <-. reflexivity.
  Qed.

  Lemma single_c_outcome rep mask (cw : cworld) c : sound ->
    single_c rep mask cw c = outcome_c (obs model mask (c_w model aux cost cw)) c.
  Proof.
    intros Hs. destruct c as [[[x a] n] k]. unfold K20_History.single_c.
    rewrite transform_c_outcome; [reflexivity|exact Hs|exact I].
  Qed.

  Lemma history_c rep mask : sound -> forall cs (cw : cworld), cache_ok cw ->
    map snd (run_history_c rep mask cw cs) = map (single_c rep mask cw) cs.
  Proof.
    intros Hs. induction cs as [|[[[x a] n] k] cs IH]; intros cw Hc; [reflexivity|].
    cbn [K20_History.run_history_c].
    pose proof (transform_c_outcome rep mask x a n k cw Hs Hc) as Hr.
    pose proof (transform_c_state rep mask x a n k cw Hs Hc) as [Hc' Ho].
    destruct (transform_c rep mask x a n k cw) as [[r xa] cw'] eqn:E. cbn [fst snd] in *.
    cbn [map snd]. f_equal.
    - rewrite (single_c_outcome rep mask cw (x, a, n, k) Hs). exact Hr.
    - rewrite (IH cw' Hc'). apply map_ext. intros c. rewrite !single_c_outcome by exact Hs. rewrite Ho. reflexivity.
  Qed.

  (* a validity test that implies equality of the keys is sound *)
  Lemma valid_eq_sound : (forall a0 a, valid a0 a = true -> a0 = a) -> sound.
  Proof. intros H mdl a0 a E. rewrite (H a0 a E). reflexivity. Qed.

  (* a fit that drops the cache establishes the invariant whatever the cache held before *)
  Lemma fit_c_reset rep mask x n k (cw : cworld) : cache_ok (snd (fit_c true rep mask x n k cw)).
  Proof.
    unfold K20_History.fit_c.
    destruct (fit data model fitf norm cachef rep mask x n k (c_w model aux cost cw)) as [[r xa] w']. exact I.
  Qed.
End ProofsC.
