(* C03 for the multiset driver. *)
From Coq Require Import List Arith Bool Lia Permutation.
From VZ Require Import Model.K02_Windows Model.K03_Cooc Model.K03_CoocSpec
     Proofs.K03_BigSum Proofs.K02_Windows_proofs Proofs.K03_Cooc_proofs.
Import ListNotations.

(* ---------- the window of multisets = own multiset followed by the one-sided window ---------- *)

Lemma slice_cons : forall A (d : A) (s : list A) m hi, m < hi -> hi <= length s ->
  slice m hi s = nth m s d :: slice (S m) hi s.
Proof.
  intros. rewrite !(slice_map_nth A d) by assumption.
  replace (hi - m) with (S (hi - S m)) by lia. reflexivity.
Qed.

Lemma slice_snoc : forall A (d : A) (s : list A) a m, a <= m -> m < length s ->
  slice a (S m) s = slice a m s ++ [nth m s d].
Proof.
  intros. rewrite !(slice_map_nth A d) by lia.
  replace (S m - a) with (S (m - a)) by lia. rewrite seq_S, map_app. simpl. repeat f_equal. lia.
Qed.

Lemma multi_window_positions : forall (doc : list (list nat)) R m reverse, m < length doc ->
  multi_window doc R m reverse = map (fun q => nth q doc []) (m :: win_positions reverse R m (length doc)).
Proof.
  intros doc R m reverse Hm. simpl map. rewrite <- (window_at_index_positions _ [] doc) by assumption.
  unfold multi_window, window_at_index. destruct reverse.
  - rewrite Nat.max_0_r. replace (m + 1) with (S m) by lia.
    rewrite (slice_snoc _ []) by lia. rewrite rev_app_distr. reflexivity.
  - rewrite (slice_cons _ [] doc m) by lia. replace (m + 1) with (S m) by lia.
    rewrite (Nat.min_comm (length doc)). reflexivity.
Qed.

(* ---------- (multiset, slot) pairs ---------- *)

Definition mpairs (doc : list (list nat)) (Ms : list nat) : list (nat * nat) :=
  flat_map (fun q => map (pair q) (seq 0 (msize doc q))) Ms.

Lemma concat_mpairs : forall doc Ms,
  concat (map (fun q => nth q doc []) Ms) = map (fun qs => mtok doc (fst qs) (snd qs)) (mpairs doc Ms).
Proof.
  induction Ms; [reflexivity|]. simpl. unfold mpairs in *. simpl. rewrite map_app, IHMs. f_equal.
  rewrite map_map. simpl. unfold mtok, msize. apply list_map_nth_seq.
Qed.

Lemma repeat_as_map : forall A (z : A) n, repeat z n = map (fun _ => z) (seq 0 n).
Proof.
  intros. induction n; [reflexivity|]. rewrite seq_S, map_app. simpl. rewrite <- IHn.
  clear. induction n; [reflexivity|]. simpl. f_equal. assumption.
Qed.

Section Fill.
Context {K : carrier}.

Definition fillv (kf : nat -> K) (mask : option nat) (off : nat) (doc : list (list nat)) (k q s' : nat) : K :=
  if off <=? k then (if is_mask mask (mtok doc q s') then zero else kf k) else zero.

Lemma multi_fill_map : forall (kf : nat -> K) mask off doc (kd : nat -> nat) Ms i,
  (forall j, j < length Ms -> kd (nth j Ms 0) = i + j) ->
  multi_fill kf mask off i (map (fun q => nth q doc []) Ms)
  = map (fun qs => fillv kf mask off doc (kd (fst qs)) (fst qs) (snd qs)) (mpairs doc Ms).
Proof.
  induction Ms as [|q Ms IH]; intros i Hkd; [reflexivity|].
  simpl map. simpl multi_fill. unfold mpairs. simpl flat_map. rewrite map_app. f_equal.
  - rewrite map_map. simpl. assert (Hq : kd q = i) by (rewrite <- (Nat.add_0_r i); apply (Hkd 0); simpl; lia).
    rewrite Hq. unfold fillv. destruct (off <=? i).
    + rewrite (list_map_nth_seq _ 0 (nth q doc [])) at 1. rewrite map_map. unfold msize, mtok.
      apply map_ext. intros s'. unfold is_mask. destruct mask; reflexivity.
    + apply repeat_as_map.
  - apply IH. intros j Hj. replace (S i + j) with (i + S j) by lia. apply (Hkd (S j)). simpl. lia.
Qed.

End Fill.

Lemma upd_map_pointwise : forall A B (eqb : A -> A -> bool) (F : A -> B) (z : B) (d : A) (l : list A) j,
  (forall x y, eqb x y = true <-> x = y) -> NoDup l -> j < length l ->
  upd (map F l) j z = map (fun x => if eqb x (nth j l d) then z else F x) l.
Proof.
  intros A B eqb F z d l j Heqb. revert j. induction l as [|a l IH]; intros j Hnd Hj; [simpl in Hj; lia|].
  inversion Hnd; subst. destruct j; simpl.
  - assert (E : eqb a a = true) by (apply Heqb; reflexivity). rewrite E. f_equal.
    apply map_ext_in. intros x Hx. destruct (eqb x a) eqn:E2; [|reflexivity].
    apply Heqb in E2. subst. contradiction.
  - simpl in Hj. assert (Hin : In (nth j l d) l) by (apply nth_In; lia).
    destruct (eqb a (nth j l d)) eqn:E.
    + apply Heqb in E. subst. contradiction.
    + f_equal. apply IH; [assumption | lia].
Qed.

Definition pair_eqb (x y : nat * nat) : bool := Nat.eqb (fst x) (fst y) && Nat.eqb (snd x) (snd y).

Lemma pair_eqb_spec : forall x y, pair_eqb x y = true <-> x = y.
Proof.
  intros [a b] [c d]. unfold pair_eqb. simpl. rewrite andb_true_iff, !Nat.eqb_eq. split.
  - intros [-> ->]. reflexivity.
  - intros H. inversion H. auto.
Qed.

Lemma mpairs_In : forall doc Ms q s', In (q, s') (mpairs doc Ms) <-> In q Ms /\ s' < msize doc q.
Proof.
  intros. unfold mpairs. rewrite in_flat_map. split.
  - intros [q' [Hq' Hin]]. apply in_map_iff in Hin. destruct Hin as [s'' [Heq Hs]]. inversion Heq; subst.
    apply in_seq in Hs. split; [assumption | lia].
  - intros [Hq Hs]. exists q. split; [assumption|]. apply in_map_iff. exists s'. split; [reflexivity | apply in_seq; lia].
Qed.

Lemma NoDup_app_intro : forall A (l1 l2 : list A), NoDup l1 -> NoDup l2 ->
  (forall x, In x l1 -> In x l2 -> False) -> NoDup (l1 ++ l2).
Proof.
  induction l1; intros l2 H1 H2 H; simpl; [assumption|]. inversion H1; subst. constructor.
  - intros Hin. apply in_app_or in Hin. destruct Hin; [contradiction|]. apply (H a); [left; reflexivity | assumption].
  - apply IHl1; try assumption. intros x Hx1 Hx2. apply (H x); [right; assumption | assumption].
Qed.

Lemma mpairs_NoDup : forall doc Ms, NoDup Ms -> NoDup (mpairs doc Ms).
Proof.
  induction Ms as [|q Ms IH]; intros Hnd; [constructor|]. inversion Hnd; subst.
  change (mpairs doc (q :: Ms)) with (map (pair q) (seq 0 (msize doc q)) ++ mpairs doc Ms).
  apply NoDup_app_intro.
  - apply NoDup_map_inj_in; [|apply seq_NoDup]. intros x y _ _ H. inversion H. reflexivity.
  - apply IH. assumption.
  - intros [a b] Hi1 Hi2. apply in_map_iff in Hi1. destruct Hi1 as [s1 [Heq _]]. inversion Heq; subst.
    apply mpairs_In in Hi2. tauto.
Qed.

Section MultiMain.
Context {K : carrier} (HK : carrier_laws K).

(* ---------- occurrences given by slot lists ---------- *)

Definition slot_total {X} (nw : bool) (sl : list (list X * (X -> K))) : K :=
  if nw then let t := bigsum (fun s => bigsum (snd s) (fst s)) sl in if gtb0 t then t else one else one.

Lemma sumby_slot_occ : forall X (tokf : X -> nat) nw n row (sl : list (list X * (X -> K))) r c i,
  (forall s, In s sl -> forall x, In x (fst s) -> tokf x < n) -> c < n ->
  sumby (occ_events nw n (row, map (fun s => (map tokf (fst s), map (snd s) (fst s))) sl)) r (c + i * n) =
  if Nat.eqb row r
  then match nth_error sl i with
       | Some s => bigsum (fun x => if Nat.eqb (tokf x) c then posv (div (snd s x) (slot_total nw sl)) else zero) (fst s)
       | None => zero
       end
  else zero.
Proof.
  intros X tokf nw n row sl r c i Htok Hc.
  rewrite (sumby_occ_events HK); [|
    unfold occ_ok; simpl; rewrite Forall_forall; intros wk Hwk; apply in_map_iff in Hwk;
    destruct Hwk as [s [<- Hs]]; simpl; rewrite Forall_forall; intros t Ht; apply in_map_iff in Ht;
    destruct Ht as [x [<- Hx]]; apply (Htok s Hs x Hx) | assumption].
  simpl fst. simpl snd. destruct (Nat.eqb row r); [|reflexivity].
  assert (Htot : occ_total nw (map (fun s : list X * (X -> K) => (map tokf (fst s), map (snd s) (fst s))) sl) = slot_total nw sl).
  { unfold occ_total, slot_total. destruct nw; [|reflexivity]. rewrite map_map. reflexivity. }
  rewrite Htot.
  destruct (nth_error sl i) as [s|] eqn:Hnth.
  - rewrite (nth_error_nth _ _ _ (map_nth_error _ _ _ Hnth)). simpl fst. simpl snd.
    rewrite combine_map2. rewrite bigsum_map. reflexivity.
  - apply nth_error_None in Hnth. rewrite nth_overflow by (rewrite map_length; assumption). reflexivity.
Qed.

(* ---------- the multiset window as a set of (multiset, slot) pairs ---------- *)

Variable doc : list (list nat).

Definition mwin (b : block K) (R m : nat) : list nat := m :: win_positions (b_rev b) R m (length doc).

Lemma mwin_NoDup : forall b R m, NoDup (mwin b R m).
Proof.
  intros. unfold mwin. constructor; [|apply win_positions_NoDup].
  intros Hin. destruct (Nat.lt_ge_cases m (length doc)) as [Hm|Hm].
  - apply win_positions_In in Hin; [|assumption]. destruct Hin as [_ Hin]. unfold in_win in Hin.
    destruct (b_rev b); apply andb_prop in Hin; destruct Hin as [H1 H2];
      [apply Nat.ltb_lt in H2 | apply Nat.ltb_lt in H1]; lia.
  - unfold win_positions in Hin. destruct (b_rev b); apply in_map_iff in Hin; destruct Hin as [k [Hk Hin]];
      apply in_seq in Hin; lia.
Qed.

Lemma mwin_In : forall b R m q, m < length doc -> In q (mwin b R m) <-> q < length doc /\ m_in b R m q = true.
Proof.
  intros b R m q Hm. unfold mwin, m_in. simpl. rewrite win_positions_In by assumption.
  rewrite orb_true_iff, Nat.eqb_eq. split.
  - intros [->|[H1 H2]]; [split; [assumption | left; reflexivity] | split; [assumption | right; assumption]].
  - intros [Hq [->|H]]; [left; reflexivity | right; split; assumption].
Qed.

Lemma mpairs_sum : forall b R m (G : nat -> nat -> K), m < length doc ->
  bigsum (fun qs => G (fst qs) (snd qs)) (mpairs doc (mwin b R m)) = m_sum doc b R m G.
Proof.
  intros b R m G Hm. unfold mpairs. rewrite (bigsum_flat_map HK).
  rewrite (bigsum_ext _ _ (fun q => isum (msize doc q) (fun s' => G q s'))).
  2:{ intros q _. rewrite bigsum_map. reflexivity. }
  unfold m_sum. apply (isum_indicator HK); [apply mwin_NoDup|]. intros q. apply mwin_In. assumption.
Qed.

Lemma mwin_dist : forall b R m j, j < length (mwin b R m) -> dist m (nth j (mwin b R m) 0) = 0 + j.
Proof.
  intros b R m j Hj. unfold mwin in *. destruct j; simpl.
  - unfold dist. rewrite Nat.leb_refl. lia.
  - simpl in Hj. rewrite win_positions_dist by lia. lia.
Qed.

Lemma mpairs_nth_own : forall b R m s, s < msize doc m -> nth s (mpairs doc (mwin b R m)) (0, 0) = (m, s).
Proof.
  intros. unfold mwin, mpairs. simpl flat_map. rewrite app_nth1 by (rewrite map_length, seq_length; assumption).
  rewrite (nth_map_lt _ _ _ _ 0) by (rewrite seq_length; assumption). rewrite seq_nth by assumption. reflexivity.
Qed.

Lemma mpairs_length_own : forall b R m s, s < msize doc m -> s < length (mpairs doc (mwin b R m)).
Proof.
  intros. unfold mwin, mpairs. simpl flat_map. rewrite app_length, map_length, seq_length. lia.
Qed.

(* the un-normalised multiset kernel, pointwise *)
Definition m_raw0 (b : block K) (m s q s' : nat) : K :=
  if (dist m q <? b_off b) || is_mask (b_mask b) (mtok doc q s') || (Nat.eqb q m && Nat.eqb s' s)
  then zero else b_kf b (dist m q).

Lemma multi_raw0_is_map : forall b R m s, m < length doc -> s < msize doc m ->
  upd (multi_fill (b_kf b) (b_mask b) (b_off b) 0 (multi_window doc R m (b_rev b))) s zero
  = map (fun qs => m_raw0 b m s (fst qs) (snd qs)) (mpairs doc (mwin b R m)).
Proof.
  intros b R m s Hm Hs. rewrite multi_window_positions by assumption.
  change (m :: win_positions (b_rev b) R m (length doc)) with (mwin b R m).
  rewrite (multi_fill_map _ _ _ doc (dist m) (mwin b R m) 0) by (apply mwin_dist).
  rewrite (upd_map_pointwise _ _ pair_eqb _ _ (0, 0)); [| apply pair_eqb_spec | apply mpairs_NoDup, mwin_NoDup | apply mpairs_length_own; assumption].
  rewrite mpairs_nth_own by assumption.
  apply map_ext. intros [q s']. unfold pair_eqb, m_raw0, fillv. simpl fst. simpl snd.
  destruct (Nat.leb_spec (b_off b) (dist m q)); destruct (Nat.ltb_spec (dist m q) (b_off b)); try lia; simpl;
    destruct (is_mask (b_mask b) (mtok doc q s')); simpl;
    destruct (Nat.eqb q m && Nat.eqb s' s); reflexivity.
Qed.

(* ... and a target that is the nullified mask has an all-zero kernel *)
Lemma multi_raw_is_map : forall b R m s, m < length doc -> s < msize doc m ->
  multi_raw (b_kf b) (b_mask b) (b_off b) (multi_window doc R m (b_rev b)) s
  = map (fun qs => m_raw doc b m s (fst qs) (snd qs)) (mpairs doc (mwin b R m)).
Proof.
  intros b R m s Hm Hs. unfold multi_raw. rewrite multi_raw0_is_map by assumption.
  assert (Hhd : nth s (hd [] (multi_window doc R m (b_rev b))) 0 = mtok doc m s).
  { rewrite multi_window_positions by assumption. reflexivity. }
  rewrite Hhd. unfold m_raw, m_raw0.
  destruct (b_mask b) as [mk|]; simpl is_mask.
  - destruct (Nat.eqb (mtok doc m s) mk) eqn:E.
    + rewrite map_map. apply map_ext. intros [q s']. cbn [fst snd]. rewrite orb_true_r. reflexivity.
    + apply map_ext. intros [q s']. cbn [fst snd]. rewrite orb_false_r. reflexivity.
  - apply map_ext. intros [q s']. cbn [fst snd]. rewrite !orb_false_r. reflexivity.
Qed.

Lemma multi_kernel_is_map : forall b R m s, m < length doc -> s < msize doc m ->
  multi_kernel (b_kf b) (b_mask b) (b_norm b) (b_off b) (multi_window doc R m (b_rev b)) s
  = map (fun qs => m_norm doc b R m s (fst qs) (snd qs)) (mpairs doc (mwin b R m)).
Proof.
  intros b R m s Hm Hs. unfold multi_kernel. rewrite multi_raw_is_map by assumption.
  unfold m_norm. destruct (b_norm b); [|reflexivity]. unfold l1_normalize.
  assert (Hsum : tsum (map (fun qs => m_raw doc b m s (fst qs) (snd qs)) (mpairs doc (mwin b R m))) = m_ksum doc b R m s).
  { change (bigsum (fun qs => m_raw doc b m s (fst qs) (snd qs)) (mpairs doc (mwin b R m)) = m_ksum doc b R m s).
    rewrite mpairs_sum by assumption. reflexivity. }
  rewrite Hsum. destruct (gtb0 (m_ksum doc b R m s)); [rewrite map_map|]; reflexivity.
Qed.

Definition multi_slots (blocks : list (block K)) (r m s : nat) : list (list (nat * nat) * (nat * nat -> K)) :=
  map (fun b => let R := nth r (b_radii b) 0 in
                (mpairs doc (mwin b R m), fun qs => m_weight doc b R m s (fst qs) (snd qs))) blocks.

Lemma multi_occ_is_slots : forall (blocks : list (block K)) m s, m < length doc -> s < msize doc m ->
  multi_occ blocks doc m s =
  (mtok doc m s, map (fun sl => (map (fun qs => mtok doc (fst qs) (snd qs)) (fst sl), map (snd sl) (fst sl)))
                     (multi_slots blocks (mtok doc m s) m s)).
Proof.
  intros blocks m s Hm Hs. unfold multi_occ, multi_slots. f_equal. rewrite map_map. apply map_ext. intros b.
  simpl fst. simpl snd. change (nth s (nth m doc []) 0) with (mtok doc m s).
  rewrite multi_kernel_is_map by assumption. rewrite map_map.
  rewrite multi_window_positions by assumption. rewrite concat_mpairs. reflexivity.
Qed.

Lemma multi_slot_total : forall nw (blocks : list (block K)) r m s, m < length doc ->
  slot_total nw (multi_slots blocks r m s) = m_total doc nw blocks r m s.
Proof.
  intros nw blocks r m s Hm. unfold slot_total, m_total. destruct nw; [|reflexivity].
  unfold multi_slots. rewrite bigsum_map. simpl fst. simpl snd.
  rewrite (bigsum_ext _ _ (fun b => m_sum doc b (nth r (b_radii b) 0) m (m_weight doc b (nth r (b_radii b) 0) m s))).
  2:{ intros b _. apply (mpairs_sum b (nth r (b_radii b) 0) m (m_weight doc b (nth r (b_radii b) 0) m s)). assumption. }
  reflexivity.
Qed.

Lemma sumby_multi_occ : forall (blocks : list (block K)) nw n m s r c i,
  Forall (Forall (fun t => t < n)) doc -> c < n -> m < length doc -> s < msize doc m ->
  sumby (occ_events nw n (multi_occ blocks doc m s)) r (c + i * n) =
  if Nat.eqb (mtok doc m s) r then m_cell doc nw blocks r m s i c else zero.
Proof.
  intros blocks nw n m s r c i Hdoc Hc Hm Hs. rewrite multi_occ_is_slots by assumption.
  rewrite sumby_slot_occ; [| | assumption].
  - destruct (Nat.eqb_spec (mtok doc m s) r) as [->|]; [|reflexivity].
    rewrite multi_slot_total by assumption. unfold m_cell, multi_slots. rewrite nth_error_map.
    destruct (nth_error blocks i) as [b|]; [|reflexivity]. simpl fst. simpl snd.
    apply (mpairs_sum b (nth r (b_radii b) 0) m
             (fun q s' => if Nat.eqb (mtok doc q s') c
                          then posv (div (m_weight doc b (nth r (b_radii b) 0) m s q s') (m_total doc nw blocks r m s)) else zero)).
    assumption.
  - intros sl Hsl [q s'] Hx. unfold multi_slots in Hsl. apply in_map_iff in Hsl. destruct Hsl as [b [<- _]].
    cbn [fst] in Hx. apply mpairs_In in Hx. destruct Hx as [Hq Hs']. cbn [fst snd]. unfold mtok, msize in *.
    destruct (Nat.lt_ge_cases q (length doc)) as [Hql|Hql].
    + rewrite Forall_forall in Hdoc. specialize (Hdoc (nth q doc []) (nth_In _ _ Hql)).
      rewrite Forall_forall in Hdoc. apply Hdoc. apply nth_In. assumption.
    + rewrite nth_overflow in Hs' by assumption. simpl in Hs'. lia.
Qed.

End MultiMain.

Theorem multi_cooc : forall (K : carrier), carrier_laws K ->
  forall (blocks : list (block K)) nw n docs r c i,
  Forall (Forall (Forall (fun t => t < n))) docs -> c < n ->
  sumby (multi_events blocks nw n docs) r (c + i * n) = multi_spec blocks nw docs r c i.
Proof.
  intros K HK blocks nw n docs r c i Hdocs Hc. unfold multi_events, multi_spec.
  rewrite (sumby_flat_map HK). apply bigsum_ext. intros doc Hd.
  rewrite Forall_forall in Hdocs. specialize (Hdocs _ Hd).
  unfold multi_doc_events. rewrite (sumby_flat_map HK). apply isum_ext. intros m Hm.
  rewrite (sumby_flat_map HK). apply isum_ext. intros s Hs.
  apply (sumby_multi_occ HK); assumption.
Qed.

Theorem multi_events_app : forall (K : carrier) (blocks : list (block K)) nw n docs1 docs2,
  multi_events blocks nw n (docs1 ++ docs2) = multi_events blocks nw n docs1 ++ multi_events blocks nw n docs2.
Proof. intros. unfold multi_events. apply flat_map_app. Qed.
