From Coq Require Import ZArith List Bool Lia Arith Sorted.
From VZ Require Import Model.K8_BPE Proofs.K8_BPE_proofs.
Import ListNotations.
Open Scope Z_scope.

(* ---------- np.unique ---------- *)
Lemma In_insert_unique x y l : In y (insert_unique x l) <-> y = x \/ In y l.
Proof.
  induction l as [|z t IH]; simpl; [intuition|].
  destruct (x <? z) eqn:E1; simpl; [intuition|].
  destruct (x =? z) eqn:E2; simpl.
  - apply Z.eqb_eq in E2. subst. intuition.
  - rewrite IH. intuition.
Qed.

Lemma insert_unique_sorted x l : StronglySorted Z.lt l -> StronglySorted Z.lt (insert_unique x l).
Proof.
  induction 1 as [|z t Hs IH Hall]; simpl; [repeat constructor|].
  destruct (x <? z) eqn:E1.
  - apply Z.ltb_lt in E1. constructor; [constructor; assumption|].
    constructor; [exact E1|]. eapply Forall_impl; [|exact Hall]. intros; lia.
  - destruct (x =? z) eqn:E2; [constructor; assumption|].
    apply Z.ltb_ge in E1. apply Z.eqb_neq in E2.
    constructor; [exact IH|]. apply Forall_forall. intros y Hy. apply In_insert_unique in Hy as [->|Hy]; [lia|].
    eapply Forall_forall in Hall; eauto.
Qed.

Lemma unique_codes_In enc x : In x (unique_codes enc) <-> In x (concat enc).
Proof.
  unfold unique_codes. induction (concat enc) as [|y t IH]; simpl; [reflexivity|].
  rewrite In_insert_unique, IH. intuition.
Qed.

Lemma unique_codes_sorted enc : StronglySorted Z.lt (unique_codes enc).
Proof.
  unfold unique_codes. induction (concat enc) as [|y t IH]; simpl; [constructor | apply insert_unique_sorted; exact IH].
Qed.

(* ---------- the column dictionary ---------- *)
Lemma col_of_spec codes x j :
  col_of codes x = Some j -> 0 <= j /\ nth_error codes (Z.to_nat j) = Some x.
Proof.
  revert j; induction codes as [|y t IH]; simpl; intros j H; [discriminate|].
  destruct (x =? y) eqn:E.
  - inversion H; subst. apply Z.eqb_eq in E. subst. split; [lia | reflexivity].
  - destruct (col_of t x) as [j'|]; simpl in H; [|discriminate]. inversion H; subst.
    destruct (IH j' eq_refl) as [H0 H1]. split; [lia|].
    replace (Z.to_nat (Z.succ j')) with (S (Z.to_nat j')) by lia. exact H1.
Qed.

Lemma col_of_inj codes x y j : col_of codes x = Some j -> col_of codes y = Some j -> x = y.
Proof.
  intros Hx Hy. apply col_of_spec in Hx as [_ Hx]. apply col_of_spec in Hy as [_ Hy]. congruence.
Qed.

Lemma col_of_In codes x : In x codes -> exists j, col_of codes x = Some j.
Proof.
  induction codes as [|y t IH]; simpl; [tauto|]. intros H.
  destruct (x =? y) eqn:E; [eauto|].
  destruct H as [H|H]; [subst; rewrite Z.eqb_refl in E; discriminate|].
  destruct (IH H) as [j Hj]. rewrite Hj. simpl. eauto.
Qed.

Lemma col_of_lt codes x j : col_of codes x = Some j -> j < Z.of_nat (length codes).
Proof.
  intros H. apply col_of_spec in H as [H0 H]. assert (Z.to_nat j < length codes)%nat by (apply nth_error_Some; congruence). lia.
Qed.

(* ---------- sum_duplicates ---------- *)
Lemma cell_insert_add j row j' : cell (insert_add j row) j' = cell row j' + (if j =? j' then 1 else 0).
Proof.
  induction row as [|[c n] t IH]; simpl; [lia|].
  destruct (j <? c) eqn:E1; simpl; [lia|].
  destruct (j =? c) eqn:E2; simpl.
  - apply Z.eqb_eq in E2. subst c. destruct (j =? j'); lia.
  - rewrite IH. lia.
Qed.

Lemma cell_sum_dups idx j : cell (sum_dups idx) j = countZ j idx.
Proof.
  unfold sum_dups, countZ. induction idx as [|i t IH]; simpl; [reflexivity|].
  rewrite cell_insert_add, IH. destruct (Z.eq_dec i j) as [->|Hne].
  - rewrite Z.eqb_refl. lia.
  - replace (i =? j) with false by (symmetry; apply Z.eqb_neq; exact Hne). lia.
Qed.

Lemma In_insert_add_fst j row c : In c (map fst (insert_add j row)) -> c = j \/ In c (map fst row).
Proof.
  induction row as [|[c' n] t IH]; simpl; [intuition|].
  destruct (j <? c'); simpl; [intuition|].
  destruct (j =? c') eqn:E; simpl; [intuition|].
  intros [H|H]; [auto|]. apply IH in H. intuition.
Qed.

Lemma insert_add_canonical j row : canonical_row row -> canonical_row (insert_add j row).
Proof.
  intros [Hs Hp]. induction row as [|[c n] t IH]; simpl.
  - split; repeat constructor.
  - inversion Hs as [|? ? Hs' Hall]; subst. inversion Hp as [|? ? Hn Hp']; subst. simpl in Hn.
    destruct (j <? c) eqn:E1.
    + apply Z.ltb_lt in E1. split; simpl.
      * constructor; [exact Hs|]. constructor; [exact E1|]. eapply Forall_impl; [|exact Hall]. intros; lia.
      * constructor; [simpl; lia | exact Hp].
    + destruct (j =? c) eqn:E2.
      * split; simpl; [exact Hs|]. constructor; [simpl; lia | exact Hp'].
      * destruct (IH Hs' Hp') as [IH1 IH2]. apply Z.ltb_ge in E1. apply Z.eqb_neq in E2. split; simpl.
        -- constructor; [exact IH1|]. apply Forall_forall. intros y Hy. apply In_insert_add_fst in Hy as [->|Hy]; [lia|].
           eapply Forall_forall in Hall; eauto.
        -- constructor; [exact Hn | exact IH2].
Qed.

Lemma sum_dups_canonical idx : canonical_row (sum_dups idx).
Proof.
  unfold sum_dups. induction idx as [|i t IH]; simpl; [split; constructor | apply insert_add_canonical; exact IH].
Qed.

(* ---------- rows of the matrices ---------- *)
Definition row_indices (codes row : list Z) : list Z :=
  flat_map (fun x => match col_of codes x with Some j => [j] | None => [] end) row.

Lemma count_row_indices codes row x j :
  col_of codes x = Some j -> countZ j (row_indices codes row) = countZ x row.
Proof.
  intros Hx. unfold countZ, row_indices. induction row as [|y t IH]; [reflexivity|].
  simpl flat_map. rewrite count_occ_app. simpl count_occ at 3.
  destruct (Z.eq_dec y x) as [->|Hne].
  - rewrite Hx. simpl. destruct (Z.eq_dec j j); [|congruence]. lia.
  - destruct (col_of codes y) as [j'|] eqn:Hy; simpl.
    + destruct (Z.eq_dec j' j) as [->|_]; [exfalso; apply Hne; eapply col_of_inj; eauto | lia].
    + lia.
Qed.

Lemma count_row_indices_none codes row j :
  (forall x, col_of codes x <> Some j) -> countZ j (row_indices codes row) = 0.
Proof.
  intros Hno. unfold countZ, row_indices. induction row as [|y t IH]; [reflexivity|].
  simpl flat_map. rewrite count_occ_app. destruct (col_of codes y) as [j'|] eqn:Hy; simpl.
  - destruct (Z.eq_dec j' j) as [->|_]; [exfalso; eapply Hno; eauto | lia].
  - lia.
Qed.

(* the transform row holds, at the column of code x, the number of occurrences of x in the encoding *)
Theorem matrix_transform_row_cell codes row x j :
  col_of codes x = Some j -> cell (matrix_transform_row codes row) j = countZ x row.
Proof. intros H. unfold matrix_transform_row. rewrite cell_sum_dups. apply count_row_indices; exact H. Qed.

Theorem matrix_transform_row_other codes row j :
  (forall x, col_of codes x <> Some j) -> cell (matrix_transform_row codes row) j = 0.
Proof. intros H. unfold matrix_transform_row. rewrite cell_sum_dups. apply count_row_indices_none; exact H. Qed.

Lemma matrix_fit_row_ok codes row :
  Forall (fun x => In x codes) row -> matrix_fit_row codes row = Ok (matrix_transform_row codes row).
Proof.
  intros H. unfold matrix_fit_row, matrix_transform_row.
  assert (E : mapM (fun x => match col_of codes x with Some j => Ok j | None => Err 12 end) row
              = Ok (flat_map (fun x => match col_of codes x with Some j => [j] | None => [] end) row)).
  { induction H as [|y t Hy _ IH]; [reflexivity|]. simpl.
    destruct (col_of_In codes y Hy) as [j Hj]. rewrite Hj. simpl. rewrite IH. reflexivity. }
  rewrite E. reflexivity.
Qed.

(* fit_transform's matrix is transform's matrix of the training encodings *)
Theorem matrix_fit_ok enc : matrix_fit enc = Ok (matrix_transform (unique_codes enc) enc).
Proof.
  unfold matrix_fit, matrix_transform.
  rewrite (mapM_ok_map _ (matrix_transform_row (unique_codes enc))); [reflexivity|].
  intros row Hrow. apply matrix_fit_row_ok. apply Forall_forall. intros x Hx.
  apply unique_codes_In. apply in_concat. eauto.
Qed.
