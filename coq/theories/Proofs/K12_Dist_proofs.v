(* K12 — theorems about the distance models over the real numbers (carrier R_ops). *)
From Coq Require Import Reals Lra List Psatz ZArith Bool.
From Coq Require Import Sorted.
From VZ Require Import Model.K11_SparseVec Model.K12_Dist Proofs.K12_RealFacts Proofs.K11_SparseVec_proofs.
Import ListNotations.
Open Scope R_scope.

Definition R_eqz (x : R) : bool := if Req_EM_T x 0 then true else false.
Definition R_ltb (x y : R) : bool := if Rlt_dec x y then true else false.
Definition R_ops (eps : R) : Ops R :=
  mkOps R 0 1 (1 / 2) eps Rplus Rminus Rmult Rdiv Ropp sqrt Rabs ln R_eqz R_ltb INR.

Lemma R_eqz_true : forall x, R_eqz x = true <-> x = 0.
Proof. intros. unfold R_eqz. destruct (Req_EM_T x 0); split; intros; auto; try discriminate; contradiction. Qed.
Lemma R_eqz_false : forall x, x <> 0 -> R_eqz x = false.
Proof. intros. unfold R_eqz. destruct (Req_EM_T x 0); [contradiction|reflexivity]. Qed.
Lemma R_ltb_true : forall x y, x < y -> R_ltb x y = true.
Proof. intros. unfold R_ltb. destruct (Rlt_dec x y); [reflexivity|contradiction]. Qed.
Lemma R_ltb_false : forall x y, ~ x < y -> R_ltb x y = false.
Proof. intros. unfold R_ltb. destruct (Rlt_dec x y); [contradiction|reflexivity]. Qed.

(* a non-negative vector with positive total mass *)
Definition nonnegv (xs : list R) : Prop := Forall (fun x => 0 <= x) xs.
Definition valid (xs : list R) : Prop := nonnegv xs /\ 0 < sumR xs.
Definition scale (c : R) (xs : list R) : list R := map (fun x => c * x) xs.

Lemma sumR_scale : forall c xs, sumR (scale c xs) = c * sumR xs.
Proof. intros. apply sumR_scal. Qed.
Lemma valid_scale : forall c xs, 0 < c -> valid xs -> valid (scale c xs).
Proof.
  intros c xs Hc [Hn Hs]. split.
  - unfold nonnegv, scale. rewrite Forall_map. eapply Forall_impl; [|exact Hn]. intros; simpl in *. nra.
  - rewrite sumR_scale. nra.
Qed.

Section WithEps.
  Variable eps : R.
  Notation O := (R_ops eps).

  Lemma sum_list_R : forall xs, sum_list R O xs = sumR xs.
  Proof. intros. unfold sum_list. simpl. rewrite fold_left_Rplus. lra. Qed.

  Definition nrm (xs : list R) : list R := map (fun x => x / sumR xs) xs.

  Lemma normalise_R : forall xs, normalise R O xs = nrm xs.
  Proof. intros. unfold normalise, nrm. rewrite sum_list_R. reflexivity. Qed.

  Lemma nrm_length : forall xs, length (nrm xs) = length xs.
  Proof. intros. unfold nrm. apply map_length. Qed.

  Lemma nrm_scale : forall c xs, c <> 0 -> sumR xs <> 0 -> nrm (scale c xs) = nrm xs.
  Proof.
    intros c xs Hc Hs. unfold nrm. rewrite sumR_scale. unfold scale. rewrite map_map.
    apply map_ext. intros x. field. split; assumption.
  Qed.

  Lemma sumR_nrm : forall xs, sumR xs <> 0 -> sumR (nrm xs) = 1.
  Proof. intros. unfold nrm. rewrite sumR_div. field. assumption. Qed.

  Lemma nrm_nonneg : forall xs, valid xs -> nonnegv (nrm xs).
  Proof.
    intros xs [Hn Hs]. unfold nonnegv, nrm. rewrite Forall_map. eapply Forall_impl; [|exact Hn].
    intros x Hx. simpl in *. apply Rmult_le_pos; [assumption|]. left. apply Rinv_0_lt_compat. assumption.
  Qed.

  (* ---------------- total variation *)
  Lemma total_variation_R : forall xs ys, total_variation R O xs ys = 1 / 2 * d1 (nrm xs) (nrm ys).
  Proof.
    intros. unfold total_variation. rewrite !normalise_R. simpl.
    rewrite (fold_left_sum _ (fun p => 1 / 2 * Rabs (fst p - snd p))).
    unfold d1. rewrite map2_combine. rewrite <- sumR_scal. rewrite map_map. lra.
  Qed.

  Lemma tv_nonneg : forall xs ys, 0 <= total_variation R O xs ys.
  Proof. intros. rewrite total_variation_R. pose proof (d1_nonneg (nrm xs) (nrm ys)). lra. Qed.

  Lemma tv_sym : forall xs ys, total_variation R O xs ys = total_variation R O ys xs.
  Proof. intros. rewrite !total_variation_R, d1_sym. reflexivity. Qed.

  Lemma tv_zero_prop : forall c xs, 0 < c -> valid xs -> total_variation R O xs (scale c xs) = 0.
  Proof.
    intros c xs Hc [Hn Hs]. rewrite total_variation_R, nrm_scale by lra. rewrite d1_refl. lra.
  Qed.

  Lemma d1_le_sum : forall a b, nonnegv a -> nonnegv b -> length a = length b -> d1 a b <= sumR a + sumR b.
  Proof.
    unfold d1. induction a; destruct b; simpl; intros Ha Hb Hl; try discriminate; try lra.
    inversion Ha; subst. inversion Hb; subst. specialize (IHa b H2 H4 ltac:(lia)).
    assert (Rabs (a - r) <= a + r) by (unfold Rabs; destruct (Rcase_abs (a - r)); lra). lra.
  Qed.

  Lemma tv_range : forall xs ys, valid xs -> valid ys -> length xs = length ys ->
    0 <= total_variation R O xs ys <= 1.
  Proof.
    intros xs ys Hx Hy Hl. split; [apply tv_nonneg|]. rewrite total_variation_R.
    pose proof (d1_le_sum (nrm xs) (nrm ys) (nrm_nonneg _ Hx) (nrm_nonneg _ Hy)
                  ltac:(rewrite !nrm_length; assumption)) as H.
    destruct Hx as [_ Hx], Hy as [_ Hy].
    rewrite !sumR_nrm in H by lra. lra.
  Qed.

  Lemma tv_triangle : forall xs ys zs, length xs = length ys -> length ys = length zs ->
    total_variation R O xs zs <= total_variation R O xs ys + total_variation R O ys zs.
  Proof.
    intros. rewrite !total_variation_R.
    pose proof (d1_triangle (nrm xs) (nrm ys) (nrm zs) ltac:(rewrite !nrm_length; assumption)
                  ltac:(rewrite !nrm_length; assumption)). lra.
  Qed.

  (* ---------------- kantorovich1d *)
  Definition cdfR (xs : list R) : list R := cumsum R O (nrm xs).

  Lemma cdf_R : forall xs, cdf R O xs = cdfR xs.
  Proof. intros. unfold cdf, cdfR. rewrite normalise_R. reflexivity. Qed.

  Lemma cumsum_from_length : forall l p, length (cumsum_from R O p l) = length l.
  Proof. induction l; intros; simpl; auto. Qed.
  Lemma cdfR_length : forall xs, length (cdfR xs) = length xs.
  Proof.
    intros. unfold cdfR, cumsum. rewrite <- (nrm_length xs). destruct (nrm xs); simpl; auto.
    rewrite cumsum_from_length. reflexivity.
  Qed.
  Lemma cdfR_scale : forall c xs, 0 < c -> valid xs -> cdfR (scale c xs) = cdfR xs.
  Proof. intros c xs Hc [_ Hs]. unfold cdfR. rewrite nrm_scale by lra. reflexivity. Qed.

  Lemma k1_R : forall xs ys, kantorovich1d_p1 R O xs ys = d1 (cdfR xs) (cdfR ys).
  Proof.
    intros. unfold kantorovich1d_p1. rewrite !cdf_R. simpl.
    rewrite (fold_left_sum _ (fun p => Rabs (fst p - snd p))). unfold d1. rewrite map2_combine. lra.
  Qed.
  Lemma k2_R : forall xs ys, kantorovich1d_p2 R O xs ys = d2 (cdfR xs) (cdfR ys).
  Proof.
    intros. unfold kantorovich1d_p2. rewrite !cdf_R. simpl.
    rewrite (fold_left_sum _ (fun p => (fst p - snd p) * (fst p - snd p))). unfold d2. rewrite map2_combine.
    f_equal. lra.
  Qed.

  Lemma k1_nonneg : forall xs ys, 0 <= kantorovich1d_p1 R O xs ys.
  Proof. intros. rewrite k1_R. apply d1_nonneg. Qed.
  Lemma k1_sym : forall xs ys, kantorovich1d_p1 R O xs ys = kantorovich1d_p1 R O ys xs.
  Proof. intros. rewrite !k1_R. apply d1_sym. Qed.
  Lemma k1_zero_prop : forall c xs, 0 < c -> valid xs -> kantorovich1d_p1 R O xs (scale c xs) = 0.
  Proof. intros. rewrite k1_R, cdfR_scale by assumption. apply d1_refl. Qed.
  Lemma k1_triangle : forall xs ys zs, length xs = length ys -> length ys = length zs ->
    kantorovich1d_p1 R O xs zs <= kantorovich1d_p1 R O xs ys + kantorovich1d_p1 R O ys zs.
  Proof. intros. rewrite !k1_R. apply d1_triangle; rewrite !cdfR_length; assumption. Qed.

  Lemma k2_nonneg : forall xs ys, 0 <= kantorovich1d_p2 R O xs ys.
  Proof. intros. rewrite k2_R. apply d2_nonneg. Qed.
  Lemma k2_sym : forall xs ys, kantorovich1d_p2 R O xs ys = kantorovich1d_p2 R O ys xs.
  Proof. intros. rewrite !k2_R. apply d2_sym. Qed.
  Lemma k2_zero_prop : forall c xs, 0 < c -> valid xs -> kantorovich1d_p2 R O xs (scale c xs) = 0.
  Proof. intros. rewrite k2_R, cdfR_scale by assumption. apply d2_refl. Qed.
  Lemma k2_triangle : forall xs ys zs, length xs = length ys -> length ys = length zs ->
    kantorovich1d_p2 R O xs zs <= kantorovich1d_p2 R O xs ys + kantorovich1d_p2 R O ys zs.
  Proof. intros. rewrite !k2_R. apply d2_triangle; rewrite !cdfR_length; assumption. Qed.

  (* ---------------- hellinger *)
  Lemma map2_map : forall (A B C D E : Type) (h : C -> D -> E) (f : A -> C) (g : B -> D) xs ys,
    map2 h (map f xs) (map g ys) = map2 (fun x y => h (f x) (g y)) xs ys.
  Proof. induction xs; destruct ys; simpl; auto. f_equal. apply IHxs. Qed.

  Lemma map2_ext_in : forall (A B C : Type) (f g : A -> B -> C) xs ys,
    (forall x y, In x xs -> In y ys -> f x y = g x y) -> map2 f xs ys = map2 g xs ys.
  Proof.
    induction xs; destruct ys; simpl; intros; auto. f_equal.
    - apply H; left; reflexivity.
    - apply IHxs. intros. apply H; right; assumption.
  Qed.

  Lemma map2_sym : forall (A C : Type) (f : A -> A -> C) xs ys,
    (forall x y, f x y = f y x) -> map2 f xs ys = map2 f ys xs.
  Proof. induction xs; destruct ys; simpl; intros; auto. rewrite H. f_equal. apply IHxs. assumption. Qed.

  Definition bcsum (xs ys : list R) : R := sumR (map2 (fun x y => sqrt (x * y)) xs ys).

  Lemma hell_loop_R : forall xs ys r lx ly, length xs = length ys ->
    hell_loop R O xs ys r lx ly = (r + bcsum xs ys, lx + sumR xs, ly + sumR ys).
  Proof.
    unfold bcsum. induction xs; destruct ys; simpl; intros; try discriminate.
    - f_equal; [f_equal|]; lra.
    - rewrite IHxs by lia. f_equal; [f_equal|]; lra.
  Qed.

  Definition bc (xs ys : list R) : R := bcsum xs ys / sqrt (sumR xs * sumR ys).

  Lemma hellinger_unfold : forall xs ys, length xs = length ys ->
    hellinger R O xs ys =
    if R_eqz (sumR xs) && R_eqz (sumR ys) then 0
    else if R_eqz (sumR xs) || R_eqz (sumR ys) then 1
    else sqrt (if R_ltb (1 - bc xs ys) 0 then 0 else 1 - bc xs ys).
  Proof.
    intros. unfold hellinger. simpl. rewrite hell_loop_R by assumption.
    rewrite !Rplus_0_l. unfold pymax, bc. simpl. reflexivity.
  Qed.

  Lemma hellinger_nonneg : forall xs ys, length xs = length ys -> 0 <= hellinger R O xs ys.
  Proof.
    intros. rewrite hellinger_unfold by assumption.
    destruct (R_eqz (sumR xs) && R_eqz (sumR ys)); [lra|].
    destruct (R_eqz (sumR xs) || R_eqz (sumR ys)); [lra|]. apply sqrt_pos.
  Qed.

  Lemma bcsum_sym : forall xs ys, bcsum xs ys = bcsum ys xs.
  Proof. intros. unfold bcsum. f_equal. apply map2_sym. intros. f_equal. ring. Qed.

  Lemma hellinger_sym : forall xs ys, length xs = length ys -> hellinger R O xs ys = hellinger R O ys xs.
  Proof.
    intros. rewrite !hellinger_unfold by auto. unfold bc.
    rewrite (bcsum_sym ys xs), (Rmult_comm (sumR ys)), (andb_comm (R_eqz (sumR ys))), (orb_comm (R_eqz (sumR ys))).
    reflexivity.
  Qed.

  (* the model clamps the radicand: whatever value the (rounded) computation of 1 - BC produced, the argument
     of the square root is >= 0 *)
  Lemma pymax_clamp : forall r, 0 <= pymax R O r 0.
  Proof.
    intros. unfold pymax. simpl. unfold R_ltb. destruct (Rlt_dec r 0); lra.
  Qed.

  Definition nsq (xs : list R) : list R := map (fun x => sqrt (x / sumR xs)) xs.

  Lemma nsq_length : forall xs, length (nsq xs) = length xs.
  Proof. intros. apply map_length. Qed.

  Lemma nsq_scale : forall c xs, 0 < c -> valid xs -> nsq (scale c xs) = nsq xs.
  Proof.
    intros c xs Hc [_ Hs]. unfold nsq. rewrite sumR_scale. unfold scale. rewrite map_map.
    apply map_ext. intros x. f_equal. field. split; lra.
  Qed.

  Lemma sumsq_expand : forall a b, length a = length b ->
    sumR (map2 (fun x y => (x - y) * (x - y)) a b)
    = sumR (map (fun x => x * x) a) + sumR (map (fun x => x * x) b) - 2 * sumR (map2 Rmult a b).
  Proof.
    induction a; destruct b; simpl; intros; try discriminate. lra. rewrite IHa by lia. ring.
  Qed.

  Lemma sumsq_nsq : forall xs, valid xs -> sumR (map (fun x => x * x) (nsq xs)) = 1.
  Proof.
    intros xs [Hn Hs]. unfold nsq. rewrite map_map.
    rewrite (sumR_map_ext_in _ _ (fun x => x / sumR xs)).
    - rewrite sumR_div. field. lra.
    - intros x Hx. apply sqrt_sqrt. unfold nonnegv in Hn. rewrite Forall_forall in Hn. specialize (Hn _ Hx).
      apply Rmult_le_pos; [assumption|]. left. apply Rinv_0_lt_compat. assumption.
  Qed.

  Lemma dot_nsq : forall xs ys, valid xs -> valid ys -> sumR (map2 Rmult (nsq xs) (nsq ys)) = bc xs ys.
  Proof.
    intros xs ys [Hnx Hsx] [Hny Hsy]. unfold nsq, bc, bcsum. rewrite map2_map.
    assert (Hp : 0 < sumR xs * sumR ys) by (apply Rmult_lt_0_compat; assumption).
    rewrite (map2_ext_in _ _ _ _ (fun x y => sqrt (x * y) / sqrt (sumR xs * sumR ys))).
    - rewrite map2_combine. rewrite (map2_combine _ _ _ (fun x y => sqrt (x * y))).
      rewrite <- (sumR_div (sqrt (sumR xs * sumR ys))). rewrite map_map. reflexivity.
    - intros x y Hx Hy. unfold nonnegv in *. rewrite Forall_forall in Hnx, Hny.
      specialize (Hnx _ Hx). specialize (Hny _ Hy).
      rewrite <- sqrt_mult_alt by (apply Rmult_le_pos; [assumption|left; apply Rinv_0_lt_compat; assumption]).
      rewrite <- sqrt_div_alt by assumption. f_equal. field. split; lra.
  Qed.

  Lemma one_minus_bc : forall xs ys, valid xs -> valid ys -> length xs = length ys ->
    1 - bc xs ys = 1 / 2 * sumR (map2 (fun x y => (x - y) * (x - y)) (nsq xs) (nsq ys)).
  Proof.
    intros xs ys Hx Hy Hl. rewrite sumsq_expand by (rewrite !nsq_length; assumption).
    rewrite !sumsq_nsq, dot_nsq by assumption. lra.
  Qed.

  Lemma bc_nonneg : forall xs ys, valid xs -> valid ys -> 0 <= bc xs ys.
  Proof.
    intros xs ys [_ Hx] [_ Hy]. unfold bc, bcsum. apply Rmult_le_pos.
    - apply sumR_nonneg. rewrite map2_combine, Forall_map. apply Forall_forall. intros. apply sqrt_pos.
    - left. apply Rinv_0_lt_compat. apply sqrt_lt_R0. apply Rmult_lt_0_compat; assumption.
  Qed.

  Lemma hellinger_valid : forall xs ys, valid xs -> valid ys -> length xs = length ys ->
    hellinger R O xs ys = sqrt (1 - bc xs ys) /\ 0 <= 1 - bc xs ys <= 1.
  Proof.
    intros xs ys Hx Hy Hl.
    assert (H0 : 0 <= 1 - bc xs ys).
    { rewrite one_minus_bc by assumption. pose proof (sumsq_nonneg (nsq xs) (nsq ys)). lra. }
    pose proof (bc_nonneg xs ys Hx Hy).
    split; [|lra].
    rewrite hellinger_unfold by assumption. destruct Hx as [_ Hx], Hy as [_ Hy].
    rewrite (R_eqz_false (sumR xs)), (R_eqz_false (sumR ys)) by lra. simpl.
    rewrite R_ltb_false by lra. reflexivity.
  Qed.

  Lemma hellinger_repr : forall xs ys, valid xs -> valid ys -> length xs = length ys ->
    hellinger R O xs ys = sqrt (1 / 2) * d2 (nsq xs) (nsq ys).
  Proof.
    intros xs ys Hx Hy Hl. destruct (hellinger_valid xs ys Hx Hy Hl) as [-> _].
    rewrite one_minus_bc by assumption. unfold d2. apply sqrt_mult_alt. lra.
  Qed.

  Lemma hellinger_range : forall xs ys, valid xs -> valid ys -> length xs = length ys ->
    0 <= hellinger R O xs ys <= 1.
  Proof.
    intros xs ys Hx Hy Hl. destruct (hellinger_valid xs ys Hx Hy Hl) as [-> [H0 H1]]. split.
    - apply sqrt_pos.
    - apply Rle_trans with (sqrt 1); [apply sqrt_le_1_alt; assumption|rewrite sqrt_1; lra].
  Qed.

  Lemma hellinger_zero_prop : forall c xs, 0 < c -> valid xs -> hellinger R O xs (scale c xs) = 0.
  Proof.
    intros c xs Hc Hx. rewrite hellinger_repr; auto.
    - rewrite nsq_scale by assumption. rewrite d2_refl. lra.
    - apply valid_scale; assumption.
    - unfold scale. rewrite map_length. reflexivity.
  Qed.

  Lemma hellinger_triangle : forall xs ys zs, valid xs -> valid ys -> valid zs ->
    length xs = length ys -> length ys = length zs ->
    hellinger R O xs zs <= hellinger R O xs ys + hellinger R O ys zs.
  Proof.
    intros xs ys zs Hx Hy Hz H1 H2. rewrite !hellinger_repr by (auto; lia).
    pose proof (d2_triangle (nsq xs) (nsq ys) (nsq zs) ltac:(rewrite !nsq_length; assumption)
                  ltac:(rewrite !nsq_length; assumption)).
    pose proof (sqrt_pos (1 / 2)). nra.
  Qed.

  (* ---------------- Jensen-Shannon and symmetric KL (relative smoothing) *)
  Definition spdf (xs : list R) : list R := smooth_pdf R O xs.

  Lemma spdf_valid : forall xs, valid xs ->
    spdf xs = map (fun x => (x + eps * sumR xs) / (sumR xs + eps * sumR xs * INR (length xs))) xs.
  Proof.
    intros xs [_ Hs]. unfold spdf, smooth_pdf. simpl. rewrite sum_list_R. rewrite R_ltb_true by assumption. reflexivity.
  Qed.

  Lemma spdf_length : forall xs, length (spdf xs) = length xs.
  Proof. intros. unfold spdf, smooth_pdf. apply map_length. Qed.

  Lemma map2_sum_nonneg : forall (P : R -> Prop) (f : R -> R -> R) a b,
    Forall P a -> Forall P b -> (forall x y, P x -> P y -> 0 <= f x y) -> 0 <= sumR (map2 f a b).
  Proof.
    induction a; destruct b; simpl; intros Ha Hb Hf; try lra.
    inversion Ha; subst. inversion Hb; subst. specialize (IHa b H2 H4 Hf). specialize (Hf a r H1 H3). lra.
  Qed.

  Lemma map2_sum_zero : forall (f : R -> R -> R) a, (forall x, f x x = 0) -> sumR (map2 f a a) = 0.
  Proof. induction a; simpl; intros; auto. rewrite H, IHa by assumption. lra. Qed.

  Definition jsterm (a b : R) : R :=
    1 / 2 * (a * ln (a / (1 / 2 * (a + b))) + b * ln (b / (1 / 2 * (a + b)))).
  Definition klterm (a b : R) : R := a * ln (a / b) + b * ln (b / a).

  Lemma js_R : forall xs ys, jensen_shannon_divergence R O xs ys = sumR (map2 jsterm (spdf xs) (spdf ys)).
  Proof.
    intros. unfold jensen_shannon_divergence. fold (spdf xs). fold (spdf ys). simpl.
    rewrite (fold_left_sum _ (fun p => jsterm (fst p) (snd p))). rewrite map2_combine. lra.
  Qed.
  Lemma skl_R : forall xs ys, symmetric_kl_divergence R O xs ys = sumR (map2 klterm (spdf xs) (spdf ys)).
  Proof.
    intros. unfold symmetric_kl_divergence. fold (spdf xs). fold (spdf ys). simpl.
    rewrite (fold_left_sum _ (fun p => klterm (fst p) (snd p))). rewrite map2_combine. lra.
  Qed.

  Lemma jsterm_nonneg : forall a b, 0 < a -> 0 < b -> 0 <= jsterm a b.
  Proof.
    intros a b Ha Hb. unfold jsterm.
    assert (Hm : 0 < 1 / 2 * (a + b)) by lra.
    pose proof (xlnx_lower a _ Ha Hm). pose proof (xlnx_lower b _ Hb Hm). lra.
  Qed.
  Lemma jsterm_sym : forall a b, jsterm a b = jsterm b a.
  Proof. intros. unfold jsterm. rewrite (Rplus_comm b a). lra. Qed.
  Lemma jsterm_refl : forall a, jsterm a a = 0.
  Proof.
    intros. unfold jsterm. destruct (Req_dec a 0) as [->|Ha]; [lra|].
    replace (a / (1 / 2 * (a + a))) with 1 by (field; lra). rewrite ln_1. lra.
  Qed.
  Lemma klterm_nonneg : forall a b, 0 < a -> 0 < b -> 0 <= klterm a b.
  Proof.
    intros a b Ha Hb. unfold klterm.
    pose proof (xlnx_lower a b Ha Hb). pose proof (xlnx_lower b a Hb Ha). lra.
  Qed.
  Lemma klterm_sym : forall a b, klterm a b = klterm b a.
  Proof. intros. unfold klterm. lra. Qed.
  Lemma klterm_refl : forall a, klterm a a = 0.
  Proof.
    intros. unfold klterm. destruct (Req_dec a 0) as [->|Ha]; [lra|].
    replace (a / a) with 1 by (field; lra). rewrite ln_1. lra.
  Qed.

  Lemma js_sym : forall xs ys, jensen_shannon_divergence R O xs ys = jensen_shannon_divergence R O ys xs.
  Proof. intros. rewrite !js_R. f_equal. apply map2_sym. apply jsterm_sym. Qed.
  Lemma js_zero_eq : forall xs, jensen_shannon_divergence R O xs xs = 0.
  Proof. intros. rewrite js_R. apply map2_sum_zero. apply jsterm_refl. Qed.
  Lemma skl_sym : forall xs ys, symmetric_kl_divergence R O xs ys = symmetric_kl_divergence R O ys xs.
  Proof. intros. rewrite !skl_R. f_equal. apply map2_sym. apply klterm_sym. Qed.
  Lemma skl_zero_eq : forall xs, symmetric_kl_divergence R O xs xs = 0.
  Proof. intros. rewrite skl_R. apply map2_sum_zero. apply klterm_refl. Qed.

  Section EpsPos.
    Hypothesis eps_pos : 0 < eps.

    Lemma spdf_pos : forall xs, valid xs -> Forall (fun p => 0 < p) (spdf xs).
    Proof.
      intros xs Hv. rewrite spdf_valid by assumption. destruct Hv as [Hn Hs].
      rewrite Forall_map. eapply Forall_impl; [|exact Hn]. intros x Hx. simpl in Hx.
      assert (0 <= INR (length xs)) by apply pos_INR.
      assert (0 < eps * sumR xs) by (apply Rmult_lt_0_compat; assumption).
      apply Rdiv_lt_0_compat; [lra|]. assert (0 <= eps * sumR xs * INR (length xs)) by (apply Rmult_le_pos; lra). lra.
    Qed.

    Lemma spdf_scale : forall c xs, 0 < c -> valid xs -> spdf (scale c xs) = spdf xs.
    Proof.
      intros c xs Hc Hv. rewrite (spdf_valid xs Hv), (spdf_valid _ (valid_scale c xs Hc Hv)).
      destruct Hv as [Hn Hs]. rewrite sumR_scale. unfold scale. rewrite map_length, map_map.
      apply map_ext. intros x.
      assert (0 <= INR (length xs)) by apply pos_INR.
      assert (0 < eps * sumR xs) by (apply Rmult_lt_0_compat; assumption).
      assert (0 <= eps * sumR xs * INR (length xs)) by (apply Rmult_le_pos; lra).
      field. split; [lra|]. assert (0 < c * sumR xs + eps * (c * sumR xs) * INR (length xs)); [|lra].
      replace (c * sumR xs + eps * (c * sumR xs) * INR (length xs))
        with (c * (sumR xs + eps * sumR xs * INR (length xs))) by ring.
      apply Rmult_lt_0_compat; lra.
    Qed.

    Lemma js_nonneg : forall xs ys, valid xs -> valid ys -> 0 <= jensen_shannon_divergence R O xs ys.
    Proof.
      intros. rewrite js_R. apply (map2_sum_nonneg (fun p => 0 < p)); try apply spdf_pos; auto.
      apply jsterm_nonneg.
    Qed.
    Lemma skl_nonneg : forall xs ys, valid xs -> valid ys -> 0 <= symmetric_kl_divergence R O xs ys.
    Proof.
      intros. rewrite skl_R. apply (map2_sum_nonneg (fun p => 0 < p)); try apply spdf_pos; auto.
      apply klterm_nonneg.
    Qed.
    Lemma js_zero_prop : forall c xs, 0 < c -> valid xs -> jensen_shannon_divergence R O xs (scale c xs) = 0.
    Proof. intros. rewrite js_R, spdf_scale by assumption. apply map2_sum_zero. apply jsterm_refl. Qed.
    Lemma skl_zero_prop : forall c xs, 0 < c -> valid xs -> symmetric_kl_divergence R O xs (scale c xs) = 0.
    Proof. intros. rewrite skl_R, spdf_scale by assumption. apply map2_sum_zero. apply klterm_refl. Qed.
  End EpsPos.
End WithEps.


Lemma map2_diag : forall (A C : Type) (f : A -> A -> C) l, map2 f l l = map (fun x => f x x) l.
Proof. induction l; simpl; auto. f_equal. exact IHl. Qed.

Lemma combine_map_same : forall (A B C : Type) (f : A -> B) (g : A -> C) l,
  combine (map f l) (map g l) = map (fun x => (f x, g x)) l.
Proof. induction l; simpl; auto. f_equal. exact IHl. Qed.

(* ------------------------------------------------------------------ sparse = dense *)
Notation lookupR := (lookup R 0).
Notation denseR := (dense R 0).
Notation sparse_okR := (sparse_ok R).

(* the dense vector of dimension n a sparse encoding denotes *)
Definition to_dense (n : nat) (ind : list Z) (data : list R) : list R :=
  map (fun k => denseR ind data (Z.of_nat k)) (seq 0 n).
Definition in_range (n : nat) (ind : list Z) : Prop := Forall (fun j => (0 <= j < Z.of_nat n)%Z) ind.

Lemma to_dense_length : forall n ind data, length (to_dense n ind data) = n.
Proof. intros. unfold to_dense. rewrite map_length, seq_length. reflexivity. Qed.

Lemma sum_replace_one : forall (g : nat -> R) (n i : nat) (a : R), (i < n)%nat ->
  sumR (map (fun k => if (i =? k)%nat then a else g k) (seq 0 n)) = a + sumR (map g (seq 0 n)) - g i.
Proof.
  induction n; intros i a Hi; [lia|].
  rewrite seq_S, !map_app, !sumR_app. simpl.
  destruct (Nat.eq_dec i n) as [->|Hne].
  - rewrite Nat.eqb_refl.
    rewrite (sumR_map_ext_in _ (fun k => if (n =? k)%nat then a else g k) g).
    + lra.
    + intros k Hk. apply in_seq in Hk. destruct (n =? k)%nat eqn:E; [apply Nat.eqb_eq in E; lia|reflexivity].
  - rewrite IHn by lia. destruct (i =? n)%nat eqn:E; [apply Nat.eqb_eq in E; lia|]. lra.
Qed.

Lemma sum_support : forall (f : R -> R), f 0 = 0 ->
  forall (M : list (Z * R)) (n : nat), incrP R M -> in_range n (map fst M) ->
  sumR (map (fun p => f (snd p)) M) = sumR (map (fun k => f (lookupR (Z.of_nat k) M)) (seq 0 n)).
Proof.
  intros f Hf. induction M as [|[j v] t IH]; intros n Hs Hr.
  - simpl. rewrite (sumR_map_ext_in _ _ (fun _ => 0)) by (intros; apply Hf).
    symmetry. apply sumR_zero. rewrite Forall_map. apply Forall_forall. auto.
  - simpl map at 1. simpl sumR.
    pose proof (incr_tail _ _ Hs) as Ht. pose proof (incr_head _ _ Hs) as Hh. inversion Hr; subst. simpl in H1.
    rewrite (IH n Ht H2).
    rewrite (sumR_map_ext_in _ (fun k => f (lookupR (Z.of_nat k) ((j, v) :: t)))
               (fun k => if (Z.to_nat j =? k)%nat then f v else f (lookupR (Z.of_nat k) t))).
    + rewrite sum_replace_one by lia. rewrite Z2Nat.id by lia.
      rewrite (lookup_gt R 0 j t j Hh) by lia. rewrite Hf. lra.
    + intros k Hk. simpl. destruct (j =? Z.of_nat k)%Z eqn:E.
      * apply Z.eqb_eq in E. subst j. rewrite Nat2Z.id, Nat.eqb_refl. reflexivity.
      * apply Z.eqb_neq in E. destruct (Z.to_nat j =? k)%nat eqn:E2; [|reflexivity].
        apply Nat.eqb_eq in E2. subst k. rewrite Z2Nat.id in E by lia. contradiction.
Qed.

Lemma sparse_ok_incrP_R : forall ind data, sparse_okR ind data -> incrP R (combine ind data).
Proof. intros ind data [H1 H2]. unfold incrP. rewrite map_fst_combine; auto. Qed.

Lemma sum_support_enc : forall (f : R -> R) n ind data, f 0 = 0 -> sparse_okR ind data -> in_range n ind ->
  sumR (map f data) = sumR (map f (to_dense n ind data)).
Proof.
  intros f n ind data Hf Hok Hr. pose proof (sparse_ok_incrP_R _ _ Hok) as Hs. destruct Hok as [Hi Hl].
  unfold to_dense, dense. rewrite map_map.
  rewrite <- (sum_support f Hf (combine ind data) n Hs) by (rewrite map_fst_combine; assumption).
  rewrite <- (map_snd_combine _ _ ind data Hl) at 1. rewrite map_map. reflexivity.
Qed.

Lemma sumR_to_dense : forall n ind data, sparse_okR ind data -> in_range n ind ->
  sumR (to_dense n ind data) = sumR data.
Proof.
  intros. pose proof (sum_support_enc (fun x => x) n ind data eq_refl H H0) as E.
  rewrite !map_id in E. symmetry. exact E.
Qed.

Lemma dense_map : forall (f : R -> R) ind data k, f 0 = 0 ->
  denseR ind (map f data) k = f (denseR ind data k).
Proof.
  intros f ind data k Hf. unfold dense. revert data. induction ind; destruct data; simpl; auto.
  destruct (a =? k)%Z; auto.
Qed.

Lemma dense_notin : forall ind data k, ~ In k ind -> denseR ind data k = 0.
Proof.
  intros ind data k H. unfold dense. revert data. induction ind; destruct data; simpl; auto.
  destruct (a =? k)%Z eqn:E; [apply Z.eqb_eq in E; subst; exfalso; apply H; left; reflexivity|].
  apply IHind. intro. apply H. right. assumption.
Qed.

Lemma dense_nonneg : forall ind data k, nonnegv data -> 0 <= denseR ind data k.
Proof.
  intros ind data k H. unfold dense. revert data H. induction ind; destruct data; simpl; intros; try lra.
  inversion H; subst. destruct (a =? k)%Z; auto.
Qed.

Lemma to_dense_nonneg : forall n ind data, nonnegv data -> nonnegv (to_dense n ind data).
Proof. intros. unfold nonnegv, to_dense. rewrite Forall_map. apply Forall_forall. intros. apply dense_nonneg. assumption. Qed.

Lemma in_range_out : forall n ind k, in_range n ind -> (n <= k)%nat -> ~ In (Z.of_nat k) ind.
Proof. intros n ind k H Hk Hin. unfold in_range in H. rewrite Forall_forall in H. specialize (H _ Hin). lia. Qed.

(* R instance of the K11 theorems (Leibniz equality) *)
Lemma R_sparse_mul : forall ind1 data1 ind2 data2, sparse_okR ind1 data1 -> sparse_okR ind2 data2 ->
  exists ri rd, sparse_mul R 0 Rmult R_eqz ind1 data1 ind2 data2 = Some (ri, rd)
    /\ length ri = length rd /\ incr ri
    /\ (forall k, denseR ri rd k = denseR ind1 data1 k * denseR ind2 data2 k)
    /\ (forall k, In k ri <-> denseR ind1 data1 k * denseR ind2 data2 k <> 0).
Proof.
  intros ind1 data1 ind2 data2 Ha Hb.
  destruct (sparse_mul_correct R 0 Rmult R_eqz (@eq R) (@eq_refl R) (@eq_sym R) (@eq_trans R) R_eqz_true
              Rmult_0_r Rmult_0_l ind1 data1 ind2 data2 Ha Hb) as (ri & rd & A & B & C & _ & D & E).
  exists ri, rd. auto.
Qed.

Lemma R_sparse_diff : forall ind1 data1 ind2 data2, sparse_okR ind1 data1 -> sparse_okR ind2 data2 ->
  exists ri rd, sparse_diff R 0 Rplus Ropp R_eqz ind1 data1 ind2 data2 = Some (ri, rd)
    /\ length ri = length rd /\ incr ri
    /\ (forall k, denseR ri rd k = denseR ind1 data1 k + - denseR ind2 data2 k)
    /\ (forall k, In k ri <-> denseR ind1 data1 k + - denseR ind2 data2 k <> 0).
Proof.
  intros ind1 data1 ind2 data2 Ha Hb.
  assert (Hc : forall x y y' : R, y = y' -> x + y = x + y') by (intros; subst; reflexivity).
  destruct (sparse_diff_correct R 0 Rplus Ropp R_eqz (@eq R) (@eq_refl R) (@eq_sym R) (@eq_trans R) R_eqz_true
              Rplus_0_r Rplus_0_l Ropp_0 Hc ind1 data1 ind2 data2 Ha Hb) as (ri & rd & A & B & C & _ & D & E).
  exists ri, rd. auto.
Qed.

Lemma result_in_range : forall n (ri : list Z) (g : Z -> R),
  (forall k, In k ri -> g k <> 0) -> (forall k, (k < 0 \/ Z.of_nat n <= k)%Z -> g k = 0) -> in_range n ri.
Proof.
  intros n ri g H1 H2. unfold in_range. apply Forall_forall. intros k Hk.
  destruct (Z_lt_dec k 0); [exfalso; apply (H1 k Hk); apply H2; lia|].
  destruct (Z_le_dec (Z.of_nat n) k); [exfalso; apply (H1 k Hk); apply H2; lia|]. lia.
Qed.

Lemma dense_out_of_range : forall n ind data k, in_range n ind -> (k < 0 \/ Z.of_nat n <= k)%Z -> denseR ind data k = 0.
Proof.
  intros. apply dense_notin. intro Hin. unfold in_range in H. rewrite Forall_forall in H. specialize (H _ Hin). lia.
Qed.

Section SparseDense.
  Variable eps : R.
  Notation O := (R_ops eps).

  Lemma sparse_sum_over_support : forall (f : R -> R) n ri rd, f 0 = 0 -> incr ri -> length ri = length rd -> in_range n ri ->
    fold_left (fun acc v => acc + f v) rd 0 = sumR (map (fun k => f (denseR ri rd (Z.of_nat k))) (seq 0 n)).
  Proof.
    intros f n ri rd Hf Hi Hl Hr. rewrite (fold_left_sum _ f). rewrite Rplus_0_l.
    rewrite (sum_support_enc f n ri rd Hf (conj Hi Hl) Hr). unfold to_dense. rewrite map_map. reflexivity.
  Qed.

  Theorem sparse_hellinger_eq_dense : forall n ind1 data1 ind2 data2,
    sparse_okR ind1 data1 -> sparse_okR ind2 data2 -> in_range n ind1 -> in_range n ind2 ->
    nonnegv data1 -> nonnegv data2 ->
    sparse_hellinger R O ind1 data1 ind2 data2
    = Some (hellinger R O (to_dense n ind1 data1) (to_dense n ind2 data2)).
  Proof.
    intros n ind1 data1 ind2 data2 Ha Hb Ra Rb Na Nb.
    set (xs := to_dense n ind1 data1). set (ys := to_dense n ind2 data2).
    assert (HX : sumR data1 = sumR xs) by (symmetry; apply sumR_to_dense; assumption).
    assert (HY : sumR data2 = sumR ys) by (symmetry; apply sumR_to_dense; assumption).
    unfold sparse_hellinger. simpl. rewrite !sum_list_R.
    rewrite (hellinger_unfold eps xs ys) by (unfold xs, ys; rewrite !to_dense_length; reflexivity).
    rewrite HX, HY.
    destruct (R_eqz (sumR xs)) eqn:EX; destruct (R_eqz (sumR ys)) eqn:EY; simpl; try reflexivity.
    assert (Hxs : valid xs).
    { split; [apply to_dense_nonneg; assumption|].
      pose proof (sumR_nonneg xs (to_dense_nonneg n ind1 data1 Na)).
      destruct (Req_dec (sumR xs) 0) as [E|E]; [apply R_eqz_true in E; congruence|lra]. }
    assert (Hys : valid ys).
    { split; [apply to_dense_nonneg; assumption|].
      pose proof (sumR_nonneg ys (to_dense_nonneg n ind2 data2 Nb)).
      destruct (Req_dec (sumR ys) 0) as [E|E]; [apply R_eqz_true in E; congruence|lra]. }
    assert (Ha' : sparse_okR ind1 (map (fun x => x / sumR xs) data1)) by (destruct Ha; split; auto; rewrite map_length; auto).
    assert (Hb' : sparse_okR ind2 (map (fun x => x / sumR ys) data2)) by (destruct Hb; split; auto; rewrite map_length; auto).
    destruct (R_sparse_mul _ _ _ _ Ha' Hb') as (ri & aux & Hs & Hl & Hi & Hd & Hsupp).
    rewrite Hs.
    assert (Hd' : forall k, denseR ri aux k = denseR ind1 data1 k / sumR xs * (denseR ind2 data2 k / sumR ys)).
    { intro k. rewrite Hd. rewrite !(dense_map (fun x => x / _)) by (unfold Rdiv; ring). reflexivity. }
    assert (Hrr : in_range n ri).
    { apply (result_in_range n ri (fun k => denseR ind1 (map (fun x => x / sumR xs) data1) k
                                            * denseR ind2 (map (fun x => x / sumR ys) data2) k)).
      - intros k Hk. apply Hsupp. assumption.
      - intros k Hk. rewrite (dense_out_of_range n ind1 _ k Ra Hk). ring. }
    rewrite (sparse_sum_over_support sqrt n ri aux sqrt_0 Hi Hl Hrr).
    assert (Hbc : sumR (map (fun k => sqrt (denseR ri aux (Z.of_nat k))) (seq 0 n)) = bc xs ys).
    { rewrite <- (dot_nsq xs ys Hxs Hys). unfold nsq, xs, ys, to_dense. rewrite !map_map.
      rewrite map2_combine. rewrite combine_map_same. rewrite map_map. f_equal. apply map_ext. intros k. simpl.
      rewrite Hd'. apply sqrt_mult_alt.
      apply Rmult_le_pos; [apply dense_nonneg; assumption|]. left. apply Rinv_0_lt_compat. destruct Hxs; assumption. }
    rewrite Hbc. unfold R_ltb.
    destruct (Rlt_dec 1 (bc xs ys)); destruct (Rlt_dec (1 - bc xs ys) 0); try lra; try reflexivity.
    rewrite sqrt_0. reflexivity.
  Qed.

  Theorem sparse_tv_eq_dense : forall n ind1 data1 ind2 data2,
    sparse_okR ind1 data1 -> sparse_okR ind2 data2 -> in_range n ind1 -> in_range n ind2 ->
    sparse_total_variation R O ind1 data1 ind2 data2
    = Some (total_variation R O (to_dense n ind1 data1) (to_dense n ind2 data2)).
  Proof.
    intros n ind1 data1 ind2 data2 Ha Hb Ra Rb.
    set (xs := to_dense n ind1 data1). set (ys := to_dense n ind2 data2).
    assert (HX : sumR data1 = sumR xs) by (symmetry; apply sumR_to_dense; assumption).
    assert (HY : sumR data2 = sumR ys) by (symmetry; apply sumR_to_dense; assumption).
    unfold sparse_total_variation. simpl. rewrite !sum_list_R. rewrite HX, HY.
    assert (Ha' : sparse_okR ind1 (map (fun x => x / sumR xs) data1)) by (destruct Ha; split; auto; rewrite map_length; auto).
    assert (Hb' : sparse_okR ind2 (map (fun x => x / sumR ys) data2)) by (destruct Hb; split; auto; rewrite map_length; auto).
    destruct (R_sparse_diff _ _ _ _ Ha' Hb') as (ri & aux & Hs & Hl & Hi & Hd & Hsupp).
    rewrite Hs. f_equal.
    assert (Hd' : forall k, denseR ri aux k = denseR ind1 data1 k / sumR xs - denseR ind2 data2 k / sumR ys).
    { intro k. rewrite Hd. rewrite !(dense_map (fun x => x / _)) by (unfold Rdiv; ring). lra. }
    assert (Hrr : in_range n ri).
    { apply (result_in_range n ri (fun k => denseR ind1 (map (fun x => x / sumR xs) data1) k
                                            + - denseR ind2 (map (fun x => x / sumR ys) data2) k)).
      - intros k Hk. apply Hsupp. assumption.
      - intros k Hk. rewrite (dense_out_of_range n ind1 _ k Ra Hk), (dense_out_of_range n ind2 _ k Rb Hk). ring. }
    assert (Hf0 : (fun v => 1 / 2 * Rabs v) 0 = 0) by (simpl; rewrite Rabs_R0; lra).
    rewrite (sparse_sum_over_support (fun v => 1 / 2 * Rabs v) n ri aux Hf0 Hi Hl Hrr).
    rewrite total_variation_R. unfold d1, nrm. fold xs. fold ys.
    set (X := sumR xs) in *. set (Y := sumR ys) in *.
    assert (E : map2 (fun x y => Rabs (x - y)) (map (fun x => x / X) xs) (map (fun x => x / Y) ys)
                = map (fun k => Rabs (denseR ind1 data1 (Z.of_nat k) / X - denseR ind2 data2 (Z.of_nat k) / Y)) (seq 0 n)).
    { unfold xs, ys, to_dense. rewrite !map2_map. apply map2_diag. }
    rewrite E. rewrite <- sumR_scal. rewrite map_map.
    f_equal. apply map_ext. intros k. rewrite Hd'. reflexivity.
  Qed.

  Lemma R_sparse_sum_support : forall ind1 data1 ind2 data2, sparse_okR ind1 data1 -> sparse_okR ind2 data2 ->
    exists U rd, sparse_sum R 0 Rplus R_eqz ind1 data1 ind2 data2 = Some (U, rd) /\ incr U
      /\ (forall k, In k U <-> denseR ind1 data1 k + denseR ind2 data2 k <> 0).
  Proof.
    intros ind1 data1 ind2 data2 Ha Hb.
    destruct (sparse_sum_correct R 0 Rplus R_eqz (@eq R) (@eq_refl R) (@eq_sym R) (@eq_trans R) R_eqz_true
                Rplus_0_r Rplus_0_l ind1 data1 ind2 data2 Ha Hb) as (ri & rd & A & B & C & _ & D & E).
    exists ri, rd. auto.
  Qed.

  (* the sparse JS / symmetric KL are the dense ones on the union support U (the indices where x + y <> 0) *)
  Theorem sparse_js_eq_dense_on_support : forall ind1 data1 ind2 data2,
    sparse_okR ind1 data1 -> sparse_okR ind2 data2 ->
    exists U, incr U /\ (forall k, In k U <-> denseR ind1 data1 k + denseR ind2 data2 k <> 0)
      /\ sparse_jensen_shannon_divergence R O ind1 data1 ind2 data2
         = Some (jensen_shannon_divergence R O (map (denseR ind1 data1) U) (map (denseR ind2 data2) U))
      /\ sparse_symmetric_kl_divergence R O ind1 data1 ind2 data2
         = Some (symmetric_kl_divergence R O (map (denseR ind1 data1) U) (map (denseR ind2 data2) U)).
  Proof.
    intros ind1 data1 ind2 data2 Ha Hb.
    destruct (R_sparse_sum_support _ _ _ _ Ha Hb) as (U & rd & Hs & Hi & Hsupp).
    destruct (dense_union_correct R 0 Rplus R_eqz ind1 data1 ind2 data2 Ha Hb) as (U' & rd' & Hs' & Hdu).
    rewrite Hs in Hs'. inversion Hs'; subst U' rd'.
    exists U. split; [assumption|]. split; [assumption|].
    unfold sparse_jensen_shannon_divergence, sparse_symmetric_kl_divergence. simpl. rewrite Hdu. split; reflexivity.
  Qed.
End SparseDense.
