(* C05: the generic vocabulary theorems (Proofs/K5_Vocab_proofs.v) combined with the IEEE facts
   (Proofs/K5_Float_proofs.v): with occurrence bounds and fewer than 2^24 tokens the float comparisons of
   prune_token_dictionary are exactly the integer comparisons of the property statement. *)
From Coq Require Import ZArith List Bool Arith Lia Sorted Permutation.
From VZ Require Import Model.K5_Vocab Model.K5_Float Proofs.K5_Vocab_proofs Proofs.K5_Float_proofs.
Import ListNotations.
Open Scope Z_scope.

(* ---- the two token orders used by the correspondence are strict total orders ---- *)
Lemma Zltb_irrefl : forall a, (a <? a) = false. Proof. exact Z.ltb_irrefl. Qed.
Lemma Zltb_trans : forall a b c, (a <? b) = true -> (b <? c) = true -> (a <? c) = true.
Proof. intros a b c H1 H2. apply Z.ltb_lt in H1, H2. apply Z.ltb_lt. lia. Qed.
Lemma Zltb_total : forall a b, a = b \/ (a <? b) = true \/ (b <? a) = true.
Proof. intros a b. rewrite !Z.ltb_lt. lia. Qed.

Lemma lex_eqb_eq : forall a b, lex_eqb a b = true <-> a = b.
Proof.
  induction a as [|x a IH]; intros [|y b]; simpl; try (split; [discriminate|congruence]); [tauto|].
  rewrite andb_true_iff, Z.eqb_eq, IH. split; [intros [-> ->]; reflexivity | intro H; inversion H; auto].
Qed.
Lemma lex_ltb_irrefl : forall a, lex_ltb a a = false.
Proof. induction a as [|x a IH]; simpl; [reflexivity|]. rewrite Z.ltb_irrefl, Z.eqb_refl, IH. reflexivity. Qed.
Lemma lex_ltb_trans : forall a b c, lex_ltb a b = true -> lex_ltb b c = true -> lex_ltb a c = true.
Proof.
  induction a as [|x a IH]; intros [|y b] [|z c]; simpl; try discriminate; try reflexivity.
  rewrite !orb_true_iff, !andb_true_iff, !Z.ltb_lt, !Z.eqb_eq.
  intros [H1|[H1 H1']] [H2|[H2 H2']]; try (left; lia). right. split; [lia|]. eapply IH; eauto.
Qed.
Lemma lex_ltb_total : forall a b, a = b \/ lex_ltb a b = true \/ lex_ltb b a = true.
Proof.
  induction a as [|x a IH]; intros [|y b]; simpl; auto.
  rewrite !orb_true_iff, !andb_true_iff, !Z.ltb_lt, !Z.eqb_eq.
  destruct (Z.lt_total x y) as [H|[H|H]]; [right; left; left; exact H | | right; right; left; exact H].
  subst y. destruct (IH b) as [->|[H|H]]; [left; reflexivity | right; left; right; auto | right; right; right; auto].
Qed.

(* ---- occurrence bounds, float level ---- *)
Notation resolve_min_fl := (resolve_min f64div_fl).
Notation resolve_max_fl := (resolve_max f64div_fl one64_fl).

Theorem occurrence_bounds_exact : forall n kmin kmax, 0 < n < 2 ^ 24 -> 0 <= kmin <= n -> 0 <= kmax <= n ->
  exists lo hi, resolve_min_fl (Some kmin) None n = Ok lo /\ resolve_max_fl (Some kmax) None n = Ok hi /\
  forall c, 0 <= c <= n ->
    (f32div_fl c n <? f64to32_fl lo) = (c <? kmin) /\ (f64to32_fl hi <? f32div_fl c n) = (kmax <? c).
Proof.
  intros n kmin kmax Hn Hmin Hmax. unfold resolve_min, resolve_max.
  replace (n =? 0) with false by (symmetry; apply Z.eqb_neq; lia).
  eexists. eexists. split; [reflexivity|]. split; [reflexivity|].
  intros c Hc. split; [apply min_occ_decision | apply max_occ_decision]; lia.
Qed.

Theorem equal_bound_kept : forall c n, 0 < n <= 2 ^ 24 -> 0 <= c <= n ->
  exists lo hi, resolve_min_fl (Some c) None n = Ok lo /\ resolve_max_fl (Some c) None n = Ok hi /\
    (f32div_fl c n <? f64to32_fl lo) = false /\ (f64to32_fl hi <? f32div_fl c n) = false.
Proof.
  intros c n Hn Hc. unfold resolve_min, resolve_max.
  replace (n =? 0) with false by (symmetry; apply Z.eqb_neq; lia).
  eexists. eexists. split; [reflexivity|]. split; [reflexivity|].
  rewrite Z.min_r by (apply f64div_le_one; lia).
  rewrite equal_bound_key by lia. rewrite Z.ltb_irrefl. auto.
Qed.

Theorem equal_bound_refuted_above_2p24 : exists c n, 2 ^ 24 < n /\ 0 < c <= n /\
  exists hi, resolve_max_fl (Some c) None n = Ok hi /\ (f64to32_fl hi <? f32div_fl c n) = true.
Proof.
  exists 1, (2 ^ 24 + 1). split; [lia|]. split; [lia|].
  eexists. split; [reflexivity|]. exact equal_bound_fails_above.
Qed.

Theorem doc_bounds_exact : forall n kmin kmax, 0 < n < 2 ^ 53 -> 0 <= kmin <= n -> 0 <= kmax <= n ->
  exists lo hi, resolve_min_fl (Some kmin) None n = Ok lo /\ resolve_max_fl (Some kmax) None n = Ok hi /\
  forall c, 0 <= c <= n -> (f64div_fl c n <? lo) = (c <? kmin) /\ (hi <? f64div_fl c n) = (kmax <? c).
Proof.
  intros n kmin kmax Hn Hmin Hmax. unfold resolve_min, resolve_max.
  replace (n =? 0) with false by (symmetry; apply Z.eqb_neq; lia).
  eexists. eexists. split; [reflexivity|]. split; [reflexivity|].
  intros c Hc. split; [apply min_dococc_decision | apply max_dococc_decision]; lia.
Qed.

Theorem doc_bound_kept : forall c n, 0 < n <= 2 ^ 53 -> 0 <= c <= n ->
  exists lo hi, resolve_min_fl (Some c) None n = Ok lo /\ resolve_max_fl (Some c) None n = Ok hi /\
    (f64div_fl c n <? lo) = false /\ (hi <? f64div_fl c n) = false.
Proof.
  intros c n Hn Hc. unfold resolve_min, resolve_max.
  replace (n =? 0) with false by (symmetry; apply Z.eqb_neq; lia).
  eexists. eexists. split; [reflexivity|]. split; [reflexivity|].
  rewrite Z.min_r by (apply f64div_le_one; lia). rewrite Z.ltb_irrefl. auto.
Qed.

Theorem freq_monotone : forall c1 c2 n, 0 < n < 2 ^ 24 -> 0 <= c1 <= n -> 0 <= c2 <= n ->
  (f32div_fl c1 n <? f32div_fl c2 n) = (c1 <? c2).
Proof.
  intros c1 c2 n Hn H1 H2. destruct (Z.ltb_spec c1 c2) as [H|H].
  - apply Z.ltb_lt. apply (fdiv_strict 24 128 eq_refl eq_refl H3a); lia.
  - apply Z.ltb_ge. apply (fdiv_mono 24 128 eq_refl eq_refl H3a); lia.
Qed.

Lemma freq_le_iff : forall c1 c2 n, 0 < n < 2 ^ 24 -> 0 <= c1 <= n -> 0 <= c2 <= n ->
  f32div_fl c1 n <= f32div_fl c2 n <-> c1 <= c2.
Proof.
  intros c1 c2 n Hn H1 H2. pose proof (freq_monotone c2 c1 n Hn H2 H1) as H.
  destruct (Z.ltb_spec c2 c1); apply Z.ltb_lt in H || apply Z.ltb_ge in H; lia.
Qed.

(* ---- the property statement in integer terms ---- *)
Section Counts.
Variable T : Type.
Variable eqb ltb : T -> T -> bool.
Variable matches : T -> bool.
Hypothesis eqb_eq : forall a b, eqb a b = true <-> a = b.
Hypothesis ltb_irrefl : forall a, ltb a a = false.
Hypothesis ltb_trans : forall a b c, ltb a b = true -> ltb b c = true -> ltb a c = true.
Hypothesis ltb_total : forall a b, a = b \/ ltb a b = true \/ ltb b a = true.

Notation cnt := (cnt T eqb).
Notation dcnt := (dcnt T eqb).
Notation learn_vocab := (learn_vocab T eqb ltb matches f32div_fl f64div_fl f64to32_fl one64_fl).
Notation learn_gen := (learn_gen T eqb ltb matches f32div_fl f64div_fl f64to32_fl one64_fl).

Definition ge_opt (o : option Z) (x : Z) : Prop := match o with None => True | Some k => k <= x end.
Definition le_opt (o : option Z) (x : Z) : Prop := match o with None => True | Some k => x <= k end.
Definition bound_ok (o : option Z) (n : Z) : Prop := match o with None => True | Some k => 0 <= k <= n end.

Definition occurrence_only (c : config T) : Prop :=
  min_freq c = None /\ max_freq c = None /\ min_docfreq c = None /\ max_docfreq c = None.

Definition candidate_counts (c : config T) (docs : list (list T)) (t : T) : Prop :=
  In t (concat docs) /\ ~ In t (ignored c) /\ (use_regex c = true -> matches t = false)
  /\ ge_opt (min_occ c) (cnt t (concat docs)) /\ le_opt (max_occ c) (cnt t (concat docs))
  /\ ge_opt (min_dococc c) (dcnt t docs) /\ le_opt (max_dococc c) (dcnt t docs).

Definition in_topk_counts (c : config T) (docs : list (list T)) (t : T) : Prop :=
  match max_unique c with
  | None => True
  | Some k => forall l, NoDup l ->
      (forall t', In t' l -> candidate_counts c docs t' /\ cnt t (concat docs) <= cnt t' (concat docs)) ->
      (length l <= k)%nat
  end.

Lemma cnt_range : forall t s, 0 <= cnt t s <= Z.of_nat (length s).
Proof. intros t s. unfold K5_Vocab_proofs.cnt. pose proof (filter_length_le T (eqb t) s). lia. Qed.
Lemma dcnt_range : forall t docs, 0 <= dcnt t docs <= Z.of_nat (length docs).
Proof. intros t docs. unfold K5_Vocab_proofs.dcnt. pose proof (filter_length_le _ (mem T eqb t) docs). lia. Qed.

Lemma min_opt32 : forall o n, 0 < n < 2 ^ 24 -> bound_ok o n ->
  exists lo, resolve_min_fl o None n = Ok lo /\
  forall x, 0 <= x <= n -> ((f32div_fl x n <? f64to32_fl lo) = false <-> ge_opt o x).
Proof.
  intros [k|] n Hn Hb; simpl in Hb.
  - destruct (occurrence_bounds_exact n k k Hn Hb Hb) as (lo & hi & H1 & _ & H).
    exists lo. split; [exact H1|]. intros x Hx. rewrite (proj1 (H x Hx)). simpl. rewrite Z.ltb_ge. tauto.
  - exists 0. split; [reflexivity|]. intros x Hx. simpl.
    pose proof (default_bounds_vacuous32 x n ltac:(lia) Hx). tauto.
Qed.

Lemma max_opt32 : forall o n, 0 < n < 2 ^ 24 -> bound_ok o n ->
  exists hi, resolve_max_fl o None n = Ok hi /\
  forall x, 0 <= x <= n -> ((f64to32_fl hi <? f32div_fl x n) = false <-> le_opt o x).
Proof.
  intros [k|] n Hn Hb; simpl in Hb.
  - destruct (occurrence_bounds_exact n k k Hn Hb Hb) as (lo & hi & _ & H1 & H).
    exists hi. split; [exact H1|]. intros x Hx. rewrite (proj2 (H x Hx)). simpl. rewrite Z.ltb_ge. tauto.
  - exists one64_fl. split; [reflexivity|]. intros x Hx. simpl.
    pose proof (default_bounds_vacuous32 x n ltac:(lia) Hx). tauto.
Qed.

Lemma min_opt64 : forall o n, 0 < n < 2 ^ 53 -> bound_ok o n ->
  exists lo, resolve_min_fl o None n = Ok lo /\
  forall x, 0 <= x <= n -> ((f64div_fl x n <? lo) = false <-> ge_opt o x).
Proof.
  intros [k|] n Hn Hb; simpl in Hb.
  - destruct (doc_bounds_exact n k k Hn Hb Hb) as (lo & hi & H1 & _ & H).
    exists lo. split; [exact H1|]. intros x Hx. rewrite (proj1 (H x Hx)). simpl. rewrite Z.ltb_ge. tauto.
  - exists 0. split; [reflexivity|]. intros x Hx. simpl.
    pose proof (default_bounds_vacuous64 x n ltac:(lia) Hx). tauto.
Qed.

Lemma max_opt64 : forall o n, 0 < n < 2 ^ 53 -> bound_ok o n ->
  exists hi, resolve_max_fl o None n = Ok hi /\
  forall x, 0 <= x <= n -> ((hi <? f64div_fl x n) = false <-> le_opt o x).
Proof.
  intros [k|] n Hn Hb; simpl in Hb.
  - destruct (doc_bounds_exact n k k Hn Hb Hb) as (lo & hi & _ & H1 & H).
    exists hi. split; [exact H1|]. intros x Hx. rewrite (proj2 (H x Hx)). simpl. rewrite Z.ltb_ge. tauto.
  - exists one64_fl. split; [reflexivity|]. intros x Hx. simpl.
    pose proof (default_bounds_vacuous64 x n ltac:(lia) Hx). tauto.
Qed.

Lemma candidate_iff : forall (c : config T) docs lo hi dlo dhi,
  let n := Z.of_nat (length (concat docs)) in
  let nd := Z.of_nat (length docs) in
  (forall x, 0 <= x <= n -> ((f32div_fl x n <? f64to32_fl lo) = false <-> ge_opt (min_occ c) x)) ->
  (forall x, 0 <= x <= n -> ((f64to32_fl hi <? f32div_fl x n) = false <-> le_opt (max_occ c) x)) ->
  (forall x, 0 <= x <= nd -> ((f64div_fl x nd <? dlo) = false <-> ge_opt (min_dococc c) x)) ->
  (forall x, 0 <= x <= nd -> ((dhi <? f64div_fl x nd) = false <-> le_opt (max_dococc c) x)) ->
  forall t, candidate T eqb matches f32div_fl f64div_fl f64to32_fl c (need_doc T c) docs lo hi dlo dhi t
            <-> candidate_counts c docs t.
Proof.
  intros c docs lo hi dlo dhi n nd H1 H2 H3 H4 t. unfold candidate, candidate_counts, freqF, dfreqG.
  fold n nd. pose proof (cnt_range t (concat docs)) as Rc. pose proof (dcnt_range t docs) as Rd. fold n in Rc. fold nd in Rd.
  rewrite (H1 _ Rc), (H2 _ Rc).
  destruct (need_doc T c) eqn:N.
  - rewrite <- (H3 _ Rd), <- (H4 _ Rd). tauto.
  - unfold need_doc in N. rewrite !orb_false_iff in N. destruct N as ((((N1 & N2) & N3) & N4) & N5).
    destruct (min_dococc c); [discriminate|]. destruct (max_dococc c); [discriminate|]. simpl. intuition congruence.
Qed.

Theorem kept_iff_counts : forall (c : config T) (docs : list (list T)),
  let n := Z.of_nat (length (concat docs)) in
  let nd := Z.of_nat (length docs) in
  occurrence_only c -> 0 < n < 2 ^ 24 -> nd < 2 ^ 53 ->
  bound_ok (min_occ c) n -> bound_ok (max_occ c) n -> bound_ok (min_dococc c) nd -> bound_ok (max_dococc c) nd ->
  exists d fr, learn_vocab c docs None = Ok (d, fr) /\
    forall t, In t (map fst d) <-> candidate_counts c docs t /\ in_topk_counts c docs t.
Proof.
  intros c docs n nd (F1 & F2 & F3 & F4) Hn Hnd' B1 B2 B3 B4.
  assert (Hnd : 0 < nd < 2 ^ 53).
  { split; [|exact Hnd']. subst n nd. destruct docs; [simpl in Hn; lia | simpl length; lia]. }
  destruct (min_opt32 _ n Hn B1) as (lo & Rlo & Hlo).
  destruct (max_opt32 _ n Hn B2) as (hi & Rhi & Hhi).
  destruct (min_opt64 _ nd Hnd B3) as (dlo & Rdlo & Hdlo).
  destruct (max_opt64 _ nd Hnd B4) as (dhi & Rdhi & Hdhi).
  destruct (vocab_kept_iff T eqb ltb matches f32div_fl f64div_fl f64to32_fl one64_fl
              eqb_eq ltb_irrefl ltb_trans ltb_total c (need_doc T c) docs lo hi dlo dhi) as (d & fr & E & Hiff & _).
  { rewrite F1. exact Rlo. } { rewrite F2. exact Rhi. } { rewrite F3. exact Rdlo. } { rewrite F4. exact Rdhi. }
  exists d, fr. split; [exact E|].
  pose proof (candidate_iff c docs lo hi dlo dhi Hlo Hhi Hdlo Hdhi) as Hc.
  intro t. rewrite Hiff, Hc. apply and_iff_compat_l.
  unfold in_topk, in_topk_counts. destruct (max_unique c) as [k|]; [|tauto].
  split; intros H l Hl Hall; apply H; try exact Hl; intros t' Ht'; destruct (Hall t' Ht') as [A B];
    (split; [apply Hc; exact A|]); unfold freqF in *; fold n in B |- *;
    apply (freq_le_iff _ _ n Hn); try apply cnt_range; exact B.
Qed.

(* kept tokens occur strictly more often than dropped candidates (at most 2^24 tokens) *)
Theorem topk_counts : forall (c : config T) need docs d fr k,
  Z.of_nat (length (concat docs)) <= 2 ^ 24 ->
  learn_gen need c docs None = Ok (d, fr) -> max_unique c = Some k ->
  (length d <= k)%nat /\
  exists lo hi dlo dhi, forall t t', In t (map fst d) ->
    candidate T eqb matches f32div_fl f64div_fl f64to32_fl c need docs lo hi dlo dhi t' -> ~ In t' (map fst d) ->
    cnt t' (concat docs) < cnt t (concat docs).
Proof.
  intros c need docs d fr k Hn E Hk.
  destruct (vocab_topk T eqb ltb matches f32div_fl f64div_fl f64to32_fl one64_fl
              eqb_eq ltb_irrefl ltb_trans ltb_total c need docs d fr k E Hk) as (L & lo & hi & dlo & dhi & H).
  split; [exact L|]. exists lo, hi, dlo, dhi. intros t t' Ht Hc Hn'.
  specialize (H t t' Ht Hc Hn'). unfold freqF in H.
  destruct (Z.lt_ge_cases (cnt t' (concat docs)) (cnt t (concat docs))) as [|Hge]; [assumption|exfalso].
  pose proof (cnt_range t (concat docs)). pose proof (cnt_range t' (concat docs)).
  assert (0 < Z.of_nat (length (concat docs))).
  { destruct Hc as [Hin _]. destruct (concat docs); [contradiction | simpl length; lia]. }
  pose proof (fdiv_mono 24 128 eq_refl eq_refl H3a (cnt t (concat docs)) (cnt t' (concat docs))
                (Z.of_nat (length (concat docs))) ltac:(lia) ltac:(lia) ltac:(lia)) as M.
  unfold f32div_fl in H. lia.
Qed.

End Counts.
