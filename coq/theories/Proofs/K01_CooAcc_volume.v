(* K1, array level, part 3: the level stack is bounded by the buffer geometry and the event VOLUME per sort window,
   not by the raw number of events.

   The first induction (K01_CooAcc_proofs.v, Inv) charges one unit of a ghost counter to every flush and every
   merge_all; its hypothesis `2 * #events + 2 < 2^(|min| - 1)` covers ~254 events at the drivers' |min| = 10.
   What really happens:
     - merge_all_sum_duplicates compacts the stack: afterwards ONE level is occupied, and the level counter is
       2^(number of levels that were occupied)   (ma_ok_strong);
     - a flush that is followed by merge_all therefore leaves the counter at <= 4 when it was <= 4 (depth <= 3), and in
       general at <= 4 * (F + 1), where F is the number of flushes NOT followed by merge_all;
     - a flush is not followed by merge_all only when `capacity - ind' > limit`; such a flush either closes a sort
       window of >= limit appended entries (first `if` of coo_append) or shrinks `ind` by >= limit (second `if`:
       ind = capacity - 1 before, ind' < capacity - limit after).  Every event is appended once and removed at most
       once, hence  limit * F <= 2 * #events  (potential: limit * F + 2 * ind - |min[0]| <= 2 * #events);
     - F > 0 needs capacity > limit, which for a buffer that started at capacity <= limit means that
       coo_increase_mem has enlarged `min` at least once.
   The event bound cannot be dropped altogether: with limit < capacity a stream of equal keys is flushed every `limit`
   events without ever reaching the merge_all test, and the level counter overflows `min` after about
   limit * 2^|min| events (C04_volume_bound_needed in Properties/C04.v runs it at limit = 1).  *)
From Coq Require Import ZArith List Bool Lia Sorting.Sorted Permutation.
From VZ Require Import Model.K01_CooAcc Proofs.K01_CooAcc_list Proofs.K01_CooAcc_arrays Proofs.K01_CooAcc_proofs.
Import ListNotations.
Open Scope Z_scope.

(* ------------------------------------------------------------------ powers of two below 4F + 6 *)
Lemma pow2_4k d F : 0 <= d -> 0 <= F -> 2 ^ d <= 4 * F + 6 -> 2 ^ d <= 4 * (F + 1).
Proof.
  intros Hd HF H. destruct (Z_lt_le_dec d 2).
  - assert (d = 0 \/ d = 1) as [-> | ->] by lia; [change (2 ^ 0) with 1|change (2 ^ 1) with 2]; lia.
  - replace d with (2 + (d - 2)) in * by lia. rewrite Z.pow_add_r in * by lia.
    change (2 ^ 2) with 4 in *. pose proof (pow2_pos (d - 2) ltac:(lia)). lia.
Qed.

Lemma grow_size_bounds limit n : 20 <= n -> n + 2 <= grow_size limit n /\ limit < grow_size limit n.
Proof.
  intros H. unfold grow_size. pose proof (round_half_even_ge (3 * n) ltac:(lia)).
  assert (n + 2 <= 3 * n / 2) by (apply Z.div_le_lower_bound; lia). lia.
Qed.

Definition npos (m : list Z) (d : Z) : Z := npos_range m 0 (Z.to_nat d).

Lemma pow2_npos_le_cnt m d : 2 ^ npos m d <= cnt m d + 1.
Proof.
  unfold npos, cnt. pose proof (cnt_range_npos m (Z.to_nat d) 0 ltac:(lia)) as H.
  change (2 ^ 0) with 1 in H. lia.
Qed.

Lemma npos_nonneg m d : 0 <= npos m d.
Proof. unfold npos. apply npos_range_bounds. Qed.

Section WithQ.
Variable Q : Z * Z * Z -> Prop.

(* ------------------------------------------------------------------ merge_all_sum_duplicates compacts the stack *)
(* ma_ok with one more conclusion: the level counter afterwards is at most 2^(number of occupied levels before) *)
Lemma ma_ok_strong c :
  stack_ok Q c -> ind c <= cap c -> cnt (mn c) (depth c) + 1 < 2 ^ (zlen (mn c) - 1) ->
  Z.abs (nthZ (mn c) 0) = ind c ->
  exists c', merge_all_sum_duplicates c = Ok c' /\ op_post Q c c' /\ ssorted (live c') /\
             cnt (mn c') (depth c') <= 2 ^ npos (mn c) (depth c).
Proof.
  intros [Hd Hz Hch Hi Hk Hfree Hruns] Huc Hcnt Htail.
  set (d := depth c) in *. set (m := mn c) in *.
  set (X := slice m 0 d).
  assert (SX : seg m 0 d X) by (apply seg_slice; lia).
  assert (LX : zlen X = d) by (destruct SX as (_ & H & _); lia).
  assert (EX : X = firstn (Z.to_nat d) m) by (unfold X, slice; rewrite Z.sub_0_r; reflexivity).
  set (pos := filter gt0 X).
  assert (Lp : 0 <= zlen pos <= d).
  { split; [apply zlen_nonneg|]. rewrite <- LX. unfold pos, zlen.
    pose proof (filter_length_le' gt0 X). lia. }
  unfold merge_all_sum_duplicates. fold d. fold m.
  replace (Z.to_nat d) with (length X) by (unfold zlen in LX; lia).
  rewrite (positives_ok m X 0 d SX). simpl bind. fold pos.
  set (new_min := pos ++ repeat 0 (length X - length pos)).
  assert (Ln : zlen new_min = d).
  { unfold new_min. zl. unfold zlen in *. lia. }
  destruct (assign_slice_ok S_ma_assign m 0 d new_min) as (m2 & E1 & E2 & E3); [lia|lia|lia|].
  rewrite E1. simpl bind.
  simpl firstn in E2. rewrite app_nil_l in E2.
  assert (N1 : forall j, 0 <= j < zlen pos -> nthZ m2 j = nthZ pos j).
  { intros j Hj. rewrite E2. unfold new_min. rewrite <- app_assoc. apply nthZ_app_l. lia. }
  assert (N2 : forall j, zlen pos <= j < d -> nthZ m2 j = 0).
  { intros j Hj. rewrite E2. unfold new_min. rewrite <- app_assoc. rewrite nthZ_app_r by lia.
    rewrite nthZ_app_l by (zl; unfold zlen in *; lia). apply nthZ_repeat. unfold zlen in *. lia. }
  assert (N3 : forall j, d <= j -> nthZ m2 j = 0).
  { intros j Hj. rewrite E2. rewrite nthZ_app_r by lia. rewrite Ln.
    destruct (Z_lt_le_dec j (zlen m)).
    - unfold nthZ. destruct (j - d <? 0) eqn:E; [apply Z.ltb_lt in E; lia|].
      rewrite nth_skipn'. replace (Z.to_nat d + Z.to_nat (j - d))%nat with (Z.to_nat j) by lia.
      specialize (Hz j Hj). unfold nthZ in Hz. destruct (j <? 0) eqn:E'; [apply Z.ltb_lt in E'; lia|]. exact Hz.
    - apply nthZ_beyond. rewrite zlen_skipn by lia. lia. }
  assert (PX : forall x, In x pos -> x > 0 /\ In x X).
  { intros x Hx. apply filter_In in Hx. destruct Hx as [H1 H2]. unfold gt0 in H2. apply Z.gtb_lt in H2. split; [lia|exact H1]. }
  assert (SXs : StronglySorted absge X).
  { apply adjacent_sorted. intros j Hj0 Hj. rewrite EX, !nthZ_firstn by lia. apply Hch. lia. }
  assert (Sp : StronglySorted absge pos) by (apply filter_sorted, SXs).
  assert (RL : runs_list (buf c) X 0).
  { apply (runs_list_of_pointwise (buf c) m 0 X 0 d SX); [apply Hz; lia| |].
    - intros j Hj. apply Hfree. lia.
    - intros j Hj. apply (Hruns j). lia. }
  assert (RL2 : runs_list (buf c) new_min 0) by (apply runs_filter, RL).
  assert (S2 : seg m2 0 d new_min).
  { split; [lia|]. split; [lia|]. rewrite slice0_firstn, E2. apply firstnZ_app. symmetry; exact Ln. }
  pose proof (pointwise_of_runs_list (buf c) m2 0 new_min 0 d S2 (N3 d ltac:(lia)) RL2) as PW.
  assert (H0 : Z.abs (nthZ m2 0) = Z.abs (nthZ m 0)).
  { rewrite <- (start_of_seg m2 new_min 0 d 0 S2 (N3 d ltac:(lia))).
    rewrite <- (start_of_seg m X 0 d 0 SX (Hz d ltac:(lia))). apply (start_filter (buf c)), RL. }
  assert (SO : stack_ok Q (set_mn c m2)).
  { constructor; unfold set_mn; simpl; fold d.
    - lia.
    - intros j Hj. apply N3, Hj.
    - intros j Hj.
      destruct (Z_lt_le_dec (j + 1) (zlen pos)).
      + rewrite !N1 by lia. apply (sorted_adjacent pos Sp); lia.
      + assert (nthZ m2 (j + 1) = 0) as ->.
        { destruct (Z_lt_le_dec (j + 1) d); [apply N2; lia|apply N3; lia]. }
        simpl. apply Z.abs_nonneg.
    - rewrite H0. fold m in Hi. exact Hi.
    - exact Hk.
    - intros j Hj. apply (PW j). lia.
    - intros j Hj. unfold run_at; simpl. apply (PW j). lia. }
  (* the compacted stack counts exactly 2^|pos| - 1 *)
  assert (C2e : cnt m2 d = 2 ^ zlen pos - 1).
  { unfold cnt.
    replace (Z.to_nat d) with (Z.to_nat (zlen pos) + Z.to_nat (d - zlen pos))%nat at 1 by lia.
    rewrite cnt_range_split. rewrite Z.add_0_l, Z2Nat.id by lia.
    rewrite (cnt_range_pos m2) by (try lia; intros j Hj; rewrite N1 by lia;
                                   apply PX, nthZ_in; lia).
    rewrite (cnt_range_nonpos m2) by (intros j Hj; rewrite N2 by lia; lia).
    rewrite Z2Nat.id by lia. replace (0 + zlen pos) with (zlen pos) by lia.
    change (2 ^ 0) with 1. lia. }
  assert (NP : npos m d = zlen pos).
  { unfold npos. replace (Z.to_nat d) with (length X) by (unfold zlen in LX; lia).
    rewrite (npos_filter m X 0 d SX). reflexivity. }
  assert (C2 : cnt m2 d <= cnt m d).
  { pose proof (pow2_npos_le_cnt m d) as QQ. rewrite NP in QQ. lia. }
  destruct (msd_ok Q (set_mn c m2) SO) as (c' & M1 & M2 & M3 & M4 & M5 & M6 & M7 & M8 & M9 & M10).
  { exact Huc. }
  { unfold set_mn; simpl. fold d. rewrite E3. fold m in Hcnt. lia. }
  { unfold set_mn; simpl. rewrite H0. fold m in Htail. rewrite Htail, slice_empty. apply ssorted_nil. }
  exists c'. split; [exact M1|].
  assert (Hsorted : ssorted (live c')).
  { specialize (M10 (zlen pos)). unfold set_mn in M10; simpl in M10. fold d in M10.
    assert (Hp0 : nthZ m2 (zlen pos) = 0).
    { destruct (Z_lt_le_dec (zlen pos) d); [apply N2; lia|apply N3; lia]. }
    rewrite Hp0 in M10. simpl in M10. rewrite slice0_firstn in M10. apply M10; try lia.
    intros j Hj. rewrite N1 by lia. apply PX, nthZ_in; lia. }
  unfold set_mn in *; simpl in *. fold d in M8, M9.
  split; [|split; [exact Hsorted|rewrite NP; lia]].
  unfold d, m in *.
  split; [exact M2|]. split; [exact M3|]. split; [rewrite M4; exact E3|]. split; [exact M5|].
  split; [exact M6|]. split; [exact M7|]. split; [lia|].
  destruct M9 as [M9|[M9 M9']]; [left; exact M9|right; split; [exact M9|lia]].
Qed.

(* ------------------------------------------------------------------ the invariant with its volume budget *)
(* F = number of flushes so far that were NOT followed by merge_all, E = number of events appended so far.
   The level counter and 2^(depth-1) are bounded by 4 * (F + 1); limit * F is paid for by the potential
   2 * E - 2 * ind + |min[0]| = (entries removed so far) + (entries appended before the last flush). *)
Definition VInv (limit : Z) (c : coo) (F E : Z) : Prop :=
  Inv Q c (4 * (F + 1)) /\ 0 <= F /\ limit * F + 2 * ind c - Z.abs (nthZ (mn c) 0) <= 2 * E.

Lemma cnt_grow limit c : cnt (mn (coo_increase_mem limit c)) (depth (coo_increase_mem limit c)) = cnt (mn c) (depth c).
Proof.
  unfold cnt. simpl depth. apply cnt_range_ext. intros. unfold coo_increase_mem; simpl. apply nthZ_extend0.
Qed.

(* what one flush_tail (the body of either `if` of coo_append) does to the invariant.
   `why`: the reason coo_append called it: the sort window has reached the threshold, or the buffer is full *)
Lemma flush_tail_v limit c F E :
  1 <= limit -> VInv limit c F E -> ind c <= cap c - 1 -> 20 <= cap c ->
  4 * F + 6 < 2 ^ (zlen (mn c) - 1) ->
  (limit <= ind c - Z.abs (nthZ (mn c) 0) \/ ind c = cap c - 1) ->
  exists c' F',
    flush_tail limit c = Ok c' /\ VInv limit c' F' E /\ ind c' <= cap c' - 2 /\ 20 <= cap c' /\
    (forall k, sumby (live c') k = sumby (live c) k) /\
    (F' = F \/ (F' = F + 1 /\ limit < cap c)) /\
    ((cap c' = cap c /\ zlen (mn c') = zlen (mn c)) \/
     (F' = F /\ limit < cap c' /\ cap c < cap c' /\ zlen (mn c) <= zlen (mn c') /\
      grow_min_size (zlen (mn c)) <= zlen (mn c') /\ ssorted (live c') /\ 19 * cap c <= 20 * ind c')).
Proof.
  intros Hl (HI & HF & HP) Hic Hcap HG Hwhy.
  pose proof HI as (S0 & C0 & D0).
  pose proof (so_ind Q c S0) as Hi0. pose proof (so_depth Q c S0) as Hd0.
  set (a0 := Z.abs (nthZ (mn c) 0)) in *.
  set (P := 2 ^ (zlen (mn c) - 1)) in *.
  destruct (csd_ok Q c) as (c1 & E1 & P1); [exact S0|clear - Hic; lia|fold P; clear - C0 HG; lia|].
  destruct P1 as (S1 & Q1 & Q2 & Q3 & Q4 & Q5 & Q6 & Q7).
  unfold flush_tail. rewrite E1. cbn [bind].
  pose proof (so_depth Q c1 S1) as Hd1.
  rewrite (getZ_nthZ _ (mn c1) 0) by (clear - Hd1; lia). cbn [bind]. rewrite Q4, Q1.
  assert (C1 : cnt (mn c1) (depth c1) <= 4 * F + 5) by (clear - C0 Q6; lia).
  assert (D1 : depth c1 = 0 \/ 2 ^ (depth c1 - 1) <= 4 * F + 5).
  { destruct Q7 as [Ed|[Ed Ed']].
    - rewrite Ed. destruct D0 as [D0|D0]; [left; exact D0|right; clear - D0; lia].
    - right. rewrite Ed. replace (depth c + 1 - 1) with (depth c) by lia. clear - Ed' C0. lia. }
  destruct (cap c - ind c1 <=? limit) eqn:T.
  - (* followed by merge_all: the counter is compacted *)
    apply Z.leb_le in T.
    destruct (ma_ok_strong c1) as (c2 & E2 & P2 & Hs & Hc2);
      [exact S1|clear - Q1 Q3 Hic; lia|rewrite Q2; fold P; clear - C1 HG; lia|exact Q4|].
    destruct P2 as (S2 & R1 & R2 & R3 & R4 & R5 & R6 & R7).
    rewrite E2. cbn [bind].
    assert (C2 : cnt (mn c2) (depth c2) <= 4 * (F + 1)).
    { pose proof (pow2_npos_le_cnt (mn c1) (depth c1)) as A1. pose proof (npos_nonneg (mn c1) (depth c1)) as A2.
      pose proof (pow2_4k (npos (mn c1) (depth c1)) F A2 HF ltac:(clear - A1 C1; lia)) as A3.
      clear - A3 Hc2. lia. }
    assert (D2 : depth c2 = 0 \/ 2 ^ (depth c2 - 1) <= 4 * (F + 1)).
    { destruct R7 as [Ed|[Ed Ed']].
      - rewrite Ed. destruct D1 as [D1|D1]; [left; exact D1|].
        destruct (Z_lt_le_dec (depth c1) 1); [left; clear - Hd1 l; lia|right].
        apply pow2_4k; [clear - l; lia|exact HF|clear - D1; lia].
      - right. rewrite Ed. replace (depth c1 + 1 - 1) with (depth c1) by lia.
        apply pow2_4k; [clear - Hd1; lia|exact HF|clear - Ed' C1; lia]. }
    assert (I2 : Inv Q c2 (4 * (F + 1))) by (split; [exact S2|split; [exact C2|exact D2]]).
    assert (HP2 : limit * F + 2 * ind c2 - Z.abs (nthZ (mn c2) 0) <= 2 * E)
      by (rewrite R4; clear - HP Hi0 Q3 R3; lia).
    assert (Hi2 : ind c2 <= cap c - 1) by (clear - R3 Q3 Hic; lia).
    assert (K2 : cap c2 = cap c) by (rewrite R1; exact Q1).
    assert (Z2 : zlen (mn c2) = zlen (mn c)) by (rewrite R2; exact Q2).
    assert (U2 : forall k, sumby (live c2) k = sumby (live c) k) by (intros k; rewrite R5, Q5; reflexivity).
    destruct (20 * ind c2 >=? 19 * cap c2) eqn:T2.
    + rewrite Z.geb_leb in T2. apply Z.leb_le in T2.
      destruct (grow_inv Q limit c2 (4 * (F + 1)) I2) as (I3 & G1 & G2 & G3 & G4); [rewrite K2; clear - Hi2; lia|].
      exists (coo_increase_mem limit c2), F. split; [reflexivity|].
      pose proof (grow_size_bounds limit (cap c) Hcap) as [Hg1 Hg2].
      assert (Hmz : zlen (mn (coo_increase_mem limit c2)) = Z.max (zlen (mn c2)) (grow_min_size (zlen (mn c2))))
        by (unfold coo_increase_mem; simpl; apply zlen_extend).
      split.
      { split; [exact I3|]. split; [exact HF|]. rewrite G1.
        replace (nthZ (mn (coo_increase_mem limit c2)) 0) with (nthZ (mn c2) 0)
          by (unfold coo_increase_mem; simpl; symmetry; apply nthZ_extend0). exact HP2. }
      rewrite G1, G2, G4, K2. rewrite Hmz, Z2. rewrite K2 in T2.
      split; [clear - Hi2 Hg1; lia|]. split; [clear - Hcap Hg1; lia|]. split; [exact U2|].
      split; [left; reflexivity|]. right.
      split; [reflexivity|]. split; [clear - Hg2; lia|]. split; [clear - Hg1; lia|]. split; [apply Z.le_max_l|]. split; [apply Z.le_max_r|].
      split; [exact Hs|exact T2].
    + rewrite Z.geb_leb in T2. apply Z.leb_gt in T2. rewrite K2 in T2.
      exists c2, F. split; [reflexivity|]. split; [split; [exact I2|split; [exact HF|exact HP2]]|].
      rewrite K2, Z2.
      split; [clear - T2 Hcap; lia|]. split; [exact Hcap|]. split; [exact U2|].
      split; [left; reflexivity|]. left. split; reflexivity.
  - (* not followed by merge_all: one more unit of F, paid by the window or by the shrinkage *)
    apply Z.leb_gt in T.
    exists c1, (F + 1). split; [reflexivity|].
    split.
    { split; [split; [exact S1|split]|split].
      - clear - C1; lia.
      - destruct D1 as [D1|D1]; [left; exact D1|right; clear - D1; lia].
      - clear - HF; lia.
      - rewrite Q4. clear - Hwhy HP Hi0 Q3 T Hic. destruct Hwhy as [W|W]; lia. }
    rewrite Q1, Q2.
    split; [clear - T Hl; lia|]. split; [exact Hcap|]. split; [exact Q5|].
    split; [right; split; [reflexivity|clear - T Q3 Hl; lia]|]. left. split; reflexivity.
Qed.

(* the shape of the postcondition shared by flush_tail, coo_append and the event loop *)
Definition grown_or_same (limit : Z) (c c' : coo) (F F' : Z) : Prop :=
  (cap c' = cap c /\ zlen (mn c') = zlen (mn c)) \/
  (F' = F /\ limit < cap c' /\ cap c < cap c' /\ zlen (mn c) <= zlen (mn c') /\
   grow_min_size (zlen (mn c)) <= zlen (mn c') /\ ssorted (live c') /\ 19 * cap c <= 20 * ind c').

(* ------------------------------------------------------------------ coo_append *)
Lemma coo_append_v limit c F E ev :
  1 <= limit -> VInv limit c F E -> ind c <= cap c - 2 -> 20 <= cap c -> (0 <= e_key ev /\ Q (rck ev)) ->
  4 * F + 6 < 2 ^ (zlen (mn c) - 1) ->
  exists c' F',
    coo_append limit c ev = Ok c' /\ VInv limit c' F' (E + 1) /\ ind c' <= cap c' - 2 /\ 20 <= cap c' /\
    (forall k, sumby (live c') k = sumby (live c) k + sumby [ev] k) /\
    (F' = F \/ (F' = F + 1 /\ limit < cap c)) /\ grown_or_same limit c c' F F'.
Proof.
  intros Hl (HI & HF & HP) Hic Hcap Hev HG.
  pose proof HI as ([Hd Hz Hch Hi Hk Hfree Hruns] & C & D).
  pose proof (Z.abs_nonneg (nthZ (mn c) 0)) as Habs.
  unfold coo_append. rewrite setZ_okA by (unfold cap in *; clear - Hi Habs Hic; lia). cbn [bind].
  set (c1 := {| buf := upd (buf c) (Z.to_nat (ind c)) ev; ind := ind c + 1; mn := mn c; depth := depth c |}).
  assert (L1 : live c1 = live c ++ [ev]) by (apply live_append; clear - Hi Habs Hic; lia).
  assert (I1 : Inv Q c1 (4 * (F + 1))).
  { split; [constructor; simpl; auto; try (clear - Hi; lia)|split; [exact C|exact D]].
    - rewrite L1. apply keys_nonneg_app. split; [exact Hk|]. constructor; [exact Hev|constructor].
    - intros j Hj. unfold run_at; simpl.
      assert (Z.abs (nthZ (mn c) j) <= Z.abs (nthZ (mn c) 0)) by (apply (chain_le (mn c) 0 (depth c)); [exact Hch|lia]).
      rewrite (slice_prefix_eq _ (buf c) _ _ (ind c)); [apply Hruns; exact Hj|apply Z.abs_nonneg|lia|apply firstn_upd]. }
  assert (V1 : VInv limit c1 F (E + 1)).
  { split; [exact I1|]. split; [exact HF|]. unfold c1; cbn [ind mn]. clear - HP. lia. }
  assert (K1 : cap c1 = cap c) by (unfold cap, c1; simpl; apply zlen_upd).
  assert (S1 : forall k, sumby (live c1) k = sumby (live c) k + sumby [ev] k)
    by (intros k; rewrite L1; apply sumby_app).
  assert (Z1 : zlen (mn c1) = zlen (mn c)) by reflexivity.
  assert (J1 : ind c1 = ind c + 1) by reflexivity.
  rewrite (getZ_nthZ _ (mn c1) 0) by (simpl; clear - Hd; lia). cbn [bind].
  clearbody c1.
  destruct (ind c1 - Z.abs (nthZ (mn c1) 0) >=? limit) eqn:T0.
  - rewrite Z.geb_leb in T0. apply Z.leb_le in T0.
    destruct (flush_tail_v limit c1 F (E + 1)) as (c2 & F' & E2 & V2 & J2 & C2 & U2 & FF & GG);
      [exact Hl|exact V1|rewrite K1, J1; clear - Hic; lia|rewrite K1; exact Hcap|rewrite Z1; exact HG|left; exact T0|].
    rewrite E2. cbn [bind].
    replace (ind c2 =? cap c2 - 1) with false by (symmetry; apply Z.eqb_neq; clear - J2; lia).
    exists c2, F'. split; [reflexivity|]. split; [exact V2|]. split; [exact J2|]. split; [exact C2|].
    split; [intros k; rewrite U2; apply S1|]. rewrite K1 in FF. split; [exact FF|].
    unfold grown_or_same in *. rewrite K1, Z1 in GG. exact GG.
  - cbn [bind]. destruct (ind c1 =? cap c1 - 1) eqn:T.
    + apply Z.eqb_eq in T.
      destruct (flush_tail_v limit c1 F (E + 1)) as (c2 & F' & E2 & V2 & J2 & C2 & U2 & FF & GG);
        [exact Hl|exact V1|rewrite K1, J1; clear - Hic; lia|rewrite K1; exact Hcap|rewrite Z1; exact HG|right; exact T|].
      exists c2, F'. split; [exact E2|]. split; [exact V2|]. split; [exact J2|]. split; [exact C2|].
      split; [intros k; rewrite U2; apply S1|]. rewrite K1 in FF. split; [exact FF|].
      unfold grown_or_same in *. rewrite K1, Z1 in GG. exact GG.
    + apply Z.eqb_neq in T. exists c1, F. split; [reflexivity|]. split; [exact V1|].
      rewrite K1 in T. rewrite K1. split; [clear - T J1 Hic; lia|]. split; [exact Hcap|]. split; [exact S1|].
      split; [left; reflexivity|]. left. split; [exact K1|exact Z1].
Qed.

(* ------------------------------------------------------------------ room in the min stack from the volume budget *)
(* M1 = a length the min stack is known to have whenever F > 0 *)
Lemma budget_room limit M1 zl F E Etot :
  1 <= limit -> 0 <= F -> limit * F <= 2 * E -> E <= Etot -> 6 < 2 ^ (zl - 1) ->
  (F = 0 \/ M1 <= zl) -> 8 * Etot + 6 * limit < limit * 2 ^ (M1 - 1) ->
  4 * F + 6 < 2 ^ (zl - 1).
Proof.
  intros Hl HF HP HE H6 [->|HM] HB; [lia|].
  assert (1 <= M1).
  { destruct (Z_lt_le_dec M1 1); [|lia]. rewrite Z.pow_neg_r in HB by lia.
    assert (0 <= Etot) by nia. lia. }
  pose proof (pow2_mono (M1 - 1) (zl - 1) ltac:(lia)) as HM2.
  set (A := 2 ^ (M1 - 1)) in *. set (B := 2 ^ (zl - 1)) in *.
  assert (limit * (4 * F + 6) < limit * B) by nia.
  apply (Z.mul_lt_mono_pos_l limit); lia.
Qed.

Lemma VInv_potential limit c F E : VInv limit c F E -> limit * F <= 2 * E /\ 0 <= F.
Proof.
  intros ((S0 & _ & _) & HF & HP). pose proof (so_ind Q c S0) as Hi.
  pose proof (Z.abs_nonneg (nthZ (mn c) 0)). split; [lia|exact HF].
Qed.

(* ------------------------------------------------------------------ the event loop, general regime *)
(* regime: either the buffer is still at most `limit` long (then no flush has ever skipped merge_all: F = 0, and the
   first growth will give `min` at least M1 slots), or `min` already has M1 slots *)
Definition regime (limit M1 : Z) (c : coo) (F : Z) : Prop :=
  (cap c <= limit /\ F = 0 /\ M1 <= grow_min_size (zlen (mn c))) \/ M1 <= zlen (mn c).

Lemma regime_F limit M1 c F : regime limit M1 c F -> F = 0 \/ M1 <= zlen (mn c).
Proof. intros [(_ & H & _)|H]; [left; exact H|right; exact H]. Qed.

Lemma appends_v limit M1 Etot : forall evs c F E,
  1 <= limit -> VInv limit c F E -> ind c <= cap c - 2 -> 20 <= cap c -> keys_nonneg Q evs ->
  6 < 2 ^ (zlen (mn c) - 1) -> regime limit M1 c F ->
  E + zlen evs <= Etot -> 8 * Etot + 6 * limit < limit * 2 ^ (M1 - 1) ->
  exists c' F',
    appends limit c evs = Ok c' /\ VInv limit c' F' (E + zlen evs) /\ ind c' <= cap c' - 2 /\ 20 <= cap c' /\
    6 < 2 ^ (zlen (mn c') - 1) /\ regime limit M1 c' F' /\
    (forall k, sumby (live c') k = sumby (live c) k + sumby evs k).
Proof.
  induction evs as [|ev t IH]; intros c F E Hl HV Hic Hcap Hk H6 HR HE HB.
  - exists c, F. replace (E + zlen (@nil entry)) with E by (zl; lia).
    split; [reflexivity|]. split; [exact HV|]. split; [exact Hic|]. split; [exact Hcap|]. split; [exact H6|].
    split; [exact HR|]. intros k. simpl. lia.
  - zl. inversion Hk as [|? ? Hev Ht]; subst. pose proof (zlen_nonneg t) as Lt.
    destruct (VInv_potential limit c F E HV) as [HP HF].
    assert (Hroom : 4 * F + 6 < 2 ^ (zlen (mn c) - 1)).
    { apply (budget_room limit M1 (zlen (mn c)) F E Etot); auto; [lia|apply (regime_F limit), HR]. }
    destruct (coo_append_v limit c F E ev Hl HV Hic Hcap Hev Hroom) as (c1 & F1 & E1 & V1 & J1 & C1 & U1 & FF & GG).
    simpl appends. rewrite E1. cbn [bind].
    assert (Hz : zlen (mn c) <= zlen (mn c1)).
    { destruct GG as [(_ & G)|(_ & _ & _ & G & _)]; lia. }
    assert (H61 : 6 < 2 ^ (zlen (mn c1) - 1)).
    { assert (1 <= zlen (mn c)).
      { destruct (Z_lt_le_dec (zlen (mn c)) 1); [|lia]. rewrite Z.pow_neg_r in H6 by lia. lia. }
      pose proof (pow2_mono (zlen (mn c) - 1) (zlen (mn c1) - 1) ltac:(lia)). lia. }
    assert (HR1 : regime limit M1 c1 F1).
    { destruct HR as [(R1 & R2 & R3)|R].
      - assert (F1 = 0) by (destruct FF as [->|(_ & FF)]; lia).
        destruct GG as [(G1 & G2)|(_ & _ & _ & _ & G & _)].
        + left. rewrite G1, G2. split; [exact R1|split; [assumption|exact R3]].
        + right. lia.
      - right. lia. }
    destruct (IH c1 F1 (E + 1)) as (c' & F' & E' & V' & J' & C' & H6' & R' & U'); auto; [lia|].
    exists c', F'. split; [exact E'|].
    replace (E + (1 + zlen t)) with (E + 1 + zlen t) by lia.
    split; [exact V'|]. split; [exact J'|]. split; [exact C'|]. split; [exact H6'|]. split; [exact R'|].
    intros k. rewrite U', U1. simpl. lia.
Qed.

(* the min-stack length that carries the volume budget of a buffer allocated with capacity n and |min| = mlen:
   a buffer that starts at most `limit` long runs without any un-merged flush until coo_increase_mem has grown it *)
Definition volume_mlen (limit n mlen : Z) : Z := if n <=? limit then grow_min_size mlen else mlen.

(* the event budget: 8 * #events + 6 * limit < limit * 2^(volume_mlen - 1) *)
Definition volume_ok (limit n mlen nev : Z) : Prop :=
  4 <= mlen /\ 8 * nev + 6 * limit < limit * 2 ^ (volume_mlen limit n mlen - 1).

Lemma init_VInv limit n mlen : 0 <= n -> 1 <= mlen -> VInv limit (init n mlen) 0 0.
Proof.
  intros Hn Hm. split; [apply (Inv_mono Q _ 0); [lia|apply init_inv; assumption]|].
  split; [lia|]. simpl. rewrite nthZ_repeat0. simpl. lia.
Qed.

Theorem run_total_volume limit n mlen evs :
  1 <= limit -> 20 <= n -> keys_nonneg Q evs -> volume_ok limit n mlen (zlen evs) ->
  exists s, run limit n mlen evs = Ok s /\ (forall k, denote s k = sumby evs k) /\
            StronglySorted Z.lt (map e_key (live s)) /\ keys_nonneg Q (live s).
Proof.
  intros Hl Hn Hk (Hm & HB).
  pose proof (init_VInv limit n mlen ltac:(lia) ltac:(lia)) as V0.
  assert (Z0 : zlen (mn (init n mlen)) = mlen) by (simpl; zl; lia).
  assert (C0 : cap (init n mlen) = n) by (unfold cap; simpl; zl; lia).
  assert (H6 : 6 < 2 ^ (mlen - 1)).
  { pose proof (pow2_mono 3 (mlen - 1) ltac:(lia)). change (2 ^ 3) with 8 in *. lia. }
  set (M1 := volume_mlen limit n mlen) in *.
  destruct (appends_v limit M1 (zlen evs) evs (init n mlen) 0 0) as (c & F & E & V & J & C & H6' & R & U); auto;
    try (rewrite ?C0, ?Z0; simpl ind; lia).
  { unfold regime, M1, volume_mlen. rewrite C0, Z0. destruct (n <=? limit) eqn:T.
    - left. apply Z.leb_le in T. split; [exact T|split; [reflexivity|lia]].
    - right. lia. }
  destruct (VInv_potential limit c F _ V) as [HP HF].
  assert (Hroom : 4 * F + 6 < 2 ^ (zlen (mn c) - 1)).
  { apply (budget_room limit M1 (zlen (mn c)) F (0 + zlen evs) (zlen evs)); auto; [lia|apply (regime_F limit), R]. }
  destruct V as (I & _ & _).
  destruct (finish_ok Q c (4 * (F + 1))) as (s & Ef & Sf & Uf & Ss); [exact I|lia|lia|].
  exists s. unfold run. rewrite E. cbn [bind]. split; [exact Ef|]. split; [|split; [exact Ss|apply Sf]].
  intros k. unfold denote. rewrite Uf, U. simpl. lia.
Qed.

End WithQ.

(* ------------------------------------------------------------------ no event bound at all: few distinct keys *)
(* When the buffer is at most `limit` long, every flush is followed by merge_all (F stays 0, the level counter stays
   <= 4, depth <= 3).  The buffer is enlarged only when merge_all leaves >= 0.95 * capacity entries, all with distinct
   keys; if the events have fewer distinct keys than that, it never grows and ANY number of events is safe. *)
Lemma ssorted_NoDup l : ssorted l -> NoDup (keys l).
Proof.
  unfold ssorted. induction 1 as [|x t Ht IH F]; constructor; [|exact IH].
  intros Hin. rewrite Forall_forall in F. specialize (F x Hin). lia.
Qed.

Section Compact.
Variable Q : Z * Z * Z -> Prop.
Variable K : list Z.                                   (* the keys that can occur *)
Hypothesis QK : forall t, Q t -> In (snd t) K.

Lemma ssorted_le_K l : ssorted l -> keys_nonneg Q l -> zlen l <= zlen K.
Proof.
  intros Hs Hk. pose proof (ssorted_NoDup l Hs) as ND.
  assert (I : incl (keys l) K).
  { intros x Hx. unfold keys in Hx. apply in_map_iff in Hx. destruct Hx as (e & <- & He).
    unfold keys_nonneg in Hk. rewrite Forall_forall in Hk. destruct (Hk e He) as [_ Hq].
    apply QK in Hq. exact Hq. }
  pose proof (NoDup_incl_length ND I) as L. unfold keys in L. rewrite map_length in L. unfold zlen. lia.
Qed.

Lemma zlen_live c : 0 <= ind c <= cap c -> zlen (live c) = ind c.
Proof. intros H. unfold live. apply zlen_firstn. exact H. Qed.

Lemma appends_compact limit n : forall evs c E,
  1 <= limit -> VInv Q limit c 0 E -> ind c <= cap c - 2 -> cap c = n -> 20 <= n <= limit -> keys_nonneg Q evs ->
  6 < 2 ^ (zlen (mn c) - 1) -> 20 * zlen K < 19 * n ->
  exists c',
    appends limit c evs = Ok c' /\ VInv Q limit c' 0 (E + zlen evs) /\ ind c' <= cap c' - 2 /\ cap c' = n /\
    zlen (mn c') = zlen (mn c) /\ depth c' <= 3 /\
    (forall k, sumby (live c') k = sumby (live c) k + sumby evs k).
Proof.
  induction evs as [|ev t IH]; intros c E Hl HV Hic Hcap Hn Hk H6 HK.
  - exists c. replace (E + zlen (@nil entry)) with E by (zl; lia).
    split; [reflexivity|]. split; [exact HV|]. split; [exact Hic|]. split; [exact Hcap|]. split; [reflexivity|].
    split; [|intros k; simpl; lia].
    destruct HV as ((S0 & _ & [D|D]) & _); [lia|]. pose proof (so_depth Q c S0) as Hd.
    destruct (Z_lt_le_dec 3 (depth c)); [|lia].
    pose proof (pow2_mono 3 (depth c - 1) ltac:(lia)) as HH. change (2 ^ 3) with 8 in HH. lia.
  - zl. inversion_clear Hk as [|? ? Hev Ht]. pose proof (zlen_nonneg t) as Lt.
    destruct (coo_append_v Q limit c 0 E ev Hl HV Hic ltac:(lia) Hev ltac:(lia)) as (c1 & F1 & E1 & V1 & J1 & C1 & U1 & FF & GG).
    simpl appends. rewrite E1. cbn [bind].
    assert (F1 = 0) by (destruct FF as [->|(_ & FF)]; lia). subst F1.
    destruct GG as [(G1 & G2)|(_ & _ & _ & _ & _ & Gs & Gi)].
    + destruct (IH c1 (E + 1) Hl V1 J1 ltac:(lia) Hn Ht ltac:(rewrite G2; exact H6) HK)
        as (c' & E' & V' & J' & C' & Z' & D' & U').
      exists c'. split; [exact E'|]. replace (E + (1 + zlen t)) with (E + 1 + zlen t) by lia.
      split; [exact V'|]. split; [exact J'|]. split; [exact C'|]. split; [lia|]. split; [exact D'|].
      intros k. rewrite U', U1. simpl. lia.
    + (* the buffer cannot grow: merge_all left distinct keys only, and there are fewer than 0.95 * capacity *)
      exfalso. destruct V1 as ((S1 & _) & _).
      pose proof (so_ind Q c1 S1) as Hi1. pose proof (Z.abs_nonneg (nthZ (mn c1) 0)).
      pose proof (ssorted_le_K (live c1) Gs (so_keys Q c1 S1)) as HL.
      rewrite zlen_live in HL by lia. lia.
Qed.

Theorem run_total_compact limit n mlen evs :
  1 <= limit -> 20 <= n <= limit -> 4 <= mlen -> keys_nonneg Q evs -> 20 * zlen K < 19 * n ->
  exists s, run limit n mlen evs = Ok s /\ (forall k, denote s k = sumby evs k) /\
            StronglySorted Z.lt (map e_key (live s)) /\ keys_nonneg Q (live s).
Proof.
  intros Hl Hn Hm Hk HK.
  pose proof (init_VInv Q limit n mlen ltac:(lia) ltac:(lia)) as V0.
  assert (Z0 : zlen (mn (init n mlen)) = mlen) by (simpl; zl; lia).
  assert (C0 : cap (init n mlen) = n) by (unfold cap; simpl; zl; lia).
  assert (H6 : 6 < 2 ^ (mlen - 1)).
  { pose proof (pow2_mono 3 (mlen - 1) ltac:(lia)). change (2 ^ 3) with 8 in *. lia. }
  destruct (appends_compact limit n evs (init n mlen) 0) as (c & E & V & J & C & Z & D & U); auto;
    try (rewrite ?C0, ?Z0; simpl ind; lia).
  destruct V as (I & _ & _).
  destruct (finish_ok Q c (4 * (0 + 1))) as (s & Ef & Sf & Uf & Ss); [exact I|lia|rewrite Z, Z0; simpl; lia|].
  exists s. unfold run. rewrite E. cbn [bind]. split; [exact Ef|]. split; [|split; [exact Ss|apply Sf]].
  intros k. unfold denote. rewrite Uf, U. simpl. lia.
Qed.

End Compact.

(* ------------------------------------------------------------------ matrix cells and chunks under the volume budget *)
Theorem run_cells_volume limit n mlen mul evs :
  1 <= limit -> 20 <= n -> volume_ok limit n mlen (zlen evs) ->
  Forall (fun e => 0 <= e_key e /\ wf_ev mul (rck e)) evs ->
  exists s, run limit n mlen evs = Ok s /\
            (forall r c, 0 <= c < mul -> cell (live s) r c = cell evs r c) /\
            StronglySorted Z.lt (map e_key (live s)).
Proof.
  intros Hl Hn HG Hev.
  destruct (run_total_volume (wf_ev mul) limit n mlen evs Hl Hn Hev HG) as (s & E & D & S & K).
  exists s. split; [exact E|]. split; [|exact S].
  intros r c Hc. rewrite (cell_sumby mul (live s) r c Hc), (cell_sumby mul evs r c Hc).
  - apply D.
  - eapply Forall_impl; [|exact Hev]. simpl. intros e He. apply He.
  - eapply Forall_impl; [|exact K]. simpl. intros e He. apply He.
Qed.

Lemma volume_ok_mono limit n mlen a b : a <= b -> volume_ok limit n mlen b -> volume_ok limit n mlen a.
Proof. intros H (H1 & H2). split; [exact H1|lia]. Qed.

Theorem end_to_end_volume doc (f : doc -> list entry) docs sizes n_threads limit (capf mlenf : Z * Z -> Z) k :
  length sizes = length docs -> 1 <= limit -> (forall ch, 20 <= capf ch) ->
  Forall (fun e => 0 <= e_key e) (events_of doc f docs) ->
  (forall ch, volume_ok limit (capf ch) (mlenf ch) (zlen (events_of doc f docs))) ->
  fold_right Z.add 0
    (map (fun ch => acc_matrix limit (capf ch) (mlenf ch) (events_of doc f (chunk_docs docs ch)) k)
         (chunk_boundaries sizes n_threads))
  = sumby (events_of doc f docs) k.
Proof.
  intros Hlen Hl Hcap Hk Hm.
  rewrite <- (chunked_matrix_total doc f docs sizes n_threads k Hlen). unfold chunked_matrix.
  f_equal. apply map_ext. intros ch.
  destruct (events_of_slice_bounds doc f docs ch) as [B1 B2].
  destruct (run_total_volume (fun _ => True) limit (capf ch) (mlenf ch) (events_of doc f (chunk_docs docs ch)))
    as (s & E & D & _); auto.
  - unfold keys_nonneg. rewrite Forall_forall in *. intros x Hx. split; [apply Hk, B2, Hx|exact I].
  - apply (volume_ok_mono _ _ _ _ _ B1), Hm.
  - unfold acc_matrix. rewrite E. apply D.
Qed.

(* for the Examples of Properties/C04.v: the final state of a run, None if it faulted *)
Definition run_state (limit n mlen : Z) (evs : list entry) : option coo :=
  match run limit n mlen evs with Ok s => Some s | OOB _ => None end.
