(* K1, array level, part 3: the level stack is bounded by the buffer geometry and the event VOLUME per sort window,
   not by the raw number of events.

   The first induction (K01_CooAcc_proofs.v, Inv) charges one unit of a ghost counter to every flush and every
   merge_all; its hypothesis `2 * #events + 2 < 2^(|min| - 1)` covers ~254 events at the drivers' |min| = 10.
   What really happens:
     - merge_all_sum_duplicates compacts the stack: afterwards ONE level is occupied, and the level counter is
       2^(number of levels that were occupied)   (ma_ok_strong);
     - a flush that is followed by merge_all therefore leaves the counter at <= 4 when it was <= 4 (depth <= 3), and in
       general at <= 4 * (F + 1), where F is the number of flushes NOT followed by merge_all;
     - a flush is not followed by merge_all only when `capacity - ind' > limit`; such a flush either closes a sort
       window of >= limit appended entries (first `if` of coo_append) or shrinks `ind` by >= limit (second `if`:
       ind = capacity - 1 before, ind' < capacity - limit after).  Every event is appended once and removed at most
       once, hence  limit * F <= 2 * #events  (potential: limit * F + 2 * ind - |min[0]| <= 2 * #events);
     - F > 0 needs capacity > limit, which for a buffer that started at capacity <= limit means that
       coo_increase_mem has enlarged `min` at least once.
   The event bound cannot be dropped altogether: with limit < capacity a stream of equal keys is flushed every `limit`
   events without ever reaching the merge_all test, and the level counter overflows `min` after about
   limit * 2^|min| events (C04_volume_bound_needed in Properties/C04.v runs it at limit = 1).  *)
From Coq Require Import ZArith List Bool Lia Sorting.Sorted Permutation.
From VZ Require Import Model.K01_CooAcc Proofs.K01_CooAcc_list Proofs.K01_CooAcc_arrays Proofs.K01_CooAcc_proofs.
Import ListNotations.
Open Scope Z_scope.

(* ------------------------------------------------------------------ powers of two below 4F + 6 *)
Lemma pow2_4k d F : 0 <= d -> 0 <= F -> 2 ^ d <= 4 * F + 6 -> 2 ^ d <= 4 * (F + 1).
Proof.
  intros Hd HF H. destruct (Z_lt_le_dec d 2).
  - assert (d = 0 \/ d = 1) as [-> | ->] by lia; [change (2 ^ 0) with 1|change (2 ^ 1) with 2]; lia.
  - replace d with (2 + (d - 2)) in * by lia. rewrite Z.pow_add_r in * by lia.
    change (2 ^ 2) with 4 in *. pose proof (pow2_pos (d - 2) ltac:(lia)). lia.
Qed.

Definition npos (m : list Z) (d : Z) : Z := npos_range m 0 (Z.to_nat d).

Lemma pow2_npos_le_cnt m d : 2 ^ npos m d <= cnt m d + 1.
Proof.
  unfold npos, cnt. pose proof (cnt_range_npos m (Z.to_nat d) 0 ltac:(lia)) as H.
  change (2 ^ 0) with 1 in H. lia.
Qed.

Lemma npos_nonneg m d : 0 <= npos m d.
Proof. unfold npos. apply npos_range_bounds. Qed.

Section WithQ.
Variable Q : Z * Z * Z -> Prop.

(* ------------------------------------------------------------------ merge_all_sum_duplicates compacts the stack *)
(* ma_ok with one more conclusion: the level counter afterwards is at most 2^(number of occupied levels before) *)
Lemma ma_ok_strong c :
  stack_ok Q c -> ind c <= cap c -> cnt (mn c) (depth c) + 1 < 2 ^ (zlen (mn c) - 1) ->
  Z.abs (nthZ (mn c) 0) = ind c ->
  exists c', merge_all_sum_duplicates c = Ok c' /\ op_post Q c c' /\ ssorted (live c') /\
             cnt (mn c') (depth c') <= 2 ^ npos (mn c) (depth c).
Proof.
  intros [Hd Hz Hch Hi Hk Hfree Hruns] Huc Hcnt Htail.
  set (d := depth c) in *. set (m := mn c) in *.
  set (X := slice m 0 d).
  assert (SX : seg m 0 d X) by (apply seg_slice; lia).
  assert (LX : zlen X = d) by (destruct SX as (_ & H & _); lia).
  assert (EX : X = firstn (Z.to_nat d) m) by (unfold X, slice; rewrite Z.sub_0_r; reflexivity).
  set (pos := filter gt0 X).
  assert (Lp : 0 <= zlen pos <= d).
  { split; [apply zlen_nonneg|]. rewrite <- LX. unfold pos, zlen.
    pose proof (filter_length_le' gt0 X). lia. }
  unfold merge_all_sum_duplicates. fold d. fold m.
  replace (Z.to_nat d) with (length X) by (unfold zlen in LX; lia).
  rewrite (positives_ok m X 0 d SX). simpl bind. fold pos.
  set (new_min := pos ++ repeat 0 (length X - length pos)).
  assert (Ln : zlen new_min = d).
  { unfold new_min. zl. unfold zlen in *. lia. }
  destruct (assign_slice_ok S_ma_assign m 0 d new_min) as (m2 & E1 & E2 & E3); [lia|lia|lia|].
  rewrite E1. simpl bind.
  simpl firstn in E2. rewrite app_nil_l in E2.
  assert (N1 : forall j, 0 <= j < zlen pos -> nthZ m2 j = nthZ pos j).
  { intros j Hj. rewrite E2. unfold new_min. rewrite <- app_assoc. apply nthZ_app_l. lia. }
  assert (N2 : forall j, zlen pos <= j < d -> nthZ m2 j = 0).
  { intros j Hj. rewrite E2. unfold new_min. rewrite <- app_assoc. rewrite nthZ_app_r by lia.
    rewrite nthZ_app_l by (zl; unfold zlen in *; lia). apply nthZ_repeat. unfold zlen in *. lia. }
  assert (N3 : forall j, d <= j -> nthZ m2 j = 0).
  { intros j Hj. rewrite E2. rewrite nthZ_app_r by lia. rewrite Ln.
    destruct (Z_lt_le_dec j (zlen m)).
    - unfold nthZ. destruct (j - d <? 0) eqn:E; [apply Z.ltb_lt in E; lia|].
      rewrite nth_skipn'. replace (Z.to_nat d + Z.to_nat (j - d))%nat with (Z.to_nat j) by lia.
      specialize (Hz j Hj). unfold nthZ in Hz. destruct (j <? 0) eqn:E'; [apply Z.ltb_lt in E'; lia|]. exact Hz.
    - apply nthZ_beyond. rewrite zlen_skipn by lia. lia. }
  assert (PX : forall x, In x pos -> x > 0 /\ In x X).
  { intros x Hx. apply filter_In in Hx. destruct Hx as [H1 H2]. unfold gt0 in H2. apply Z.gtb_lt in H2. split; [lia|exact H1]. }
  assert (SXs : StronglySorted absge X).
  { apply adjacent_sorted. intros j Hj0 Hj. rewrite EX, !nthZ_firstn by lia. apply Hch. lia. }
  assert (Sp : StronglySorted absge pos) by (apply filter_sorted, SXs).
  assert (RL : runs_list (buf c) X 0).
  { apply (runs_list_of_pointwise (buf c) m 0 X 0 d SX); [apply Hz; lia| |].
    - intros j Hj. apply Hfree. lia.
    - intros j Hj. apply (Hruns j). lia. }
  assert (RL2 : runs_list (buf c) new_min 0) by (apply runs_filter, RL).
  assert (S2 : seg m2 0 d new_min).
  { split; [lia|]. split; [lia|]. rewrite slice0_firstn, E2. apply firstnZ_app. symmetry; exact Ln. }
  pose proof (pointwise_of_runs_list (buf c) m2 0 new_min 0 d S2 (N3 d ltac:(lia)) RL2) as PW.
  assert (H0 : Z.abs (nthZ m2 0) = Z.abs (nthZ m 0)).
  { rewrite <- (start_of_seg m2 new_min 0 d 0 S2 (N3 d ltac:(lia))).
    rewrite <- (start_of_seg m X 0 d 0 SX (Hz d ltac:(lia))). apply (start_filter (buf c)), RL. }
  assert (SO : stack_ok Q (set_mn c m2)).
  { constructor; unfold set_mn; simpl; fold d.
    - lia.
    - intros j Hj. apply N3, Hj.
    - intros j Hj.
      destruct (Z_lt_le_dec (j + 1) (zlen pos)).
      + rewrite !N1 by lia. apply (sorted_adjacent pos Sp); lia.
      + assert (nthZ m2 (j + 1) = 0) as ->.
        { destruct (Z_lt_le_dec (j + 1) d); [apply N2; lia|apply N3; lia]. }
        simpl. apply Z.abs_nonneg.
    - rewrite H0. fold m in Hi. exact Hi.
    - exact Hk.
    - intros j Hj. apply (PW j). lia.
    - intros j Hj. unfold run_at; simpl. apply (PW j). lia. }
  (* the compacted stack counts exactly 2^|pos| - 1 *)
  assert (C2e : cnt m2 d = 2 ^ zlen pos - 1).
  { unfold cnt.
    replace (Z.to_nat d) with (Z.to_nat (zlen pos) + Z.to_nat (d - zlen pos))%nat at 1 by lia.
    rewrite cnt_range_split. rewrite Z.add_0_l, Z2Nat.id by lia.
    rewrite (cnt_range_pos m2) by (try lia; intros j Hj; rewrite N1 by lia;
                                   apply PX, nthZ_in; lia).
    rewrite (cnt_range_nonpos m2) by (intros j Hj; rewrite N2 by lia; lia).
    rewrite Z2Nat.id by lia. replace (0 + zlen pos) with (zlen pos) by lia.
    change (2 ^ 0) with 1. lia. }
  assert (NP : npos m d = zlen pos).
  { unfold npos. replace (Z.to_nat d) with (length X) by (unfold zlen in LX; lia).
    rewrite (npos_filter m X 0 d SX). reflexivity. }
  assert (C2 : cnt m2 d <= cnt m d).
  { pose proof (pow2_npos_le_cnt m d) as QQ. rewrite NP in QQ. lia. }
  destruct (msd_ok Q (set_mn c m2) SO) as (c' & M1 & M2 & M3 & M4 & M5 & M6 & M7 & M8 & M9 & M10).
  { exact Huc. }
  { unfold set_mn; simpl. fold d. rewrite E3. fold m in Hcnt. lia. }
  { unfold set_mn; simpl. rewrite H0. fold m in Htail. rewrite Htail, slice_empty. apply ssorted_nil. }
  exists c'. split; [exact M1|].
  assert (Hsorted : ssorted (live c')).
  { specialize (M10 (zlen pos)). unfold set_mn in M10; simpl in M10. fold d in M10.
    assert (Hp0 : nthZ m2 (zlen pos) = 0).
    { destruct (Z_lt_le_dec (zlen pos) d); [apply N2; lia|apply N3; lia]. }
    rewrite Hp0 in M10. simpl in M10. rewrite slice0_firstn in M10. apply M10; try lia.
    intros j Hj. rewrite N1 by lia. apply PX, nthZ_in; lia. }
  unfold set_mn in *; simpl in *. fold d in M8, M9.
  split; [|split; [exact Hsorted|rewrite NP; lia]].
  unfold d, m in *.
  split; [exact M2|]. split; [exact M3|]. split; [rewrite M4; exact E3|]. split; [exact M5|].
  split; [exact M6|]. split; [exact M7|]. split; [lia|].
  destruct M9 as [M9|[M9 M9']]; [left; exact M9|right; split; [exact M9|lia]].
Qed.

End WithQ.
